import Gnmi.Lemmas.ConnLTS
/-!
# C16 — shared gRPC connections are reference-counted correctly

Property theorems about the connection-manager LTS `Gnmi.Conn` (`Model/ConnLTS.lean`, a
transcription of `connection/connection.go` whose transitions are the code's atomic
sections).  Everything is stated for every configuration reachable from the empty manager
(`Reach`): any number of requester goroutines and addresses, any interleaving, any dial
outcomes (`ok | fail | cancelled`, returned whenever the scheduler lets the dial step run —
"slow" is a dial step that is scheduled late), contexts cancelled at any moment, unknown
dialer names, `done` called any number of times at any moment.

All statements are consequences of the inductive invariant `Conn.Inv` (`inv_init`,
`inv_step`).  Standing caveat: this is a proof about the protocol LTS; that the LTS's
atomic sections are the code's is validated by the `cn` correspondence, not proved.

Reading guide: `live c o ob` = object `o` is the one registered in `m.conns` under its
address; `cnt o c.reqs` = number of requesters that executed the locked create-or-join
section on `o` (`c.ref++`) and have not yet run their once-guarded release — waiters,
requesters between `<-c.ready` and `return`, and holders of an unreleased `done`;
`ob.closed` = number of `Close()` calls made on the object's `*grpc.ClientConn`.
-/
namespace Gnmi
namespace C16
open Conn

/-! ## the invariant -/

/-- The empty manager satisfies the invariant. -/
theorem inv_init : Inv init := Conn.inv_init

/-- Every transition (any thread, any atomic section, any dial outcome) preserves it. -/
theorem inv_step {c c' : Cfg} {l : Label} (hinv : Inv c) (h : step c l = some c') : Inv c' :=
  Conn.inv_step hinv h

/-- Hence it holds in every reachable configuration. -/
theorem inv_reach {c : Cfg} (h : Reach c) : Inv c := Conn.inv_reach h

/-- `remove` is never called for an address that is not registered: the nil dereference in
`Manager.remove` (`c.c` after a failed map lookup) is unreachable. -/
theorem no_panic {c : Cfg} (h : Reach c) : c.panicked = false := (inv_reach h).nopanic

/-- `m.conns` has at most one entry per address (it is a Go map) and every entry points to an
existing object created for that address. -/
theorem map_wellformed {c : Cfg} (h : Reach c) :
    KeysNodup c.conns ∧
    ∀ (a : Addr) (o : Nat), find c.conns a = some o → ∃ ob : Obj, c.objs[o]? = some ob ∧ ob.addr = a :=
  ⟨(inv_reach h).keys, (inv_reach h).map⟩

/-! ## single flight -/

/-- Per address at most one dial is in flight (spawned and not yet returned from the Dial
function). -/
theorem single_flight {c : Cfg} (h : Reach c) {o1 o2 : Nat} {ob1 ob2 : Obj}
    (h1 : c.objs[o1]? = some ob1) (h2 : c.objs[o2]? = some ob2) (ha : ob1.addr = ob2.addr)
    (f1 : ob1.dpc.inFlight = true) (f2 : ob2.dpc.inFlight = true) : o1 = o2 := by
  have l1 : find c.conns ob1.addr = some o1 := ((inv_reach h).objs o1 ob1 h1).pre_live (DPc.pre_of_inFlight f1)
  have l2 : find c.conns ob2.addr = some o2 := ((inv_reach h).objs o2 ob2 h2).pre_live (DPc.pre_of_inFlight f2)
  rw [ha, l2] at l1
  cases l1; rfl

/-- An object whose dial is in flight (or has failed but not yet been unregistered) is the
registered one, it is not ready, and has neither result nor error yet. -/
theorem in_flight_registered {c : Cfg} (h : Reach c) {o : Nat} {ob : Obj} (ho : c.objs[o]? = some ob)
    (hp : ob.dpc.pre = true) :
    live c o ob ∧ ob.ready = false ∧ ob.err = none ∧ ob.conn = none := by
  have hi := (inv_reach h).objs o ob ho
  refine ⟨hi.pre_live hp, ?_, (hi.pre_blank hp).1, (hi.pre_blank hp).2⟩
  apply not_ready_of_pc (inv_reach h) ho
  intro e; rw [e] at hp; cases hp

/-- A request that arrives while a dial for its address is in flight joins it: no new
object, no new Dial invocation; the requester waits for that object. -/
theorem join_in_flight {c : Cfg} (h : Reach c) {o : Nat} {ob : Obj} (ho : c.objs[o]? = some ob)
    (hp : ob.dpc.pre = true) {r : Nat} {q : Req} (hq : c.reqs[r]? = some q) (hpc : q.pc = .r1)
    (ha : q.addr = ob.addr) :
    ∃ c', step c (.r1 r) = some c' ∧ c'.objs.length = c.objs.length ∧ c'.dials = c.dials ∧
      c'.reqs[r]? = some { q with pc := .wait o } ∧
      c'.objs[o]? = some { ob with ref := ob.ref + 1 } := by
  have hl : find c.conns q.addr = some o := by rw [ha]; exact ((inv_reach h).objs o ob ho).pre_live hp
  refine ⟨doR1 c r q, ?_, ?_, ?_, ?_, ?_⟩
  · simp [step, no_panic h, stepL, hq, hpc]
  · simp [doR1, hl, ho]
  · simp [doR1, hl, ho]
  · simp [doR1, hl, ho, getElem?_set_of hq]
  · simp [doR1, hl, ho, getElem?_set_of ho]

/-- Once an object is ready its outcome (`c.err`, `c.c`) never changes again, objects are
never deallocated, and the number of `Close()` calls on a connection never decreases. -/
theorem outcome_stable {c c' : Cfg} {l : Label} (h : Reach c) (hs : step c l = some c')
    {o : Nat} {ob : Obj} (ho : c.objs[o]? = some ob) :
    ∃ ob' : Obj, c'.objs[o]? = some ob' ∧ ob'.addr = ob.addr ∧ ob.closed ≤ ob'.closed ∧
      (ob.ready = true → ob'.ready = true ∧ ob'.err = ob.err ∧ ob'.conn = ob.conn) :=
  step_mono (inv_reach h) hs o ob ho

/-- … and so along any schedule. -/
theorem outcome_stable_run {c c' : Cfg} (ls : List Label) (h : Reach c) (hr : run c ls = some c')
    {o : Nat} {ob : Obj} (ho : c.objs[o]? = some ob) :
    ∃ ob' : Obj, c'.objs[o]? = some ob' ∧ ob'.addr = ob.addr ∧ ob.closed ≤ ob'.closed ∧
      (ob.ready = true → ob'.ready = true ∧ ob'.err = ob.err ∧ ob'.conn = ob.conn) := by
  induction ls generalizing c ob with
  | nil =>
    simp only [run, Option.some.injEq] at hr; subst hr
    exact ⟨ob, ho, rfl, Nat.le_refl _, fun hr => ⟨hr, rfl, rfl⟩⟩
  | cons l ls ih =>
    simp only [run] at hr
    cases hs : step c l with
    | none => simp [hs] at hr
    | some c1 =>
      simp only [hs] at hr
      obtain ⟨ob1, g1, g2, g3, g4⟩ := outcome_stable h hs ho
      obtain ⟨ob2, k1, k2, k3, k4⟩ := ih (Reach.step l h hs) hr g1
      refine ⟨ob2, k1, k2.trans g2, Nat.le_trans g3 k3, fun hr => ?_⟩
      obtain ⟨r1, e1, c1⟩ := g4 hr
      obtain ⟨r2, e2, c2⟩ := k4 r1
      exact ⟨r2, e2.trans e1, c2.trans c1⟩

/-- All joiners get the shared outcome: a requester woken by `close(c.ready)` returns exactly
what the (ready, hence immutable) object says — the error for everybody, or the connection
for everybody. -/
theorem joiners_get_outcome {c : Cfg} (h : Reach c) {r : Nat} {q : Req} (hq : c.reqs[r]? = some q)
    {o : Nat} (hpc : q.pc = .woken o) :
    ∃ ob : Obj, c.objs[o]? = some ob ∧ ob.ready = true ∧
      ((∃ e, ob.err = some e ∧ ob.conn = none ∧
          step c (.r3 r) = some { c with reqs := c.reqs.set r { q with pc := .failed e } }) ∨
       (∃ k, ob.err = none ∧ ob.conn = some k ∧
          step c (.r3 r) = some { c with reqs := c.reqs.set r { q with pc := .held o false } })) := by
  obtain ⟨ob, ho, _, hr⟩ := ((inv_reach h).reqs r q hq).woken_ok o hpc
  refine ⟨ob, ho, hr, ?_⟩
  have hi := (inv_reach h).objs o ob ho
  have hfin : ob.dpc = .fin := hi.ready_iff.mp hr
  have hpre : ob.dpc.pre = false := by rw [hfin]; rfl
  rcases hi.outcome hpre with ⟨h1, h2⟩ | ⟨h1, h2⟩
  · left
    cases he : ob.err with
    | none => rw [he] at h1; simp at h1
    | some e => exact ⟨e, rfl, h2, by simp [step, no_panic h, stepL, hq, hpc, ho, he]⟩
  · right
    cases hc : ob.conn with
    | none => rw [hc] at h2; simp at h2
    | some k => exact ⟨k, h1, rfl, by simp [step, no_panic h, stepL, hq, hpc, ho, h1]⟩

/-! ## the reference count is the number of holders -/

/-- For every registered object `ref` = number of requesters that joined it and have not
run their release (and there is at least one). -/
theorem ref_is_holders {c : Cfg} (h : Reach c) {o : Nat} {ob : Obj} (ho : c.objs[o]? = some ob)
    (hl : live c o ob) : ob.ref = (cnt o c.reqs : Int) ∧ 1 ≤ cnt o c.reqs := by
  have := ((inv_reach h).objs o ob ho).live_ref hl
  exact ⟨this.1, this.2.1⟩

/-- An object is registered exactly while it is useful: its dial has not yet run its
failure path, or it succeeded and somebody still refers to it. Failed objects are never
registered once their error is published. -/
theorem registered_iff {c : Cfg} (h : Reach c) {o : Nat} {ob : Obj} (ho : c.objs[o]? = some ob) :
    live c o ob ↔ (ob.dpc.pre = true ∨ (ob.conn.isSome = true ∧ 1 ≤ cnt o c.reqs)) := by
  have hi := (inv_reach h).objs o ob ho
  constructor
  · intro hl
    cases hp : ob.dpc.pre with
    | true => exact Or.inl rfl
    | false =>
      right
      rcases hi.outcome hp with ⟨h1, _⟩ | ⟨_, h2⟩
      · exact absurd hl (hi.err_dead h1)
      · exact ⟨h2, (hi.live_ref hl).2.1⟩
  · rintro (hp | ⟨hc, hn⟩)
    · exact hi.pre_live hp
    · apply Classical.byContradiction
      intro nl
      have := hi.dead_conn nl hc
      omega

/-- A successful object that has been unregistered has no holder left, `ref = 0`, and its
connection has been closed exactly once. -/
theorem unregistered_unheld {c : Cfg} (h : Reach c) {o : Nat} {ob : Obj} (ho : c.objs[o]? = some ob)
    (hl : ¬ live c o ob) (hc : ob.conn.isSome = true) :
    cnt o c.reqs = 0 ∧ ob.ref = 0 ∧ ob.closed = 1 := by
  have := ((inv_reach h).objs o ob ho).dead_conn hl hc
  exact ⟨this.2.1, this.2.2, this.1⟩

/-- Every registered object has a waiter or holder: nothing stays registered (and open)
without somebody who will release it. -/
theorem registered_has_holder {c : Cfg} (h : Reach c) {a : Addr} {o : Nat} (hf : find c.conns a = some o) :
    ∃ (r : Nat) (q : Req), c.reqs[r]? = some q ∧ q.pc.holds o = true := by
  obtain ⟨ob, ho, ha⟩ := (inv_reach h).map a o hf
  have hl : live c o ob := by unfold live; rw [ha]; exact hf
  have hn := (ref_is_holders h ho hl).2
  unfold cnt at hn
  obtain ⟨q, hq, hh⟩ := List.countP_pos_iff.mp hn
  obtain ⟨r, hr⟩ := List.mem_iff_getElem?.mp hq
  exact ⟨r, q, hr, hh⟩

/-! ## never closed while held -/

/-- A connection is never closed while a requester that joined its object has not released
it — this covers holders of an unreleased `done` as well as requesters still blocked in
`<-c.ready` or between the wake-up and the `return`. -/
theorem never_closed_while_held {c : Cfg} (h : Reach c) {r : Nat} {q : Req} (hq : c.reqs[r]? = some q)
    {o : Nat} (hh : q.pc.holds o = true) {ob : Obj} (ho : c.objs[o]? = some ob) : ob.closed = 0 := by
  have hi := (inv_reach h).objs o ob ho
  by_cases hl : live c o ob
  · exact (hi.live_ref hl).2.2
  · cases hc : ob.conn with
    | none => exact hi.dead_noconn hl hc
    | some k =>
      have := hi.dead_conn hl (by rw [hc]; rfl)
      have := cnt_pos hq hh
      omega

/-- What a caller holds between a successful return and its first `done`: a real connection
(`c.c ≠ nil`), open, still registered, with `ref ≥ 1`. -/
theorem handed_conn_open {c : Cfg} (h : Reach c) {r : Nat} {q : Req} (hq : c.reqs[r]? = some q)
    {o : Nat} (hpc : q.pc = .held o false) :
    ∃ (ob : Obj) (k : Nat), c.objs[o]? = some ob ∧ ob.conn = some k ∧ ob.closed = 0 ∧ live c o ob ∧ 1 ≤ ob.ref := by
  obtain ⟨ob, ho, _⟩ := ((inv_reach h).reqs r q hq).held_ok o false hpc
  obtain ⟨hl, hc, _, _, href, hge, hcl⟩ := held_facts (inv_reach h) hq hpc ho
  cases hk : ob.conn with
  | none => rw [hk] at hc; simp at hc
  | some k => exact ⟨ob, k, ho, hk, hcl, hl, by omega⟩

/-- A connection belongs to exactly one object: two objects never hold the `*grpc.ClientConn`
of the same Dial invocation (so "closed", recorded per object, is "closed" per connection,
and a holder's connection cannot be closed through another object). -/
theorem conn_unique {c : Cfg} (h : Reach c) {o1 o2 : Nat} {ob1 ob2 : Obj} {k : Nat}
    (h1 : c.objs[o1]? = some ob1) (h2 : c.objs[o2]? = some ob2)
    (c1 : ob1.conn = some k) (c2 : ob2.conn = some k) : o1 = o2 := by
  have tag : ∀ (o : Nat) (ob : Obj), c.objs[o]? = some ob → ob.conn = some k → tagOf ob = some k := by
    intro o ob ho hc
    unfold tagOf
    split
    · rename_i n hpc
      have := (((inv_reach h).objs o ob ho).pre_blank (by rw [hpc]; rfl)).2
      rw [this] at hc; cases hc
    · exact hc
  exact uniq_reach h o1 o2 ob1 ob2 k h1 h2 (tag o1 ob1 h1 c1) (tag o2 ob2 h2 c2)

/-! ## closed exactly once, and forgotten -/

/-- No connection is ever closed twice. -/
theorem closed_le_one {c : Cfg} (h : Reach c) {o : Nat} {ob : Obj} (ho : c.objs[o]? = some ob) :
    ob.closed ≤ 1 := by
  have hi := (inv_reach h).objs o ob ho
  by_cases hl : live c o ob
  · have := (hi.live_ref hl).2.2; omega
  · cases hc : ob.conn with
    | none => have := hi.dead_noconn hl hc; omega
    | some k => have := hi.dead_conn hl (by rw [hc]; rfl); omega

/-- The release that takes the count to zero closes the connection (now closed exactly once)
and unregisters the address. -/
theorem last_release_closes_and_forgets {c : Cfg} (h : Reach c) {r : Nat} {q : Req}
    (hq : c.reqs[r]? = some q) {o : Nat} (hpc : q.pc = .held o false) {ob : Obj}
    (ho : c.objs[o]? = some ob) (hlast : cnt o c.reqs = 1) :
    ∃ c', step c (.done r) = some c' ∧ find c'.conns ob.addr = none ∧
      c'.objs[o]? = some { ob with ref := 0, closed := 1 } ∧
      c'.reqs[r]? = some { q with pc := .held o true } := by
  have hinv := inv_reach h
  obtain ⟨_, _, _, _, href, _, hcl⟩ := held_facts hinv hq hpc ho
  refine ⟨doDone c r q o ob, by simp [step, no_panic h, stepL, hq, hpc, ho], ?_, ?_, ?_⟩
  · rw [doDone_last hinv hq hpc ho hlast]; simp [find_erase]
  · rw [doDone_last hinv hq hpc ho hlast]
    have : ob.ref - 1 = 0 := by omega
    simp [getElem?_set_of ho, this, hcl]
  · rw [doDone_last hinv hq hpc ho hlast]; simp [getElem?_set_of hq]

/-- Any earlier release only decrements: the connection stays open and registered. -/
theorem earlier_release_keeps_open {c : Cfg} (h : Reach c) {r : Nat} {q : Req}
    (hq : c.reqs[r]? = some q) {o : Nat} (hpc : q.pc = .held o false) {ob : Obj}
    (ho : c.objs[o]? = some ob) (hmore : cnt o c.reqs ≠ 1) :
    ∃ c', step c (.done r) = some c' ∧ c'.conns = c.conns ∧
      c'.objs[o]? = some { ob with ref := ob.ref - 1 } ∧ ob.closed = 0 ∧
      c'.reqs[r]? = some { q with pc := .held o true } := by
  have hinv := inv_reach h
  obtain ⟨_, _, _, _, _, _, hcl⟩ := held_facts hinv hq hpc ho
  refine ⟨doDone c r q o ob, by simp [step, no_panic h, stepL, hq, hpc, ho], ?_, ?_, hcl, ?_⟩
  · rw [doDone_more hinv hq hpc ho hmore]
  · rw [doDone_more hinv hq hpc ho hmore]; simp [getElem?_set_of ho]
  · rw [doDone_more hinv hq hpc ho hmore]; simp [getElem?_set_of hq]

/-- A closed connection is forgotten for good: its object is not registered in any later
configuration either (closing is permanent by `outcome_stable`/`closed_le_one`). -/
theorem closed_is_forgotten {c : Cfg} (h : Reach c) {o : Nat} {ob : Obj} (ho : c.objs[o]? = some ob)
    (hc : ob.closed = 1) : ¬ live c o ob := by
  intro hl
  have := (((inv_reach h).objs o ob ho).live_ref hl).2.2
  omega

/-- … so that the next request for the address creates a new object and spawns a new dial
goroutine (whose first step invokes the Dial function afresh). -/
theorem next_request_dials_afresh {c : Cfg} (h : Reach c) {a : Addr} (hf : find c.conns a = none)
    {r : Nat} {q : Req} (hq : c.reqs[r]? = some q) (hpc : q.pc = .r1) (ha : q.addr = a) :
    ∃ c', step c (.r1 r) = some c' ∧ find c'.conns a = some c.objs.length ∧
      c'.objs[c.objs.length]? = some { addr := a, ref := 1, creator := r, dialerOK := q.dialerOK } ∧
      c'.reqs[r]? = some { q with pc := .wait c.objs.length } ∧
      (q.dialerOK = true → ∃ c'', step c' (.d1a c.objs.length) = some c'' ∧ c''.dials = c.dials + 1) := by
  subst ha
  refine ⟨doR1 c r q, by simp [step, no_panic h, stepL, hq, hpc], ?_, ?_, ?_, ?_⟩
  · simp [doR1, hf, find_cons]
  · simp [doR1, hf]
  · simp [doR1, hf, getElem?_set_of hq]
  · intro hd
    have hp : (doR1 c r q).panicked = false := by simp [doR1, hf, no_panic h]
    refine ⟨_, by simp [step, hp, stepL]; simp [doR1, hf, hd]; rfl, ?_⟩
    simp

/-- Leak freedom at quiescence: when no requester refers to any object any more, nothing is
registered, and every connection that was ever produced has been closed exactly once. -/
theorem all_released_all_closed {c : Cfg} (h : Reach c)
    (hnone : ∀ (r : Nat) (q : Req), c.reqs[r]? = some q → ∀ o, q.pc.holds o = false) :
    (∀ a, find c.conns a = none) ∧
    (∀ (o : Nat) (ob : Obj), c.objs[o]? = some ob → ob.dpc.pre = false →
      (ob.conn.isSome = true → ob.closed = 1) ∧ (ob.conn = none → ob.closed = 0)) := by
  have hempty : ∀ a, find c.conns a = none := by
    intro a
    cases hf : find c.conns a with
    | none => rfl
    | some o =>
      obtain ⟨r, q, hq, hh⟩ := registered_has_holder h hf
      rw [hnone r q hq o] at hh; cases hh
  refine ⟨hempty, ?_⟩
  intro o ob ho _
  have hl : ¬ live c o ob := by unfold live; rw [hempty]; intro e; cases e
  have hi := (inv_reach h).objs o ob ho
  exact ⟨fun hc => (hi.dead_conn hl hc).1, fun hc => hi.dead_noconn hl hc⟩

/-! ## releasing twice, releasing after an error -/

/-- Calling a done func again has no effect (whatever happened in between is irrelevant:
the second call is a no-op in *every* reachable configuration where the first has fired). -/
theorem done_idempotent {c c1 : Cfg} (h : Reach c) {r : Nat} (hs : step c (.done r) = some c1) :
    step c1 (.done r) = some c1 := by
  have hp1 : c1.panicked = false := no_panic (Reach.step _ h hs)
  have hs' := hs
  simp only [step, no_panic h, Bool.false_eq_true, ↓reduceIte, stepL] at hs
  split at hs <;> try (cases hs; done)
  rename_i q hq
  split at hs <;> try (cases hs; done)
  · cases hs; exact hs'
  · cases hs; exact hs'
  · rename_i o hpc
    split at hs <;> try (cases hs; done)
    rename_i ob ho
    cases hs
    have hr : (doDone c r q o ob).reqs[r]? = some { q with pc := .held o true } := by
      by_cases h1 : cnt o c.reqs = 1
      · rw [doDone_last (inv_reach h) hq hpc ho h1]; simp [getElem?_set_of hq]
      · rw [doDone_more (inv_reach h) hq hpc ho h1]; simp [getElem?_set_of hq]
    simp [step, hp1, stepL, hr]

/-- A second call of an already fired done func changes nothing, in any reachable configuration. -/
theorem done_again_noop {c : Cfg} (h : Reach c) {r : Nat} {q : Req} (hq : c.reqs[r]? = some q)
    {o : Nat} (hpc : q.pc = .held o true) : step c (.done r) = some c := by
  simp [step, no_panic h, stepL, hq, hpc]

/-- The done func returned together with an error has no effect. -/
theorem done_after_error_noop {c : Cfg} (h : Reach c) {r : Nat} {q : Req} (hq : c.reqs[r]? = some q)
    {e : Err} (hpc : q.pc = .failed e) : step c (.done r) = some c := by
  simp [step, no_panic h, stepL, hq, hpc]

/-- A request whose dial failed (or whose context was already cancelled) holds nothing:
it is not counted in any reference count, and if its object's dial failed, that object is
already unregistered when the error is delivered. -/
theorem failed_request_holds_nothing {c : Cfg} (_h : Reach c) {r : Nat} {q : Req} (_hq : c.reqs[r]? = some q)
    {e : Err} (hpc : q.pc = .failed e) (o : Nat) : q.pc.holds o = false := by
  simp [hpc, RPc.holds]

theorem failed_object_unregistered {c : Cfg} (h : Reach c) {o : Nat} {ob : Obj} (ho : c.objs[o]? = some ob)
    (he : ob.err.isSome = true) : ¬ live c o ob ∧ ob.conn = none ∧ ob.closed = 0 := by
  have hi := (inv_reach h).objs o ob ho
  have hl := hi.err_dead he
  have hp : ob.dpc.pre = false := by
    cases hp : ob.dpc.pre with
    | false => rfl
    | true => have := (hi.pre_blank hp).1; rw [this] at he; simp at he
  rcases hi.outcome hp with ⟨_, h2⟩ | ⟨h1, _⟩
  · exact ⟨hl, h2, hi.dead_noconn hl h2⟩
  · rw [h1] at he; simp at he

/-! ## non-vacuity: concrete schedules (checked by evaluation in the kernel) -/

/-- two requesters share one dial of "a"; the first release keeps the connection open, a
repeated release is ignored, the last release closes it once and forgets the address; a
third requester then triggers a second Dial invocation -/
def schedShare : List Label :=
  [.start "a" true false, .start "a" true false, .r0 0, .r1 0, .r0 1, .r1 1, .d1a 0, .d1b 0 .ok, .d3 0,
   .r2 0, .r3 0, .r2 1, .r3 1, .done 0, .done 0]

example : (run init schedShare).map (fun c => (c.conns, c.objs.map (fun ob => (ob.ref, ob.closed)), c.dials))
    = some ([("a", 0)], [(1, 0)], 1) := by decide

example : (run init (schedShare ++ [.done 1, .done 1, .start "a" true false, .r0 2, .r1 2, .d1a 1])).map
    (fun c => (c.conns, c.objs.map (fun ob => (ob.ref, ob.closed)), c.dials))
    = some ([("a", 1)], [(0, 1), (1, 0)], 2) := by decide

/-- a failing dial racing a new request: the failure path unregisters object 0 (`d2`), a new
request creates object 1 *before* the old waiters are woken (`d3`), the old waiter gets the
error, its done is a no-op, the new object is untouched -/
def schedFailRace : List Label :=
  [.start "a" true false, .r0 0, .r1 0, .d1a 0, .start "a" true false, .r0 1, .d1b 0 .fail, .d2 0,
   .r1 1, .d3 0, .r2 0, .r3 0, .done 0, .d1a 1, .d1b 1 .ok, .d3 1, .r2 1, .r3 1]

example : (run init schedFailRace).map (fun c => (c.conns, c.reqs.map (·.pc)))
    = some ([("a", 1)], [.failed .dial, .held 1 false]) := by decide

example : (run init schedFailRace).map (fun c => c.objs.map (fun ob => (ob.ref, ob.err, ob.conn, ob.closed)))
    = some [(1, some .dial, none, 0), (1, none, some 1, 0)] := by decide

/-- the creator's context is cancelled while a joiner waits: the Dial function returns
ctx.Err(), both get the error (the joiner's own context is irrelevant), nothing is left -/
def schedCancel : List Label :=
  [.start "a" true false, .start "a" true false, .r0 0, .r1 0, .r0 1, .r1 1, .d1a 0, .cancel 0,
   .d1b 0 .cancelled, .d2 0, .d3 0, .r2 1, .r3 1, .r2 0, .r3 0, .done 1]

example : (run init schedCancel).map (fun c => (c.conns, c.reqs.map (·.pc)))
    = some ([], [.failed .ctx, .failed .ctx]) := by decide

/-- a cancelled *joiner* is not released early: `r2` is not enabled before `d3` -/
example : (run init [.start "a" true false, .start "a" true false, .r0 0, .r1 0, .r0 1, .r1 1, .cancel 1, .r2 1])
    = none := by decide

example : Reach ((run init schedShare).getD init) := by
  have : run init schedShare = some ((run init schedShare).getD init) := by decide
  exact reach_run _ Reach.init this

end C16
end Gnmi
