import Gnmi.Lemmas.PipelineWire
import Gnmi.Props.C01Restart
import Gnmi.Props.C19
/-!
# C01 — "… whatever the value types, list keys or origins involved": the pipeline on protobuf-shaped
messages

`Props/C01*.lean` speak about `Model/Pipeline.lean`, whose notifications are already in index form
(`Cache.Noti`).  Here the same pipeline runs on what a target really streams — decoded
`gnmi.SubscribeResponse`s (`RX.Response`: `Elem` vs deprecated `Element`, key maps in any iteration
order, origin in prefix or path, every `TypedValue` arm) — through the existing wire-level models
(`Wire.mgrRecv … .collector` = `manager.handleGNMIUpdate` + the collector's `Update` closure stamping
the protobuf prefix + `Cache.GnmiUpdate` on the message; `Lemmas/PipelineWire.lean: wrun`):

1. **target side** — `wire_run_is_index_run` (`wire_runR_is_index_runR` with restarts): the wire-level
   run *is* the index-form run on the `Wire.toNoti`-translated responses, so every C01 theorem applies
   to wire-level targets; stated: `collector_cache_holds_final_view_wire`, `pipeline_faithful_once_wire`,
   `pipeline_faithful_stream_wire`, `pipeline_faithful_once_restart_wire`.
2. **client side** — `client_decode_commutes`: what `client/gnmi noti()` (`RX.noti`: `path.ToStrings` on
   prefix and path, `value.ToScalar` on the value) makes of the protobuf-shaped update of a stored
   notification is the (path, scalar) pair the index-form client holds (`VRel`: floats by bit pattern,
   bytes by hex text, a decimal by the pair whose `float32` quotient `ToScalar` returns);
   `client_recv_commutes` for a whole response through `defaultRecv`'s body with any handler;
   `expected_leaves_wire`: the leaves a ONCE client holds are `T :: origin-or-openconfig ::
   ToStrings(prefix) ++ ToStrings(path) ↦ ToScalar(value)` of the target's final **wire-level** view
   (`PW.wfinalView`, every entry of which is an update of the stream: `wfinalView_src`);
   `wire_key_order_irrelevant` (compose `C19.toStrings_perm_invariant` via `C12W.toNoti_key_order`):
   the run does not depend on the iteration order of any key map; `wkey_encodings`: `Elem` without
   keys and deprecated `Element` give the same key.
   What `ToScalar` does with the arms outside the exact fragment: `decimal_is_float32`,
   `decimal_collapse`, `leaflist_elementwise`, `json_outside_fragment`,
   `nested_leaflist_outside_fragment`, `wire_fragment_iff`.
3. A **finding** at the wire level, invisible in index form: an update whose `path` field is absent
   (`u.Path == nil`; the whole path sits in the prefix) is accepted and stored by the cache, relayed by
   the server, and *rejected by `client/gnmi`* ("invalid nil path in update") — the index-form client
   files it under the prefix.  `client_accepts_stored_full` is false (`client_accepts_stored_full_false`,
   witness `wnNilPath`, run against the Go code: `corpus/C01/wire_nil_path_update.ops`); with the
   path present it holds (`client_accepts_stored_partial`).
4. non-vacuity: `exSteps` (two targets, a two-key list entry in both key orders, a keyed prefix, a
   deprecated-encoding path, int / uint / string / bool / decimal / leaf-list values, a delete):
   the ONCE clients' leaves computed and equal to the expected sets; `exStepsB` meets every hypothesis
   of `expected_leaves_wire`.

Hypotheses that the index form cannot see, and why (`Lemmas/PipelineWire.lean`): `WStep.ok` =
WireValid responses (as C12) + `TailOK enc` for non-nil prefixes (`Pipeline.rawTail`'s
`String.splitOn ";"` finds the element half of a rendered prefix: a fact about `enc` — it emits no
`;`, as the driver's percent-encoder — for which core Lean has no lemma).
-/
namespace Gnmi
namespace C01W
open Gnmi.PV (GPath PathElem TV FloatOps Bytes toStrings getOrigin)
open Gnmi.RX (Notification Update Response Outcome CNoti)
open Gnmi.Cache (Noti Upd Del Val State Res Event SInv TInv isMetaKey)
open Gnmi.Wire
open Gnmi.Pipeline
open Gnmi.Relay
open Gnmi.C01 (RawFaithful HoldsExpected updatesOf SessionsOK ExactStream)
open Gnmi.PW

variable {F D : Type} [FloatBits F D]

/-! ## 1. target side: the wire-level run is the index-form run -/

/-- **wire_run_is_index_run.**  From the state `runCollector` starts serving from (any valid
configuration), every wire-level run — any interleaving of sessions of decoded responses (both path
encodings, keys in any order, origin anywhere, every `TypedValue` arm, nil prefix, error / unset
responses), `Connect` where a session starts, STREAM clients subscribing anywhere — through
`manager.handleGNMIUpdate`, the collector's `Update` closure on the protobuf message
(`Wire.stampWire`), `Cache.GnmiUpdate` on the message, the feed and the Subscribe server **equals**
the index-form run `Pipeline.Sys.run` on the `Wire.toNoti`-translated responses: same cache, same
subscribers with everything they were sent, same crash flag. -/
theorem wire_run_is_index_run (enc : String → String) (cfg : TargetCfg.Cfg) (hv : TargetCfg.validate cfg = .ok ())
    (wsteps : List (WStep F D)) (hok : ∀ st ∈ wsteps, st.ok enc) :
    wrun enc (Sys.start cfg) wsteps = (Sys.start cfg).run enc (wsteps.map (WStep.toStep enc)) :=
  wrun_eq enc wsteps _ (C01.start_holds3 cfg hv (fun _ => [])).sinv hok

/-- … from any state whose cache is well formed (`Cache.SInv`: every state a run reaches) -/
theorem wire_run_is_index_run_from (enc : String → String) (s : Sys) (hs : SInv s.sub.cache)
    (wsteps : List (WStep F D)) (hok : ∀ st ∈ wsteps, st.ok enc) :
    wrun enc s wsteps = s.run enc (wsteps.map (WStep.toStep enc)) ∧ SInv (wrun enc s wsteps).sub.cache := by
  have h := wrun_eq enc wsteps s hs hok
  exact ⟨h, by rw [h]; exact sinv_run enc _ s hs⟩

/-- … and with session restarts (`cache.Reset` / `cache.ConnectError` anywhere) -/
theorem wire_runR_is_index_runR (enc : String → String) (cfg : TargetCfg.Cfg) (hv : TargetCfg.validate cfg = .ok ())
    (wsteps : List (WStepR F D)) (hok : ∀ st ∈ wsteps, st.ok enc) :
    wrunR enc (Sys.start cfg) wsteps = (Sys.start cfg).runR enc (wsteps.map (WStepR.toStepR enc)) :=
  wrunR_eq enc wsteps _ (C01.start_holds3 cfg hv (fun _ => [])).sinv hok

/-- one target session at wire level is `Pipeline.sessionSteps` of the translated stream -/
theorem wsessionSteps_toStep (enc : String → String) (name : String) (items : List (Int × Response F D)) :
    (wsessionSteps name items).map (WStep.toStep enc) =
      sessionSteps name (items.map (fun x => (x.1, toItem enc x.2))) := by
  unfold wsessionSteps sessionSteps
  rw [List.zipIdx_map]
  simp only [List.map_map]
  rfl

/-- the stream hypotheses of C01 read on the wire-level stream of every configured target: the
translated stream is `Relay.wellFormed false` (per leaf non-decreasing timestamps, prefix-free keys,
scalar / leaf-list values, no `*` element, origin not `meta`, no origin in an update path, not atomic)
and `RawFaithful` (canonical renderings `Wire.rawUpd` of two updates agree only if their values do) -/
def WStreamsOK (enc : String → String) (cfg : TargetCfg.Cfg) (wsteps : List (WStep F D)) : Prop :=
  ∀ name ∈ TargetCfg.keys cfg.target,
    wellFormed false ((witemsOf name wsteps).map (toItem enc)) = true ∧
    RawFaithful ((witemsOf name wsteps).map (toItem enc))

theorem wstreamsOK_iff (enc : String → String) (cfg : TargetCfg.Cfg) (wsteps : List (WStep F D)) :
    WStreamsOK enc cfg wsteps ↔ ∀ name ∈ TargetCfg.keys cfg.target,
      wellFormed false (itemsOf name (wsteps.map (WStep.toStep enc))) = true ∧
      RawFaithful (itemsOf name (wsteps.map (WStep.toStep enc))) := by
  unfold WStreamsOK
  constructor <;> intro h name hn <;> have := h name hn
  · rw [itemsOf_toStep]; exact this
  · rw [itemsOf_toStep] at this; exact this

/-- **collector_cache_holds_final_view_wire** — `C01.collector_cache_holds_final_view_nondecreasing`
for wire-level targets: the collector never crashes, and at the end the cache holds for every
configured target exactly the image of its final **wire-level** view (`PW.wfinalView`: key =
`origin-or-openconfig :: ToStrings(prefix) ++ ToStrings(path)`, value = the `TypedValue` as
`value.Equal` reads it), nothing else outside `meta/`. -/
theorem collector_cache_holds_final_view_wire (enc : String → String) (cfg : TargetCfg.Cfg)
    (hv : TargetCfg.validate cfg = .ok ()) (wsteps : List (WStep F D)) (hok : ∀ st ∈ wsteps, st.ok enc)
    (hs : ∀ x ∈ wsenders wsteps, x ∈ TargetCfg.keys cfg.target) (hwf : WStreamsOK enc cfg wsteps) :
    (wrun enc (Sys.start cfg) wsteps).crashed = false ∧
    ∀ name ∈ TargetCfg.keys cfg.target,
      ∃ t, (wrun enc (Sys.start cfg) wsteps).sub.cache.get name = some t ∧ TInv t ∧
        (∀ k, absGet t k = (absView enc (wfinalView (witemsOf name wsteps))).get k) ∧ Good name t := by
  rw [wire_run_is_index_run enc cfg hv wsteps hok]
  obtain ⟨h1, h2⟩ := C01.collector_cache_holds_final_view_nondecreasing enc cfg hv (wsteps.map (WStep.toStep enc))
    (by rw [senders_toStep]; exact hs) ((wstreamsOK_iff enc cfg wsteps).1 hwf)
  refine ⟨h1, fun name hn => ?_⟩
  obtain ⟨t, g1, g2, g3, g4, _⟩ := h2 name hn
  refine ⟨t, g1, g2, ?_, g4⟩
  rw [absView_wfinalView, ← itemsOf_toStep]
  exact g3

/-- **pipeline_faithful_once_wire** — the ONCE clause of C01 for wire-level targets: a client that
subscribes ONCE to a configured target `T ≠ "*"` after any wire-level run holds exactly
`Relay.expected T` of (the image of) `T`'s final wire-level view. -/
theorem pipeline_faithful_once_wire (enc : String → String) (cfg : TargetCfg.Cfg)
    (hv : TargetCfg.validate cfg = .ok ()) (wsteps : List (WStep F D)) (hok : ∀ st ∈ wsteps, st.ok enc)
    (hs : ∀ x ∈ wsenders wsteps, x ∈ TargetCfg.keys cfg.target) (hwf : WStreamsOK enc cfg wsteps)
    (T : String) (hT : T ∈ TargetCfg.keys cfg.target) (hstar : T ≠ "*") (qs : List Path) :
    HoldsExpected ((wrun enc (Sys.start cfg) wsteps).once T qs) T
      (absView enc (wfinalView (witemsOf T wsteps))) qs := by
  rw [wire_run_is_index_run enc cfg hv wsteps hok, absView_wfinalView, ← itemsOf_toStep]
  exact C01.pipeline_faithful_once_nondecreasing enc cfg hv (wsteps.map (WStep.toStep enc))
    (by rw [senders_toStep]; exact hs) ((wstreamsOK_iff enc cfg wsteps).1 hwf) T hT hstar qs

/-- the STREAM clause for wire-level targets (hypotheses as `C01.pipeline_faithful_stream_nondecreasing`) -/
theorem pipeline_faithful_stream_wire (enc : String → String) (cfg : TargetCfg.Cfg)
    (hv : TargetCfg.validate cfg = .ok ()) (hns : "*" ∉ TargetCfg.keys cfg.target)
    (wsteps : List (WStep F D)) (hok : ∀ st ∈ wsteps, st.ok enc)
    (hs : ∀ x ∈ wsenders wsteps, x ∈ TargetCfg.keys cfg.target) (hwf : WStreamsOK enc cfg wsteps)
    (T : String) (hT : T ∈ TargetCfg.keys cfg.target)
    (hex : ExactStream ((witemsOf T wsteps).map (toItem enc)))
    (qs : List Path) (hq : ∀ q ∈ qs, queryOK q = true)
    (pre post : List (WStep F D)) (id : String) (hsplit : wsteps = pre ++ .subscribe id T qs :: post)
    (hid : ∀ st ∈ pre ++ post, match st with
      | .subscribe id' _ _ => id' ≠ id
      | _ => True) :
    HoldsExpected ((wrun enc (Sys.start cfg) wsteps).streamView id) T
      (absView enc (wfinalView (witemsOf T wsteps))) qs := by
  rw [wire_run_is_index_run enc cfg hv wsteps hok, absView_wfinalView, ← itemsOf_toStep]
  apply C01.pipeline_faithful_stream_nondecreasing enc cfg hv hns (wsteps.map (WStep.toStep enc))
    (by rw [senders_toStep]; exact hs) ((wstreamsOK_iff enc cfg wsteps).1 hwf) T hT
    (by rw [itemsOf_toStep]; exact hex) qs hq (pre.map (WStep.toStep enc)) (post.map (WStep.toStep enc)) id
  · rw [hsplit, List.map_append, List.map_cons]; rfl
  · intro st hst
    rw [← List.map_append] at hst
    obtain ⟨w, hw, rfl⟩ := List.mem_map.1 hst
    have := hid w hw
    cases w <;> exact this

/-- the ONCE clause across session restarts, for wire-level targets: hypotheses and conclusion of
`C01.pipeline_faithful_once_restart` on the translated run -/
theorem pipeline_faithful_once_restart_wire (enc : String → String) (cfg : TargetCfg.Cfg)
    (hv : TargetCfg.validate cfg = .ok ()) (wsteps : List (WStepR F D)) (hok : ∀ st ∈ wsteps, st.ok enc)
    (hs : ∀ x ∈ sendersR (wsteps.map (WStepR.toStepR enc)), x ∈ TargetCfg.keys cfg.target)
    (hwf : SessionsOK cfg (wsteps.map (WStepR.toStepR enc)))
    (T : String) (hT : T ∈ TargetCfg.keys cfg.target) (hstar : T ≠ "*") (qs : List Path) :
    HoldsExpected ((wrunR enc (Sys.start cfg) wsteps).once T qs) T
      (finalView (lastSession T (wsteps.map (WStepR.toStepR enc)))) qs := by
  rw [wire_runR_is_index_runR enc cfg hv wsteps hok]
  exact C01.pipeline_faithful_once_restart enc cfg hv _ hs hwf T hT hstar qs

/-! ## 2. client side -/

section client
variable [FloatOps F D]

theorem noti_of_val (jv : Bytes → Bool) (pfx : Path) (pp : GPath) (ts : Int) (u : Update F D) (s : PV.Scalar F D)
    (hne : u.val ≠ .nilMsg) (hs : RX.toScalarJ jv u.val = .ok s) :
    RX.noti jv pfx (some pp) ts (some u) = .ok (.update (pfx ++ toStrings (some pp) false) ts (.scalar s) u.dup) := by
  obtain ⟨path, val, value, dup⟩ := u
  simp only at hne hs ⊢
  cases val <;> first | exact absurd rfl hne | simp only [RX.noti, hs]

/-- **client_decode_commutes.**  The server answers with the stored notification itself (the cache
stores what it was given); the client decodes each of its updates with `noti(prefix strings, u.Path,
ts, u)`.  For every notification `wn` (any prefix: nil, target / origin set or not, either encoding,
keys), every update `u` of it that carries a path and a WireValid value the index-form client can
decode to `cv`: `noti` returns an `Update` at exactly the index path the index-form client files
the translated update under (`clientPrefix … ++ path` of `Wire.toNoti wn`), with the notification's
timestamp, the duplicate count, and the Go value `value.ToScalar(u.Val)` — both models of it agree —
which is what `cv` stands for (`VRel`). -/
theorem client_decode_commutes (enc : String → String) (jv : Bytes → Bool) (wn : Notification F D)
    (u : Update F D) (pp : GPath) (cv : Pipeline.CVal) (hp : u.path = some pp) (hw : RX.tvWire u.val = true)
    (hv : decodeVal (toUpd enc (some u)).val = .val cv) :
    ∃ s, RX.noti jv (toStrings wn.pfx true) (some pp) wn.ts (some u) =
        .ok (.update (clientPrefix (toNoti enc wn).2.target (toNoti enc wn).2.origin (toNoti enc wn).2.pfx ++
              (toUpd enc (some u)).path) (toNoti enc wn).2.ts (.scalar s) u.dup) ∧
      PV.toScalar u.val = .ok s ∧ VRel s cv := by
  have hv' : decodeVal (toVal enc u.val) = .val cv := hv
  obtain ⟨s, a1, a2, a3⟩ := value_decode_commutes enc jv u.val cv hw hv'
  have hne : u.val ≠ .nilMsg := by
    intro e; rw [e] at hv'; simp [toVal, decodeVal] at hv'
  refine ⟨s, ?_, a2, a3⟩
  rw [noti_of_val jv _ pp wn.ts u s hne a1, path_decode_commutes enc wn (some pp)]
  simp only [toUpd, hp]
  rfl

/-- a delete of the stored notification: `noti(prefix strings, d, ts, nil)` is a `Delete` at the
index path the index-form client deletes -/
theorem client_delete_commutes (enc : String → String) (jv : Bytes → Bool) (wn : Notification F D) (d : Option GPath) :
    RX.noti (F := F) (D := D) jv (toStrings wn.pfx true) d wn.ts none =
      .ok (.delete (clientPrefix (toNoti enc wn).2.target (toNoti enc wn).2.origin (toNoti enc wn).2.pfx ++
        (toDel enc d).path) wn.ts) := by
  unfold RX.noti
  simp only []
  rw [path_decode_commutes enc wn d]
  rfl

/-- **client_recv_commutes**: a whole response carrying a stored leaf notification (one update with
its path, no delete — what the cache stores per leaf and `MakeSubscribeResponse` sends) through the
body of `client/gnmi defaultRecv` with *any* notification handler `h`: exactly one call of the
handler, with the `Update` of `client_decode_commutes` — the call `Pipeline.Client.recv` models as
`treeAdd` at the same path (`C01.decode_index_and_scalar`). -/
theorem client_recv_commutes {σ : Type} (enc : String → String) (jv : Bytes → Bool) (qt : RX.QType)
    (h : σ → CNoti F D → Option σ) (st : σ) (wn : Notification F D) (u : Update F D) (pp : GPath)
    (cv : Pipeline.CVal) (hu : wn.update = [some u]) (hd : wn.delete = []) (hp : u.path = some pp)
    (hw : RX.tvWire u.val = true) (hv : decodeVal (toUpd enc (some u)).val = .val cv) :
    ∃ s, PV.toScalar u.val = .ok s ∧ VRel s cv ∧
      RX.recvBody jv qt h st (.update (some wn)) =
        match h st (.update (clientPrefix (toNoti enc wn).2.target (toNoti enc wn).2.origin (toNoti enc wn).2.pfx ++
              (toUpd enc (some u)).path) (toNoti enc wn).2.ts (.scalar s) u.dup) with
        | some st' => (.ok .cont, st')
        | none => (.panic, st) := by
  obtain ⟨s, a1, a2, a3⟩ := client_decode_commutes enc jv wn u pp cv hp hw hv
  refine ⟨s, a2, a3, ?_⟩
  unfold RX.recvBody
  simp only [hu, hd, RX.recvUpdates, hp, a1]
  cases h st _ with
  | none => rfl
  | some st' => simp [RX.recvUpdates, RX.recvDeletes]

end client

/-! ### what a ONCE client holds, in wire terms -/

theorem mem_expected_iff (T : String) (v : View) (qs : List Path) (k : Path) (cv : Pipeline.CVal) :
    (T :: k, cv) ∈ expected T v qs ↔ ∃ x, (k, x) ∈ v ∧ selected qs k = true ∧ decodeVal x.2 = .val cv := by
  unfold expected
  simp only [List.mem_filterMap, List.mem_filter]
  constructor
  · rintro ⟨⟨k', x⟩, ⟨hm, hsel⟩, hl⟩
    unfold leafOf at hl
    cases hd : decodeVal x.2 with
    | val c =>
      rw [hd] at hl
      simp only [Option.some.injEq, Prod.mk.injEq, List.cons.injEq, true_and] at hl
      obtain ⟨rfl, rfl⟩ := hl
      exact ⟨x, hm, hsel, hd⟩
    | skip => rw [hd] at hl; cases hl
    | err => rw [hd] at hl; cases hl
  · rintro ⟨x, hm, hsel, hd⟩
    exact ⟨(k, x), ⟨hm, hsel⟩, by simp [leafOf, hd]⟩

/-- **expected_leaves_wire.**  Under the hypotheses of `pipeline_faithful_once_wire`, the ONCE client
of `T` ends OK and synced, every leaf it holds is filed under `T :: …`, and outside `meta/` it holds
at `T :: k` the value `cv` **iff** `T`'s final wire-level view has an entry `k ↦ (ts, tv)` — `k =
origin-or-openconfig :: ToStrings(prefix) ++ ToStrings(path)` of an update of the stream
(`wfinalView_src`), computed by `path.ToStrings` whatever the key order or path encoding — that the
queries select and whose `TypedValue` decodes to `cv` (`value_decode_commutes`: `cv` stands for
`value.ToScalar(tv)`). -/
theorem expected_leaves_wire (enc : String → String) (cfg : TargetCfg.Cfg)
    (hv : TargetCfg.validate cfg = .ok ()) (wsteps : List (WStep F D)) (hok : ∀ st ∈ wsteps, st.ok enc)
    (hs : ∀ x ∈ wsenders wsteps, x ∈ TargetCfg.keys cfg.target) (hwf : WStreamsOK enc cfg wsteps)
    (T : String) (hT : T ∈ TargetCfg.keys cfg.target) (hstar : T ≠ "*") (qs : List Path) :
    let c := (wrun enc (Sys.start cfg) wsteps).once T qs
    c.failed = false ∧ c.synced = true ∧ (∀ kv ∈ c.leaves, ∃ k, kv.1 = T :: k) ∧
    ∀ k cv, isMetaKey k = false →
      ((∃ ts, cget c.tree (T :: k) = some { ts := ts, val := cv }) ↔
        ∃ ts tv, (k, (ts, tv)) ∈ wfinalView (witemsOf T wsteps) ∧ selected qs k = true ∧
          decodeVal (toVal enc tv) = .val cv) := by
  intro c
  obtain ⟨h1, h2, h3, h4⟩ := pipeline_faithful_once_wire enc cfg hv wsteps hok hs hwf T hT hstar qs
  refine ⟨h1, h2, h3, fun k cv hk => ?_⟩
  rw [h4 k cv hk, mem_expected_iff]
  constructor
  · rintro ⟨x, hm, hsel, hd⟩
    obtain ⟨tv, hm', he⟩ := mem_absView.1 hm
    exact ⟨x.1, tv, hm', hsel, by rw [he]; exact hd⟩
  · rintro ⟨ts, tv, hm, hsel, hd⟩
    exact ⟨(ts, toVal enc tv), mem_absView.2 ⟨tv, hm, rfl⟩, hsel, hd⟩

/-- where the entries of a wire-level view come from -/
def Src (rs : List (Response F D)) (k : Path) (ts : Int) (tv : TV F D) : Prop :=
  ∃ n, Response.update (some n) ∈ rs ∧ ∃ u ∈ n.update, k = wkey n.pfx (updPath u) ∧ ts = n.ts ∧ tv = updTV u

theorem src_updates (all : List (Response F D)) (n : Notification F D) (hn : Response.update (some n) ∈ all) :
    ∀ (us : List (Option (Update F D))) (v : WView F D), (∀ u ∈ us, u ∈ n.update) →
      (∀ e ∈ v, Src all e.1 e.2.1 e.2.2) → ∀ e ∈ wapplyUpdates n us v, Src all e.1 e.2.1 e.2.2
  | [], _, _, hv => hv
  | u :: us, v, hus, hv => by
    apply src_updates all n hn us _ (fun x hx => hus x (List.mem_cons_of_mem _ hx))
    intro e he
    rcases List.mem_cons.1 he with rfl | he
    · exact ⟨n, hn, u, hus u List.mem_cons_self, rfl, rfl, rfl⟩
    · exact hv e (List.mem_filter.1 he).1

theorem src_deletes (all : List (Response F D)) (n : Notification F D) :
    ∀ (ds : List (Option GPath)) (v : WView F D),
      (∀ e ∈ v, Src all e.1 e.2.1 e.2.2) → ∀ e ∈ wapplyDeletes n ds v, Src all e.1 e.2.1 e.2.2
  | [], _, hv => hv
  | d :: ds, v, hv => by
    apply src_deletes all n ds
    intro e he
    exact hv e (List.mem_filter.1 he).1

theorem src_foldl (all : List (Response F D)) : ∀ (rs : List (Response F D)) (v : WView F D),
    (∀ r ∈ rs, r ∈ all) → (∀ e ∈ v, Src all e.1 e.2.1 e.2.2) →
    ∀ e ∈ rs.foldl wapplyItem v, Src all e.1 e.2.1 e.2.2
  | [], _, _, hv => hv
  | r :: rs, v, hrs, hv => by
    simp only [List.foldl_cons]
    apply src_foldl all rs _ (fun x hx => hrs x (List.mem_cons_of_mem _ hx))
    cases r with
    | update n =>
      cases n with
      | none => exact hv
      | some n =>
        have hn := hrs _ List.mem_cons_self
        exact src_deletes all n _ _ (src_updates all n hn _ _ (fun u hu => hu) hv)
    | _ => exact hv

/-- **every entry of the final wire-level view is an update of the stream**: its key is
`origin-or-openconfig :: ToStrings(prefix, false) ++ ToStrings(path, false)` of that update, its
timestamp the notification's, its value the update's `TypedValue` -/
theorem wfinalView_src (rs : List (Response F D)) (k : Path) (ts : Int) (tv : TV F D)
    (h : (k, (ts, tv)) ∈ wfinalView rs) : Src rs k ts tv :=
  src_foldl rs rs [] (fun _ hr => hr) (fun _ he => nomatch he) _ h

section client2
variable [FloatOps F D]

/-- a WireValid stream only puts WireValid values into its view -/
theorem src_tvWire {rs : List (Response F D)} (hw : ∀ r ∈ rs, r.wireValid = true) {k : Path} {ts : Int}
    {tv : TV F D} (h : Src rs k ts tv) : RX.tvWire tv = true := by
  obtain ⟨n, hn, u, hu, _, _, rfl⟩ := h
  have h1 := hw _ hn
  simp only [Response.wireValid, RX.Notification.wireValid, Bool.and_eq_true, List.all_eq_true] at h1
  have h2 := h1.1 u hu
  cases u with
  | none => simp at h2
  | some u => exact h2

/-- … **and the value of every leaf the client holds is `value.ToScalar` of the `TypedValue` the
target streamed last under that key** (for every answer `jv` of `encoding/json`: the JSON arms never
get here) -/
theorem expected_leaves_wire_toScalar (enc : String → String) (jv : Bytes → Bool) (cfg : TargetCfg.Cfg)
    (hv : TargetCfg.validate cfg = .ok ()) (wsteps : List (WStep F D)) (hok : ∀ st ∈ wsteps, st.ok enc)
    (T : String) (hwv : ∀ r ∈ witemsOf T wsteps, r.wireValid = true)
    (hs : ∀ x ∈ wsenders wsteps, x ∈ TargetCfg.keys cfg.target) (hwf : WStreamsOK enc cfg wsteps)
    (hT : T ∈ TargetCfg.keys cfg.target) (hstar : T ≠ "*") (qs : List Path)
    (k : Path) (cv : Pipeline.CVal) (ts : Int) (hk : isMetaKey k = false)
    (hleaf : cget ((wrun enc (Sys.start cfg) wsteps).once T qs).tree (T :: k) = some { ts := ts, val := cv }) :
    ∃ ts' tv s, (k, (ts', tv)) ∈ wfinalView (witemsOf T wsteps) ∧ Src (witemsOf T wsteps) k ts' tv ∧
      RX.toScalarJ jv tv = .ok s ∧ PV.toScalar tv = .ok s ∧ VRel s cv := by
  obtain ⟨_, _, _, h4⟩ := expected_leaves_wire enc cfg hv wsteps hok hs hwf T hT hstar qs
  obtain ⟨ts', tv, hm, _, hd⟩ := (h4 k cv hk).1 ⟨ts, hleaf⟩
  have hsrc := wfinalView_src _ k ts' tv hm
  obtain ⟨s, a1, a2, a3⟩ := value_decode_commutes enc jv tv cv (src_tvWire hwv hsrc) hd
  exact ⟨ts', tv, s, hm, hsrc, a1, a2, a3⟩

end client2


/-! ## 3. key order, path encodings -/

/-- two responses that differ only in the iteration order of key maps (of the prefix, of update
paths, of delete paths) -/
inductive RespPerm : Response F D → Response F D → Prop
  | refl (r : Response F D) : RespPerm r r
  | update (n n' : Notification F D) (hts : n.ts = n'.ts) (hat : n.atomic = n'.atomic)
      (hp : C12W.OPathPerm n.pfx n'.pfx) (hpk : C12W.OKeysOK n.pfx)
      (hu : C12W.ListRel C12W.UpdPerm n.update n'.update)
      (hd : C12W.ListRel (fun d d' => C12W.OPathPerm d d' ∧ C12W.OKeysOK d) n.delete n'.delete) :
      RespPerm (.update (some n)) (.update (some n'))

inductive WStepPerm : WStep F D → WStep F D → Prop
  | refl (st : WStep F D) : WStepPerm st st
  | recv (name : String) (first : Bool) (now : Int) {r r' : Response F D} (h : RespPerm r r') :
      WStepPerm (.recv name first now r) (.recv name first now r')

theorem toItem_key_order (enc : String → String) {r r' : Response F D} (h : RespPerm r r') :
    toItem enc r = toItem enc r' := by
  cases h with
  | refl => rfl
  | update n n' hts hat hp hpk hu hd =>
    simp only [toItem, C12W.toNoti_key_order enc n n' hts hat hp hpk hu hd]

theorem toStep_key_order (enc : String → String) {st st' : WStep F D} (h : WStepPerm st st') :
    st.toStep enc = st'.toStep enc := by
  cases h with
  | refl => rfl
  | recv name first now hr => simp only [WStep.toStep, toItem_key_order enc hr]

/-- **wire_key_order_irrelevant** (composes `C19.toStrings_perm_invariant` through
`C12W.toNoti_key_order`): two wire-level runs whose responses differ only in the order in which the
Go runtime happens to range over `PathElem.Key` maps — anywhere: prefix, update paths, delete paths,
any number of keys — are the *same* run: same cache, same subscribers, same client views. -/
theorem wire_key_order_irrelevant (enc : String → String) (cfg : TargetCfg.Cfg)
    (hv : TargetCfg.validate cfg = .ok ()) (ws ws' : List (WStep F D))
    (hok : ∀ st ∈ ws, st.ok enc) (hok' : ∀ st ∈ ws', st.ok enc) (hperm : C12W.ListRel WStepPerm ws ws') :
    wrun enc (Sys.start cfg) ws = wrun enc (Sys.start cfg) ws' := by
  rw [wire_run_is_index_run enc cfg hv ws hok, wire_run_is_index_run enc cfg hv ws' hok',
    C12W.ListRel.map_eq (fun a b h => toStep_key_order enc h) hperm]

/-- the key of a leaf does not depend on the key order either -/
theorem wkey_key_order {pfx pfx' p p' : Option GPath} (h1 : C12W.OPathPerm pfx pfx') (k1 : C12W.OKeysOK pfx)
    (h2 : C12W.OPathPerm p p') (k2 : C12W.OKeysOK p) : wkey pfx p = wkey pfx' p' := by
  unfold wkey
  rw [C12W.getOrigin_operm h1, C12W.toStrings_operm false h1 k1, C12W.toStrings_operm false h2 k2]

theorem flatMap_elemStrings_names (l : List String) :
    (l.map (fun s => ({ name := s } : PathElem))).flatMap PV.elemStrings = l := by
  induction l with
  | nil => rfl
  | cons a r ih => simp only [List.map_cons, List.flatMap_cons, PV.elemStrings, ih]; rfl

/-- **both path encodings**: a path given as deprecated `element` strings and the same names given as
key-less `elem`s have the same `ToStrings` -/
theorem toStrings_encodings (o t : String) (l : List String) (pfx : Bool) :
    toStrings (some { origin := o, target := t, element := l }) pfx =
      toStrings (some { origin := o, target := t, elem := l.map (fun s => { name := s }) }) pfx := by
  cases l with
  | nil => rfl
  | cons a r =>
    simp only [toStrings, List.length_nil, List.map_cons, List.length_cons, List.length_map]
    have : ((r.length + 1 == 0) = true) = False := by simp
    simp only [this, if_false, BEq.rfl, if_true]
    congr 1
    exact (flatMap_elemStrings_names (a :: r)).symm

/-- … hence the same key, in the prefix and in the path -/
theorem wkey_encodings (o : String) (lp l : List String) :
    wkey (some { origin := o, element := lp }) (some { element := l }) =
      wkey (some { origin := o, elem := lp.map (fun s => { name := s }) }) (some { elem := l.map (fun s => { name := s }) }) := by
  unfold wkey
  rw [toStrings_encodings o "" lp false, toStrings_encodings "" "" l false]
  rfl

/-! ## 4. the arms `ToScalar` does not map one to one -/

section arms
variable [FloatOps F D]

/-- **decimal → float32**: `ToScalar` returns `float32(digits / 10^precision)`; the index-form client
keeps the pair (the float arithmetic is the driver's: `Driver.E2E.f32OfDecimal`) -/
theorem decimal_is_float32 (enc : String → String) (jv : Bytes → Bool) (d : Int) (p : Nat) :
    decodeVal (toVal (F := F) (D := D) enc (.decimalVal d p)) = .val (.scalar (.dec32 d p)) ∧
    RX.toScalarJ (F := F) (D := D) jv (.decimalVal d p) = .ok (.f32 (FloatOps.decToF (D := D) d p)) ∧
    PV.toScalar (F := F) (D := D) (.decimalVal d p) = .ok (.f32 (FloatOps.decToF (D := D) d p)) := by
  refine ⟨rfl, ?_, ?_⟩ <;> simp [RX.toScalarJ, PV.toScalar]

/-- the lossy part: two decimals — or a decimal and a `float_val` — with the same `float32` quotient
are the *same* Go value for a client (the index-form client's leaves `dec32 d p`, `dec32 d' p'`,
`f32 bits` are finer than what the code delivers; they are rendered through the quotient) -/
theorem decimal_collapse (jv : Bytes → Bool) (d d' : Int) (p p' : Nat) (f : F)
    (h : (FloatOps.decToF (D := D) d p : F) = FloatOps.decToF (D := D) d' p') (hf : f = FloatOps.decToF (D := D) d p) :
    RX.toScalarJ (F := F) (D := D) jv (.decimalVal d p) = RX.toScalarJ (F := F) (D := D) jv (.decimalVal d' p') ∧
    RX.toScalarJ (F := F) (D := D) jv (.floatVal f) = RX.toScalarJ (F := F) (D := D) jv (.decimalVal d p) := by
  simp [RX.toScalarJ, h, hf]

/-- **leaf-list**: `ToScalar` converts element by element into a `[]interface{}` -/
theorem leaflist_elementwise (enc : String → String) (jv : Bytes → Bool) (l : List (TV F D)) (cs : List CScalar)
    (hw : RX.tvWireElems l = true) (h : decodeVal (toVal enc (.leaflistVal l)) = .val (.list cs)) :
    ∃ ss, RX.toScalarJ jv (.leaflistVal l) = .ok (.list ss) ∧ SsRel ss cs := by
  simp only [toVal, decodeVal] at h
  cases h1 : toScalarList (l.map (Wire.toScalar enc)) with
  | none => rw [h1] at h; cases h
  | some cs' =>
    rw [h1] at h
    simp only [Dec.val.injEq, Pipeline.CVal.list.injEq] at h
    subst h
    obtain ⟨ss, b1, _, b3⟩ := list_decode_commutes enc jv l cs' hw h1
    exact ⟨ss, by simp [RX.toScalarJ, b1], b3⟩

/-- **JSON arms**: outside the index-form fragment (`valueOK` is false: such a stream is not
`wellFormed`, and `Pipeline.decodeVal` answers "error").  The code hands the bytes to
`encoding/json`: accepted (`jv b`) → the client holds the decoded JSON document, refused → `Recv`
fails.  Nothing is claimed about such leaves. -/
theorem json_outside_fragment (enc : String → String) (jv : Bytes → Bool) (b : Bytes) :
    valueOK (toVal (F := F) (D := D) enc (.jsonVal b)) = false ∧
    valueOK (toVal (F := F) (D := D) enc (.jsonIetfVal b)) = false ∧
    (jv b = true → RX.toScalarJ (F := F) (D := D) jv (.jsonVal b) = .ok (.json false b) ∧
      RX.toScalarJ (F := F) (D := D) jv (.jsonIetfVal b) = .ok (.json true b)) ∧
    (jv b = false → RX.toScalarJ (F := F) (D := D) jv (.jsonVal b) = .err .decode ∧
      RX.toScalarJ (F := F) (D := D) jv (.jsonIetfVal b) = .err .decode) := by
  refine ⟨rfl, rfl, ?_, ?_⟩ <;> intro h <;> simp [RX.toScalarJ, h]

/-- **nested leaf-list**: the code recurses (`[]interface{}` inside `[]interface{}`); the index form
reads a list inside a list as an undecodable element — outside the fragment -/
theorem nested_leaflist_outside_fragment (enc : String → String) (jv : Bytes → Bool) (l : List (TV F D))
    (ss : List (PV.Scalar F D)) (h : RX.toScalarJList jv l = .ok ss) :
    valueOK (toVal enc (.leaflistVal [.leaflistVal l])) = false ∧
    RX.toScalarJ jv (.leaflistVal [.leaflistVal l]) = .ok (.list [.list ss]) := by
  refine ⟨rfl, ?_⟩
  simp [RX.toScalarJ, RX.toScalarJList, h]

/-- the scalar arms -/
def scalarArm : TV F D → Bool
  | .stringVal _ | .intVal _ | .uintVal _ | .boolVal _ | .bytesVal _ | .floatVal _ | .doubleVal _
  | .decimalVal _ _ => true
  | _ => false

/-- the values the theorems of this file speak about: a scalar arm, or a leaf-list of scalar arms -/
def inWireFragment : TV F D → Bool
  | .leaflistVal l => l.all scalarArm
  | tv => scalarArm tv

omit [FloatOps F D] in
theorem toScalar1_arm (enc : String → String) (tv : TV F D) (hw : RX.tvWire tv = true) :
    (toScalar1 (Wire.toScalar enc tv)).isSome = scalarArm tv := by
  cases tv <;> first | rfl | simp [RX.tvWire] at hw

omit [FloatOps F D] in
theorem toScalarList_arms (enc : String → String) : ∀ (l : List (TV F D)), RX.tvWireElems l = true →
    (toScalarList (l.map (Wire.toScalar enc))).isSome = l.all scalarArm
  | [], _ => rfl
  | e :: r, hw => by
    have hwe : RX.tvWire e = true ∧ RX.tvWireElems r = true := by
      cases e <;> simp_all [RX.tvWireElems]
    have h1 := toScalar1_arm enc e hwe.1
    have h2 := toScalarList_arms enc r hwe.2
    simp only [List.map_cons, toScalarList, List.all_cons]
    cases ha : toScalar1 (Wire.toScalar enc e) with
    | none => rw [ha] at h1; simp only [Option.isSome_none] at h1; simp [← h1]
    | some c =>
      rw [ha] at h1
      simp only [Option.isSome_some] at h1
      rw [← h1, ← h2]
      cases toScalarList (r.map (Wire.toScalar enc)) <;> rfl

omit [FloatOps F D] in
/-- **the fragment, in wire terms**: a WireValid `TypedValue` is admissible in a `wellFormed` stream
(`Relay.valueOK` of its translation) iff it is a scalar arm — string, int, uint, bool, bytes, float,
double, decimal — or a leaf-list of such; absent / unset / any / ascii / proto_bytes / JSON values
and nested leaf-lists are outside -/
theorem wire_fragment_iff (enc : String → String) (tv : TV F D) (hw : RX.tvWire tv = true) :
    valueOK (toVal enc tv) = inWireFragment tv := by
  have scalarCase : ∀ tv : TV F D, RX.tvWire tv = true → toVal enc tv = .scalar (Wire.toScalar enc tv) →
      valueOK (toVal enc tv) = scalarArm tv := by
    intro tv hw he
    rw [he, ← toScalar1_arm enc tv hw]
    unfold valueOK decodeVal
    cases h : toScalar1 (Wire.toScalar enc tv) <;> simp [h]
  cases tv with
  | nilMsg => rfl
  | leaflistNil => simp [RX.tvWire] at hw
  | leaflistVal l =>
    have hwl : RX.tvWireElems l = true := by simpa [RX.tvWire] using hw
    simp only [inWireFragment, ← toScalarList_arms enc l hwl]
    unfold valueOK toVal decodeVal
    cases h : toScalarList (l.map (Wire.toScalar enc)) <;> simp [h]
  | unset => exact scalarCase _ hw rfl
  | stringVal s => exact scalarCase _ hw rfl
  | intVal i => exact scalarCase _ hw rfl
  | uintVal n => exact scalarCase _ hw rfl
  | boolVal b => exact scalarCase _ hw rfl
  | bytesVal b => exact scalarCase _ hw rfl
  | floatVal f => exact scalarCase _ hw rfl
  | doubleVal d => exact scalarCase _ hw rfl
  | decimalVal d p => exact scalarCase _ hw rfl
  | decimalNil => simp [RX.tvWire] at hw
  | anyVal b => exact scalarCase _ hw rfl
  | jsonVal b => exact scalarCase _ hw rfl
  | jsonIetfVal b => exact scalarCase _ hw rfl
  | asciiVal b => exact scalarCase _ hw rfl
  | protoBytes b => exact scalarCase _ hw rfl

/-! ## 5. a wire-level finding: an update without `path` field -/

/-- **The full client-side statement**: every stored leaf notification the index-form client decodes
(one update, no delete, a decodable value) is accepted by `client/gnmi`'s receive loop. -/
def client_accepts_stored_full (F D : Type) [FloatBits F D] [FloatOps F D] : Prop :=
  ∀ (enc : String → String) (jv : Bytes → Bool) (qt : RX.QType) (wn : Notification F D) (u : Update F D)
    (cv : Pipeline.CVal), wn.wireValid = true → wn.update = [some u] → wn.delete = [] →
    decodeVal (toUpd enc (some u)).val = .val cv →
    (RX.recvBody jv qt (fun (st : Unit) (_ : CNoti F D) => some st) () (.update (some wn))).1 = .ok .cont

/-- … proved when the update carries its `path` field (possibly empty: `&gnmi.Path{}`) -/
theorem client_accepts_stored_partial (enc : String → String) (jv : Bytes → Bool) (qt : RX.QType)
    (wn : Notification F D) (u : Update F D) (cv : Pipeline.CVal) (hw : wn.wireValid = true)
    (hu : wn.update = [some u]) (hd : wn.delete = []) (hp : u.path ≠ none)
    (hv : decodeVal (toUpd enc (some u)).val = .val cv) :
    (RX.recvBody jv qt (fun (st : Unit) (_ : CNoti F D) => some st) () (.update (some wn))).1 = .ok .cont := by
  cases hpp : u.path with
  | none => exact absurd hpp hp
  | some pp =>
    have hwu : RX.tvWire u.val = true := by
      simp only [RX.Notification.wireValid, hu, hd, List.all_cons, List.all_nil, Bool.and_true] at hw
      exact hw
    obtain ⟨s, _, _, h3⟩ := client_recv_commutes enc jv qt (fun (st : Unit) (_ : CNoti F D) => some st) () wn u pp cv
      hu hd hpp hwu hv
    rw [h3]

end arms

/-! ## 6. non-vacuity, witnesses -/

section examples

local instance : FloatOps Unit Unit := ⟨fun _ _ => true, fun _ _ => true, fun _ => (), fun _ _ => ()⟩
local instance : FloatBits Unit Unit := ⟨fun _ => 0, fun _ => 0⟩

abbrev N := Notification Unit Unit
abbrev R := Response Unit Unit

/-! ### the finding -/

/-- the whole path `a/b` in the prefix, the update without `path` field, as the server relays it
(target and origin stamped by the collector) -/
def wnNilPath : N :=
  { ts := 7, pfx := some { target := "dev1", origin := "openconfig", elem := [{ name := "a" }, { name := "b" }] },
    update := [some { path := none, val := .intVal 5 }] }

/-- the cache accepts and stores it … -/
example : wnNilPath.wireValid = true ∧
    (wireGnmiUpdate id (State.run id {} [.add "dev1"]) 0 (some wnNilPath)).1 = .ok ∧
    (((wireGnmiUpdate id (State.run id {} [.add "dev1"]) 0 (some wnNilPath)).2.1.get "dev1").map
      (fun t => t.tree.map (fun kv => (kv.1, kv.2.upd.map (·.val))))) =
        some [(["openconfig", "a", "b"], [.scalar (.int 5)])] := by decide

/-- … the index-form client files it under the prefix … -/
example : ((Client.recv true {} (.upd (toNoti id wnNilPath).2 0)).tree.map (fun kv => (kv.1, kv.2.val)),
    (Client.recv true {} (.upd (toNoti id wnNilPath).2 0)).failed) =
      ([(["dev1", "openconfig", "a", "b"], .scalar (.int 5))], false) := by decide

/-- … and `client/gnmi` fails: "invalid nil path in update" -/
theorem nil_path_update_fails_client :
    (RX.recvBody (fun _ => true) .once (fun (st : Unit) (_ : CNoti Unit Unit) => some st) ()
      (.update (some wnNilPath))).1 = .err .nilPath ∧
    (RX.cacheClientRun (fun _ => true) .once .empty [.update (some wnNilPath), .sync true]).1 = .err .nilPath := by
  decide

/-- **`client_accepts_stored_full` is false of the code** (`client/gnmi/client.go`, `defaultRecv`:
`if u.Path == nil { return fmt.Errorf("invalid nil path in update: %v", u) }`) — a leaf the cache
stores and serves cannot be received by the repository's own client when the target put the whole
path into the prefix.  Witness run against the Go code: `corpus/C01/wire_nil_path_update.ops`. -/
theorem client_accepts_stored_full_false : ¬ client_accepts_stored_full Unit Unit := by
  intro h
  have := h id (fun _ => true) .once wnNilPath { path := none, val := .intVal 5 } (.scalar (.int 5))
    (by decide) rfl rfl (by decide)
  rw [nil_path_update_fails_client.1] at this
  cases this

/-! ### a wire-level run: two targets, both key orders, a keyed prefix, the deprecated encoding,
int / uint / string / bool / decimal / leaf-list values, a delete -/

/-- `if[k1][k2]/<leaf>` with the key map iterated in the given order -/
def ifPath (a b : String × String) (leaf : String) : GPath := { elem := [{ name := "if", key := [a, b] }, { name := leaf }] }

def kName : String × String := ("name", "eth0")
def kUnit : String × String := ("unit", "1")

/-- dev1: origin `oc2` in the prefix, keys in the order name, unit -/
def m1 : N := { ts := 10, pfx := some { origin := "oc2" }, update := [some { path := some (ifPath kName kUnit "mtu"), val := .intVal 1500 }] }
/-- dev2: no prefix at all, keys in the order unit, name -/
def m2 : N := { ts := 10, update := [some { path := some (ifPath kUnit kName "mtu"), val := .uintVal 9000 }] }
/-- deprecated `element` encoding -/
def m3 : N := { ts := 11, update := [some { path := some { element := ["sys", "name"] }, val := .stringVal "r1" }] }
/-- the list entry in the *prefix* (keys unit, name), two updates: `Elem` and `Element` -/
def m4 : N := { ts := 12, pfx := some { origin := "oc2", elem := [{ name := "if", key := [kUnit, kName] }] }, update := [some { path := some { elem := [{ name := "up" }] }, val := .boolVal true }, some { path := some { element := ["dec"] }, val := .decimalVal 314 2 }] }
def m5 : N := { ts := 13, update := [some { path := some { elem := [{ name := "tags" }] }, val := .leaflistVal [.stringVal "a", .intVal 2] }] }
/-- a delete, deprecated encoding -/
def m6 : N := { ts := 14, delete := [some { element := ["sys", "name"] }] }
/-- the leaf of `m1` again, keys in the other order -/
def m7 : N := { ts := 15, pfx := some { origin := "oc2" }, update := [some { path := some (ifPath kUnit kName "mtu"), val := .intVal 9100 }] }
def m8 : N := { ts := 12, update := [some { path := some { element := ["sys", "name"] }, val := .stringVal "r2" }] }
/-- a wildcard delete -/
def m9 : N := { ts := 13, delete := [some { elem := [{ name := "sys" }, { name := "*" }] }] }

def exSteps : List (WStep Unit Unit) :=
  [ .recv "dev1" true 0 (.update (some m1)),
    .recv "dev2" true 0 (.update (some m2)),
    .recv "dev1" false 0 (.update (some m3)),
    .recv "dev1" false 0 (.update (some m4)),
    .recv "dev2" false 0 (.update (some m8)),
    .recv "dev1" false 0 (.update (some m5)),
    .recv "dev1" false 0 (.sync true),
    .recv "dev1" false 0 (.error true),
    .recv "dev1" false 0 (.update (some m6)),
    .recv "dev2" false 0 (.update (some m9)),
    .recv "dev1" false 0 (.update (some m7)) ]

/-- index-form notification literal -/
def lit (ts : Int) (target origin : String) (pfx : Path) (praw : String) (upd : List Upd) (del : List Del) : Noti :=
  { ts := ts, target := target, origin := origin, pfx := pfx, praw := praw, upd := upd, del := del }

def uMtu (v : Cache.Scalar) (raw : String) : Upd := { path := ["if", "eth0", "1", "mtu"], val := .scalar v, raw := raw }

/-- evaluates the translation of a concrete message (`decide` cannot unfold `mergeSort`) -/
local macro "wire_eval" : tactic =>
  `(tactic| (simp [toNoti, stampWire, toUpd, toDel, toStrings, PV.elemStrings, PV.sortedVals, PV.sortStrings,
      mergeSort_pair, rawUpd, rawPath, rawElem, rawTV, rawTVs, getOrigin, getTarget, PV.header, PV.mapGet, toVal,
      Wire.toScalar, Wire.rawField, Wire.defaultOrigin, ifPath, kName, kUnit, lit, uMtu,
      m1, m2, m3, m4, m5, m6, m7, m8, m9] <;> decide))

/-! the translations: unstamped (what the spec reads) and stamped (what the cache is handed) -/

theorem t1 : toNoti id m1 = (false, lit 10 "" "oc2" [] "o=oc2;t=;e=;l=" [uMtu (.int 1500) "o=;t=;e=if[name=eth0][unit=1],mtu;l=#i:1500#0"] []) := by wire_eval
theorem s1 : toNoti id (stampWire "dev1" m1) = (false, lit 10 "dev1" "oc2" [] "o=oc2;t=dev1;e=;l=" [uMtu (.int 1500) "o=;t=;e=if[name=eth0][unit=1],mtu;l=#i:1500#0"] []) := by wire_eval
theorem t2 : toNoti id m2 = (true, lit 10 "" "" [] "nil" [uMtu (.uint 9000) "o=;t=;e=if[name=eth0][unit=1],mtu;l=#u:9000#0"] []) := by wire_eval
theorem s2 : toNoti id (stampWire "dev2" m2) = (false, lit 10 "dev2" "openconfig" [] "o=openconfig;t=dev2;e=;l=" [uMtu (.uint 9000) "o=;t=;e=if[name=eth0][unit=1],mtu;l=#u:9000#0"] []) := by wire_eval
theorem t3 : toNoti id m3 = (true, lit 11 "" "" [] "nil" [{ path := ["sys", "name"], val := .scalar (.str "r1"), raw := "o=;t=;e=;l=sys,name#s:r1#0" }] []) := by wire_eval
theorem s3 : toNoti id (stampWire "dev1" m3) = (false, lit 11 "dev1" "openconfig" [] "o=openconfig;t=dev1;e=;l=" [{ path := ["sys", "name"], val := .scalar (.str "r1"), raw := "o=;t=;e=;l=sys,name#s:r1#0" }] []) := by wire_eval
def u4 : List Upd := [{ path := ["up"], val := .scalar (.bool true), raw := "o=;t=;e=up;l=#b:true#0" }, { path := ["dec"], val := .scalar (.decimal 314 2), raw := "o=;t=;e=;l=dec#m:314:2#0" }]
theorem t4 : toNoti id m4 = (false, lit 12 "" "oc2" ["if", "eth0", "1"] "o=oc2;t=;e=if[name=eth0][unit=1];l=" u4 []) := by unfold u4; wire_eval
theorem s4 : toNoti id (stampWire "dev1" m4) = (false, lit 12 "dev1" "oc2" ["if", "eth0", "1"] "o=oc2;t=dev1;e=if[name=eth0][unit=1];l=" u4 []) := by unfold u4; wire_eval
def u5 : List Upd := [{ path := ["tags"], val := .leaflist [.str "a", .int 2], raw := "o=;t=;e=tags;l=#l:(s:a,i:2)#0" }]
theorem t5 : toNoti id m5 = (true, lit 13 "" "" [] "nil" u5 []) := by unfold u5; wire_eval
theorem s5 : toNoti id (stampWire "dev1" m5) = (false, lit 13 "dev1" "openconfig" [] "o=openconfig;t=dev1;e=;l=" u5 []) := by unfold u5; wire_eval
theorem t6 : toNoti id m6 = (true, lit 14 "" "" [] "nil" [] [{ path := ["sys", "name"], raw := "o=;t=;e=;l=sys,name" }]) := by wire_eval
theorem s6 : toNoti id (stampWire "dev1" m6) = (false, lit 14 "dev1" "openconfig" [] "o=openconfig;t=dev1;e=;l=" [] [{ path := ["sys", "name"], raw := "o=;t=;e=;l=sys,name" }]) := by wire_eval
theorem t7 : toNoti id m7 = (false, lit 15 "" "oc2" [] "o=oc2;t=;e=;l=" [uMtu (.int 9100) "o=;t=;e=if[name=eth0][unit=1],mtu;l=#i:9100#0"] []) := by wire_eval
theorem s7 : toNoti id (stampWire "dev1" m7) = (false, lit 15 "dev1" "oc2" [] "o=oc2;t=dev1;e=;l=" [uMtu (.int 9100) "o=;t=;e=if[name=eth0][unit=1],mtu;l=#i:9100#0"] []) := by wire_eval
theorem t8 : toNoti id m8 = (true, lit 12 "" "" [] "nil" [{ path := ["sys", "name"], val := .scalar (.str "r2"), raw := "o=;t=;e=;l=sys,name#s:r2#0" }] []) := by wire_eval
theorem s8 : toNoti id (stampWire "dev2" m8) = (false, lit 12 "dev2" "openconfig" [] "o=openconfig;t=dev2;e=;l=" [{ path := ["sys", "name"], val := .scalar (.str "r2"), raw := "o=;t=;e=;l=sys,name#s:r2#0" }] []) := by wire_eval
theorem t9 : toNoti id m9 = (true, lit 13 "" "" [] "nil" [] [{ path := ["sys", "*"], raw := "o=;t=;e=sys,*;l=" }]) := by wire_eval
theorem s9 : toNoti id (stampWire "dev2" m9) = (false, lit 13 "dev2" "openconfig" [] "o=openconfig;t=dev2;e=;l=" [] [{ path := ["sys", "*"], raw := "o=;t=;e=sys,*;l=" }]) := by wire_eval

/-- the run, with every update response replaced by its (proved) stamped translation -/
def exLit : List (Sys → Sys) :=
  [ fun s => deliverStamped 0 (s.connect id 0 "dev1") (lit 10 "dev1" "oc2" [] "o=oc2;t=dev1;e=;l=" [uMtu (.int 1500) "o=;t=;e=if[name=eth0][unit=1],mtu;l=#i:1500#0"] []),
    fun s => deliverStamped 0 (s.connect id 0 "dev2") (lit 10 "dev2" "openconfig" [] "o=openconfig;t=dev2;e=;l=" [uMtu (.uint 9000) "o=;t=;e=if[name=eth0][unit=1],mtu;l=#u:9000#0"] []),
    fun s => deliverStamped 0 s (lit 11 "dev1" "openconfig" [] "o=openconfig;t=dev1;e=;l=" [{ path := ["sys", "name"], val := .scalar (.str "r1"), raw := "o=;t=;e=;l=sys,name#s:r1#0" }] []),
    fun s => deliverStamped 0 s (lit 12 "dev1" "oc2" ["if", "eth0", "1"] "o=oc2;t=dev1;e=if[name=eth0][unit=1];l=" u4 []),
    fun s => deliverStamped 0 s (lit 12 "dev2" "openconfig" [] "o=openconfig;t=dev2;e=;l=" [{ path := ["sys", "name"], val := .scalar (.str "r2"), raw := "o=;t=;e=;l=sys,name#s:r2#0" }] []),
    fun s => deliverStamped 0 s (lit 13 "dev1" "openconfig" [] "o=openconfig;t=dev1;e=;l=" u5 []),
    fun s => wdeliver id 0 s "dev1" (.sync true : R),
    fun s => wdeliver id 0 s "dev1" (.error true : R),
    fun s => deliverStamped 0 s (lit 14 "dev1" "openconfig" [] "o=openconfig;t=dev1;e=;l=" [] [{ path := ["sys", "name"], raw := "o=;t=;e=;l=sys,name" }]),
    fun s => deliverStamped 0 s (lit 13 "dev2" "openconfig" [] "o=openconfig;t=dev2;e=;l=" [] [{ path := ["sys", "*"], raw := "o=;t=;e=sys,*;l=" }]),
    fun s => deliverStamped 0 s (lit 15 "dev1" "oc2" [] "o=oc2;t=dev1;e=;l=" [uMtu (.int 9100) "o=;t=;e=if[name=eth0][unit=1],mtu;l=#i:9100#0"] []) ]

theorem exRun_eq (s : Sys) : wrun id s exSteps = exLit.foldl (fun s f => f s) s := by
  simp only [exSteps, exLit, wrun, List.foldl_cons, List.foldl_nil, wstep, wrecv, if_true, Bool.false_eq_true, if_false,
    wdeliver_stamped id 0 _ "dev1" m1 (by decide) _ s1, wdeliver_stamped id 0 _ "dev2" m2 (by decide) _ s2,
    wdeliver_stamped id 0 _ "dev1" m3 (by decide) _ s3, wdeliver_stamped id 0 _ "dev1" m4 (by decide) _ s4,
    wdeliver_stamped id 0 _ "dev1" m5 (by decide) _ s5, wdeliver_stamped id 0 _ "dev1" m6 (by decide) _ s6,
    wdeliver_stamped id 0 _ "dev1" m7 (by decide) _ s7, wdeliver_stamped id 0 _ "dev2" m8 (by decide) _ s8,
    wdeliver_stamped id 0 _ "dev2" m9 (by decide) _ s9]

/-- the leaves of a client outside `meta/` -/
def nonMeta (c : Client) : List (Path × Pipeline.CVal) :=
  (c.leaves.filter (fun kv => !isMetaKey kv.1.tail)).map (fun kv => (kv.1, kv.2.val))

/-- **the ONCE clients of the wire-level run, computed**: dev1 holds the list entry's `mtu` once —
sent with keys (name, unit) and rewritten with keys (unit, name) —, `up` and `dec` under the entry
given in the prefix with keys (unit, name), the leaf-list; `sys/name` (deprecated encoding) was
deleted; the decimal is kept as the pair whose `float32` quotient the Go client holds -/
theorem ex_once_dev1 :
    ((wrun id (Sys.start C01.cfg2) exSteps).once "dev1" [[]]).failed = false ∧
    ((wrun id (Sys.start C01.cfg2) exSteps).once "dev1" [[]]).synced = true ∧
    nonMeta ((wrun id (Sys.start C01.cfg2) exSteps).once "dev1" [[]]) =
      [(["dev1", "oc2", "if", "eth0", "1", "mtu"], .scalar (.int 9100)),
       (["dev1", "oc2", "if", "eth0", "1", "up"], .scalar (.bool true)),
       (["dev1", "oc2", "if", "eth0", "1", "dec"], .scalar (.dec32 314 2)),
       (["dev1", "openconfig", "tags"], .list [.str "a", .int 2])] := by
  rw [exRun_eq]; decide

theorem ex_once_dev2 :
    nonMeta ((wrun id (Sys.start C01.cfg2) exSteps).once "dev2" [[]]) =
      [(["dev2", "openconfig", "if", "eth0", "1", "mtu"], .scalar (.uint 9000))] := by
  rw [exRun_eq]; decide

theorem exItems1 : (witemsOf "dev1" exSteps).map (toItem id) =
    [.update false (lit 10 "" "oc2" [] "o=oc2;t=;e=;l=" [uMtu (.int 1500) "o=;t=;e=if[name=eth0][unit=1],mtu;l=#i:1500#0"] []),
     .update true (lit 11 "" "" [] "nil" [{ path := ["sys", "name"], val := .scalar (.str "r1"), raw := "o=;t=;e=;l=sys,name#s:r1#0" }] []),
     .update false (lit 12 "" "oc2" ["if", "eth0", "1"] "o=oc2;t=;e=if[name=eth0][unit=1];l=" u4 []),
     .update true (lit 13 "" "" [] "nil" u5 []),
     .sync, .error,
     .update true (lit 14 "" "" [] "nil" [] [{ path := ["sys", "name"], raw := "o=;t=;e=;l=sys,name" }]),
     .update false (lit 15 "" "oc2" [] "o=oc2;t=;e=;l=" [uMtu (.int 9100) "o=;t=;e=if[name=eth0][unit=1],mtu;l=#i:9100#0"] [])] := by
  have : witemsOf "dev1" exSteps = [.update (some m1), .update (some m3), .update (some m4), .update (some m5),
      .sync true, .error true, .update (some m6), .update (some m7)] := rfl
  rw [this]
  simp only [List.map_cons, List.map_nil, toItem, t1, t3, t4, t5, t6, t7]

theorem exItems2 : (witemsOf "dev2" exSteps).map (toItem id) =
    [.update true (lit 10 "" "" [] "nil" [uMtu (.uint 9000) "o=;t=;e=if[name=eth0][unit=1],mtu;l=#u:9000#0"] []),
     .update true (lit 12 "" "" [] "nil" [{ path := ["sys", "name"], val := .scalar (.str "r2"), raw := "o=;t=;e=;l=sys,name#s:r2#0" }] []),
     .update true (lit 13 "" "" [] "nil" [] [{ path := ["sys", "*"], raw := "o=;t=;e=sys,*;l=" }])] := by
  have : witemsOf "dev2" exSteps = [.update (some m2), .update (some m8), .update (some m9)] := rfl
  rw [this]
  simp only [List.map_cons, List.map_nil, toItem, t2, t8, t9]

/-- **… and they are the expected sets**: `Relay.expected` of the (image of the) final wire-level
views — the same leaves -/
theorem ex_expected :
    expected "dev1" (absView id (wfinalView (witemsOf "dev1" exSteps))) [[]] =
      [(["dev1", "oc2", "if", "eth0", "1", "mtu"], .scalar (.int 9100)),
       (["dev1", "openconfig", "tags"], .list [.str "a", .int 2]),
       (["dev1", "oc2", "if", "eth0", "1", "dec"], .scalar (.dec32 314 2)),
       (["dev1", "oc2", "if", "eth0", "1", "up"], .scalar (.bool true))] ∧
    expected "dev2" (absView id (wfinalView (witemsOf "dev2" exSteps))) [[]] =
      [(["dev2", "openconfig", "if", "eth0", "1", "mtu"], .scalar (.uint 9000))] := by
  rw [absView_wfinalView, absView_wfinalView, exItems1, exItems2]
  decide

theorem ex_once_is_expected :
    (nonMeta ((wrun id (Sys.start C01.cfg2) exSteps).once "dev1" [[]])).Perm
      (expected "dev1" (absView id (wfinalView (witemsOf "dev1" exSteps))) [[]]) ∧
    nonMeta ((wrun id (Sys.start C01.cfg2) exSteps).once "dev2" [[]]) =
      expected "dev2" (absView id (wfinalView (witemsOf "dev2" exSteps))) [[]] := by
  rw [ex_once_dev1.2.2, ex_once_dev2, ex_expected.1, ex_expected.2]
  exact ⟨by decide, rfl⟩

/-- every response of the run is WireValid, the streams are well formed and raw-faithful: the
hypotheses of the theorems other than `TailOK` (which concerns `String.splitOn`) -/
example : (∀ st ∈ exSteps, match st with
      | .recv _ _ _ r => r.wireValid = true
      | _ => True) ∧
    (∀ x ∈ wsenders exSteps, x ∈ TargetCfg.keys C01.cfg2.target) ∧ WStreamsOK id C01.cfg2 exSteps := by
  refine ⟨?_, by decide, ?_⟩
  · intro st h
    simp only [exSteps, List.mem_cons, List.mem_nil_iff, or_false] at h
    rcases h with h | h | h | h | h | h | h | h | h | h | h <;> subst h <;> decide
  · intro name hn
    have hn' : name = "dev1" ∨ name = "dev2" := by simpa [TargetCfg.keys, C01.cfg2] using hn
    rcases hn' with rfl | rfl
    · rw [exItems1]; exact ⟨by decide, by unfold RawFaithful; decide⟩
    · rw [exItems2]; exact ⟨by decide, by unfold RawFaithful; decide⟩

/-- the same leaf with its key map iterated in the other order is the same response for the model:
an instance of `toItem_key_order` -/
example : toItem id (.update (some m7) : R) =
    toItem id (.update (some ({ ts := 15, pfx := some { origin := "oc2" }, update := [some { path := some (ifPath kName kUnit "mtu"), val := .intVal 9100 }] } : N)) : R) := by
  apply toItem_key_order
  refine .update _ _ rfl rfl ⟨rfl, rfl, rfl, .nil⟩ (fun _ h => nomatch h) (.cons ⟨?_, ?_, rfl⟩ .nil) .nil
  · exact ⟨rfl, rfl, rfl, .cons ⟨rfl, List.Perm.swap _ _ _⟩ (.cons ⟨rfl, .refl _⟩ .nil)⟩
  · intro e he
    simp only [ifPath, List.mem_cons, List.mem_nil_iff, or_false] at he
    rcases he with rfl | rfl <;> simp [PV.KeysNodup, kName, kUnit]

/-! ### every hypothesis of `expected_leaves_wire` met: dev2's part of the run (no prefix anywhere:
`TailOK` holds trivially) -/

def exStepsB : List (WStep Unit Unit) :=
  [ .recv "dev2" true 0 (.update (some m2)),
    .recv "dev2" false 0 (.update (some m8)),
    .recv "dev2" false 0 (.sync true),
    .recv "dev2" false 0 (.update (some m9)) ]

theorem exStepsB_ok : ∀ st ∈ exStepsB, st.ok id := by
  intro st h
  simp only [exStepsB, List.mem_cons, List.mem_nil_iff, or_false] at h
  rcases h with h | h | h | h <;> subst h
  · exact ⟨by decide, trivial⟩
  · exact ⟨by decide, trivial⟩
  · show (Response.sync true : R).wireValid = true; rfl
  · exact ⟨by decide, trivial⟩

theorem exStepsB_items : (witemsOf "dev2" exStepsB).map (toItem id) =
    [.update true (lit 10 "" "" [] "nil" [uMtu (.uint 9000) "o=;t=;e=if[name=eth0][unit=1],mtu;l=#u:9000#0"] []),
     .update true (lit 12 "" "" [] "nil" [{ path := ["sys", "name"], val := .scalar (.str "r2"), raw := "o=;t=;e=;l=sys,name#s:r2#0" }] []),
     .sync,
     .update true (lit 13 "" "" [] "nil" [] [{ path := ["sys", "*"], raw := "o=;t=;e=sys,*;l=" }])] := by
  have : witemsOf "dev2" exStepsB = [.update (some m2), .update (some m8), .sync true, .update (some m9)] := rfl
  rw [this]
  simp only [List.map_cons, List.map_nil, toItem, t2, t8, t9]

theorem exStepsB_wf : WStreamsOK id C01.cfg2 exStepsB := by
  intro name hn
  have hn' : name = "dev1" ∨ name = "dev2" := by simpa [TargetCfg.keys, C01.cfg2] using hn
  rcases hn' with rfl | rfl
  · have : witemsOf "dev1" exStepsB = ([] : List R) := rfl
    rw [this]; exact ⟨by decide, by unfold RawFaithful; decide⟩
  · rw [exStepsB_items]; exact ⟨by decide, by unfold RawFaithful; decide⟩

/-- the theorem's conclusion on this run: the ONCE client of dev2 holds the two-key leaf at
`dev2/openconfig/if/eth0/1/mtu` with `ToScalar`'s `uint64`, and nothing at the deleted `sys/name` -/
example :
    (∃ ts, cget ((wrun id (Sys.start C01.cfg2) exStepsB).once "dev2" [[]]).tree
        ["dev2", "openconfig", "if", "eth0", "1", "mtu"] = some { ts := ts, val := .scalar (.uint 9000) }) ∧
    ¬ ∃ ts, cget ((wrun id (Sys.start C01.cfg2) exStepsB).once "dev2" [[]]).tree
        ["dev2", "openconfig", "sys", "name"] = some { ts := ts, val := .scalar (.str "r2") } := by
  obtain ⟨_, _, _, h4⟩ := pipeline_faithful_once_wire id C01.cfg2 C01.cfg2_valid exStepsB exStepsB_ok (by decide)
    exStepsB_wf "dev2" (by decide) (by decide) [[]]
  rw [absView_wfinalView, exStepsB_items] at h4
  constructor
  · exact (h4 ["openconfig", "if", "eth0", "1", "mtu"] _ (by decide)).2 (by decide)
  · intro h
    exact absurd ((h4 ["openconfig", "sys", "name"] _ (by decide)).1 h) (by decide)

end examples

end C01W
end Gnmi
