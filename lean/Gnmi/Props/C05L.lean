import Gnmi.Lemmas.SubscribeOnce
import Gnmi.Lemmas.SubscribeDemo
/-!
# C05 (concurrent part) — ONCE and POLL with writers running

Theorems about the Subscribe LTS (`Model/SubscribeLTS.lean`).  The static part of C05
(`once_static_exact`) is proved on the sequential model elsewhere.

*Ghost sets used in the statements.*  `Sub.since` = the keys present when the current walk
started and not deleted before it ended — once the walk is over: the keys **present throughout
the walk** (a superset of the keys present throughout the call).  `Sub.held` = `(k, v)` for
every value `v` key `k` held at some moment since the walker was spawned.
-/
namespace Gnmi
namespace C05L
open SubLTS
set_option linter.unusedSectionVars false
set_option linter.unusedSimpArgs false

variable {K V T R : Type} [DecidableEq K] [DecidableEq R] [DecidableEq T] [Inhabited V]

/-- a step of the system that is not a POLL trigger of subscriber `s` keeps the walk invariant -/
theorem walkInv_step {sys : Sys K T R} (hsw : sys.swap = false) (wf : sys.WF) {c c' : Cfg K V T R}
    {l : Label K V T R} {s n : Nat} (hnm : (sys.req s).mode ≠ .stream)
    (hph : Phase (sys.req s) (c.subs s)) (hl : l ≠ .sub s .poll) (hs : Step sys c l c')
    (hi : WalkInv n sys (sys.req s) c.sh (c.subs s)) :
    WalkInv n sys (sys.req s) c'.sh (c'.subs s) := by
  have hreg : (c.subs s).registered = false := by
    cases hr : (c.subs s).registered with
    | false => rfl
    | true => exact absurd (hph.reg_open hr).2 hnm
  cases hs with
  | shared l1 sh' h1 => exact walkInv_shared hreg h1 hi
  | sub s1 l1 b' h1 =>
    by_cases e : s = s1
    · subst e
      show WalkInv n sys _ c.sh (setFn c.subs s b' s)
      rw [setFn_same]
      exact walkInv_local hsw wf hnm hph (fun e => hl (by rw [e])) (subFire_step h1) hi
    · show WalkInv n sys _ c.sh (setFn c.subs s1 b' s)
      rw [setFn_other _ _ e]; exact hi

/-- what holds for every subscription that is not a STREAM, in every reachable configuration -/
structure NsInv (sys : Sys K T R) (rq : Req K T R) (sh : Shared K V T R) (b : Sub K V R) : Prop where
  only : Lifted (onlyUpdI rq) (onlyUpdR (V := V) rq) b
  held : HeldInv sh b
  unreg : b.registered = false

theorem nsInv_reach {sys : Sys K T R} (hsw : sys.swap = false) {c : Cfg K V T R}
    (h : Reach sys c) (s : Nat) (hnm : (sys.req s).mode ≠ .stream) :
    ShInv sys c.sh ∧ Phase (sys.req s) (c.subs s) ∧ NsInv sys (sys.req s) c.sh (c.subs s) := by
  have := reach_inv sys (fun sh => ShInv sys sh)
    (fun s sh b => Phase (sys.req s) b ∧ ((sys.req s).mode ≠ .stream → NsInv sys (sys.req s) sh b))
    (shInv_init sys) ?_ ?_ ?_ ?_ h
  · exact ⟨this.1, (this.2 s).1, (this.2 s).2 hnm⟩
  · intro s
    exact ⟨phase_init _, fun _ => ⟨lifted_init _ _, heldInv_init _, rfl⟩⟩
  · intro sh l sh' hq hf; exact shInv_step hq hf
  · intro s sh l sh' b hq hb hf
    refine ⟨phase_shared l hb.1, fun hnm => ?_⟩
    obtain ⟨h1, h2, h3⟩ := hb.2 hnm
    exact ⟨lifted_shared_unreg sys _ l h3 h1, heldInv_shared h3 hf h2, by simpa using h3⟩
  · intro s sh b l b' hq hb hst
    refine ⟨phase_local hsw hst hb.1, fun hnm => ?_⟩
    obtain ⟨h1, h2, h3⟩ := hb.2 hnm
    refine ⟨onlyUpd_local hst h1, heldInv_local hsw hnm hq.keys hb.1 hst h2, ?_⟩
    cases hr : b'.registered with
    | false => rfl
    | true => exact absurd ((phase_local hsw hst hb.1).reg_open hr).2 hnm

/-- number of sync responses, counted on labels -/
theorem count_sync_labR (l : List (Resp K V R)) : (l.map labR).count .sync = nSync l := by
  induction l with
  | nil => rfl
  | cons a l ih =>
    cases a <;> simp [labR, nSync, List.countP_cons, Resp.isSync, List.count_cons] at ih ⊢ <;> omega

theorem upd_mem_of_lab {l : List (Resp K V R)} {k : K} (h : Lab.upd k ∈ l.map labR) :
    ∃ v d, Resp.upd k v d ∈ l := by
  obtain ⟨r, hr, e⟩ := List.mem_map.1 h
  cases r <;> simp [labR] at e
  subst e; exact ⟨_, _, hr⟩

theorem getLast_sync_of_lab {l : List (Resp K V R)} (h : (l.map labR).getLast? = some .sync) :
    l.getLast? = some .sync := by
  rw [List.getLast?_map] at h
  cases hl : l.getLast? with
  | none => rw [hl] at h; cases h
  | some r =>
    rw [hl] at h
    simp only [Option.map_some, Option.some.injEq] at h
    rw [labR_sync h]

/-! ## ONCE -/

structure OnceInv (sys : Sys K T R) (rq : Req K T R) (sh : Shared K V T R) (b : Sub K V R) : Prop where
  walk : WalkInv 0 sys rq sh b
  sync_le : nSync b.sent ≤ 1
  fin_ok : b.status = some .ok → Concl 0 sys rq b

theorem concl_congr {n : Nat} {sys : Sys K T R} {rq : Req K T R} {b b' : Sub K V R}
    (h1 : b'.walker = b.walker) (h2 : b'.sent = b.sent) (h3 : b'.since = b.since)
    (h : Concl n sys rq b) : Concl n sys rq b' := by
  unfold Concl at *; rw [h1, h2, h3]; exact h

theorem nSync_le_of_walk {n : Nat} {sys : Sys K T R} {rq : Req K T R} {sh : Shared K V T R}
    {b : Sub K V R} (hi : WalkInv n sys rq sh b) (hst : b.status = none) :
    ((b.sent.drop n).map labR ++ sndLabs b.snd).count .sync ≤ 1 := by
  have := hi.cnt hst
  unfold labsFrom at this
  rw [List.count_append] at this
  omega

theorem onceInv_reach {sys : Sys K T R} (hsw : sys.swap = false) (wf : sys.WF) {c : Cfg K V T R}
    (h : Reach sys c) (s : Nat) (hm : (sys.req s).mode = .once) :
    OnceInv sys (sys.req s) c.sh (c.subs s) := by
  have hnm : (sys.req s).mode ≠ .stream := by rw [hm]; intro e; cases e
  induction h with
  | init => exact ⟨walkInv_init _ _ _, by simp [Cfg.init, nSync], fun h => by simp [Cfg.init] at h⟩
  | @step c c' l hr hs ih =>
    obtain ⟨hsh, hph, hns⟩ := nsInv_reach hsw hr s hnm
    have hl : l ≠ .sub s .poll := by
      intro e; subst e
      cases hs with
      | sub _ _ b' h1 =>
        simp only [subFire, Option.ite_none_right_eq_some] at h1
        rw [hm] at h1; exact absurd h1.1.2.1 (by intro e; cases e)
    refine ⟨walkInv_step hsw wf hnm hph hl hs ih.walk, ?_, ?_⟩
    · -- at most one sync
      cases hs with
      | shared l1 sh' h1 => show nSync ((c.subs s).onShared sys _ l1).sent ≤ 1; rw [onShared_sent]; exact ih.sync_le
      | sub s1 l1 b' h1 =>
        by_cases e : s = s1
        · subst e
          show nSync (setFn c.subs s b' s).sent ≤ 1
          rw [setFn_same]
          have hst := subFire_step h1
          rcases substep_sent hst with e | ⟨e, hsnd⟩ | ⟨r, e, hsnd⟩
          · rw [e]; exact ih.sync_le
          · obtain ⟨_, hnone⟩ := pc_run_of_snd hph (by rw [hsnd]; intro e; cases e) (by rw [hsnd]; intro e; cases e)
            have := nSync_le_of_walk ih.walk hnone
            rw [hsnd, List.count_append, List.drop_zero, count_sync_labR] at this
            rw [e, nSync_snoc]; simp [Resp.isSync, sndLabs] at this ⊢; omega
          · obtain ⟨_, hnone⟩ := pc_run_of_snd hph (by rw [hsnd]; intro e; cases e) (by rw [hsnd]; intro e; cases e)
            have := nSync_le_of_walk ih.walk hnone
            rw [hsnd, List.count_append, List.drop_zero, count_sync_labR] at this
            rw [e, nSync_snoc]
            cases r <;> simp [Resp.isSync, sndLabs, labR] at this ⊢ <;> omega
        · show nSync (setFn c.subs s1 b' s).sent ≤ 1
          rw [setFn_other _ _ e]; exact ih.sync_le
    · -- what a call that ended OK has delivered
      cases hs with
      | shared l1 sh' h1 =>
        intro hst
        have hst' : (c.subs s).status = some .ok := by simpa using hst
        have hc := ih.fin_ok hst'
        have hwd : ((c.subs s).onShared sys (sys.req s) l1).walker = .done := by
          have := hc.1
          cases l1 with
          | w2 u => cases u <;> simp only [Sub.onShared] <;> split <;> simp [this]
          | _ => simp [Sub.onShared, this, Walker.filter]
        have hsince : ((c.subs s).onShared sys (sys.req s) l1).since = (c.subs s).since := by
          have := hc.1
          cases l1 with
          | w2 u => cases u <;> simp only [Sub.onShared] <;> split <;> simp
          | _ => simp [Sub.onShared, this]
        exact concl_congr (by rw [hwd, hc.1]) (onShared_sent ..) hsince hc
      | sub s1 l1 b' h1 =>
        by_cases e : s = s1
        · subst e
          show (setFn c.subs s b' s).status = some .ok → Concl 0 sys _ (setFn c.subs s b' s)
          rw [setFn_same]
          intro hst
          have hstep := subFire_step h1
          cases hb : (c.subs s).status with
          | some st =>
            have hfin : (c.subs s).pc = .fin := by
              cases hp : (c.subs s).pc <;> first | rfl | (exfalso; have := hph.status_fin.2 (by rw [hp]; intro e; cases e); rw [hb] at this; cases this)
            obtain ⟨e1, e2, e3, e4, _⟩ := substep_fin hph hfin hstep
            exact concl_congr e4 e1 e2 (ih.fin_ok (by rw [← e3]; exact hst))
          | none =>
            have hclosed_done : (c.subs s).closed = true → (c.subs s).walker = .done := by
              intro hc
              rcases hph.closed_why hc with e | ⟨_, e⟩
              · exact absurd hb (by rw [hph.status_fin]; simp [e])
              · exact e
            cases hstep
            case fin l st why =>
              have hst' : st = .ok := by simpa [Sub.finish] using hst
              subst hst'
              cases why
              case eof _ hp _ => rw [hm] at hp; cases hp
              case drained hs hq hc =>
                exact concl_congr (b := c.subs s) rfl rfl rfl
                  (concl_of_drained ih.walk hb (hclosed_done hc) hq hs)
              case dropEnd i d r t hs hmk _ hend =>
                rcases hns.only.got i d hs with rfl | ⟨k, g, rfl, _⟩ <;> simp [endsStream] at hend
            case sentEnd r _ hs hend =>
              rcases hns.only.sending r hs with rfl | ⟨k, v, d, rfl, _⟩ <;> simp [endsStreamR] at hend
            all_goals (simp_all [Sub.finish, Sub.startWalk])
        · show (setFn c.subs s1 b' s).status = some .ok → Concl 0 sys _ (setFn c.subs s1 b' s)
          rw [setFn_other _ _ e]; exact ih.fin_ok

/-- **once_concurrent.**  A ONCE subscription with writers running, in every reachable
configuration:

1. every response sent is a sync or an update of a key matched by a subscription path and
   allowed by the ACL, carrying a value the key held during the call (nothing never-matching,
   no deletes);
2. at most one sync is ever sent;
3. if the call has ended with OK: exactly one sync was sent, it is the last response, and
   (unless `updates_only`) every matched, allowed key that was present throughout the walk —
   in particular every key present throughout the call — has been sent at least once. -/
theorem once_concurrent {sys : Sys K T R} (hsw : sys.swap = false) (wf : sys.WF) {c : Cfg K V T R}
    (h : Reach sys c) (s : Nat) (hm : (sys.req s).mode = .once) :
    (∀ r ∈ (c.subs s).sent, r = .sync ∨ ∃ k v d, r = .upd k v d ∧ (sys.req s).walks k = true ∧
        (sys.req s).allow (sys.tgt k) = true ∧ (k, v) ∈ (c.subs s).held) ∧
    nSync (c.subs s).sent ≤ 1 ∧
    ((c.subs s).status = some .ok →
      nSync (c.subs s).sent = 1 ∧ (c.subs s).sent.getLast? = some .sync ∧
      ((sys.req s).updatesOnly = false → ∀ k ∈ (c.subs s).since, (sys.req s).walks k = true →
        (sys.req s).allow (sys.tgt k) = true → ∃ v d, Resp.upd k v d ∈ (c.subs s).sent)) := by
  have hnm : (sys.req s).mode ≠ .stream := by rw [hm]; intro e; cases e
  obtain ⟨_, _, hns⟩ := nsInv_reach hsw h s hnm
  have ho := onceInv_reach hsw wf h s hm
  have hacl := (basic_reach hsw wf h s).acl
  refine ⟨?_, ho.sync_le, ?_⟩
  · intro r hr
    rcases hns.only.sent r hr with e | ⟨k, v, d, rfl, hw⟩
    · exact Or.inl e
    · exact Or.inr ⟨k, v, d, rfl, hw, hacl.sent _ hr, hns.held.sent k v d hr⟩
  · intro hst
    obtain ⟨_, _, h3, h4, h5⟩ := ho.fin_ok hst
    rw [List.drop_zero] at h3 h4 h5
    refine ⟨by rw [← count_sync_labR]; exact h3, getLast_sync_of_lab h4, ?_⟩
    intro hu k hk hw ha
    exact upd_mem_of_lab (h5 hu k hk hw ha)

/-- progress half of "ends OK": when the walk is over (queue closed), the queue is drained and
the sender is back in `Next`, the RPC returns OK -/
theorem once_ends_ok (sys : Sys K T R) (c : Cfg K V T R) (s : Nat)
    (hs : (c.subs s).snd = .idle) (hq : (c.subs s).q = []) (hc : (c.subs s).closed = true) :
    fire sys c (.sub s .drained) = some ⟨c.sh, setFn c.subs s ((c.subs s).finish .ok)⟩ := by
  simp [fire, subFire, hs, hq, hc]


/-! ## POLL -/

/-- a run in which subscriber `s` receives no poll trigger -/
inductive RunNoPoll (sys : Sys K T R) (s : Nat) (c : Cfg K V T R) : Cfg K V T R → Prop where
  | refl : RunNoPoll sys s c c
  | step {c1 c2 : Cfg K V T R} {l : Label K V T R} : RunNoPoll sys s c c1 → Step sys c1 l c2 →
      l ≠ .sub s .poll → RunNoPoll sys s c c2

theorem reach_of_run {sys : Sys K T R} {s : Nat} {c c' : Cfg K V T R} (hr : Reach sys c)
    (h : RunNoPoll sys s c c') : Reach sys c' := by
  induction h with
  | refl => exact hr
  | step _ hs _ ih => exact Reach.step ih hs

/-- everything of the previous rounds has been delivered and the sender waits in `Next` -/
def PollQuiet (b : Sub K V R) : Prop :=
  b.status = none ∧ b.walker = .done ∧ b.q = [] ∧ b.snd = .idle

theorem sent_prefix_step {sys : Sys K T R} {c c' : Cfg K V T R} {l : Label K V T R} (s : Nat)
    (hs : Step sys c l c') : (c.subs s).sent <+: (c'.subs s).sent := by
  cases hs with
  | shared l1 sh' h1 =>
    show _ <+: ((c.subs s).onShared sys _ l1).sent
    rw [onShared_sent]; exact List.prefix_refl _
  | sub s1 l1 b' h1 =>
    by_cases e : s = s1
    · subst e
      show _ <+: (setFn c.subs s b' s).sent
      rw [setFn_same]
      rcases substep_sent (subFire_step h1) with e | ⟨e, _⟩ | ⟨r, e, _⟩
      · rw [e]; exact List.prefix_refl _
      · rw [e]; exact List.prefix_append _ _
      · rw [e]; exact List.prefix_append _ _
    · show _ <+: (setFn c.subs s1 b' s).sent
      rw [setFn_other _ _ e]; exact List.prefix_refl _

/-- the walk invariant, counted from `n`, along a run without trigger -/
theorem walkInv_run {sys : Sys K T R} (hsw : sys.swap = false) (wf : sys.WF) {s n : Nat}
    (hnm : (sys.req s).mode ≠ .stream) {c1 c2 : Cfg K V T R} (hr : Reach sys c1)
    (hrun : RunNoPoll sys s c1 c2) (hi : WalkInv n sys (sys.req s) c1.sh (c1.subs s)) :
    WalkInv n sys (sys.req s) c2.sh (c2.subs s) ∧ (c1.subs s).sent <+: (c2.subs s).sent := by
  induction hrun with
  | refl => exact ⟨hi, List.prefix_refl _⟩
  | step hrun' hs hl ih =>
    obtain ⟨h1, h2⟩ := ih
    have hr' := reach_of_run hr hrun'
    obtain ⟨_, hph, _⟩ := nsInv_reach hsw hr' s hnm
    exact ⟨walkInv_step hsw wf hnm hph hl hs h1, List.IsPrefix.trans h2 (sent_prefix_step s hs)⟩

/-- the guarantees of one round, for the responses `new` sent since the round began -/
def RoundOk (sys : Sys K T R) (rq : Req K T R) (b : Sub K V R) (new : List (Resp K V R)) : Prop :=
  nSync new = 1 ∧ new.getLast? = some .sync ∧
  (∀ r ∈ new, r = .sync ∨ ∃ k v d, r = .upd k v d ∧ rq.walks k = true ∧
    rq.allow (sys.tgt k) = true ∧ (k, v) ∈ b.held) ∧
  (rq.updatesOnly = false → ∀ k ∈ b.since, rq.walks k = true → rq.allow (sys.tgt k) = true →
    ∃ v d, Resp.upd k v d ∈ new)

theorem roundOk_of_walk {sys : Sys K T R} (hsw : sys.swap = false) (wf : sys.WF) {s n : Nat}
    (hnm : (sys.req s).mode ≠ .stream) {c : Cfg K V T R} (hr : Reach sys c)
    (hi : WalkInv n sys (sys.req s) c.sh (c.subs s)) (hq : PollQuiet (c.subs s)) :
    RoundOk sys (sys.req s) (c.subs s) ((c.subs s).sent.drop n) := by
  obtain ⟨h1, h2, h3, h4⟩ := hq
  obtain ⟨_, _, hns⟩ := nsInv_reach hsw hr s hnm
  have hacl := (basic_reach hsw wf hr s).acl
  obtain ⟨_, _, c3, c4, c5⟩ := concl_of_drained hi h1 h2 h3 h4
  refine ⟨by rw [← count_sync_labR]; exact c3, getLast_sync_of_lab c4, ?_, ?_⟩
  · intro r hr'
    have hr : r ∈ (c.subs s).sent := List.mem_of_mem_drop hr'
    rcases hns.only.sent r hr with e | ⟨k, v, d, rfl, hw⟩
    · exact Or.inl e
    · exact Or.inr ⟨k, v, d, rfl, hw, hacl.sent _ hr, hns.held.sent k v d hr⟩
  · intro hu k hk hw ha
    exact upd_mem_of_lab (c5 hu k hk hw ha)

/-- **poll_rounds**, first round: until the first trigger a POLL subscription behaves like a
ONCE walk; when everything is delivered, exactly one sync has been sent, last, after an update
for every matched, allowed key present throughout the walk; all values were held during the
call, nothing never-matching was sent. -/
theorem poll_first_round {sys : Sys K T R} (hsw : sys.swap = false) (wf : sys.WF) {s : Nat}
    (hm : (sys.req s).mode = .poll) {c : Cfg K V T R} (hrun : RunNoPoll sys s Cfg.init c)
    (hq : PollQuiet (c.subs s)) :
    RoundOk sys (sys.req s) (c.subs s) (c.subs s).sent := by
  have hnm : (sys.req s).mode ≠ .stream := by rw [hm]; intro e; cases e
  have hi := (walkInv_run hsw wf hnm Reach.init hrun (walkInv_init _ _ _)).1
  have := roundOk_of_walk hsw wf hnm (reach_of_run Reach.init hrun) hi hq
  rwa [List.drop_zero] at this

/-- **poll_rounds**, later rounds: a trigger received after everything of the previous rounds
was delivered (in particular after the previous sync was sent) starts a fresh walk; whenever
everything is delivered again (and no further trigger arrived), the responses sent since the
trigger — `new`, `sent` has only been extended — contain exactly one more sync, last, after
an update for every matched, allowed key present throughout this walk; values and matching
as before. -/
theorem poll_rounds {sys : Sys K T R} (hsw : sys.swap = false) (wf : sys.WF) {s : Nat}
    (hm : (sys.req s).mode = .poll) {c0 c1 c2 : Cfg K V T R} (hr : Reach sys c0)
    (hq0 : PollQuiet (c0.subs s)) (htrig : Step sys c0 (.sub s .poll) c1)
    (hrun : RunNoPoll sys s c1 c2) (hq2 : PollQuiet (c2.subs s)) :
    ∃ new, (c2.subs s).sent = (c0.subs s).sent ++ new ∧ RoundOk sys (sys.req s) (c2.subs s) new := by
  have hnm : (sys.req s).mode ≠ .stream := by rw [hm]; intro e; cases e
  obtain ⟨_, hph, _⟩ := nsInv_reach hsw hr s hnm
  have hr1 : Reach sys c1 := Reach.step hr htrig
  -- the trigger establishes the invariant counted from the current end of `sent`
  have hi1 : WalkInv (c0.subs s).sent.length sys (sys.req s) c1.sh (c1.subs s) ∧
      (c1.subs s).sent = (c0.subs s).sent := by
    cases htrig with
    | sub _ _ b' h1 =>
      have hst := subFire_step h1
      cases hst
      case fin _ why => cases why
      case poll _ _ _ =>
        show WalkInv _ sys _ c0.sh (setFn c0.subs s _ s) ∧ (setFn c0.subs s _ s).sent = _
        rw [setFn_same]
        exact ⟨walkInv_poll hph hq0.2.2.1 hq0.2.2.2, rfl⟩
  obtain ⟨hi2, hpre⟩ := walkInv_run hsw wf hnm hr1 hrun hi1.1
  rw [hi1.2] at hpre
  obtain ⟨new, hnew⟩ := hpre
  have hro := roundOk_of_walk hsw wf hnm (reach_of_run hr1 hrun) hi2 hq2
  rw [← hnew, List.drop_left] at hro
  exact ⟨new, hnew.symm, hro⟩

/-- a trigger can be received whenever the previous walk is over -/
theorem poll_trigger_enabled (sys : Sys K T R) (c : Cfg K V T R) (s : Nat)
    (hm : (sys.req s).mode = .poll) (hst : (c.subs s).status = none) (hw : (c.subs s).walker = .done) :
    ∃ c', fire sys c (.sub s .poll) = some c' := by
  simp [fire, subFire, hm, hst, hw]

/-- EOF (the client half-closes) ends the RPC with OK -/
theorem poll_eof_ok (sys : Sys K T R) (c : Cfg K V T R) (s : Nat)
    (hm : (sys.req s).mode = .poll) (hst : (c.subs s).status = none) (hw : (c.subs s).walker = .done) :
    fire sys c (.sub s .eof) = some ⟨c.sh, setFn c.subs s ((c.subs s).finish .ok)⟩ := by
  simp [fire, subFire, hm, hst, hw]


/-! ## Non-vacuity -/

section NonVacuity
open Demo

/-- `once_concurrent`: subscriber 2 (ONCE, single target 0) ended OK after an update of the key
raced its walk: it was sent a value the key held during the call, then the sync -/
example : ∃ c : Demo.C, Reach Demo.sys c ∧ (Demo.sys.req 2).mode = .once ∧
    (c.subs 2).status = some .ok ∧ (Demo.sys.req 2).updatesOnly = false ∧ 1 ∈ (c.subs 2).since ∧
    (Demo.sys.req 2).walks 1 = true ∧ (Demo.sys.req 2).allow (Demo.sys.tgt 1) = true ∧
    (c.subs 2).sent = [.upd 1 8 0, .sync] ∧ (1, 8) ∈ (c.subs 2).held := by
  obtain ⟨c, hr, hp⟩ := reach_of_trace (setup ++ hsN 2 6 ++
      [.sub 2 (.visit 1), .sh (.w1Upd 1 8), .sh (.w2 (.upd 1 1)), .sub 2 .finish] ++
      deliver 2 ++ deliver 2 ++ [.sub 2 .drained]) (fun c =>
    decide ((c.subs 2).status = some .ok) && decide (1 ∈ (c.subs 2).since) &&
    decide ((c.subs 2).sent = [.upd 1 8 0, .sync]) && decide ((1, 8) ∈ (c.subs 2).held)) (by decide)
  simp only [Bool.and_eq_true, decide_eq_true_eq] at hp
  obtain ⟨⟨⟨h1, h2⟩, h3⟩, h4⟩ := hp
  exact ⟨c, hr, rfl, h1, rfl, h2, rfl, rfl, h3, h4⟩

def pollRound1 : List Demo.L :=
  setup ++ hsN 5 6 ++ [.sub 5 (.visit 1), .sub 5 (.visit 11), .sub 5 .finish] ++
  deliver 5 ++ deliver 5 ++ deliver 5

def pollRound2 : List Demo.L :=
  [.sh (.w1Upd 1 9), .sh (.w2 (.upd 1 1)), .sub 5 (.visit 11), .sub 5 (.visit 1), .sub 5 .finish] ++
  deliver 5 ++ deliver 5 ++ deliver 5

theorem runNoPoll_of_fireAll {sys : Sys K T R} {s : Nat} {c c' : Cfg K V T R}
    (tr : List (Label K V T R)) (hne : ∀ l ∈ tr, l ≠ .sub s .poll)
    (h : fireAll sys c tr = some c') : RunNoPoll sys s c c' := by
  induction tr generalizing c with
  | nil => simp only [fireAll, Option.some.injEq] at h; exact h ▸ RunNoPoll.refl
  | cons l ls ih =>
    simp only [fireAll] at h
    cases hf : fire sys c l with
    | none => rw [hf] at h; cases h
    | some c1 =>
      rw [hf] at h
      have h1 : RunNoPoll sys s c c1 :=
        RunNoPoll.step RunNoPoll.refl (fire_sound hf) (hne l (List.mem_cons_self ..))
      have h2 := ih (fun l hl => hne l (List.mem_cons_of_mem _ hl)) h
      clear ih h hf
      induction h2 with
      | refl => exact h1
      | step _ hs hl ih => exact RunNoPoll.step ih hs hl

/-- `poll_rounds`: subscriber 5 (POLL) finished its first round, receives a trigger, an update
races the second walk, everything is delivered again: the hypotheses of `poll_rounds` hold
(and its conclusion is `new = [upd 11 70, upd 1 9, sync]`) -/
example : ∃ c0 c1 c2 : Demo.C, Reach Demo.sys c0 ∧ (Demo.sys.req 5).mode = .poll ∧
    PollQuiet (c0.subs 5) ∧ Step Demo.sys c0 (.sub 5 .poll) c1 ∧ RunNoPoll Demo.sys 5 c1 c2 ∧
    PollQuiet (c2.subs 5) ∧
    (c2.subs 5).sent = (c0.subs 5).sent ++ [.upd 11 70 0, .upd 1 9 0, .sync] := by
  obtain ⟨c0, c2, hr, hf, hp⟩ := reach_of_trace2 pollRound1 (.sub 5 .poll :: pollRound2) (fun c0 c2 =>
    decide ((c0.subs 5).status = none) && decide ((c0.subs 5).walker = .done) &&
    decide ((c0.subs 5).q = []) && decide ((c0.subs 5).snd = .idle) &&
    decide ((c2.subs 5).status = none) && decide ((c2.subs 5).walker = .done) &&
    decide ((c2.subs 5).q = []) && decide ((c2.subs 5).snd = .idle) &&
    decide ((c2.subs 5).sent = (c0.subs 5).sent ++ [.upd 11 70 0, .upd 1 9 0, .sync])) (by decide)
  simp only [Bool.and_eq_true, decide_eq_true_eq] at hp
  obtain ⟨⟨⟨⟨⟨⟨⟨⟨a1, a2⟩, a3⟩, a4⟩, b1⟩, b2⟩, b3⟩, b4⟩, e⟩ := hp
  simp only [fireAll] at hf
  cases h1 : fire Demo.sys c0 (.sub 5 .poll) with
  | none => rw [h1] at hf; cases hf
  | some c1 =>
    rw [h1] at hf
    refine ⟨c0, c1, c2, hr, rfl, ⟨a1, a2, a3, a4⟩, fire_sound h1,
      runNoPoll_of_fireAll pollRound2 (by decide) hf, ⟨b1, b2, b3, b4⟩, e⟩

/-- "triggers arriving earlier may share a sync": a trigger received before the previous sync
was delivered; the second walk's marker is coalesced into the pending one — two rounds, one
sync -/
example : (fireAll Demo.sys Cfg.init (setup ++ hsN 5 6 ++
    [.sub 5 (.visit 1), .sub 5 (.visit 11), .sub 5 .finish, .sub 5 .poll,
     .sub 5 (.visit 1), .sub 5 (.visit 11), .sub 5 .finish] ++
    deliver 5 ++ deliver 5 ++ deliver 5)).map
    (fun c => decide ((c.subs 5).rounds = 2) && decide ((c.subs 5).q = []) &&
      decide ((c.subs 5).sent = [.upd 1 7 1, .upd 11 70 1, .sync])) = some true := by decide

end NonVacuity

end C05L
end Gnmi
