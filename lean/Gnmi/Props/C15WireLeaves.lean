import Gnmi.Props.C15Wire
/-!
# C15, latency clause: the leaves a refresh exports (whole loop)

`C15Wire.latency_leaf_value` is about one step of the latency loop of `generateMetaUpdates`.  Here:

* `latency_leaves_exported` — after `Target.updateMeta` of a cache with latency windows, for **every**
  configured window `w` and every statistic `st` whose metadata entry is set (value `v` = the last
  `SetInt` of `UpdateReset`, at this refresh or an earlier one) and whose name is not excluded, the leaf
  `meta/latency/window/<w>/<st>` holds the integer `v`.  Hypotheses (each necessary for the write to
  land, cf. `C15Hist.exports_latest_leaf_needs_fresh`): before the refresh no leaf is stored above or
  below one of the latency paths (`FreeAt`: nobody wrote `meta/latency`, `meta/latency/window/<w>/avg/x`, …),
  a leaf already stored at a latency path is older than the scripted clock (`FreshAt`), and
  `CompactDurationString` separates the configured windows (`C15LatNames.compactDurationString_injective`).
  The steps of the other loops and of the other latency entries do not touch the leaf
  (`genMetaOne_otherK`, `genLatOne_other`, by `latPath_injective` / `latPath_ne_builtin`).
* `updateMetadata_leaves_exported` — the same through `Cache.UpdateMetadata` on any number of targets.
* `latency_leaves_bounded` — composed with `refresh_exports_bounded`: after any history, every latency
  leaf value the next refresh writes is bounded by the samples of the accepted post-sync updates its
  window covers.
-/
namespace Gnmi.C15Wire
open Gnmi.Cache Gnmi.Acc Gnmi.Feed Gnmi.Latency

/-! ## 1. Steps that write another leaf -/

/-- what the steps of a refresh that write *other* leaves keep about path `K`: the target stays well
formed, nothing is stored above or below `K`, and the leaf at `K` (or its absence) is `lk` -/
structure PreK (a b : Int) (K : Path) (lk : Option Noti) (u : Target) : Prop where
  inv : TInvD a b u
  name : u.name ≠ ""
  free : PMap.conflicts u.tree K = false
  same : lookup u.tree K = lk

theorem genMetaOne_otherK {a b : Int} (cfg : Cfg) (enc : String → String) (now : Int) (emit : Bool)
    (acc : Target × List Event) (name : String) (v : Scalar) (isCur : Val → Bool) (K : Path) (lk : Option Noti)
    (hk : [metaRoot, name] ≠ K)
    (hpre : (([metaRoot, name] : Path).isPrefixOf K || K.isPrefixOf [metaRoot, name]) = false)
    (hp : PreK a b K lk acc.1) : PreK a b K lk (genMetaOne cfg enc now emit acc name v isCur).1 := by
  have hms := genMetaOne_ok cfg enc now emit acc name v isCur hp.inv hp.name
  suffices h : lookup (genMetaOne cfg enc now emit acc name v isCur).1.tree K = lookup acc.1.tree K ∧
      (PMap.conflicts acc.1.tree K = false →
        PMap.conflicts (genMetaOne cfg enc now emit acc name v isCur).1.tree K = false) from
    ⟨hms.inv, by rw [hms.name]; exact hp.name, h.2 hp.free, h.1.trans hp.same⟩
  unfold genMetaOne
  split
  · exact ⟨rfl, id⟩
  · split
    · exact ⟨rfl, id⟩
    · have hu : (metaNoti enc acc.1.name name v now).upd =
          [{ origin := "", path := [metaRoot, name], val := .scalar v,
             raw := rawMetaUpdate name (rawScalar enc v) enc }] := rfl
      have hkey : updKey (metaNoti enc acc.1.name name v now)
          { origin := "", path := [metaRoot, name], val := .scalar v,
            raw := rawMetaUpdate name (rawScalar enc v) enc } = [metaRoot, name] := by
        simp [updKey, joinKey, metaNoti]
      have := gnmiUpdate1_other_key cfg now acc.1 (metaNoti enc acc.1.name name v now) _ [] hu hp.name hp.inv K
        (by rw [hkey]; exact hk) (by rw [hkey]; exact hpre)
      simp only
      split <;> exact this

theorem stepG_otherK {α : Type} {a b : Int} (cfg : Cfg) (enc : String → String) (now : Int) (emit : Bool)
    (get : Meta → String → Option α) (mk : α → Scalar) (cur : α → Val → Bool)
    (acc : Target × List Event) (name : String) (K : Path) (lk : Option Noti)
    (hk : [metaRoot, name] ≠ K)
    (hpre : (([metaRoot, name] : Path).isPrefixOf K || K.isPrefixOf [metaRoot, name]) = false)
    (hp : PreK a b K lk acc.1) : PreK a b K lk (stepG cfg enc now emit get mk cur acc name).1 := by
  unfold stepG
  split
  · exact genMetaOne_otherK cfg enc now emit acc name _ _ K lk hk hpre hp
  · exact hp

/-- a latency path is neither a built-in `meta/<name>` path nor above or below one, `name = "latency"`
(which is not a metadata name) excepted -/
theorem latPath_sep (x : CfgX) (w : Int) (st : Stat) (name : String) (h : name ≠ "latency") :
    [metaRoot, name] ≠ latPath x w st ∧
    (([metaRoot, name] : Path).isPrefixOf (latPath x w st) || (latPath x w st).isPrefixOf [metaRoot, name]) = false := by
  constructor
  · exact fun e => latPath_ne_builtin x w st name e.symm
  · simp [latPath, List.isPrefixOf, h]

/-- **the refresh of `Model/Cache.lean` does not touch the latency leaves** -/
theorem generateMetaUpdates_keepsK {a b : Int} (cfg : Cfg) (x : CfgX) (enc : String → String) (now : Int)
    (emit : Bool) (t : Target) (w : Int) (st : Stat) (lk : Option Noti)
    (hp : PreK a b (latPath x w st) lk t) :
    PreK a b (latPath x w st) lk (t.generateMetaUpdates cfg enc now emit).1 := by
  rw [generateMetaUpdates_eq]
  have step : ∀ {α : Type} (get : Meta → String → Option α) (mk : α → Scalar) (cur : α → Val → Bool)
      (names : List String), (∀ name ∈ names, name ≠ "latency") → ∀ acc : Target × List Event,
      PreK a b (latPath x w st) lk acc.1 →
      PreK a b (latPath x w st) lk (names.foldl (stepG cfg enc now emit get mk cur) acc).1 := by
    intro α get mk cur names hnames acc h
    exact foldl_stepG_inv (PreK a b (latPath x w st) lk) cfg enc now emit get mk cur names
      (fun acc' name hm h' => stepG_otherK cfg enc now emit get mk cur acc' name _ lk
        (latPath_sep x w st name (hnames name hm)).1 (latPath_sep x w st name (hnames name hm)).2 h') acc h
  have h1 := step Meta.getBool Scalar.bool curB boolNames (by decide) (t, []) hp
  have h2 := step Meta.getInt Scalar.int curI intNames (by decide) _ h1
  have h3 := step Meta.getStr Scalar.str curS strNames (by decide) _ h2
  unfold genServerName
  split
  · exact genMetaOne_otherK cfg enc now emit _ "serverName" _ _ _ lk
      (latPath_sep x w st "serverName" (by decide)).1 (latPath_sep x w st "serverName" (by decide)).2 h3
  · exact h3

theorem updateMeta_keepsK {a b : Int} (cfg : Cfg) (x : CfgX) (enc : String → String) (now : Int)
    (emit : Bool) (t : Target) (w : Int) (st : Stat) (lk : Option Noti)
    (hp : PreK a b (latPath x w st) lk t) :
    PreK a b (latPath x w st) lk (t.updateMeta cfg enc now emit).1 := by
  unfold Target.updateMeta
  exact generateMetaUpdates_keepsK cfg x enc now emit _ w st lk
    ⟨hp.inv.with_md _ ⟨rfl, rfl, rfl⟩, hp.name, hp.free, hp.same⟩

/-- a step of the latency loop for a key with another path -/
theorem genLatOne_other {a b : Int} (cfg : Cfg) (x : CfgX) (enc : String → String) (now : Int) (emit : Bool)
    (vals : List Write) (acc : Target × List Event) (k : Int × Stat) (K : Path)
    (hi : TInvD a b acc.1) (hn : acc.1.name ≠ "") (hk : latPath x k.1 k.2 ≠ K)
    (hpre : ((latPath x k.1 k.2).isPrefixOf K || K.isPrefixOf (latPath x k.1 k.2)) = false) :
    lookup (genLatOne cfg x enc now emit vals acc k).1.tree K = lookup acc.1.tree K ∧
    (PMap.conflicts acc.1.tree K = false →
      PMap.conflicts (genLatOne cfg x enc now emit vals acc k).1.tree K = false) := by
  unfold genLatOne
  split
  · exact ⟨rfl, id⟩
  · split
    · exact ⟨rfl, id⟩
    · rename_i v _
      split
      · exact ⟨rfl, id⟩
      · have hu : (metaNotiAt enc acc.1.name (latPath x k.1 k.2) (.int v) now).upd =
            [{ origin := "", path := latPath x k.1 k.2, val := .scalar (.int v),
               raw := "o=;t=;e=" ++ ",".intercalate ((latPath x k.1 k.2).map enc) ++ ";l=#" ++
                 rawScalar enc (.int v) ++ "#0" }] := rfl
        have hkey : updKey (metaNotiAt enc acc.1.name (latPath x k.1 k.2) (.int v) now)
            { origin := "", path := latPath x k.1 k.2, val := .scalar (.int v),
              raw := "o=;t=;e=" ++ ",".intercalate ((latPath x k.1 k.2).map enc) ++ ";l=#" ++
                rawScalar enc (.int v) ++ "#0" } = latPath x k.1 k.2 := by
          simp [updKey, joinKey, metaNotiAt]
        have := gnmiUpdate1_other_key cfg now acc.1 (metaNotiAt enc acc.1.name (latPath x k.1 k.2) (.int v) now)
          _ [] hu hn hi K (by rw [hkey]; exact hk) (by rw [hkey]; exact hpre)
        simp only
        split <;> exact this

/-- two latency paths are unrelated unless they are the same -/
theorem latPath_unrelated (x : CfgX) (w w' : Int) (st st' : Stat) (h : latPath x w st ≠ latPath x w' st') :
    ((latPath x w st).isPrefixOf (latPath x w' st') || (latPath x w' st').isPrefixOf (latPath x w st)) = false := by
  simp only [latPath, List.cons.injEq, true_and, and_true, ne_eq, not_and] at h
  simp only [latPath, List.isPrefixOf, beq_self_eq_true, Bool.true_and, Bool.and_true, Bool.or_eq_false_iff,
    Bool.and_eq_false_iff, beq_eq_false_iff_ne, ne_eq]
  by_cases hw : x.winStr w = x.winStr w'
  · have hs := h hw
    exact ⟨Or.inr hs, Or.inr (fun e => hs e.symm)⟩
  · exact ⟨Or.inl hw, Or.inl (fun e => hw e.symm)⟩

/-! ## 2. The whole latency loop -/

/-- `CompactDurationString` separates the configured windows -/
def WinSep (x : CfgX) : Prop := ∀ w ∈ x.windows, ∀ w' ∈ x.windows, x.winStr w = x.winStr w' → w = w'

theorem mem_latKeys (x : CfgX) (k : Int × Stat) : k ∈ latKeys x ↔ k.1 ∈ x.windows := by
  unfold latKeys
  rw [List.mem_eraseDups, List.mem_flatMap]
  constructor
  · rintro ⟨w, hw, hk⟩
    simp only [List.mem_cons, List.not_mem_nil, or_false] at hk
    rcases hk with rfl | rfl | rfl <;> exact hw
  · intro hw
    refine ⟨k.1, hw, ?_⟩
    obtain ⟨w, st⟩ := k
    cases st <;> simp

theorem latPath_key_inj (x : CfgX) (hsep : WinSep x) (k k' : Int × Stat) (hk : k.1 ∈ x.windows)
    (hk' : k'.1 ∈ x.windows) (h : latPath x k.1 k.2 = latPath x k'.1 k'.2) : k = k' := by
  simp only [latPath, List.cons.injEq, true_and, and_true] at h
  have h1 := hsep k.1 hk k'.1 hk' h.1
  obtain ⟨w, st⟩ := k
  obtain ⟨w', st'⟩ := k'
  simp only at h1 h
  subst h1
  cases st <;> cases st' <;> first | rfl | (simp [statStr] at h)

/-- after the loop over keys none of which is `k0`, path `latPath k0` is as before -/
theorem foldl_genLatOne_other {a b : Int} (cfg : Cfg) (x : CfgX) (enc : String → String) (now : Int)
    (emit : Bool) (vals : List Write) (hsep : WinSep x) (k0 : Int × Stat) (hk0 : k0.1 ∈ x.windows)
    (lk : Option Noti) : ∀ (ks : List (Int × Stat)) (acc : Target × List Event),
    (∀ k ∈ ks, k.1 ∈ x.windows) → k0 ∉ ks → PreK a b (latPath x k0.1 k0.2) lk acc.1 →
    PreK a b (latPath x k0.1 k0.2) lk (ks.foldl (genLatOne cfg x enc now emit vals) acc).1
  | [], _, _, _, h => h
  | k :: ks, acc, hin, hnot, h => by
    simp only [List.foldl_cons]
    have hne : latPath x k.1 k.2 ≠ latPath x k0.1 k0.2 := by
      intro e
      have := latPath_key_inj x hsep k k0 (hin k (List.mem_cons_self ..)) hk0 e
      exact hnot (this ▸ List.mem_cons_self ..)
    have hms := genLatOne_ok cfg x enc now emit vals acc k h.inv h.name
    obtain ⟨o1, o2⟩ := genLatOne_other cfg x enc now emit vals acc k (latPath x k0.1 k0.2) h.inv h.name hne
      (latPath_unrelated x k.1 k0.1 k.2 k0.2 hne)
    exact foldl_genLatOne_other cfg x enc now emit vals hsep k0 hk0 lk ks _
      (fun k' hk' => hin k' (List.mem_cons_of_mem _ hk')) (fun hm => hnot (List.mem_cons_of_mem _ hm))
      ⟨hms.inv, by rw [hms.name]; exact h.name, o2 h.free, o1.trans h.same⟩

/-- once written, the leaf at `latPath k0` keeps its value through steps for other keys -/
theorem foldl_genLatOne_keeps {a b : Int} (cfg : Cfg) (x : CfgX) (enc : String → String) (now : Int)
    (emit : Bool) (vals : List Write) (hsep : WinSep x) (k0 : Int × Stat) (hk0 : k0.1 ∈ x.windows)
    (sv : Option Val) : ∀ (ks : List (Int × Stat)) (acc : Target × List Event),
    (∀ k ∈ ks, k.1 ∈ x.windows) → k0 ∉ ks → TInvD a b acc.1 → acc.1.name ≠ "" →
    leafVal acc.1 (latPath x k0.1 k0.2) = sv →
    leafVal (ks.foldl (genLatOne cfg x enc now emit vals) acc).1 (latPath x k0.1 k0.2) = sv
  | [], _, _, _, _, _, h => h
  | k :: ks, acc, hin, hnot, hi, hn, h => by
    simp only [List.foldl_cons]
    have hne : latPath x k.1 k.2 ≠ latPath x k0.1 k0.2 := by
      intro e
      have := latPath_key_inj x hsep k k0 (hin k (List.mem_cons_self ..)) hk0 e
      exact hnot (this ▸ List.mem_cons_self ..)
    have hms := genLatOne_ok cfg x enc now emit vals acc k hi hn
    obtain ⟨o1, _⟩ := genLatOne_other cfg x enc now emit vals acc k (latPath x k0.1 k0.2) hi hn hne
      (latPath_unrelated x k.1 k0.1 k.2 k0.2 hne)
    exact foldl_genLatOne_keeps cfg x enc now emit vals hsep k0 hk0 sv ks _
      (fun k' hk' => hin k' (List.mem_cons_of_mem _ hk')) (fun hm => hnot (List.mem_cons_of_mem _ hm))
      hms.inv (by rw [hms.name]; exact hn) (by unfold leafVal at h ⊢; rw [o1]; exact h)

theorem nodup_eraseDups {α : Type} [BEq α] [LawfulBEq α] : ∀ (n : Nat) (l : List α), l.length ≤ n → l.eraseDups.Nodup
  | _, [], _ => by simp
  | 0, _ :: _, h => by simp at h
  | n + 1, a :: l, h => by
    rw [List.eraseDups_cons, List.nodup_cons]
    constructor
    · rw [List.mem_eraseDups]
      intro hm
      have := (List.mem_filter.1 hm).2
      simp at this
    · apply nodup_eraseDups n
      have := List.length_filter_le (fun b => !b == a) l
      simp only [List.length_cons] at h
      omega

theorem latKeys_nodup (x : CfgX) : (latKeys x).Nodup := by
  unfold latKeys; exact nodup_eraseDups _ _ (Nat.le_refl _)

/-- nothing is stored above or below the latency path of `(w, st)` -/
def FreeAt (x : CfgX) (t : Target) (w : Int) (st : Stat) : Prop := PMap.conflicts t.tree (latPath x w st) = false
/-- a leaf stored at the latency path of `(w, st)` is older than `now` -/
def FreshAt (x : CfgX) (t : Target) (now : Int) (w : Int) (st : Stat) : Prop :=
  ∀ old, lookup t.tree (latPath x w st) = some old → old.ts < now

/-- **latency_leaves_exported.**  After `updateMeta` (clock reading `now`) of a well-formed target of a
cache with latency windows: for every configured window `w` and statistic `st` whose metadata entry is
set to `v` once `UpdateReset` has run, and whose name is not excluded from the refresh, the leaf
`meta/latency/window/<w>/<st>` holds the integer `v` — provided the write can land (`FreeAt`,
`FreshAt` for that path before the refresh) and the window names are distinct (`WinSep`). -/
theorem latency_leaves_exported {a b : Int} (cfg : Cfg) (x : CfgX) (enc : String → String) (now : Int)
    (emit : Bool) (t : Target) (l : LatSt) (hi : TInvD a b t) (hn : t.name ≠ "") (hsep : WinSep x)
    (w : Int) (st : Stat) (v : Int) (hw : w ∈ x.windows)
    (hex : cfg.excluded.contains (latName x w st) = false)
    (hv : exported (l.vals ++ (l.lat.update now false).2) w st = some v)
    (hfree : FreeAt x t w st) (hfresh : FreshAt x t now w st) :
    leafVal (t.updateMetaX cfg x enc now emit l).1.1 (latPath x w st) = some (.scalar (.int v)) := by
  rw [updateMetaX_eq]
  have h0 : PreK a b (latPath x w st) (lookup t.tree (latPath x w st)) t := ⟨hi, hn, hfree, rfl⟩
  have h1 := updateMeta_keepsK cfg x enc now emit t w st _ h0
  have hmem : (w, st) ∈ latKeys x := (mem_latKeys x (w, st)).2 hw
  obtain ⟨pre, post, hsplit⟩ := List.append_of_mem hmem
  have hnd := latKeys_nodup x
  rw [hsplit] at hnd
  have hall : ∀ k ∈ latKeys x, k.1 ∈ x.windows := fun k hk => (mem_latKeys x k).1 hk
  rw [hsplit] at hall
  have hnpre : (w, st) ∉ pre := by
    intro hm
    have := (List.nodup_append.1 hnd).2.2 _ hm _ (List.mem_cons_self ..)
    exact this rfl
  have hnpost : (w, st) ∉ post := by
    have := (List.nodup_append.1 hnd).2.1
    exact (List.nodup_cons.1 this).1
  rw [hsplit, List.foldl_append, List.foldl_cons]
  have h2 := foldl_genLatOne_other cfg x enc now emit (l.vals ++ (l.lat.update now false).2) hsep (w, st) hw _
    pre _ (fun k hk => hall k (List.mem_append_left _ hk)) hnpre h1
  have h3 := latency_leaf_value cfg x enc now emit (l.vals ++ (l.lat.update now false).2) _ (w, st) v
    h2.inv h2.name hex hv h2.free (by intro old ho; rw [h2.same] at ho; exact hfresh old ho)
  have hms := genLatOne_ok cfg x enc now emit (l.vals ++ (l.lat.update now false).2)
    (pre.foldl (genLatOne cfg x enc now emit (l.vals ++ (l.lat.update now false).2)) (t.updateMeta cfg enc now emit))
    (w, st) h2.inv h2.name
  exact foldl_genLatOne_keeps cfg x enc now emit _ hsep (w, st) hw _ post _
    (fun k hk => hall k (List.mem_append_right _ (List.mem_cons_of_mem _ hk))) hnpost hms.inv
    (by rw [hms.name]; exact h2.name) h3

/-! ## 3. Through `Cache.UpdateMetadata`, and bounded -/

/-- the same for `Cache.UpdateMetadata` on a cache with any number of targets -/
theorem updateMetadata_leaves_exported (env : Env) (sx : StateX) (now : Int) (hs : SInv sx.s)
    (hn : NamesUnique sx.s) (hsep : WinSep sx.x) (name : String) (t : Target) (hg : sx.s.get name = some t)
    (w : Int) (st : Stat) (v : Int) (hw : w ∈ sx.x.windows)
    (hex : sx.s.cfg.excluded.contains (latName sx.x w st) = false)
    (hv : exported ((sx.latOf name).vals ++ ((sx.latOf name).lat.update now false).2) w st = some v)
    (hfree : FreeAt sx.x t w st) (hfresh : FreshAt sx.x t now w st) :
    ∃ t', (sx.step env (.base (.updateMetadata now))).1.s.get name = some t' ∧
      leafVal t' (latPath sx.x w st) = some (.scalar (.int v)) := by
  obtain ⟨h1, h2, h3⟩ := hs name t hg
  refine ⟨_, ?_, latency_leaves_exported sx.s.cfg sx.x env.enc now true t (sx.latOf name) h1
    (by rw [h2]; exact h3) hsep w st v hw hex hv hfree hfresh⟩
  simp only [StateX.step]
  rw [(updateMetadataX_get sx env.enc now hn name).1, hg]; rfl

theorem exported_append_some (a b : List Write) (w : Int) (st : Stat) (v : Int)
    (h : exported b w st = some v) : exported (a ++ b) w st = some v := by
  unfold exported at h ⊢
  rw [List.reverse_append, List.find?_append]
  cases hf : b.reverse.find? (fun wr => decide (wr.size = w ∧ wr.stat = st)) with
  | none => rw [hf] at h; cases h
  | some wr => rw [hf] at h; simpa using h

theorem exported_mem (ws : List Write) (w : Int) (st : Stat) (v : Int) (h : exported ws w st = some v) :
    ∃ wr ∈ ws, wr.size = w ∧ wr.stat = st ∧ wr.val = v := by
  unfold exported at h
  cases hf : ws.reverse.find? (fun wr => decide (wr.size = w ∧ wr.stat = st)) with
  | none => rw [hf] at h; cases h
  | some wr =>
    rw [hf] at h
    have hm := List.mem_of_find?_eq_some hf
    have hp := List.find?_some hf
    simp only [decide_eq_true_eq] at hp
    exact ⟨wr, List.mem_reverse.1 hm, hp.1, hp.2, by simpa using h⟩

/-- **latency_leaves_bounded** (`latency_leaves_exported` ∘ `refresh_exports_bounded`).  After any
history of API calls from the empty cache, let the next `UpdateMetadata` come at clock reading `now`.
For every configured window `w` and statistic `st` for which that refresh's `UpdateReset` writes a value
`v` (the last one it writes under that name), the leaf `meta/latency/window/<w>/<st>` of the target
holds `v` after the refresh, and `v` is bounded — `max` the largest, `min` one of, `avg` between the
truncated smallest and largest — by the latencies `now' − ts` of the accepted, non-metadata, post-sync
unit updates of that target the window covers at `now`.  Hypotheses: those of `latency_leaves_exported`
(name not excluded, `FreeAt`, `FreshAt`, `WinSep`) and of `latency_bounds` (refresh clock readings do
not decrease, positive precision). -/
theorem latency_leaves_bounded (env : Env) (cfg : Cfg) (x : CfgX) (ops : List OpX)
    (hvld : ∀ op ∈ ops, op.valid) (name : String) (t : Target) (now : Int)
    (hg : (StateX.run env { s := { cfg := cfg }, x := x } ops).s.get name = some t)
    (hsf : 0 < sfOf x.prec)
    (hm : UpdMono (latOpsSince env name { s := { cfg := cfg }, x := x } ops [] ++ [.update now false]))
    (hsep : WinSep x) (w : Int) (st : Stat) (v : Int) (hw : w ∈ x.windows)
    (hex : cfg.excluded.contains (latName x w st) = false)
    (hv : exported ((((StateX.run env { s := { cfg := cfg }, x := x } ops).latOf name).lat.update now false).2)
      w st = some v)
    (hfree : FreeAt x t w st) (hfresh : FreshAt x t now w st) :
    (∃ t', ((StateX.run env { s := { cfg := cfg }, x := x } ops).step env (.base (.updateMetadata now))).1.s.get name
        = some t' ∧ leafVal t' (latPath x w st) = some (.scalar (.int v))) ∧
    Bounded (sfOf x.prec)
      ((hist (latOpsSince env name { s := { cfg := cfg }, x := x } ops [] ++ [.update now false])).window w now)
      st v := by
  obtain ⟨hs, hn⟩ := runX_inv env ops { s := { cfg := cfg }, x := x } (SInv.empty cfg) (NamesUnique.empty cfg) hvld
  have hx := runX_x env ops { s := { cfg := cfg }, x := x }
  have hc := runX_cfg env ops { s := { cfg := cfg }, x := x }
  constructor
  · have := updateMetadata_leaves_exported env _ now hs hn (by rw [hx]; exact hsep) name t hg w st v
      (by rw [hx]; exact hw) (by rw [hx, hc]; exact hex) (exported_append_some _ _ w st v hv)
      (by rw [hx]; exact hfree) (by rw [hx]; exact hfresh)
    rw [hx] at this
    exact this
  · obtain ⟨wr, hwr, e1, e2, e3⟩ := exported_mem _ w st v hv
    have := refresh_exports_bounded env cfg x ops hvld name t now hg hsf hm wr hwr
    rw [e1, e2, e3] at this
    exact this

/-! ## 4. The latency wiring and what data subscribers see -/

theorem genLatOne_sync (cfg : Cfg) (x : CfgX) (enc : String → String) (now : Int) (emit : Bool)
    (vals : List Write) (acc : Target × List Event) (k : Int × Stat) (hn : acc.1.name ≠ "") :
    (genLatOne cfg x enc now emit vals acc k).1.sync = acc.1.sync := by
  unfold genLatOne
  split
  · rfl
  · split
    · rfl
    · rename_i v _
      split
      · rfl
      · have : (Target.gnmiUpdate1 cfg now acc.1
            (metaNotiAt enc acc.1.name (latPath x k.1 k.2) (.int v) now)).2.1.sync = acc.1.sync := by
          rw [gnmiUpdate1_latNoti cfg x enc now acc.1 k.1 k.2 v hn, updateCore_sync]
        simp only
        split <;> exact this

/-- a path the latency loop cannot touch: different from, and neither above nor below, every latency path -/
def OutsideLatency (x : CfgX) (K : Path) : Prop :=
  ∀ k ∈ latKeys x, latPath x k.1 k.2 ≠ K ∧
    ((latPath x k.1 k.2).isPrefixOf K || K.isPrefixOf (latPath x k.1 k.2)) = false

/-- every data path (first element not `meta`) is outside the latency paths -/
theorem data_outside_latency (x : CfgX) (h : String) (rest : Path) (hh : h ≠ metaRoot) :
    OutsideLatency x (h :: rest) := by
  intro k _
  have hh' : ¬ metaRoot = h := fun e => hh e.symm
  constructor
  · simp [latPath, hh']
  · simp [latPath, List.isPrefixOf, hh, hh']

theorem foldl_genLatOne_outside {a b : Int} (cfg : Cfg) (x : CfgX) (enc : String → String) (now : Int)
    (emit : Bool) (vals : List Write) (K : Path) : ∀ (ks : List (Int × Stat)) (acc : Target × List Event),
    (∀ k ∈ ks, latPath x k.1 k.2 ≠ K ∧ ((latPath x k.1 k.2).isPrefixOf K || K.isPrefixOf (latPath x k.1 k.2)) = false) →
    TInvD a b acc.1 → acc.1.name ≠ "" →
    lookup (ks.foldl (genLatOne cfg x enc now emit vals) acc).1.tree K = lookup acc.1.tree K ∧
    (ks.foldl (genLatOne cfg x enc now emit vals) acc).1.sync = acc.1.sync
  | [], _, _, _, _ => ⟨rfl, rfl⟩
  | k :: ks, acc, hall, hi, hn => by
    simp only [List.foldl_cons]
    obtain ⟨h1, h2⟩ := hall k (List.mem_cons_self ..)
    have hms := genLatOne_ok cfg x enc now emit vals acc k hi hn
    obtain ⟨o1, _⟩ := genLatOne_other cfg x enc now emit vals acc k K hi hn h1 h2
    obtain ⟨i1, i2⟩ := foldl_genLatOne_outside cfg x enc now emit vals K ks _
      (fun k' hk' => hall k' (List.mem_cons_of_mem _ hk')) hms.inv (by rw [hms.name]; exact hn)
    exact ⟨i1.trans o1, i2.trans (genLatOne_sync cfg x enc now emit vals acc k hn)⟩

/-- **refresh_outside_latency_agrees.**  One refresh of a cache *with* latency windows, compared with the
refresh of `Model/Cache.lean` from the same target: every path outside the latency paths — every data
leaf in particular (`data_outside_latency`) — holds the same leaf, and the sync flag, the latest
timestamp and the name are the same.  (The counters may differ: a latency leaf written with the clock
stepping backwards is counted stale.) -/
theorem refresh_outside_latency_agrees {a b : Int} (cfg : Cfg) (x : CfgX) (enc : String → String) (now : Int)
    (emit : Bool) (t : Target) (l : LatSt) (hi : TInvD a b t) (hn : t.name ≠ "") :
    (∀ K, OutsideLatency x K →
      lookup (t.updateMetaX cfg x enc now emit l).1.1.tree K = lookup (t.updateMeta cfg enc now emit).1.tree K) ∧
    (t.updateMetaX cfg x enc now emit l).1.1.sync = (t.updateMeta cfg enc now emit).1.sync ∧
    (t.updateMetaX cfg x enc now emit l).1.1.latest = (t.updateMeta cfg enc now emit).1.latest ∧
    (t.updateMetaX cfg x enc now emit l).1.1.name = (t.updateMeta cfg enc now emit).1.name := by
  have h1 := updateMeta_ok cfg enc now emit t hi hn
  have h2 := updateMetaX_ok cfg x enc now emit t l hi hn
  rw [updateMetaX_eq] at h2 ⊢
  refine ⟨fun K hK => ?_, ?_, h2.latest.trans h1.latest.symm, h2.name.trans h1.name.symm⟩
  · exact (foldl_genLatOne_outside cfg x enc now emit _ K (latKeys x) _ hK h1.inv (by rw [h1.name]; exact hn)).1
  · exact (foldl_genLatOne_outside (a := a) (b := b) cfg x enc now emit _ [""] (latKeys x) _
      (data_outside_latency x "" [] (by decide)) h1.inv (by rw [h1.name]; exact hn)).2

/-- the non-metadata leaves of a target -/
def dataPart (t : Target) : PMap Noti := t.tree.filter (fun kv => !isMetaKey kv.1)

/-- **runX_data_agrees** (stated; as stated it is **false** — `runX_data_agrees_false` — and proved in a restricted
form as `runX_data_agrees_partial`, both in `Props/C15Agree.lean`).
Along every history of the calls of `Model/Cache.lean`, for a cache with any latency windows, every
registered target of the wired run has the same data leaves, sync flag and latest timestamp as in
`State.run` — the latency wiring never changes what data subscribers see.  Proved here: every call that is
not a refresh does to the `State` exactly what `State.step` does (`Cache.stepX_s`), and a refresh agrees
outside the latency paths (`refresh_outside_latency_agrees`).  After the first refresh the two runs continue
from states that differ under `meta/latency` and, legitimately, in counters (`targetLeavesStale` on a
backwards clock step, hence in the leaf `meta/targetLeavesStale` after the next refresh).
`Props/C15Agree.lean` has the relation that *is* preserved (`AgreeData`: same data leaves, latest, name), a
congruence lemma for every function of `Model/Cache.lean`, and the history theorem for the data leaves and
the latest timestamp over histories whose client updates are not addressed under `meta/…` (`HistOutside`).
Not proved: the sync-flag clause (a refresh re-derives `Target.sync` from the metadata value `sync` and the
leaf `meta/sync`; the relation would have to track both), and histories with client updates under `meta/…`
(there the acceptance of the update depends on leaves that differ between the runs: a target that itself
writes `meta/latency/window/<w>/max` after a refresh is answered "stale" with the window and "added" without,
which changes the latest timestamp — the decided witness `histMeta_latest_differs`). -/
def runX_data_agrees : Prop :=
  ∀ (env : Env) (cfg : Cfg) (x : CfgX) (ops : List Cache.Op) (name : String),
    (∀ op ∈ ops, op.valid) →
    ((StateX.run env { s := { cfg := cfg }, x := x } (ops.map OpX.base)).s.get name).map
        (fun t => (dataPart t, t.sync, t.latest)) =
      ((State.run env.enc { cfg := cfg } ops).get name).map (fun t => (dataPart t, t.sync, t.latest))

/-- the case without windows (from `Cache.runX_lift`) -/
theorem runX_data_agrees_nowin (env : Env) (cfg : Cfg) (x : CfgX) (hw : x.windows = []) (ops : List Cache.Op)
    (name : String) :
    ((StateX.run env { s := { cfg := cfg }, x := x } (ops.map OpX.base)).s.get name).map
        (fun t => (dataPart t, t.sync, t.latest)) =
      ((State.run env.enc { cfg := cfg } ops).get name).map (fun t => (dataPart t, t.sync, t.latest)) := by
  rw [runX_lift env ops { s := { cfg := cfg }, x := x } hw]

end Gnmi.C15Wire
