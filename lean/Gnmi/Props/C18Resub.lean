import Gnmi.Model.ClientResub
/-!
# C18 — a Poll in flight across a second Subscribe of the same BaseClient, then Close
(client/client.go:112-222; LTS `Model/ClientResub.lean`)

"after Close returns at most the notifications of one further received message are delivered" — also to a
Poll caller still reading the transport of an EARLIER Subscribe.  `Reach false …` is the repository's code,
`Reach true …` the variant of seeded change c18_seed10 (`closed := c.closed && c.clientImpl == impl` in `run`).
All theorems: any buffered content and arrivals per transport (`bufs`, rule `arrive`), any number of callers
of Subscribe / Poll / Close (`prog`), every interleaving.

* (a) `after_close_at_most_one` (+ `after_close_crit_at_most_one`, `closed_stays_set`), under the explicit
  hypothesis that no Subscribe installs an Impl after Close; `resubscribe_after_close_reopens` shows the
  hypothesis is needed (Subscribe resets `closed`: code behaviour, a remark, not a defect).
* (b) `run_terminates`, `poll_returns`, `replaced_transport_closed`.
* (c) `mutant_installed_only_delivers_all` (decided runs of the seeded variant), `repository_same_schedules`.
* (d) `pxr_scenario_reachable` (non-vacuity), `pxrFinal_reach` (the driver's computation is a run of the LTS).
-/
set_option linter.unusedSimpArgs false
set_option linter.unusedVariables false
namespace Gnmi
namespace C18Resub
open ClientResub

theorem closeT_closed (ts : Nat → Transport) (t t' : Nat) :
    (closeT ts t t').closed = (decide (t' = t) || (ts t').closed) := by
  simp only [closeT, upd]; split <;> simp [*]

theorem closeT_buf (ts : Nat → Transport) (t t' : Nat) : (closeT ts t t').buf = (ts t').buf := by
  simp only [closeT, upd]; split <;> simp [*]

theorem closeOpt_closed (ts : Nat → Transport) (o : Option Nat) (t' : Nat) :
    (closeOpt ts o t').closed = (decide (o = some t') || (ts t').closed) := by
  cases o with
  | none => simp [closeOpt]
  | some t => simp [closeOpt, closeT_closed, eq_comm]

/-- the transport a caller holds (captured by `Poll`, or being read by `run`) -/
def on : Pc → Option Nat
  | .pollSend t | .recv t | .handling t _ | .check t => some t
  | _ => none

/-- every transport somebody holds is the installed one or closed; with `closed` set the installed one is closed -/
structure CInv (c : Cfg) : Prop where
  on_ok : ∀ tid t, on (c.threads tid) = some t → c.installed = some t ∨ (c.transports t).closed = true
  closed_ok : c.closed = true → ∀ t, c.installed = some t → (c.transports t).closed = true

theorem cinv_step {mt : Bool} {c c' : Cfg} {l : Label} (hs : Step mt c l c') (hi : CInv c) : CInv c' := by
  obtain ⟨h1, h2⟩ := hi
  cases hs <;> refine ⟨fun tid' t' hon => ?_, fun hcl t' hi' => ?_⟩ <;>
    simp only [Cfg.go, Cfg.ev, upd_apply, closeT_closed, closeOpt_closed] at * <;>
    grind [on]

theorem cinv_init (bufs : Nat → List Msg) (prog : Nat → Pc) (hp : ∀ i, (prog i).isStart = true) :
    CInv (init bufs prog) := by
  refine ⟨fun tid t hon => ?_, fun hcl => ?_⟩
  · have := hp tid
    simp only [init] at hon
    cases h : prog tid <;> simp [h, on, Pc.isStart] at hon this
  · simp [init] at hcl

theorem cinv_reach {mt : Bool} {bufs : Nat → List Msg} {prog : Nat → Pc} {c : Cfg}
    (h : Reach mt bufs prog c) : CInv c := by
  induction h with
  | init hp => exact cinv_init _ _ hp
  | step _ hs ih => exact cinv_step hs ih


/-! ## (a) after Close, at most one further message per run loop -/

theorem afterMk_zero {mk : Ev → Bool} {tid : Nat} : ∀ {tr : List Ev}, tr.any mk = false → afterMk mk tid tr = 0
  | [], _ => rfl
  | e :: tr, h => by
      simp only [List.any_cons, Bool.or_eq_false_iff] at h
      simp [afterMk, h.2, afterMk_zero h.2]

/-- `run` has handed out a message in this iteration (or the call is over) -/
def late : Pc → Bool
  | .handling _ _ | .check _ | .done _ => true
  | _ => false

/-- the repository's code, as long as no Subscribe installs an Impl after the first effective Close -/
structure BInv (c : Cfg) : Prop where
  closed_set : c.trace.any Ev.isCrit = true → c.closed = true
  ret_crit : c.trace.any Ev.isCloseRet = true → c.trace.any Ev.isCrit = true
  mid_crit : ∀ tid, c.threads tid = .closeMid → c.trace.any Ev.isCrit = true
  ret_le : ∀ tid, afterMk Ev.isCloseRet tid c.trace ≤ afterMk Ev.isCrit tid c.trace
  le_one : ∀ tid, afterMk Ev.isCrit tid c.trace ≤ 1
  zero : ∀ tid, late (c.threads tid) = false → afterMk Ev.isCrit tid c.trace = 0

theorem installAfterClose_tail {e : Ev} {tr : List Ev} (h : installAfterClose (e :: tr) = false) :
    installAfterClose tr = false := by
  simp only [installAfterClose, Bool.or_eq_false_iff] at h
  exact h.1

theorem binv_step {c c' : Cfg} {l : Label} (hs : Step false c l c') (hno : installAfterClose c'.trace = false)
    (hi : BInv c) : BInv c' := by
  obtain ⟨h1, h2, h3, h4, h5, h6⟩ := hi
  cases hs <;> refine ⟨?_, ?_, fun tid' => ?_, fun tid' => ?_, fun tid' => ?_, fun tid' => ?_⟩ <;>
    simp only [Cfg.go, Cfg.ev, upd_apply, afterMk, installAfterClose, List.any_cons, Ev.isCrit, Ev.isCloseRet,
      Ev.isInstall, Ev.isDeliverBy, stop] at * <;>
    grind [late, afterMk_zero]

theorem step_trace {mt : Bool} {c c' : Cfg} {l : Label} (hs : Step mt c l c') :
    c'.trace = c.trace ∨ ∃ e, c'.trace = e :: c.trace := by
  cases hs <;> simp [Cfg.go, Cfg.ev]

theorem binv_reach {bufs : Nat → List Msg} {prog : Nat → Pc} {c : Cfg} (h : Reach false bufs prog c) :
    installAfterClose c.trace = false → BInv c := by
  induction h with
  | init hp =>
      intro _
      refine ⟨?_, ?_, fun tid => ?_, fun tid => ?_, fun tid => ?_, fun tid => ?_⟩ <;> simp [init, afterMk]
      have := hp tid
      intro h; rw [h] at this; simp [Pc.isStart] at this
  | step _ hs ih =>
      intro hno
      refine binv_step hs hno (ih ?_)
      rcases step_trace hs with h | ⟨e, h⟩
      · rw [← h]; exact hno
      · rw [h] at hno; exact installAfterClose_tail hno

/-- **after_close_at_most_one** (the repository's code; every buffer content, every arrival, any number of
callers of Subscribe / Poll / Close, every interleaving).  In every reachable configuration in whose
history no Subscribe installed an Impl after the critical section of the first effective `Close`: every
caller — whichever transport its `run` loop reads, installed or replaced — has entered the handler at
most ONCE after that `Close` returned. -/
theorem after_close_at_most_one {bufs : Nat → List Msg} {prog : Nat → Pc} {c : Cfg}
    (h : Reach false bufs prog c) (hno : installAfterClose c.trace = false) (tid : Nat) :
    afterCloseReturned tid c.trace ≤ 1 :=
  Nat.le_trans ((binv_reach h hno).ret_le tid) ((binv_reach h hno).le_one tid)

/-- the same counted from Close's critical section (stronger: `Close` need not have returned yet), and
a caller not yet inside an iteration of `run` has delivered nothing since -/
theorem after_close_crit_at_most_one {bufs : Nat → List Msg} {prog : Nat → Pc} {c : Cfg}
    (h : Reach false bufs prog c) (hno : installAfterClose c.trace = false) (tid : Nat) :
    afterMk Ev.isCrit tid c.trace ≤ 1 ∧ (late (c.threads tid) = false → afterMk Ev.isCrit tid c.trace = 0) :=
  ⟨(binv_reach h hno).le_one tid, (binv_reach h hno).zero tid⟩

/-- once `Close` has run its critical section `closed` stays set — unless a Subscribe follows -/
theorem closed_stays_set {bufs : Nat → List Msg} {prog : Nat → Pc} {c : Cfg}
    (h : Reach false bufs prog c) (hno : installAfterClose c.trace = false)
    (hc : c.trace.any Ev.isCrit = true) : c.closed = true :=
  (binv_reach h hno).closed_set hc

/-! ## (b) every run loop returns -/

/-- bound on the caller's own transitions until it returns, once its transport is closed -/
def rank (c : Cfg) : Pc → Nat
  | .recv t => 3 * (c.transports t).buf.length + 1
  | .handling t _ => 3 * (c.transports t).buf.length + 3
  | .check t => 3 * (c.transports t).buf.length + 2
  | _ => 0

theorem run_terminates_aux {mt : Bool} (tid t : Nat) :
    ∀ (n : Nat) (c : Cfg), (c.threads tid).loopOn = some t → (c.transports t).closed = true →
      rank c (c.threads tid) ≤ n →
      ∃ ls c' r, Run mt c ls c' ∧ (∀ l ∈ ls, l = .t tid) ∧ ls.length ≤ rank c (c.threads tid) ∧
        c'.threads tid = .done r := by
  intro n
  induction n with
  | zero =>
      intro c hl hc hr
      cases hpc : c.threads tid <;> simp [hpc, Pc.loopOn, rank] at hl hr
  | succ n ih =>
      intro c hl hc hr
      cases hpc : c.threads tid with
      | recv t0 =>
          simp [hpc, Pc.loopOn] at hl; subst hl
          cases hb : (c.transports t0).buf with
          | nil =>
              exact ⟨[.t tid], _, .err, .cons (.recvFail hpc hb hc) .nil, by simp, by simp [rank],
                by simp [Cfg.go, Cfg.ev]⟩
          | cons m rest =>
              have hs : Step mt c (.t tid) _ := .recvMsg hpc hb
              obtain ⟨ls, c', r, hrun, hby, hlen, hd⟩ := ih
                { c with transports := upd c.transports t0 { c.transports t0 with buf := rest },
                         threads := upd c.threads tid (.handling t0 m), trace := .deliver tid t0 m :: c.trace }
                (by simp [Pc.loopOn]) (by simp [hc]) (by simp [hpc, rank, hb] at hr ⊢; omega)
              refine ⟨.t tid :: ls, c', r, .cons hs hrun, by simpa using hby, ?_, hd⟩
              simp [rank, hb] at hlen ⊢; omega
      | handling t0 m =>
          simp [hpc, Pc.loopOn] at hl; subst hl
          cases m with
          | sync =>
              exact ⟨[.t tid], _, .nil, .cons (.handledSync hpc) .nil, by simp, by simp [rank],
                by simp [Cfg.go, Cfg.ev]⟩
          | upd k =>
              have hs : Step mt c (.t tid) _ := .handledUpd hpc
              obtain ⟨ls, c', r, hrun, hby, hlen, hd⟩ := ih (c.go tid (.check t0)) (by simp [Cfg.go, Pc.loopOn])
                (by simpa [Cfg.go] using hc) (by simp [hpc, rank, Cfg.go] at hr ⊢; omega)
              refine ⟨.t tid :: ls, c', r, .cons hs hrun, by simpa using hby, ?_, hd⟩
              simp [rank, Cfg.go] at hlen ⊢; omega
      | check t0 =>
          simp [hpc, Pc.loopOn] at hl; subst hl
          cases hst : stop mt c t0 with
          | true =>
              exact ⟨[.t tid], _, .nil, .cons (.checkStop hpc hst) .nil, by simp, by simp [rank],
                by simp [Cfg.go, Cfg.ev]⟩
          | false =>
              have hs : Step mt c (.t tid) _ := .checkGo hpc hst
              obtain ⟨ls, c', r, hrun, hby, hlen, hd⟩ := ih (c.go tid (.recv t0)) (by simp [Cfg.go, Pc.loopOn])
                (by simpa [Cfg.go] using hc) (by simp [hpc, rank, Cfg.go] at hr ⊢; omega)
              refine ⟨.t tid :: ls, c', r, .cons hs hrun, by simpa using hby, ?_, hd⟩
              simp [rank, Cfg.go] at hlen ⊢; omega
      | _ => simp [hpc, Pc.loopOn] at hl

/-- **run_terminates** (repository and seeded variant alike; any configuration).  A caller inside `run` on a
transport that is closed is never blocked and, by transitions of its OWN only, returns within
`3 * buffered + 3` transitions: every buffered message is handed out or `closed` stops it earlier, and the
drained closed transport fails `Recv`. -/
theorem run_terminates {mt : Bool} {c : Cfg} {tid t : Nat} (hl : (c.threads tid).loopOn = some t)
    (hc : (c.transports t).closed = true) :
    ∃ ls c' r, Run mt c ls c' ∧ (∀ l ∈ ls, l = .t tid) ∧ ls.length ≤ rank c (c.threads tid) ∧
      c'.threads tid = .done r :=
  run_terminates_aux tid t _ c hl hc (Nat.le_refl _)

theorem loopOn_on {pc : Pc} {t : Nat} (h : pc.loopOn = some t) : on pc = some t := by
  cases pc <;> simp [Pc.loopOn, on] at h ⊢ <;> exact h

/-- **poll_returns.**  In every reachable configuration with `closed` set — `Close` ran and no Subscribe
since — EVERY caller inside `run` returns by its own transitions, whichever transport it reads: the
installed one was closed by `Close`, every replaced one by the Subscribe that replaced it. -/
theorem poll_returns {mt : Bool} {bufs : Nat → List Msg} {prog : Nat → Pc} {c : Cfg}
    (h : Reach mt bufs prog c) (hcl : c.closed = true) {tid t : Nat} (hl : (c.threads tid).loopOn = some t) :
    ∃ ls c' r, Run mt c ls c' ∧ (∀ l ∈ ls, l = .t tid) ∧ ls.length ≤ rank c (c.threads tid) ∧
      c'.threads tid = .done r := by
  have hi := cinv_reach h
  refine run_terminates hl ?_
  rcases hi.on_ok tid t (loopOn_on hl) with h1 | h1
  · exact hi.closed_ok hcl t h1
  · exact h1

/-- a replaced transport is closed: a Poll caller left on it cannot block for ever either -/
theorem replaced_transport_closed {mt : Bool} {bufs : Nat → List Msg} {prog : Nat → Pc} {c : Cfg}
    (h : Reach mt bufs prog c) {tid t : Nat} (hl : (c.threads tid).loopOn = some t)
    (hne : c.installed ≠ some t) : (c.transports t).closed = true := by
  rcases (cinv_reach h).on_ok tid t (loopOn_on hl) with h1 | h1
  · exact absurd h1 hne
  · exact h1

/-! ## Decided witnesses (runs of the LTS computed by `runFn`, sound by `runFn_sound`) -/

theorem reach_of_runFn {mt : Bool} {bufs : Nat → List Msg} {prog : Nat → Pc} {ls : List Label} {c : Cfg}
    (hp : ∀ i, (prog i).isStart = true) (h : runFn mt (init bufs prog) ls = some c) : Reach mt bufs prog c :=
  (Reach.init hp).run (runFn_sound h)

theorem witness_of_runFn {mt : Bool} {bufs : Nat → List Msg} {prog : Nat → Pc} (ls : List Label)
    (hp : ∀ i, (prog i).isStart = true) (p : Cfg → Bool)
    (h : (match runFn mt (init bufs prog) ls with | some c => p c | none => false) = true) :
    ∃ c, Reach mt bufs prog c ∧ p c = true := by
  split at h
  · exact ⟨_, reach_of_runFn hp (by assumption), h⟩
  · cases h

theorem pxrProg_start : ∀ i, (pxrProg i).isStart = true := by
  intro i; unfold pxrProg; split <;> rfl

/-- the model side of `rc new pxr <k> <where>` is a run of the LTS (for every k, where, and both variants) -/
theorem pxrFinal_reach {mt : Bool} {k : Nat} {w : Where} {c : Cfg} (h : pxrFinal mt k w = some c) :
    Reach mt (pxrBufs k) pxrProg c :=
  reach_of_runFn pxrProg_start h

/-- **non-vacuity**: the scenario of go/vcorr/rc_pxr.go (k = 3, Close after the second Subscribe) is a
reachable run of the repository's LTS in which all four calls have returned, no Subscribe followed Close,
the Poll caller delivered ONE update (the one whose handler was held) and none after Close returned. -/
theorem pxr_scenario_reachable :
    ∃ c, Reach false (pxrBufs 3) pxrProg c ∧
      (allDone c 4 && !installAfterClose c.trace && c.trace.any Ev.isCloseRet &&
        decide (updTotal 1 c.trace = 1) && decide (afterCloseReturned 1 c.trace = 0) &&
        decide (c.installed = some 1) && (c.transports 0).closed && c.closed) = true :=
  witness_of_runFn (pxrSchedule false 3 .mid) pxrProg_start _ (by decide)

/-- **mutant_installed_only_delivers_all** (seeded change c18_seed10: `closed := c.closed && c.clientImpl ==
impl`).  In the pxr scenario with k = 3 the Poll caller left on the replaced transport is never stopped:
with the harness's schedule (first update's handler held across Subscribe #2 and Close) the 2 remaining
updates and the sync marker enter the handler after Close returned; if the Poll caller has not received
anything yet when Close returns, all 3 updates and the sync marker do.  No Subscribe follows Close. -/
theorem mutant_installed_only_delivers_all :
    (∃ c, Reach true (pxrBufs 3) pxrProg c ∧
      (!installAfterClose c.trace && decide (afterCloseReturned 1 c.trace = 3) &&
        decide (updAfterClose 1 c.trace = 2) && decide (updTotal 1 c.trace = 3) && allDone c 4) = true) ∧
    (∃ c, Reach true (pxrBufs 3) pxrProg c ∧
      (!installAfterClose c.trace && decide (afterCloseReturned 1 c.trace = 4) &&
        decide (updAfterClose 1 c.trace = 3) && allDone c 4) = true) :=
  ⟨witness_of_runFn (pxrSchedule true 3 .mid) pxrProg_start _ (by decide),
   witness_of_runFn
     ([.t 0, .t 0, .t 0, .t 1, .t 1, .t 2, .t 2, .t 2, .t 3, .t 3] ++ List.replicate 11 (.t 1))
     pxrProg_start _ (by decide)⟩

/-- the same two schedules in the repository's code: 0 resp. 1 message after Close returned -/
theorem repository_same_schedules :
    (∃ c, Reach false (pxrBufs 3) pxrProg c ∧ (decide (afterCloseReturned 1 c.trace = 0) && allDone c 4) = true) ∧
    (∃ c, Reach false (pxrBufs 3) pxrProg c ∧ (decide (afterCloseReturned 1 c.trace = 1) && allDone c 4) = true) :=
  ⟨witness_of_runFn (pxrSchedule false 3 .mid) pxrProg_start _ (by decide),
   witness_of_runFn
     ([.t 0, .t 0, .t 0, .t 1, .t 1, .t 2, .t 2, .t 2, .t 3, .t 3] ++ List.replicate 3 (.t 1))
     pxrProg_start _ (by decide)⟩

/-- **resubscribe_after_close_reopens** (REMARK on the code's behaviour, not a defect: Subscribe sets
`c.closed = false`, client.go:146).  The hypothesis of `after_close_at_most_one` is needed: in the
repository's code, Subscribe #1, a Poll caller that captured transport 0, then Close (returned), THEN
Subscribe #2: the Poll caller, still on the closed transport 0, delivers all 3 buffered updates and the
sync marker after Close returned. -/
theorem resubscribe_after_close_reopens :
    ∃ c, Reach false (pxrBufs 3) pxrProg c ∧
      (installAfterClose c.trace && decide (afterCloseReturned 1 c.trace = 4) && !c.closed) = true :=
  witness_of_runFn
    ([.t 0, .t 0, .t 0, .t 1, .t 1, .t 3, .t 3, .t 2] ++ List.replicate 11 (.t 1))
    pxrProg_start _ (by decide)

end C18Resub
end Gnmi
