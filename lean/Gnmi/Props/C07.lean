import Gnmi.Model.Subscribe
/-!
# C07 — subscribers never receive data for targets their ACL denies

Statements about the sequential model of `subscribe.Server` (`Gnmi/Model/Subscribe.lean`),
which follows the code's request validation, ACL checks and response building.  They hold for
every ACL, every request, **every** cache content (`setCache` installs an arbitrary cache) and
**every** list of feed events offered to the server (`feed` takes arbitrary events, so the
statements do not depend on how the cache produced them).  The interleaving-quantified form is
in `Props/C07L.lean` (LTS).
-/
namespace Gnmi
namespace C07
open Sub Cache

/-- the response concerns a target the caller may see (sync concerns none) -/
def respOK (a : Acl) (r : Resp) : Prop :=
  match respTarget r with
  | some t => a.check t = true
  | none => True

/-- everything this subscriber was sent, or is being sent, is authorised -/
def SubOK (s : Subscriber) : Prop :=
  (∀ x ∈ s.out, respOK s.acl x.1) ∧ (∀ r, s.blocked = some r → respOK s.acl r)

/-! ## Early rejection -/

/-- If per-call authorisation cannot be established the call is rejected as unauthenticated:
nothing is registered, queued or sent. -/
theorem unauthenticated_if_no_acl (st : Sub.State) (id : String) (req : Option Req) :
    (subscribe st id .fails req).subs =
      st.subs ++ [{ id := id, req := {}, acl := .fails, alive := false, status := some .unauthenticated }] := by
  simp [subscribe]

/-- A Subscribe call for a single target the caller is not authorised for is rejected with a
permission error before anything is registered, walked or sent (for every request that passes
the earlier validations and names an existing target). -/
theorem single_target_denied_early (st : Sub.State) (id : String) (targets : List String) (r : Req)
    (h1 : r.hasSubscribe = true) (h2 : r.prefixNil = false) (h3 : r.target ≠ "")
    (h4 : st.cache.hasTarget r.target = true) (h5 : r.target ≠ "*")
    (h6 : (Acl.allow targets).check r.target = false) :
    (subscribe st id (.allow targets) (some r)).subs =
      st.subs ++ [{ id := id, req := {}, acl := .allow targets, alive := false,
                    status := some .permissionDenied }] := by
  simp [subscribe, h1, h2, h3, h4, h5, h6]

/-! ## Nothing denied is ever sent -/

theorem respOK_of_not_denied {a : Acl} {r : Resp} (h : denied a r = false) : respOK a r := by
  unfold respOK
  unfold denied at h
  cases ht : respTarget r with
  | none => trivial
  | some t => simp only [ht] at h; simpa using h

theorem pump_ok : ∀ (fuel : Nat) (s : Subscriber), SubOK s → SubOK (pump fuel s)
  | 0, s, h => h
  | fuel + 1, s, h => by
    unfold pump
    split
    · exact h
    · split
      · split
        · exact ⟨h.1, h.2⟩
        · exact h
      · rename_i it rest hq
        simp only
        by_cases hd : denied s.acl (toResp it) = true
        · -- denied: dropped silently
          simp only [hd, if_true]
          exact pump_ok fuel _ ⟨h.1, h.2⟩
        · have hd' : denied s.acl (toResp it) = false := by simpa using hd
          have hok : respOK s.acl (toResp it) := respOK_of_not_denied hd'
          simp only [hd', Bool.false_eq_true, if_false]
          have hout : ∀ x ∈ s.out ++ [(toResp it, s.gatedSinceDrain)], respOK s.acl x.1 := by
            intro x hx
            rcases List.mem_append.1 hx with h1 | h1
            · exact h.1 x h1
            · simp only [List.mem_singleton] at h1; rw [h1]; exact hok
          split
          · -- gate shut: the response is held inside Send
            refine ⟨h.1, ?_⟩
            intro r hr
            simp only [Option.some.injEq] at hr
            rw [← hr]; exact hok
          · split
            · exact ⟨hout, h.2⟩
            · exact pump_ok fuel _ ⟨hout, h.2⟩

theorem pumpAll_ok (s : Subscriber) (h : SubOK s) : SubOK (pumpAll s) := pump_ok _ s h

theorem enqueue_ok (s : Subscriber) (e : Event) (h : SubOK s) : SubOK (enqueueEvent s e) := by
  unfold enqueueEvent
  split
  · exact h
  · split <;> exact ⟨h.1, h.2⟩

theorem enqueueAll_ok (evs : List Event) : ∀ (s : Subscriber), SubOK s →
    SubOK (evs.foldl (fun s e => enqueueEvent { s with queue := freezeCovered e s.queue } e) s) := by
  induction evs with
  | nil => intro s h; exact h
  | cons e evs ih => intro s h; exact ih _ (enqueue_ok _ e ⟨h.1, h.2⟩)

theorem doWalk_ok (c : Cache.State) (s : Subscriber) (h : SubOK s) : SubOK (doWalk c s) := by
  unfold doWalk
  split <;> exact ⟨h.1, h.2⟩

theorem fresh_ok (g : Bool) (id : String) (r : Req) (a : Acl) : SubOK (newSubscriber g id r a) :=
  ⟨by simp [newSubscriber], by simp [newSubscriber]⟩

/-- every subscriber of the server state is fine -/
def AllOK (st : Sub.State) : Prop := ∀ s ∈ st.subs, SubOK s

theorem subscribe_ok (st : Sub.State) (id : String) (a : Acl) (req : Option Req) (h : AllOK st) :
    AllOK (subscribe st id a req) := by
  have ended : ∀ c : Code, AllOK { st with subs := st.subs ++
      [{ id := id, req := {}, acl := a, alive := false, status := some c }] } := by
    intro c s hs
    rcases List.mem_append.1 hs with h1 | h1
    · exact h s h1
    · simp only [List.mem_singleton] at h1; rw [h1]; exact ⟨by simp, by simp⟩
  have added : ∀ s : Subscriber, SubOK s → AllOK { st with subs := st.subs ++ [s] } := by
    intro s hs x hx
    rcases List.mem_append.1 hx with h1 | h1
    · exact h x h1
    · simp only [List.mem_singleton] at h1; rw [h1]; exact hs
  unfold subscribe
  split
  · exact ended _
  · split
    · exact ended _
    · rename_i r
      simp only
      split
      · exact ended _
      · split
        · exact ended _
        · split
          · exact ended _
          · split
            · exact ended _
            · split
              · exact ended _
              · split
                · apply added
                  apply pumpAll_ok
                  have := doWalk_ok st.cache _ (fresh_ok (st.pregated.contains id) id r a)
                  split <;> first | exact ⟨this.1, this.2⟩ | exact this
                · apply added
                  exact pumpAll_ok _ (doWalk_ok _ _ (fresh_ok _ id r a))
                · apply added
                  apply pumpAll_ok
                  have h0 : SubOK (if r.updatesOnly = true then
                      { newSubscriber (st.pregated.contains id) id r a with
                        queue := insertSync (newSubscriber (st.pregated.contains id) id r a).queue }
                      else newSubscriber (st.pregated.contains id) id r a) := by
                    split
                    · exact ⟨(fresh_ok (st.pregated.contains id) id r a).1, (fresh_ok (st.pregated.contains id) id r a).2⟩
                    · exact fresh_ok (st.pregated.contains id) id r a
                  generalize (if r.updatesOnly = true then
                      { newSubscriber (st.pregated.contains id) id r a with
                        queue := insertSync (newSubscriber (st.pregated.contains id) id r a).queue }
                      else newSubscriber (st.pregated.contains id) id r a) = s0 at h0
                  have h1 : SubOK { s0 with regs := regQueries r } := ⟨h0.1, h0.2⟩
                  split
                  · exact h1
                  · exact doWalk_ok _ _ h1
                · exact ended _

theorem map_ok {st : Sub.State} {f : Subscriber → Subscriber} (h : AllOK st) (hf : ∀ s, SubOK s → SubOK (f s)) :
    AllOK { st with subs := st.subs.map f } := by
  intro s hs
  obtain ⟨x, hx, rfl⟩ := List.mem_map.1 hs
  exact hf x (h x hx)

theorem feed_ok (st : Sub.State) (evs : List Event) (h : AllOK st) : AllOK (feed st evs) := by
  unfold feed
  apply map_ok h
  intro s hs
  apply pumpAll_ok
  have := enqueueAll_ok evs s hs
  exact ⟨this.1, this.2⟩

theorem updateSub_ok (st : Sub.State) (id : String) (f : Subscriber → Subscriber) (h : AllOK st)
    (hf : ∀ s, SubOK s → SubOK (f s)) : AllOK (updateSub st id f) := by
  unfold updateSub
  apply map_ok h
  intro s hs
  split
  · exact hf s hs
  · exact hs

/-- client and environment actions on a running server -/
inductive Op where
  | sub (id : String) (a : Acl) (req : Option Req)
  | setCache (c : Cache.State)            -- any cache content
  | feed (evs : List Event)               -- any feed events
  | poll (id : String)
  | eof (id : String)
  | gate (id : String) (shut : Bool)
  | gateStep (id : String)                -- flow control lets one held response through
  | expire
  | drain (id : String)

def step (st : Sub.State) : Op → Sub.State
  | .sub id a req => subscribe st id a req
  | .setCache c => { st with cache := c }
  | .feed evs => Sub.feed st evs
  | .poll id => Sub.poll st id
  | .eof id => Sub.eof st id
  | .gate id shut => setGate st id shut
  | .gateStep id => stepGate st id
  | .expire => Sub.expire st
  | .drain id => updateSub st id (fun x => { x with out := [], gatedSinceDrain := x.gateShut })

theorem step_ok (st : Sub.State) (op : Op) (h : AllOK st) : AllOK (step st op) := by
  cases op with
  | sub id a req => exact subscribe_ok st id a req h
  | setCache c => exact h
  | feed evs => exact feed_ok st evs h
  | poll id =>
    apply updateSub_ok st id _ h
    intro s hs
    split
    · exact pumpAll_ok _ (doWalk_ok _ _ hs)
    · exact hs
  | eof id =>
    apply updateSub_ok st id _ h
    intro s hs
    split
    · exact ⟨hs.1, by simp⟩
    · exact hs
  | gate id shut =>
    apply updateSub_ok st id _ h
    intro s hs
    split
    · exact ⟨hs.1, hs.2⟩
    · simp only
      apply pumpAll_ok
      split
      · rename_i r hb
        have hr := hs.2 r hb
        have hout : ∀ x ∈ s.out ++ [(r, s.gatedSinceDrain)], respOK s.acl x.1 := by
          intro x hx
          rcases List.mem_append.1 hx with h1 | h1
          · exact hs.1 x h1
          · simp only [List.mem_singleton] at h1; rw [h1]; exact hr
        split
        · exact ⟨hout, by simp⟩
        · exact ⟨hout, by simp⟩
      · exact ⟨hs.1, hs.2⟩
  | gateStep id =>
    apply updateSub_ok st id _ h
    intro s hs
    split
    · split
      · rename_i r hb
        have hr := hs.2 r hb
        have hout : ∀ x ∈ s.out ++ [(r, s.gatedSinceDrain)], respOK s.acl x.1 := by
          intro x hx
          rcases List.mem_append.1 hx with h1 | h1
          · exact hs.1 x h1
          · simp only [List.mem_singleton] at h1; rw [h1]; exact hr
        simp only
        split
        · exact ⟨hout, by simp⟩
        · exact pumpAll_ok _ ⟨hout, by simp⟩
      · exact hs
    · exact hs
  | expire =>
    apply map_ok h
    intro s hs
    split
    · exact ⟨hs.1, by simp⟩
    · exact hs
  | drain id =>
    apply updateSub_ok st id _ h
    intro s hs
    exact ⟨by simp, hs.2⟩

/-- **C07.** For every sequence of subscriptions (any mode, any ACL), cache contents, feed
events (updates and deletes for allowed and denied targets), polls, stalls and drains: no
response whose target the caller is not authorised for is ever sent or being sent — in the
initial snapshot, in streamed updates, or in deletes. -/
theorem never_sends_denied (ops : List Op) :
    AllOK (ops.foldl step {}) := by
  suffices ∀ (ops : List Op) (st : Sub.State), AllOK st → AllOK (ops.foldl step st) from
    this ops {} (by intro s hs; simp at hs)
  intro ops
  induction ops with
  | nil => intro st h; exact h
  | cons op ops ih => intro st h; exact ih _ (step_ok st op h)

/-! ## Non-vacuity -/

def nA : Noti := { ts := 5, target := "t1", pfx := ["a"], praw := "p", upd := [{ path := ["b"], val := .scalar (.int 1), raw := "u" }] }
def nB : Noti := { nA with target := "t2" }
def cache2 : Cache.State :=
  (((({} : Cache.State).add "t1").add "t2").gnmiUpdate 10 false nA).2.1 |> fun c => (c.gnmiUpdate 10 false nB).2.1
def reqAll : Req := { target := "*", mode := .once, subs := [{ path := [] }] }

/-- an all-targets ONCE by a caller allowed `t1` only: one update (for `t1`), then sync -/
example : ((subscribe { cache := cache2 } "s" (.allow ["t1"]) (some reqAll)).subs.map
    (fun s => (s.out.map (fun x => respTarget x.1), s.status))) = [([some "t1", none], some Code.ok)] := by decide

end C07
end Gnmi
