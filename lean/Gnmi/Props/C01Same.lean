import Gnmi.Lemmas.PipelineSame
/-!
# C01 — `pipeline_faithful` under the property's own stream hypotheses

`Props/C01.lean` and `Props/C01Stream.lean` prove the two clauses of `C01.pipeline_faithful` for
`Relay.wellFormed true` streams (per leaf *increasing* timestamps, or the stored timestamp with the
stored value again).  The property itself asks for `Relay.wellFormed false` — per leaf
*non-decreasing* timestamps: an update may carry the stored timestamp and **another** value — together
with `RawFaithful` (raw renderings stand for `proto.Equal`: equal renderings of two updates of one
stream mean equal values).  This file proves both clauses under exactly those hypotheses.

What happens in the cache (`(*Target).gnmiUpdate`, `Model/Cache.lean` `verdict`): an update with the
stored timestamp is rejected as a duplicate iff the whole notification is `proto.Equal` to the stored
one (`Noti.same`: timestamp, prefix rendering, atomic flag, the raw renderings of its updates and
deletes); otherwise it *replaces* the stored leaf.  So
* not `proto.Equal` ⇒ replaced ⇒ the target presents `View.set` of the old view: right;
* `proto.Equal` ⇒ in particular the two updates have the same raw rendering ⇒ (`RawFaithful`, the
  stored update being an update of the same stream: the `From` component of the run invariant
  `Relay.Holds2`) the same value ⇒ rejecting changes nothing and the view already shows
  (timestamp, value): right.
`RawFaithful` as defined (on the updates' own `raw`, not on whole notifications) is therefore strong
enough: the model's duplicate test compares *more* than the update's rendering (also the prefix
rendering), and comparing more only makes it reject less.

* `collector_cache_holds_final_view_nondecreasing` — the cache holds each target's final view, the
  collector never crashes;
* `pipeline_faithful_once_nondecreasing` — the ONCE clause of `pipeline_faithful`, exactly its
  hypotheses (and no restriction on the query paths);
* `pipeline_faithful_stream_nondecreasing` — the STREAM clause under `wellFormed false ∧ RawFaithful`
  and the three hypotheses of `pipeline_faithful_stream_partial` (`"*"` not a configured name,
  `ExactStream`, `queryOK` queries; without `ExactStream` the clause is false:
  `pipeline_faithful_refuted`);
* `pipeline_faithful_nondecreasing` — both clauses in the shape of `pipeline_faithful`;
* `pipeline_faithful_once_clause_holds` — the first conjunct of `pipeline_faithful`, literally;
* `once_fails_without_rawFaithful` — `RawFaithful` cannot be dropped (concrete run, `decide`).
-/
namespace Gnmi
namespace C01
open Cache Pipeline Relay SubStream C01S

theorem rawOK_of_rawFaithful {items : List TItem} (h : RawFaithful items) : RawOK (updatesOf items) := h

/-- the state `runCollector` starts serving from satisfies the run invariant with provenance -/
theorem start_holds2 (cfg : TargetCfg.Cfg) (hv : TargetCfg.validate cfg = .ok ()) (U : String → List Upd) :
    Holds2 (TargetCfg.keys cfg.target) U (Sys.start cfg) (fun _ => []) :=
  ⟨rfl, start_threshold cfg, fun name hn =>
    ⟨_, start_fresh cfg hv name hn, fresh_target_inv name, agree_fresh name, (fun kv hkv => by cases hkv),
      from_fresh (U name) name⟩⟩

/-! ## The collector glue + cache part -/

/-- **The cache holds each target's final state — the property's own stream hypotheses.**
`collector_cache_holds_final_view` for `Relay.wellFormed false` (per leaf *non-decreasing*
timestamps: the stored timestamp with another value is allowed) and `RawFaithful` streams: for every
valid configuration and every run that is any interleaving of such sessions of the configured
targets, the collector never crashes, and at the end the cache holds, for every configured target,
exactly the target's final view (for every key the timestamp and value of the last update not
deleted afterwards, nothing else outside `meta/`); moreover every update it stores outside `meta/`
is literally one the target streamed. -/
theorem collector_cache_holds_final_view_nondecreasing (enc : String → String) (cfg : TargetCfg.Cfg)
    (hv : TargetCfg.validate cfg = .ok ()) (steps : List Step)
    (hs : ∀ x ∈ senders steps, x ∈ TargetCfg.keys cfg.target)
    (hwf : ∀ name ∈ TargetCfg.keys cfg.target,
      wellFormed false (itemsOf name steps) = true ∧ RawFaithful (itemsOf name steps)) :
    ((Sys.start cfg).run enc steps).crashed = false ∧
    ∀ name ∈ TargetCfg.keys cfg.target,
      ∃ t, ((Sys.start cfg).run enc steps).sub.cache.get name = some t ∧ TInv t ∧
        (∀ k, absGet t k = (finalView (itemsOf name steps)).get k) ∧ Good name t ∧
        From (updatesOf (itemsOf name steps)) t := by
  have hne : ∀ x ∈ TargetCfg.keys cfg.target, x ≠ "" := by
    intro x hx
    obtain ⟨t, hmem⟩ := mem_keys hx
    exact (validate_entries hv (x, t) hmem).name_ne
  have h := Holds2.run (U := fun name => updatesOf (itemsOf name steps)) enc hne
    (fun name hn => rawOK_of_rawFaithful (hwf name hn).2) false steps _ _
    (start_holds2 cfg hv _) hs (fun name hn => (hwf name hn).1) (fun name _ u hu => hu)
  exact ⟨h.alive, fun name hn => by
    obtain ⟨t, g1, g2, g3, g4, g5⟩ := h.each name hn
    exact ⟨t, g1, g2, g3, g4, g5⟩⟩

/-! ## End to end: a ONCE client at quiescence -/

/-- what a ONCE client gets from a collector whose cache holds target `T` as a well-formed tree
presenting the prefix-free view `v` (the client half of `pipeline_faithful_once_partial`, stated on
the cache alone) -/
theorem once_of_cache (s : Sys) (T : String) (hne : T ≠ "") (hstar : T ≠ "*") (t : Target)
    (g1 : s.sub.cache.get T = some t) (g2 : TInv t) (v : View) (g3 : ∀ k, absGet t k = v.get k)
    (g4 : Good T t) (hvok : ViewOK v) (qs : List Path) :
    let c := s.once T qs
    c.failed = false ∧ c.synced = true ∧
    (∀ kv ∈ c.leaves, ∃ k, kv.1 = T :: k) ∧ (c.leaves.map (·.1)).Nodup ∧
    ∀ k, isMetaKey k = false →
      cget c.tree (T :: k) = if selected qs k = true then (v.get k).bind clientLeaf else none := by
  intro c
  -- the walk and what the server sends (C05)
  have hwalk := walkItems_client s.sub.cache T hne hstar t g1 qs
  have hitem : ∀ it ∈ qs.flatMap (fun q => (PMap.query t.tree q).map (fun e => (T, e.1, e.2))),
      it.1 = T ∧ (it.2.1, it.2.2) ∈ t.tree ∧ selected qs it.2.1 = true := by
    intro it hit
    obtain ⟨q, hq, hin⟩ := List.mem_flatMap.1 hit
    obtain ⟨e, he, rfl⟩ := List.mem_map.1 hin
    have := List.mem_filter.1 he
    exact ⟨rfl, this.1, List.any_eq_true.2 ⟨q, hq, this.2⟩⟩
  have hfun : C05.Functional (qs.flatMap (fun q => (PMap.query t.tree q).map (fun e => (T, e.1, e.2)))) := by
    intro a ha b hb _ hk
    have h1 := lookup_some_of_mem g2.unique (hitem a ha).2.1
    have h2 := lookup_some_of_mem g2.unique (hitem b hb).2.1
    rw [hk, h2] at h1
    exact (Option.some.inj h1).symm
  have hacc : C05.Accepted s.sub.cache .absent (clientReq T .once qs) :=
    ⟨rfl, rfl, hne, by simp [State.hasTarget, clientReq, hne, hstar, g1], Or.inr rfl, rfl, trivial⟩
  obtain ⟨sb, hsubs, hstatus, _, body, hout, hsound, hcomplete⟩ :=
    C05.once_static_exact s.sub.cache "once" .absent (clientReq T .once qs) _
      hacc rfl hwalk hfun (fun it hit => by rw [(hitem it hit).1]; exact (g4 _ (hitem it hit).2.1).2.2.1)
  have hc : c = (Client.run true {} (body ++ [.sync])).finish (some .ok) := by
    show Sys.once _ T qs = _
    unfold Sys.once lastSent
    simp only [hsubs, List.getLast?_singleton, hout, hstatus]
  -- the client
  have hgood : ∀ kv ∈ t.tree, GoodLeaf T kv.1 kv.2 ∧ kv.1 ≠ [] := fun kv hkv => ⟨g4 kv hkv, g2.nonEmpty kv hkv⟩
  have inview : ∀ e ∈ t.tree, isMetaKey e.1 = false →
      (e.1, (e.2.ts, headVal e.2)) ∈ v := by
    intro e he hme
    have hl : lookup t.tree e.1 = some e.2 := lookup_some_of_mem g2.unique he
    have := g3 e.1
    unfold absGet at this
    simp only [hme, Bool.false_eq_true, if_false, hl, Option.map_some] at this
    exact View.get_some_mem this.symm
  have hpf : ∀ a ∈ t.tree, ∀ b ∈ t.tree, isMetaKey a.1 = false ∨ isMetaKey b.1 = false →
      a.1.isPrefixOf b.1 = true → a.1 = b.1 := by
    intro a ha b hb hm hp
    have hmeq := isMetaKey_of_prefix (g2.nonEmpty a ha) (g2.nonEmpty b hb) hp
    have hma : isMetaKey a.1 = false := by rcases hm with h | h; exact h; rw [hmeq]; exact h
    have hmb : isMetaKey b.1 = false := by rw [← hmeq]; exact hma
    exact hvok.pf _ (inview a ha hma) _ (inview b hb hmb) hp
  have hw := walkedB_all T hne t.tree g2.unique hgood hpf body [] {}
    ⟨rfl, rfl, rfl, (fun _ h => nomatch h), List.nodup_nil, (fun _ _ _ _ _ h => nomatch h)⟩
    (by
      intro x hx
      obtain ⟨it, hit, d, rfl, _⟩ := hsound x hx
      exact ⟨it.2.1, it.2.2, d, rfl, (hitem it hit).2.1⟩)
  simp only [List.nil_append] at hw
  have hrun : Client.run true {} (body ++ [.sync]) =
      { (List.foldl (Client.recv true) {} body) with synced := true, stopped := true } := by
    unfold Client.run
    rw [List.foldl_append]
    simp only [List.foldl_cons, List.foldl_nil]
    exact decode_sync true _ hw.failed hw.stopped
  rw [hc, hrun]
  refine ⟨hw.failed, rfl, ?_, hw.nodup, ?_⟩
  · intro kv hkv
    obtain ⟨k, _, _, e, _⟩ := hw.keys kv hkv
    exact ⟨k, e⟩
  · intro k hk
    show cget (List.foldl (Client.recv true) {} body).tree (T :: k) = _
    -- a leaf the client holds came with the walk
    have hback : ∀ leaf, cget (List.foldl (Client.recv true) {} body).tree (T :: k) = some leaf →
        ∃ n, (k, n) ∈ t.tree ∧ selected qs k = true := by
      intro leaf hl
      obtain ⟨k2, n2, d2, e1, e2, e3⟩ := hw.keys _ (cget_mem hl)
      simp only [List.cons.injEq, true_and] at e1
      subst e1
      obtain ⟨it, hit, d, hx, _⟩ := hsound _ e3
      simp only [Sub.Resp.upd.injEq] at hx
      obtain ⟨_, hin, hsel⟩ := hitem it hit
      -- the same notification is filed under one key only
      obtain ⟨_, _, _, u1, hu1, _, hk1⟩ := g4 _ e2
      obtain ⟨_, _, _, u2, hu2, _, hk2⟩ := g4 _ hin
      have a1 : n2.upd = [u1] := hu1
      have a2 : it.2.2.upd = [u2] := hu2
      rw [← hx.1, a1] at a2
      simp only [List.cons.injEq, and_true] at a2
      have b1 : k = joinKey n2 u1.path := hk1
      have b2 : it.2.1 = joinKey it.2.2 u2.path := hk2
      have : it.2.1 = k := by rw [b1, b2, ← hx.1, a2]
      rw [this] at hsel
      exact ⟨n2, e2, hsel⟩
    by_cases hsel : selected qs k = true
    · simp only [hsel, if_true]
      have hg := g3 k
      unfold absGet at hg
      simp only [hk, Bool.false_eq_true, if_false] at hg
      rw [← hg]
      cases hl : lookup t.tree k with
      | some n =>
        have hmem := mem_of_lookup_some hl
        obtain ⟨q, hq, hqm⟩ := List.any_eq_true.1 hsel
        have hit : (T, k, n) ∈ qs.flatMap (fun q => (PMap.query t.tree q).map (fun e => (T, e.1, e.2))) :=
          List.mem_flatMap.2 ⟨q, hq, List.mem_map.2 ⟨(k, n), List.mem_filter.2 ⟨hmem, hqm⟩, rfl⟩⟩
        obtain ⟨d, hd⟩ := hcomplete _ hit rfl
        rw [hw.get k n d hk hmem hd]
        simp [decLeaf_eq]
      | none =>
        simp only [Option.map_none, Option.bind_none]
        cases hcg : cget (List.foldl (Client.recv true) {} body).tree (T :: k) with
        | none => rfl
        | some leaf =>
          obtain ⟨n, hn, _⟩ := hback leaf hcg
          rw [lookup_some_of_mem g2.unique hn] at hl
          cases hl
    · simp only [hsel]
      cases hcg : cget (List.foldl (Client.recv true) {} body).tree (T :: k) with
      | none => rfl
      | some leaf => exact absurd (hback leaf hcg).choose_spec.2 hsel

/-- … in the words of the specification (`HoldsExpected`) -/
theorem holdsExpected_of_leaves (c : Client) (T : String) (v : View) (hvok : ViewOK v) (qs : List Path)
    (h1 : c.failed = false) (h2 : c.synced = true) (h3 : ∀ kv ∈ c.leaves, ∃ k, kv.1 = T :: k)
    (hget : ∀ k, isMetaKey k = false →
      cget c.tree (T :: k) = if selected qs k = true then (v.get k).bind clientLeaf else none) :
    HoldsExpected c T v qs := by
  refine ⟨h1, h2, h3, ?_⟩
  intro k cv hk
  rw [hget k hk]
  unfold expected
  simp only [List.mem_filterMap, List.mem_filter]
  constructor
  · rintro ⟨ts, h⟩
    by_cases hq : selected qs k = true
    · simp only [hq, if_true] at h
      cases hg : (v).get k with
      | none => rw [hg] at h; cases h
      | some x =>
        rw [hg] at h
        simp only [Option.bind_some] at h
        refine ⟨(k, x), ⟨View.get_some_mem hg, hq⟩, ?_⟩
        unfold clientLeaf at h
        unfold leafOf
        cases hd : decodeVal x.2 with
        | val c => rw [hd] at h; simp only [Option.some.injEq, CLeaf.mk.injEq] at h; simp [h.2]
        | skip => rw [hd] at h; cases h
        | err => rw [hd] at h; cases h
    · simp [hq] at h
  · rintro ⟨⟨k', x⟩, ⟨hm, hq⟩, hl⟩
    unfold leafOf at hl
    cases hd : decodeVal x.2 with
    | val c =>
      rw [hd] at hl
      simp only [Option.some.injEq, Prod.mk.injEq, List.cons.injEq, true_and] at hl
      obtain ⟨rfl, rfl⟩ := hl
      simp only at hq
      refine ⟨x.1, ?_⟩
      simp only [hq, if_true, View.get_of_mem hvok hm, Option.bind_some, clientLeaf, hd]
    | skip => rw [hd] at hl; cases hl
    | err => rw [hd] at hl; cases hl

/-- **pipeline_faithful, ONCE client, non-decreasing timestamps** (leaf-by-leaf form).  As
`pipeline_faithful_once_partial`, under the property's own hypotheses. -/
theorem pipeline_faithful_once_nondecreasing_leaves (enc : String → String) (cfg : TargetCfg.Cfg)
    (hv : TargetCfg.validate cfg = .ok ()) (steps : List Step)
    (hs : ∀ x ∈ senders steps, x ∈ TargetCfg.keys cfg.target)
    (hwf : ∀ name ∈ TargetCfg.keys cfg.target,
      wellFormed false (itemsOf name steps) = true ∧ RawFaithful (itemsOf name steps))
    (T : String) (hT : T ∈ TargetCfg.keys cfg.target) (hstar : T ≠ "*") (qs : List Path) :
    let c := ((Sys.start cfg).run enc steps).once T qs
    c.failed = false ∧ c.synced = true ∧
    (∀ kv ∈ c.leaves, ∃ k, kv.1 = T :: k) ∧ (c.leaves.map (·.1)).Nodup ∧
    ∀ k, isMetaKey k = false →
      cget c.tree (T :: k) =
        if selected qs k = true then ((finalView (itemsOf T steps)).get k).bind clientLeaf else none := by
  obtain ⟨_, hall⟩ := collector_cache_holds_final_view_nondecreasing enc cfg hv steps hs hwf
  obtain ⟨t, g1, g2, g3, g4, _⟩ := hall T hT
  have hne : T ≠ "" := by
    obtain ⟨tt, hmem⟩ := mem_keys hT
    exact (validate_entries hv (T, tt) hmem).name_ne
  exact once_of_cache _ T hne hstar t g1 g2 _ g3 g4 (viewOK_final_nd (itemsOf T steps) (hwf T hT).1) qs

/-- **pipeline_faithful, ONCE clause — exactly the property's hypotheses.**  For every valid
configuration, every run that is any interleaving of sessions of the configured targets whose
streams are `wellFormed false` (per leaf *non-decreasing* timestamps) and `RawFaithful`, every
configured target `T ≠ "*"` and *any* list of query paths: a client that subscribes ONCE to `T`
after the run holds exactly `Relay.expected T (final view) qs` — the first conjunct of
`pipeline_faithful`, with its hypotheses `qs ≠ []` and `queryOK` not even needed. -/
theorem pipeline_faithful_once_nondecreasing (enc : String → String) (cfg : TargetCfg.Cfg)
    (hv : TargetCfg.validate cfg = .ok ()) (steps : List Step)
    (hs : ∀ x ∈ senders steps, x ∈ TargetCfg.keys cfg.target)
    (hwf : ∀ name ∈ TargetCfg.keys cfg.target,
      wellFormed false (itemsOf name steps) = true ∧ RawFaithful (itemsOf name steps))
    (T : String) (hT : T ∈ TargetCfg.keys cfg.target) (hstar : T ≠ "*") (qs : List Path) :
    HoldsExpected (((Sys.start cfg).run enc steps).once T qs) T (finalView (itemsOf T steps)) qs := by
  obtain ⟨h1, h2, h3, _, h5⟩ :=
    pipeline_faithful_once_nondecreasing_leaves enc cfg hv steps hs hwf T hT hstar qs
  exact holdsExpected_of_leaves _ T _ (viewOK_final_nd (itemsOf T steps) (hwf T hT).1) qs h1 h2 h3 h5

/-! ## The STREAM clause -/

/-- **pipeline_faithful, STREAM client — non-decreasing timestamps.**
`pipeline_faithful_stream_partial` under the property's own stream hypotheses (`wellFormed false`,
`RawFaithful`), keeping its three other hypotheses (`"*"` not a configured target name,
`ExactStream`, `queryOK` queries): a STREAM client of a configured target `T` that subscribed at any
point of the run holds at the end exactly `Relay.expected T (final view) qs`.  When a leaf is sent
again with the stored timestamp and another value, the cache replaces the stored notification and
hands the new one to the feed (or withholds it because the values are `value.Equal`, which under
`ExactStream` means they decode alike); `C04Seq`'s invariant — the replay of what the subscriber
was sent agrees, up to `value.Equal`, with the cache on the keys its queries match — holds of every
history, so only the cache half (`collector_cache_holds_final_view_nondecreasing`) needed the
provenance component. -/
theorem pipeline_faithful_stream_nondecreasing (enc : String → String) (cfg : TargetCfg.Cfg)
    (hv : TargetCfg.validate cfg = .ok ()) (hns : "*" ∉ TargetCfg.keys cfg.target) (steps : List Step)
    (hs : ∀ x ∈ senders steps, x ∈ TargetCfg.keys cfg.target)
    (hwf : ∀ name ∈ TargetCfg.keys cfg.target,
      wellFormed false (itemsOf name steps) = true ∧ RawFaithful (itemsOf name steps))
    (T : String) (hT : T ∈ TargetCfg.keys cfg.target) (hex : ExactStream (itemsOf T steps))
    (qs : List Path) (hq : ∀ q ∈ qs, queryOK q = true)
    (pre post : List Step) (id : String) (hsplit : steps = pre ++ .subscribe id T qs :: post)
    (hid : ∀ st ∈ pre ++ post, match st with
      | .subscribe id' _ _ => id' ≠ id
      | _ => True) :
    HoldsExpected (((Sys.start cfg).run enc steps).streamView id) T (finalView (itemsOf T steps)) qs := by
  have hne : ∀ x ∈ TargetCfg.keys cfg.target, x ≠ "" := by
    intro x hx
    obtain ⟨t, hmem⟩ := mem_keys hx
    exact (validate_entries hv (x, t) hmem).name_ne
  have hTne : T ≠ "" := hne T hT
  have hstar : T ≠ glob := fun e => hns (by rw [← show glob = "*" from rfl, ← e]; exact hT)
  -- the run, in three phases
  have hidOK : ∀ st ∈ pre ++ post, idOK id st := by
    intro st hst
    have := hid st hst
    cases st <;> exact this
  have hsplit_items : ∀ name, itemsOf name steps = itemsOf name pre ++ itemsOf name post := by
    intro name
    rw [hsplit, itemsOf_append]
    rfl
  have hwf2 : ∀ name ∈ TargetCfg.keys cfg.target,
      wellFormedFrom false [] (itemsOf name pre) = true ∧
      wellFormedFrom false ((itemsOf name pre).foldl applyItem []) (itemsOf name post) = true := by
    intro name hn
    have := (hwf name hn).1
    unfold wellFormed at this
    rw [hsplit_items, wellFormedFrom_append, Bool.and_eq_true] at this
    exact this
  have hs_pre : ∀ x ∈ senders pre, x ∈ TargetCfg.keys cfg.target := by
    intro x hx
    apply hs
    rw [hsplit, senders_append]
    exact List.mem_append_left _ hx
  have hs_post : ∀ x ∈ senders post, x ∈ TargetCfg.keys cfg.target := by
    intro x hx
    apply hs
    rw [hsplit, senders_append]
    exact List.mem_append_right _ (by simpa [senders] using hx)
  -- phase 1: `pre`
  have hrawU : ∀ name ∈ TargetCfg.keys cfg.target, RawOK (updatesOf (itemsOf name steps)) :=
    fun name hn => rawOK_of_rawFaithful (hwf name hn).2
  have hU_pre : ∀ name ∈ TargetCfg.keys cfg.target, ∀ u ∈ updatesOf (itemsOf name pre),
      u ∈ updatesOf (itemsOf name steps) := by
    intro name _ u hu
    rw [hsplit_items, updatesOf_append]
    exact List.mem_append_left _ hu
  have hU_post : ∀ name ∈ TargetCfg.keys cfg.target, ∀ u ∈ updatesOf (itemsOf name post),
      u ∈ updatesOf (itemsOf name steps) := by
    intro name _ u hu
    rw [hsplit_items, updatesOf_append]
    exact List.mem_append_right _ hu
  have H0 := start_holds2 cfg hv (fun name => updatesOf (itemsOf name steps))
  have I0 := start_inv2 cfg hv hns
  have H1 := Holds2.run enc hne hrawU false pre _ _ H0 hs_pre (fun name hn => (hwf2 name hn).1) hU_pre
  have T1 := run_tr4_nd enc hne hrawU false id (clientReq T .stream qs) pre _ _ H0 I0 hs_pre
    (fun name hn => (hwf2 name hn).1) hU_pre
    (fun st hst => hidOK st (List.mem_append_left _ hst))
  have N1 : NoId id ((Sys.start cfg).run enc pre).sub := T1.2.2.2 (fun x hx => by cases hx)
  generalize hs1 : (Sys.start cfg).run enc pre = s1 at H1 T1 N1
  have I1 := T1.1
  -- phase 2: the subscription
  have H2 := H1.step enc hne hrawU false (.subscribe id T qs) trivial
  simp only at H2
  have I2 := inv2_subscribe enc hne H1.toHolds I1 id T qs
  obtain ⟨t1, g1, _, _, _, _⟩ := H1.each T hT
  have hhas : s1.sub.cache.hasTarget T = true := by
    have hstar' : ¬ T = "*" := hstar
    unfold State.hasTarget
    rw [if_neg hTne, if_neg hstar', g1]; rfl
  have hsub2 : (s1.step enc (.subscribe id T qs)).sub =
      { s1.sub with subs := s1.sub.subs ++ [streamSub s1.sub.cache id (clientReq T .stream qs) .absent] } := by
    simp only [Sys.step]
    rw [if_neg (by rw [H1.alive]; simp)]
    exact subscribe_stream_eq s1.sub id (clientReq T .stream qs) I1.h.pre rfl rfl hTne hhas rfl rfl
  have K2 : KProp id (clientReq T .stream qs) (s1.step enc (.subscribe id T qs)).sub := by
    intro x hx hxid
    rw [hsub2] at hx
    rcases List.mem_append.1 hx with h | h
    · exact absurd hxid (N1 x h)
    · simp only [List.mem_singleton] at h
      subst h
      refine ⟨⟨streamSub_alive _ _ _ _ (completePath_clientReq T .stream qs), ?_, ?_⟩,
        streamSub_req _ _ _ _, streamSub_acl _ _ _ _⟩
      · rw [streamSub_req]; rfl
      · rw [streamSub_req]; rfl
  have Has2 : HasId id (s1.step enc (.subscribe id T qs)).sub := by
    refine ⟨streamSub s1.sub.cache id (clientReq T .stream qs) .absent, ?_, streamSub_id _ _ _ _⟩
    rw [hsub2]
    exact List.mem_append_right _ (List.mem_singleton.2 rfl)
  -- phase 3: `post`
  have hwf_post : ∀ name ∈ TargetCfg.keys cfg.target,
      wellFormedFrom false ((itemsOf name pre).foldl applyItem []) (itemsOf name post) = true :=
    fun name hn => (hwf2 name hn).2
  have T3 := run_tr4_nd enc hne hrawU false id (clientReq T .stream qs) post _ _ H2 I2 hs_post hwf_post hU_post
    (fun st hst => hidOK st (List.mem_append_right _ hst))
  have hrun : (Sys.start cfg).run enc steps = (s1.step enc (.subscribe id T qs)).run enc post := by
    rw [hsplit, sys_run_append, hs1]
    simp [Sys.run]
  have I3 := T3.1
  have K3 := T3.2.1 K2
  obtain ⟨x0, hx0, hid0⟩ := T3.2.2.1 Has2
  rw [← hrun] at I3 K3 hx0
  -- the cache at the end
  obtain ⟨_, hall⟩ := collector_cache_holds_final_view_nondecreasing enc cfg hv steps hs hwf
  obtain ⟨t, gt1, gt2, gt3, gt4, _⟩ := hall T hT
  have hvok := viewOK_final_nd (itemsOf T steps) (hwf T hT).1
  have hvf : ViewFacts ExactV (finalView (itemsOf T steps)) :=
    viewFacts_run_nd (itemsOf T steps) [] ⟨(fun kv h => by cases h), (fun kv h => by cases h)⟩ (hwf T hT).1 hex
  generalize hfin : (Sys.start cfg).run enc steps = sf at I3 K3 hx0 gt1
  -- the subscriber
  have hfind : ∃ x, sf.sub.subs.find? (fun s => s.id = id) = some x := by
    cases hf : sf.sub.subs.find? (fun s => s.id = id) with
    | some x => exact ⟨x, rfl⟩
    | none =>
      rw [List.find?_eq_none] at hf
      have := hf x0 hx0
      simp [hid0] at this
  obtain ⟨x, hfx⟩ := hfind
  have hx : x ∈ sf.sub.subs := List.mem_of_find?_eq_some hfx
  have hxid : x.id = id := by simpa using List.find?_some hfx
  obtain ⟨hL, hreq, hacl⟩ := K3 x hx hxid
  have inv := I3.h.subs x hx hL
  obtain ⟨g, hgout, hgns, hgext, hgsync, hgq⟩ := inv.ghost
  have hout : x.out = g := by
    rw [hgout, hacl]
    apply List.filter_eq_self.2
    intro a _
    simp [denied_absent]
  have hp : ∀ y ∈ g, respP PG Dne y.1 := by
    rw [← hout]; exact (I3.out x hx).out
  obtain ⟨hcs, hsynced⟩ := client_replay g {} [] csim_init hp hgext
  have hclient : Sys.streamView sf id = Client.run false {} (g.map (·.1)) := by
    unfold Sys.streamView clientOf sentTo
    simp only [hfx, hout, inv.status]
    rfl
  rw [hclient]
  have hregs : x.regs = qs.map (fun q => T :: q) := by
    rw [inv.regsEq, hreq, regQueries_clientReq]
  have hreqT : x.req.target = T := by rw [hreq]; rfl
  rw [hregs, hreqT] at hgq
  have hVT : ∀ k, lookup (treesOf sf.sub.cache T) k = lookup t.tree k := by
    intro k; rw [treesOf_some gt1]
  have hvokc := I3.h.cok.vok
  have hjm : ∀ t' k, (qs.map (fun q => T :: q)).any (fun q => qmatches q (t' :: k)) = true →
      Feed.Sim sf.sub.cache.cfg (lookup (replay g) (t' :: k)) (lookup (treesOf sf.sub.cache t') k) :=
    fun t' k h => hgq.jm t' k h
  -- a key the subscriber's view holds is a selected key of `T`
  have hkeysel : ∀ κ, (lookup (replay g) κ).isSome = true →
      ∃ k n, κ = T :: k ∧ lookup t.tree k = some n ∧ (isMetaKey k = false → selected qs k = true) := by
    intro κ hκ
    obtain ⟨t', k, rfl, hvk, hc⟩ := hgq.jv κ hκ
    obtain ⟨q', hq', hcq⟩ := List.any_eq_true.1 hc
    obtain ⟨q, hqq, rfl⟩ := List.mem_map.1 hq'
    rw [Match.compatible_cons_cons] at hcq
    simp only [Bool.and_eq_true, Bool.or_eq_true, beq_iff_eq] at hcq
    have ht' : t' ≠ glob := ne_glob_of_isSome hvokc hvk
    have hTt : T = t' := by
      rcases hcq.1 with (h | h) | h
      · exact absurd h hstar
      · exact absurd h ht'
      · exact h
    subst hTt
    rw [hVT] at hvk
    cases hl : lookup t.tree k with
    | none => rw [hl] at hvk; cases hvk
    | some n =>
      refine ⟨k, n, rfl, hl, ?_⟩
      intro hmk
      have hget : (finalView (itemsOf T steps)).get k = some (n.ts, Relay.headVal n) := by
        rw [← gt3 k]
        unfold absGet
        simp [hmk, hl]
      have hlen := hvf.len _ (View.get_some_mem hget)
      have hng : glob ∉ k := (I3.h.cok.gt T t gt1).noGlob _ (mem_of_lookup_some hl)
      have hql : q.length ≤ k.length := by
        have := hq q hqq
        unfold queryOK at this
        simp only [decide_eq_true_eq] at this
        simp only at hlen
        omega
      exact List.any_eq_true.2 ⟨q, hqq, qmatches_of_compatible_short q k hql hng hcq.2⟩
  have hmatched : ∀ k, selected qs k = true →
      (qs.map (fun q => T :: q)).any (fun q => qmatches q (T :: k)) = true := by
    intro k hsel
    obtain ⟨q, hqq, hqm⟩ := List.any_eq_true.1 hsel
    refine List.any_eq_true.2 ⟨T :: q, List.mem_map.2 ⟨q, hqq, rfl⟩, ?_⟩
    rw [qmatches_reg]
    exact ⟨Or.inr rfl, hqm⟩
  -- the decoded value does not depend on which of two `value.Equal` notifications is held
  have hdec : ∀ k w n, isMetaKey k = false → lookup t.tree k = some n →
      Feed.Sim sf.sub.cache.cfg (some w) (some n) →
      decodeVal (Relay.headVal w) = decodeVal (Relay.headVal n) := by
    intro k w n hmk hl hsim
    rcases hsim with rfl | ⟨_, _, _, hve⟩
    · rfl
    · have hget : (finalView (itemsOf T steps)).get k = some (n.ts, Relay.headVal n) := by
        rw [← gt3 k]
        unfold absGet
        simp [hmk, hl]
      have hexn : ExactV (Relay.headVal n) := hvf.vals _ (View.get_some_mem hget)
      exact hexn _ hve
  refine ⟨hcs.failed, hsynced (Or.inr hgsync), ?_, ?_⟩
  · intro kv hkv
    have hkv' : kv ∈ (Client.run false {} (g.map (·.1))).tree := hkv
    have hsome := cget_some_of_mem hkv'
    rw [hcs.get kv.1] at hsome
    have hl : (lookup (replay g) kv.1).isSome = true := by
      cases hlk : lookup (replay g) kv.1 with
      | none => rw [show (g.foldl (fun v r => applyResp v r.1) []) = replay g from rfl, hlk] at hsome; cases hsome
      | some _ => rfl
    obtain ⟨k, _, e, _, _⟩ := hkeysel kv.1 hl
    exact ⟨k, e⟩
  · intro k cv hmk
    have hcg : cget (Client.run false {} (g.map (·.1))).tree (T :: k) = (lookup (replay g) (T :: k)).bind decLeaf :=
      hcs.get (T :: k)
    rw [hcg]
    unfold expected
    simp only [List.mem_filterMap, List.mem_filter]
    constructor
    · rintro ⟨ts, h⟩
      cases hlk : lookup (replay g) (T :: k) with
      | none => rw [hlk] at h; cases h
      | some w =>
        rw [hlk] at h
        simp only [Option.bind_some] at h
        obtain ⟨hdv, _⟩ := decLeaf_some h
        obtain ⟨k', n, e, hl, hsel⟩ := hkeysel (T :: k) (by rw [hlk]; rfl)
        simp only [List.cons.injEq, true_and] at e
        subst e
        have hsel' := hsel hmk
        have hsim := hjm T k (hmatched k hsel')
        rw [hlk, hVT, hl] at hsim
        have hget : (finalView (itemsOf T steps)).get k = some (n.ts, Relay.headVal n) := by
          rw [← gt3 k]
          unfold absGet
          simp [hmk, hl]
        refine ⟨(k, (n.ts, Relay.headVal n)), ⟨View.get_some_mem hget, hsel'⟩, ?_⟩
        unfold leafOf
        simp only
        rw [← hdec k w n hmk hl hsim, hdv]
    · rintro ⟨⟨k', xv⟩, ⟨hm, hsel⟩, hlf⟩
      unfold leafOf at hlf
      cases hd : decodeVal xv.2 with
      | val c =>
        rw [hd] at hlf
        simp only [Option.some.injEq, Prod.mk.injEq, List.cons.injEq, true_and] at hlf
        obtain ⟨rfl, rfl⟩ := hlf
        simp only at hsel
        have hget := View.get_of_mem hvok hm
        have habs := gt3 k'
        rw [hget] at habs
        unfold absGet at habs
        simp only [hmk, Bool.false_eq_true, if_false, Option.map_eq_some_iff] at habs
        obtain ⟨n, hl, hx⟩ := habs
        have hsim := hjm T k' (hmatched k' hsel)
        rw [hVT, hl] at hsim
        cases hlk : lookup (replay g) (T :: k') with
        | none => rw [hlk] at hsim; exact hsim.elim
        | some w =>
          rw [hlk] at hsim
          have hdw := hdec k' w n hmk hl hsim
          have hdn : decodeVal (Relay.headVal n) = .val c := by
            rw [← hx] at hd; exact hd
          refine ⟨w.ts, ?_⟩
          simp only [Option.bind_some, decLeaf, hdw, hdn]
      | skip => rw [hd] at hlf; cases hlf
      | err => rw [hd] at hlf; cases hlf

/-! ## Both clauses, in the shape of `pipeline_faithful` -/

/-- **`pipeline_faithful` under its own stream hypotheses** (`wellFormed false ∧ RawFaithful`), with
the two extra hypotheses without which its STREAM clause is false of model and code (`"*"` not a
configured target name: `C04Seq.star_target_breaks_convergence`; `ExactStream`:
`pipeline_faithful_refuted`): the ONCE client and every STREAM client that subscribed at any point
of the run hold exactly `Relay.expected T (final view) qs`. -/
theorem pipeline_faithful_nondecreasing (enc : String → String) (cfg : TargetCfg.Cfg)
    (hv : TargetCfg.validate cfg = .ok ()) (hns : "*" ∉ TargetCfg.keys cfg.target) (steps : List Step)
    (hs : ∀ x ∈ senders steps, x ∈ TargetCfg.keys cfg.target)
    (hwf : ∀ name ∈ TargetCfg.keys cfg.target,
      wellFormed false (itemsOf name steps) = true ∧ RawFaithful (itemsOf name steps))
    (T : String) (hT : T ∈ TargetCfg.keys cfg.target) (hex : ExactStream (itemsOf T steps))
    (qs : List Path) (hq : ∀ q ∈ qs, queryOK q = true) :
    HoldsExpected (((Sys.start cfg).run enc steps).once T qs) T (finalView (itemsOf T steps)) qs ∧
    ∀ (pre post : List Step) (id : String), steps = pre ++ .subscribe id T qs :: post →
      (∀ st ∈ pre ++ post, match st with
        | .subscribe id' _ _ => id' ≠ id
        | _ => True) →
      HoldsExpected (((Sys.start cfg).run enc steps).streamView id) T (finalView (itemsOf T steps)) qs :=
  ⟨pipeline_faithful_once_nondecreasing enc cfg hv steps hs hwf T hT (fun e => hns (e ▸ hT)) qs,
   fun pre post id hsplit hid =>
    pipeline_faithful_stream_nondecreasing enc cfg hv hns steps hs hwf T hT hex qs hq pre post id hsplit hid⟩

/-- the first conjunct of `pipeline_faithful`, literally (every hypothesis of the definition, none added) -/
def pipeline_faithful_once_clause : Prop :=
  ∀ (enc : String → String) (cfg : TargetCfg.Cfg), TargetCfg.validate cfg = .ok () →
  ∀ (steps : List Step), (∀ x ∈ senders steps, x ∈ TargetCfg.keys cfg.target) →
    (∀ name ∈ TargetCfg.keys cfg.target,
      wellFormed false (itemsOf name steps) = true ∧ RawFaithful (itemsOf name steps)) →
  ∀ (T : String), T ∈ TargetCfg.keys cfg.target → T ≠ "*" →
  ∀ (qs : List Path), qs ≠ [] → (∀ q ∈ qs, queryOK q = true) →
    HoldsExpected (((Sys.start cfg).run enc steps).once T qs) T (finalView (itemsOf T steps)) qs

/-- **The ONCE clause of `pipeline_faithful` holds as stated.** -/
theorem pipeline_faithful_once_clause_holds : pipeline_faithful_once_clause :=
  fun enc cfg hv steps hs hwf T hT hstar qs _ _ =>
    pipeline_faithful_once_nondecreasing enc cfg hv steps hs hwf T hT hstar qs

/-! ## Non-vacuity: a leaf receives the same timestamp with other values -/

/-- dev1's leaf `a/b` is sent with timestamp 10 and value 1, then with the *same* timestamp and value
2 (another raw rendering: replaced), then the very same notification again (`proto.Equal`: rejected
as a duplicate), then timestamp 10 and value 5 once more after a STREAM client joined; a
multi-update notification sets `a/d` twice at one timestamp; dev2 interleaved -/
def stepsSame : List Step :=
  [ .recv "dev1" true 0 (upd 10 ["a", "b"] 1),
    .recv "dev2" true 0 (upd 10 ["a", "b"] 100),
    .recv "dev1" false 0 (upd 10 ["a", "b"] 2),
    .subscribe "s1" "dev1" [[]],
    .recv "dev1" false 0 (upd 10 ["a", "b"] 2),
    .recv "dev1" false 0 (upd 10 ["a", "b"] 5),
    .recv "dev2" false 0 (upd 10 ["a", "b"] 101),
    .recv "dev1" false 0 (.update true { ts := 11, praw := "nil", upd :=
      [{ path := ["a", "d"], val := .scalar (.int 8), raw := "8" },
       { path := ["a", "d"], val := .scalar (.int 9), raw := "9" }] }),
    .recv "dev1" false 0 .sync ]

theorem stepsSame_senders : ∀ x ∈ senders stepsSame, x ∈ TargetCfg.keys cfg2.target := by decide

theorem stepsSame_hyps : ∀ name ∈ TargetCfg.keys cfg2.target,
    wellFormed false (itemsOf name stepsSame) = true ∧ RawFaithful (itemsOf name stepsSame) := by
  intro name hn
  have : name = "dev1" ∨ name = "dev2" := by simpa [TargetCfg.keys, cfg2] using hn
  rcases this with rfl | rfl
  · refine ⟨by decide, ?_⟩
    unfold RawFaithful
    decide
  · refine ⟨by decide, ?_⟩
    unfold RawFaithful
    decide

/-- the run is outside the hypotheses of the older theorems -/
example : wellFormed true (itemsOf "dev1" stepsSame) = false := by decide

example : (finalView (itemsOf "dev1" stepsSame)).get ["openconfig", "a", "b"] = some (10, .scalar (.int 5)) := by
  decide
example : (finalView (itemsOf "dev1" stepsSame)).get ["openconfig", "a", "d"] = some (11, .scalar (.int 9)) := by
  decide

/-- the theorem applies to this run … -/
example : HoldsExpected (((Sys.start cfg2).run id stepsSame).once "dev1" [[]]) "dev1"
    (finalView (itemsOf "dev1" stepsSame)) [[]] :=
  pipeline_faithful_once_nondecreasing id cfg2 cfg2_valid stepsSame stepsSame_senders stepsSame_hyps "dev1"
    (by decide) (by decide) [[]]

/-- … and its conclusion, computed: the ONCE client of dev1 holds the last value sent with the
repeated timestamp -/
example : cget (((Sys.start cfg2).run id stepsSame).once "dev1" [[]]).tree ["dev1", "openconfig", "a", "b"] =
    some { ts := 10, val := .scalar (.int 5) } := by
  have h := (pipeline_faithful_once_nondecreasing_leaves id cfg2 cfg2_valid stepsSame stepsSame_senders
    stepsSame_hyps "dev1" (by decide) (by decide) [[]]).2.2.2.2 ["openconfig", "a", "b"] (by decide)
  rw [h]; decide

example : (cget (((Sys.start cfg2).run id stepsSame).once "dev1" [[]]).tree ["dev1", "openconfig", "a", "b"],
           cget (((Sys.start cfg2).run id stepsSame).once "dev1" [[]]).tree ["dev1", "openconfig", "a", "d"],
           cget (((Sys.start cfg2).run id stepsSame).once "dev2" [[]]).tree ["dev2", "openconfig", "a", "b"]) =
    (some { ts := 10, val := .scalar (.int 5) }, some { ts := 11, val := .scalar (.int 9) },
     some { ts := 10, val := .scalar (.int 101) }) := by decide

/-! ### … and the STREAM client that joined between the two same-timestamp rewrites -/

example : "*" ∉ TargetCfg.keys cfg2.target := by decide

theorem stepsSame_exact : ExactStream (itemsOf "dev1" stepsSame) := by
  intro u hu
  apply exactV_of_noFloat
  revert u
  decide

theorem stepsSame_split : stepsSame = stepsSame.take 3 ++ .subscribe "s1" "dev1" [[]] :: stepsSame.drop 4 := rfl

theorem stepsSame_ids : ∀ st ∈ stepsSame.take 3 ++ stepsSame.drop 4, match st with
    | .subscribe id' _ _ => id' ≠ "s1"
    | _ => True := by
  intro st hst
  simp only [stepsSame, List.take, List.drop, List.cons_append, List.nil_append, List.mem_cons,
    List.not_mem_nil, or_false] at hst
  rcases hst with rfl | rfl | rfl | rfl | rfl | rfl | rfl | rfl <;> trivial

/-- the STREAM theorem applies to this run … -/
example : HoldsExpected (((Sys.start cfg2).run id stepsSame).streamView "s1") "dev1"
    (finalView (itemsOf "dev1" stepsSame)) [[]] :=
  pipeline_faithful_stream_nondecreasing id cfg2 cfg2_valid (by decide) stepsSame stepsSame_senders stepsSame_hyps
    "dev1" (by decide) stepsSame_exact [[]] (by decide) _ _ "s1" stepsSame_split stepsSame_ids

/-- … and the whole statement -/
example := pipeline_faithful_nondecreasing id cfg2 cfg2_valid (by decide) stepsSame stepsSame_senders stepsSame_hyps
    "dev1" (by decide) stepsSame_exact [[]] (by decide)

/-- … computed: the STREAM client saw value 2 in its snapshot, was not sent the `proto.Equal`
re-send, and was sent the rewrite to 5 carrying the same timestamp -/
example : (cget (((Sys.start cfg2).run id stepsSame).streamView "s1").tree ["dev1", "openconfig", "a", "b"],
           cget (((Sys.start cfg2).run id stepsSame).streamView "s1").tree ["dev1", "openconfig", "a", "d"]) =
    (some { ts := 10, val := .scalar (.int 5) }, some { ts := 11, val := .scalar (.int 9) }) := by decide

/-! ## Why `RawFaithful`: the hypothesis is used

`wellFormed false` alone does not suffice.  If two updates of one stream carried *different* values
under the *same* raw rendering (which the convention "raw renderings stand for `proto.Equal`"
excludes — two `proto.Equal` updates have equal values), the second one, sent with the stored
timestamp, is `Noti.same` to the stored notification and rejected as a duplicate: the cache keeps
the first value although the stream's final view shows the second. -/

def updRaw (ts : Int) (p : Path) (i : Int) (raw : String) : TItem :=
  .update true { ts := ts, praw := "nil", upd := [{ path := p, val := .scalar (.int i), raw := raw }] }

def stepsUnfaithful : List Step :=
  [ .recv "dev1" true 0 (updRaw 10 ["a", "b"] 1 "r"),
    .recv "dev1" false 0 (updRaw 10 ["a", "b"] 2 "r") ]

theorem unfaithful_witness :
    (∀ x ∈ senders stepsUnfaithful, x ∈ TargetCfg.keys cfg2.target) ∧
    (∀ name ∈ TargetCfg.keys cfg2.target, wellFormed false (itemsOf name stepsUnfaithful) = true) ∧
    (finalView (itemsOf "dev1" stepsUnfaithful)).get ["openconfig", "a", "b"] = some (10, .scalar (.int 2)) ∧
    (["dev1", "openconfig", "a", "b"], CVal.scalar (.int 2)) ∈
      expected "dev1" (finalView (itemsOf "dev1" stepsUnfaithful)) [[]] ∧
    cget (((Sys.start cfg2).run id stepsUnfaithful).once "dev1" [[]]).tree ["dev1", "openconfig", "a", "b"] =
      some { ts := 10, val := .scalar (.int 1) } := by decide

/-- without `RawFaithful` the conclusion of `pipeline_faithful_once_nondecreasing` fails on a run that
meets its other hypotheses -/
theorem once_fails_without_rawFaithful :
    ¬ HoldsExpected (((Sys.start cfg2).run id stepsUnfaithful).once "dev1" [[]]) "dev1"
      (finalView (itemsOf "dev1" stepsUnfaithful)) [[]] := by
  intro h
  obtain ⟨_, _, _, h4⟩ := h
  obtain ⟨ts, hts⟩ := (h4 ["openconfig", "a", "b"] (.scalar (.int 2)) (by decide)).2 unfaithful_witness.2.2.2.1
  rw [unfaithful_witness.2.2.2.2] at hts
  simp only [Option.some.injEq, CLeaf.mk.injEq, CVal.scalar.injEq, CScalar.int.injEq] at hts
  exact absurd hts.2 (by decide)

example : ¬ RawFaithful (itemsOf "dev1" stepsUnfaithful) := by
  unfold RawFaithful
  decide

end C01
end Gnmi
