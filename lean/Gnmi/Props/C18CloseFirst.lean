import Gnmi.Props.C18
/-!
# C18 — `ReconnectClient.Close` called BEFORE `Subscribe` (client/reconnect.go)

What the code does (the client LTS of `Model/ClientLTS.lean` has always contained these
interleavings — goroutine K may run at any time — but `Props/C18.lean` states its "after Close"
clauses only for a `Close` that found a running `Subscribe`, `KPc.sd = true`):

* `Close` (critical section, rule `closeCs`): `p.cancel == nil`, so nothing is cancelled;
  `p.closed = true`; it reads `p.subscribeDone == nil` (`KPc.inner false`).  Then
  `p.Client.Close()` (`closeInner`: `ErrClientInit` unless an Impl is installed by then), and
  because the channel it read is nil it does **not** wait (`closeWait` is enabled at once).
* a later `Subscribe`: `initDone` sees `p.closed` and cancels the fresh context itself
  (`subInit`); the loop calls the inner `Subscribe` **once**, with a cancelled context, calls the
  disconnect callback once, sees `ctx.Done()` and returns `ctx.Err()`; no sleep, no reset, no
  second attempt.

`EarlyClose c`: `Close` is past its critical section and read a nil `subscribeDone`.

Theorems: both calls return (`early_close_never_waits`, `early_close_both_return`,
`early_close_subscribe_canceled`), a single attempt and no retry (`early_close_single_attempt`,
`early_close_loop_trace`), and the "after Close" clause as the model has it:
no handler call at all if the transport honours the (already cancelled) context when connecting
(`early_close_silent_if_connect_fails`, `close_then_subscribe_prompt`) — which is what the gNMI
transport's dial and the harness transport do —, while a transport that connects and hands out
buffered messages regardless of the context delivers its whole first stream
(`early_close_two_messages`: the bound "at most one message after Close" does NOT hold for an
early Close in general; `BaseClient.Subscribe` re-arms `closed = false` when it installs the Impl).
-/
set_option linter.unusedSimpArgs false
set_option linter.unusedVariables false
namespace Gnmi
namespace C18CloseFirst
open ClientLTS

variable {N : Type}

/-- `Close` went through its critical section before `initDone`: it read `subscribeDone == nil` -/
def EarlyClose (c : Cfg N) : Prop := c.kpc.isIdle = false ∧ c.kpc.sd = false

/-- `Close`'s critical section executed before `Subscribe` was called reads a nil
`subscribeDone`, cancels nothing, and marks the client closed -/
theorem closeCs_before_subscribe {s : Script N} {c : Cfg N} (h : Reach true s c)
    (hs : c.spc.isIdle = true) (hk : c.kpc = .idle) :
    Step true s c .closeCs c.doCloseCs ∧ EarlyClose c.doCloseCs ∧ c.doCloseCs.cancelled = false ∧
    c.doCloseCs.cancelCalls = 0 ∧ c.doCloseCs.rcClosed = true := by
  obtain ⟨h1, h2, h3, h4, h5, h6, h7, h8⟩ := invA_reach h
  have hp : c.spc = .idle := by
    cases hp : c.spc <;> simp [hp] at hs
    rfl
  have hcs : c.cancelSet = false := by rw [h1, hp]; rfl
  have hcd : c.cancelled = false := by rw [h4, hcs]; simp
  refine ⟨.closeCs rfl hk, ?_, ?_, ?_, rfl⟩
  · simp [EarlyClose, Cfg.doCloseCs, h2, hcs]
  · simp [Cfg.doCloseCs, hcd, hcs]
  · simp [Cfg.doCloseCs, h5, hcd, hcs]

theorem bcClose_frame (c : Cfg N) (k : Bool → KPc) :
    (c.doBcClose k).spc = c.spc ∧ (c.doBcClose k).trace = c.trace ∧ ∃ e, (c.doBcClose k).kpc = k e := by
  unfold Cfg.doBcClose
  split
  · exact ⟨rfl, rfl, true, rfl⟩
  · exact ⟨rfl, rfl, false, rfl⟩

/-- **early_close_never_waits.**  An early `Close` is never blocked: whatever goroutine S does
(or does not do), two transitions of K bring it to its return. -/
theorem early_close_never_waits {s : Script N} {c : Cfg N} (he : EarlyClose c)
    (hr : c.kpc.isReturned = false) :
    ∃ ls c', Run true s c ls c' ∧ ls.length ≤ 2 ∧ (∀ l ∈ ls, l.isK = true) ∧
      c'.kpc.isReturned = true ∧ c'.spc = c.spc ∧ c'.trace = c.trace := by
  obtain ⟨h1, h2⟩ := he
  cases hk : c.kpc with
  | idle => simp [hk] at h1
  | returned sd e => simp [hk] at hr
  | waiting sd e =>
      simp [hk] at h2; subst h2
      exact ⟨[.closeWait], _, .cons (.closeWait hk (by simp)) .nil, by simp, by simp [Label.isK], rfl, rfl, rfl⟩
  | inner sd =>
      simp [hk] at h2; subst h2
      have hs1 : Step true s c .closeInner (c.doBcClose (KPc.waiting false)) := .closeInner hk
      obtain ⟨f1, f2, e, f3⟩ := bcClose_frame c (KPc.waiting false)
      refine ⟨[.closeInner, .closeWait], _, .cons hs1 (.cons (.closeWait (sd := false) (e := e) f3 (by simp)) .nil),
        by simp, by simp [Label.isK], rfl, ?_, ?_⟩
      · exact f1
      · exact f2

/-! ## A single attempt, no retry -/

structure InvE (c : Cfg N) : Prop where
  idle : c.spc.isIdle = true → c.att = 0
  early : EarlyClose c → c.att = 0 ∧ c.spc ≠ .sleeping ∧ c.spc ≠ .resetCb

theorem invE_step {s : Script N} {c c' : Cfg N} {l : Label}
    (hA : InvA true c) (hi : InvE c) (hs : Step true s c l c') : InvE c' := by
  obtain ⟨a1, a2, a3, a4, a5, a6, a7, a8⟩ := hA
  obtain ⟨e1, e2⟩ := hi
  unfold EarlyClose at *
  lts_cases hs =>
    constructor <;>
    simp_all [EarlyClose, Cfg.ctxDone, Cfg.doSubInit, Cfg.doPlainStart, Cfg.doConnFail, Cfg.doConnOk, Cfg.doInstall,
      Cfg.doRecvMsg, Cfg.doRecvWait, Cfg.doHandle, Cfg.doRunErr, Cfg.doEof,
      Cfg.doPlainRet, Cfg.doDisc, Cfg.doReset, Cfg.doFinish, Cfg.doCloseCs] <;>
    (cases hp : c.spc <;> simp_all)

theorem invE_reach {s : Script N} {c : Cfg N} (h : Reach true s c) : InvE c := by
  induction h with
  | init => constructor <;> simp [init, EarlyClose]
  | step hr hs ih => exact invE_step (invA_reach hr) ih hs

/-- **early_close_single_attempt.**  After an early `Close` the reconnect loop makes one attempt
only: the attempt counter stays 0, no backoff sleep is ever in progress, the reset callback is
never about to run; and as soon as `Subscribe` has been called its context is cancelled. -/
theorem early_close_single_attempt {s : Script N} {c : Cfg N} (h : Reach true s c)
    (he : EarlyClose c) :
    c.att = 0 ∧ c.spc ≠ .sleeping ∧ c.spc ≠ .resetCb ∧ (c.spc.isIdle = false → c.ctxDone = true) := by
  obtain ⟨h1, h2, h3⟩ := (invE_reach h).early he
  refine ⟨h1, h2, h3, fun hs => ?_⟩
  exact cancelled_of_started (invA_reach h) rfl he.1 hs

/-- … so the loop-level trace is a prefix of `start 0 · ended 0 · disc 0`: one inner `Subscribe`,
one disconnect callback, never a reset callback. -/
theorem early_close_loop_trace {s : Script N} {c : Cfg N} (h : Reach true s c) (he : EarlyClose c) :
    cbs c.trace = roundTail 0 c.spc ∧ cbs c.trace <+: [.start 0, .ended 0, .disc 0] := by
  have hd := (C18.keeps_retrying h).1
  rw [(early_close_single_attempt h he).1] at hd
  have hd' : cbs c.trace = roundTail 0 c.spc := by simpa [rounds] using hd
  refine ⟨hd', ?_⟩
  rw [hd']
  cases c.spc <;> simp [roundTail] <;> exact ⟨_, rfl⟩

/-! ## Both calls return -/

/-- a reconnecting `Subscribe` that returns returns `ctx.Err()` -/
theorem reconnect_returns_canceled {s : Script N} {c : Cfg N} (h : Reach true s c) {r : SubRet}
    (hr : c.spc = .returned r) : r = .canceled := by
  induction h generalizing r with
  | init => simp [init] at hr
  | step _ hs ih =>
      revert hr
      lts_cases hs =>
        intro hr
        simp_all [Cfg.doSubInit, Cfg.doPlainStart, Cfg.doConnFail, Cfg.doConnOk, Cfg.doInstall,
          Cfg.doRecvMsg, Cfg.doRecvWait, Cfg.doHandle, Cfg.doRunErr, Cfg.doEof,
          Cfg.doPlainRet, Cfg.doDisc, Cfg.doReset, Cfg.doFinish, Cfg.doCloseCs]

theorem run_reach' {wrap : Bool} {s : Script N} {c c' : Cfg N} {ls : List Label}
    (h : Reach wrap s c) (hr : Run wrap s c ls c') : Reach wrap s c' := by
  induction hr with
  | nil => exact h
  | cons hs _ ih => exact ih (.step h hs)

/-- **early_close_both_return.**  From every configuration after an early `Close` — `Subscribe`
not yet called, being called, or running — there is a run of at most `variant` transitions,
without any backoff sleep, after which `Close` and `Subscribe` have both returned, `Subscribe`
with `ctx.Err()`; every run that cannot be extended ends that way; and no run is longer than
`variant`. -/
theorem early_close_both_return {s : Script N} {c : Cfg N} (h : Reach true s c) (he : EarlyClose c) :
    (∃ ls c', Run true s c ls c' ∧ ls.length ≤ variant s c ∧ Label.sleepStart ∉ ls ∧
      c'.spc = .returned .canceled ∧ c'.kpc.isReturned = true) ∧
    (∀ ls c', Run true s c ls c' → (∀ l c'', ¬ Step true s c' l c'') →
      c'.spc = .returned .canceled ∧ c'.kpc.isReturned = true) ∧
    (∀ ls c', Run true s c ls c' → ls.length ≤ variant s c ∧ Label.sleepStart ∉ ls) := by
  have hd := C18.close_dooms h he.1
  have hreach : ∀ {ls c'}, Run true s c ls c' → Reach true s c' := fun hr => run_reach' h hr
  have hcan : ∀ {c' : Cfg N}, Reach true s c' → c'.spc.isReturned = true → c'.spc = .returned .canceled := by
    intro c' hr' hret
    cases hp : c'.spc with
    | returned r => rw [reconnect_returns_canceled hr' hp]
    | _ => simp [hp] at hret
  refine ⟨?_, ?_, ?_⟩
  · obtain ⟨ls, c', hr, h1, h2, h3, h4⟩ := C18.both_return h hd
    exact ⟨ls, c', hr, h1, h2, hcan (hreach hr) h3, h4⟩
  · intro ls c' hr hmax
    obtain ⟨h3, h4⟩ := C18.maximal_run_returns h hd hr hmax
    exact ⟨hcan (hreach hr) h3, h4⟩
  · intro ls c' hr
    obtain ⟨h1, h2, _⟩ := C18.close_terminates hd hr
    exact ⟨by omega, h2⟩

/-- **early_close_subscribe_canceled** (the prompt run).  `Subscribe` called on a client that was
closed before (`p.closed`): `initDone` cancels the context; if the transport honours it when
connecting, `Subscribe` returns `ctx.Err()` after exactly one failed attempt and one disconnect
callback, without a single handler call, sleep or reset. -/
theorem close_then_subscribe_prompt {s : Script N} {c : Cfg N} (hs : c.spc = .idle)
    (hc : c.rcClosed = true) :
    ∃ c', Run true s c [.subInit, .connAbort, .disc, .ctxExit, .finish] c' ∧
      c'.spc = .returned .canceled ∧ c'.att = c.att ∧ c'.kpc = c.kpc ∧
      c'.trace = c.trace ++ [.start c.att, .ended c.att, .disc c.att] := by
  refine ⟨_, .cons (.subInit rfl hs) (.cons (.connAbort rfl ?_) (.cons (.disc (e := true) rfl rfl)
    (.cons (.ctxExit (e := true) rfl ?_) (.cons (.finish rfl) .nil)))), ?_, ?_, ?_, ?_⟩
  · simp [Cfg.doSubInit, Cfg.ctxDone, hc]
  · simp [Cfg.doSubInit, Cfg.doConnFail, Cfg.doDisc, Cfg.ctxDone, hc]
  · simp [Cfg.doFinish]
  · simp [Cfg.doFinish, Cfg.doDisc, Cfg.doConnFail, Cfg.doSubInit]
  · simp [Cfg.doFinish, Cfg.doDisc, Cfg.doConnFail, Cfg.doSubInit]
  · simp [Cfg.doFinish, Cfg.doDisc, Cfg.doConnFail, Cfg.doSubInit]

/-! ## "At most one message after Close" for an early Close -/

/-- S is outside any stream (no Impl of the current attempt exists) -/
@[simp] def SPc.noStream : SPc N → Bool
  | .idle | .connect | .innerRet _ | .ctxCheck _ | .sleeping | .resetCb | .finishing | .returned _ => true
  | _ => false

/-- handler calls recorded in a trace -/
def handlerCalls (t : List (Ev N)) : List (Ev N) := t.filter Ev.isHandler

theorem noStream_step {wrap : Bool} {s : Script N} {c c' : Cfg N} {l : Label}
    (hn : SPc.noStream c.spc = true) (hs : Step wrap s c l c') (hl : l ≠ .connOk) :
    SPc.noStream c'.spc = true ∧ handlerCalls c'.trace = handlerCalls c.trace := by
  revert hl
  lts_cases hs =>
    intro hl
    simp_all [handlerCalls, Ev.isHandler, Cfg.doSubInit, Cfg.doPlainStart, Cfg.doConnFail, Cfg.doConnOk, Cfg.doInstall,
      Cfg.doRecvMsg, Cfg.doRecvWait, Cfg.doHandle, Cfg.doRunErr, Cfg.doEof,
      Cfg.doPlainRet, Cfg.doDisc, Cfg.doReset, Cfg.doFinish, Cfg.doCloseCs]

/-- **early_close_silent_if_connect_fails.**  If, after an early `Close`, the transport does not
complete a connect with the already cancelled context (no `connOk` in the run: what a
ctx-honouring dial does, rule `connAbort`), then the handler is never called: not a single
message after Close. -/
theorem early_close_silent_if_connect_fails {wrap : Bool} {s : Script N} {c c' : Cfg N} {ls : List Label}
    (hn : SPc.noStream c.spc = true) (hr : Run wrap s c ls c') (hl : Label.connOk ∉ ls) :
    handlerCalls c'.trace = handlerCalls c.trace ∧ SPc.noStream c'.spc = true := by
  induction hr with
  | nil => exact ⟨rfl, hn⟩
  | cons hs _ ih =>
      simp at hl
      obtain ⟨h1, h2⟩ := noStream_step hn hs (fun h => hl.1 h.symm)
      obtain ⟨h3, h4⟩ := ih h1 hl.2
      exact ⟨h3.trans h2, h4⟩

/-- a transport whose first attempt connects whatever the context says and holds two messages -/
def twoMsgScript : Script Nat := fun _ =>
  { conn := .ok, items := [.msg { notis := [7], ret := .ok }, .msg { notis := [8], ret := .ok }], term := .err }

/-- **early_close_two_messages** (the bound fails for an early Close).  `Close` runs to its
return (`ErrClientInit`) before `Subscribe` is called; the transport connects although the context
is cancelled and hands out what it has buffered: the handler receives BOTH messages, after `Close`
has returned.  (`BaseClient.Close` found no Impl, so `closed` stays false and `run` keeps
receiving; only the transport's own reaction to the cancelled context ends the stream.) -/
theorem early_close_two_messages :
    ∃ c : Cfg Nat, Reach true twoMsgScript c ∧ c.kpc = .returned false true ∧
      handlerCalls c.trace = [.connected 0, .noti 0 0 7, .noti 0 1 8] ∧ c.postClose = none := by
  let c1 : Cfg Nat := (init : Cfg Nat).doCloseCs
  have r1 : Reach true twoMsgScript c1 := .step .init (.closeCs rfl rfl)
  let c2 : Cfg Nat := { c1 with kpc := .waiting false true }
  have r2 : Reach true twoMsgScript c2 := .step r1 (.closeInner (sd := false) rfl)
  let c3 : Cfg Nat := { c2 with kpc := .returned false true }
  have r3 : Reach true twoMsgScript c3 := .step r2 (.closeWait (sd := false) (e := true) rfl (by simp))
  have r4 := Reach.step r3 (.subInit rfl rfl)
  have r5 := Reach.step r4 (.connOk rfl rfl)
  have r6 := Reach.step r5 (.install rfl)
  have r7 := Reach.step r6 (.recvMsg (m := { notis := [7], ret := .ok })
    (rest := [.msg { notis := [8], ret := .ok }]) rfl rfl)
  have r8 := Reach.step r7 (.handle (e := .connected 0) (rest := [.noti 0 0 7]) (r := .ok) rfl)
  have r9 := Reach.step r8 (.handle (e := .noti 0 0 7) (rest := []) (r := .ok) rfl)
  have r10 := Reach.step r9 (.handled (r := .ok) rfl)
  have r11 := Reach.step r10 (.check rfl)
  have r12 := Reach.step r11 (.recvMsg (m := { notis := [8], ret := .ok }) (rest := []) rfl rfl)
  have r13 := Reach.step r12 (.handle (e := .noti 0 1 8) (rest := []) (r := .ok) rfl)
  exact ⟨_, r13, rfl, rfl, rfl⟩

/-! ## Non-vacuity -/

/-- the driver scenario `rc new rc s u1d1.s.F pre`: Close before Subscribe -/
def demoPre : Scenario :=
  { wrap := true, poll := false, cancel := false, script := [.stream [.update 1 1, .sync] (some .eof)],
    inj := .pre }

example : (runScenario demoPre).valid = true := by decide
example : (runScenario demoPre).final.kpc = .returned false true := by decide
example : (runScenario demoPre).final.spc = .returned .canceled := rfl
example : EarlyClose (runScenario demoPre).final := by constructor <;> decide
example : Reach true (scriptOf demoPre) (runScenario demoPre).final := C18.driver_runs_are_reachable demoPre
example : (runScenario demoPre).final.att = 0 := by decide

end C18CloseFirst
end Gnmi
