import Gnmi.Lemmas.SubscribeBasic
import Gnmi.Lemmas.SubscribeDemo
/-!
# C08 — A stalled subscriber cannot stall the collector or other subscribers

Theorems about the Subscribe LTS (`Model/SubscribeLTS.lean`).  A *writer step* is a shared
step `Label.sh l` (tree write `W1`, notification `W2`, `Cache.Add`).  "Blocked in `send`" is the
sender state `Snd.sending r` — or `Snd.sendSync`, the `Send` of the sync marker — with the gate closed
(`blocked = true`): `SLabel.sent` is disabled.
-/
namespace Gnmi
namespace C08
open SubLTS
set_option linter.unusedSectionVars false

variable {K V T R : Type} [DecidableEq K] [DecidableEq R] [DecidableEq T]

/-- replace the sender-local state of a subscriber (program counter of `sendStreamingResults`,
timer, flow-control gate) -/
def withSender (b : Sub K V R) (sd : Snd K V R) (armed blocked : Bool) : Sub K V R :=
  { b with snd := sd, armed := armed, blocked := blocked }

theorem ins_withSender (b : Sub K V R) (i : Item K R) (sd : Snd K V R) (a bl : Bool) :
    (withSender b sd a bl).ins i = withSender (b.ins i) sd a bl := by
  by_cases h : b.closed = true <;> simp [Sub.ins, withSender, h]

theorem onShared_withSender (sys : Sys K T R) (rq : Req K T R) (b : Sub K V R)
    (l : ShLabel K V T R) (sd : Snd K V R) (a bl : Bool) :
    (withSender b sd a bl).onShared sys rq l = withSender (b.onShared sys rq l) sd a bl := by
  cases l with
  | w2 u =>
    rw [onShared_w2, onShared_w2]
    show (if b.registered && u.offered rq then _ else _) = _
    split
    · exact ins_withSender b _ sd a bl
    · rfl
  | _ => rfl

/-- **writer_independent_of_senders.**  No writer step has a guard on any sender, timer or
gate: if a writer step is possible, it is possible after replacing subscriber `s`'s sender
state by anything (in particular "blocked in `send` forever"), with the same effect on the
cache, the same effect on every other subscriber, and the same effect on `s`'s queue,
registration and walker (the substituted sender state is simply carried along).
Queues are unbounded: `Sub.ins` has no capacity guard. -/
theorem writer_independent_of_senders (sys : Sys K T R) (c c' : Cfg K V T R) (l : ShLabel K V T R)
    (s : Nat) (sd : Snd K V R) (a bl : Bool) (h : Step sys c (.sh l) c') :
    Step sys ⟨c.sh, setFn c.subs s (withSender (c.subs s) sd a bl)⟩ (.sh l)
      ⟨c'.sh, setFn c'.subs s (withSender (c'.subs s) sd a bl)⟩ := by
  cases h with
  | shared _ sh' h1 =>
    have := Step.shared (sys := sys) ⟨c.sh, setFn c.subs s (withSender (c.subs s) sd a bl)⟩ l sh' h1
    refine cast ?_ this
    congr 2
    funext s'
    by_cases e : s' = s
    · subst e; simp only [setFn_same]; exact onShared_withSender ..
    · simp only [setFn_other _ _ e]

/-- the enabledness of a writer step only depends on the shared state -/
theorem writer_enabled_iff (sys : Sys K T R) (c d : Cfg K V T R) (l : ShLabel K V T R)
    (h : c.sh = d.sh) : (∃ c', Step sys c (.sh l) c') ↔ (∃ d', Step sys d (.sh l) d') := by
  constructor
  · rintro ⟨_, hs⟩
    cases hs with
    | shared _ sh' h1 => exact ⟨_, Step.shared d l sh' (h ▸ h1)⟩
  · rintro ⟨_, hs⟩
    cases hs with
    | shared _ sh' h1 => exact ⟨_, Step.shared c l sh' (h ▸ h1)⟩

/-- the configurations agree on the cache, the writers and every subscriber except `s` -/
def Agree (s : Nat) (c d : Cfg K V T R) : Prop := c.sh = d.sh ∧ ∀ s', s' ≠ s → c.subs s' = d.subs s'

theorem Agree.symm {s : Nat} {c d : Cfg K V T R} (h : Agree s c d) : Agree s d c :=
  ⟨h.1.symm, fun s' e => (h.2 s' e).symm⟩

/-- **others_progress**, step form: whatever subscriber `s` is doing (e.g. blocked in `send`
forever), every step of a writer or of another subscriber that is possible without `s` is
possible with it, and vice versa, with the same effect on everything except `s`. -/
theorem others_progress {sys : Sys K T R} {s : Nat} {c d c' : Cfg K V T R} {l : Label K V T R}
    (ha : Agree s c d) (hl : ∀ l', l ≠ .sub s l') (hs : Step sys c l c') :
    ∃ d', Step sys d l d' ∧ Agree s c' d' := by
  cases hs with
  | shared l sh' h1 =>
    refine ⟨_, Step.shared d l sh' (ha.1 ▸ h1), rfl, ?_⟩
    intro s' e
    show (c.subs s').onShared sys _ l = (d.subs s').onShared sys _ l
    rw [ha.2 s' e]
  | sub s1 l1 b' h1 =>
    have hne : s1 ≠ s := by
      intro e; subst e; exact hl l1 rfl
    refine ⟨_, Step.sub d s1 l1 b' ?_, ha.1, ?_⟩
    · rw [← ha.1, ← ha.2 s1 hne]; exact h1
    · intro s' e
      show setFn c.subs s1 b' s' = setFn d.subs s1 b' s'
      by_cases e1 : s' = s1
      · subst e1; simp [setFn_same]
      · simp only [setFn_other _ _ e1]; exact ha.2 s' e

/-- the steps of `s` itself are invisible to everybody else -/
theorem own_steps_invisible {sys : Sys K T R} {s : Nat} {c c' : Cfg K V T R} {l : SLabel K}
    (hs : Step sys c (.sub s l) c') : Agree s c c' := by
  cases hs with
  | sub _ _ b' h1 =>
    refine ⟨rfl, ?_⟩
    intro s' e
    show c.subs s' = setFn c.subs s b' s'
    rw [setFn_other _ _ e]

/-- **others_progress**, run form: the projection of any run onto the cache and the other
subscribers is a run of the system in which `s` never called `Subscribe`. -/
theorem others_run_without [Inhabited V] {sys : Sys K T R} (s : Nat) {c : Cfg K V T R}
    (h : Reach sys c) : ∃ d, Reach sys d ∧ Agree s c d ∧ (d.subs s).pc = .h0 ∧ (d.subs s).sent = [] := by
  induction h with
  | init => exact ⟨_, Reach.init, ⟨rfl, fun _ _ => rfl⟩, rfl, rfl⟩
  | @step c c' l _ hs ih =>
    obtain ⟨d, hd, ha, hpc, hsent⟩ := ih
    by_cases hl : ∃ l', l = .sub s l'
    · obtain ⟨l', rfl⟩ := hl
      have := own_steps_invisible hs
      exact ⟨d, hd, ⟨this.1.symm.trans ha.1, fun s' e => (this.2 s' e).symm.trans (ha.2 s' e)⟩, hpc, hsent⟩
    · have hl' : ∀ l', l ≠ .sub s l' := fun l' e => hl ⟨l', e⟩
      obtain ⟨d', hs', ha'⟩ := others_progress ha hl' hs
      refine ⟨d', Reach.step hd hs', ha', ?_, ?_⟩
      · cases hs' with
        | shared l1 sh' h1 => show ((d.subs s).onShared sys _ l1).pc = _; rw [onShared_pc]; exact hpc
        | sub s1 l1 b' h1 =>
          have hne : s ≠ s1 := by intro e; subst e; exact hl' l1 rfl
          show (setFn d.subs s1 b' s).pc = _
          rw [setFn_other _ _ hne]; exact hpc
      · cases hs' with
        | shared l1 sh' h1 => show ((d.subs s).onShared sys _ l1).sent = _; rw [onShared_sent]; exact hsent
        | sub s1 l1 b' h1 =>
          have hne : s ≠ s1 := by intro e; subst e; exact hl' l1 rfl
          show (setFn d.subs s1 b' s).sent = _
          rw [setFn_other _ _ hne]; exact hsent


/-! ## Backlog -/

def isHandle : Item K R → Bool
  | .handle _ _ => true
  | _ => false

def isDel : Item K R → Bool
  | .delNote _ => true
  | .regionDel _ => true
  | _ => false

theorem length_split (l : List (Item K R)) :
    l.length = (l.filter isHandle).length + (l.filter isDel).length + l.count .syncMarker := by
  induction l with
  | nil => rfl
  | cons a l ih =>
    cases a <;> simp [List.filter, isHandle, isDel, List.count_cons, ih] <;> omega

/-- **backlog_bound.**  The length of a subscriber's queue is at most the number of pending
leaf handles — which are pairwise distinct, so this is the number of *distinct* pending
leaves/generations — plus the number of pending delete notifications plus one (the sync
marker).  Holds however long the subscriber is stalled and however many updates arrive. -/
theorem backlog_bound [Inhabited V] {sys : Sys K T R} (hsw : sys.swap = false) (wf : sys.WF)
    {c : Cfg K V T R} (h : Reach sys c) (s : Nat) :
    (c.subs s).q.length ≤
        ((c.subs s).items.filter isHandle).length + ((c.subs s).items.filter isDel).length + 1 ∧
      ((c.subs s).items.filter isHandle).Nodup := by
  have hn := (basic_reach hsw wf h s).nodup
  unfold NodupCoal at hn
  constructor
  · have h1 : (c.subs s).q.length = (c.subs s).items.length := by simp [Sub.items]
    have h2 : (c.subs s).items.count .syncMarker ≤ 1 := by
      have := List.nodup_iff_count.1 hn .syncMarker
      rwa [List.count_filter (by rfl)] at this
    rw [h1, length_split]; omega
  · have : (c.subs s).items.filter isHandle = ((c.subs s).items.filter Item.coal).filter isHandle := by
      rw [List.filter_filter]
      congr 1
      funext i; cases i <;> rfl
    rw [this]
    exact List.Nodup.sublist List.filter_sublist hn

/-! ## The send timer -/

/-- **timer_armed_only_in_send.**  The timer of `sendStreamingResults` is armed exactly while a
`Send` is pending: inside `sendSubscribeResponse` (`sending r`) or — since the repair of D24, /repo
commit 5c72e29 — inside `stream.Send(subscribeSync)` (`sendSync`).  Never while the sender waits in
`queue.Next` for a value to send. -/
theorem timer_armed_only_in_send [Inhabited V] {sys : Sys K T R} (hsw : sys.swap = false) (wf : sys.WF)
    {c : Cfg K V T R} (h : Reach sys c) (s : Nat) :
    (c.subs s).armed = true ↔ ((c.subs s).snd = .sendSync ∨ ∃ r, (c.subs s).snd = .sending r) :=
  (basic_reach hsw wf h s).phase.armed

/-- the timer is not armed while the sender is idle, holds a dequeued item, or is not running -/
theorem timer_off_outside_send [Inhabited V] {sys : Sys K T R} (hsw : sys.swap = false) (wf : sys.WF)
    {c : Cfg K V T R} (h : Reach sys c) (s : Nat)
    (hn : (c.subs s).snd ≠ .sendSync ∧ ∀ r, (c.subs s).snd ≠ .sending r) :
    (c.subs s).armed = false := by
  cases ha : (c.subs s).armed with
  | false => rfl
  | true =>
    rcases (timer_armed_only_in_send hsw wf h s).1 ha with h1 | ⟨r, h1⟩
    · exact absurd h1 hn.1
    · exact absurd h1 (hn.2 r)

/-- the expiry transition is enabled exactly while a send (of a response or of the sync marker) is
in progress -/
theorem expire_enabled_iff [Inhabited V] {sys : Sys K T R} (hsw : sys.swap = false) (wf : sys.WF)
    {c : Cfg K V T R} (h : Reach sys c) (s : Nat) :
    (∃ c', Step sys c (.sub s .expire) c') ↔
      ((c.subs s).snd = .sendSync ∨ ∃ r, (c.subs s).snd = .sending r) := by
  rw [← timer_armed_only_in_send hsw wf h s]
  constructor
  · rintro ⟨_, hs⟩
    cases hs with
    | sub _ _ b' h1 =>
      simp only [subFire, Option.ite_none_right_eq_some] at h1
      exact h1.1
  · intro ha
    exact ⟨_, Step.sub c s .expire ((c.subs s).finish .timeout) (by simp [subFire, ha])⟩

/-- **stalled_send_terminates.**  From a send in progress — of a data response **or of the sync
marker** (however long it has been blocked) — the expiry step is enabled, and it ends the RPC with
the time-out error: nothing more is sent, the registration is removed and the queue closed. -/
theorem stalled_send_terminates [Inhabited V] {sys : Sys K T R} (hsw : sys.swap = false) (wf : sys.WF)
    {c : Cfg K V T R} (h : Reach sys c) (s : Nat)
    (hs : (c.subs s).snd = .sendSync ∨ ∃ r, (c.subs s).snd = .sending r) :
    ∃ c', Step sys c (.sub s .expire) c' ∧ (c'.subs s).status = some .timeout ∧
      (c'.subs s).sent = (c.subs s).sent ∧ (c'.subs s).registered = false ∧
      (c'.subs s).closed = true ∧ (c'.subs s).snd = .stopped ∧ c'.sh = c.sh := by
  have ha := (timer_armed_only_in_send hsw wf h s).2 hs
  refine ⟨_, Step.sub c s .expire ((c.subs s).finish .timeout) (by simp [subFire, ha]), ?_⟩
  simp [setFn_same, Sub.finish]

/-- **stalled_marker_send_terminates.**  The case D24 was about: a client that stops reading before
the sync marker is delivered (`sendSync`, gate closed) is ended by the timeout like any other. -/
theorem stalled_marker_send_terminates [Inhabited V] {sys : Sys K T R} (hsw : sys.swap = false) (wf : sys.WF)
    {c : Cfg K V T R} (h : Reach sys c) (s : Nat) (hs : (c.subs s).snd = .sendSync) :
    ∃ c', Step sys c (.sub s .expire) c' ∧ (c'.subs s).status = some .timeout ∧
      (c'.subs s).sent = (c.subs s).sent ∧ (c'.subs s).registered = false ∧
      (c'.subs s).closed = true ∧ (c'.subs s).snd = .stopped ∧ c'.sh = c.sh :=
  stalled_send_terminates hsw wf h s (Or.inl hs)

/-- **stall_persists.**  While a `Send` is pending with the client's gate closed, every step of the
system other than the subscriber's own `expire`, `cancel`, `eof` (it ends the RPC) and `gateOpen`
leaves it inside the same `Send`, with the timer armed and nothing more sent: the stall lasts until
the timeout, the client going away, or the client reading again. -/
theorem stall_persists [Inhabited V] {sys : Sys K T R} (hsw : sys.swap = false) (wf : sys.WF)
    {c c' : Cfg K V T R} (h : Reach sys c) (s : Nat) {l : Label K V T R}
    (hs : (c.subs s).snd = .sendSync ∨ ∃ r, (c.subs s).snd = .sending r)
    (hb : (c.subs s).blocked = true) (hstep : Step sys c l c')
    (hl : l ≠ .sub s .expire ∧ l ≠ .sub s .cancel ∧ l ≠ .sub s .eof ∧ l ≠ .sub s .gateOpen) :
    (c'.subs s).snd = (c.subs s).snd ∧ (c'.subs s).armed = true ∧ (c'.subs s).blocked = true ∧
      (c'.subs s).sent = (c.subs s).sent := by
  have ha := (timer_armed_only_in_send hsw wf h s).2 hs
  cases hstep with
  | shared l1 sh' h1 =>
    show ((c.subs s).onShared sys _ l1).snd = _ ∧ ((c.subs s).onShared sys _ l1).armed = _ ∧
      ((c.subs s).onShared sys _ l1).blocked = _ ∧ ((c.subs s).onShared sys _ l1).sent = _
    rw [onShared_snd, onShared_armed, onShared_blocked, onShared_sent]
    exact ⟨rfl, ha, hb, rfl⟩
  | sub s1 l1 b' h1 =>
    by_cases e : s = s1
    · subst e
      show (setFn c.subs s b' s).snd = _ ∧ (setFn c.subs s b' s).armed = _ ∧
        (setFn c.subs s b' s).blocked = _ ∧ (setFn c.subs s b' s).sent = _
      rw [setFn_same]
      have hst := subFire_step h1
      have hpre := (basic_reach hsw wf h s).phase.pre_snd
      have hnp : (c.subs s).pc.pre = false := by
        cases hp : (c.subs s).pc.pre with
        | false => rfl
        | true =>
          have := hpre hp
          rcases hs with hs | ⟨r, hs⟩ <;> rw [hs] at this <;> cases this
      clear hpre
      obtain ⟨h1', h2', h3', h4'⟩ := hl
      rcases hs with hs | ⟨r, hs⟩ <;>
      · cases hst <;> simp_all [Sub.startWalk, HPc.pre]
        all_goals (first | (rename_i why; cases why <;> simp_all [HPc.pre]) | skip)
    · show (setFn c.subs s1 b' s).snd = _ ∧ (setFn c.subs s1 b' s).armed = _ ∧
        (setFn c.subs s1 b' s).blocked = _ ∧ (setFn c.subs s1 b' s).sent = _
      rw [setFn_other _ _ e]
      exact ⟨rfl, ha, hb, rfl⟩

/-- a stalled subscription that timed out stays ended: no local step except the (irrelevant)
gate moves is enabled afterwards, so nothing is ever sent again -/
theorem ended_stays_silent {sys : Sys K T R} {rq : Req K T R} {sh : Shared K V T R} {b b' : Sub K V R}
    {l : SLabel K} (hph : Phase rq b) (hfin : b.pc = .fin) (h : SubStep sys rq sh b l b') :
    b'.sent = b.sent ∧ b'.pc = .fin := by
  have hs := hph.fin_snd hfin
  have hst := hph.status_fin
  have ha := hph.armed
  have hw := hph.closed_why
  cases h <;> simp_all [Sub.finish]
  all_goals (rename_i why; cases why <;> simp_all)


/-! ## Resuming after a stall -/

theorem wt_zero_of_not_mem {j : Item K R} {q : List (Item K R × Nat)} (h : j ∉ q.map (·.1)) :
    wt j q = 0 := by
  induction q with
  | nil => rfl
  | cons a l ih =>
    obtain ⟨i, d⟩ := a
    simp only [List.map_cons, List.mem_cons, not_or] at h
    have : ¬ i = j := fun e => h.1 e.symm
    simp [wt, this, ih h.2]

theorem wt_of_mem_nodup {i : Item K R} {d : Nat} {q : List (Item K R × Nat)} (hc : i.coal = true)
    (hn : ((q.map (·.1)).filter Item.coal).Nodup) (hm : (i, d) ∈ q) :
    wt i q = d + 1 ∧ (q.map (·.1)).count i = 1 := by
  induction q with
  | nil => cases hm
  | cons a l ih =>
    obtain ⟨i', d'⟩ := a
    by_cases e : i' = i
    · subst e
      simp only [List.map_cons, List.filter, hc] at hn
      obtain ⟨hni, _⟩ := List.nodup_cons.1 hn
      have hni' : i' ∉ l.map (·.1) := fun hx => hni (List.mem_filter.2 ⟨hx, hc⟩)
      have hd : d = d' := by
        rcases List.mem_cons.1 hm with hm | hm
        · cases hm; rfl
        · exact absurd (List.mem_map_of_mem (f := (·.1)) hm) hni'
      subst hd
      refine ⟨by simp [wt, wt_zero_of_not_mem hni'], ?_⟩
      simp [List.count_eq_zero_of_not_mem hni']
    · have hm' : (i, d) ∈ l := by
        rcases List.mem_cons.1 hm with hm | hm
        · cases hm; exact absurd rfl e
        · exact hm
      have hn' : ((l.map (·.1)).filter Item.coal).Nodup := by
        simp only [List.map_cons] at hn
        exact List.Nodup.sublist (List.Sublist.filter _ (List.sublist_cons_self _ _)) hn
      obtain ⟨h1, h2⟩ := ih hn' hm'
      refine ⟨by simp [wt, e, h1], ?_⟩
      simp only [List.map_cons]
      rw [List.count_cons_of_ne e]; exact h2

/-- every pending coalescable item (leaf handle, sync marker) has exactly one queue entry,
and its `dups` is exactly the number of accepted `Insert`s of that item since its last
delivery, minus one (C11 `dup_exact` at the level of the protocol; the inserts of a handle
are the notifications offered once each by C06 plus at most one walk visit per walk) -/
theorem pending_dups_exact [Inhabited V] {sys : Sys K T R} (hsw : sys.swap = false) (wf : sys.WF)
    {c : Cfg K V T R} (h : Reach sys c) (s : Nat) (i : Item K R) (d : Nat) (hc : i.coal = true)
    (hm : (i, d) ∈ (c.subs s).q) :
    (c.subs s).insLog.count i = wt i (c.subs s).deliv + (d + 1) ∧ (c.subs s).items.count i = 1 := by
  have hb := basic_reach hsw wf h s
  obtain ⟨h1, h2⟩ := wt_of_mem_nodup hc hb.nodup hm
  exact ⟨by rw [hb.acct i, h1], h2⟩

/-- **resume_newest_with_dups.**  When the sender resumes (`snd = idle`, gate open) with a leaf
handle `(k, g)` at the head of the queue, the three steps `Next`, build, `Send` are enabled
and deliver exactly one response for it, carrying the value the leaf object holds **now** —
which is the newest value ever written to it — and `duplicates = d`, where `d + 1` is the
number of notifications/visits coalesced into this pending entry; the handle is not pending
a second time. -/
theorem resume_newest_with_dups [Inhabited V] {sys : Sys K T R} (hsw : sys.swap = false)
    (wf : sys.WF) {c : Cfg K V T R} (h : Reach sys c) (s : Nat) (k : K) (g d : Nat)
    (rest : List (Item K R × Nat)) (hidle : (c.subs s).snd = .idle)
    (hq : (c.subs s).q = (.handle k g, d) :: rest)
    (ha : (sys.req s).allow (sys.tgt k) = true) (hb : (c.subs s).blocked = false) :
    ∃ c', fireAll sys c [.sub s .next, .sub s .build, .sub s .sent] = some c' ∧
      (c'.subs s).sent = (c.subs s).sent ++ [.upd k (c.sh.val k g) d] ∧
      (c'.subs s).q = rest ∧ Item.handle k g ∉ rest.map (·.1) ∧
      lastW k g c.sh.wlog = some (c.sh.val k g) ∧
      (c.subs s).insLog.count (.handle k g) = wt (.handle k g) (c.subs s).deliv + (d + 1) := by
  have hm : (Item.handle k g, d) ∈ (c.subs s).q := by rw [hq]; exact List.mem_cons_self ..
  obtain ⟨h1, h2⟩ := pending_dups_exact hsw wf h s (.handle k g) d rfl hm
  obtain ⟨⟨_, hs2⟩, hl⟩ := handles_reach h
  have hg := (hl s).q (.handle k g) (by simp [Sub.items, hq]) k g rfl
  let b := c.subs s
  let b1 : Sub K V R := { b with q := rest, snd := .got (.handle k g) d, deliv := b.deliv ++ [(.handle k g, d)] }
  let b2 : Sub K V R := { b1 with snd := .sending (.upd k (c.sh.val k g) d), armed := true }
  let b3 : Sub K V R := { b2 with snd := .idle, armed := false, sent := b2.sent ++ [.upd k (c.sh.val k g) d] }
  refine ⟨⟨c.sh, setFn (setFn (setFn c.subs s b1) s b2) s b3⟩, ?_, ?_, ?_, ?_, hs2.newest k g hg.1 hg.2, h1⟩
  · simp [fireAll, fire, subFire, setFn_same, hidle, hq, mkResp, ha, hb, endsStreamR, b1, b2, b3, b]
  · simp [setFn_same, b1, b2, b3, b]
  · simp [setFn_same, b1, b2, b3, b]
  · intro hx
    have : (c.subs s).items.count (.handle k g) = 1 := h2
    simp only [Sub.items, hq, List.map_cons, List.count_cons_self] at this
    have := List.count_pos_iff.2 hx
    omega


/-! ## Non-vacuity -/

section NonVacuity
open Demo

/-- subscriber 0 is blocked in `send` (gate closed, first response in flight) while three
updates of key `1` and one of key `11` are accepted -/
def demoStall : List Demo.L :=
  setup ++ hsN 0 7 ++ hsN 1 7 ++
  [.sub 0 (.visit 1), .sub 0 (.visit 11), .sub 0 .finish, .sub 0 .gateClose, .sub 0 .next, .sub 0 .build,
   .sh (.w1Upd 1 8), .sh (.w2 (.upd 1 1)), .sh (.w1Upd 1 9), .sh (.w2 (.upd 1 1)),
   .sh (.w1Upd 1 10), .sh (.w2 (.upd 1 1)), .sh (.w1Upd 11 71), .sh (.w2 (.upd 11 1))]

/-- `writer_independent_of_senders`, `stalled_send_terminates`, `timer_armed_only_in_send`,
`backlog_bound`: with subscriber 0 blocked in `send` and the timer armed, all writer units
completed (`pend = []`), the backlog of 0 is one entry per distinct leaf plus the sync
(the three updates of `1` were coalesced: `dups = 2`), and subscriber 1 — registered as well —
received the same notifications -/
example : ∃ c : Demo.C, Reach Demo.sys c ∧ (c.subs 0).snd = .sending (.upd 1 7 0) ∧
    (c.subs 0).blocked = true ∧ (c.subs 0).armed = true ∧ c.sh.pend = [] ∧
    (c.subs 0).q = [(.handle 11 1, 1), (.syncMarker, 0), (.handle 1 1, 2)] ∧
    (c.subs 1).q = [(.handle 1 1, 2), (.handle 11 1, 0)] ∧ c.sh.cache 1 = some 10 := by
  obtain ⟨c, hr, hp⟩ := reach_of_trace demoStall (fun c =>
    decide ((c.subs 0).snd = .sending (.upd 1 7 0)) && (c.subs 0).blocked && (c.subs 0).armed &&
    decide (c.sh.pend = []) &&
    decide ((c.subs 0).q = [(.handle 11 1, 1), (.syncMarker, 0), (.handle 1 1, 2)]) &&
    decide ((c.subs 1).q = [(.handle 1 1, 2), (.handle 11 1, 0)]) &&
    decide (c.sh.cache 1 = some 10)) (by decide)
  simp only [Bool.and_eq_true, decide_eq_true_eq] at hp
  obtain ⟨⟨⟨⟨⟨⟨h1, h2⟩, h3⟩, h4⟩, h5⟩, h6⟩, h7⟩ := hp
  exact ⟨c, hr, h1, h2, h3, h4, h5, h6, h7⟩

/-- `resume_newest_with_dups`: the gate opens, the blocked send completes, the pending entries
are delivered; when `(handle 1 1, 2)` is at the head the hypotheses of the theorem hold, and
the response will be `upd 1 10 2`: newest value, two duplicates -/
example : ∃ c : Demo.C, Reach Demo.sys c ∧ (c.subs 0).snd = .idle ∧
    (c.subs 0).q = [(.handle 1 1, 2)] ∧ (Demo.sys.req 0).allow (Demo.sys.tgt 1) = true ∧
    (c.subs 0).blocked = false ∧ c.sh.val 1 1 = 10 ∧
    (c.subs 0).sent = [.upd 1 7 0, .upd 11 71 1, .sync] := by
  obtain ⟨c, hr, hp⟩ := reach_of_trace (demoStall ++ [.sub 0 .gateOpen, .sub 0 .sent] ++
      deliver 0 ++ deliver 0) (fun c =>
    decide ((c.subs 0).snd = .idle) && decide ((c.subs 0).q = [(.handle 1 1, 2)]) &&
    !(c.subs 0).blocked && decide (c.sh.val 1 1 = 10) &&
    decide ((c.subs 0).sent = [.upd 1 7 0, .upd 11 71 1, .sync])) (by decide)
  simp only [Bool.and_eq_true, decide_eq_true_eq, Bool.not_eq_true'] at hp
  obtain ⟨⟨⟨⟨h1, h2⟩, h3⟩, h4⟩, h5⟩ := hp
  exact ⟨c, hr, h1, h2, rfl, h3, h4, h5⟩

/-- `others_progress`: while 0 is blocked, subscriber 1 delivers what it was offered -/
example : (fireAll Demo.sys Cfg.init (demoStall ++ deliver 1 ++ [.sub 1 .next, .sub 1 .build])).map
    (fun c => decide ((c.subs 1).sent = [.upd 1 10 2]) && decide ((c.subs 1).q = []) &&
      decide ((c.subs 0).snd = .sending (.upd 1 7 0))) = some true := by decide

/-- `stalled_send_terminates`: the expiry ends the stalled RPC with the time-out error -/
example : (fireAll Demo.sys Cfg.init (demoStall ++ [.sub 0 .expire])).map
    (fun c => decide ((c.subs 0).status = some .timeout) && !(c.subs 0).registered &&
      decide ((c.subs 0).sent = [])) = some true := by decide

/-- the case of D24: subscriber 6 (STREAM, `updates_only`) stops reading before its sync marker goes
out; the sender is inside `Send(subscribeSync)` with the timer armed while two updates are accepted and
queued behind it -/
def demoMarkerStall : List Demo.L :=
  setup ++ hsN 6 7 ++
  [.sub 6 .gateClose, .sub 6 .next, .sub 6 .build,
   .sh (.w1Upd 1 8), .sh (.w2 (.upd 1 1)), .sh (.w1Upd 11 71), .sh (.w2 (.upd 11 1))]

/-- `timer_armed_only_in_send`, `stalled_marker_send_terminates`, `stall_persists`: the hypotheses hold
in a reachable configuration (inside the `Send` of the marker, gate closed, timer armed, writers done,
backlog queued) … -/
example : ∃ c : Demo.C, Reach Demo.sys c ∧ (c.subs 6).snd = .sendSync ∧
    (c.subs 6).blocked = true ∧ (c.subs 6).armed = true ∧ c.sh.pend = [] ∧ (c.subs 6).sent = [] ∧
    (c.subs 6).q = [(.handle 1 1, 0), (.handle 11 1, 0)] := by
  obtain ⟨c, hr, hp⟩ := reach_of_trace demoMarkerStall (fun c =>
    decide ((c.subs 6).snd = .sendSync) && (c.subs 6).blocked && (c.subs 6).armed &&
    decide (c.sh.pend = []) && decide ((c.subs 6).sent = []) &&
    decide ((c.subs 6).q = [(.handle 1 1, 0), (.handle 11 1, 0)])) (by decide)
  simp only [Bool.and_eq_true, decide_eq_true_eq] at hp
  obtain ⟨⟨⟨⟨⟨h1, h2⟩, h3⟩, h4⟩, h5⟩, h6⟩ := hp
  exact ⟨c, hr, h1, h2, h3, h4, h5, h6⟩

/-- … and the expiry ends the RPC stalled in the marker `Send` with the time-out error; nothing was
sent; the other subscribers are untouched -/
example : (fireAll Demo.sys Cfg.init (demoMarkerStall ++ [.sub 6 .expire])).map
    (fun c => decide ((c.subs 6).status = some .timeout) && !(c.subs 6).registered && (c.subs 6).closed &&
      decide ((c.subs 6).snd = .stopped) && !(c.subs 6).armed && decide ((c.subs 6).sent = [])) = some true := by
  decide

/-- when the client reads again instead, the marker goes out, the timer is disarmed, and the backlog
follows -/
example : (fireAll Demo.sys Cfg.init (demoMarkerStall ++ [.sub 6 .gateOpen, .sub 6 .sent] ++ deliver 6)).map
    (fun c => decide ((c.subs 6).sent = [.sync, .upd 1 8 0]) && !(c.subs 6).armed &&
      decide ((c.subs 6).snd = .idle)) = some true := by
  decide

end NonVacuity

end C08
end Gnmi
