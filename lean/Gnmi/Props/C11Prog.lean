import Gnmi.Props.C11
/-!
# C11 — "always woken", in run form (progress of the consumer of the coalescing queue)

`Props/C11.lean` proves the *enabledness* facts of the LTS `CoLTS` (`Model/CoalesceLTS.lean`):
`no_lost_wakeup`, `wakeup_progress`, `cancel_wakes`, `close_wakes`.  This file turns them into
statements about **runs** of the same LTS (same `Step`, same `Reach`; the only new notions are
`Run` = the reflexive-transitive closure of `Step` over label lists, proved equal to the model's
`fireAll`, and infinite runs `InfRun`):

* `ready_arm_persists`, `ready_arm_persists_run` — a ready case of the consumer's `select` stays
  ready, and the consumer stays at the `select`, under every step of every other thread;
* `select_step_progress`, `no_lost_wakeup_run` — hence the consumer's next step, whenever it is
  scheduled, is enabled and leaves the `select` (ctx error / re-run `q.next()` / `q.Len()`);
* `consumer_steps_bounded` — a potential function `stepsBound` that no step of another thread
  increases and every consumer step inside `Next` decreases: the number of consumer steps of one
  `Next` call is bounded by it; it is the constant `3` when an item is pending, and
  `2 * (stale tokens) + 3` on an empty queue (`stale_rounds_unbounded`: no constant works there);
* `wakeup_outcome`, `wakeup_leads_to` — with an item `i` at the head of the queue the call ends,
  after at most 3 consumer steps, by delivering `i` (or by the context's error if cancelled);
* `select_not_always_enabled` — the naive "a consumer step is enabled at every configuration
  until the consumer moves" is **false** for the hypothesis "an item is pending" (the producer
  may sit between its locked insert and its token post): what holds is `wake_or_post_run`
  (a case is ready, or `P3` is enabled and makes the token case ready), so the leads-to needs
  weak fairness of the posting producer too: `fair_wakeup` (infinite weakly fair runs).
-/
namespace Gnmi
namespace C11Prog
open Coalesce CoLTS

set_option linter.unusedSectionVars false

variable {Item : Type} [DecidableEq Item]

/-! ## Vocabulary -/

/-- the labels of the consumer thread (`Next`: the call, `C1`, the three `select` cases, `C3`);
every other label is a step of a producer, of a closer or of whoever cancels the context -/
def isCons : Label Item → Bool
  | .cCall _ => true
  | .cNext => true
  | .cSelCtx => true
  | .cSelToken => true
  | .cSelClosed => true
  | .cLen => true
  | _ => false

/-- `cCall` labels: the consumer *starts* a (new) `Next` call -/
def isCall : Label Item → Bool
  | .cCall _ => true
  | _ => false

/-- finite runs: the reflexive-transitive closure of `Step`, with the labels taken -/
inductive Run : Cfg Item → List (Label Item) → Cfg Item → Prop where
  | nil (c : Cfg Item) : Run c [] c
  | cons {c c1 c' : Cfg Item} {l : Label Item} {ls : List (Label Item)} :
      Step c l c1 → Run c1 ls c' → Run c (l :: ls) c'

/-- number of consumer steps of a schedule -/
def consCount (ls : List (Label Item)) : Nat := (ls.filter isCons).length

theorem consCount_cons (l : Label Item) (ls : List (Label Item)) :
    consCount (l :: ls) = (if isCons l = true then 1 else 0) + consCount ls := by
  unfold consCount
  rw [List.filter_cons]
  split <;> simp <;> omega

/-- a consumer step is enabled -/
def ConsEnabled (c : Cfg Item) : Prop := ∃ l c', isCons l = true ∧ Step c l c'

/-! ## `Run` is the model's `fireAll` -/

/-- `Run` is exactly the model's executable schedule semantics -/
theorem run_iff_fireAll (c c' : Cfg Item) (ls : List (Label Item)) :
    Run c ls c' ↔ fireAll c ls = some c' := by
  constructor
  · intro h
    induction h with
    | nil c => rfl
    | cons hs _ ih => rw [fireAll_cons _ (fire_complete hs)]; exact ih
  · intro h
    induction ls generalizing c with
    | nil => simp only [fireAll, Option.some.injEq] at h; subst h; exact Run.nil c
    | cons l ls ih =>
      simp only [fireAll] at h
      cases hf : fire c l with
      | none => rw [hf] at h; cases h
      | some c1 => rw [hf] at h; exact Run.cons (fire_sound hf) (ih c1 h)

theorem run_reach {c c' : Cfg Item} {ls : List (Label Item)} (h : Run c ls c') (hr : Reach c) :
    Reach c' := by
  induction h with
  | nil c => exact hr
  | cons hs _ ih => exact ih (Reach.step hr hs)

theorem run_append {c m c' : Cfg Item} {a b : List (Label Item)} (h1 : Run c a m) (h2 : Run m b c') :
    Run c (a ++ b) c' := by
  induction h1 with
  | nil c => exact h2
  | cons hs _ ih => exact Run.cons hs (ih h2)

theorem run_split {c c' : Cfg Item} (a b : List (Label Item)) (h : Run c (a ++ b) c') :
    ∃ m, Run c a m ∧ Run m b c' := by
  induction a generalizing c with
  | nil => exact ⟨c, Run.nil c, h⟩
  | cons l a ih =>
    cases h with
    | cons hs hr =>
      obtain ⟨m, h1, h2⟩ := ih hr
      exact ⟨m, Run.cons hs h1, h2⟩

/-! ## What a step of another thread can do -/

/-- tokens that can still reach the consumer without a new item: the one in the channel plus the
producers between their locked insert and their token post -/
def tokN (c : Cfg Item) : Nat := (if c.q.token then 1 else 0) + c.atP3

/-- what is stable under the steps of the other threads -/
structure Frame (c c' : Cfg Item) : Prop where
  cons : c'.cons = c.cons
  delivered : c'.delivered = c.delivered
  token : c.q.token = true → c'.q.token = true
  closed : c.q.closed = true → c'.q.closed = true
  cancelled : c.cancelled = true → c'.cancelled = true
  /-- pending items stay pending, in place; new ones are appended -/
  queue : ∃ t, c'.q.queue = c.q.queue ++ t
  /-- a producer about to post stays about to post until it has posted -/
  post : 0 < c.atP3 → 0 < c'.atP3 ∨ c'.q.token = true
  /-- the number of tokens in flight grows only together with a pending item -/
  budget : c'.q.queue = [] → tokN c' ≤ tokN c

theorem Frame.refl (c : Cfg Item) : Frame c c :=
  ⟨rfl, rfl, id, id, id, ⟨[], by simp⟩, Or.inl, fun _ => Nat.le_refl _⟩

theorem Frame.trans {a b c : Cfg Item} (h1 : Frame a b) (h2 : Frame b c) : Frame a c := by
  obtain ⟨t1, e1⟩ := h1.queue
  obtain ⟨t2, e2⟩ := h2.queue
  refine ⟨h2.cons.trans h1.cons, h2.delivered.trans h1.delivered, fun h => h2.token (h1.token h),
    fun h => h2.closed (h1.closed h), fun h => h2.cancelled (h1.cancelled h),
    ⟨t1 ++ t2, by rw [e2, e1, List.append_assoc]⟩, ?_, ?_⟩
  · intro h
    rcases h1.post h with h | h
    · exact h2.post h
    · exact Or.inr (h2.token h)
  · intro h
    have hb : b.q.queue = [] := by
      rw [e2] at h
      exact (List.append_eq_nil_iff.1 h).1
    exact Nat.le_trans (h2.budget h) (h1.budget hb)

/-- the locked section of `Insert`, as far as the consumer's progress is concerned -/
theorem insertCfg_frame (c : Cfg Item) (i : Item) :
    (insertCfg c i).cons = c.cons ∧ (insertCfg c i).cancelled = c.cancelled ∧
    (insertCfg c i).delivered = c.delivered ∧ (insertCfg c i).q.token = c.q.token ∧
    (insertCfg c i).q.closed = c.q.closed ∧
    (((insertCfg c i).q.queue = c.q.queue ∧ (insertCfg c i).atP3 = c.atP3) ∨
     ((insertCfg c i).q.queue = c.q.queue ++ [i] ∧ (insertCfg c i).atP3 = c.atP3 + 1)) := by
  unfold insertCfg insertLocked
  cases CMap.lookup c.q.coalesced i with
  | some n => simp
  | none => simp

/-- every step of another thread respects the frame -/
theorem env_step_frame {c c' : Cfg Item} {l : Label Item} (hs : Step c l c')
    (hl : isCons l = false) : Frame c c' := by
  cases hs with
  | pRefused _ _ => exact Frame.refl c
  | pCheck i _ => exact ⟨rfl, rfl, id, id, id, ⟨[], by simp⟩, Or.inl, fun _ => Nat.le_refl _⟩
  | pInsert i _ =>
    obtain ⟨h1, h2, h3, h4, h5, h6⟩ := insertCfg_frame c i
    refine ⟨h1, h3, fun h => h4.trans h, fun h => h5.trans h, fun h => h2.trans h, ?_, ?_, ?_⟩
    · rcases h6 with ⟨hq, _⟩ | ⟨hq, _⟩
      · exact ⟨[], by rw [hq]; simp⟩
      · exact ⟨[i], hq⟩
    · intro hp
      rcases h6 with ⟨_, ha⟩ | ⟨_, ha⟩ <;> exact Or.inl (by rw [ha]; omega)
    · intro he
      rcases h6 with ⟨_, ha⟩ | ⟨hq, _⟩
      · unfold tokN; rw [ha, h4]; exact Nat.le_refl _
      · rw [hq] at he; simp at he
  | pPost hp =>
    refine ⟨rfl, rfl, fun _ => rfl, id, id, ⟨[], by simp [postToken]⟩, fun _ => Or.inr rfl, ?_⟩
    intro _
    show (if (postToken c.q).token then 1 else 0) + (c.atP3 - 1) ≤ (if c.q.token then 1 else 0) + c.atP3
    simp only [postToken, if_true]
    split <;> omega
  | cCall _ _ => simp [isCons] at hl
  | cNext _ => simp [isCons] at hl
  | cSelCtx _ _ => simp [isCons] at hl
  | cSelToken _ _ => simp [isCons] at hl
  | cSelClosed _ _ => simp [isCons] at hl
  | cLen _ => simp [isCons] at hl
  | close =>
    unfold closeCfg
    split
    · exact Frame.refl c
    · exact ⟨rfl, rfl, id, fun _ => rfl, id, ⟨[], by simp [Coalesce.close]⟩, Or.inl,
        fun _ => Nat.le_refl _⟩
  | cancel => exact ⟨rfl, rfl, id, id, fun _ => rfl, ⟨[], by simp⟩, Or.inl, fun _ => Nat.le_refl _⟩

/-- … and so does every run made of such steps -/
theorem env_run_frame {c c' : Cfg Item} {ls : List (Label Item)} (hr : Run c ls c')
    (henv : ∀ l ∈ ls, isCons l = false) : Frame c c' := by
  induction hr with
  | nil c => exact Frame.refl c
  | cons hs _ ih =>
    exact (env_step_frame hs (henv _ (List.mem_cons_self ..))).trans
      (ih (fun l hl => henv l (List.mem_cons_of_mem _ hl)))

theorem Frame.ready {c c' : Cfg Item} (h : Frame c c') {a : Arm} (ha : a ∈ readyArms c) :
    a ∈ readyArms c' := by
  unfold readyArms at ha ⊢
  cases a with
  | ctx => exact (mem_ready_ctx _ _).2 (h.cancelled ((mem_ready_ctx _ _).1 ha))
  | token => exact (mem_ready_token _ _).2 (h.token ((mem_ready_token _ _).1 ha))
  | closed => exact (mem_ready_closed _ _).2 (h.closed ((mem_ready_closed _ _).1 ha))

theorem Frame.head {c c' : Cfg Item} (h : Frame c c') {i : Item} {rest : List Item}
    (hq : c.q.queue = i :: rest) : ∃ rest', c'.q.queue = i :: rest' := by
  obtain ⟨t, e⟩ := h.queue
  exact ⟨rest ++ t, by rw [e, hq]; rfl⟩

/-! ## 1. A ready `select` case stays ready until the consumer moves -/

/-- **`ready_arm_persists`**: while the consumer sits at its `select` (`cons = .c2`), a step of
any other thread (producer `P1`/`P2`/`P3`, `Close`, cancellation) leaves it there and keeps
every ready case ready (`readyArms` is the model's own readiness function: ctx done, token
present, queue closed). -/
theorem ready_arm_persists (c c' : Cfg Item) (l : Label Item) (a : Arm) (hc : c.cons = .c2)
    (ha : a ∈ readyArms c) (hs : Step c l c') (hl : isCons l = false) :
    c'.cons = .c2 ∧ a ∈ readyArms c' := by
  have hf := env_step_frame hs hl
  exact ⟨hf.cons.trans hc, hf.ready ha⟩

/-- **`ready_arm_persists_run`**: the same along any run made of steps of the other threads,
however long. -/
theorem ready_arm_persists_run (c c' : Cfg Item) (ls : List (Label Item)) (a : Arm)
    (hc : c.cons = .c2) (ha : a ∈ readyArms c) (hr : Run c ls c')
    (henv : ∀ l ∈ ls, isCons l = false) :
    c'.cons = .c2 ∧ a ∈ readyArms c' := by
  have hf := env_run_frame hr henv
  exact ⟨hf.cons.trans hc, hf.ready ha⟩

/-- a ready case is an enabled consumer step (at the `select`) -/
theorem ready_arm_enabled (c : Cfg Item) (a : Arm) (hc : c.cons = .c2) (ha : a ∈ readyArms c) :
    ∃ c', Step c (armLabel a) c' := by
  unfold readyArms at ha
  cases a with
  | ctx => exact ⟨_, Step.cSelCtx c hc ((mem_ready_ctx _ _).1 ha)⟩
  | token => exact ⟨_, Step.cSelToken c hc ((mem_ready_token _ _).1 ha)⟩
  | closed => exact ⟨_, Step.cSelClosed c hc ((mem_ready_closed _ _).1 ha)⟩

/-- at the `select`, the consumer has an enabled step exactly when some case is ready -/
theorem consEnabled_select_iff (c : Cfg Item) (hc : c.cons = .c2) :
    ConsEnabled c ↔ readyArms c ≠ [] := by
  constructor
  · rintro ⟨l, c', _, hs⟩ he
    have hn := (C11.consumer_blocked_iff c hc).2 he
    apply hn
    cases hs with
    | pRefused _ _ => simp [isCons] at *
    | pCheck _ _ => simp [isCons] at *
    | pInsert _ _ => simp [isCons] at *
    | pPost _ => simp [isCons] at *
    | cCall _ h => rcases h with h | ⟨r, h⟩ <;> rw [hc] at h <;> cases h
    | cNext h => rw [hc] at h; cases h
    | cSelCtx h1 h2 => exact ⟨.ctx, _, Step.cSelCtx c h1 h2⟩
    | cSelToken h1 h2 => exact ⟨.token, _, Step.cSelToken c h1 h2⟩
    | cSelClosed h1 h2 => exact ⟨.closed, _, Step.cSelClosed c h1 h2⟩
    | cLen h => rw [hc] at h; cases h
    | close => simp [isCons] at *
    | cancel => simp [isCons] at *
  · intro hne
    cases hr : readyArms c with
    | nil => exact absurd hr hne
    | cons a t =>
      have ha : a ∈ readyArms c := by rw [hr]; exact List.mem_cons_self ..
      obtain ⟨c', hs⟩ := ready_arm_enabled c a hc ha
      exact ⟨armLabel a, c', by cases a <;> rfl, hs⟩

/-! ## 2. The consumer's next step, whenever it is scheduled, makes progress -/

/-- **`select_step_progress`**: every step the consumer can take at its `select` leaves the
`select`, and tells what it does: `case <-ctx.Done()` makes `Next` return the context's error
(the context *is* cancelled); `case <-q.inserted` consumes the token and goes back to
`q.next()`; `case <-q.closed` goes to the `q.Len()` test.  Nothing else changes. -/
theorem select_step_progress (c c' : Cfg Item) (l : Label Item) (hc : c.cons = .c2)
    (hl : isCons l = true) (hs : Step c l c') :
    (l = .cSelCtx ∧ c.cancelled = true ∧ c' = { c with cons := .done .cancelled }) ∨
    (l = .cSelToken ∧ c.q.token = true ∧
      c' = { c with q := { c.q with token := false }, cons := .c1 }) ∨
    (l = .cSelClosed ∧ c.q.closed = true ∧ c' = { c with cons := .c3 }) := by
  cases hs with
  | pRefused _ _ => simp [isCons] at hl
  | pCheck _ _ => simp [isCons] at hl
  | pInsert _ _ => simp [isCons] at hl
  | pPost _ => simp [isCons] at hl
  | cCall _ h => rcases h with h | ⟨r, h⟩ <;> rw [hc] at h <;> cases h
  | cNext h => rw [hc] at h; cases h
  | cSelCtx _ h2 => exact Or.inl ⟨rfl, h2, rfl⟩
  | cSelToken _ h2 => exact Or.inr (Or.inl ⟨rfl, h2, rfl⟩)
  | cSelClosed _ h2 => exact Or.inr (Or.inr ⟨rfl, h2, rfl⟩)
  | cLen h => rw [hc] at h; cases h
  | close => simp [isCons] at hl
  | cancel => simp [isCons] at hl

/-- **`no_lost_wakeup_run`** ("no lost wake-up", run form).  Let the consumer be at its
`select` with case `a` ready (an item's token was posted / the queue was closed / the context
was cancelled).  After **any** number of steps of the other threads (`ls`, reaching `c1`):

* the consumer is still at the `select` and `a` is still ready: the wake-up was not lost;
* the consumer step `armLabel a` is enabled at `c1`;
* **every** consumer step from `c1` (Go's `select` may pick any ready case) leaves the `select`:
  to `done cancelled` (`Next` returns `ctx.Err()`, only if the context is cancelled), to `C1`
  (`q.next()` is re-run, the token having been consumed) or to `C3` (the `q.Len()` test, only if
  the queue is closed).  It never stays blocked. -/
theorem no_lost_wakeup_run (c c1 : Cfg Item) (ls : List (Label Item)) (a : Arm)
    (hc : c.cons = .c2) (ha : a ∈ readyArms c) (hr : Run c ls c1)
    (henv : ∀ l ∈ ls, isCons l = false) :
    c1.cons = .c2 ∧ a ∈ readyArms c1 ∧ (∃ c2, Step c1 (armLabel a) c2) ∧
    ∀ l c2, isCons l = true → Step c1 l c2 →
      (l = .cSelCtx ∧ c1.cancelled = true ∧ c2.cons = .done .cancelled) ∨
      (l = .cSelToken ∧ c1.q.token = true ∧ c2.cons = .c1 ∧ c2.q.queue = c1.q.queue) ∨
      (l = .cSelClosed ∧ c1.q.closed = true ∧ c2.cons = .c3 ∧ c2.q.queue = c1.q.queue) := by
  obtain ⟨h1, h2⟩ := ready_arm_persists_run c c1 ls a hc ha hr henv
  refine ⟨h1, h2, ready_arm_enabled c1 a h1 h2, ?_⟩
  intro l c2 hl hs
  rcases select_step_progress c1 c2 l h1 hl hs with ⟨e, h, rfl⟩ | ⟨e, h, rfl⟩ | ⟨e, h, rfl⟩
  · exact Or.inl ⟨e, h, rfl⟩
  · exact Or.inr (Or.inl ⟨e, h, rfl, rfl⟩)
  · exact Or.inr (Or.inr ⟨e, h, rfl, rfl⟩)

/-- **`wake_or_post_run`**: the same for the hypothesis "an item is pending" (which is *not* a
`select` case).  From a reachable configuration with the consumer at the `select` and `i` at the
head of the queue, after any number of steps of the other threads: the consumer is still at the
`select`, `i` is still the head, nothing was delivered, and **either** a case is ready (so a
consumer step is enabled, and stays enabled by `ready_arm_persists`) **or** no case is ready but
a producer stands between its locked insert and its token post: `P3` is enabled and makes the
token case ready.  Moreover once a `P3` has been executed the token case is ready. -/
theorem wake_or_post_run (c c1 : Cfg Item) (ls : List (Label Item)) (i : Item) (rest : List Item)
    (h : Reach c) (hc : c.cons = .c2) (hq : c.q.queue = i :: rest) (hr : Run c ls c1)
    (henv : ∀ l ∈ ls, isCons l = false) :
    c1.cons = .c2 ∧ (∃ rest', c1.q.queue = i :: rest') ∧ c1.delivered = c.delivered ∧
    ((∃ a c2, a ∈ readyArms c1 ∧ Step c1 (armLabel a) c2) ∨
     (readyArms c1 = [] ∧ ∃ c2 c3, Step c1 .pPost c2 ∧ Step c2 .cSelToken c3)) ∧
    (.pPost ∈ ls → Arm.token ∈ readyArms c1) := by
  have hf := env_run_frame hr henv
  have hc1 : c1.cons = .c2 := hf.cons.trans hc
  obtain ⟨rest', hq1⟩ := hf.head hq
  refine ⟨hc1, ⟨rest', hq1⟩, hf.delivered, ?_, ?_⟩
  · have hne : c1.q.queue ≠ [] := by rw [hq1]; exact List.cons_ne_nil _ _
    cases hrd : readyArms c1 with
    | cons a t =>
      have ha : a ∈ readyArms c1 := by rw [hrd]; exact List.mem_cons_self ..
      obtain ⟨c2, hs⟩ := ready_arm_enabled c1 a hc1 ha
      exact Or.inl ⟨a, c2, List.mem_cons_self .., hs⟩
    | nil =>
      obtain ⟨_, ht, hcl⟩ := (ready_nil _ _).1 hrd
      rcases C11.no_lost_wakeup c1 (run_reach hr h) hc1 hne with h1 | h1 | h1
      · rw [ht] at h1; cases h1
      · rw [hcl] at h1; cases h1
      · exact Or.inr ⟨rfl, _, _, Step.pPost c1 h1, Step.cSelToken _ hc1 rfl⟩
  · intro hm
    obtain ⟨a, b, rfl⟩ := List.append_of_mem hm
    obtain ⟨m, _, h2⟩ := run_split a (.pPost :: b) hr
    cases h2 with
    | @cons _ m1 _ _ _ hs hr2 =>
      have hf2 := env_run_frame hr2 (fun l hl => henv l (by simp [hl]))
      have ht : c1.q.token = true := by
        cases hs with
        | pPost _ => exact hf2.token rfl
      exact (mem_ready_token _ _).2 ht

/-! ## 3. A bound on the consumer's steps inside one `Next` call -/

/-- Potential function: an upper bound on the number of steps the consumer can still take
inside the current `Next` call, whatever the other threads do.  With an item pending it depends
on the program counter only (`select` → at most 3: closed case, `Len`, `next`); on an empty queue
every token in flight (`tokN`) can cost one futile round `select → q.next() → select`. -/
def stepsBound (c : Cfg Item) : Nat :=
  match c.cons with
  | .idle => 0
  | .done _ => 0
  | .c3 => 2
  | .c1 => if c.q.queue = [] then 2 * tokN c + 4 else 1
  | .c2 => if c.q.queue = [] then 2 * tokN c + 3 else 3

theorem stepsBound_select_pending (c : Cfg Item) (hc : c.cons = .c2) (hq : c.q.queue ≠ []) :
    stepsBound c = 3 := by
  simp [stepsBound, hc, hq]

theorem stepsBound_select_empty (c : Cfg Item) (hc : c.cons = .c2) (hq : c.q.queue = []) :
    stepsBound c = 2 * tokN c + 3 := by
  simp [stepsBound, hc, hq]

/-- the call has returned (or not started) exactly when the bound is 0 -/
theorem stepsBound_eq_zero (c : Cfg Item) :
    stepsBound c = 0 ↔ (c.cons = .idle ∨ ∃ r, c.cons = .done r) := by
  unfold stepsBound
  cases hcc : c.cons with
  | idle => simp
  | done r => simp
  | c3 => simp
  | c1 => simp only []; split <;> simp <;> omega
  | c2 => simp only []; split <;> simp <;> omega

theorem stepsBound_select_ge (c : Cfg Item) (hc : c.cons = .c2) : 3 ≤ stepsBound c := by
  unfold stepsBound
  rw [hc]
  simp only []
  split <;> omega

/-- no step of another thread increases the bound -/
theorem Frame.bound {c c' : Cfg Item} (h : Frame c c') : stepsBound c' ≤ stepsBound c := by
  obtain ⟨t, e⟩ := h.queue
  unfold stepsBound
  rw [h.cons]
  cases c.cons with
  | idle => exact Nat.le_refl _
  | done r => exact Nat.le_refl _
  | c3 => exact Nat.le_refl _
  | c1 =>
    simp only []
    by_cases h' : c'.q.queue = []
    · have hb := h.budget h'
      have h0 : c.q.queue = [] := by rw [e] at h'; exact (List.append_eq_nil_iff.1 h').1
      rw [if_pos h', if_pos h0]; omega
    · rw [if_neg h']; split <;> omega
  | c2 =>
    simp only []
    by_cases h' : c'.q.queue = []
    · have hb := h.budget h'
      have h0 : c.q.queue = [] := by rw [e] at h'; exact (List.append_eq_nil_iff.1 h').1
      rw [if_pos h', if_pos h0]; omega
    · rw [if_neg h']; split <;> omega

/-- `C1` on an empty queue: miss, go to the `select` -/
theorem nextCfg_empty (c : Cfg Item) (hq : c.q.queue = []) : nextCfg c = { c with cons := .c2 } := by
  unfold nextCfg
  rw [nextLocked_empty c.q hq]

/-- `C1` with `i` at the head: deliver `i` -/
theorem nextCfg_head (c : Cfg Item) (i : Item) (rest : List Item) (hq : c.q.queue = i :: rest) :
    (nextCfg c).cons = .idle ∧ (nextCfg c).delivered = c.delivered ++ [(i, cnt c.q i)] ∧
    (nextCfg c).q.queue = rest ∧ (nextCfg c).cancelled = c.cancelled := by
  unfold nextCfg nextLocked
  rw [hq]
  cases rest with
  | nil => simp
  | cons a t => simp

/-- every consumer step inside a `Next` call decreases the bound -/
theorem cons_step_bound {c c' : Cfg Item} {l : Label Item} (hs : Step c l c')
    (hl : isCons l = true) (hcall : isCall l = false) : stepsBound c' < stepsBound c := by
  cases hs with
  | pRefused _ _ => simp [isCons] at hl
  | pCheck _ _ => simp [isCons] at hl
  | pInsert _ _ => simp [isCons] at hl
  | pPost _ => simp [isCons] at hl
  | cCall _ _ => simp [isCall] at hcall
  | cNext hc =>
    cases hq : c.q.queue with
    | nil =>
      rw [nextCfg_empty c hq]
      simp [stepsBound, hc, hq, tokN]
    | cons i rest =>
      have h := nextCfg_head c i rest hq
      simp [stepsBound, hc, hq, h.1]
  | cSelCtx hc _ =>
    have := stepsBound_select_ge c hc
    show 0 < stepsBound c; omega
  | cSelToken hc ht =>
    cases hq : c.q.queue with
    | nil => simp [stepsBound, hc, hq, tokN, ht]; omega
    | cons i rest => simp [stepsBound, hc, hq]
  | cSelClosed hc _ =>
    have := stepsBound_select_ge c hc
    show 2 < stepsBound c; omega
  | cLen hc =>
    unfold lenCfg
    by_cases hlen : len c.q = 0
    · rw [if_pos hlen]; simp [stepsBound, hc]
    · rw [if_neg hlen]
      have hq : c.q.queue ≠ [] := fun h => hlen (by unfold len; rw [h]; rfl)
      simp [stepsBound, hc, hq]
  | close => simp [isCons] at hl
  | cancel => simp [isCons] at hl

/-- **`consumer_steps_bounded`**: along every run in which the consumer does not *start a new*
`Next` call (no `cCall` label; inside a call `cCall` is not enabled anyway), the number of
consumer steps plus what is left of the bound at the end is at most the bound at the start —
whatever the other threads do in between, and for any configuration (reachable or not). -/
theorem consumer_steps_bounded {c c' : Cfg Item} {ls : List (Label Item)} (hr : Run c ls c')
    (hcall : ∀ l ∈ ls, isCall l = false) : consCount ls + stepsBound c' ≤ stepsBound c := by
  induction hr with
  | nil c => simp [consCount]
  | @cons c c1 c' l ls hs _ ih =>
    have ih' := ih (fun l hl => hcall l (List.mem_cons_of_mem _ hl))
    have hl0 := hcall l (List.mem_cons_self ..)
    cases hl : isCons l with
    | false =>
      have := (env_step_frame hs hl).bound
      have hcnt : consCount (l :: ls) = consCount ls := by simp [consCount, hl]
      rw [hcnt]; omega
    | true =>
      have := cons_step_bound hs hl hl0
      have hcnt : consCount (l :: ls) = consCount ls + 1 := by simp [consCount, hl]
      rw [hcnt]; omega

/-! ## 4. What the call ends with when an item is pending -/

/-- What a run has made of a `Next` call that was at its `select` in `c` with `i` at the head of
the queue: it is still inside the call (nothing delivered yet, `i` still the head), or it has
returned `i` (with some duplicate count `d`; `C11.delivery_exact` says which), or it has
returned the error of its cancelled context. -/
def Progress (c : Cfg Item) (i : Item) (c' : Cfg Item) : Prop :=
  ((c'.cons = .c1 ∨ c'.cons = .c2 ∨ c'.cons = .c3) ∧ c'.delivered = c.delivered ∧
    ∃ rest', c'.q.queue = i :: rest') ∨
  (c'.cons = .idle ∧ ∃ d, c'.delivered = c.delivered ++ [(i, d)]) ∨
  (c'.cons = .done .cancelled ∧ c'.cancelled = true ∧ c'.delivered = c.delivered)

/-- the consumer steps other than the call itself are taken inside a call -/
theorem cons_step_in_call {c c' : Cfg Item} {l : Label Item} (hs : Step c l c')
    (hl : isCons l = true) (hcall : isCall l = false) :
    c.cons = .c1 ∨ c.cons = .c2 ∨ c.cons = .c3 := by
  cases hs with
  | pRefused _ _ => simp [isCons] at hl
  | pCheck _ _ => simp [isCons] at hl
  | pInsert _ _ => simp [isCons] at hl
  | pPost _ => simp [isCons] at hl
  | cCall _ _ => simp [isCall] at hcall
  | cNext h => exact Or.inl h
  | cSelCtx h _ => exact Or.inr (Or.inl h)
  | cSelToken h _ => exact Or.inr (Or.inl h)
  | cSelClosed h _ => exact Or.inr (Or.inl h)
  | cLen h => exact Or.inr (Or.inr h)
  | close => simp [isCons] at hl
  | cancel => simp [isCons] at hl

theorem progress_step {c c0 c1 : Cfg Item} {i : Item} {l : Label Item} (hp : Progress c i c0)
    (hs : Step c0 l c1) (hcall : isCall l = false) : Progress c i c1 := by
  cases hl : isCons l with
  | false =>
    have f := env_step_frame hs hl
    rcases hp with ⟨hpc, hd, rest', hq⟩ | ⟨hpc, d, hd⟩ | ⟨hpc, hx, hd⟩
    · exact Or.inl ⟨by rw [f.cons]; exact hpc, f.delivered.trans hd, f.head hq⟩
    · exact Or.inr (Or.inl ⟨f.cons.trans hpc, d, f.delivered.trans hd⟩)
    · exact Or.inr (Or.inr ⟨f.cons.trans hpc, f.cancelled hx, f.delivered.trans hd⟩)
  | true =>
    have hin := cons_step_in_call hs hl hcall
    rcases hp with ⟨_, hd, rest', hq⟩ | ⟨hpc, _, _⟩ | ⟨hpc, _, _⟩
    · cases hs with
      | pRefused _ _ => simp [isCons] at hl
      | pCheck _ _ => simp [isCons] at hl
      | pInsert _ _ => simp [isCons] at hl
      | pPost _ => simp [isCons] at hl
      | cCall _ _ => simp [isCall] at hcall
      | cNext _ =>
        have h := nextCfg_head c0 i rest' hq
        exact Or.inr (Or.inl ⟨h.1, cnt c0.q i, by rw [h.2.1, hd]⟩)
      | cSelCtx _ hx => exact Or.inr (Or.inr ⟨rfl, hx, hd⟩)
      | cSelToken _ _ => exact Or.inl ⟨Or.inl rfl, hd, rest', hq⟩
      | cSelClosed _ _ => exact Or.inl ⟨Or.inr (Or.inr rfl), hd, rest', hq⟩
      | cLen _ =>
        have hlen : len c0.q ≠ 0 := by unfold len; rw [hq]; simp
        unfold lenCfg
        rw [if_neg hlen]
        exact Or.inl ⟨Or.inl rfl, hd, rest', hq⟩
      | close => simp [isCons] at hl
      | cancel => simp [isCons] at hl
    · rw [hpc] at hin; simp at hin
    · rw [hpc] at hin; simp at hin

theorem progress_run {c c0 c' : Cfg Item} {i : Item} {ls : List (Label Item)}
    (hp : Progress c i c0) (hr : Run c0 ls c') (hcall : ∀ l ∈ ls, isCall l = false) :
    Progress c i c' := by
  induction hr with
  | nil _ => exact hp
  | cons hs _ ih =>
    exact ih (progress_step hp hs (hcall _ (List.mem_cons_self ..)))
      (fun l hl => hcall l (List.mem_cons_of_mem _ hl))

/-- **`wakeup_outcome`**: a `Next` call that is at its `select` while `i` is the head of the
queue can only end by delivering `i` or by the error of a cancelled context, whatever the
schedule; until then nothing is delivered and `i` stays the head. -/
theorem wakeup_outcome (c c' : Cfg Item) (ls : List (Label Item)) (i : Item) (rest : List Item)
    (hc : c.cons = .c2) (hq : c.q.queue = i :: rest) (hr : Run c ls c')
    (hcall : ∀ l ∈ ls, isCall l = false) : Progress c i c' :=
  progress_run (Or.inl ⟨Or.inr (Or.inl hc), rfl, rest, hq⟩) hr hcall

/-- a run with a consumer step, cut at the first one -/
theorem first_consumer_step {c c' : Cfg Item} {ls : List (Label Item)} (hr : Run c ls c')
    (h1 : 1 ≤ consCount ls) :
    ∃ pre l post m m', ls = pre ++ l :: post ∧ (∀ x ∈ pre, isCons x = false) ∧ isCons l = true ∧
      Run c pre m ∧ Step m l m' ∧ Run m' post c' := by
  induction hr with
  | nil c => simp [consCount] at h1
  | @cons c c1 c' l ls hs hr ih =>
    cases hl : isCons l with
    | true => exact ⟨[], l, ls, c, c1, rfl, by simp, hl, Run.nil c, hs, hr⟩
    | false =>
      have hcnt : consCount (l :: ls) = consCount ls := by simp [consCount, hl]
      obtain ⟨pre, l', post, m, m', e, h2, h3, h4, h5, h6⟩ := ih (by rw [hcnt] at h1; exact h1)
      refine ⟨l :: pre, l', post, m, m', by rw [e]; rfl, ?_, h3, Run.cons hs h4, h5, h6⟩
      intro x hx
      rcases List.mem_cons.1 hx with rfl | hx
      · exact hl
      · exact h2 x hx

/-- **`first_consumer_step_progress`**: in every run from a configuration with the consumer at
its `select`, in which the consumer takes a step at all, the first consumer step is taken at the
`select` (the consumer was there all the time) and leaves it: `Next` returns the context's
error, or re-runs `q.next()`, or goes to the `q.Len()` test. -/
theorem first_consumer_step_progress (c c' : Cfg Item) (ls : List (Label Item)) (hc : c.cons = .c2)
    (hr : Run c ls c') (h1 : 1 ≤ consCount ls) :
    ∃ pre l post m m', ls = pre ++ l :: post ∧ (∀ x ∈ pre, isCons x = false) ∧
      Run c pre m ∧ Step m l m' ∧ Run m' post c' ∧ m.cons = .c2 ∧
      ((l = .cSelCtx ∧ m.cancelled = true ∧ m'.cons = .done .cancelled) ∨
       (l = .cSelToken ∧ m.q.token = true ∧ m'.cons = .c1) ∨
       (l = .cSelClosed ∧ m.q.closed = true ∧ m'.cons = .c3)) := by
  obtain ⟨pre, l, post, m, m', e, h2, h3, h4, h5, h6⟩ := first_consumer_step hr h1
  have hm : m.cons = .c2 := (env_run_frame h4 h2).cons.trans hc
  refine ⟨pre, l, post, m, m', e, h2, h4, h5, h6, hm, ?_⟩
  rcases select_step_progress m m' l hm h3 h5 with ⟨e, h, rfl⟩ | ⟨e, h, rfl⟩ | ⟨e, h, rfl⟩
  · exact Or.inl ⟨e, h, rfl⟩
  · exact Or.inr (Or.inl ⟨e, h, rfl⟩)
  · exact Or.inr (Or.inr ⟨e, h, rfl⟩)

/-! ## 5. Leads-to -/

/-- **`wakeup_leads_to`** (pending item ⇒ delivery; the finite-run content of the leads-to
under weak fairness).  Let `c` be reachable with the consumer at its `select` and `i` at the head
of the queue.  For **every** run `ls` from `c` in which the consumer does not start another call:

* (a) at every configuration `m` of the run before the consumer's first step the consumer is
  still at the `select` and either a consumer step is enabled at `m`, or `P3` of an already
  running producer is enabled at `m` and enables the token case (`select_not_always_enabled`:
  the second alternative cannot be dropped).  By `ready_arm_persists_run` the first alternative,
  once true, stays true until the consumer moves; by `wake_or_post_run` it is true after the
  first `P3`.  So under weak fairness of the posting producer and of the consumer, the consumer
  moves;
* (b) the consumer takes **at most 3 steps** in the whole run, whatever the others do in between
  (`select`; `Len` if the closed case was taken; `next`);
* (c) the call can only end by delivering `i` or, if the context is cancelled, by its error
  (`Progress`);
* (d) as soon as the consumer has taken a step it is not at the `select` again: it never blocks
  a second time without having returned;
* (e) after its third step it has returned. -/
theorem wakeup_leads_to (c c' : Cfg Item) (ls : List (Label Item)) (i : Item) (rest : List Item)
    (h : Reach c) (hc : c.cons = .c2) (hq : c.q.queue = i :: rest) (hr : Run c ls c')
    (hcall : ∀ l ∈ ls, isCall l = false) :
    (∀ pre post m, ls = pre ++ post → (∀ l ∈ pre, isCons l = false) → Run c pre m →
      m.cons = .c2 ∧ (ConsEnabled m ∨ ∃ m1 m2, Step m .pPost m1 ∧ Step m1 .cSelToken m2)) ∧
    consCount ls + stepsBound c' ≤ 3 ∧
    Progress c i c' ∧
    (1 ≤ consCount ls → c'.cons ≠ .c2) ∧
    (consCount ls = 3 →
      (c'.cons = .idle ∧ ∃ d, c'.delivered = c.delivered ++ [(i, d)]) ∨
      (c'.cons = .done .cancelled ∧ c'.cancelled = true ∧ c'.delivered = c.delivered)) := by
  have hb := consumer_steps_bounded hr hcall
  rw [stepsBound_select_pending c hc (by rw [hq]; exact List.cons_ne_nil _ _)] at hb
  have hp := wakeup_outcome c c' ls i rest hc hq hr hcall
  refine ⟨?_, hb, hp, ?_, ?_⟩
  · intro pre post m _ henv hrm
    obtain ⟨h1, _, _, h4, _⟩ := wake_or_post_run c m pre i rest h hc hq hrm henv
    refine ⟨h1, ?_⟩
    rcases h4 with ⟨a, c2, ha, hs⟩ | ⟨_, c2, c3, hs1, hs2⟩
    · exact Or.inl ⟨armLabel a, c2, by cases a <;> rfl, hs⟩
    · exact Or.inr ⟨c2, c3, hs1, hs2⟩
  · intro h1 h2
    have := stepsBound_select_ge c' h2
    omega
  · intro h3
    have h0 : stepsBound c' = 0 := by omega
    rcases hp with ⟨hpc, _, _⟩ | hp | hp
    · rcases (stepsBound_eq_zero c').1 h0 with h' | ⟨r, h'⟩ <;> rw [h'] at hpc <;> simp at hpc
    · exact Or.inl hp
    · exact Or.inr hp

/-- **`ready_leads_to`** (ready case ⇒ the consumer moves; for `Close` and cancellation as well as
for a posted token).  Let the consumer be at its `select` with case `a` ready.  For every run
from there without a new call: (a) at every configuration before the consumer's first step the
consumer is at the `select`, `a` is ready and the consumer step `armLabel a` is enabled
(continuously enabled: under weak fairness of the consumer alone it moves); (b) the number of
consumer steps in the run is bounded by `stepsBound c ≤ 2 * tokN c + 3` (exactly `3` when an item
is pending; `stale_rounds_unbounded` shows that on an empty queue no constant works: every token
still in flight can cost the consumer one futile round). -/
theorem ready_leads_to (c c' : Cfg Item) (ls : List (Label Item)) (a : Arm) (hc : c.cons = .c2)
    (ha : a ∈ readyArms c) (hr : Run c ls c') (hcall : ∀ l ∈ ls, isCall l = false) :
    (∀ pre post m, ls = pre ++ post → (∀ l ∈ pre, isCons l = false) → Run c pre m →
      m.cons = .c2 ∧ a ∈ readyArms m ∧ ∃ m', Step m (armLabel a) m') ∧
    consCount ls + stepsBound c' ≤ stepsBound c ∧ stepsBound c ≤ 2 * tokN c + 3 := by
  refine ⟨?_, consumer_steps_bounded hr hcall, ?_⟩
  · intro pre post m _ henv hrm
    obtain ⟨h1, h2, h3, _⟩ := no_lost_wakeup_run c m pre a hc ha hrm henv
    exact ⟨h1, h2, h3⟩
  · unfold stepsBound
    rw [hc]
    simp only []
    split <;> omega

/-- **`closed_leads_to_return`**: on a closed queue, a consumer at the `select`: after any
steps of the others (`e1`) the closed case is enabled; taking it and then, after any further
steps of the others (`e2`), the `Len` test (always enabled at `C3`) ends the call with `closed`
if the queue is empty at that moment, and otherwise goes on to `q.next()` to deliver an item that
a late producer (one that passed the closed check before `Close`) inserted in between. -/
theorem closed_leads_to_return (c m1 : Cfg Item) (e1 : List (Label Item))
    (hc : c.cons = .c2) (hx : c.q.closed = true)
    (hr1 : Run c e1 m1) (henv1 : ∀ l ∈ e1, isCons l = false) :
    ∃ m2, Step m1 .cSelClosed m2 ∧ ∀ e2 m3, Run m2 e2 m3 → (∀ l ∈ e2, isCons l = false) →
      m3.cons = .c3 ∧ ∃ m4, Step m3 .cLen m4 ∧
        ((m3.q.queue = [] ∧ m4.cons = .done .closed) ∨ (m3.q.queue ≠ [] ∧ m4.cons = .c1)) := by
  have hf := env_run_frame hr1 henv1
  refine ⟨_, Step.cSelClosed m1 (hf.cons.trans hc) (hf.closed hx), ?_⟩
  intro e2 m3 hr2 henv2
  have hm3 : m3.cons = .c3 := (env_run_frame hr2 henv2).cons
  refine ⟨hm3, lenCfg m3, Step.cLen m3 hm3, ?_⟩
  unfold lenCfg
  by_cases hq : m3.q.queue = []
  · have : len m3.q = 0 := by unfold len; rw [hq]; rfl
    rw [if_pos this]; exact Or.inl ⟨hq, rfl⟩
  · have : len m3.q ≠ 0 := fun h => hq (List.eq_nil_of_length_eq_zero h)
    rw [if_neg this]; exact Or.inr ⟨hq, rfl⟩

/-! ## 6. What is *not* true (the analysis of the model) -/

/-- the naive clause (a): "with an item pending and the consumer at the `select`, a consumer
step is enabled at every configuration until the consumer moves" -/
def SelectAlwaysEnabled : Prop :=
  ∀ (c c1 : Cfg Nat) (ls : List (Label Nat)), Reach c → c.cons = .c2 → c.q.queue ≠ [] →
    Run c ls c1 → (∀ l ∈ ls, isCons l = false) → ConsEnabled c1

/-- the lost-wake-up window of `C11.lean`: consumer at the `select`, item `7` pending, the
producer between its locked insert and its token post -/
def windowCfg : Cfg Nat :=
  { q := { queue := [7], coalesced := [(7, 0)] }, cons := .c2, atP3 := 1, insLog := [7],
    freshLog := [7] }

theorem windowCfg_reach : Reach windowCfg := by
  have h : fireAll (Cfg.init : Cfg Nat) [.cCall true, .cNext, .pCheck 7, .pInsert 7] =
      some windowCfg := by decide
  exact fireAll_reach _ Reach.init h

/-- **`select_not_always_enabled`**: the naive clause is false of the model (and of the code:
`Insert` posts the token after it has released the lock): in the window no `select` case is
ready although an item is pending.  What holds instead is `wake_or_post_run`: `P3` is enabled
there and enables the token case. -/
theorem select_not_always_enabled : ¬ SelectAlwaysEnabled := by
  intro h
  have := h windowCfg windowCfg [] windowCfg_reach rfl (by decide) (Run.nil _) (by simp)
  exact (consEnabled_select_iff windowCfg rfl).1 this (by decide)

/-- futile rounds: `n` producers post their token one after the other, and each time the
consumer takes the token case and re-runs `q.next()` on the empty queue -/
def staleRounds : Nat → List (Label Nat)
  | 0 => []
  | n + 1 => .pPost :: .cSelToken :: .cNext :: staleRounds n

/-- `n` items (all `0`) were inserted and delivered one by one, none of the `n` producers has
posted its token yet; nobody is inside `Next` -/
def staleIdle (n : Nat) : Cfg Nat :=
  { atP3 := n, insLog := List.replicate n 0, freshLog := List.replicate n 0,
    delivered := List.replicate n (0, 0) }

/-- … then the queue was closed and the consumer called `Next`: it is at the `select` of a
closed, empty queue; `k` tokens are still to be posted, `m` inserts have returned -/
def staleSel (n k m : Nat) : Cfg Nat :=
  { q := { closed := true }, atP3 := k, cons := .c2, insLog := List.replicate n 0,
    freshLog := List.replicate n 0, delivered := List.replicate n (0, 0), completed := m,
    insLogAtClose := List.replicate n 0 }

theorem staleIdle_reach (n : Nat) : Reach (staleIdle n) := by
  induction n with
  | zero => exact Reach.init
  | succ n ih =>
    have h : fireAll (staleIdle n) [.pCheck 0, .pInsert 0, .cCall true, .cNext] =
        some (staleIdle (n + 1)) := by
      simp [fireAll, fire, staleIdle, insertCfg, insertLocked, CMap.lookup, CMap.set, nextCfg,
        nextLocked, cnt, List.replicate_succ']
    exact fireAll_reach _ ih h

theorem staleSel_reach (n : Nat) : Reach (staleSel n n 0) := by
  have h : fireAll (staleIdle n) [.close, .cCall true, .cNext] = some (staleSel n n 0) := by
    simp [fireAll, fire, staleIdle, staleSel, closeCfg, Coalesce.close, nextCfg, nextLocked]
  exact fireAll_reach _ (staleIdle_reach n) h

theorem staleRounds_run (n k m : Nat) :
    Run (staleSel n k m) (staleRounds k) (staleSel n 0 (m + k)) := by
  induction k generalizing m with
  | zero => exact Run.nil _
  | succ k ih =>
    have h : fireAll (staleSel n (k + 1) m) [.pPost, .cSelToken, .cNext] =
        some (staleSel n k (m + 1)) := by
      simp [fireAll, fire, staleSel, postToken, nextCfg, nextLocked]
    have h1 := (run_iff_fireAll _ _ _).2 h
    have h2 := ih (m + 1)
    have e : m + 1 + k = m + (k + 1) := by omega
    rw [e] at h2
    exact run_append h1 h2

theorem staleRounds_count (k : Nat) :
    consCount (staleRounds k) = 2 * k ∧ ∀ l ∈ staleRounds k, isCall l = false := by
  induction k with
  | zero => simp [staleRounds, consCount]
  | succ k ih =>
    obtain ⟨h1, h2⟩ := ih
    refine ⟨?_, ?_⟩
    · simp only [staleRounds, consCount_cons, isCons, h1]; simp; omega
    · intro l hl
      simp only [staleRounds, List.mem_cons] at hl
      rcases hl with rfl | rfl | rfl | hl
      · rfl
      · rfl
      · rfl
      · exact h2 l hl

/-- **`stale_rounds_unbounded`**: on an *empty* queue there is no constant bound on the
consumer's steps between the `select` and the return, even when the queue is closed (the closed
case ready all the time): for every `n` there is a reachable configuration with the consumer at
the `select` of a closed empty queue and a run without a new call in which the consumer takes
`2 * n` steps and is back at the `select`.  (Go's `select` may prefer the token case every time;
each token posted for an item that was delivered before the post costs one futile round.)  The
exact bound is `stepsBound = 2 * tokN + 3` (`consumer_steps_bounded`); here `tokN = n`. -/
theorem stale_rounds_unbounded (n : Nat) :
    ∃ (c c' : Cfg Nat) (ls : List (Label Nat)), Reach c ∧ c.cons = .c2 ∧ c.q.closed = true ∧
      c.q.queue = [] ∧ tokN c = n ∧ Run c ls c' ∧ (∀ l ∈ ls, isCall l = false) ∧
      consCount ls = 2 * n ∧ c'.cons = .c2 := by
  refine ⟨staleSel n n 0, staleSel n 0 (0 + n), staleRounds n, staleSel_reach n, rfl, rfl, rfl,
    by simp [tokN, staleSel], staleRounds_run n n 0, (staleRounds_count n).2,
    (staleRounds_count n).1, rfl⟩

/-! ## 7. Non-vacuity -/

/-- `wakeup_leads_to` applies to the lost-wake-up window, and both of its bounds are attained:
the producer posts, the consumer takes the token and delivers `7` (2 consumer steps); or the
queue is closed and the consumer goes through the closed case, `Len` and `next` (3 steps). -/
example : Reach windowCfg ∧ windowCfg.cons = .c2 ∧ windowCfg.q.queue = [7] ∧
    (∃ c', Run windowCfg [.pPost, .cSelToken, .cNext] c' ∧ c'.cons = .idle ∧
      c'.delivered = [(7, 0)]) ∧
    (∃ c', Run windowCfg [.close, .cSelClosed, .cLen, .pPost, .cNext] c' ∧
      c'.cons = .idle ∧ c'.delivered = [(7, 0)] ∧
      consCount ([.close, .cSelClosed, .cLen, .pPost, .cNext] : List (Label Nat)) = 3) ∧
    (∃ c', Run windowCfg [.cancel, .cSelCtx] c' ∧ c'.cons = .done .cancelled) := by
  have h1 : fireAll windowCfg [.pPost, .cSelToken, .cNext] = some
      { cons := .idle, insLog := [7], freshLog := [7], delivered := [(7, 0)], completed := 1 } := by
    decide
  have h2 : fireAll windowCfg [.cancel, .cSelCtx] = some
      { q := { queue := [7], coalesced := [(7, 0)] }, cancelled := true, cons := .done .cancelled,
        atP3 := 1, insLog := [7], freshLog := [7] } := by decide
  refine ⟨windowCfg_reach, rfl, rfl, ⟨_, (run_iff_fireAll _ _ _).2 h1, rfl, rfl⟩, ?_,
    ⟨_, (run_iff_fireAll _ _ _).2 h2, rfl⟩⟩
  have h : fireAll windowCfg [.close, .cSelClosed, .cLen, .pPost, .cNext] = some
      { q := { token := true, closed := true }, cons := .idle, insLog := [7], freshLog := [7],
        delivered := [(7, 0)], completed := 1, insLogAtClose := [7] } := by decide
  exact ⟨_, (run_iff_fireAll _ _ _).2 h, rfl, rfl, by decide⟩

/-- `ready_arm_persists_run` / `no_lost_wakeup_run` are not vacuous: token posted while the
consumer is at the `select`, then other threads insert, close and cancel; the token case is still
ready (and so are, now, the two others). -/
example : ∃ c c1 : Cfg Nat, Reach c ∧ c.cons = .c2 ∧ Arm.token ∈ readyArms c ∧
    Run c [.pCheck 1, .pInsert 1, .pCheck 7, .close, .pInsert 7, .cancel, .pPost] c1 ∧
    readyArms c1 = [.ctx, .token, .closed] := by
  have h0 : fireAll windowCfg [.pPost] = some
      { q := { queue := [7], coalesced := [(7, 0)], token := true }, cons := .c2, insLog := [7],
        freshLog := [7], completed := 1 } := by decide
  refine ⟨_, _, fireAll_reach _ windowCfg_reach h0, rfl, by decide,
    (run_iff_fireAll _ _ _).2 (by decide : _ = some
      { q := { queue := [7, 1], coalesced := [(7, 1), (1, 0)], token := true, closed := true },
        cancelled := true, cons := .c2, insLog := [7, 1, 7], freshLog := [7, 1],
        completed := 3, insLogAtClose := [7, 1], completedAtClose := 1 }), by decide⟩

/-! ## 8. Leads-to on infinite weakly fair runs -/

/-- an infinite run of the LTS: the configurations `σ n` and the labels `lab n` between them -/
def InfRun (σ : Nat → Cfg Item) (lab : Nat → Label Item) : Prop :=
  ∀ n, Step (σ n) (lab n) (σ (n + 1))

/-- a step of the consumer *inside* `Next` is enabled (whether and when the consumer calls `Next`
is the caller's business: `cCall` is not subject to fairness) -/
def NextEnabled (c : Cfg Item) : Prop := ∃ l c', isCons l = true ∧ isCall l = false ∧ Step c l c'

/-- weak fairness of the consumer thread inside `Next`: if from some point on a step of the
consumer inside `Next` is enabled in every configuration, the consumer takes such a step at or
after that point -/
def WeakFairCons (σ : Nat → Cfg Item) (lab : Nat → Label Item) : Prop :=
  ∀ n, (∀ m, n ≤ m → NextEnabled (σ m)) →
    ∃ m, n ≤ m ∧ isCons (lab m) = true ∧ isCall (lab m) = false

/-- weak fairness of the token post `P3` of the producers: if from some point on some producer
stands between its locked insert and its post, a post is executed at or after that point
(a producer that has released the lock goes on to its non-blocking `select`) -/
def WeakFairPost (σ : Nat → Cfg Item) (lab : Nat → Label Item) : Prop :=
  ∀ n, (∀ m, n ≤ m → 0 < (σ m).atP3) → ∃ m, n ≤ m ∧ lab m = .pPost

/-- inside a `Next` call -/
def InCall (c : Cfg Item) : Prop := c.cons = .c1 ∨ c.cons = .c2 ∨ c.cons = .c3

/-- there is something for the consumer: an item is pending, or the queue is closed, or its
context is cancelled -/
def Woken (c : Cfg Item) : Prop := c.q.queue ≠ [] ∨ c.q.closed = true ∨ c.cancelled = true

theorem infrun_reach {σ : Nat → Cfg Item} {lab : Nat → Label Item} (hrun : InfRun σ lab)
    (n : Nat) (h : Reach (σ n)) (k : Nat) : Reach (σ (n + k)) := by
  induction k with
  | zero => exact h
  | succ k ih => exact Reach.step ih (hrun (n + k))

theorem infrun_frame {σ : Nat → Cfg Item} {lab : Nat → Label Item} (hrun : InfRun σ lab)
    (n k : Nat) (henv : ∀ j, j < k → isCons (lab (n + j)) = false) : Frame (σ n) (σ (n + k)) := by
  induction k with
  | zero => exact Frame.refl _
  | succ k ih =>
    exact (ih (fun j hj => henv j (Nat.lt_succ_of_lt hj))).trans
      (env_step_frame (hrun (n + k)) (henv k (Nat.lt_succ_self k)))

/-- the segment `[n, n + k)` of an infinite run is a `Run` -/
theorem infrun_run {σ : Nat → Cfg Item} {lab : Nat → Label Item} (hrun : InfRun σ lab)
    (n k : Nat) : Run (σ n) ((List.range k).map (fun j => lab (n + j))) (σ (n + k)) := by
  induction k with
  | zero => exact Run.nil _
  | succ k ih =>
    rw [List.range_succ, List.map_append]
    exact run_append ih (Run.cons (hrun (n + k)) (Run.nil _))

/-- being woken is stable inside the call -/
theorem woken_step {c c' : Cfg Item} {l : Label Item} (hi : InCall c) (hw : Woken c)
    (hs : Step c l c') (hi' : InCall c') : Woken c' := by
  cases hs with
  | pRefused _ _ => exact hw
  | pCheck _ _ => exact hw
  | pInsert i _ =>
    obtain ⟨_, h2, _, _, h5, h6⟩ := insertCfg_frame c i
    rcases hw with hw | hw | hw
    · rcases h6 with ⟨hq, _⟩ | ⟨hq, _⟩
      · exact Or.inl (by rw [hq]; exact hw)
      · exact Or.inl (by rw [hq]; simp)
    · exact Or.inr (Or.inl (h5.trans hw))
    · exact Or.inr (Or.inr (h2.trans hw))
  | pPost _ => exact hw
  | cCall _ h =>
    rcases h with h | ⟨r, h⟩ <;> rcases hi with hi | hi | hi <;> rw [h] at hi <;> cases hi
  | cNext _ =>
    cases hq : c.q.queue with
    | nil => rw [nextCfg_empty c hq]; exact hw
    | cons i rest =>
      have h := (nextCfg_head c i rest hq).1
      rcases hi' with hi' | hi' | hi' <;> rw [h] at hi' <;> cases hi'
  | cSelCtx _ _ => rcases hi' with hi' | hi' | hi' <;> cases hi'
  | cSelToken _ _ => exact hw
  | cSelClosed _ _ => exact hw
  | cLen _ =>
    unfold lenCfg at hi' ⊢
    split
    · next h => rw [if_pos h] at hi'; rcases hi' with hi' | hi' | hi' <;> cases hi'
    · exact hw
  | close =>
    unfold closeCfg
    split
    · exact hw
    · exact Or.inr (Or.inl rfl)
  | cancel => exact Or.inr (Or.inr rfl)

theorem post_token {c c' : Cfg Item} (hs : Step c .pPost c') : c'.q.token = true := by
  cases hs with
  | pPost _ => rfl

theorem inCall_consEnabled_c1 (c : Cfg Item) (h : c.cons = .c1) : NextEnabled c :=
  ⟨.cNext, _, rfl, rfl, Step.cNext c h⟩

theorem inCall_consEnabled_c3 (c : Cfg Item) (h : c.cons = .c3) : NextEnabled c :=
  ⟨.cLen, _, rfl, rfl, Step.cLen c h⟩

/-- **`fair_consumer_moves`**: on a weakly fair infinite run, a consumer that is inside `Next`
and has something to be woken for (item pending / closed / cancelled) takes a step.  (At `C1`
and `C3` its step is always enabled; at the `select` a ready case stays ready
(`ready_arm_persists`), and if none is ready an item is pending and the producer that inserted it
is about to post (`no_lost_wakeup`), stays so, and — by fairness — posts.) -/
theorem fair_consumer_moves {σ : Nat → Cfg Item} {lab : Nat → Label Item} (hrun : InfRun σ lab)
    (hfc : WeakFairCons σ lab) (hfp : WeakFairPost σ lab) (n : Nat) (hr : Reach (σ n))
    (hi : InCall (σ n)) (hw : Woken (σ n)) : ∃ m, n ≤ m ∧ isCons (lab m) = true := by
  apply Classical.byContradiction
  intro hno
  have hall : ∀ m, n ≤ m → isCons (lab m) = false := by
    intro m hm
    cases h : isCons (lab m) with
    | false => rfl
    | true => exact absurd ⟨m, hm, h⟩ hno
  have hfr : ∀ a k, n ≤ a → Frame (σ a) (σ (a + k)) := fun a k ha =>
    infrun_frame hrun a k (fun j _ => hall (a + j) (by omega))
  -- a consumer step enabled from some point on contradicts fairness
  have hfin : ∀ a, n ≤ a → (∀ m, a ≤ m → NextEnabled (σ m)) → False := by
    intro a ha hen
    obtain ⟨m, hm, hc, _⟩ := hfc a hen
    rw [hall m (by omega)] at hc; cases hc
  rcases hi with hi | hi | hi
  · apply hfin n (Nat.le_refl _)
    intro m hm
    obtain ⟨k, rfl⟩ := Nat.exists_eq_add_of_le hm
    exact inCall_consEnabled_c1 _ ((hfr n k (Nat.le_refl _)).cons.trans hi)
  · have hsel : ∀ k, (σ (n + k)).cons = .c2 := fun k => (hfr n k (Nat.le_refl _)).cons.trans hi
    -- some case becomes ready …
    have hex : ∃ k a, a ∈ readyArms (σ (n + k)) := by
      apply Classical.byContradiction
      intro hnr
      have hnil : ∀ k, readyArms (σ (n + k)) = [] := by
        intro k
        cases hrd : readyArms (σ (n + k)) with
        | nil => rfl
        | cons a t => exact absurd ⟨k, a, by rw [hrd]; exact List.mem_cons_self ..⟩ hnr
      have hq : (σ n).q.queue ≠ [] := by
        have h0 := (ready_nil _ _).1 (hnil 0)
        rcases hw with hw | hw | hw
        · exact hw
        · have := h0.2.2; rw [Nat.add_zero] at this; rw [this] at hw; cases hw
        · have := h0.1; rw [Nat.add_zero] at this; rw [this] at hw; cases hw
      have hpost : ∀ m, n ≤ m → 0 < (σ m).atP3 := by
        intro m hm
        obtain ⟨k, rfl⟩ := Nat.exists_eq_add_of_le hm
        obtain ⟨t, e⟩ := (hfr n k (Nat.le_refl _)).queue
        have hq' : (σ (n + k)).q.queue ≠ [] := by
          rw [e]; intro h; exact hq (List.append_eq_nil_iff.1 h).1
        have h0 := (ready_nil _ _).1 (hnil k)
        rcases C11.no_lost_wakeup _ (infrun_reach hrun n hr k) (hsel k) hq' with h | h | h
        · rw [h0.2.1] at h; cases h
        · rw [h0.2.2] at h; cases h
        · exact h
      obtain ⟨m, hm, hl⟩ := hfp n hpost
      obtain ⟨k, rfl⟩ := Nat.exists_eq_add_of_le hm
      have hs := hrun (n + k)
      rw [hl] at hs
      have ht : (σ (n + k + 1)).q.token = true := post_token hs
      have h1 := (ready_nil _ _).1 (hnil (k + 1))
      have e : n + (k + 1) = n + k + 1 := by omega
      rw [e, ht] at h1
      exact absurd h1.2.1 (by simp)
    -- … and stays ready: the consumer is enabled for ever
    obtain ⟨k, a, ha⟩ := hex
    apply hfin (n + k) (by omega)
    intro m hm
    obtain ⟨j, rfl⟩ := Nat.exists_eq_add_of_le hm
    have hf := hfr (n + k) j (by omega)
    obtain ⟨c', hs⟩ := ready_arm_enabled _ a (hf.cons.trans (hsel k)) (hf.ready ha)
    exact ⟨armLabel a, c', by cases a <;> rfl, by cases a <;> rfl, hs⟩
  · apply hfin n (Nat.le_refl _)
    intro m hm
    obtain ⟨k, rfl⟩ := Nat.exists_eq_add_of_le hm
    exact inCall_consEnabled_c3 _ ((hfr n k (Nat.le_refl _)).cons.trans hi)

theorem isCall_false_of_inCall {c c' : Cfg Item} {l : Label Item} (hs : Step c l c')
    (hi : InCall c) : isCall l = false := by
  cases hs with
  | cCall _ h =>
    rcases h with h | ⟨r, h⟩ <;> rcases hi with hi | hi | hi <;> rw [h] at hi <;> cases hi
  | _ => rfl

theorem inCall_of_frame {c c' : Cfg Item} (h : Frame c c') (hi : InCall c) : InCall c' := by
  unfold InCall; rw [h.cons]; exact hi

/-- the induction behind the fair leads-to theorems: `P` is any predicate preserved by the steps
taken while the consumer is inside the call -/
theorem fair_call_returns_aux {σ : Nat → Cfg Item} {lab : Nat → Label Item} (hrun : InfRun σ lab)
    (hfc : WeakFairCons σ lab) (hfp : WeakFairPost σ lab) (P : Cfg Item → Prop)
    (hP : ∀ c l c', P c → InCall c → Step c l c' → P c') :
    ∀ b n, stepsBound (σ n) ≤ b → Reach (σ n) → InCall (σ n) → Woken (σ n) → P (σ n) →
      ∃ m, n ≤ m ∧ (∀ j, n ≤ j → j < m → InCall (σ j)) ∧ ¬ InCall (σ m) ∧ P (σ m) := by
  intro b
  induction b with
  | zero =>
    intro n hb _ hi _ _
    have h0 := (stepsBound_eq_zero (σ n)).1 (Nat.le_zero.1 hb)
    exfalso
    rcases h0 with h | ⟨r, h⟩ <;> rcases hi with hi | hi | hi <;> rw [h] at hi <;> cases hi
  | succ b ih =>
    -- a consumer step inside the call: the bound decreases
    have step0 : ∀ n, stepsBound (σ n) ≤ b + 1 → Reach (σ n) → InCall (σ n) → Woken (σ n) →
        P (σ n) → isCons (lab n) = true →
        ∃ m, n ≤ m ∧ (∀ j, n ≤ j → j < m → InCall (σ j)) ∧ ¬ InCall (σ m) ∧ P (σ m) := by
      intro n hb hr hi hw hp hc
      have hs := hrun n
      have hcall := isCall_false_of_inCall hs hi
      have hlt := cons_step_bound hs hc hcall
      have hp' := hP _ _ _ hp hi hs
      by_cases hi' : InCall (σ (n + 1))
      · obtain ⟨m, hm, h1, h2, h3⟩ := ih (n + 1) (by omega) (Reach.step hr hs) hi'
          (woken_step hi hw hs hi') hp'
        refine ⟨m, by omega, ?_, h2, h3⟩
        intro j hj1 hj2
        by_cases hjn : j = n
        · subst hjn; exact hi
        · exact h1 j (by omega) hj2
      · refine ⟨n + 1, by omega, ?_, hi', hp'⟩
        intro j hj1 hj2
        have : j = n := by omega
        subst this; exact hi
    -- walk to the next consumer step
    have walk : ∀ d n, stepsBound (σ n) ≤ b + 1 → Reach (σ n) → InCall (σ n) → Woken (σ n) →
        P (σ n) → isCons (lab (n + d)) = true →
        ∃ m, n ≤ m ∧ (∀ j, n ≤ j → j < m → InCall (σ j)) ∧ ¬ InCall (σ m) ∧ P (σ m) := by
      intro d
      induction d with
      | zero => exact step0
      | succ d ihd =>
        intro n hb hr hi hw hp hc
        cases hl : isCons (lab n) with
        | true => exact step0 n hb hr hi hw hp hl
        | false =>
          have hs := hrun n
          have hf := env_step_frame hs hl
          have hi' := inCall_of_frame hf hi
          have e : n + 1 + d = n + (d + 1) := by omega
          obtain ⟨m, hm, h1, h2, h3⟩ := ihd (n + 1) (Nat.le_trans hf.bound hb) (Reach.step hr hs) hi'
            (woken_step hi hw hs hi') (hP _ _ _ hp hi hs) (by rw [e]; exact hc)
          refine ⟨m, by omega, ?_, h2, h3⟩
          intro j hj1 hj2
          by_cases hjn : j = n
          · subst hjn; exact hi
          · exact h1 j (by omega) hj2
    intro n hb hr hi hw hp
    obtain ⟨m, hm, hc⟩ := fair_consumer_moves hrun hfc hfp n hr hi hw
    obtain ⟨d, rfl⟩ := Nat.exists_eq_add_of_le hm
    exact walk d n hb hr hi hw hp hc

theorem not_inCall_iff (c : Cfg Item) : ¬ InCall c ↔ (c.cons = .idle ∨ ∃ r, c.cons = .done r) := by
  unfold InCall
  cases c.cons <;> simp

/-- the labels of the segment `[n, n + k)` of an infinite run -/
def segLabels (lab : Nat → Label Item) (n k : Nat) : List (Label Item) :=
  (List.range k).map (fun j => lab (n + j))

theorem seg_no_call {σ : Nat → Cfg Item} {lab : Nat → Label Item} (hrun : InfRun σ lab) (n k : Nat)
    (h : ∀ j, n ≤ j → j < n + k → InCall (σ j)) : ∀ l ∈ segLabels lab n k, isCall l = false := by
  intro l hl
  unfold segLabels at hl
  obtain ⟨j, hj, rfl⟩ := List.mem_map.1 hl
  have hj' : j < k := List.mem_range.1 hj
  exact isCall_false_of_inCall (hrun (n + j)) (h (n + j) (by omega) (by omega))

/-- **`fair_call_returns`** (leads-to, general form).  On every infinite run that is weakly fair
for the consumer and for the producers' token post: whenever (at position `n`, reachable) the
consumer is inside `Next` and an item is pending, or the queue is closed, or its context is
cancelled, the call **returns** at some later position `n + k` (the consumer being inside the
call all the time in between), and between `n` and `n + k` the consumer takes at most
`stepsBound (σ n)` steps. -/
theorem fair_call_returns {σ : Nat → Cfg Item} {lab : Nat → Label Item} (hrun : InfRun σ lab)
    (hfc : WeakFairCons σ lab) (hfp : WeakFairPost σ lab) (n : Nat) (hr : Reach (σ n))
    (hi : InCall (σ n)) (hw : Woken (σ n)) :
    ∃ k, (∀ j, n ≤ j → j < n + k → InCall (σ j)) ∧
      ((σ (n + k)).cons = .idle ∨ ∃ r, (σ (n + k)).cons = .done r) ∧
      Run (σ n) (segLabels lab n k) (σ (n + k)) ∧
      consCount (segLabels lab n k) ≤ stepsBound (σ n) := by
  obtain ⟨m, hm, h1, h2, _⟩ := fair_call_returns_aux hrun hfc hfp (fun _ => True)
    (fun _ _ _ _ _ _ => trivial) (stepsBound (σ n)) n (Nat.le_refl _) hr hi hw trivial
  obtain ⟨k, rfl⟩ := Nat.exists_eq_add_of_le hm
  have hrn := infrun_run hrun n k
  have hb := consumer_steps_bounded hrn (seg_no_call hrun n k h1)
  exact ⟨k, h1, (not_inCall_iff _).1 h2, hrn, Nat.le_trans (Nat.le_add_right _ _) hb⟩

/-- **`fair_wakeup`** (leads-to for a pending item: "an insert always wakes the consumer").  On
every infinite run that is weakly fair for the consumer and for the producers' token post:
whenever (at position `n`, reachable) the consumer sits at its `select` while `i` is the head of
the queue, then at some later position `n + k` the call has returned — **with the item `i`**, or
with the context's error if the context is cancelled — the consumer was inside the call all the
time in between and took **at most 3 steps**. -/
theorem fair_wakeup {σ : Nat → Cfg Item} {lab : Nat → Label Item} (hrun : InfRun σ lab)
    (hfc : WeakFairCons σ lab) (hfp : WeakFairPost σ lab) (n : Nat) (hr : Reach (σ n))
    (i : Item) (rest : List Item) (hc : (σ n).cons = .c2) (hq : (σ n).q.queue = i :: rest) :
    ∃ k, (∀ j, n ≤ j → j < n + k → InCall (σ j)) ∧
      (((σ (n + k)).cons = .idle ∧ ∃ d, (σ (n + k)).delivered = (σ n).delivered ++ [(i, d)]) ∨
       ((σ (n + k)).cons = .done .cancelled ∧ (σ (n + k)).cancelled = true ∧
         (σ (n + k)).delivered = (σ n).delivered)) ∧
      consCount (segLabels lab n k) ≤ 3 := by
  have hne : (σ n).q.queue ≠ [] := by rw [hq]; exact List.cons_ne_nil _ _
  obtain ⟨m, hm, h1, h2, h3⟩ := fair_call_returns_aux hrun hfc hfp (Progress (σ n) i)
    (fun c l c' hp hin hs => progress_step hp hs (isCall_false_of_inCall hs hin))
    (stepsBound (σ n)) n (Nat.le_refl _) hr (Or.inr (Or.inl hc)) (Or.inl hne)
    (Or.inl ⟨Or.inr (Or.inl hc), rfl, rest, hq⟩)
  obtain ⟨k, rfl⟩ := Nat.exists_eq_add_of_le hm
  have hb := consumer_steps_bounded (infrun_run hrun n k) (seg_no_call hrun n k h1)
  rw [stepsBound_select_pending _ hc hne] at hb
  refine ⟨k, h1, ?_, Nat.le_trans (Nat.le_add_right _ _) hb⟩
  rcases h3 with ⟨hpc, _, _⟩ | h3 | h3
  · exact absurd hpc h2
  · exact Or.inl h3
  · exact Or.inr h3

/-- the fairness hypotheses are satisfiable together with the wake-up situation: the run
"`Next` finds the queue empty; a producer inserts `7`, posts; the consumer takes the token and
delivers `7`; then cancellations for ever" is an infinite run from the initial configuration,
weakly fair for both, and passes through the lost-wake-up window (`windowCfg`) at position 4. -/
def demoLab (n : Nat) : Label Nat :=
  ([.cCall true, .cNext, .pCheck 7, .pInsert 7, .pPost, .cSelToken, .cNext] : List (Label Nat)).getD n .cancel

def demoCfg : Nat → Cfg Nat
  | 0 => Cfg.init
  | n + 1 => (fire (demoCfg n) (demoLab n)).getD (demoCfg n)

/-- where the demo run stays from position 7 on -/
def demoEnd (b : Bool) : Cfg Nat :=
  { cancelled := b, cons := .idle, insLog := [7], freshLog := [7], delivered := [(7, 0)],
    completed := 1 }

theorem demoLab_tail (k : Nat) : demoLab (7 + k) = .cancel := by
  unfold demoLab
  rw [List.getD_eq_getElem?_getD, List.getElem?_eq_none (by simp)]
  rfl

theorem demoCfg_tail (k : Nat) : demoCfg (7 + k) = demoEnd (decide (0 < k)) := by
  induction k with
  | zero => decide
  | succ k ih =>
    have e : 7 + (k + 1) = (7 + k) + 1 := by omega
    rw [e, demoCfg, demoLab_tail, ih]
    simp [fire, demoEnd]

example : InfRun demoCfg demoLab ∧ WeakFairCons demoCfg demoLab ∧ WeakFairPost demoCfg demoLab ∧
    Reach (demoCfg 4) ∧ demoCfg 4 = windowCfg := by
  have hrun : InfRun demoCfg demoLab := by
    intro n
    by_cases hn : n < 7
    · have : n = 0 ∨ n = 1 ∨ n = 2 ∨ n = 3 ∨ n = 4 ∨ n = 5 ∨ n = 6 := by omega
      rcases this with rfl | rfl | rfl | rfl | rfl | rfl | rfl <;> exact fire_sound (by decide)
    · obtain ⟨k, rfl⟩ := Nat.exists_eq_add_of_le (Nat.le_of_not_lt hn)
      have e : 7 + k + 1 = 7 + (k + 1) := by omega
      rw [demoLab_tail, demoCfg_tail, e, demoCfg_tail]
      have : decide (0 < k + 1) = true := by simp
      rw [this]
      exact Step.cancel _
  refine ⟨hrun, ?_, ?_, ?_, by decide⟩
  · -- from position 7 on the consumer is outside `Next`: no step inside `Next` is enabled
    intro n hen
    obtain ⟨l, c', h1, h2, hs⟩ := hen (7 + n) (by omega)
    have hin := cons_step_in_call hs h1 h2
    rw [demoCfg_tail] at hin
    simp [demoEnd] at hin
  · intro n hen
    have := hen (7 + n) (by omega)
    rw [demoCfg_tail] at this
    simp [demoEnd] at this
  · have h : fireAll (Cfg.init : Cfg Nat) [.cCall true, .cNext, .pCheck 7, .pInsert 7] =
        some (demoCfg 4) := by decide
    exact fireAll_reach _ Reach.init h

end C11Prog
end Gnmi
