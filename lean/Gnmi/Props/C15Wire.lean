import Gnmi.Lemmas.CacheXState
import Gnmi.Props.C15Latency
/-!
# C15, latency clause: which updates the cache feeds to the latency object, and when it exports

Model: `Model/CacheX.lean` (the cache of `Model/Cache.lean` with `Target.lat` wired in: the two
`Compute` sites of `gnmiUpdate`, `UpdateReset` in `updateMeta`, the latency leaves of
`generateMetaUpdates`), executed by the `ca` driver and compared with `cache/cache.go` by the
correspondence (profile `c15`: caches created `WithLatencyWindows`, one scripted clock behind
`cache.Now` and `latency.Now`).  The latency object itself is `Model/Latency.lean`
(`Props/C15Latency.lean`).

* `compute_sites` — `gnmiUpdate` reaches `Compute` exactly when the update is real data, the
  target is in sync and a leaf is returned (accepted: not rejected, stale, future or suppressed);
* `metadata_updates_never_sampled`, `no_latency_before_sync`, `internal_notifications_not_sampled`;
* `notification_samples` — `Target.GnmiUpdate` of any notification = `Compute` for the samples of its
  units, in processing order, the sync flag read unit by unit (`two_update_sync_then_data`);
* `latency_samples_exact` — over every history of API calls on any number of targets: the latency
  object of a target **is** the latency model run on `latOpsSince`: one `Compute(now − ts)` per
  accepted, non-metadata unit processed while in sync since the target was added, one
  `UpdateReset` per `UpdateMetadata` / `Reset`; nothing else ever touches it;
* `latency_exported_at_refresh` / `refresh_exports_bounded` — what a refresh adds to the metadata
  object is `UpdateReset`'s output on exactly those samples, hence (`C15Lat.latency_bounds`)
  bounded by the latencies of the accepted post-sync updates the window covers;
  `latency_leaf_value`: the leaf written under `meta/latency/window/<w>/<stat>` carries that value.
-/
namespace Gnmi.C15Wire
open Gnmi.Cache Gnmi.Acc Gnmi.Feed Gnmi.Latency

/-! ## 1. One `gnmiUpdate` -/

/-- **compute_sites.**  `Target.gnmiUpdate(n)` calls `t.lat.Compute(T(n.GetTimestamp()))` exactly
when (1) the update is stored outside `meta`, (2) the target is in sync, (3) `gnmiUpdate` returns
a leaf — the update was neither rejected (error, stale, future) nor suppressed; it then calls it
once, with the scripted clock of the call.  Everything else about the target is what
`Model/Cache.lean` says. -/
theorem compute_sites (cfg : Cfg) (now : Int) (t : Target) (l : LatSt) (n : Noti) :
    (Target.gnmiUpdate1X cfg now t l n).1 = Target.gnmiUpdate1 cfg now t n ∧
    (Target.gnmiUpdate1X cfg now t l n).2 =
      if realData1 n && t.sync && announced (Target.gnmiUpdate1 cfg now t n) then l.compute now n.ts else l :=
  ⟨gnmiUpdate1X_base cfg now t l n, gnmiUpdate1X_lat cfg now t l n⟩

/-- **metadata_updates_never_sampled.**  An update stored under `meta` — written by the target,
by `Sync` / `Connect` / `ConnectError`, or by the refresh — never reaches `Compute`, whatever the
sync state, also when it is the very update that sets `meta/sync`. -/
theorem metadata_updates_never_sampled (cfg : Cfg) (now : Int) (t : Target) (l : LatSt) (n : Noti)
    (hm : realData1 n = false) : (Target.gnmiUpdate1X cfg now t l n).2 = l := by
  rw [gnmiUpdate1X_lat, hm]; rfl

/-- **no_latency_before_sync.**  While the target is not in sync no update reaches `Compute`. -/
theorem no_latency_before_sync (cfg : Cfg) (now : Int) (t : Target) (l : LatSt) (n : Noti)
    (hs : t.sync = false) : (Target.gnmiUpdate1X cfg now t l n).2 = l := by
  rw [gnmiUpdate1X_lat, hs]; simp

/-- rejected and suppressed updates are not sampled -/
theorem rejected_or_suppressed_not_sampled (cfg : Cfg) (now : Int) (t : Target) (l : LatSt) (n : Noti)
    (h : (Target.gnmiUpdate1 cfg now t n).1 ≠ .ok ∨ (Target.gnmiUpdate1 cfg now t n).2.2 = none) :
    (Target.gnmiUpdate1X cfg now t l n).2 = l := by
  rw [gnmiUpdate1X_lat]
  have : announced (Target.gnmiUpdate1 cfg now t n) = false := by
    unfold announced
    rcases h with h | h
    · cases hr : (Target.gnmiUpdate1 cfg now t n).1 <;> simp_all
    · simp [h]
  rw [this]; simp

/-- an accepted real-data update of a synced target is sampled, with latency `now − ts` -/
theorem accepted_synced_sampled (cfg : Cfg) (now : Int) (t : Target) (l : LatSt) (n nd : Noti)
    (hr : realData1 n = true) (hs : t.sync = true)
    (h1 : (Target.gnmiUpdate1 cfg now t n).1 = .ok) (h2 : (Target.gnmiUpdate1 cfg now t n).2.2 = some nd) :
    (Target.gnmiUpdate1X cfg now t l n).2.lat = l.lat.computeLat now (now - n.ts) := by
  rw [gnmiUpdate1X_lat, hr, hs]
  simp [announced, h1, h2, LatSt.compute, L.compute]

/-! ## 2. One notification -/

/-- a sample is the timestamp of an accepted real-data unit of a synced target -/
theorem unitSample_spec (cfg : Cfg) (now : Int) (t : Target) (m : Noti) (ts : Int)
    (h : ts ∈ unitSample cfg now t m) :
    ts = m.ts ∧ realData1 m = true ∧ t.sync = true ∧ ∃ k fresh, unitOut cfg now t m = .accepted k fresh := by
  unfold unitSample at h
  split at h
  · rename_i hc
    simp only [Bool.and_eq_true] at hc
    obtain ⟨⟨h1, h2⟩, h3⟩ := hc
    refine ⟨by simpa using h, h1, h2, ?_⟩
    cases ho : unitOut cfg now t m <;> simp [ho, UnitOut.isAnnounced] at h3
    exact ⟨_, _, rfl⟩
  · cases h

/-- **notification_samples.**  `Target.GnmiUpdate(n)` of a notification of any shape does to the
target what `Model/Cache.lean` says and to the latency object: `Compute(ts)` for the samples of the
units of `n`, in processing order — each unit judged against the target *as the units before it
left it* (its sync flag included). -/
theorem notification_samples (cfg : Cfg) (now : Int) (t : Target) (l : LatSt) (n : Noti) (ht : n.target ≠ "") :
    (t.gnmiUpdateX cfg now l n).1 = t.gnmiUpdate cfg now n ∧
    (t.gnmiUpdateX cfg now l n).2 = l.feed now (notiSamples cfg now t n) :=
  ⟨gnmiUpdateX_base cfg now t l n, gnmiUpdateX_lat cfg now t l n ht⟩

theorem metaNoti_realData (enc : String → String) (tg name : String) (v : Scalar) (now : Int) (h : tg ≠ "") :
    realData1 (metaNoti enc tg name v now) = false := by
  simp [realData1, metaNoti, updKey?, joinKey?, h, metaRoot]

theorem metaNotiAt_realData (enc : String → String) (x : CfgX) (tg : String) (w : Int) (st : Stat) (v : Scalar)
    (now : Int) (h : tg ≠ "") : realData1 (metaNotiAt enc tg (latPath x w st) v now) = false := by
  simp [realData1, metaNotiAt, updKey?, joinKey?, h, latPath, metaRoot]

theorem notiSamples_unit (cfg : Cfg) (now : Int) (t : Target) (n : Noti) (hu : isUnit n = true) :
    notiSamples cfg now t n = unitSample cfg now t n := by
  unfold notiSamples unitNotis
  rw [if_pos hu, unitSamples_single]

/-- **internal_notifications_not_sampled.**  The notifications `Sync`, `Connect` and `ConnectError`
build (and the delete `Connect` sends) are never samples. -/
theorem internal_notifications_not_sampled (cfg : Cfg) (enc : String → String) (now : Int) (t : Target)
    (tg name : String) (v : Scalar) (p : Path) (h : tg ≠ "") :
    notiSamples cfg now t (metaNoti enc tg name v now) = [] ∧
    notiSamples cfg now t (deleteNotiOf enc tg p now) = [] := by
  constructor
  · rw [notiSamples_unit _ _ _ _ (by simp [isUnit, metaNoti])]
    unfold unitSample
    rw [metaNoti_realData enc tg name v now h]; rfl
  · rw [notiSamples_unit _ _ _ _ (by simp [isUnit, deleteNotiOf])]
    exact unitSample_noUpd cfg now t _ rfl

/-! ## 3. Histories -/

/-- `Compute` calls for timestamps `tss` at clock reading `now`, as calls on the latency model -/
def computeOps (now : Int) (tss : List Int) : List Latency.Op := tss.map (fun ts => .compute now (now - ts))

theorem run_append (l : L) (a b : List Latency.Op) : l.run (a ++ b) = (l.run a).run b := by
  simp [L.run, List.foldl_append]

theorem feed_lat (l : LatSt) (now : Int) (tss : List Int) :
    (l.feed now tss).lat = l.lat.run (computeOps now tss) := by
  induction tss generalizing l with
  | nil => rfl
  | cons ts r ih =>
    simp only [LatSt.feed, List.foldl_cons, computeOps, List.map_cons, L.run] at ih ⊢
    rw [ih]; rfl

/-- **The calls API call `op` makes on the latency object of target `name`**, appended to the
ledger `acc` of the calls since the target was added: `Add` / `Remove` start afresh (a new
`Latency` is created with the target), an update appends one `Compute` per sample of its units,
`UpdateMetadata` and `Reset` one `UpdateReset`; `Sync`, `Connect`, `ConnectError`, `UpdateSize` and
calls on other targets none. -/
def latLedgerStep (sx : StateX) (name : String) (acc : List Latency.Op) : OpX → List Latency.Op
  | .base (.add nm) => if nm = name then [] else acc
  | .base (.remove nm _) => if nm = name then [] else acc
  | .base (.reset nm now) =>
    if nm = name then
      match sx.s.get name with
      | some _ => acc ++ [.update now false]
      | none => acc
    else acc
  | .base (.update now pn n) =>
    if pn = false ∧ n.target = name then
      match sx.s.get name with
      | some t => acc ++ computeOps now (notiSamples sx.s.cfg now t n)
      | none => acc
    else acc
  | .base (.updateMetadata now) =>
    match sx.s.get name with
    | some _ => acc ++ [.update now false]
    | none => acc
  | _ => acc

/-- all calls on the latency object of `name` along the history `ops` run from `sx` -/
def latOpsSince (env : Env) (name : String) : StateX → List OpX → List Latency.Op → List Latency.Op
  | _, [], acc => acc
  | sx, op :: ops, acc => latOpsSince env name (sx.step env op).1 ops (latLedgerStep sx name acc op)

/-- the latency object of target `name` (if registered) is the latency model run on the ledger -/
def AgreeLat (sx : StateX) (name : String) (acc : List Latency.Op) : Prop :=
  ∀ t, sx.s.get name = some t → (sx.latOf name).lat = (L.new sx.x.windows sx.x.prec).run acc

theorem run_snoc_update (l : L) (acc : List Latency.Op) (now : Int) :
    (l.run (acc ++ [.update now false])) = ((l.run acc).update now false).1 := by
  rw [run_append]; rfl

theorem step_agreeLat (env : Env) (sx : StateX) (op : OpX) (name : String) (acc : List Latency.Op)
    (hs : SInv sx.s) (hn : NamesUnique sx.s) (ha : AgreeLat sx name acc) :
    AgreeLat (sx.step env op).1 name (latLedgerStep sx name acc op) := by
  intro t' hg
  rw [stepX_x]
  cases op with
  | updateSize =>
    simp only [StateX.step, latLedgerStep] at hg ⊢
    rw [(updateSizeX_get sx env.sizeOf name).1] at hg
    rw [(updateSizeX_get sx env.sizeOf name).2]
    cases hget : sx.s.get name with
    | none => rw [hget] at hg; simp at hg
    | some t0 => exact ha t0 hget
  | base op =>
    cases op with
    | add nm =>
      simp only [StateX.step, StateX.add, State.add, latLedgerStep] at hg ⊢
      by_cases h : nm = name
      · subst h
        rw [latOf_set_same]
        simp only [if_true]; rfl
      · rw [get_set_other _ _ _ _ (fun e => h e.symm)] at hg
        rw [latOf_set_other _ _ _ _ _ (fun e => h e.symm)]
        simp only [h, if_false]; exact ha t' hg
    | remove nm now =>
      simp only [StateX.step, StateX.remove, State.remove, State.get, latLedgerStep] at hg ⊢
      by_cases h : nm = name
      · subst h; rw [get_filter_same] at hg; simp at hg
      · rw [get_filter_other _ _ _ (fun e => h e.symm)] at hg
        simp only [h, if_false]
        have : ({ sx with s := { sx.s with targets := sx.s.targets.filter (fun kv => kv.1 != nm) },
                          lats := sx.lats.filter (fun kv => kv.1 != nm) } : StateX).latOf name = sx.latOf name := by
          unfold StateX.latOf
          simp only [find_filter_other _ _ _ (fun e => h e.symm)]
        rw [this]; exact ha t' hg
    | reset nm now =>
      simp only [StateX.step, StateX.reset, latLedgerStep] at hg ⊢
      by_cases h : nm = name
      · subst h
        rw [(onTargetX_get_same sx nm _).1] at hg
        rw [(onTargetX_get_same sx nm _).2]
        simp only [if_true]
        cases hget : sx.s.get nm with
        | none => rw [hget] at hg; simp at hg
        | some t0 =>
          simp only
          rw [resetX_lat, run_snoc_update, ← ha t0 hget]
      · rw [(onTargetX_get_other sx nm name _ (fun e => h e.symm)).1] at hg
        rw [(onTargetX_get_other sx nm name _ (fun e => h e.symm)).2]
        simp only [h, if_false]; exact ha t' hg
    | sync nm now =>
      simp only [StateX.step, StateX.sync, latLedgerStep] at hg ⊢
      by_cases h : nm = name
      · subst h
        rw [(onTargetX_get_same sx nm _).1] at hg
        rw [(onTargetX_get_same sx nm _).2]
        cases hget : sx.s.get nm with
        | none => rw [hget] at hg; simp at hg
        | some t0 =>
          obtain ⟨_, _, hne⟩ := hs nm t0 hget
          simp only
          rw [gnmiUpdateX_lat _ _ _ _ _ hne,
            (internal_notifications_not_sampled sx.s.cfg env.enc now t0 nm "sync" (.bool true) [] hne).1]
          exact ha t0 hget
      · rw [(onTargetX_get_other sx nm name _ (fun e => h e.symm)).1] at hg
        rw [(onTargetX_get_other sx nm name _ (fun e => h e.symm)).2]
        exact ha t' hg
    | connect nm now =>
      simp only [StateX.step, StateX.connect, latLedgerStep] at hg ⊢
      by_cases h : nm = name
      · subst h
        rw [(onTargetX_get_same sx nm _).1] at hg
        rw [(onTargetX_get_same sx nm _).2]
        cases hget : sx.s.get nm with
        | none => rw [hget] at hg; simp at hg
        | some t0 =>
          obtain ⟨_, _, hne⟩ := hs nm t0 hget
          simp only
          rw [gnmiUpdateX_lat _ _ _ _ _ hne, gnmiUpdateX_lat _ _ _ _ _ hne,
            (internal_notifications_not_sampled sx.s.cfg env.enc now t0 nm "connected" (.bool true) [] hne).1,
            (internal_notifications_not_sampled sx.s.cfg env.enc now _ nm "connected" (.bool true)
              [metaRoot, "connectError"] hne).2]
          exact ha t0 hget
      · rw [(onTargetX_get_other sx nm name _ (fun e => h e.symm)).1] at hg
        rw [(onTargetX_get_other sx nm name _ (fun e => h e.symm)).2]
        exact ha t' hg
    | connectError nm msg now =>
      simp only [StateX.step, StateX.connectError, latLedgerStep] at hg ⊢
      by_cases h : nm = name
      · subst h
        rw [(onTargetX_get_same sx nm _).1] at hg
        rw [(onTargetX_get_same sx nm _).2]
        cases hget : sx.s.get nm with
        | none => rw [hget] at hg; simp at hg
        | some t0 =>
          obtain ⟨_, _, hne⟩ := hs nm t0 hget
          simp only
          rw [gnmiUpdateX_lat _ _ _ _ _ hne,
            (internal_notifications_not_sampled sx.s.cfg env.enc now t0 nm "connectError" (.str msg) [] hne).1]
          exact ha t0 hget
      · rw [(onTargetX_get_other sx nm name _ (fun e => h e.symm)).1] at hg
        rw [(onTargetX_get_other sx nm name _ (fun e => h e.symm)).2]
        exact ha t' hg
    | update now pn n =>
      simp only [StateX.step, latLedgerStep] at hg ⊢
      by_cases h : pn = false ∧ n.target = name
      · obtain ⟨h1, h2⟩ := h
        subst h1; subst h2
        rw [(gnmiUpdateX_get_same sx now n).1] at hg
        rw [(gnmiUpdateX_get_same sx now n).2]
        simp only [true_and, if_true]
        cases hget : sx.s.get n.target with
        | none => rw [hget] at hg; simp at hg
        | some t0 =>
          obtain ⟨_, _, hne⟩ := hs n.target t0 hget
          simp only
          rw [gnmiUpdateX_lat _ _ _ _ _ hne, feed_lat, run_append, ← ha t0 hget]
      · have h' : pn = true ∨ name ≠ n.target := by
          cases pn
          · right; intro e; exact h ⟨rfl, e.symm⟩
          · left; rfl
        rw [(gnmiUpdateX_get_other sx now pn n name h').1] at hg
        rw [(gnmiUpdateX_get_other sx now pn n name h').2]
        simp only [h, if_false]; exact ha t' hg
    | updateMetadata now =>
      simp only [StateX.step, latLedgerStep] at hg ⊢
      rw [(updateMetadataX_get sx env.enc now hn name).1] at hg
      rw [(updateMetadataX_get sx env.enc now hn name).2]
      cases hget : sx.s.get name with
      | none => rw [hget] at hg; simp at hg
      | some t0 =>
        simp only
        rw [updateMetaX_lat, run_snoc_update, ← ha t0 hget]

theorem run_agreeLat (env : Env) (name : String) : ∀ (ops : List OpX) (sx : StateX) (acc : List Latency.Op),
    SInv sx.s → NamesUnique sx.s → (∀ op ∈ ops, op.valid) → AgreeLat sx name acc →
    AgreeLat (sx.run env ops) name (latOpsSince env name sx ops acc)
  | [], _, _, _, _, _, ha => ha
  | op :: ops, sx, acc, hs, hn, hv, ha => by
    obtain ⟨a, b⟩ := stepX_inv env sx op hs hn (hv op (List.mem_cons_self ..))
    exact run_agreeLat env name ops _ _ a b (fun o ho => hv o (List.mem_cons_of_mem _ ho))
      (step_agreeLat env sx op name acc hs hn ha)

/-- **latency_samples_exact.**  For every history of API calls from the empty cache — updates of
any shape, `Add`, `Remove`, `Reset`, `Sync`, `Connect`, `ConnectError`, `UpdateMetadata`,
`UpdateSize`, on any number of targets, any window configuration and precision — the latency
object of every registered target is the latency model (`Model/Latency.lean`) run on the ledger
`latOpsSince`: since the target was added, exactly one `Compute(now − ts)` for every unit update
that was accepted (stored and announced), is not under `meta` and was processed while the target
was in sync (`unitSample`), in processing order, and one `UpdateReset(now)` for every
`UpdateMetadata` / `Reset`.  No other call reaches the latency object. -/
theorem latency_samples_exact (env : Env) (cfg : Cfg) (x : CfgX) (ops : List OpX)
    (hv : ∀ op ∈ ops, op.valid) (name : String) (t : Target)
    (hg : (StateX.run env { s := { cfg := cfg }, x := x } ops).s.get name = some t) :
    ((StateX.run env { s := { cfg := cfg }, x := x } ops).latOf name).lat =
      (L.new x.windows x.prec).run (latOpsSince env name { s := { cfg := cfg }, x := x } ops []) := by
  have := run_agreeLat env name ops { s := { cfg := cfg }, x := x } [] (SInv.empty cfg)
    (NamesUnique.empty cfg) hv (fun _ h => by simp [State.get] at h) t hg
  rw [runX_x] at this
  exact this

/-! ## 4. What a refresh exports -/

/-- **latency_exported_at_refresh** (one target).  `updateMeta` at clock reading `now` calls
`UpdateReset` once: the latency object becomes `(lat.update now false).1`, and the values it writes
— no others — are added to the latency entries of the metadata object, before
`generateMetaUpdates` publishes the entries as leaves. -/
theorem latency_exported_at_refresh (cfg : Cfg) (x : CfgX) (enc : String → String) (now : Int) (emit : Bool)
    (t : Target) (l : LatSt) :
    (t.updateMetaX cfg x enc now emit l).2.lat = (l.lat.update now false).1 ∧
    (t.updateMetaX cfg x enc now emit l).2.vals = l.vals ++ (l.lat.update now false).2 ∧
    (t.updateMetaX cfg x enc now emit l).1 =
      (latKeys x).foldl (genLatOne cfg x enc now emit (l.vals ++ (l.lat.update now false).2))
        (t.updateMeta cfg enc now emit) :=
  ⟨rfl, rfl, rfl⟩

/-- the same for `Cache.UpdateMetadata` on a cache with any number of targets: every registered
target is refreshed once, with its own latency object -/
theorem updateMetadata_exports (env : Env) (sx : StateX) (now : Int) (hn : NamesUnique sx.s)
    (name : String) (t : Target) (hg : sx.s.get name = some t) :
    ((sx.step env (.base (.updateMetadata now))).1.latOf name).lat = ((sx.latOf name).lat.update now false).1 ∧
    ((sx.step env (.base (.updateMetadata now))).1.latOf name).vals =
      (sx.latOf name).vals ++ ((sx.latOf name).lat.update now false).2 := by
  simp only [StateX.step]
  rw [(updateMetadataX_get sx env.enc now hn name).2, hg]
  exact ⟨rfl, rfl⟩

/-- **refresh_exports_bounded** (`latency_samples_exact` composed with `C15Lat.latency_bounds`).
After any history of API calls, every value the next refresh (clock reading `now`) writes for a
window of target `name` is bounded — `max` is the largest, `min` one of, `avg` between the
truncated smallest and largest — by the latencies `now' − ts` of the accepted, non-metadata,
post-sync unit updates of that target that the window covers at `now` (batches closed by the
refreshes in `(now − size, now]`).  Hypotheses of `latency_bounds`: the refresh clock readings do
not decrease, the precision is positive. -/
theorem refresh_exports_bounded (env : Env) (cfg : Cfg) (x : CfgX) (ops : List OpX)
    (hv : ∀ op ∈ ops, op.valid) (name : String) (t : Target) (now : Int)
    (hg : (StateX.run env { s := { cfg := cfg }, x := x } ops).s.get name = some t)
    (hsf : 0 < sfOf x.prec)
    (hm : UpdMono (latOpsSince env name { s := { cfg := cfg }, x := x } ops [] ++ [.update now false])) :
    ∀ wr ∈ (((StateX.run env { s := { cfg := cfg }, x := x } ops).latOf name).lat.update now false).2,
      Bounded (sfOf x.prec)
        ((hist (latOpsSince env name { s := { cfg := cfg }, x := x } ops [] ++ [.update now false])).window
          wr.size now) wr.stat wr.val := by
  rw [latency_samples_exact env cfg x ops hv name t hg]
  exact C15Lat.latency_bounds x.windows x.prec _ now false hsf hm

theorem metaSideEffect_latency (t : Target) (v : Val) : metaSideEffect t "latency" v = some t := by
  simp [metaSideEffect]

theorem gnmiUpdate1_latNoti (cfg : Cfg) (x : CfgX) (enc : String → String) (now : Int) (t : Target)
    (w : Int) (st : Stat) (v : Int) (hn : t.name ≠ "") :
    Target.gnmiUpdate1 cfg now t (metaNotiAt enc t.name (latPath x w st) (.int v) now) =
      updateCore cfg now t false (latPath x w st) (metaNotiAt enc t.name (latPath x w st) (.int v) now)
        { origin := "", path := latPath x w st, val := .scalar (.int v),
          raw := "o=;t=;e=" ++ ",".intercalate ((latPath x w st).map enc) ++ ";l=#" ++
            rawScalar enc (.int v) ++ "#0" } := by
  unfold Target.gnmiUpdate1
  simp [metaNotiAt, updKey?, joinKey?, hn, metaPre, metaSideEffect_latency, metaRoot, latPath]

/-- **latency_leaf_value.**  One step of the latency loop of `generateMetaUpdates`, for a latency
entry that is set (value `v`) and not excluded: afterwards the leaf
`meta/latency/window/<w>/<stat>` shows the integer `v` — it already did, or the loop wrote
`metaNotiInt(name, v)` — provided the write can land: no leaf above or below that path (nobody
wrote `meta/latency` itself) and a stored leaf there is older than the scripted clock. -/
theorem latency_leaf_value {a b : Int} (cfg : Cfg) (x : CfgX) (enc : String → String) (now : Int) (emit : Bool)
    (vals : List Write) (acc : Target × List Event) (k : Int × Stat) (v : Int)
    (hi : TInvD a b acc.1) (hn : acc.1.name ≠ "")
    (hex : cfg.excluded.contains (latName x k.1 k.2) = false) (hv : exported vals k.1 k.2 = some v)
    (hfree : PMap.conflicts acc.1.tree (latPath x k.1 k.2) = false)
    (hfresh : ∀ old, lookup acc.1.tree (latPath x k.1 k.2) = some old → old.ts < now) :
    leafVal (genLatOne cfg x enc now emit vals acc k).1 (latPath x k.1 k.2) = some (.scalar (.int v)) := by
  unfold genLatOne
  simp only [hex, Bool.false_eq_true, if_false, hv]
  by_cases hc : leafIsCurrent acc.1 (latPath x k.1 k.2) (curInt v) = true
  · simp only [hc, if_true]
    unfold leafIsCurrent at hc
    unfold leafVal
    cases hl : (lookup acc.1.tree (latPath x k.1 k.2)).bind (fun n => n.upd.head?.map (·.val)) with
    | none => rw [hl] at hc; cases hc
    | some sv =>
      rw [hl] at hc
      simp only at hc
      unfold curInt at hc
      split at hc
      · rename_i i; have : i = v := by simpa using hc
        rw [this]
      · cases hc
  · simp only [hc, Bool.false_eq_true, if_false]
    have hst := updateCore_stores cfg now acc.1 false (latPath x k.1 k.2)
      (metaNotiAt enc acc.1.name (latPath x k.1 k.2) (.int v) now)
      { origin := "", path := latPath x k.1 k.2, val := .scalar (.int v),
        raw := "o=;t=;e=" ++ ",".intercalate ((latPath x k.1 k.2).map enc) ++ ";l=#" ++
          rawScalar enc (.int v) ++ "#0" } hi.unique hi.hasUpd hfresh (Int.le_refl _) hfree
    rw [← gnmiUpdate1_latNoti cfg x enc now acc.1 k.1 k.2 v hn] at hst
    have : leafVal (Target.gnmiUpdate1 cfg now acc.1
        (metaNotiAt enc acc.1.name (latPath x k.1 k.2) (.int v) now)).2.1 (latPath x k.1 k.2) =
        some (.scalar (.int v)) := by
      unfold leafVal; rw [hst]; rfl
    split <;> exact this

/-- the latency leaves are distinct from each other (given that `CompactDurationString` separates
the windows: `C15LatNames.compactDurationString_injective`) and from every `meta/<name>` leaf of
the built-in metadata values -/
theorem latPath_injective (x : CfgX) (hinj : ∀ w w', x.winStr w = x.winStr w' → w = w')
    (w w' : Int) (st st' : Stat) (h : latPath x w st = latPath x w' st') : w = w' ∧ st = st' := by
  simp only [latPath, List.cons.injEq, true_and, and_true] at h
  refine ⟨hinj w w' h.1, ?_⟩
  cases st <;> cases st' <;> first | rfl | (simp [statStr] at h)

theorem latPath_ne_builtin (x : CfgX) (w : Int) (st : Stat) (name : String) :
    latPath x w st ≠ [metaRoot, name] := by
  simp [latPath]

/-! ## 5. Not in sync: nothing is fed (notification level) -/

theorem updateCore_sync (cfg : Cfg) (now : Int) (t : Target) (rd : Bool) (path : Path) (n : Noti) (u : Upd) :
    (updateCore cfg now t rd path n u).2.1.sync = t.sync := by
  unfold updateCore
  repeat' split
  all_goals rfl

theorem gnmiUpdate1_sync (cfg : Cfg) (now : Int) (t : Target) (n : Noti) (h : realData1 n = true) :
    (Target.gnmiUpdate1 cfg now t n).2.1.sync = t.sync := by
  unfold realData1 at h
  cases hu : n.upd with
  | nil => simp [hu] at h
  | cons u us =>
    cases hk : updKey? n u with
    | none => simp [hu, hk] at h
    | some key =>
      cases key with
      | nil => simp [hu, hk] at h
      | cons hd rest =>
        cases hp : metaPre t hd rest u.val with
        | none => simp [Target.gnmiUpdate1, hu, hk, hp]
        | some p =>
          obtain ⟨t', rd⟩ := p
          obtain ⟨h1, h2⟩ := metaPre_rd hp
          simp only [hu, hk] at h
          rw [h] at h1
          simp only [Target.gnmiUpdate1, hu, hk, hp]
          rw [updateCore_sync, h2 h1]

theorem removeCore_sync (t : Target) (ts : Int) (path : Path) : (removeCore t ts path).1.sync = t.sync := by
  unfold removeCore
  simp only
  repeat' split
  all_goals rfl

theorem gnmiRemove1_sync (t : Target) (n : Noti) : (Target.gnmiRemove1 t n).1.sync = t.sync := by
  unfold Target.gnmiRemove1
  split
  · rfl
  · split
    · rfl
    · rw [removeCore_sync]
      unfold resetMetaFor
      repeat' split
      all_goals rfl

theorem singleArm_sync (g : Res × Target × Option Noti) (k : Int) : (singleArm g k).2.1.sync = g.2.1.sync := by
  unfold singleArm
  repeat' split
  all_goals rfl

/-- a unit that is a data update or carries no update leaves the sync flag alone -/
theorem dispatch_unit_sync (cfg : Cfg) (now : Int) (t : Target) (m : Noti) (hu : isUnit m = true)
    (h : m.upd = [] ∨ realData1 m = true) : (t.dispatch cfg now m).2.1.sync = t.sync := by
  unfold Target.dispatch
  by_cases ha : m.atomic = true
  · simp only [ha, if_true]
    split
    · rfl
    · split
      · rfl
      · rename_i hup
        have : realData1 m = true := by
          rcases h with h | h
          · simp [h] at hup
          · exact h
        rw [singleArm_sync, gnmiUpdate1_sync cfg now t m this]
  · have ha' : m.atomic = false := by simpa using ha
    have hl : m.upd.length + m.del.length ≤ 1 := by simpa [isUnit, ha'] using hu
    simp only [ha', Bool.false_eq_true, if_false]
    rw [if_neg (by omega)]
    split
    · rename_i h1
      have : realData1 m = true := by
        rcases h with h | h
        · simp [h] at h1
        · exact h
      rw [singleArm_sync, gnmiUpdate1_sync cfg now t m this]
    · split
      · split
        · simp only; rw [gnmiRemove1_sync]
        · simp only; rw [gnmiRemove1_sync]
      · rfl

/-- **no_latency_before_sync** (notification level).  A notification all of whose units are data
updates or deletes, handed to a target that is not in sync, feeds nothing to the latency object
(a unit under `meta/sync` may turn the flag on for the units after it: `two_update_sync_then_data`). -/
theorem unsynced_notification_no_samples (cfg : Cfg) (now : Int) : ∀ (ms : List Noti) (t : Target),
    t.sync = false → (∀ m ∈ ms, isUnit m = true ∧ (m.upd = [] ∨ realData1 m = true)) →
    unitSamples cfg now t ms = []
  | [], _, _, _ => rfl
  | m :: ms, t, hs, hall => by
    unfold unitSamples
    have h1 : unitSample cfg now t m = [] := by unfold unitSample; rw [hs]; simp
    rw [h1]
    split
    · rfl
    · obtain ⟨a, b⟩ := hall m (List.mem_cons_self ..)
      exact unsynced_notification_no_samples cfg now ms _ (by rw [dispatch_unit_sync cfg now t m a b]; exact hs)
        (fun x hx => hall x (List.mem_cons_of_mem _ hx))

/-! ## 6. A concrete history (non-vacuity; the shape of corpus/C15/latency_only_post_sync_accepted.ops) -/

def nData (ts v : Int) (leaf raw : String) : Noti :=
  { ts := ts, target := "t1", pfx := ["a"], praw := "p",
    upd := [{ path := [leaf], val := .scalar (.int v), raw := raw }] }

def nMetaAddr : Noti :=
  { ts := 1013, target := "t1", praw := "q",
    upd := [{ path := ["meta", "connectedAddress"], val := .scalar (.str "5.6.7.8"), raw := "m" }] }

/-- two updates in one notification: `meta/sync = true`, then a data update -/
def nSyncThenData : Noti :=
  { ts := 1011, target := "t1", praw := "q",
    upd := [{ path := ["meta", "sync"], val := .scalar (.bool true), raw := "s" },
            { path := ["x"], val := .scalar (.int 1), raw := "x" }] }

def env0 : Env := { enc := id, sizeOf := fun _ => 1 }
def x20 : CfgX := { windows := [20] }

def hist0 : List OpX :=
  [.base (.add "t1"),
   .base (.update 1000 false (nData 990 1 "b" "u1")),        -- before Sync: not a sample
   .base (.sync "t1" 1002),
   .base (.update 1005 false (nData 995 2 "b" "u2")),        -- updated leaf: sample 10
   .base (.update 1007 false (nData 1002 3 "c" "u3")),       -- new leaf: sample 5
   .base (.update 1010 false (nData 1006 2 "b" "u2")),       -- same value: suppressed
   .base (.update 1012 false (nData 900 9 "b" "u9")),        -- stale
   .base (.update 1013 false nMetaAddr),                      -- metadata
   .updateSize,
   .base (.updateMetadata 1020)]

theorem hist0_valid : ∀ op ∈ hist0, op.valid := by
  intro op h
  simp only [hist0, List.mem_cons, List.not_mem_nil, or_false] at h
  rcases h with h | h | h | h | h | h | h | h | h | h <;> subst h <;> simp [OpX.valid, Op.valid]

/-- only the two accepted post-sync data updates were fed, then the refresh -/
theorem hist0_ledger :
    latOpsSince env0 "t1" { x := x20 } hist0 [] =
      [.compute 1005 10, .compute 1007 5, .update 1020 false] := by decide

/-- the sync flag is read unit by unit: the data update that follows `meta/sync = true` inside one
notification is a sample, although the target was not in sync when the notification arrived -/
theorem two_update_sync_then_data :
    notiSamples {} 1014 { name := "t1" } nSyncThenData = [1011] := by decide

end Gnmi.C15Wire
