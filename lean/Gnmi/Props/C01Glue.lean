import Gnmi.Model.Pipeline
import Gnmi.Lemmas.CacheState
import Gnmi.Props.C19
/-!
# Property C01 — glue lemmas about the collector pipeline (`Model/Pipeline.lean`)

What the individual stations of the pipeline guarantee, each stated on its own:

1. the collector's `Update` closure (`stampTarget`);
2. `collector.start` registers every configured target with the cache (D16 repair) and hands it
   to the manager;
3. the three ways `gnmi_cli` is handed a subscription (the `-q`, `-qt`, `-t` flags; `-proto`; `-proto_file`)
   are the same invocation (D17 repair);
4. what `client/gnmi` (`defaultRecv` / `noti` / `value.ToScalar`) makes of a relayed leaf.

Core Lean only.
-/
namespace Gnmi
namespace C01
open Cache Pipeline

/-! ## 1. The `Update` closure: `stampTarget` -/

/-- the default origin `"openconfig"` is not the empty string -/
theorem defaultOrigin_ne_empty : defaultOrigin ≠ "" := by decide

/-- **stamp_target_spec** — what the collector's `Update` closure guarantees about the
notification it hands to the cache: the prefix target is the configured target name; the prefix
origin is never empty — it is `"openconfig"` when the notification had no prefix or an empty
origin, and the given origin otherwise; the prefix elements are kept (none for a nil prefix);
timestamp, atomic flag, updates and deletes are untouched. -/
theorem stamp_target_spec (enc : String → String) (target : String) (prefixNil : Bool) (n : Noti) :
    let s := stampTarget enc target prefixNil n
    s.target = target ∧ s.origin ≠ "" ∧
    s.origin = (if prefixNil then defaultOrigin else if n.origin = "" then defaultOrigin else n.origin) ∧
    s.pfx = (if prefixNil then [] else n.pfx) ∧
    s.ts = n.ts ∧ s.atomic = n.atomic ∧ s.upd = n.upd ∧ s.del = n.del := by
  intro s
  cases prefixNil with
  | true => exact ⟨rfl, defaultOrigin_ne_empty, rfl, rfl, rfl, rfl, rfl, rfl⟩
  | false =>
    refine ⟨rfl, ?_, rfl, rfl, rfl, rfl, rfl, rfl⟩
    show (if n.origin = "" then defaultOrigin else n.origin) ≠ ""
    by_cases h : n.origin = ""
    · simp only [h, if_true]; exact defaultOrigin_ne_empty
    · simp only [h, if_false]; exact h

/-- a non-empty origin given by the target is kept -/
theorem stamp_target_keeps_origin (enc : String → String) (target : String) (prefixNil : Bool) (n : Noti)
    (hp : ¬ prefixNil = true) (ho : n.origin ≠ "") :
    (stampTarget enc target prefixNil n).origin = n.origin := by
  have h := (stamp_target_spec enc target prefixNil n).2.2.1
  rw [h]
  simp [hp, ho]

/-- the raw rendering of the stamped prefix: origin and target overwritten, the rest of the
rendering (`rawTail`) kept (empty for a nil prefix) -/
theorem stamp_target_praw (enc : String → String) (target : String) (prefixNil : Bool) (n : Noti) :
    let s := stampTarget enc target prefixNil n
    s.praw = stampRaw enc target s.origin (if prefixNil then ";e=;l=" else rawTail n.praw) := by
  cases prefixNil <;> simp [stampTarget]

/-- **stamp_target_idempotent (whole notification)** — stamping an already stamped notification
again (it now has a prefix) with the same target changes nothing except, possibly, the raw
rendering `praw` of the prefix, which is re-rendered from the same target, the same origin and
`rawTail` of the first rendering.  (`praw` is re-rendered to the same string exactly when
`rawTail (stampRaw enc target origin tail) = tail`, i.e. when the harness encoder `enc` never
emits `;` — an assumption on the parameter `enc` this file does not make.) -/
theorem stamp_target_idempotent_noti (enc : String → String) (target : String) (prefixNil : Bool) (n : Noti) :
    let s := stampTarget enc target prefixNil n
    stampTarget enc target false s = { s with praw := stampRaw enc target s.origin (rawTail s.praw) } := by
  intro s
  have hs := stamp_target_spec enc target prefixNil n
  have ho : s.origin ≠ "" := hs.2.1
  have ht : s.target = target := hs.1
  show stampTarget enc target false s = _
  simp only [stampTarget, Bool.false_eq_true, if_false, ho, ht]

/-- **stamp_target_idempotent** — stamping twice is stamping once, for everything the cache
indexes by and relays (target, origin, prefix elements, timestamp, atomic, updates, deletes). -/
theorem stamp_target_idempotent (enc : String → String) (target : String) (prefixNil : Bool) (n : Noti) :
    let s := stampTarget enc target prefixNil n
    let s2 := stampTarget enc target false s
    s2.target = s.target ∧ s2.origin = s.origin ∧ s2.pfx = s.pfx ∧ s2.ts = s.ts ∧
    s2.atomic = s.atomic ∧ s2.upd = s.upd ∧ s2.del = s.del := by
  intro s s2
  have h : s2 = { s with praw := stampRaw enc target s.origin (rawTail s.praw) } :=
    stamp_target_idempotent_noti enc target prefixNil n
  rw [h]
  exact ⟨rfl, rfl, rfl, rfl, rfl, rfl, rfl⟩

/-! ## 2. `collector.start` / `collector.add` -/

/-- the cache after one `collector.add` -/
theorem add_cache (c : Coll) (cfg : TargetCfg.Cfg) (id : String) (t : TargetCfg.TgtP) :
    (c.add cfg id t).cache =
      match t with
      | none => c.cache
      | some t => match TargetCfg.find t.request cfg.request with
        | none => c.cache
        | some _ => c.cache.add id := by
  unfold Coll.add
  cases t with
  | none => rfl
  | some t =>
    simp only
    cases TargetCfg.find t.request cfg.request with
    | none => rfl
    | some sr => simp only; split <;> rfl

/-- a target known to the cache stays known when `collector.add` handles another entry -/
theorem add_keeps_known (c : Coll) (cfg : TargetCfg.Cfg) (id : String) (t : TargetCfg.TgtP) (name : String)
    (h : (c.cache.get name).isSome = true) : ((c.add cfg id t).cache.get name).isSome = true := by
  rw [add_cache]
  cases t with
  | none => exact h
  | some t =>
    simp only
    cases TargetCfg.find t.request cfg.request with
    | none => exact h
    | some sr =>
      simp only [State.add]
      by_cases hn : name = id
      · subst hn; rw [get_set_same]; rfl
      · rw [get_set_other _ _ _ _ hn]; exact h

/-- a valid entry is known to the cache right after its `collector.add` -/
theorem add_registers (c : Coll) (cfg : TargetCfg.Cfg) (id : String) (t : TargetCfg.Tgt) (sr : TargetCfg.Req)
    (hf : TargetCfg.find t.request cfg.request = some sr) :
    ((c.add cfg id (some t)).cache.get id).isSome = true := by
  rw [add_cache]
  simp only [hf, State.add, get_set_same]
  rfl

/-- a target known to the cache stays known through the rest of the `collector.start` loop -/
theorem foldl_add_keeps_known (cfg : TargetCfg.Cfg) (name : String) :
    ∀ (l : List (String × TargetCfg.TgtP)) (c : Coll), (c.cache.get name).isSome = true →
      ((l.foldl (fun c kv => c.add cfg kv.1 kv.2) c).cache.get name).isSome = true
  | [], _, h => h
  | kv :: l, c, h => by
    simp only [List.foldl_cons]
    exact foldl_add_keeps_known cfg name l _ (add_keeps_known c cfg kv.1 kv.2 name h)

/-- what `Validate` checked for one entry -/
structure EntryOK (cfg : TargetCfg.Cfg) (name : String) (t : TargetCfg.TgtP) : Prop where
  name_ne : name ≠ ""
  target : ∃ t', t = some t' ∧ t'.addresses.length ≠ 0 ∧ t'.request ≠ "" ∧
    ∃ sr, TargetCfg.find t'.request cfg.request = some sr

/-- an entry the loop body of `Validate` accepts has a non-empty name, a non-nil target with an
address and a request name, and that request is in the request map -/
theorem validateTarget_ok {cfg : TargetCfg.Cfg} {name : String} {t : TargetCfg.TgtP}
    (h : TargetCfg.validateTarget cfg.request name t = .ok ()) : EntryOK cfg name t := by
  unfold TargetCfg.validateTarget at h
  by_cases hn : name = ""
  · simp [hn] at h
  · simp only [hn, if_false] at h
    cases t with
    | none => simp at h
    | some t' =>
      simp only at h
      by_cases ha : t'.addresses.length = 0
      · simp [ha] at h
      · simp only [ha, if_false] at h
        by_cases hr : t'.request = ""
        · simp [hr] at h
        · simp only [hr, if_false] at h
          cases hf : TargetCfg.find t'.request cfg.request with
          | none => simp [hf] at h
          | some sr => exact ⟨hn, t', rfl, ha, hr, sr, hf⟩

/-- the `Validate` loop accepts the map only if its body accepts every entry -/
theorem validateList_ok {reqs : List (String × TargetCfg.Req)} :
    ∀ {l : List (String × TargetCfg.TgtP)}, TargetCfg.validateList reqs l = .ok () →
      ∀ kv ∈ l, TargetCfg.validateTarget reqs kv.1 kv.2 = .ok ()
  | [], _, kv, hkv => by cases hkv
  | (k, t) :: r, h, kv, hkv => by
    unfold TargetCfg.validateList at h
    cases hv : TargetCfg.validateTarget reqs k t with
    | error e => simp [hv] at h
    | ok u =>
      simp only [hv] at h
      cases List.mem_cons.1 hkv with
      | inl e => subst e; exact hv
      | inr hm => exact validateList_ok h kv hm

/-- `Validate(cfg) == nil` means every entry of the target map passed the loop body -/
theorem validate_entries {cfg : TargetCfg.Cfg} (h : TargetCfg.validate cfg = .ok ()) :
    ∀ kv ∈ cfg.target, EntryOK cfg kv.1 kv.2 :=
  fun kv hkv => validateTarget_ok (validateList_ok h kv hkv)

/-- a key of a map has an entry in it -/
theorem mem_keys {α : Type} {name : String} {m : List (String × α)} (h : name ∈ TargetCfg.keys m) :
    ∃ v, (name, v) ∈ m := by
  unfold TargetCfg.keys at h
  obtain ⟨kv, hkv, rfl⟩ := List.mem_map.1 h
  exact ⟨kv.2, hkv⟩

/-- a valid entry met by the `collector.start` loop is known to the cache at the end of the loop -/
theorem foldl_add_registers (cfg : TargetCfg.Cfg) (name : String) (t : TargetCfg.TgtP)
    (hok : EntryOK cfg name t) :
    ∀ (l : List (String × TargetCfg.TgtP)) (c : Coll), (name, t) ∈ l →
      ((l.foldl (fun c kv => c.add cfg kv.1 kv.2) c).cache.get name).isSome = true
  | [], _, h => by cases h
  | kv :: l, c, h => by
    simp only [List.foldl_cons]
    cases List.mem_cons.1 h with
    | inl e =>
      subst e
      obtain ⟨t', rfl, _, _, sr, hf⟩ := hok.target
      exact foldl_add_keeps_known cfg name l _ (add_registers c cfg name t' sr hf)
    | inr hm => exact foldl_add_registers cfg name t hok l _ hm

/-- **configured_targets_registered** — after `collector.start` on a configuration that
`target.Validate` accepts, every configured target name is known to the cache (`HasTarget`), so a
client query for it is not answered `NotFound` and the target's first update is not dropped. -/
theorem configured_targets_registered (cfg : TargetCfg.Cfg) (hv : TargetCfg.validate cfg = .ok ())
    (name : String) (hn : name ∈ TargetCfg.keys cfg.target) :
    (Coll.start cfg).cache.hasTarget name = true := by
  obtain ⟨t, ht⟩ := mem_keys hn
  have hok : EntryOK cfg name t := validate_entries hv (name, t) ht
  have hg := foldl_add_registers cfg name t hok cfg.target {} ht
  unfold State.hasTarget
  simp only [hok.name_ne, if_false]
  split
  · rfl
  · exact hg

/-! ### the manager side -/

/-- a successful map lookup returns an entry of the map -/
theorem find_mem {α : Type} {k : String} {v : α} :
    ∀ {m : List (String × α)}, TargetCfg.find k m = some v → (k, v) ∈ m
  | [], h => by cases h
  | (k', v') :: r, h => by
    unfold TargetCfg.find at h
    by_cases hk : k' = k
    · simp only [hk, if_true, Option.some.injEq] at h
      subst hk; subst h
      exact List.mem_cons_self
    · simp only [hk, if_false] at h
      exact List.mem_cons_of_mem _ (find_mem h)

/-- the managed list after one `collector.add` of a valid entry with a non-nil request: the name
is appended unless it is there already -/
theorem add_managed (c : Coll) (cfg : TargetCfg.Cfg) (id : String) (t : TargetCfg.TgtP)
    (hok : EntryOK cfg id t) (hreq : ∀ kv ∈ cfg.request, kv.2 ≠ TargetCfg.Req.nil) :
    (c.add cfg id t).managed = if c.managed.contains id then c.managed else c.managed ++ [id] := by
  obtain ⟨t', rfl, ha, _, sr, hf⟩ := hok.target
  have hsr : sr ≠ TargetCfg.Req.nil := hreq (t'.request, sr) (find_mem hf)
  have hm : ∀ l : List String, managerAdds l id t' sr = !l.contains id := by
    intro l
    have h1 : decide (id ≠ "") = true := by simpa using hok.name_ne
    have h2 : (sr != TargetCfg.Req.nil) = true := by simpa using hsr
    have h3 : (t'.addresses.length != 0) = true := by simpa using ha
    simp only [managerAdds, h1, h2, h3, Bool.true_and, Bool.and_true]
  unfold Coll.add
  simp only [hf, hm]
  cases hc : c.managed.contains id <;> simp

/-- a managed target stays managed when `collector.add` handles another entry -/
theorem add_managed_mono (c : Coll) (cfg : TargetCfg.Cfg) (id : String) (t : TargetCfg.TgtP) (name : String)
    (h : name ∈ c.managed) : name ∈ (c.add cfg id t).managed := by
  unfold Coll.add
  cases t with
  | none => exact h
  | some t =>
    simp only
    cases TargetCfg.find t.request cfg.request with
    | none => exact h
    | some sr =>
      simp only
      split
      · exact List.mem_append_left _ h
      · exact h

/-- a managed target stays managed through the rest of the `collector.start` loop -/
theorem foldl_add_managed_mono (cfg : TargetCfg.Cfg) (name : String) :
    ∀ (l : List (String × TargetCfg.TgtP)) (c : Coll), name ∈ c.managed →
      name ∈ (l.foldl (fun c kv => c.add cfg kv.1 kv.2) c).managed
  | [], _, h => h
  | kv :: l, c, h => by
    simp only [List.foldl_cons]
    exact foldl_add_managed_mono cfg name l _ (add_managed_mono c cfg kv.1 kv.2 name h)

/-- a valid entry met by the `collector.start` loop is managed at the end of the loop -/
theorem foldl_add_manages (cfg : TargetCfg.Cfg) (hreq : ∀ kv ∈ cfg.request, kv.2 ≠ TargetCfg.Req.nil)
    (name : String) (t : TargetCfg.TgtP) (hok : EntryOK cfg name t) :
    ∀ (l : List (String × TargetCfg.TgtP)) (c : Coll), (name, t) ∈ l →
      name ∈ (l.foldl (fun c kv => c.add cfg kv.1 kv.2) c).managed
  | [], _, h => by cases h
  | kv :: l, c, h => by
    simp only [List.foldl_cons]
    cases List.mem_cons.1 h with
    | inl e =>
      subst e
      apply foldl_add_managed_mono
      rw [add_managed c cfg name t hok hreq]
      cases hc : c.managed.contains name
      · simp
      · simpa using hc
    | inr hm => exact foldl_add_manages cfg hreq name t hok l _ hm

/-- **configured_targets_managed** — after `collector.start` on a valid configuration whose
request map holds no nil request, every configured target was handed to the manager (it has a
connection/retry monitor).  (Distinctness of the map keys is not needed for this direction: a
name met a second time is already managed.  With distinct keys the managed list is *exactly* the
key list: `configured_targets_managed_eq`.) -/
theorem configured_targets_managed (cfg : TargetCfg.Cfg) (hv : TargetCfg.validate cfg = .ok ())
    (hreq : ∀ kv ∈ cfg.request, kv.2 ≠ TargetCfg.Req.nil)
    (name : String) (hn : name ∈ TargetCfg.keys cfg.target) :
    name ∈ (Coll.start cfg).managed := by
  obtain ⟨t, ht⟩ := mem_keys hn
  exact foldl_add_manages cfg hreq name t (validate_entries hv (name, t) ht) cfg.target {} ht

/-- the `collector.start` loop over valid entries with fresh, distinct names appends exactly their
names to the managed list, in order -/
theorem foldl_add_managed_eq (cfg : TargetCfg.Cfg) (hreq : ∀ kv ∈ cfg.request, kv.2 ≠ TargetCfg.Req.nil) :
    ∀ (l : List (String × TargetCfg.TgtP)) (c : Coll), (∀ kv ∈ l, EntryOK cfg kv.1 kv.2) →
      (c.managed ++ TargetCfg.keys l).Nodup →
      (l.foldl (fun c kv => c.add cfg kv.1 kv.2) c).managed = c.managed ++ TargetCfg.keys l
  | [], c, _, _ => by simp [TargetCfg.keys]
  | kv :: l, c, hok, hnd => by
    simp only [List.foldl_cons]
    have hnot : c.managed.contains kv.1 = false := by
      cases hc : c.managed.contains kv.1 with
      | false => rfl
      | true =>
        exfalso
        have hm : kv.1 ∈ c.managed := by simpa using hc
        have := (List.nodup_append.1 hnd).2.2 kv.1 hm kv.1 (by simp [TargetCfg.keys])
        exact this rfl
    have hstep : (c.add cfg kv.1 kv.2).managed = c.managed ++ [kv.1] := by
      rw [add_managed c cfg kv.1 kv.2 (hok kv List.mem_cons_self) hreq, hnot]
      simp
    have hnd' : ((c.add cfg kv.1 kv.2).managed ++ TargetCfg.keys l).Nodup := by
      rw [hstep]
      simpa [TargetCfg.keys, List.append_assoc] using hnd
    rw [foldl_add_managed_eq cfg hreq l _ (fun x hx => hok x (List.mem_cons_of_mem _ hx)) hnd', hstep]
    simp [TargetCfg.keys, List.append_assoc]

/-- with distinct map keys (true of every Go map) the manager was handed exactly the configured
targets, each once, in iteration order -/
theorem configured_targets_managed_eq (cfg : TargetCfg.Cfg) (hv : TargetCfg.validate cfg = .ok ())
    (hnd : (TargetCfg.keys cfg.target).Nodup)
    (hreq : ∀ kv ∈ cfg.request, kv.2 ≠ TargetCfg.Req.nil) :
    (Coll.start cfg).managed = TargetCfg.keys cfg.target := by
  have := foldl_add_managed_eq cfg hreq cfg.target {} (validate_entries hv) (by simpa using hnd)
  simpa [Coll.start] using this

/-- the regression configuration for defect D16: one valid static target -/
def cfgW : TargetCfg.Cfg :=
  { revision := 1,
    request := [("r", .msg "subscribe")],
    target := [("dev1", some { addresses := ["192.0.2.1:9339"], request := "r" })] }

/-- `Validate` accepts `cfgW` -/
theorem cfgW_valid : TargetCfg.validate cfgW = .ok () := by
  simp [cfgW, TargetCfg.validate, TargetCfg.validateList, TargetCfg.validateTarget, TargetCfg.find]

/-- **Regression witness for defect D16**: before the repair, `collector.start` on the valid
one-target configuration `cfgW` left the cache ignorant of `dev1` (so the closure's
`cache.GnmiUpdate` failed for every update and every query answered `NotFound`). -/
theorem configured_targets_registered_preD16_false :
    TargetCfg.validate cfgW = .ok () ∧ (Coll.startPreD16 cfgW).cache.hasTarget "dev1" = false ∧
    "dev1" ∈ TargetCfg.keys cfgW.target := by
  refine ⟨cfgW_valid, by decide, by decide⟩

/-- non-vacuity of `configured_targets_registered` / `configured_targets_managed`: `cfgW` meets
the hypotheses, and the conclusions hold for it (with the repair) -/
example : TargetCfg.validate cfgW = .ok () ∧ "dev1" ∈ TargetCfg.keys cfgW.target ∧
    (TargetCfg.keys cfgW.target).Nodup ∧ (∀ kv ∈ cfgW.request, kv.2 ≠ TargetCfg.Req.nil) ∧
    (Coll.start cfgW).cache.hasTarget "dev1" = true ∧ "dev1" ∈ (Coll.start cfgW).managed := by
  have hv : TargetCfg.validate cfgW = .ok () := cfgW_valid
  have hk : "dev1" ∈ TargetCfg.keys cfgW.target := by decide
  have hr : ∀ kv ∈ cfgW.request, kv.2 ≠ TargetCfg.Req.nil := by decide
  exact ⟨hv, hk, by decide, hr, configured_targets_registered cfgW hv "dev1" hk,
    configured_targets_managed cfgW hv hr "dev1" hk⟩

/-! ## 3. `gnmi_cli`: how the subscription reaches `cli.QueryDisplay` -/

/-- `flagQuery` reads neither `-proto` nor `-proto_file` -/
theorem flagQuery_proto_irrelevant (a : CliArgs) (p f : String) :
    flagQuery { a with proto := p, protoFile := f } = flagQuery a := rfl

/-- **proto_file_same_as_proto** — `-proto_file f`, where file `f` holds `text`, is the same
invocation as `-proto text` (all other flags equal): same error, or the same query displayed. -/
theorem proto_file_same_as_proto (parse : String → Option PbReq) (fs : String → Option String)
    (a : CliArgs) (text : String) (hp : a.proto = "") (hf : a.protoFile ≠ "")
    (hfs : fs a.protoFile = some text) :
    executeSubscribe parse fs a = executeSubscribe parse fs { a with proto := text, protoFile := "" } := by
  have h1 : protoRequestFromFlags fs a = some text := by
    simp [protoRequestFromFlags, hf, hp, hfs]
  have h2 : protoRequestFromFlags fs { a with proto := text, protoFile := "" } = some text := by
    simp [protoRequestFromFlags]
  unfold executeSubscribe
  rw [h1, h2]
  simp only
  by_cases ht : text = ""
  · simp only [ht, ne_eq, not_true_eq_false, if_false]
    rfl
  · simp only [ne_eq, ht, not_false_eq_true, if_true]

/-- every path that arrives as itself (C19) converts without error, to itself -/
theorem conv_paths (paths : List Path) (h : ∀ p ∈ paths, C19.ArrivesAs p) :
    ((paths.map (fun p => PV.queryToPath p)).all
        (fun o => match o with | .ok _ => true | _ => false)) = true ∧
    (paths.map (fun p => PV.queryToPath p)).map
        (fun o => match o with | .ok g => PV.toStrings (some g) false | _ => []) = paths := by
  induction paths with
  | nil => exact ⟨rfl, rfl⟩
  | cons p r ih =>
    obtain ⟨g, hg, _, _, _, hts, _⟩ := h p List.mem_cons_self
    obtain ⟨ih1, ih2⟩ := ih (fun x hx => h x (List.mem_cons_of_mem _ hx))
    constructor
    · simp only [List.map_cons, List.all_cons, hg, Bool.true_and]
      exact ih1
    · simp only [List.map_cons, hg, hts]
      rw [ih2]

/-- the request `ToSubscribeRequest` builds for a flag-made query of plain paths: the paths
arrive as themselves -/
theorem requestSent_flags (target : String) (paths : List Path) (mode : Sub.Mode) (uo : Bool)
    (hplain : ∀ p ∈ paths, (∀ e ∈ p, PV.plain e = true) ∧ C19.LastNotSlash p) :
    requestSent { target := target, queries := paths, type := mode, updatesOnly := uo } =
      some { target := target, mode := mode, updatesOnly := uo, subs := paths } := by
  obtain ⟨h1, h2⟩ := conv_paths paths (fun p hp => C19.query_roundtrip_partial p (hplain p hp).1 (hplain p hp).2)
  unfold requestSent
  refine Eq.trans (if_pos ?_) ?_
  · exact h1
  · exact congrArg (fun l => some ({ target := target, mode := mode, updatesOnly := uo, subs := l } : PbReq)) h2

/-- a query made by `client.NewQuery` is sent as the request it was made from -/
theorem requestSent_newQuery (R : PbReq) (q : Query) (h : newQuery R = some q) : requestSent q = some R := by
  unfold newQuery at h
  split at h
  · cases h
  · split at h
    · cases h
    · cases h; rfl

/-- **cli_invocations_equivalent** — the three ways of handing the same subscription to
`gnmi_cli` — flags (`-t`, `-q`, `-qt`, `-u`), `-proto text`, `-proto_file file` — all reach
`cli.QueryDisplay`; the two proto routes with the *same* query, the flag route with a query of
the same target, paths and type; and all three put the same `SubscribeRequest` `R` on the wire
(so the server reads the same `Sub.Req`).  `R` is the (trusted) parse of `text`, and "describes
the flags": subscribe arm, a prefix, the target, mode, `updates_only` and paths of the flags.
The paths are in the C19 fragment (plain elements, last one not ending in `/`). -/
theorem cli_invocations_equivalent (parse : String → Option PbReq) (fs : String → Option String)
    (target : String) (qs : List String) (qt : String) (uo : Bool) (text file : String)
    (R : PbReq) (paths : List Path) (mode : Sub.Mode)
    (htext : text ≠ "") (hfile : file ≠ "") (hfs : fs file = some text) (hparse : parse text = some R)
    (hsub : R.hasSubscribe = true) (hpn : R.prefixNil = false) (htgt : R.target = target)
    (hmode : R.mode = mode) (huo : R.updatesOnly = uo) (hsubs : R.subs = paths)
    (hqt : queryType qt = some mode) (hqs : qs ≠ []) (hpq : parseQueries '/' qs = some paths)
    (hplain : ∀ p ∈ paths, (∀ e ∈ p, PV.plain e = true) ∧ C19.LastNotSlash p) :
    ∃ qf qp : Query,
      executeSubscribe parse fs { target := target, queries := qs, queryType := qt, updatesOnly := uo }
        = .display qf ∧
      executeSubscribe parse fs { proto := text } = .display qp ∧
      executeSubscribe parse fs { protoFile := file } = .display qp ∧
      qf.type = qp.type ∧ qf.target = qp.target ∧ qf.queries = qp.queries ∧
      qf.updatesOnly = qp.updatesOnly ∧
      requestSent qf = some R ∧ requestSent qp = some R ∧
      (requestSent qf).map PbReq.toReq = (requestSent qp).map PbReq.toReq := by
  have hR : R = { target := target, mode := mode, updatesOnly := uo, subs := paths } := by
    cases R
    simp only at hsub hpn htgt hmode huo hsubs
    subst hsub hpn htgt hmode huo hsubs
    rfl
  have hnq : newQuery R =
      some { target := target, queries := paths, type := mode, updatesOnly := uo, subReq := some R } := by
    unfold newQuery
    simp only [hsub, hpn, htgt, hmode, huo, hsubs, Bool.not_true, Bool.false_eq_true, if_false]
  have hproto : executeSubscribe parse fs { proto := text } =
      .display { target := target, queries := paths, type := mode, updatesOnly := uo, subReq := some R } := by
    have h0 : protoRequestFromFlags fs { proto := text } = some text := by simp [protoRequestFromFlags]
    unfold executeSubscribe
    rw [h0]
    simp only [ne_eq, htext, not_false_eq_true, if_true, hparse, hnq]
  have hfileR : executeSubscribe parse fs { protoFile := file } =
      .display { target := target, queries := paths, type := mode, updatesOnly := uo, subReq := some R } := by
    rw [proto_file_same_as_proto parse fs { protoFile := file } text rfl hfile hfs]
    exact hproto
  have hflag : executeSubscribe parse fs { target := target, queries := qs, queryType := qt, updatesOnly := uo } =
      .display { target := target, queries := paths, type := mode, updatesOnly := uo } := by
    have h0 : protoRequestFromFlags fs { target := target, queries := qs, queryType := qt, updatesOnly := uo }
        = some "" := by simp [protoRequestFromFlags]
    have hlen : ¬ qs.length = 0 := fun h => hqs (List.length_eq_zero_iff.1 h)
    unfold executeSubscribe
    rw [h0]
    simp only [ne_eq, not_true_eq_false, if_false, flagQuery, hqt, hlen, hpq]
  have hsf := requestSent_flags target paths mode uo hplain
  rw [← hR] at hsf
  have hsp := requestSent_newQuery R _ hnq
  exact ⟨_, _, hflag, hproto, hfileR, rfl, rfl, rfl, rfl, hsf, hsp, by rw [hsf, hsp]⟩

/-- **proto_file_ignored_preD17** — regression witness for defect D17: before the repair the
text handed to the parser was `*reqProto` (empty when only `-proto_file` is given), not the
file's content; `prototext.Unmarshal("")` yields a request without a `subscribe` arm, which
`NewQuery` rejects (here: `parse "" = none`), so every `-proto_file` invocation failed. -/
theorem proto_file_ignored_preD17 (parse : String → Option PbReq) (fs : String → Option String)
    (a : CliArgs) (text : String) (hp : a.proto = "") (hf : a.protoFile ≠ "")
    (hfs : fs a.protoFile = some text) (ht : text ≠ "") (hparse : parse "" = none) :
    executeSubscribePreD17 parse fs a = .error := by
  have h1 : protoRequestFromFlags fs a = some text := by
    simp [protoRequestFromFlags, hf, hp, hfs]
  unfold executeSubscribePreD17
  rw [h1]
  simp only [ne_eq, ht, not_false_eq_true, if_true, hp, hparse]

/-- the same with the other reading of "the empty text parses": if `parse ""` is a request
without the `subscribe` arm, `NewQuery` rejects it -/
theorem proto_file_ignored_preD17' (parse : String → Option PbReq) (fs : String → Option String)
    (a : CliArgs) (text : String) (R : PbReq) (hp : a.proto = "") (hf : a.protoFile ≠ "")
    (hfs : fs a.protoFile = some text) (ht : text ≠ "") (hparse : parse "" = some R)
    (hR : R.hasSubscribe = false) :
    executeSubscribePreD17 parse fs a = .error := by
  have h1 : protoRequestFromFlags fs a = some text := by
    simp [protoRequestFromFlags, hf, hp, hfs]
  unfold executeSubscribePreD17
  rw [h1]
  simp only [ne_eq, ht, not_false_eq_true, if_true, hp, hparse, newQuery, hR, Bool.not_false]

/-- witness objects for D17: a request, a parser that knows exactly the text `"R"`, a file
system holding exactly the file `"f"` -/
def R0 : PbReq := { target := "dev1", mode := .once, subs := [["interfaces", "eth0"]] }
/-- D17 witness parser: knows exactly the text `"R"` -/
def parseW (s : String) : Option PbReq := if s = "R" then some R0 else none
/-- D17 witness file system: holds exactly the file `"f"` -/
def fsW (f : String) : Option String := if f = "f" then some "R" else none

/-- on the same input the repaired `executeSubscribe` displays the query (non-vacuity of
`proto_file_ignored_preD17` and of `proto_file_same_as_proto`), the pre-repair one fails -/
example : executeSubscribe parseW fsW { protoFile := "f" } =
      .display { target := "dev1", queries := [["interfaces", "eth0"]], type := .once, subReq := some R0 } ∧
    executeSubscribePreD17 parseW fsW { protoFile := "f" } = .error ∧
    ({ protoFile := "f" } : CliArgs).proto = "" ∧ ({ protoFile := "f" } : CliArgs).protoFile ≠ "" ∧
    fsW "f" = some "R" ∧ "R" ≠ "" ∧ parseW "" = none := by
  decide

/-! ### `parseQuery` on a plain query string -/

/-- outside a key, the `parseQuery` loop copies a run of characters that are neither the delimiter nor
a bracket to the buffer -/
theorem pqLoop_elem (d : Char) : ∀ (e rest : List Char) (s : PQSt), s.inKey = false →
    (∀ c ∈ e, c ≠ d ∧ c ≠ '[' ∧ c ≠ ']') →
    pqLoop d (e ++ rest) s = pqLoop d rest { s with buf := s.buf ++ e.map some }
  | [], rest, s, _, _ => by simp
  | c :: e, rest, s, hk, he => by
    obtain ⟨h1, h2, h3⟩ := he c List.mem_cons_self
    have hstep : pqStep d s c = some { s with buf := s.buf ++ [some c] } := by
      simp [pqStep, h1, h2, h3]
    rw [List.cons_append, pqLoop, hstep]
    simp only
    rw [pqLoop_elem d e rest { s with buf := s.buf ++ [some c] } hk
      (fun x hx => he x (List.mem_cons_of_mem _ hx))]
    simp [List.append_assoc]

/-- outside a key, the `parseQuery` loop writes the NUL separator for a delimiter -/
theorem pqLoop_sep (d : Char) (hd1 : d ≠ '[') (hd2 : d ≠ ']') (rest : List Char) (s : PQSt)
    (hk : s.inKey = false) :
    pqLoop d (d :: rest) s = pqLoop d rest { s with buf := s.buf ++ [none] } := by
  have hstep : pqStep d s d = some { s with buf := s.buf ++ [none] } := by
    simp [pqStep, hd1, hd2, hk]
  rw [pqLoop, hstep]

/-- the `parseQuery` loop on plain elements joined by the delimiter: the buffer receives the elements
joined by NUL, and the loop ends outside a key -/
theorem pqLoop_join (d : Char) (hd1 : d ≠ '[') (hd2 : d ≠ ']') :
    ∀ (es : List (List Char)) (s : PQSt), es ≠ [] → s.inKey = false →
    (∀ e ∈ es, ∀ c ∈ e, c ≠ d ∧ c ≠ '[' ∧ c ≠ ']') →
    pqLoop d (List.intercalate [d] es) s =
      some { s with buf := s.buf ++ List.intercalate [none] (es.map (fun e => e.map some)) }
  | [], _, h, _, _ => absurd rfl h
  | [e], s, _, hk, he => by
    have := pqLoop_elem d e [] s hk (he e List.mem_cons_self)
    rw [List.append_nil] at this
    rw [List.intercalate_singleton, this]
    simp [pqLoop]
  | e :: e' :: r, s, _, hk, he => by
    rw [List.intercalate_cons_cons, List.append_assoc,
      pqLoop_elem d e _ s hk (he e List.mem_cons_self)]
    rw [List.singleton_append, pqLoop_sep d hd1 hd2 _ { s with buf := s.buf ++ e.map some } hk]
    rw [pqLoop_join d hd1 hd2 (e' :: r) { s with buf := s.buf ++ e.map some ++ [none] }
      (List.cons_ne_nil _ _) hk (fun x hx => he x (List.mem_cons_of_mem _ hx))]
    simp only [List.map_cons, List.intercalate_cons_cons, List.append_assoc]

/-- `strings.Split` on NUL reads a run of ordinary characters into the current piece -/
theorem pqSplit_elem : ∀ (e : List Char) (rest : List (Option Char)) (cur : List Char),
    pqSplit (e.map some ++ rest) cur = pqSplit rest (cur ++ e)
  | [], rest, cur => by simp
  | c :: e, rest, cur => by
    rw [List.map_cons, List.cons_append, pqSplit, pqSplit_elem e rest]
    simp [List.append_assoc]

/-- `strings.Split` on NUL of elements joined by NUL returns the elements -/
theorem pqSplit_join : ∀ (e : List Char) (r : List (List Char)) (cur : List Char),
    pqSplit (List.intercalate [none] ((e :: r).map (fun e => e.map some))) cur = (cur ++ e) :: r
  | e, [], cur => by
    have := pqSplit_elem e [] cur
    rw [List.append_nil] at this
    rw [List.map_cons, List.map_nil, List.intercalate_singleton, this]
    rfl
  | e, e' :: r, cur => by
    rw [List.map_cons, List.map_cons, List.intercalate_cons_cons, List.append_assoc, pqSplit_elem,
      List.singleton_append, pqSplit]
    have := pqSplit_join e' r []
    rw [List.map_cons] at this
    rw [this, List.nil_append]

/-- `strings.Trim` leaves alone a string that neither starts nor ends with the cut character -/
theorem trimChar_id (d : Char) (l : List Char) (h1 : ∀ c, l.head? = some c → c ≠ d)
    (h2 : ∀ c, l.getLast? = some c → c ≠ d) : trimChar d l = l := by
  have hdw : ∀ m : List Char, (∀ c, m.head? = some c → c ≠ d) → m.dropWhile (· = d) = m := by
    intro m hm
    cases m with
    | nil => rfl
    | cons c r =>
      have : c ≠ d := hm c rfl
      simp [this]
  unfold trimChar
  rw [hdw l h1, hdw l.reverse (by rw [List.head?_reverse]; exact h2), List.reverse_reverse]

/-- joining non-empty pieces (at least one) gives a non-empty list -/
theorem intercalate_ne_nil {α : Type} (sep : List α) :
    ∀ (es : List (List α)), es ≠ [] → (∀ e ∈ es, e ≠ []) → List.intercalate sep es ≠ []
  | [], h, _ => absurd rfl h
  | [e], _, he => by rw [List.intercalate_singleton]; exact he e List.mem_cons_self
  | e :: e' :: r, _, he => by
    rw [List.intercalate_cons_cons]
    intro h
    have := (List.append_eq_nil_iff.1 h).1
    exact he e List.mem_cons_self (List.append_eq_nil_iff.1 this).1

/-- the first item of joined non-empty pieces belongs to one of the pieces (not to a separator) -/
theorem intercalate_head {α : Type} (d : α) :
    ∀ (es : List (List α)), (∀ e ∈ es, e ≠ []) → ∀ c, (List.intercalate [d] es).head? = some c →
      ∃ e ∈ es, c ∈ e
  | [], _, c, h => by simp at h
  | [] :: r, he, _, _ => absurd rfl (he [] List.mem_cons_self)
  | (x :: e) :: r, _, c, h => by
    rw [List.intercalate_cons_cons_left] at h
    simp only [List.head?_cons, Option.some.injEq] at h
    subst h
    exact ⟨x :: e, List.mem_cons_self, List.mem_cons_self⟩

/-- the last item of joined non-empty pieces belongs to one of the pieces (not to a separator) -/
theorem intercalate_getLast {α : Type} (d : α) :
    ∀ (es : List (List α)), (∀ e ∈ es, e ≠ []) → ∀ c, (List.intercalate [d] es).getLast? = some c →
      ∃ e ∈ es, c ∈ e
  | [], _, c, h => by simp at h
  | [e], _, c, h => by
    rw [List.intercalate_singleton] at h
    exact ⟨e, List.mem_cons_self, List.mem_of_getLast? h⟩
  | e :: e' :: r, he, c, h => by
    have hne : List.intercalate [d] (e' :: r) ≠ [] :=
      intercalate_ne_nil [d] (e' :: r) (List.cons_ne_nil _ _) (fun x hx => he x (List.mem_cons_of_mem _ hx))
    rw [List.intercalate_cons_cons, List.getLast?_append] at h
    cases hl : (List.intercalate [d] (e' :: r)).getLast? with
    | none => exact absurd (List.getLast?_eq_none_iff.1 hl) hne
    | some c' =>
      rw [hl] at h
      simp only [Option.some_or, Option.some.injEq] at h
      subst h
      obtain ⟨x, hx, hc⟩ := intercalate_getLast d (e' :: r) (fun x hx => he x (List.mem_cons_of_mem _ hx)) c' hl
      exact ⟨x, List.mem_cons_of_mem _ hx, hc⟩

/-- **parse_query_plain** (character level) — `parseQuery` splits a query string made of
non-empty elements free of the delimiter, `[` and `]`, joined by the delimiter, into exactly those
elements (for any one-code-point delimiter other than the brackets; `gnmi_cli` uses `/`). -/
theorem parse_query_plain_chars (d : Char) (hd1 : d ≠ '[') (hd2 : d ≠ ']') (es : List (List Char))
    (hne : es ≠ []) (hes : ∀ e ∈ es, e ≠ [] ∧ ∀ c ∈ e, c ≠ d ∧ c ≠ '[' ∧ c ≠ ']') :
    parseQuery (String.ofList (List.intercalate [d] es)) d = some (es.map String.ofList) := by
  have hnn : ∀ e ∈ es, e ≠ [] := fun e he => (hes e he).1
  have hcs : ∀ e ∈ es, ∀ c ∈ e, c ≠ d ∧ c ≠ '[' ∧ c ≠ ']' := fun e he => (hes e he).2
  have htrim : trimChar d (List.intercalate [d] es) = List.intercalate [d] es := by
    apply trimChar_id
    · intro c hc
      obtain ⟨e, he, hce⟩ := intercalate_head d es hnn c hc
      exact (hcs e he c hce).1
    · intro c hc
      obtain ⟨e, he, hce⟩ := intercalate_getLast d es hnn c hc
      exact (hcs e he c hce).1
  unfold parseQuery
  rw [String.toList_ofList, htrim, pqLoop_join d hd1 hd2 es {} hne rfl hcs]
  simp only [Bool.false_eq_true, if_false, List.nil_append]
  cases es with
  | nil => exact absurd rfl hne
  | cons e r => rw [pqSplit_join e r []]; rfl

/-- **parse_query_plain** — the `-q` value `e₁/e₂/…/eₙ` (elements non-empty, without `/`, `[`,
`]`) is parsed to the path `[e₁, …, eₙ]`. -/
theorem parse_query_plain (es : List String) (hne : es ≠ [])
    (hes : ∀ e ∈ es, e ≠ "" ∧ ∀ c ∈ e.toList, c ≠ '/' ∧ c ≠ '[' ∧ c ≠ ']') :
    parseQuery (String.intercalate "/" es) '/' = some es := by
  have h := parse_query_plain_chars '/' (by decide) (by decide) (es.map String.toList)
    (by simpa using hne)
    (by
      intro e he
      obtain ⟨s, hs, rfl⟩ := List.mem_map.1 he
      refine ⟨?_, (hes s hs).2⟩
      intro h0
      apply (hes s hs).1
      rw [← String.ofList_toList (s := s), h0])
  have e1 : String.ofList (List.intercalate ['/'] (es.map String.toList)) = String.intercalate "/" es := by
    rw [← String.ofList_toList (s := String.intercalate "/" es), String.toList_intercalate]
    rfl
  rw [e1] at h
  rw [h]
  simp [Function.comp_def, String.ofList_toList]

/-- the same for the whole list of `-q` values: this discharges the hypothesis
`parseQueries '/' qs = some paths` of `cli_invocations_equivalent` for plain query strings -/
theorem parse_queries_plain : ∀ (ps : List (List String)),
    (∀ es ∈ ps, es ≠ [] ∧ ∀ e ∈ es, e ≠ "" ∧ ∀ c ∈ e.toList, c ≠ '/' ∧ c ≠ '[' ∧ c ≠ ']') →
    parseQueries '/' (ps.map (String.intercalate "/")) = some ps
  | [], _ => rfl
  | es :: r, h => by
    have h1 := parse_query_plain es (h es List.mem_cons_self).1 (h es List.mem_cons_self).2
    have h2 := parse_queries_plain r (fun x hx => h x (List.mem_cons_of_mem _ hx))
    simp only [List.map_cons, parseQueries, h1, h2, Option.map_some]

/-! ## 4. `client/gnmi`: what the client makes of a relayed leaf -/

/-- the index prefix of a relayed notification whose target and origin are set -/
theorem clientPrefix_full (t o : String) (p : Path) (ht : t ≠ "") (ho : o ≠ "") :
    clientPrefix t o p = t :: o :: p := by
  simp [clientPrefix, ht, ho]

/-- **decode_index_and_scalar** — what `client/gnmi` (`noti ∘ MakeSubscribeResponse`) and
`CacheClient.defaultHandler` make of a relayed one-leaf notification: one `Add` at the index path
`[target, origin] ++ prefix elements ++ path elements`, of a leaf carrying the notification's
timestamp and `value.ToScalar`'s value.  Nothing else of the client changes. -/
theorem decode_index_and_scalar (once : Bool) (c : Client) (hf : c.failed = false) (hs : c.stopped = false)
    (n : Noti) (u : Upd) (dup : Nat) (cv : CVal) (hu : n.upd = [u]) (hd : n.del = [])
    (hv : decodeVal u.val = .val cv) (ht : n.target ≠ "") (ho : n.origin ≠ "") :
    Client.recv once c (.upd n dup) =
      { c with tree := treeAdd c.tree (n.target :: n.origin :: (n.pfx ++ u.path)) { ts := n.ts, val := cv } } := by
  unfold Client.recv
  simp only [hf, hs, Bool.or_self, Bool.false_eq_true, if_false, hu, hd, recvUpdates, hv, List.map_nil,
    recvDeletes, clientPrefix_full _ _ _ ht ho, List.cons_append]

/-- … and when the add does not collide with a stored path (no stored key is a proper prefix or
a proper extension of the index path), the tree afterwards is the new leaf in front of what was
there under other keys -/
theorem decode_index_and_scalar_tree (once : Bool) (c : Client) (hf : c.failed = false) (hs : c.stopped = false)
    (n : Noti) (u : Upd) (dup : Nat) (cv : CVal) (hu : n.upd = [u]) (hd : n.del = [])
    (hv : decodeVal u.val = .val cv) (ht : n.target ≠ "") (ho : n.origin ≠ "")
    (hc : PMap.conflicts c.tree (n.target :: n.origin :: (n.pfx ++ u.path)) = false) :
    (Client.recv once c (.upd n dup)).tree =
      (n.target :: n.origin :: (n.pfx ++ u.path), { ts := n.ts, val := cv }) ::
        c.tree.filter (fun kv => kv.1 != n.target :: n.origin :: (n.pfx ++ u.path)) := by
  rw [decode_index_and_scalar once c hf hs n u dup cv hu hd hv ht ho]
  simp only [treeAdd, PMap.add, hc, Bool.false_eq_true, if_false]

/-- a colliding add is dropped: the tree is unchanged -/
theorem decode_index_and_scalar_conflict (once : Bool) (c : Client) (hf : c.failed = false) (hs : c.stopped = false)
    (n : Noti) (u : Upd) (dup : Nat) (cv : CVal) (hu : n.upd = [u]) (hd : n.del = [])
    (hv : decodeVal u.val = .val cv) (ht : n.target ≠ "") (ho : n.origin ≠ "")
    (hc : PMap.conflicts c.tree (n.target :: n.origin :: (n.pfx ++ u.path)) = true) :
    Client.recv once c (.upd n dup) = c := by
  rw [decode_index_and_scalar once c hf hs n u dup cv hu hd hv ht ho]
  simp only [treeAdd, PMap.add, hc, if_true]

/-- **decode_delete** — a relayed delete removes everything below
`[target]? ++ [origin]? ++ path` (`*` matching any element) and changes nothing else -/
theorem decode_delete (once : Bool) (c : Client) (hf : c.failed = false) (hs : c.stopped = false)
    (t o : String) (p : Path) (ts : Int) (dup : Nat) :
    Client.recv once c (.del t o p ts dup) = { c with tree := treeDelete c.tree (clientPrefix t o p) } := by
  unfold Client.recv
  simp only [hf, hs, Bool.or_self, Bool.false_eq_true, if_false]

/-- what `treeDelete` keeps: the stored keys the delete path does not select -/
theorem treeDelete_eq (m : PMap CLeaf) (p : Path) :
    treeDelete m p = m.filter (fun kv => !qmatches p kv.1) := by
  simp [treeDelete, PMap.delete]

/-- a sync response marks the client synced (and stops a ONCE / POLL client) -/
theorem decode_sync (once : Bool) (c : Client) (hf : c.failed = false) (hs : c.stopped = false) :
    Client.recv once c .sync = { c with synced := true, stopped := once } := by
  unfold Client.recv
  simp only [hf, hs, Bool.or_self, Bool.false_eq_true, if_false]

/-- a scalar of the fragment: any arm but "unset" and the arms `ToScalar` does not decode here -/
def Scalar.inFragment : Scalar → Bool
  | .unset => false
  | .other _ _ => false
  | _ => true

/-- `inFragment` says: not the unset arm and not an undecoded arm -/
theorem inFragment_iff (s : Scalar) :
    Scalar.inFragment s = true ↔ s ≠ .unset ∧ ∀ t d, s ≠ .other t d := by
  cases s <;> simp [Scalar.inFragment]

/-- `value.ToScalar` succeeds on every scalar of the fragment -/
theorem toScalar1_total (s : Scalar) (h : Scalar.inFragment s = true) : ∃ c, toScalar1 s = some c := by
  cases s <;> first | exact ⟨_, rfl⟩ | (simp [Scalar.inFragment] at h)

/-- `ToScalar` succeeds on every leaf-list of fragment scalars, element by element -/
theorem toScalarList_total : ∀ (l : List Scalar), (∀ s ∈ l, Scalar.inFragment s = true) →
    ∃ cs, toScalarList l = some cs ∧ cs.length = l.length
  | [], _ => ⟨[], rfl, rfl⟩
  | s :: r, h => by
    obtain ⟨c, hc⟩ := toScalar1_total s (h s List.mem_cons_self)
    obtain ⟨cs, hcs, hl⟩ := toScalarList_total r (fun x hx => h x (List.mem_cons_of_mem _ hx))
    exact ⟨c :: cs, by simp [toScalarList, hc, hcs], by simp [hl]⟩

/-- **decode_total** — on the scalar fragment (every oneof arm except "unset" and the
json / ascii / any / proto_bytes arms) `noti` never fails and never skips: a scalar decodes to
`ToScalar`'s scalar, a leaf-list of such scalars to the list of theirs (same length). -/
theorem decode_total :
    (∀ s : Scalar, s ≠ .unset → (∀ t d, s ≠ .other t d) →
      ∃ c, toScalar1 s = some c ∧ decodeVal (.scalar s) = .val (.scalar c) ∧
        decodeVal (.scalar s) ≠ .err ∧ decodeVal (.scalar s) ≠ .skip) ∧
    (∀ l : List Scalar, (∀ s ∈ l, s ≠ .unset ∧ ∀ t d, s ≠ .other t d) →
      ∃ cs, toScalarList l = some cs ∧ cs.length = l.length ∧ decodeVal (.leaflist l) = .val (.list cs) ∧
        decodeVal (.leaflist l) ≠ .err ∧ decodeVal (.leaflist l) ≠ .skip) := by
  constructor
  · intro s h1 h2
    obtain ⟨c, hc⟩ := toScalar1_total s ((inFragment_iff s).2 ⟨h1, h2⟩)
    have hd : decodeVal (.scalar s) = .val (.scalar c) := by simp [decodeVal, hc]
    exact ⟨c, hc, hd, by rw [hd]; simp, by rw [hd]; simp⟩
  · intro l h
    obtain ⟨cs, hcs, hl⟩ := toScalarList_total l (fun s hs => (inFragment_iff s).2 (h s hs))
    have hd : decodeVal (.leaflist l) = .val (.list cs) := by simp [decodeVal, hcs]
    exact ⟨cs, hcs, hl, hd, by rw [hd]; simp, by rw [hd]; simp⟩

/-- conversely the only ways `noti` fails are the excluded arms: a failed decode of a scalar
means it was "unset" or an undecoded arm -/
theorem decode_err_only_outside (s : Scalar) (h : decodeVal (.scalar s) = .err) :
    s = .unset ∨ ∃ t d, s = .other t d := by
  cases s <;> simp [decodeVal, toScalar1] at h ⊢

/-! ## Non-vacuity -/

/-- 1: a notification with its own origin and prefix, stamped -/
example :
    let n : Noti := { ts := 7, target := "x", origin := "oc", pfx := ["a"], praw := "o=oc;t=x;e=a;l=",
                      upd := [{ path := ["b"], val := .scalar (.int 3) }] }
    let s := stampTarget id "dev1" false n
    s.target = "dev1" ∧ s.origin = "oc" ∧ s.pfx = ["a"] ∧ s.ts = 7 ∧ s.upd = n.upd ∧
    (stampTarget id "dev1" true n).origin = "openconfig" ∧ (stampTarget id "dev1" true n).pfx = [] := by
  decide

/-- 3b: concrete flags, text, file and parsed request meeting every hypothesis of
`cli_invocations_equivalent` -/
def Rb : PbReq := { target := "dev1", mode := .stream, updatesOnly := true,
                    subs := [["interfaces", "eth0"], ["system"]] }
/-- 3b witness parser: knows exactly one text -/
def parseB (s : String) : Option PbReq := if s = "subscribe:<…>" then some Rb else none
/-- 3b witness file system: holds exactly the file `req.txt` -/
def fsB (f : String) : Option String := if f = "req.txt" then some "subscribe:<…>" else none

/-- the `-q` values of the 3b witness parse to its paths (leading / trailing `/` trimmed) -/
theorem parseQueries_b : parseQueries '/' ["interfaces/eth0", "/system/"] = some [["interfaces", "eth0"], ["system"]] := by
  decide

example : "subscribe:<…>" ≠ "" ∧ "req.txt" ≠ "" ∧ fsB "req.txt" = some "subscribe:<…>" ∧
    parseB "subscribe:<…>" = some Rb ∧ Rb.hasSubscribe = true ∧ Rb.prefixNil = false ∧
    Rb.target = "dev1" ∧ Rb.mode = .stream ∧ Rb.updatesOnly = true ∧
    Rb.subs = [["interfaces", "eth0"], ["system"]] ∧ queryType "s" = some .stream ∧
    ["interfaces/eth0", "/system/"] ≠ [] ∧
    parseQueries '/' ["interfaces/eth0", "/system/"] = some [["interfaces", "eth0"], ["system"]] ∧
    (∀ p ∈ [["interfaces", "eth0"], ["system"]], (∀ e ∈ p, PV.plain e = true) ∧ C19.LastNotSlash p) := by
  refine ⟨by decide, by decide, by decide, by decide, rfl, rfl, rfl, rfl, rfl, rfl, by decide, by decide,
    parseQueries_b, ?_⟩
  intro p hp
  simp only [List.mem_cons, List.not_mem_nil, or_false] at hp
  rcases hp with rfl | rfl
  · refine ⟨by decide, ?_⟩
    intro e he
    simp at he
    subst he
    decide
  · refine ⟨by decide, ?_⟩
    intro e he
    simp at he
    subst he
    decide

/-- … and the conclusion, computed: the three invocations display queries that send `Rb` -/
example : executeSubscribe parseB fsB
      { target := "dev1", queries := ["interfaces/eth0", "/system/"], queryType := "s", updatesOnly := true } =
      .display { target := "dev1", queries := [["interfaces", "eth0"], ["system"]], type := .stream,
                 updatesOnly := true } ∧
    executeSubscribe parseB fsB { proto := "subscribe:<…>" } = executeSubscribe parseB fsB { protoFile := "req.txt" } := by
  decide

/-- 3d: `parse_query_plain` applies to `interfaces/eth0` -/
example : parseQuery (String.intercalate "/" ["interfaces", "eth0"]) '/' = some ["interfaces", "eth0"] :=
  parse_query_plain ["interfaces", "eth0"] (by decide) (by decide)

/-- 4: a live client receiving a relayed one-leaf notification of the fragment -/
example :
    let c : Client := { tree := [(["dev1", "openconfig", "a", "c"], { ts := 1, val := .scalar (.str "old") })] }
    let u : Upd := { path := ["b"], val := .scalar (.uint 42) }
    let n : Noti := { ts := 7, target := "dev1", origin := "openconfig", pfx := ["a"], upd := [u] }
    c.failed = false ∧ c.stopped = false ∧ n.upd = [u] ∧ n.del = [] ∧
    decodeVal u.val = .val (.scalar (.uint 42)) ∧ n.target ≠ "" ∧ n.origin ≠ "" ∧
    PMap.conflicts c.tree (n.target :: n.origin :: (n.pfx ++ u.path)) = false ∧
    (Client.recv false c (.upd n 0)).tree =
      [(["dev1", "openconfig", "a", "b"], { ts := 7, val := .scalar (.uint 42) }),
       (["dev1", "openconfig", "a", "c"], { ts := 1, val := .scalar (.str "old") })] := by
  decide

end C01
end Gnmi
