import Gnmi.Lemmas.Coalesce
import Gnmi.Lemmas.CoalesceLTS
/-!
# C11 — Coalescing queue: first-insertion order, exact dup counts, no loss at close

Property theorems only (helper lemmas: `Lemmas/Coalesce.lean`, `Lemmas/CoalesceLTS.lean`).

Part 1 (sequential): for **every** history of `Insert`/`Next`/`Len`/`Close`/`IsClosed` calls
of one goroutine, over any item type, with every resolution of Go's random `select`.
Part 2 (concurrent): for **every** reachable configuration of the LTS `CoLTS` — any number of
producers and closers, one consumer, cancellation at any moment, every interleaving of the
atomic sections of `coalesce.go`.  What is proved there is the *protocol*; that the Go
runtime executes locked sections and channel operations atomically is trusted and validated
by the correspondence harness (`co`), not proved.

Input restrictions (stated in `Model/Coalesce.lean`): items are comparable with reflexive
equality; fewer than 2^32 coalesced inserts per pending item (`counter_bound`).
-/
namespace Gnmi
namespace C11
open Coalesce CoLTS

variable {Item : Type} [DecidableEq Item]

/-! ## Part 1 — one goroutine, all histories -/

/-- Every state reachable through the API satisfies the representation invariant. -/
theorem reachable_inv (ops : List (Op Item)) : QInv (run Q.new ops) :=
  (run_facts Q.new ops QInv.new).inv

/-- **No item is pending twice.** -/
theorem pending_nodup (ops : List (Op Item)) : (run Q.new ops).queue.Nodup :=
  (reachable_inv ops).nodup

/-- The map holds a counter for exactly the pending items. -/
theorem map_domain (ops : List (Op Item)) (i : Item) :
    ((run Q.new ops).coalesced.lookup i).isSome ↔ i ∈ (run Q.new ops).queue :=
  (reachable_inv ops).dom i

theorem abs_insert (q : Q Item) (i : Item) (hq : QInv q) :
    abs (insert q i).1 = ((abs q).insert i).1 ∧ (insert q i).2 = ((abs q).insert i).2 := by
  cases hc : q.closed with
  | true =>
    rw [insert_closed q i hc]
    have : (abs q).closed = true := hc
    simp [CoQ.insert, this]
  | false =>
    rw [insert_open q i hc]
    have hs := insertLocked_spec q i hq
    generalize (insertLocked q i).1 = q1 at hs ⊢
    generalize (insertLocked q i).2 = fresh at hs ⊢
    have hcl : (abs q).closed = false := hc
    have hk := abs_keys q
    unfold CoQ.insert
    simp only [hcl, Bool.false_eq_true, if_false, hk]
    cases fresh with
    | true =>
      have hi : i ∉ q.queue := hs.fresh_iff.1 rfl
      simp only [hi, if_false, if_true, and_true]
      have hq1 : q1.queue = q.queue ++ [i] := by rw [hs.queue_eq]; rfl
      have hcnt : ∀ j, cnt q1 j = cnt q j := by intro j; rw [hs.cnt_eq j]; simp
      show CoQ.mk ((postToken q1).queue.map (fun j => (j, cnt (postToken q1) j))) (postToken q1).closed = _
      have h1 : (postToken q1).queue = q.queue ++ [i] := hq1
      have h2 : ∀ j, cnt (postToken q1) j = cnt q j := hcnt
      have h3 : (postToken q1).closed = q.closed := hs.closed_eq
      rw [h1, h3, hc]
      simp only [h2, List.map_append, List.map_cons, List.map_nil, hs.cnt_fresh rfl]
      rfl
    | false =>
      have hi : i ∈ q.queue := by
        have := hs.fresh_iff
        by_cases h : i ∈ q.queue
        · exact h
        · exact absurd (this.2 h) (by simp)
      simp only [hi, if_true, Bool.false_eq_true, if_false, and_true]
      have hq1 : q1.queue = q.queue := by rw [hs.queue_eq]; rfl
      show CoQ.mk (q1.queue.map (fun j => (j, cnt q1 j))) q1.closed = _
      rw [hq1, hs.closed_eq, hc]
      have : (abs q).items = q.queue.map (fun j => (j, cnt q j)) := rfl
      rw [this, bump_map]
      congr 1
      apply List.map_congr_left
      intro j _
      rw [hs.cnt_eq j]
      by_cases hj : j = i <;> simp [hj]

theorem abs_same {q q' : Q Item} (h : SameData q q') : abs q' = abs q := by
  unfold abs
  rw [h.1, h.2.2]
  congr 1
  apply List.map_congr_left
  intro j _
  rw [h.cnt]

theorem emptyRes_allowed (q : Q Item) (c : Bool) (r : NextRes Item) (he : q.queue = [])
    (hr : EmptyRes c q.closed r) : r ∈ (abs q).nextAllowed c ∧ (abs q).afterNext r = abs q := by
  have hi : (abs q).items = [] := by simp [abs, he]
  have hcl : (abs q).closed = q.closed := rfl
  unfold CoQ.nextAllowed
  rw [hi, hcl]
  rcases hr with ⟨rfl, hc⟩ | ⟨rfl, hc⟩ | ⟨rfl, hc, hc'⟩
  · subst hc; cases q.closed <;> simp [CoQ.afterNext]
  · rw [hc]; cases c <;> simp [CoQ.afterNext]
  · rw [hc, hc']; simp [CoQ.afterNext]

/-- **Single-call refinement**: what the model answers (and the state it reaches) is one of
the outcomes the abstract coalescing queue allows. -/
theorem step_refines (q : Q Item) (op : Op Item) (hq : QInv q) :
    (abs (step q op).1, (step q op).2) ∈ specStep (abs q) op := by
  cases op with
  | insert i =>
    obtain ⟨h1, h2⟩ := abs_insert q i hq
    simp only [step, specStep, List.mem_singleton]
    rw [h1, h2]
  | next c pref =>
    simp only [step, specStep, List.mem_map]
    rcases next_cases q c pref hq with ⟨i, d, _, hs, he⟩ | ⟨he, hsd, hr⟩
    · rw [he]
      have hitems : (abs q).items = (i, d) :: (abs (nextLocked q).1).items := by
        show q.queue.map (fun j => (j, cnt q j)) = _
        rw [hs.queue_eq, List.map_cons, hs.dups_eq]
        congr 1
        apply List.map_congr_left
        intro j hj
        rw [hs.cnt_other j hj]
      refine ⟨.item i d, ?_, ?_⟩
      · unfold CoQ.nextAllowed; rw [hitems]; simp
      · unfold CoQ.afterNext
        simp only [hitems, List.tail_cons]
        have : (abs (nextLocked q).1).closed = (abs q).closed := hs.closed_eq
        rw [← this]
    · obtain ⟨h1, h2⟩ := emptyRes_allowed q c _ he hr
      exact ⟨_, h1, by rw [h2, abs_same hsd]⟩
  | len => simp [step, specStep, len, abs]
  | close => simp [step, specStep, close, abs, CoQ.close, cnt]
  | isClosed => simp [step, specStep, isClosed, abs]

/-- **`refines_spec`**: every history of the model is a history of the abstract coalescing
queue (`Spec/CoQueue.lean`: a list of `(item, duplicates)` in first-insertion order), with the
same observations, ending in the abstraction of the model's state. -/
theorem refines_spec (ops : List (Op Item)) :
    SpecRun (abs (Q.new : Q Item)) ops (observe Q.new ops) (abs (run Q.new ops)) := by
  suffices h : ∀ (q : Q Item), QInv q → SpecRun (abs q) ops (observe q ops) (abs (run q ops)) from
    h Q.new QInv.new
  induction ops with
  | nil => intro q _; exact SpecRun.nil _
  | cons op ops ih =>
    intro q hq
    exact SpecRun.cons (step_refines q op hq) (ih _ (step_facts q op hq).inv)

/-- … and conversely every answer the specification allows to `Next` is given by the model
under some choice of the runtime (the specification is not looser than the code). -/
theorem next_complete (q : Q Item) (c : Bool) (r : NextRes Item) (hq : QInv q)
    (hr : r ∈ (abs q).nextAllowed c) : ∃ pref, (next q c pref).2 = r := by
  cases hqq : q.queue with
  | cons a rest =>
    rcases next_cases q c [] hq with ⟨i, d, _, hs, he⟩ | ⟨he, _, _⟩
    · refine ⟨[], ?_⟩
      rw [he]
      have : (abs q).items = (a, cnt q a) :: rest.map (fun j => (j, cnt q j)) := by
        show q.queue.map (fun j => (j, cnt q j)) = _
        rw [hqq]; rfl
      unfold CoQ.nextAllowed at hr
      rw [this] at hr
      simp only [List.mem_singleton] at hr
      have h1 := hs.queue_eq
      rw [hqq] at h1
      injection h1 with h1 _
      subst h1
      rw [hr, hs.dups_eq]
    · rw [hqq] at he; cases he
  | nil =>
    have hi : (abs q).items = [] := by simp [abs, hqq]
    have hcl : (abs q).closed = q.closed := rfl
    unfold CoQ.nextAllowed at hr
    rw [hi, hcl] at hr
    have key : ∀ pref, EmptyRes c q.closed (next q c pref).2 := fun pref =>
      (nextLoop_empty 1 q c pref hqq).2
    have hctx : c = true → (next q c [Arm.ctx]).2 = .errCtx := by
      intro hc
      unfold next nextLoop
      rw [nextLocked_empty q hqq]
      simp only
      rw [choose_singleton _ _ ((mem_ready_ctx q c).2 hc)]
    have hclosed : q.closed = true → (next q c [Arm.closed]).2 = .errClosed := by
      intro hc
      unfold next nextLoop
      rw [nextLocked_empty q hqq]
      simp only
      rw [choose_singleton _ _ ((mem_ready_closed q c).2 hc)]
      have : len q = 0 := by unfold len; rw [hqq]; rfl
      simp only [this, if_true]
    cases c <;> cases hc : q.closed <;> rw [hc] at hr <;> simp at hr
    · refine ⟨[], ?_⟩
      rcases key [] with ⟨_, h⟩ | ⟨_, h⟩ | ⟨h, _⟩
      · cases h
      · rw [hc] at h; cases h
      · rw [h, hr]
    · exact ⟨_, hr ▸ hclosed hc⟩
    · exact ⟨_, hr ▸ hctx rfl⟩
    · rcases hr with rfl | rfl
      · exact ⟨_, hctx rfl⟩
      · exact ⟨_, hclosed hc⟩

/-- `Insert` returns `true` exactly for a *first pending* insertion, `false` for an insertion of
an item that is pending, and refuses exactly when closed. -/
theorem insert_fresh_iff (q : Q Item) (i : Item) (hq : QInv q) :
    ((insert q i).2 = .ok true ↔ q.closed = false ∧ i ∉ q.queue) ∧
    ((insert q i).2 = .ok false ↔ q.closed = false ∧ i ∈ q.queue) ∧
    ((insert q i).2 = .refused ↔ q.closed = true) := by
  cases hc : q.closed with
  | true => rw [insert_closed q i hc]; simp
  | false =>
    rw [insert_open q i hc]
    have hs := insertLocked_spec q i hq
    generalize (insertLocked q i).2 = fresh at hs ⊢
    have := hs.fresh_iff
    cases fresh <;> simp_all

/-- **`fifo_first_insertion`**: the items of the inserts that returned `true` (first pending
insertions, by `insert_fresh_iff`), in call order, are exactly the delivered items in delivery
order followed by the items still pending, in queue order.  Hence delivery order = order of
first pending insertion, nothing is delivered that was not inserted, nothing is skipped. -/
theorem fifo_first_insertion (ops : List (Op Item)) :
    freshInserts Q.new ops = (deliveries Q.new ops).map (·.1) ++ (run (Q.new : Q Item) ops).queue := by
  have := (run_facts (Q.new : Q Item) ops QInv.new).order
  simpa [Q.new] using this

/-- Per item, at every moment: successful inserts of `j` = insertions represented by the
deliveries of `j` (`1 + duplicates` each) + by its pending entry. -/
theorem item_conservation (ops : List (Op Item)) (j : Item) :
    (okInserts Q.new ops).count j =
      dsum j (deliveries Q.new ops) + pend (run (Q.new : Q Item) ops) j := by
  have := (run_facts (Q.new : Q Item) ops QInv.new).item j
  rw [pend_new] at this
  omega

/-- **`dup_exact`**: if `i` is not pending after `pre`, is not delivered during `mid`, and the
next call then delivers `(i, d)`, then `1 + d` is exactly the number of successful `Insert(i)`
calls in `mid` — the delivered count is the number of insertions while pending, minus one. -/
theorem dup_exact (pre mid : List (Op Item)) (i : Item) (c : Bool) (pref : List Arm) (d : Nat)
    (hpre : i ∉ (run (Q.new : Q Item) pre).queue)
    (hmid : ∀ e ∈ deliveries (run Q.new pre) mid, e.1 ≠ i)
    (hnext : (next (run (run Q.new pre) mid) c pref).2 = .item i d) :
    (okInserts (run Q.new pre) mid).count i = 1 + d := by
  have hq0 := reachable_inv (Item := Item) pre
  have hf := run_facts (run Q.new pre) mid hq0
  have h := hf.item i
  have h0 : pend (run (Q.new : Q Item) pre) i = 0 := by simp [pend, hpre]
  have hd : ∀ l : List (Item × Nat), (∀ e ∈ l, e.1 ≠ i) → dsum i l = 0 := by
    intro l hl
    induction l with
    | nil => rfl
    | cons e l ih =>
      obtain ⟨k, n⟩ := e
      have hk : k ≠ i := hl (k, n) (List.mem_cons_self ..)
      simp [dsum, hk, ih (fun e he => hl e (List.mem_cons_of_mem _ he))]
  rw [h0, hd _ hmid] at h
  rcases next_cases (run (run Q.new pre) mid) c pref hf.inv with ⟨i', d', _, hs, he⟩ | ⟨_, _, hr⟩
  · rw [he] at hnext
    simp only [NextRes.item.injEq] at hnext
    obtain ⟨rfl, rfl⟩ := hnext
    rw [hs.pend_self] at h
    omega
  · rw [hnext] at hr
    rcases hr with ⟨h, _⟩ | ⟨h, _⟩ | ⟨h, _⟩ <;> cases h

/-- **`conservation`**: Σ(1 + duplicates) over all deliveries + Σ(1 + duplicates) over the
pending entries = number of successful inserts.  Nothing is lost, nothing is counted twice. -/
theorem conservation (ops : List (Op Item)) :
    wsum (deliveries Q.new ops) + pendTotal (run (Q.new : Q Item) ops) = (okInserts Q.new ops).length := by
  have := (run_facts (Q.new : Q Item) ops QInv.new).total
  rw [pendTotal_new] at this
  omega

/-- **`closed_refuses`**: after `Close` anywhere in the history every `Insert` is refused and
leaves the queue untouched; the queue stays closed. -/
theorem closed_refuses (pre post : List (Op Item)) (i : Item) :
    let q := run (Q.new : Q Item) (pre ++ .close :: post)
    q.closed = true ∧ insert q i = (q, .refused) := by
  intro q
  have hc : q.closed = true := by
    show (run Q.new (pre ++ .close :: post)).closed = true
    rw [run_append]
    exact (run_facts _ post (step_facts _ .close (reachable_inv pre)).inv).closed_mono rfl
  exact ⟨hc, insert_closed q i hc⟩

/-- A non-empty queue is never answered with an error and never blocks: `Next` returns the
head with its counter — also when the queue is closed or the context cancelled (no loss at
close). -/
theorem next_returns_head (q : Q Item) (c : Bool) (pref : List Arm) (hq : QInv q) (i : Item)
    (rest : List Item) (h : q.queue = i :: rest) :
    (next q c pref).2 = .item i (cnt q i) ∧ (next q c pref).1.queue = rest := by
  rcases next_cases q c pref hq with ⟨i', d, _, hs, he⟩ | ⟨he, _, _⟩
  · rw [he]
    have h1 := hs.queue_eq
    rw [h] at h1
    injection h1 with h1 h2
    subst h1
    exact ⟨by rw [hs.dups_eq], h2.symm⟩
  · rw [h] at he; cases he

/-- `Next` reports `closed` only on a closed **and drained** queue; it blocks only on an open,
empty queue with a live context; a cancelled context is reported only on an empty queue. -/
theorem next_error_only_when_drained (q : Q Item) (c : Bool) (pref : List Arm) (hq : QInv q) :
    ((next q c pref).2 = .errClosed → q.queue = [] ∧ q.closed = true) ∧
    ((next q c pref).2 = .errCtx → q.queue = [] ∧ c = true) ∧
    ((next q c pref).2 = .blocks → q.queue = [] ∧ q.closed = false ∧ c = false) ∧
    (next q c pref).2 ≠ .outOfFuel := by
  rcases next_cases q c pref hq with ⟨i, d, _, _, he⟩ | ⟨he, _, hr⟩
  · rw [he]; simp
  · rcases hr with ⟨h, hc⟩ | ⟨h, hc⟩ | ⟨h, hc, hc'⟩ <;> rw [h] <;> simp [he, hc] <;> exact hc'

/-- Every counter is bounded by the number of successful inserts of its item: the `uint32`
of the implementation cannot wrap in a history with fewer than 2^32 inserts. -/
theorem counter_bound (ops : List (Op Item)) (j : Item) :
    cnt (run (Q.new : Q Item) ops) j ≤ (okInserts Q.new ops).count j := by
  have h := item_conservation ops j
  by_cases hj : j ∈ (run (Q.new : Q Item) ops).queue
  · have : pend (run (Q.new : Q Item) ops) j = 1 + cnt (run Q.new ops) j := by simp [pend, hj]
    omega
  · have hn : ((run (Q.new : Q Item) ops).coalesced.lookup j).isSome = false := by
      have : ¬ ((run (Q.new : Q Item) ops).coalesced.lookup j).isSome = true :=
        fun h => hj ((map_domain ops j).1 h)
      simpa using this
    have : cnt (run (Q.new : Q Item) ops) j = 0 := by
      unfold cnt
      cases hl : (run (Q.new : Q Item) ops).coalesced.lookup j with
      | none => rfl
      | some v => rw [hl] at hn; cases hn
    omega

/-- `Len` is the number of pending (distinct) items. -/
theorem len_spec (ops : List (Op Item)) :
    len (run (Q.new : Q Item) ops) = (abs (run (Q.new : Q Item) ops)).items.length := by
  simp [len, abs]

/-! ### non-vacuity: a concrete history exercising every clause -/

/-- `Insert 1, Insert 2, Insert 1, Insert 1, Next, Close, Insert 3, Next, Next` -/
def demoOps : List (Op Nat) :=
  [.insert 1, .insert 2, .insert 1, .insert 1, .next false [], .close, .insert 3,
   .next false [], .next false []]

example : observe Q.new demoOps =
    [.ins (.ok true), .ins (.ok true), .ins (.ok false), .ins (.ok false), .nxt (.item 1 2), .unit,
     .ins .refused, .nxt (.item 2 0), .nxt .errClosed] := by decide

example : deliveries Q.new demoOps = [(1, 2), (2, 0)] ∧ freshInserts Q.new demoOps = [1, 2] ∧
    okInserts Q.new demoOps = [1, 2, 1, 1] := by decide

/-- the hypotheses of `dup_exact` are satisfiable (`pre = []`, `mid` = the four inserts) -/
example : (okInserts (run Q.new ([] : List (Op Nat))) [.insert 1, .insert 2, .insert 1, .insert 1]).count 1 = 1 + 2 :=
  dup_exact [] [.insert 1, .insert 2, .insert 1, .insert 1] 1 false [] 2 (by decide) (by decide) (by decide)

/-- both errors are possible on a closed, drained queue with a cancelled context -/
example : (next (close (Q.new : Q Nat)) true [.ctx]).2 = .errCtx ∧
    (next (close (Q.new : Q Nat)) true [.closed]).2 = .errClosed := by decide

/-- a stale token is consumed and `Next` then blocks -/
example : next ({ token := true } : Q Nat) false [] = ({ token := false }, .blocks) := by decide

/-! ## Part 2 — any number of goroutines, all interleavings -/

/-- **`order_conservation_inv`**: in every reachable configuration, whatever the schedule:
no item is pending twice; the new-item inserts in lock order are exactly the deliveries in
order followed by the pending items (first-insertion FIFO); per item and in total the executed
locked inserts equal the insertions represented by deliveries plus pending entries. -/
theorem order_conservation_inv (c : Cfg Item) (h : Reach c) :
    c.q.queue.Nodup ∧
    c.freshLog = c.delivered.map (·.1) ++ c.q.queue ∧
    (∀ j, c.insLog.count j = dsum j c.delivered + pend c.q j) ∧
    c.insLog.length = wsum c.delivered + pendTotal c.q := by
  have hi := inv_reach h
  exact ⟨hi.qinv.nodup, hi.order, hi.item, hi.total⟩

/-- Every `Insert` call that executed its locked section has returned or is about to post. -/
theorem insert_accounting (c : Cfg Item) (h : Reach c) : c.completed + c.atP3 = c.insLog.length :=
  (inv_reach h).acct

/-- **`no_lost_wakeup`**: whenever the consumer sits at its `select` (after a failed
`q.next()`) while the queue is non-empty, the token is present, or the queue is closed, or some
producer is between its locked insert and its token post. -/
theorem no_lost_wakeup (c : Cfg Item) (h : Reach c) (hc : c.cons = .c2) (hq : c.q.queue ≠ []) :
    c.q.token = true ∨ c.q.closed = true ∨ 0 < c.atP3 :=
  (inv_reach h).wake hc hq

/-- … hence the consumer is woken **without any further `Insert`**: either one of its select
cases is enabled right now, or an already running producer posts the token and the token case
is enabled then. -/
theorem wakeup_progress (c : Cfg Item) (h : Reach c) (hc : c.cons = .c2) (hq : c.q.queue ≠ []) :
    (∃ c', Step c .cSelToken c') ∨ (∃ c', Step c .cSelClosed c') ∨
    (∃ c1 c2, Step c .pPost c1 ∧ Step c1 .cSelToken c2) := by
  rcases no_lost_wakeup c h hc hq with ht | hcl | hp
  · exact Or.inl ⟨_, Step.cSelToken c hc ht⟩
  · exact Or.inr (Or.inl ⟨_, Step.cSelClosed c hc hcl⟩)
  · exact Or.inr (Or.inr ⟨_, _, Step.pPost c hp, Step.cSelToken _ hc rfl⟩)

/-- Exact duplicate count of every single delivery, in every schedule: when the consumer's
`q.next()` delivers `(i, d)`, then `1 + d` is the number of locked inserts of `i` not yet
accounted for by earlier deliveries — i.e. since `i` last became pending. -/
theorem delivery_exact (c c' : Cfg Item) (h : Reach c) (hs : Step c .cNext c') (i : Item) (d : Nat)
    (hd : c'.delivered = c.delivered ++ [(i, d)]) :
    c.insLog.count i = dsum i c.delivered + (1 + d) := by
  have hi := inv_reach h
  cases hs with
  | cNext hc1 =>
    rcases nextCfg_eq c with ⟨_, he⟩ | ⟨i', d', hsome, he⟩
    · rw [he] at hd
      have : c.delivered.length = (c.delivered ++ [(i, d)]).length := congrArg List.length hd
      simp at this
    · rw [he] at hd
      have hd' : c.delivered ++ [(i', d')] = c.delivered ++ [(i, d)] := hd
      have := List.append_cancel_left hd'
      simp only [List.cons.injEq, Prod.mk.injEq, and_true] at this
      obtain ⟨rfl, rfl⟩ := this
      have hn := nextLocked_some c.q i' d' hi.qinv hsome
      rw [hi.item i', hn.pend_self]

/-- An insert wakes a waiting consumer: right after the locked section of any `Insert`, a
consumer at the `select` has the token or the closed flag, or the inserting producer is about
to post the token. -/
theorem insert_wakes (c c' : Cfg Item) (i : Item) (h : Reach c) (hc : c.cons = .c2)
    (hs : Step c (.pInsert i) c') :
    c'.q.token = true ∨ c'.q.closed = true ∨ 0 < c'.atP3 := by
  have hr : Reach c' := Reach.step h hs
  have hi := inv_reach h
  cases hs with
  | pInsert _ hm =>
    have hsp := insertLocked_spec c.q i hi.qinv
    have hcons : (insertCfg c i).cons = .c2 := by
      unfold insertCfg; simp only []; split <;> exact hc
    have hq : (insertCfg c i).q = (insertLocked c.q i).1 := by
      unfold insertCfg; simp only []; split <;> rfl
    apply no_lost_wakeup _ hr hcons
    rw [hq, hsp.queue_eq]
    cases hf : (insertLocked c.q i).2 with
    | true => simp
    | false =>
      have : i ∈ c.q.queue := by
        by_cases hmem : i ∈ c.q.queue
        · exact hmem
        · have := hsp.fresh_iff.2 hmem
          rw [hf] at this; cases this
      simp only [Bool.false_eq_true, if_false]
      exact List.ne_nil_of_mem this

/-- The consumer is blocked at its `select` exactly when no case is ready. -/
theorem consumer_blocked_iff (c : Cfg Item) (hc : c.cons = .c2) :
    (¬ ∃ a c', Step c (armLabel a) c') ↔ readyArms c = [] := by
  unfold readyArms
  rw [ready_nil]
  constructor
  · intro hn
    refine ⟨?_, ?_, ?_⟩
    · cases hcc : c.cancelled with
      | false => rfl
      | true => exact absurd ⟨.ctx, _, Step.cSelCtx c hc hcc⟩ hn
    · cases ht : c.q.token with
      | false => rfl
      | true => exact absurd ⟨.token, _, Step.cSelToken c hc ht⟩ hn
    · cases hcl : c.q.closed with
      | false => rfl
      | true => exact absurd ⟨.closed, _, Step.cSelClosed c hc hcl⟩ hn
  · rintro ⟨h1, h2, h3⟩ ⟨a, c', hs⟩
    cases a with
    | ctx => cases hs with | cSelCtx _ h => rw [h1] at h; cases h
    | token => cases hs with | cSelToken _ h => rw [h2] at h; cases h
    | closed => cases hs with | cSelClosed _ h => rw [h3] at h; cases h

/-- **`drain_before_closed`** (state form): once the consumer has been told `closed`, the queue
is closed and, per item, every insert whose locked section preceded the first `Close` — in
particular every `Insert` that *returned* before `Close` — has been delivered. -/
theorem drain_before_closed (c : Cfg Item) (h : Reach c) (hc : c.cons = .done .closed) :
    c.q.closed = true ∧ (∀ j, c.insLogAtClose.count j ≤ dsum j c.delivered) ∧
    c.completedAtClose ≤ c.insLogAtClose.length := by
  have hi := inv_reach h
  have hd := hi.drained hc
  exact ⟨hd.1, hd.2, (hi.snap hd.1).2⟩

/-- **`drain_before_closed`** (step form): the step by which `Next` returns `errClosedQueue` is
taken on an empty queue, and at that moment **every** locked insert executed so far has been
delivered (per item and in total). -/
theorem closed_return_drained (c c' : Cfg Item) (h : Reach c) (hs : Step c .cLen c')
    (hc : c'.cons = .done .closed) :
    c.q.queue = [] ∧ c.q.closed = true ∧ (∀ j, c.insLog.count j = dsum j c.delivered) ∧
    c.insLog.length = wsum c.delivered := by
  have hi := inv_reach h
  cases hs with
  | cLen hc3 =>
    unfold lenCfg at hc
    by_cases hl : len c.q = 0
    · have hq : c.q.queue = [] := List.eq_nil_of_length_eq_zero hl
      refine ⟨hq, hi.c3_closed hc3, ?_, ?_⟩
      · intro j
        have := hi.item j
        simpa [pend, hq] using this
      · have := hi.total
        simpa [pendTotal, hq] using this
    · rw [if_neg hl] at hc; cases hc

/-- The only way `Next` returns `errClosedQueue` is that step. -/
theorem closed_return_only_by_len (c c' : Cfg Item) (l : Label Item) (hs : Step c l c')
    (h0 : c.cons ≠ .done .closed) (h1 : c'.cons = .done .closed) : l = .cLen := by
  cases hs with
  | pRefused _ _ => exact absurd h1 h0
  | pCheck _ _ => exact absurd h1 h0
  | pInsert i _ =>
    exfalso; apply h0
    unfold insertCfg at h1
    simp only [] at h1
    split at h1 <;> exact h1
  | pPost _ => exact absurd h1 h0
  | cCall _ _ => cases h1
  | cNext _ =>
    exfalso
    rcases nextCfg_eq c with ⟨_, he⟩ | ⟨_, _, _, he⟩ <;> rw [he] at h1 <;> cases h1
  | cSelCtx _ _ => cases h1
  | cSelToken _ _ => cases h1
  | cSelClosed _ _ => cases h1
  | cLen _ => rfl
  | close =>
    exfalso; apply h0
    unfold closeCfg at h1
    split at h1 <;> exact h1
  | cancel => exact absurd h1 h0

/-- **`cancel_wakes`**: once its context is cancelled, a consumer waiting at the `select` has
an enabled step, and that step makes `Next` return the context's error. -/
theorem cancel_wakes (c : Cfg Item) (hc : c.cons = .c2) (hx : c.cancelled = true) :
    ∃ c', Step c .cSelCtx c' ∧ c'.cons = .done .cancelled :=
  ⟨_, Step.cSelCtx c hc hx, rfl⟩

/-- A consumer waiting at the `select` is woken by `Close`; if the queue is drained, the next
two steps return `closed`. -/
theorem close_wakes (c : Cfg Item) (hc : c.cons = .c2) (hx : c.q.closed = true) :
    ∃ c1, Step c .cSelClosed c1 ∧ ∃ c2, Step c1 .cLen c2 ∧
      (c.q.queue = [] → c2.cons = .done .closed) ∧ (c.q.queue ≠ [] → c2.cons = .c1) := by
  refine ⟨_, Step.cSelClosed c hc hx, _, Step.cLen _ rfl, ?_, ?_⟩
  · intro hq; simp [lenCfg, len, hq]
  · intro hq
    have : len c.q ≠ 0 := by
      unfold len
      intro h
      exact hq (List.eq_nil_of_length_eq_zero h)
    simp [lenCfg, this]

/-- An `Insert` that starts after `Close` is refused (it can only take the `pRefused` step);
one that passed the closed check earlier may still insert — the model has that window. -/
theorem insert_after_close_refused (c c' : Cfg Item) (i : Item) (hcl : c.q.closed = true) :
    ¬ Step c (.pCheck i) c' := by
  intro hs
  cases hs with
  | pCheck _ h => rw [hcl] at h; cases h

/-- Once closed, always closed (in every schedule). -/
theorem closed_stable {c c' : Cfg Item} {l : Label Item} (hs : Step c l c')
    (h : c.q.closed = true) : c'.q.closed = true := by
  cases hs with
  | pRefused _ _ => exact h
  | pCheck _ _ => exact h
  | pInsert i _ =>
    unfold insertCfg
    simp only []
    have := (insertLocked_closed c.q i)
    split <;> simpa [this] using h
  | pPost _ => exact h
  | cCall _ _ => exact h
  | cNext _ =>
    rcases nextCfg_eq c with ⟨_, he⟩ | ⟨_, _, _, he⟩ <;> rw [he] <;>
      simpa [nextLocked_closed c.q] using h
  | cSelCtx _ _ => exact h
  | cSelToken _ _ => exact h
  | cSelClosed _ _ => exact h
  | cLen _ => unfold lenCfg; split <;> exact h
  | close => unfold closeCfg; split <;> first | exact h | rfl
  | cancel => exact h

/-! ### the sequential model is a schedule of the LTS -/

/-- `Insert` run without interruption is the schedule `P1; P2; (P3)` of the LTS. -/
theorem seq_insert_is_schedule (c : Cfg Item) (i : Item) :
    ∃ ls c', fireAll c ls = some c' ∧ c'.q = (insert c.q i).1 ∧ c'.cons = c.cons ∧
      c'.atP2 = c.atP2 ∧ c'.atP3 = c.atP3 := by
  cases hc : c.q.closed with
  | true =>
    refine ⟨[.pRefused i], c, ?_, ?_, rfl, rfl, rfl⟩
    · simp [fireAll, fire, hc]
    · rw [insert_closed _ _ hc]
  | false =>
    rw [insert_open _ _ hc]
    cases hf : (insertLocked c.q i).2 with
    | true =>
      refine ⟨[.pCheck i, .pInsert i, .pPost], ?_⟩
      simp [fireAll, fire, hc, insertCfg, hf]
    | false =>
      refine ⟨[.pCheck i, .pInsert i], ?_⟩
      simp [fireAll, fire, hc, insertCfg, hf]

/-- how the consumer's program counter reflects what `Next` returned -/
def NextOutcome (c c' : Cfg Item) : NextRes Item → Prop
  | .item i d => c'.cons = .idle ∧ c'.delivered = c.delivered ++ [(i, d)]
  | .errClosed => c'.cons = .done .closed ∧ c'.delivered = c.delivered
  | .errCtx => c'.cons = .done .cancelled ∧ c'.delivered = c.delivered
  | .blocks => c'.cons = .c2 ∧ readyArms c' = [] ∧ c'.delivered = c.delivered
  | .outOfFuel => c'.delivered = c.delivered

theorem NextOutcome.of_delivered {c1 c2 c' : Cfg Item} {r : NextRes Item}
    (h : c1.delivered = c2.delivered) : NextOutcome c1 c' r → NextOutcome c2 c' r := by
  cases r <;> simp only [NextOutcome, h] <;> exact id

theorem nextLoop_is_schedule (n : Nat) (pref : List Arm) (c : Cfg Item) (hc : c.cons = .c1) :
    ∃ ls c', fireAll c ls = some c' ∧ c'.q = (nextLoop n c.q c.cancelled pref).1 ∧
      c'.cancelled = c.cancelled ∧ NextOutcome c c' (nextLoop n c.q c.cancelled pref).2 := by
  induction n generalizing c with
  | zero => exact ⟨[], c, rfl, rfl, rfl, rfl⟩
  | succ n ih =>
    have hfire : fire c .cNext = some (nextCfg c) := by simp [fire, hc]
    rcases nextCfg_eq c with ⟨hnone, he⟩ | ⟨i, d, hsome, he⟩
    · -- miss: the consumer is at the select
      obtain ⟨hq1, hempty⟩ := nextLocked_none c.q hnone
      have hc2 : nextCfg c = { c with cons := .c2 } := by rw [he, hq1]
      rw [hc2] at hfire
      rw [nextLoop_miss n c.q c.cancelled pref hempty]
      have hlen : len c.q = 0 := by unfold len; rw [hempty]; rfl
      cases hch : choose pref (ready c.q c.cancelled) with
      | none =>
        exact ⟨[.cNext], { c with cons := .c2 }, by rw [fireAll_cons _ hfire]; rfl, rfl, rfl, rfl,
          choose_none _ _ hch, rfl⟩
      | some a =>
        have hm := choose_mem _ _ _ hch
        cases a with
        | ctx =>
          have hx : c.cancelled = true := (mem_ready_ctx _ _).1 hm
          have hf2 : fire { c with cons := .c2 } .cSelCtx = some { c with cons := .done .cancelled } := by
            simp [fire, hx]
          exact ⟨[.cNext, .cSelCtx], { c with cons := .done .cancelled }, by rw [fireAll_cons _ hfire, fireAll_cons _ hf2]; rfl,
            rfl, rfl, rfl, rfl⟩
        | token =>
          have ht : c.q.token = true := (mem_ready_token _ _).1 hm
          have hf2 : fire { c with cons := .c2 } .cSelToken =
              some { c with q := { c.q with token := false }, cons := .c1 } := by
            simp [fire, ht]
          obtain ⟨ls, c', h1, h2, h3, h4⟩ :=
            ih { c with q := { c.q with token := false }, cons := .c1 } rfl
          exact ⟨.cNext :: .cSelToken :: ls, c',
            by rw [fireAll_cons _ hfire, fireAll_cons _ hf2]; exact h1, h2, h3,
            NextOutcome.of_delivered rfl h4⟩
        | closed =>
          have hcl : c.q.closed = true := (mem_ready_closed _ _).1 hm
          have hf2 : fire { c with cons := .c2 } .cSelClosed = some { c with cons := .c3 } := by
            simp [fire, hcl]
          have hf3 : fire { c with cons := .c3 } .cLen = some { c with cons := .done .closed } := by
            simp [fire, lenCfg, hlen]
          exact ⟨[.cNext, .cSelClosed, .cLen], { c with cons := .done .closed },
            by rw [fireAll_cons _ hfire, fireAll_cons _ hf2, fireAll_cons _ hf3]; rfl,
            rfl, rfl, rfl, rfl⟩
    · -- hit
      rw [nextLoop_hit n c.q c.cancelled pref i d hsome]
      refine ⟨[.cNext], nextCfg c, by rw [fireAll_cons _ hfire]; rfl, ?_, ?_, ?_⟩
      · rw [he]
      · rw [he]
      · rw [he]; exact ⟨rfl, rfl⟩

/-- `Next` run without interruption is a schedule of the consumer's transitions: the call,
then `C1`, then for every loop iteration the chosen `select` case (and `C3`).  Together with
`seq_insert_is_schedule` and `fireAll_reach`: every sequential history is an interleaving of
the LTS, so the invariants of Part 2 also hold along sequential histories. -/
theorem seq_next_is_schedule (c : Cfg Item) (hc : c.cons = .idle) (pref : List Arm) :
    ∃ ls c', fireAll c (.cCall false :: ls) = some c' ∧
      c'.q = (next c.q c.cancelled pref).1 ∧
      NextOutcome c c' (next c.q c.cancelled pref).2 := by
  have hfire : fire c (.cCall false) = some { c with cons := .c1 } := by
    simp [fire, hc]
  obtain ⟨ls, c', h1, h2, _, h4⟩ := nextLoop_is_schedule 3 pref { c with cons := .c1 } rfl
  refine ⟨ls, c', by rw [fireAll_cons _ hfire]; exact h1, h2, NextOutcome.of_delivered rfl h4⟩

/-! ### non-vacuity: the windows exist in the model -/

/-- The lost-wake-up window: the consumer finds the queue empty, a producer inserts; the
consumer is at the select with a non-empty queue and *no token yet* — `no_lost_wakeup`'s third
disjunct is the one that holds. -/
example : ∃ c : Cfg Nat, Reach c ∧ c.cons = .c2 ∧ c.q.queue = [7] ∧ c.q.token = false ∧
    c.q.closed = false ∧ c.atP3 = 1 := by
  have h : fireAll (Cfg.init : Cfg Nat) [.cCall true, .cNext, .pCheck 7, .pInsert 7] = some
      { q := { queue := [7], coalesced := [(7, 0)] }, cons := .c2, atP3 := 1, insLog := [7],
        freshLog := [7] } := by decide
  exact ⟨_, fireAll_reach _ Reach.init h, rfl, rfl, rfl, rfl, rfl⟩

/-- The insert-vs-close window: a producer passes the closed check, `Close` runs, the consumer
is told `closed`, then the producer inserts: the item is pending on a closed queue whose
consumer has gone.  (Allowed by the property: that `Insert` had not returned before `Close`.) -/
example : ∃ c : Cfg Nat, Reach c ∧ c.cons = .done .closed ∧ c.q.queue = [7] ∧ c.insLogAtClose = [] := by
  have h : fireAll (Cfg.init : Cfg Nat)
      [.pCheck 7, .close, .cCall true, .cNext, .cSelClosed, .cLen, .pInsert 7] = some
      { q := { queue := [7], coalesced := [(7, 0)], closed := true }, cons := .done .closed,
        atP3 := 1, insLog := [7], freshLog := [7] } := by decide
  exact ⟨_, fireAll_reach _ Reach.init h, rfl, rfl, rfl⟩

/-- `drain_before_closed` is not vacuous: insert, close, drain, closed. -/
example : ∃ c : Cfg Nat, Reach c ∧ c.cons = .done .closed ∧ c.insLogAtClose = [7, 7] ∧
    c.delivered = [(7, 1)] := by
  have h : fireAll (Cfg.init : Cfg Nat)
      [.pCheck 7, .pInsert 7, .pPost, .pCheck 7, .pInsert 7, .close, .cCall true, .cNext,
       .cCall false, .cNext, .cSelToken, .cNext, .cSelClosed, .cLen] = some
      { q := { closed := true }, cons := .done .closed, insLog := [7, 7], freshLog := [7],
        delivered := [(7, 1)], completed := 2, insLogAtClose := [7, 7], completedAtClose := 2 } := by
    decide
  exact ⟨_, fireAll_reach _ Reach.init h, rfl, rfl, rfl⟩

end C11
end Gnmi
