import Gnmi.Props.C03Multi
/-!
# C03 / C02 — "multi = units one at a time" at `Target.GnmiUpdate` level without a future threshold

`C03Multi.multi_eq_units` proves the clause at the level of `Target.dispatch` (the `switch` of
`Target.GnmiUpdate`) and `not_multiEqUnitsAtGnmiUpdate` refutes it at `Target.GnmiUpdate` level
when a future threshold is configured (`checkTimestamp` is deferred to the end of a multi-update
notification).  This file closes the remaining case: **`cfg.futureThr ≤ 0`** (the default: no
future threshold).

* `dispatch_setLatest` — without a threshold `Target.dispatch` neither reads nor writes the
  target's latest timestamp (`Target.ts`): it commutes with overwriting that field.
* `multi_eq_units_at_gnmiUpdate_no_threshold` — for every target state, clock and non-atomic
  notification with at least two updates/deletes which does not panic: `Target.GnmiUpdate` of the
  whole notification and `Target.GnmiUpdate` of its single-update units in order, then its
  single-delete units, one at a time, give the same feed event groups in the same order and the
  same target **except possibly for the latest timestamp** (tree, every metadata counter, sync,
  name, server name agree).
* what differs, exactly: `tracksTimestamp?` (the `if u := n.GetUpdate(); len(u) > 0` block at the
  top of `Target.GnmiUpdate`) looks at the **first** update only.  `latest_differs_meta_first`: a
  notification whose first update is under `meta/` and whose second is a plain leaf does not move
  the latest timestamp, its units do; `latest_differs_meta_second`: first update a (rejected)
  plain leaf, second under `meta/` (accepted): the multi notification moves the latest timestamp,
  its units do not.  Both checked against the Go code: `corpus/C03/multi_vs_units_latest.ops`.
* `multi_eq_units_at_gnmiUpdate_no_threshold_full` — when no update of the notification is
  addressed under `meta/` (every single-update unit tracks its timestamp) the two targets are
  **equal**, latest timestamp included.
* `multiEqUnitsAtGnmiUpdate_noThr` — the statement `C03.MultiEqUnitsAtGnmiUpdate` (refuted in
  general) restricted to `cfg.futureThr ≤ 0` holds (under its own hypotheses `TInv t`,
  `n.target ≠ ""`, which exclude panics).
-/
namespace Gnmi
namespace C03
open Cache

/-- overwrite `Target.ts` -/
def setLatest (l : Option Int) (t : Target) : Target := { t with latest := l }

@[simp] theorem setLatest_setLatest (l l' : Option Int) (t : Target) :
    setLatest l (setLatest l' t) = setLatest l t := rfl
@[simp] theorem setLatest_self (t : Target) : setLatest t.latest t = t := rfl
@[simp] theorem setLatest_tree (l : Option Int) (t : Target) : (setLatest l t).tree = t.tree := rfl
@[simp] theorem setLatest_md (l : Option Int) (t : Target) : (setLatest l t).md = t.md := rfl
@[simp] theorem setLatest_latest (l : Option Int) (t : Target) : (setLatest l t).latest = l := rfl

/-! ## without a threshold `dispatch` does not depend on `latest` -/

theorem verdict_noThr (cfg : Cfg) (hthr : cfg.futureThr ≤ 0) (now : Int) (l l' : Option Int) (old n : Noti) :
    verdict cfg now l old n = verdict cfg now l' old n := by
  have : ¬ cfg.futureThr > 0 := by omega
  simp [verdict, this]

theorem updateCore_setLatest (cfg : Cfg) (hthr : cfg.futureThr ≤ 0) (now : Int) (l : Option Int) (t : Target)
    (rd : Bool) (p : Path) (n : Noti) (u : Upd) :
    updateCore cfg now (setLatest l t) rd p n u =
      ((updateCore cfg now t rd p n u).1, setLatest l (updateCore cfg now t rd p n u).2.1,
       (updateCore cfg now t rd p n u).2.2) := by
  unfold updateCore
  simp only [setLatest_tree, setLatest_md, setLatest_latest]
  cases hlk : lookup t.tree p with
  | none =>
    simp only
    cases PMap.add t.tree p n <;> cases rd <;> simp [setLatest]
  | some old =>
    simp only
    rw [verdict_noThr cfg hthr now l t.latest old n]
    cases verdict cfg now t.latest old n
    · simp [setLatest]
    · simp [setLatest]
    · simp only
      by_cases h1 : (n.atomic || old.atomic) = true
      · simp [h1, setLatest]
      · simp only [h1, Bool.false_eq_true, if_false]
        cases old.upd with
        | nil => simp [setLatest]
        | cons ou _ =>
          simp only
          by_cases h2 : (valueEqual ou.val u.val && cfg.eventDriven) = true
          · simp [h2, setLatest]
          · simp [h2, setLatest]

theorem metaSideEffect_setLatest (l : Option Int) (t : Target) (name : String) (v : Val) :
    metaSideEffect (setLatest l t) name v = (metaSideEffect t name v).map (setLatest l) := by
  unfold metaSideEffect
  repeat' split
  all_goals simp [setLatest]

theorem metaPre_setLatest (l : Option Int) (t : Target) (h : String) (rest : Path) (v : Val) :
    metaPre (setLatest l t) h rest v = (metaPre t h rest v).map (fun q => (setLatest l q.1, q.2)) := by
  unfold metaPre
  split
  · cases rest with
    | nil => rfl
    | cons name _ =>
      simp only [metaSideEffect_setLatest]
      cases metaSideEffect t name v <;> rfl
  · rfl

theorem gnmiUpdate1_setLatest (cfg : Cfg) (hthr : cfg.futureThr ≤ 0) (now : Int) (l : Option Int) (t : Target)
    (n : Noti) :
    Target.gnmiUpdate1 cfg now (setLatest l t) n =
      ((Target.gnmiUpdate1 cfg now t n).1, setLatest l (Target.gnmiUpdate1 cfg now t n).2.1,
       (Target.gnmiUpdate1 cfg now t n).2.2) := by
  unfold Target.gnmiUpdate1
  cases n.upd with
  | nil => rfl
  | cons u _ =>
    simp only
    cases updKey? n u with
    | none => rfl
    | some k =>
      cases k with
      | nil => rfl
      | cons h rest =>
        simp only [metaPre_setLatest]
        cases metaPre t h rest u.val with
        | none => rfl
        | some q => exact updateCore_setLatest cfg hthr now l q.1 q.2 (h :: rest) n u

theorem resetMetaFor_setLatest (l : Option Int) (t : Target) (p : Path) :
    resetMetaFor (setLatest l t) p = setLatest l (resetMetaFor t p) := by
  unfold resetMetaFor
  split
  · split <;> rfl
  · rfl

theorem removeCore_setLatest (l : Option Int) (t : Target) (ts : Int) (p : Path) :
    removeCore (setLatest l t) ts p =
      (setLatest l (removeCore t ts p).1, (removeCore t ts p).2.1, (removeCore t ts p).2.2) := by
  unfold removeCore
  simp only [setLatest_tree, setLatest_md]
  split
  · rfl
  · split <;> rfl

theorem gnmiRemove1_setLatest (l : Option Int) (t : Target) (n : Noti) :
    Target.gnmiRemove1 (setLatest l t) n =
      (setLatest l (Target.gnmiRemove1 t n).1, (Target.gnmiRemove1 t n).2.1, (Target.gnmiRemove1 t n).2.2) := by
  unfold Target.gnmiRemove1
  cases n.del with
  | nil => rfl
  | cons d _ =>
    simp only
    cases joinKey? n d.path with
    | none => rfl
    | some p => simp only [resetMetaFor_setLatest, removeCore_setLatest]

/-- the accumulator with its target's latest timestamp overwritten -/
def accSetLatest (l : Option Int) (a : MultiAcc) : MultiAcc := { a with t := setLatest l a.t }

@[simp] theorem accSetLatest_panicked (l : Option Int) (a : MultiAcc) : (accSetLatest l a).panicked = a.panicked := rfl
@[simp] theorem accSetLatest_anyErr (l : Option Int) (a : MultiAcc) : (accSetLatest l a).anyErr = a.anyErr := rfl
@[simp] theorem accSetLatest_anyOk (l : Option Int) (a : MultiAcc) : (accSetLatest l a).anyOk = a.anyOk := rfl
@[simp] theorem accSetLatest_evs (l : Option Int) (a : MultiAcc) : (accSetLatest l a).evs = a.evs := rfl
@[simp] theorem accSetLatest_t (l : Option Int) (a : MultiAcc) : (accSetLatest l a).t = setLatest l a.t := rfl

theorem multiUpdates_setLatest (cfg : Cfg) (hthr : cfg.futureThr ≤ 0) (now : Int) (l : Option Int) (hdr : Noti) :
    ∀ (us : List Upd) (acc : MultiAcc),
      multiUpdates cfg now hdr us (accSetLatest l acc) = accSetLatest l (multiUpdates cfg now hdr us acc)
  | [], _ => rfl
  | u :: us, ⟨ae, ao, true, t0, ev0⟩ => by simp [multiUpdates, accSetLatest]
  | u :: us, ⟨ae, ao, false, t0, ev0⟩ => by
    unfold multiUpdates
    simp only [accSetLatest, Bool.false_eq_true, if_false]
    simp only [gnmiUpdate1_setLatest cfg hthr now l t0]
    generalize Target.gnmiUpdate1 cfg now t0 { hdr with upd := [u], del := [] } = g
    obtain ⟨res, t', ev⟩ := g
    simp only
    by_cases h1 : res = .panic
    · simp [h1]
    · simp only [h1, if_false]
      by_cases h2 : res.isErr = true
      · simp only [h2, if_true]
        exact multiUpdates_setLatest cfg hthr now l hdr us ⟨true, ao, false, t', ev0⟩
      · simp only [h2, Bool.false_eq_true, if_false]
        cases ev with
        | none => exact multiUpdates_setLatest cfg hthr now l hdr us ⟨ae, true, false, t', ev0⟩
        | some nd =>
          exact multiUpdates_setLatest cfg hthr now l hdr us
            ⟨ae, true, false, { t' with md := { t'.md with updated := t'.md.updated + 1 } }, ev0 ++ [[Event.upd nd]]⟩

theorem multiDeletes_setLatest (l : Option Int) (hdr : Noti) :
    ∀ (ds : List Del) (acc : MultiAcc),
      multiDeletes hdr ds (accSetLatest l acc) = accSetLatest l (multiDeletes hdr ds acc)
  | [], _ => rfl
  | d :: ds, ⟨ae, ao, true, t0, ev0⟩ => by simp [multiDeletes, accSetLatest]
  | d :: ds, ⟨ae, ao, false, t0, ev0⟩ => by
    unfold multiDeletes
    simp only [accSetLatest, Bool.false_eq_true, if_false]
    have e : ({ setLatest l t0 with md := { (setLatest l t0).md with updated := (setLatest l t0).md.updated + 1 } } : Target) =
        setLatest l { t0 with md := { t0.md with updated := t0.md.updated + 1 } } := rfl
    simp only [e, gnmiRemove1_setLatest]
    generalize Target.gnmiRemove1 { t0 with md := { t0.md with updated := t0.md.updated + 1 } }
      { hdr with upd := [], del := [d] } = g
    obtain ⟨t', evs, pan⟩ := g
    simp only
    cases pan
    · simp only [Bool.false_eq_true, if_false]
      exact multiDeletes_setLatest l hdr ds ⟨ae, ao, false, t', if evs.isEmpty then ev0 else ev0 ++ [evs]⟩
    · simp

theorem singleArm_setLatest (l : Option Int) (r : Res × Target × Option Noti) (cnt : Int) :
    singleArm (r.1, setLatest l r.2.1, r.2.2) cnt =
      ((singleArm r cnt).1, setLatest l (singleArm r cnt).2.1, (singleArm r cnt).2.2) := by
  obtain ⟨res, t', ev⟩ := r
  unfold singleArm
  simp only
  split
  · rfl
  · cases ev <;> rfl

/-- **`dispatch` is independent of the latest timestamp** when no future threshold is configured:
it neither reads nor writes `Target.ts`. -/
theorem dispatch_setLatest (cfg : Cfg) (hthr : cfg.futureThr ≤ 0) (now : Int) (l : Option Int) (t : Target)
    (n : Noti) :
    Target.dispatch cfg now (setLatest l t) n =
      ((t.dispatch cfg now n).1, setLatest l (t.dispatch cfg now n).2.1, (t.dispatch cfg now n).2.2) := by
  unfold Target.dispatch
  split
  · split
    · rfl
    · split
      · rfl
      · rw [gnmiUpdate1_setLatest cfg hthr]; exact singleArm_setLatest l _ _
  · split
    · have e : ({ t := setLatest l t } : MultiAcc) = accSetLatest l ({ t := t } : MultiAcc) := rfl
      simp only [e, multiUpdates_setLatest cfg hthr, multiDeletes_setLatest, accSetLatest_panicked,
        accSetLatest_anyErr, accSetLatest_anyOk, accSetLatest_evs, accSetLatest_t]
      split <;> rfl
    · split
      · rw [gnmiUpdate1_setLatest cfg hthr]; exact singleArm_setLatest l _ _
      · split
        · have e : ({ setLatest l t with md := { (setLatest l t).md with updated := (setLatest l t).md.updated + 1 } } : Target) =
              setLatest l { t with md := { t.md with updated := t.md.updated + 1 } } := rfl
          simp only [e, gnmiRemove1_setLatest]
          split <;> rfl
        · rfl

/-- without a threshold `dispatch` leaves the latest timestamp alone (for every state: no
invariant needed) -/
theorem dispatch_latest (cfg : Cfg) (hthr : cfg.futureThr ≤ 0) (now : Int) (t : Target) (n : Noti) :
    (t.dispatch cfg now n).2.1.latest = t.latest := by
  have h := dispatch_setLatest cfg hthr now t.latest t n
  rw [setLatest_self] at h
  have := congrArg (fun r => r.2.1.latest) h
  simpa using this

/-! ## `checkTimestamp` on the field -/

/-- `checkTimestamp` as a function of the field -/
def checkL (l : Option Int) (ts : Int) : Option Int :=
  match l with
  | none => some ts
  | some x => if ts > x then some ts else some x

theorem checkTimestamp_setLatest (l : Option Int) (t : Target) (ts : Int) :
    (setLatest l t).checkTimestamp ts = setLatest (checkL l ts) t := by
  unfold Target.checkTimestamp checkL
  cases l with
  | none => rfl
  | some x => simp only [setLatest_latest]; split <;> rfl

theorem checkL_idem (l : Option Int) (ts : Int) : checkL (checkL l ts) ts = checkL l ts := by
  unfold checkL
  cases l with
  | none => simp
  | some x => by_cases h : ts > x <;> simp [h]

/-- `GnmiUpdate` on a state whose latest timestamp was overwritten, without a threshold -/
theorem gnmiUpdate_setLatest (cfg : Cfg) (hthr : cfg.futureThr ≤ 0) (now : Int) (l : Option Int) (t : Target)
    (n : Noti) (b : Bool) (hb : tracksTimestamp? n = some b) :
    (setLatest l t).gnmiUpdate cfg now n =
      ((t.dispatch cfg now n).1,
       setLatest (if (t.dispatch cfg now n).2.2.2 && b then checkL l n.ts else l) (t.dispatch cfg now n).2.1,
       (t.dispatch cfg now n).2.2.1) := by
  unfold Target.gnmiUpdate
  rw [hb]
  simp only [dispatch_setLatest cfg hthr]
  split
  · rw [checkTimestamp_setLatest]
  · rfl

/-! ## the units one at a time -/

/-- a unit whose `tracksTimestamp?` panics makes `dispatch` panic as well (same `p[1:]`) -/
def PanicsTogether (cfg : Cfg) (now : Int) (m : Noti) : Prop :=
  tracksTimestamp? m = none → ∀ t : Target, (t.dispatch cfg now m).1 = .panic

theorem updUnit_panicsTogether (cfg : Cfg) (now : Int) (hdr : Noti) (ha : hdr.atomic = false) (u : Upd) :
    PanicsTogether cfg now { hdr with upd := [u], del := [] } := by
  intro h t
  have hd := dispatch_single_upd cfg now t { hdr with upd := [u], del := [] } u ha rfl rfl
  rw [hd]
  unfold tracksTimestamp? at h
  simp only at h
  have hk : updKey? { hdr with upd := [u], del := [] } u = none := by
    cases hk : updKey? { hdr with upd := [u], del := [] } u with
    | none => rfl
    | some k => rw [hk] at h; cases k <;> simp at h
  unfold Target.gnmiUpdate1
  simp [hk, singleArm, Res.isErr]

theorem delUnit_tracks (hdr : Noti) (d : Del) :
    tracksTimestamp? { hdr with upd := [], del := [d] } = some false := rfl

theorem delUnit_panicsTogether (cfg : Cfg) (now : Int) (hdr : Noti) (d : Del) :
    PanicsTogether cfg now { hdr with upd := [], del := [d] } := by
  intro h; rw [delUnit_tracks] at h; cases h

/-- **The units through `GnmiUpdate` follow the units through `dispatch`** up to the latest
timestamp: generalised over the accumulator. -/
theorem seqGnmiUpdate_follows (cfg : Cfg) (hthr : cfg.futureThr ≤ 0) (now : Int) :
    ∀ (ms : List Noti) (acc : MultiAcc) (l : Option Int), acc.panicked = false →
      (seqDispatch cfg now ms acc).panicked = false →
      (∀ m ∈ ms, PanicsTogether cfg now m) →
      ∃ l', seqGnmiUpdate cfg now ms (setLatest l acc.t, acc.evs) =
        (setLatest l' (seqDispatch cfg now ms acc).t, (seqDispatch cfg now ms acc).evs)
  | [], acc, l, _, _, _ => ⟨l, rfl⟩
  | m :: ms, ⟨ae, ao, true, t0, ev0⟩, l, hp, _, _ => by cases hp
  | m :: ms, ⟨ae, ao, false, t0, ev0⟩, l, _, hq, hpt => by
    have hm := hpt m (List.mem_cons_self ..)
    unfold seqDispatch at hq ⊢
    simp only [Bool.false_eq_true, if_false] at hq ⊢
    by_cases h1 : (Target.dispatch cfg now t0 m).1 = .panic
    · simp [h1] at hq
    · simp only [h1, if_false] at hq ⊢
      cases hb : tracksTimestamp? m with
      | none => exact absurd (hm hb t0) h1
      | some b =>
        unfold seqGnmiUpdate
        simp only [gnmiUpdate_setLatest cfg hthr now l t0 m b hb]
        exact seqGnmiUpdate_follows cfg hthr now ms
          ⟨ae || (Target.dispatch cfg now t0 m).1.isErr, ao || (Target.dispatch cfg now t0 m).2.2.2, false,
           (Target.dispatch cfg now t0 m).2.1, ev0 ++ (Target.dispatch cfg now t0 m).2.2.1⟩
          _ rfl hq (fun m' hm' => hpt m' (List.mem_cons_of_mem _ hm'))

/-- every unit of a non-atomic notification panics together -/
theorem units_panicTogether (cfg : Cfg) (now : Int) (n : Noti) (ha : n.atomic = false) :
    ∀ m ∈ updUnits n ++ delUnits n, PanicsTogether cfg now m := by
  intro m hm
  rcases List.mem_append.1 hm with h | h
  · obtain ⟨u, _, rfl⟩ := List.mem_map.1 h
    exact updUnit_panicsTogether cfg now n ha u
  · obtain ⟨d, _, rfl⟩ := List.mem_map.1 h
    exact delUnit_panicsTogether cfg now n d

/-- **Multi = units at `Target.GnmiUpdate` level, no future threshold.**  For every target state
(no invariant), clock, and non-atomic notification carrying at least two updates/deletes that does
not panic: applying the notification, and applying its single-update units in order then its
single-delete units one at a time (each through `Target.GnmiUpdate`, i.e. with its own deferred
`checkTimestamp`), produce the same feed event groups in the same order and the same target up to
the latest timestamp — same tree (stored content), same metadata counters, same sync flag. -/
theorem multi_eq_units_at_gnmiUpdate_no_threshold (cfg : Cfg) (hthr : cfg.futureThr ≤ 0) (now : Int)
    (t : Target) (n : Noti) (ha : n.atomic = false) (hm : n.upd.length + n.del.length > 1)
    (hnp : (t.gnmiUpdate cfg now n).1 ≠ .panic) :
    let s := seqGnmiUpdate cfg now (updUnits n ++ delUnits n) (t, [])
    (t.gnmiUpdate cfg now n).2.2 = s.2 ∧
    setLatest none (t.gnmiUpdate cfg now n).2.1 = setLatest none s.1 ∧
    (t.gnmiUpdate cfg now n).2.1.tree = s.1.tree ∧ (t.gnmiUpdate cfg now n).2.1.md = s.1.md ∧
    (t.gnmiUpdate cfg now n).2.1.sync = s.1.sync := by
  intro s
  cases hb : tracksTimestamp? n with
  | none => simp [Target.gnmiUpdate, hb] at hnp
  | some b =>
    have hg := gnmiUpdate_setLatest cfg hthr now t.latest t n b hb
    rw [setLatest_self] at hg
    have hnp' : (t.dispatch cfg now n).1 ≠ .panic := by rw [hg] at hnp; exact hnp
    have hmu := multi_eq_units cfg now t n ha hm
    have hq : (seqDispatch cfg now (updUnits n ++ delUnits n) { t := t }).panicked = false := by
      cases hq : (seqDispatch cfg now (updUnits n ++ delUnits n) { t := t }).panicked
      · rfl
      · rw [hmu] at hnp'; simp [report, hq] at hnp'
    obtain ⟨l', hl'⟩ := seqGnmiUpdate_follows cfg hthr now (updUnits n ++ delUnits n) { t := t } t.latest rfl hq
      (units_panicTogether cfg now n ha)
    have hs : s = (setLatest l' (seqDispatch cfg now (updUnits n ++ delUnits n) { t := t }).t,
        (seqDispatch cfg now (updUnits n ++ delUnits n) { t := t }).evs) := by
      show seqGnmiUpdate cfg now (updUnits n ++ delUnits n) (setLatest t.latest t, []) = _
      exact hl'
    have hd1 : (t.dispatch cfg now n).2.1 = (seqDispatch cfg now (updUnits n ++ delUnits n) { t := t }).t := by
      rw [hmu]; simp [report, hq]
    have hd2 : (t.dispatch cfg now n).2.2.1 = (seqDispatch cfg now (updUnits n ++ delUnits n) { t := t }).evs := by
      rw [hmu]; simp [report, hq]
    rw [hs, hg]
    simp only [hd1, hd2, setLatest_setLatest, setLatest_tree, setLatest_md]
    exact ⟨trivial, trivial, trivial, trivial, rfl⟩

/-- `C03.MultiEqUnitsAtGnmiUpdate` (false in general, `not_multiEqUnitsAtGnmiUpdate`) holds when
restricted to configurations without a future threshold. -/
theorem multiEqUnitsAtGnmiUpdate_noThr (cfg : Cfg) (hthr : cfg.futureThr ≤ 0) (now : Int) (t : Target)
    (n : Noti) (hi : TInv t) (ht : n.target ≠ "") (ha : n.atomic = false)
    (hm : n.upd.length + n.del.length > 1) :
    (t.gnmiUpdate cfg now n).2.1.tree = (seqGnmiUpdate cfg now (updUnits n ++ delUnits n) (t, [])).1.tree ∧
    (t.gnmiUpdate cfg now n).2.2 = (seqGnmiUpdate cfg now (updUnits n ++ delUnits n) (t, [])).2 := by
  have h := multi_eq_units_at_gnmiUpdate_no_threshold cfg hthr now t n ha hm
    (gnmiUpdate_ok cfg now t n hi ht).1
  exact ⟨h.2.2.1, h.1⟩

/-! ## the latest timestamp, exactly -/

/-- the unit either tracks its timestamp, or it is one whose `dispatch` never sets `updateTS`
(a delete) -/
def TracksOrSilent (cfg : Cfg) (now : Int) (ts : Int) (m : Noti) : Prop :=
  m.ts = ts ∧ (tracksTimestamp? m = some true ∨
    (tracksTimestamp? m = some false ∧ ∀ t : Target, (t.dispatch cfg now m).2.2.2 = false))

/-- with units that all track (or never set the flag), the latest timestamp after the units is
`checkTimestamp` applied once iff some unit was accepted — what the multi arm computes -/
theorem seqGnmiUpdate_latest (cfg : Cfg) (hthr : cfg.futureThr ≤ 0) (now : Int) (ts : Int) (l0 : Option Int) :
    ∀ (ms : List Noti) (acc : MultiAcc), acc.panicked = false →
      (seqDispatch cfg now ms acc).panicked = false →
      (∀ m ∈ ms, TracksOrSilent cfg now ts m) →
      seqGnmiUpdate cfg now ms (setLatest (if acc.anyOk then checkL l0 ts else l0) acc.t, acc.evs) =
        (setLatest (if (seqDispatch cfg now ms acc).anyOk then checkL l0 ts else l0) (seqDispatch cfg now ms acc).t,
         (seqDispatch cfg now ms acc).evs)
  | [], _, _, _, _ => rfl
  | m :: ms, ⟨ae, ao, true, t0, ev0⟩, hp, _, _ => by cases hp
  | m :: ms, ⟨ae, ao, false, t0, ev0⟩, _, hq, hall => by
    obtain ⟨hts, hm⟩ := hall m (List.mem_cons_self ..)
    unfold seqDispatch at hq ⊢
    simp only [Bool.false_eq_true, if_false] at hq ⊢
    by_cases h1 : (Target.dispatch cfg now t0 m).1 = .panic
    · simp [h1] at hq
    · simp only [h1, if_false] at hq ⊢
      have ih := seqGnmiUpdate_latest cfg hthr now ts l0 ms
          ⟨ae || (Target.dispatch cfg now t0 m).1.isErr, ao || (Target.dispatch cfg now t0 m).2.2.2, false,
           (Target.dispatch cfg now t0 m).2.1, ev0 ++ (Target.dispatch cfg now t0 m).2.2.1⟩
          rfl hq (fun m' hm' => hall m' (List.mem_cons_of_mem _ hm'))
      unfold seqGnmiUpdate
      rw [← ih]
      rcases hm with hb | ⟨hb, hf⟩
      · simp only [gnmiUpdate_setLatest cfg hthr now _ t0 m true hb, hts]
        congr 2
        cases ao <;> cases (Target.dispatch cfg now t0 m).2.2.2 <;> simp [checkL_idem]
      · simp only [gnmiUpdate_setLatest cfg hthr now _ t0 m false hb]
        congr 2
        simp [hf t0]

theorem multiDeletes_anyOk (hdr : Noti) : ∀ (ds : List Del) (acc : MultiAcc),
    (multiDeletes hdr ds acc).anyOk = acc.anyOk
  | [], _ => rfl
  | d :: ds, acc => by
    unfold multiDeletes
    split
    · rfl
    · simp only
      split
      · rfl
      · rw [multiDeletes_anyOk hdr ds]

/-- no update of `n` is addressed under `meta/` (or has an empty joined path): every
single-update unit tracks its timestamp -/
def NoMetaUpd (n : Noti) : Prop :=
  ∀ u ∈ n.upd, tracksTimestamp? { n with upd := [u], del := [] } = some true

instance (n : Noti) : Decidable (NoMetaUpd n) := by unfold NoMetaUpd; infer_instance

theorem tracks_first (n : Noti) (ha : n.atomic = false) (u : Upd) (us : List Upd) (h : n.upd = u :: us) :
    tracksTimestamp? n = tracksTimestamp? { n with upd := [u], del := [] } := by
  unfold tracksTimestamp?
  simp only [h, updKey?, ha, joinKey?]

/-- **Multi = units, latest timestamp included**, when no update is under `meta/`. -/
theorem multi_eq_units_at_gnmiUpdate_no_threshold_full (cfg : Cfg) (hthr : cfg.futureThr ≤ 0) (now : Int)
    (t : Target) (n : Noti) (ha : n.atomic = false) (hm : n.upd.length + n.del.length > 1)
    (hnp : (t.gnmiUpdate cfg now n).1 ≠ .panic) (hnm : NoMetaUpd n) :
    ((t.gnmiUpdate cfg now n).2.1, (t.gnmiUpdate cfg now n).2.2) =
      seqGnmiUpdate cfg now (updUnits n ++ delUnits n) (t, []) := by
  cases hb : tracksTimestamp? n with
  | none => simp [Target.gnmiUpdate, hb] at hnp
  | some b =>
    have hg := gnmiUpdate_setLatest cfg hthr now t.latest t n b hb
    rw [setLatest_self] at hg
    have hnp' : (t.dispatch cfg now n).1 ≠ .panic := by rw [hg] at hnp; exact hnp
    have hmu := multi_eq_units cfg now t n ha hm
    have hq : (seqDispatch cfg now (updUnits n ++ delUnits n) { t := t }).panicked = false := by
      cases hq : (seqDispatch cfg now (updUnits n ++ delUnits n) { t := t }).panicked
      · rfl
      · rw [hmu] at hnp'; simp [report, hq] at hnp'
    have hall : ∀ m ∈ updUnits n ++ delUnits n, TracksOrSilent cfg now n.ts m := by
      intro m hm'
      rcases List.mem_append.1 hm' with h | h
      · obtain ⟨u, hu, rfl⟩ := List.mem_map.1 h
        exact ⟨rfl, Or.inl (hnm u hu)⟩
      · obtain ⟨d, _, rfl⟩ := List.mem_map.1 h
        refine ⟨rfl, Or.inr ⟨rfl, fun t' => ?_⟩⟩
        have hd := dispatch_single_del cfg now t' { n with upd := [], del := [d] } d ha rfl rfl
        rw [hd]
        split <;> rfl
    have hl := seqGnmiUpdate_latest cfg hthr now n.ts t.latest (updUnits n ++ delUnits n) { t := t } rfl hq hall
    have e0 : (setLatest (if ({ t := t } : MultiAcc).anyOk then checkL t.latest n.ts else t.latest) t,
        ({ t := t } : MultiAcc).evs) = (t, []) := rfl
    rw [e0] at hl
    rw [hl, hg]
    have hd1 : (t.dispatch cfg now n).2.1 = (seqDispatch cfg now (updUnits n ++ delUnits n) { t := t }).t := by
      rw [hmu]; simp [report, hq]
    have hd2 : (t.dispatch cfg now n).2.2.1 = (seqDispatch cfg now (updUnits n ++ delUnits n) { t := t }).evs := by
      rw [hmu]; simp [report, hq]
    have hd3 : (t.dispatch cfg now n).2.2.2 = (seqDispatch cfg now (updUnits n ++ delUnits n) { t := t }).anyOk := by
      rw [hmu]; simp [report, hq]
    simp only [hd1, hd2, hd3]
    congr 2
    -- the flag `b` of the whole notification: its first update's unit tracks; no update: never accepted
    cases hu : n.upd with
    | nil =>
      have : (seqDispatch cfg now (updUnits n ++ delUnits n) { t := t }).anyOk = false := by
        have e1 : updUnits n = [] := by simp [updUnits, hu]
        have e2 : delUnits n = n.del.map (fun d => { ({ n with upd := [], del := [] } : Noti) with upd := [], del := [d] }) := rfl
        rw [e1, List.nil_append, e2, seqDispatch_delUnits cfg now _ ha, multiDeletes_anyOk]
      simp [this]
    | cons u us =>
      have : b = true := by
        have h1 := tracks_first n ha u us hu
        rw [hb, hnm u (by simp [hu])] at h1
        injection h1
      simp [this]

/-! ## what differs: the latest timestamp, when an update under `meta/` is mixed in -/

def ncfg : Cfg := {}
/-- a fresh target `dev` -/
def nt : Target := { name := "dev" }
def metaU : Upd := { path := ["meta", "x"], val := .scalar (.int 1), raw := "m1" }
def leafU : Upd := { path := ["a"], val := .scalar (.int 1), raw := "a1" }
/-- first update under `meta/`, second a plain leaf -/
def metaFirst : Noti := { ts := 100, target := "dev", praw := "p", upd := [metaU, leafU] }

/-- **Meta first.**  The whole notification leaves the latest timestamp untouched
(`tracksTimestamp?` looks at `Update[0]`, which is under `meta/`), its units move it to 100 (the
unit of `a` tracks); everything else agrees (`multi_eq_units_at_gnmiUpdate_no_threshold`). -/
theorem latest_differs_meta_first :
    ncfg.futureThr ≤ 0 ∧
    (nt.gnmiUpdate ncfg 0 metaFirst).1 = .ok ∧
    (nt.gnmiUpdate ncfg 0 metaFirst).2.1.latest = none ∧
    (seqGnmiUpdate ncfg 0 (updUnits metaFirst ++ delUnits metaFirst) (nt, [])).1.latest = some 100 ∧
    (nt.gnmiUpdate ncfg 0 metaFirst).2.1.tree =
      (seqGnmiUpdate ncfg 0 (updUnits metaFirst ++ delUnits metaFirst) (nt, [])).1.tree ∧
    (nt.gnmiUpdate ncfg 0 metaFirst).2.2 =
      (seqGnmiUpdate ncfg 0 (updUnits metaFirst ++ delUnits metaFirst) (nt, [])).2 := by
  decide

/-- target `dev` holding leaf `a` at timestamp 200 (latest timestamp 200) -/
def nt2 : Target :=
  (Target.gnmiUpdate ncfg 0 nt { ts := 200, target := "dev", praw := "p", upd := [leafU] }).2.1
/-- first update a plain leaf that is rejected (`a/b` collides with the leaf `a`: error), second
under `meta/` (accepted) -/
def metaSecond : Noti :=
  { ts := 300, target := "dev", praw := "p",
    upd := [{ path := ["a", "b"], val := .scalar (.int 1), raw := "ab1" }, metaU] }

/-- **Meta second.**  The other direction: the whole notification tracks (its first update is a
plain leaf, and *some* update — the one under `meta/` — was accepted): latest timestamp 300; of
its units the first is rejected and the second is under `meta/`: latest timestamp stays 200. -/
theorem latest_differs_meta_second :
    nt2.latest = some 200 ∧
    (nt2.gnmiUpdate ncfg 0 metaSecond).1 = .err ∧
    (nt2.gnmiUpdate ncfg 0 metaSecond).2.1.latest = some 300 ∧
    (seqGnmiUpdate ncfg 0 (updUnits metaSecond ++ delUnits metaSecond) (nt2, [])).1.latest = some 200 ∧
    (nt2.gnmiUpdate ncfg 0 metaSecond).2.1.tree =
      (seqGnmiUpdate ncfg 0 (updUnits metaSecond ++ delUnits metaSecond) (nt2, [])).1.tree ∧
    (nt2.gnmiUpdate ncfg 0 metaSecond).2.2 =
      (seqGnmiUpdate ncfg 0 (updUnits metaSecond ++ delUnits metaSecond) (nt2, [])).2 := by
  decide

/-- so the full equality does not extend to notifications with an update under `meta/` -/
theorem not_full_with_meta :
    ¬ (∀ (cfg : Cfg) (now : Int) (t : Target) (n : Noti), cfg.futureThr ≤ 0 → n.atomic = false →
        n.upd.length + n.del.length > 1 → (t.gnmiUpdate cfg now n).1 ≠ .panic →
        ((t.gnmiUpdate cfg now n).2.1, (t.gnmiUpdate cfg now n).2.2) =
          seqGnmiUpdate cfg now (updUnits n ++ delUnits n) (t, [])) := by
  intro h
  have h1 := h ncfg 0 nt metaFirst (by decide) (by decide) (by decide) (by decide)
  have h2 := congrArg (fun r => r.1.latest) h1
  simp only [latest_differs_meta_first.2.2.1, latest_differs_meta_first.2.2.2.1] at h2
  cases h2

/-! ## non-vacuity -/

/-- two plain leaves and a wildcard delete, no threshold: hypotheses of the full theorem hold and
its conclusion is a non-trivial state (two leaves added, then both deleted: 3 event groups) -/
def plain3 : Noti :=
  { ts := 5, target := "dev", praw := "p",
    upd := [leafU, { path := ["c"], val := .scalar (.int 2), raw := "c2" }],
    del := [{ path := ["*"], raw := "d" }] }

example : ((nt.gnmiUpdate ncfg 0 plain3).2.1, (nt.gnmiUpdate ncfg 0 plain3).2.2) =
    seqGnmiUpdate ncfg 0 (updUnits plain3 ++ delUnits plain3) (nt, []) :=
  multi_eq_units_at_gnmiUpdate_no_threshold_full ncfg (by decide) 0 nt plain3 (by decide) (by decide)
    (by decide) (by decide)

example : (nt.gnmiUpdate ncfg 0 plain3).2.2.length = 2 ∧ (nt.gnmiUpdate ncfg 0 plain3).2.1.latest = some 5 := by
  decide

end C03
end Gnmi
