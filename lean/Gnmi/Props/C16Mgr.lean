import Gnmi.Model.ManagerConn
import Gnmi.Model.ManagerRun
import Gnmi.Lemmas.Manager
/-!
# C16, the holder's side — `manager/manager.go` releases every connection it acquires, exactly once

`Props/C16.lean` proves that `connection.Manager` counts references correctly *for callers that
invoke the `done` they were handed*.  The caller in this repository is the target manager:
`Manager.monitor` acquires through `createConn` (`ConnectionManager.Connection` per next hop) and
releases through `defer done()`.  The theorems below are about the manager LTS of
`Model/ManagerLTS.lean` (every environment script, every interleaving of `Add` / `Remove` /
`Reconnect` / receive timeouts with the monitor goroutines) extended with the connection ledger of
`Model/ManagerConn.lean`: `g i` = the handles instance `i` (one `*target` and its `retryMonitor`
goroutine) acquired so far, newest first, each with the number of `done` calls made on it.

* `held_le_one` — a target's session holds at most one connection;
* `held_iff_in_session` — it holds one exactly from the successful return of `Connection` to the way
  out of `monitor` (program counters `open_ send recv got reset`), whatever happened to the context
  meanwhile — in particular when the context was cancelled while the dial was in flight and the dial
  succeeded (`dial_succeeds_after_cancel_released`);
* `released_when_idle` — between attempts (backoff timer), before the first attempt, while leaving,
  and once finished: nothing held, acquisitions = releases;
* `remove_releases` — while a name is not managed (after `Remove` returned, until an `Add`) no
  goroutine that ever ran for it holds a connection; `removed_never_again`: the instance that was
  removed never acquires or releases anything again;
* `release_once` — no acquisition is released twice by the manager (`connection.Manager`'s `done` is
  once-guarded, `C16.done_idempotent`; the manager does not rely on it).

Tie: the `mg` correspondence (`go/vcorr/mg.go`, `mg_conn.go`) counts, on the real `manager.Manager`,
every successful `Connection` return and every call of each returned `done`; `acq` is compared with
this ledger (`exec_ledger`), `leak`/`twice`/use-after-done with 0; `runc` scenarios put the real
`connection.Manager` underneath and check that it ends empty with every connection shut.
-/
namespace Gnmi
namespace C16Mgr
open Manager

variable {env : Name → Nat → Attempt}

/-- Program counters at which `monitor` is past a successful `createConn` and has not yet run its
deferred `done()`. -/
def holds : Pc → Bool
  | .open_ => true
  | .send => true
  | .recv _ _ => true
  | .got _ _ => true
  | .reset _ _ => true
  | _ => false

/-- Every handle was released exactly once. -/
def AllOnce (h : Handles) : Prop := ∀ k ∈ h, k = 1

/-- The ledger of an instance at program counter `pc`. -/
def Ledger (pc : Pc) (h : Handles) : Prop :=
  if holds pc = true then ∃ r, h = 0 :: r ∧ AllOnce r else AllOnce h

theorem AllOnce.held {h : Handles} (ha : AllOnce h) : held h = 0 := by
  unfold Manager.held
  rw [List.length_eq_zero_iff, List.filter_eq_nil_iff]
  intro k hk
  simp [ha k hk]

theorem AllOnce.twice {h : Handles} (ha : AllOnce h) : twice h = 0 := by
  unfold Manager.twice
  rw [List.length_eq_zero_iff, List.filter_eq_nil_iff]
  intro k hk
  simp [ha k hk]

theorem foldl_add_shift (h : List Nat) (a : Nat) : h.foldl (· + ·) a = a + h.foldl (· + ·) 0 := by
  induction h generalizing a with
  | nil => simp
  | cons k r ih => simp only [List.foldl_cons]; rw [ih (a + k), ih (0 + k)]; omega

theorem AllOnce.released {h : Handles} (ha : AllOnce h) : released h = acquired h := by
  unfold Manager.released Manager.acquired
  induction h with
  | nil => rfl
  | cons k r ih =>
    have hk : k = 1 := ha k (List.mem_cons_self)
    have hr : AllOnce r := fun x hx => ha x (List.mem_cons_of_mem _ hx)
    simp only [List.foldl_cons, List.length_cons]
    rw [foldl_add_shift, ih hr, hk]; omega

theorem AllOnce.cons {r : Handles} (ha : AllOnce r) : AllOnce (1 :: r) := by
  intro k hk
  rcases List.mem_cons.mp hk with h | h
  · exact h
  · exact ha k h

/-! ## the monitor goroutine, step by step -/

/-- A step of the monitor goroutine acquires exactly when it is `dialOk`. -/
theorem acquire_iff {next : Attempt} {I I' : Inst} {l : MLabel} (h : MonStep next I l I') :
    connEff I.pc I'.pc = .acquire ↔ I.pc = .dial ∧ I'.pc = .open_ := by
  cases h <;> simp_all [connEff]

/-- A step of the monitor goroutine releases exactly when it leaves the part of `monitor` that
follows the successful `createConn`: every way out of `monitor` from there runs `done()`. -/
theorem release_iff {next : Attempt} {I I' : Inst} {l : MLabel} (h : MonStep next I l I') :
    connEff I.pc I'.pc = .release ↔ holds I.pc = true ∧ holds I'.pc = false := by
  cases h <;> simp_all [connEff, holds]

/-- … and nothing else touches the ledger: the effect of a step is the change of `holds`. -/
theorem none_iff {next : Attempt} {I I' : Inst} {l : MLabel} (h : MonStep next I l I') :
    connEff I.pc I'.pc = .none ↔ holds I.pc = holds I'.pc := by
  cases h <;> simp_all [connEff, holds]

theorem connEff_self (p : Pc) : connEff p p = .none := by
  cases p <;> rfl

theorem connEff_gone {p : Pc} (q : Pc) (h : p.gone = true) : connEff p q = .none := by
  cases p <;> simp_all [Pc.gone, connEff]

theorem MonStep.ledger {next : Attempt} {I I' : Inst} {l : MLabel} (h : MonStep next I l I')
    {hs : Handles} (hl : Ledger I.pc hs) : Ledger I'.pc ((connEff I.pc I'.pc).apply hs) := by
  rcases hc : connEff I.pc I'.pc with _ | _ | _
  · -- no effect: `holds` unchanged
    have := (none_iff h).mp hc
    simp only [ConnEff.apply]
    unfold Ledger at hl ⊢
    rw [← this]; exact hl
  · -- acquire
    obtain ⟨h1, h2⟩ := (acquire_iff h).mp hc
    simp only [ConnEff.apply]
    unfold Ledger at hl ⊢
    rw [h1] at hl; rw [h2]
    simp only [holds, if_true] at hl ⊢
    exact ⟨hs, rfl, by simpa using hl⟩
  · -- release
    obtain ⟨h1, h2⟩ := (release_iff h).mp hc
    simp only [ConnEff.apply]
    unfold Ledger at hl ⊢
    rw [h1] at hl; rw [h2]
    simp only [if_true] at hl
    obtain ⟨r, rfl, hr⟩ := hl
    simpa [Handles.release] using hr.cons

/-! ## the invariant -/

/-- The ledger invariant: every instance's ledger fits its program counter. -/
def GInv (c : Cfg) (g : Ghost) : Prop := ∀ i, Ledger (c.insts i).pc (g i)

theorem ginv_init : GInv Cfg.init Ghost.init := by
  intro i
  show Ledger Pc.done []
  unfold Ledger
  simp [holds, AllOnce]

theorem ginv_step {c c' : Cfg} {g : Ghost} {l : Label} (hr : Reach env c) (hg : GInv c g)
    (hs : Step env c l c') : GInv c' (ghostNext c c' g) := by
  intro k
  unfold ghostNext
  rcases step_inst hs k with ⟨hp, _, _⟩ | ⟨ml, hm⟩ | ⟨hk, n, rt, _, hI⟩
  · rw [hp, connEff_self]; exact hg k
  · exact MonStep.ledger hm (hg k)
  · have hdead : c.insts k = Inst.dead := (inv_reach hr).fresh k (by omega)
    have hold := hg k
    rw [hdead] at hold ⊢
    rw [hI]
    show Ledger Pc.start ((connEff Pc.done Pc.start).apply (g k))
    have : Ledger Pc.done (g k) := hold
    unfold Ledger at this ⊢
    simpa [holds, connEff, ConnEff.apply] using this

/-- In every reachable configuration the ledger of every instance fits its program counter. -/
theorem ginv_reach {c : Cfg} {g : Ghost} (h : GReach env c g) : GInv c g := by
  induction h with
  | init => exact ginv_init
  | step hr hs ih => exact ginv_step hr.reach ih hs

/-! ## the property -/

/-- From the successful return of `Connection` to the way out of `monitor` the goroutine holds
exactly one connection; everywhere else none. -/
theorem held_iff_in_session {c : Cfg} {g : Ghost} (h : GReach env c g) (i : Nat) :
    held (g i) = if holds (c.insts i).pc = true then 1 else 0 := by
  have hl := ginv_reach h i
  unfold Ledger at hl
  split at hl
  · next hh =>
    obtain ⟨r, hr, ha⟩ := hl
    rw [if_pos hh, hr]
    have := ha.held
    unfold Manager.held at this ⊢
    simp only [List.filter_cons, if_true, decide_true, List.length_cons, this]
  · next hh => rw [if_neg hh]; exact hl.held

/-- `held_le_one`: a target's session holds at most one connection. -/
theorem held_le_one {c : Cfg} {g : Ghost} (h : GReach env c g) (i : Nat) : held (g i) ≤ 1 := by
  rw [held_iff_in_session h i]; split <;> omega

/-- `released_when_idle`: whenever the goroutine is not between a successful `createConn` and the
way out of `monitor` it holds nothing, and it has released exactly what it acquired. -/
theorem released_when_idle {c : Cfg} {g : Ghost} (h : GReach env c g) {i : Nat}
    (hi : holds (c.insts i).pc = false) :
    held (g i) = 0 ∧ acquired (g i) = released (g i) := by
  have hl := ginv_reach h i
  unfold Ledger at hl
  rw [if_neg (by simp [hi])] at hl
  exact ⟨hl.held, hl.released.symm⟩

/-- … in particular during the backoff (`select { ctx.Done() | timer.C }`), -/
theorem released_in_backoff {c : Cfg} {g : Ghost} (h : GReach env c g) {i : Nat}
    (hp : (c.insts i).pc = .timer) : held (g i) = 0 ∧ acquired (g i) = released (g i) :=
  released_when_idle h (by rw [hp]; rfl)

/-- … while the next attempt is looking up credentials or dialling (nothing acquired yet), -/
theorem released_before_dial_returns {c : Cfg} {g : Ghost} (h : GReach env c g) {i : Nat}
    (hp : (c.insts i).pc = .gmeta ∨ (c.insts i).pc = .dial) :
    held (g i) = 0 ∧ acquired (g i) = released (g i) :=
  released_when_idle h (by rcases hp with hp | hp <;> rw [hp] <;> rfl)

/-- … while the failure of the attempt is reported (`ConnectError`, `MonitorError` callbacks): the
deferred `done()` ran before the deferred `m.connectError`, -/
theorem released_before_error_callbacks {c : Cfg} {g : Ghost} (h : GReach env c g) {i j : Nat} {cn r : Bool}
    (hp : (c.insts i).pc = .connErr j cn r ∨ (c.insts i).pc = .monErr j cn r) :
    held (g i) = 0 ∧ acquired (g i) = released (g i) :=
  released_when_idle h (by rcases hp with hp | hp <;> rw [hp] <;> rfl)

/-- … and once the goroutine has left its loop (`close(ta.finished)` is ahead or done). -/
theorem released_when_finished {c : Cfg} {g : Ghost} (h : GReach env c g) {i : Nat}
    (hf : (c.insts i).pc.exited = true) : held (g i) = 0 ∧ acquired (g i) = released (g i) :=
  released_when_idle h (by revert hf; cases (c.insts i).pc <;> simp [Pc.exited, holds])

/-- `release_once`: no acquisition is released twice by the manager — every handle's `done` was
called at most once, and exactly once unless it is the one in use. -/
theorem release_once {c : Cfg} {g : Ghost} (h : GReach env c g) (i : Nat) :
    twice (g i) = 0 ∧ ∀ k ∈ g i, k ≤ 1 := by
  have hl := ginv_reach h i
  unfold Ledger at hl
  split at hl
  · obtain ⟨r, hr, ha⟩ := hl
    rw [hr]
    refine ⟨?_, ?_⟩
    · have := ha.twice
      unfold Manager.twice at this ⊢
      simpa [List.filter_cons] using this
    · intro k hk
      rcases List.mem_cons.mp hk with h0 | h1
      · omega
      · have := ha k h1; omega
  · exact ⟨hl.twice, fun k hk => by have := hl k hk; omega⟩

/-- `remove_releases`: while name `n` is not managed — after `Remove n` has returned
(`C13.remove_unregisters`), for as long as no `Add n` succeeds — no goroutine that ever ran for `n`
holds a connection, and each has released exactly what it acquired. -/
theorem remove_releases {c : Cfg} {g : Ghost} (h : GReach env c g) {n : Name}
    (hn : c.targets n = none) {i : Nat} (hi : (c.insts i).name = n) :
    held (g i) = 0 ∧ acquired (g i) = released (g i) := by
  have hinv := inv_reach h.reach
  have hgone : (c.insts i).pc.gone = true := by
    cases hg : (c.insts i).pc.gone
    · have := hinv.reg i hg
      rw [hi, hn] at this; cases this
    · rfl
  exact released_when_finished h (Pc.gone_exited hgone)

/-- At the moment `Remove n` returns, the goroutine it waited for holds nothing. -/
theorem remove_returns_released {c c' : Cfg} {g : Ghost} (h : GReach env c g) {n : Name}
    (hs : Step env c (.removeRet n) c') {i : Nat} (hi : (c'.insts i).name = n) :
    held (ghostNext c c' g i) = 0 :=
  (remove_releases (.step h hs) (C13_remove_unregisters hs) hi).1
where
  C13_remove_unregisters {c c' : Cfg} {n : Name} (hs : Step env c (.removeRet n) c') : c'.targets n = none := by
    generalize hl : Label.removeRet n = l at hs
    cases hs with
    | mon i hm => rename_i ml _; cases ml <;> cases hl
    | removeEnd i _ _ => cases hl; simp
    | _ => cases hl

/-- A goroutine that has closed `finished` never touches its ledger again, whatever happens later
(re-`Add` of the name creates a new instance): "none held, ever again". -/
theorem removed_never_again {c c' : Cfg} {g g' : Ghost} (h : GReach env c g) {i : Nat}
    (hi : i < c.nInst) (hf : (c.insts i).finished = true) (hr : GRun env c g c' g') :
    g' i = g i ∧ held (g' i) = 0 := by
  induction hr with
  | nil c g =>
    have hg : (c.insts i).pc.gone = true := by rw [← (inv_reach h.reach).fin i]; exact hf
    exact ⟨rfl, (released_when_finished h (Pc.gone_exited hg)).1⟩
  | @cons c c₁ c₂ g g₂ l hs _ ih =>
    have hinv := inv_reach h.reach
    have hg : (c.insts i).pc.gone = true := by rw [← hinv.fin i]; exact hf
    have hinv₁ := inv_reach (Reach.step h.reach hs)
    -- the slot stays below `nInst`, the goroutine stays gone
    have hg₁ : (c₁.insts i).pc.gone = true := by
      rcases step_inst hs i with ⟨hp, _, _⟩ | ⟨ml, hm⟩ | ⟨hk, _⟩
      · rw [hp]; exact hg
      · exact (hm.gone_mono hg).1
      · omega
    have hn₁ : i < c₁.nInst := by
      have : c.nInst ≤ c₁.nInst := by
        cases hs <;> simp
      omega
    have hf₁ : (c₁.insts i).finished = true := by rw [hinv₁.fin i]; exact hg₁
    have := ih (.step h hs) hn₁ hf₁
    have hsame : ghostNext c c₁ g i = g i := by
      unfold ghostNext; rw [connEff_gone _ hg]; rfl
    rw [hsame] at this
    exact this

/-- The acquisition counts printed by the model driver belong to a ledger of the LTS: everything
above applies to them. -/
theorem exec_ledger (r : RCfg env) (name : Name) (t : TargetSpec) :
    GReach env (runTarget r name t).1.c (runTarget r name t).1.g := (runTarget r name t).1.greach

/-! ## The hypotheses are satisfiable (non-vacuity); the cancelled-while-dialling path -/

section examples

/-- one target: an attempt that streams an update and fails, then an attempt during whose dial the
target is removed — and the dial succeeds (`+xs` of the `mg` grammar) -/
def exSpec : TargetSpec :=
  { rt := false, probes := [],
    script := [⟨.stream [.update] .err, none⟩, ⟨.stream [.update] .err, some ⟨true, .dialOk, false⟩⟩] }

def exEnv : Name → Nat → Attempt := scenarioEnv ["t0"] [exSpec]

/-- `Add`; `reconnectCtx`; the timer fires; credentials; **`Remove` is called while the attempt is
in `Connection`; `Connection` returns `err == nil` all the same** -/
def exCancelledDialOk : Option (RCfg exEnv) := do
  let (_, r) ← (RCfg.init exEnv).move (.add "t0" false)
  let (_, r) ← r.move (.mon 0)
  let (_, r) ← r.move (.mon 0)
  let (_, r) ← r.move (.mon 0)
  let (_, r) ← r.move (.remove "t0")
  let (_, r) ← r.move (.monDialOk 0)
  pure r

/-- `dial_succeeds_after_cancel`: the LTS has the path on which `Connection` returns a connection
although the context is cancelled: the goroutine then holds one connection with its context done … -/
theorem dial_succeeds_after_cancel :
    ∃ c g, GReach exEnv c g ∧ (c.insts 0).ctxDone = true ∧ (c.insts 0).pc = .open_ ∧ held (g 0) = 1 :=
  ⟨_, _, (exCancelledDialOk.get (by decide)).greach, by decide, by decide, by decide⟩

/-- … and the very next step of the goroutine (`subscribe` fails on the cancelled context; the
deferred `done()`) releases it: one acquisition, one release. -/
theorem dial_succeeds_after_cancel_released :
    ∃ c g, GReach exEnv c g ∧ (∃ j cn r, (c.insts 0).pc = .connErr j cn r) ∧ g 0 = [1] := by
  refine ⟨_, _, ((exCancelledDialOk.get (by decide)).move (.mon 0) |>.get (by decide)).2.greach, ?_, by decide⟩
  exact ⟨0, false, false, by decide⟩

/-- a whole scenario through the interpreter: both attempts acquire (the second one although
cancelled), everything is released when `Remove` has returned -/
example : (runTarget (RCfg.init exEnv) "t0" exSpec).2.acq = 2 ∧
    (runTarget (RCfg.init exEnv) "t0" exSpec).2.leak = 0 ∧
    (runTarget (RCfg.init exEnv) "t0" exSpec).1.c.targets "t0" = none := by decide

/-- a goroutine in the middle of a session holds exactly one (hypothesis of `held_iff_in_session`
with `holds = true`) -/
def exInSession : Option (RCfg exEnv) := do
  let (_, r) ← (RCfg.init exEnv).move (.add "t0" false)
  let (_, r) ← r.move (.mon 0)
  let (_, r) ← r.move (.mon 0)
  let (_, r) ← r.move (.mon 0)
  let (_, r) ← r.move (.mon 0)
  let (_, r) ← r.move (.mon 0)
  let (_, r) ← r.move (.mon 0)
  pure r

example : ∃ c g, GReach exEnv c g ∧ (c.insts 0).pc = .recv 0 false ∧ g 0 = [0] :=
  ⟨_, _, (exInSession.get (by decide)).greach, by decide, by decide⟩

/-- the ledger tells a leak from a clean run: these are not ledgers of the invariant -/
example : ¬ Ledger .timer [0] := by simp [Ledger, holds, AllOnce]
example : ¬ Ledger .timer [2] := by simp [Ledger, holds, AllOnce]
example : ¬ Ledger (.recv 0 true) [1] := by simp [Ledger, holds, AllOnce]

end examples

end C16Mgr
end Gnmi
