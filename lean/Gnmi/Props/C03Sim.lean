import Gnmi.Lemmas.CacheFeed
/-!
# C03, part 2 — replaying the change feed reproduces the cache

`Spec/Feed.lean` is the consumer of the property: a view that applies each feed event with the
replay rule (an update sets a leaf, an atomic update replaces its subtree as one unit, a delete
removes what it matches).  `feed_simulation` proves, for **every** history of notifications of
any shape (single / multi-update / atomic / deletes with wildcards / metadata-addressed / stale,
future and colliding updates, any clock readings and any configuration), that the view obtained
from the emitted events agrees with the cache leaf by leaf:

* with event-driven emulation off the view **is** the cache (`feed_replay_exact`): the same
  (index, notification) pairs, hence the same answers to every query;
* with event-driven emulation on, the two hold the same leaves, and a leaf's notification in the
  view is the cache's own or one that carries an equal value (`value.Equal`) — exactly the updates
  the cache withheld as unchanged (`feed_replay_values`).

Hypotheses, all explicit and all exercised by the correspondence harness:
`n.target ≠ ""` (routing by target: `Cache.GnmiUpdate`), and `Clean n`: no update index contains an
element literally named `*` (a stored `*` is indistinguishable from a wildcard in the delete
events the cache emits), and an origin, if any, is carried in the prefix (the cache indexes an
update without the origin of its own path; see DESIGN.md, D19).  Where the two are violated the
property itself is silent (such notifications are outside the gNMI contract the cache states).
-/
namespace Gnmi
namespace C03
open Cache Feed

/-- a target's history: each notification with the clock reading at its arrival; returns the
final target and every event handed to the feed, in callback order -/
def runT (cfg : Cfg) (t : Target) : List (Int × Noti) → Target × List Event
  | [] => (t, [])
  | x :: rest =>
    let r := t.gnmiUpdate cfg x.1 x.2
    let r' := runT cfg r.2.1 rest
    (r'.1, r.2.2.flatten ++ r'.2)

def WellFormed (hist : List (Int × Noti)) : Prop :=
  ∀ x ∈ hist, x.2.target ≠ "" ∧ Clean x.2

/-- **Feed simulation.** From any state in which a view follows the tree, after any well-formed
history the view that has applied the emitted events follows the resulting tree (and the tree
keeps the structural invariants the argument rests on). -/
theorem feed_simulation (cfg : Cfg) : ∀ (hist : List (Int × Noti)) (t : Target) (view : View),
    WellFormed hist → GT cfg view t.tree →
    GT cfg (applyEvents view (runT cfg t hist).2) (runT cfg t hist).1.tree
  | [], t, view, _, hg => hg
  | x :: rest, t, view, hw, hg => by
    obtain ⟨ht, hc⟩ := hw x (List.mem_cons_self ..)
    obtain ⟨_, h2⟩ := gnmiUpdate_sim (cfg := cfg) (view := view) x.1 t x.2 ht hc hg
    have ih := feed_simulation cfg rest (t.gnmiUpdate cfg x.1 x.2).2.1 _
      (fun y hy => hw y (List.mem_cons_of_mem _ hy)) h2
    show GT cfg (applyEvents view ((t.gnmiUpdate cfg x.1 x.2).2.2.flatten ++
      (runT cfg (t.gnmiUpdate cfg x.1 x.2).2.1 rest).2)) (runT cfg (t.gnmiUpdate cfg x.1 x.2).2.1 rest).1.tree
    rw [← applyEvents_append]
    exact ih

/-- no notification of a well-formed history makes the cache panic, in any reachable state -/
theorem history_never_panics (cfg : Cfg) (hist : List (Int × Noti)) (t : Target) (view : View)
    (hw : WellFormed hist) (hg : GT cfg view t.tree) (pre : List (Int × Noti)) (x : Int × Noti)
    (post : List (Int × Noti)) (hsplit : hist = pre ++ x :: post) :
    ((runT cfg t pre).1.gnmiUpdate cfg x.1 x.2).1 ≠ .panic := by
  have hwp : WellFormed pre := fun y hy => hw y (by rw [hsplit]; exact List.mem_append_left _ hy)
  have hx := hw x (by rw [hsplit]; exact List.mem_append_right _ (List.mem_cons_self ..))
  exact (gnmiUpdate_sim (cfg := cfg) x.1 _ x.2 hx.1 hx.2 (feed_simulation cfg pre t view hwp hg)).1

/-- **Replay is exact without event-driven emulation**: a replica built from the feed of a fresh
target holds exactly the (index, notification) pairs the cache holds. -/
theorem feed_replay_exact (cfg : Cfg) (he : cfg.eventDriven = false) (name : String)
    (hist : List (Int × Noti)) (hw : WellFormed hist) :
    ∀ kv, kv ∈ applyEvents [] (runT cfg { name := name } hist).2 ↔
      kv ∈ (runT cfg { name := name } hist).1.tree := by
  have hg := feed_simulation cfg hist { name := name } [] hw (GT.init cfg)
  have heq : ∀ k, lookup (applyEvents [] (runT cfg { name := name } hist).2) k =
      lookup (runT cfg { name := name } hist).1.tree k := by
    intro k
    have := hg.r.agree k
    revert this
    cases lookup (applyEvents [] (runT cfg { name := name } hist).2) k <;>
      cases lookup (runT cfg { name := name } hist).1.tree k <;> intro h
    · rfl
    · exact h.elim
    · exact h.elim
    · rcases h with rfl | ⟨h1, _⟩
      · rfl
      · rw [he] at h1; cases h1
  intro kv
  obtain ⟨k, v⟩ := kv
  rw [← lookup_some_iff hg.r.unique, ← lookup_some_iff hg.unique, heq k]

/-- **Replay with event-driven emulation**: same leaves; each leaf's notification is the cache's
own, or (both plain) one that carries an equal value. -/
theorem feed_replay_values (cfg : Cfg) (name : String) (hist : List (Int × Noti)) (hw : WellFormed hist) (k : Path) :
    match lookup (applyEvents [] (runT cfg { name := name } hist).2) k,
          lookup (runT cfg { name := name } hist).1.tree k with
    | none, none => True
    | some v, some n =>
        v = n ∨ (cfg.eventDriven = true ∧ v.atomic = false ∧ n.atomic = false ∧
          valueEqual (Feed.headVal v) (Feed.headVal n) = true)
    | _, _ => False := by
  have hg := feed_simulation cfg hist { name := name } [] hw (GT.init cfg)
  have := hg.r.agree k
  revert this
  cases lookup (applyEvents [] (runT cfg { name := name } hist).2) k <;>
    cases lookup (runT cfg { name := name } hist).1.tree k <;> intro h <;> exact h

/-- the view of a leaf the cache withheld nothing about is the cache's own notification: if the
last accepted update of `k` changed its value (or either side is atomic), view and cache agree
exactly.  (Direct from `feed_replay_values`: the only slack is `Supp`.) -/
theorem feed_replay_same_when_differs (cfg : Cfg) (name : String) (hist : List (Int × Noti))
    (hw : WellFormed hist) (k : Path) (v n : Noti)
    (hv : lookup (applyEvents [] (runT cfg { name := name } hist).2) k = some v)
    (hn : lookup (runT cfg { name := name } hist).1.tree k = some n)
    (hd : valueEqual (Feed.headVal v) (Feed.headVal n) = false ∨ v.atomic = true ∨ n.atomic = true) : v = n := by
  have := feed_replay_values cfg name hist hw k
  rw [hv, hn] at this
  rcases this with h | ⟨_, h2, h3, h4⟩
  · exact h
  · rcases hd with h | h | h
    · rw [h] at h4; cases h4
    · rw [h] at h2; cases h2
    · rw [h] at h3; cases h3

/-! ## Non-vacuity: a concrete history that exercises every arm -/

def u1 : Upd := { path := ["a", "b"], val := .scalar (.int 1), raw := "u1" }
def u1' : Upd := { path := ["a", "b"], val := .scalar (.int 1), raw := "u1'" }
def u2 : Upd := { path := ["a", "c"], val := .scalar (.int 2), raw := "u2" }
def ua : Upd := { path := ["x"], val := .scalar (.int 3), raw := "ua" }
def hist0 : List (Int × Noti) :=
  [ (10, { ts := 1, target := "t", praw := "p", upd := [u1, u2] }),                      -- two leaves
    (11, { ts := 2, target := "t", praw := "p", upd := [u1'] }),                         -- unchanged value: suppressed
    (12, { ts := 3, target := "t", pfx := ["at"], praw := "q", atomic := true, upd := [ua, u2] }),   -- atomic unit
    (13, { ts := 4, target := "t", praw := "p", del := [{ path := ["a", "*"], raw := "d" }] }),      -- wildcard delete
    (14, { ts := 0, target := "t", praw := "p", upd := [u2] }) ]                          -- re-add (older ts is fine: leaf is gone)

example : WellFormed hist0 := by
  intro x hx
  simp only [hist0, List.mem_cons, List.not_mem_nil, or_false] at hx
  rcases hx with rfl | rfl | rfl | rfl | rfl <;>
    refine ⟨by decide, ?_⟩ <;> intro u hu <;>
    simp only [List.mem_cons, List.not_mem_nil, or_false] at hu <;>
    first
      | (rcases hu with rfl | rfl <;> exact ⟨by decide, Or.inr rfl⟩)
      | (subst hu; exact ⟨by decide, Or.inr rfl⟩)
      | exact hu.elim

/-- the run really suppresses one update, emits an atomic unit and two delete events, and ends
with two leaves — and the replayed view has the same keys -/
example : ((runT {} { name := "t" } hist0).2.length,
           ((runT {} { name := "t" } hist0).1.tree.map (·.1)),
           ((applyEvents [] (runT {} { name := "t" } hist0).2).map (·.1))) =
    (6, [["a", "c"], ["at"]], [["a", "c"], ["at"]]) := by decide

end C03
end Gnmi
