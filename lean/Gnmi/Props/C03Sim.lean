import Gnmi.Lemmas.CacheFeedState
import Gnmi.Props.C14
/-!
# C03, part 2 — replaying the change feed reproduces the cache

`Spec/Feed.lean` is the consumer of the property: a view that applies each feed event with the
replay rule (an update sets a leaf, an atomic update replaces its subtree as one unit, a delete
removes what it matches).  `feed_simulation` proves, for **every** history of notifications of
any shape (single / multi-update / atomic / deletes with wildcards / metadata-addressed / stale,
future and colliding updates, any clock readings and any configuration), that the view obtained
from the emitted events agrees with the cache leaf by leaf:

* with event-driven emulation off the view **is** the cache (`feed_replay_exact`): the same
  (index, notification) pairs, hence the same answers to every query;
* with event-driven emulation on, the two hold the same leaves, and a leaf's notification in the
  view is the cache's own or one that carries an equal value (`value.Equal`) — exactly the updates
  the cache withheld as unchanged (`feed_replay_values`).

Hypotheses, all explicit and all exercised by the correspondence harness:
`n.target ≠ ""` (routing by target: `Cache.GnmiUpdate`), and `Clean n`: no update index contains an
element literally named `*` (a stored `*` is indistinguishable from a wildcard in the delete
events the cache emits), and an origin, if any, is carried in the prefix (the cache indexes an
update without the origin of its own path; see DESIGN.md, D19).  Where the two are violated the
property itself is silent (such notifications are outside the gNMI contract the cache states).
-/
namespace Gnmi
namespace C03
open Cache Feed

/-- a target's history: each notification with the clock reading at its arrival; returns the
final target and every event handed to the feed, in callback order -/
def runT (cfg : Cfg) (t : Target) : List (Int × Noti) → Target × List Event
  | [] => (t, [])
  | x :: rest =>
    let r := t.gnmiUpdate cfg x.1 x.2
    let r' := runT cfg r.2.1 rest
    (r'.1, r.2.2.flatten ++ r'.2)

def WellFormed (nm : String) (hist : List (Int × Noti)) : Prop :=
  nm ≠ "" ∧ ∀ x ∈ hist, x.2.target = nm ∧ Clean x.2

/-- **Feed simulation.** From any state in which a view follows the tree, after any well-formed
history the view that has applied the emitted events follows the resulting tree (and the tree
keeps the structural invariants the argument rests on). -/
theorem feed_simulation (cfg : Cfg) (nm : String) : ∀ (hist : List (Int × Noti)) (t : Target) (view : View),
    WellFormed nm hist → GT cfg nm view t.tree →
    GT cfg nm (applyEvents view (runT cfg t hist).2) (runT cfg t hist).1.tree
  | [], t, view, _, hg => hg
  | x :: rest, t, view, hw, hg => by
    obtain ⟨ht, hc⟩ := hw.2 x (List.mem_cons_self ..)
    obtain ⟨_, _, h2⟩ := gnmiUpdate_sim (cfg := cfg) (nm := nm) (view := view) x.1 t x.2 hw.1 ht hc hg
    have ih := feed_simulation cfg nm rest (t.gnmiUpdate cfg x.1 x.2).2.1 _
      ⟨hw.1, fun y hy => hw.2 y (List.mem_cons_of_mem _ hy)⟩ h2
    show GT cfg nm (applyEvents view ((t.gnmiUpdate cfg x.1 x.2).2.2.flatten ++
      (runT cfg (t.gnmiUpdate cfg x.1 x.2).2.1 rest).2)) (runT cfg (t.gnmiUpdate cfg x.1 x.2).2.1 rest).1.tree
    rw [← applyEvents_append]
    exact ih

/-- no notification of a well-formed history makes the cache panic, in any reachable state -/
theorem history_never_panics (cfg : Cfg) (nm : String) (hist : List (Int × Noti)) (t : Target) (view : View)
    (hw : WellFormed nm hist) (hg : GT cfg nm view t.tree) (pre : List (Int × Noti)) (x : Int × Noti)
    (post : List (Int × Noti)) (hsplit : hist = pre ++ x :: post) :
    ((runT cfg t pre).1.gnmiUpdate cfg x.1 x.2).1 ≠ .panic := by
  have hwp : WellFormed nm pre := ⟨hw.1, fun y hy => hw.2 y (by rw [hsplit]; exact List.mem_append_left _ hy)⟩
  have hx := hw.2 x (by rw [hsplit]; exact List.mem_append_right _ (List.mem_cons_self ..))
  exact (gnmiUpdate_sim (cfg := cfg) (nm := nm) x.1 _ x.2 hw.1 hx.1 hx.2 (feed_simulation cfg nm pre t view hwp hg)).1

/-- **Replay is exact without event-driven emulation**: a replica built from the feed of a fresh
target holds exactly the (index, notification) pairs the cache holds. -/
theorem feed_replay_exact (cfg : Cfg) (he : cfg.eventDriven = false) (name : String)
    (hist : List (Int × Noti)) (hw : WellFormed name hist) :
    ∀ kv, kv ∈ applyEvents [] (runT cfg { name := name } hist).2 ↔
      kv ∈ (runT cfg { name := name } hist).1.tree := by
  have hg := feed_simulation cfg name hist { name := name } [] hw (GT.init cfg name)
  have heq : ∀ k, lookup (applyEvents [] (runT cfg { name := name } hist).2) k =
      lookup (runT cfg { name := name } hist).1.tree k := by
    intro k
    have := hg.r.agree k
    revert this
    cases lookup (applyEvents [] (runT cfg { name := name } hist).2) k <;>
      cases lookup (runT cfg { name := name } hist).1.tree k <;> intro h
    · rfl
    · exact h.elim
    · exact h.elim
    · rcases h with rfl | ⟨h1, _⟩
      · rfl
      · rw [he] at h1; cases h1
  intro kv
  obtain ⟨k, v⟩ := kv
  rw [← lookup_some_iff hg.r.unique, ← lookup_some_iff hg.unique, heq k]

/-- **Replay with event-driven emulation**: same leaves; each leaf's notification is the cache's
own, or (both plain) one that carries an equal value. -/
theorem feed_replay_values (cfg : Cfg) (name : String) (hist : List (Int × Noti)) (hw : WellFormed name hist) (k : Path) :
    match lookup (applyEvents [] (runT cfg { name := name } hist).2) k,
          lookup (runT cfg { name := name } hist).1.tree k with
    | none, none => True
    | some v, some n =>
        v = n ∨ (cfg.eventDriven = true ∧ v.atomic = false ∧ n.atomic = false ∧
          valueEqual (Feed.headVal v) (Feed.headVal n) = true)
    | _, _ => False := by
  have hg := feed_simulation cfg name hist { name := name } [] hw (GT.init cfg name)
  have := hg.r.agree k
  revert this
  cases lookup (applyEvents [] (runT cfg { name := name } hist).2) k <;>
    cases lookup (runT cfg { name := name } hist).1.tree k <;> intro h <;> exact h

/-- the view of a leaf the cache withheld nothing about is the cache's own notification: if the
last accepted update of `k` changed its value (or either side is atomic), view and cache agree
exactly.  (Direct from `feed_replay_values`: the only slack is `Supp`.) -/
theorem feed_replay_same_when_differs (cfg : Cfg) (name : String) (hist : List (Int × Noti))
    (hw : WellFormed name hist) (k : Path) (v n : Noti)
    (hv : lookup (applyEvents [] (runT cfg { name := name } hist).2) k = some v)
    (hn : lookup (runT cfg { name := name } hist).1.tree k = some n)
    (hd : valueEqual (Feed.headVal v) (Feed.headVal n) = false ∨ v.atomic = true ∨ n.atomic = true) : v = n := by
  have := feed_replay_values cfg name hist hw k
  rw [hv, hn] at this
  rcases this with h | ⟨_, h2, h3, h4⟩
  · exact h
  · rcases hd with h | h | h
    · rw [h] at h4; cases h4
    · rw [h] at h2; cases h2
    · rw [h] at h3; cases h3

/-! ## Non-vacuity: a concrete history that exercises every arm -/

def u1 : Upd := { path := ["a", "b"], val := .scalar (.int 1), raw := "u1" }
def u1' : Upd := { path := ["a", "b"], val := .scalar (.int 1), raw := "u1'" }
def u2 : Upd := { path := ["a", "c"], val := .scalar (.int 2), raw := "u2" }
def ua : Upd := { path := ["x"], val := .scalar (.int 3), raw := "ua" }
def hist0 : List (Int × Noti) :=
  [ (10, { ts := 1, target := "t", praw := "p", upd := [u1, u2] }),                      -- two leaves
    (11, { ts := 2, target := "t", praw := "p", upd := [u1'] }),                         -- unchanged value: suppressed
    (12, { ts := 3, target := "t", pfx := ["at"], praw := "q", atomic := true, upd := [ua, u2] }),   -- atomic unit
    (13, { ts := 4, target := "t", praw := "p", del := [{ path := ["a", "*"], raw := "d" }] }),      -- wildcard delete
    (14, { ts := 0, target := "t", praw := "p", upd := [u2] }) ]                          -- re-add (older ts is fine: leaf is gone)

example : WellFormed "t" hist0 := by
  refine ⟨by decide, ?_⟩
  intro x hx
  simp only [hist0, List.mem_cons, List.not_mem_nil, or_false] at hx
  rcases hx with rfl | rfl | rfl | rfl | rfl <;>
    refine ⟨rfl, ?_⟩ <;> intro u hu <;>
    simp only [List.mem_cons, List.not_mem_nil, or_false] at hu <;>
    first
      | (rcases hu with rfl | rfl <;> exact ⟨by decide, Or.inr rfl, by decide⟩)
      | (subst hu; exact ⟨by decide, Or.inr rfl, by decide⟩)
      | exact hu.elim

/-- the run really suppresses one update, emits an atomic unit and two delete events, and ends
with two leaves — and the replayed view has the same keys -/
example : ((runT {} { name := "t" } hist0).2.length,
           ((runT {} { name := "t" } hist0).1.tree.map (·.1)),
           ((applyEvents [] (runT {} { name := "t" } hist0).2).map (·.1))) =
    (6, [["a", "c"], ["at"]], [["a", "c"], ["at"]]) := by decide

end C03
end Gnmi

/-! ## The whole cache: every API call, several targets

`Spec/Feed.lean` routes each event to the view of the target it names (`applySs`).  The history
ranges over **all** cache API calls: `Add`, `Remove`, `Reset`, `Sync`, `Connect`, `ConnectError`,
`GnmiUpdate` (any shape) and the periodic `UpdateMetadata`. -/
namespace Gnmi
namespace C03
open Cache Feed

/-- run a history of API calls, collecting the feed -/
def runS (enc : String → String) (s : State) : List Op → State × List Event
  | [] => (s, [])
  | op :: ops =>
    let r := s.step enc op
    let r' := runS enc r.1 ops
    (r'.1, r.2.2 ++ r'.2)

/-- the side conditions hold along the run: targets are added under fresh non-empty names and
updates are `Clean` -/
def OkRun (enc : String → String) (s : State) : List Op → Prop
  | [] => True
  | op :: ops => Feed.Op.ok s op ∧ OkRun enc (s.step enc op).1 ops

theorem cache_feed_simulation_from (enc : String → String) : ∀ (ops : List Op) (s : State) (vs : Views),
    SInv s → SSim vs s → OkRun enc s ops →
    SInv (runS enc s ops).1 ∧ SSim (applySs vs (runS enc s ops).2) (runS enc s ops).1
  | [], _, _, hi, hs, _ => ⟨hi, hs⟩
  | op :: ops, s, vs, hi, hs, hok => by
    have h1 := step_ssim enc s vs op hi hs hok.1
    have h2 := (step_sinv enc s op hi (Feed.Op.ok_valid hok.1)).1
    have ih := cache_feed_simulation_from enc ops _ _ h2 h1 hok.2
    show SInv (runS enc (s.step enc op).1 ops).1 ∧
      SSim (applySs vs ((s.step enc op).2.2 ++ (runS enc (s.step enc op).1 ops).2)) (runS enc (s.step enc op).1 ops).1
    rw [← applySs_append]
    exact ih

/-- **Whole-cache feed simulation.** After any history of API calls on a fresh cache, the view
of every registered target — built from nothing but the feed — follows that target's tree, and
the view of every unknown (never added, or removed) target is empty. -/
theorem cache_feed_simulation (enc : String → String) (cfg : Cfg) (ops : List Op) (hok : OkRun enc { cfg := cfg } ops) :
    SSim (applySs (fun _ => []) (runS enc { cfg := cfg } ops).2) (runS enc { cfg := cfg } ops).1 :=
  (cache_feed_simulation_from enc ops { cfg := cfg } (fun _ => []) (SInv.empty cfg)
    ⟨fun name t h => by simp [State.get] at h, fun _ _ => rfl⟩ hok).2

/-- the configuration never changes along a run -/
theorem runS_cfg (enc : String → String) : ∀ (ops : List Op) (s : State), (runS enc s ops).1.cfg = s.cfg
  | [], _ => rfl
  | op :: ops, s => by
    show (runS enc (s.step enc op).1 ops).1.cfg = s.cfg
    rw [runS_cfg enc ops]
    exact C14.step_cfg enc s op

/-- **Exact replay for the whole cache** (event-driven emulation off): for every registered target
the replica holds exactly the (index, notification) pairs `Cache.Query` draws its answers from. -/
theorem cache_replay_exact (enc : String → String) (cfg : Cfg) (he : cfg.eventDriven = false) (ops : List Op)
    (hok : OkRun enc { cfg := cfg } ops) (name : String) (t : Target)
    (hg : (runS enc { cfg := cfg } ops).1.get name = some t) :
    ∀ kv, kv ∈ applySs (fun _ => []) (runS enc { cfg := cfg } ops).2 name ↔ kv ∈ t.tree := by
  have hs := (cache_feed_simulation enc cfg ops hok).1 name t hg
  rw [runS_cfg] at hs
  have heq : ∀ k, lookup (applySs (fun _ => []) (runS enc { cfg := cfg } ops).2 name) k = lookup t.tree k := by
    intro k
    have := hs.r.agree k
    revert this
    cases lookup (applySs (fun _ => []) (runS enc { cfg := cfg } ops).2 name) k <;>
      cases lookup t.tree k <;> intro h
    · rfl
    · exact h.elim
    · exact h.elim
    · rcases h with rfl | ⟨h1, _⟩
      · rfl
      · rw [he] at h1; cases h1
  intro kv
  obtain ⟨k, v⟩ := kv
  rw [← lookup_some_iff hs.r.unique, ← lookup_some_iff hs.unique, heq k]

/-- a removed (or never added) target leaves nothing behind in the replica -/
theorem cache_replay_unknown_empty (enc : String → String) (cfg : Cfg) (ops : List Op)
    (hok : OkRun enc { cfg := cfg } ops) (name : String)
    (hg : (runS enc { cfg := cfg } ops).1.get name = none) :
    applySs (fun _ => []) (runS enc { cfg := cfg } ops).2 name = [] :=
  (cache_feed_simulation enc cfg ops hok).2 name hg

end C03
end Gnmi

/-! ### Non-vacuity of the whole-cache statement -/
namespace Gnmi
namespace C03
open Cache Feed

def ops0 : List Op :=
  [ .add "t", .connect "t" 5,
    .update 10 false { ts := 1, target := "t", praw := "p", upd := [u1, u2] },
    .sync "t" 11, .updateMetadata 12, .reset "t" 13,
    .update 14 false { ts := 20, target := "t", praw := "p", upd := [u2] },
    .remove "t" 15 ]

example : OkRun id {} ops0 := by
  refine ⟨⟨by decide, rfl⟩, trivial, ?_, trivial, trivial, trivial, ?_, trivial, trivial⟩
  · intro u hu
    simp only [List.mem_cons, List.not_mem_nil, or_false] at hu
    rcases hu with rfl | rfl <;> exact ⟨by decide, Or.inr rfl, by decide⟩
  · intro u hu
    simp only [List.mem_cons, List.not_mem_nil, or_false] at hu
    subst hu; exact ⟨by decide, Or.inr rfl, by decide⟩

/-- before the final `Remove` the replica of `t` holds the data leaf and the metadata leaves;
after it, nothing -/
example : ((applySs (fun _ => []) (runS id {} ops0.dropLast).2 "t").length,
           (applySs (fun _ => []) (runS id {} ops0).2 "t").length,
           (runS id {} ops0).2.length) = (14, 0, 24) := by decide

end C03
end Gnmi
