import Gnmi.Lemmas.CacheState
import Gnmi.Props.C02
/-!
# C12 — no message from a remote peer can crash a process (cache ingest surface)

The cache model (`Gnmi/Model/Cache.lean`) represents every partial Go operation on the ingest
path as a checked operation with an explicit `panic` outcome: `n.Update[0]`, `n.Delete[0]`,
`old.Update[0]`, `d.Update[0]` in the delete callback, and the slice expression `p[1:]` of
`joinPrefixAndPath`; the type assertions on stored values are discharged by typing (the tree
only ever stores notifications) and the index expressions `path[0]`, `path[1]` are guarded by
the length checks the code now has.  The theorems below say the `panic` outcome is
unreachable, for every cache state reachable through the API and every notification a
protobuf decoder can produce (`Noti` has no nil entries in its repeated fields by typing;
everything else — empty paths, paths under `meta`, absent values, wildcards against an empty
cache, type changes — is allowed).

The other receive surfaces of C12 (Subscribe handler, client receive path, CLI display) are
in `Props/C12Surfaces.lean` (namespace `Gnmi.C12S`, models `Model/RecvSurfaces.lean`).
-/
namespace Gnmi
namespace C12
open Cache

/-- **Ingest is total.** In every state reachable by any history of API calls (targets
registered under non-empty names), any further call — in particular `GnmiUpdate` with an
arbitrary notification — does not panic. -/
theorem ingest_total (enc : String → String) (cfg : Cfg) (ops : List Op) (hv : ∀ op ∈ ops, op.valid)
    (op : Op) (ho : op.valid) :
    ((State.run enc { cfg := cfg } ops).step enc op).2.1 ≠ .panic :=
  (step_sinv enc _ op (run_sinv enc ops _ (SInv.empty cfg) hv) ho).2

/-- … and reachable states stay well formed (unique non-empty keys, stored notifications carry
an update, truthful leaf counters), which is what the next call relies on. -/
theorem ingest_keeps_invariant (enc : String → String) (cfg : Cfg) (ops : List Op)
    (hv : ∀ op ∈ ops, op.valid) : SInv (State.run enc { cfg := cfg } ops) :=
  run_sinv enc ops _ (SInv.empty cfg) hv

/-- The periodic `UpdateMetadata` is total too, whatever a target stored under `meta/…`
(wrong-typed values included: they are treated as different and overwritten). -/
theorem updateMetadata_total (enc : String → String) (cfg : Cfg) (ops : List Op)
    (hv : ∀ op ∈ ops, op.valid) (now : Int) :
    SInv ((State.run enc { cfg := cfg } ops).updateMetadata enc now).1 :=
  updateMetadata_sinv enc now _ (run_sinv enc ops _ (SInv.empty cfg) hv)

/-- **A rejected message leaves previously stored data intact**: an update unit that is
returned as stale, future or error changes no leaf (and not the latest timestamp). -/
theorem rejected_preserves (cfg : Cfg) (now : Int) (t : Target) (n : Noti) (u : Upd) (us : List Upd)
    (hu : n.upd = u :: us) (ht : n.target ≠ "")
    (hr : (Target.gnmiUpdate1 cfg now t n).1 ≠ .ok) (hp : (Target.gnmiUpdate1 cfg now t n).1 ≠ .panic) :
    (Target.gnmiUpdate1 cfg now t n).2.1.tree = t.tree :=
  (C02.rejected_changes_nothing cfg now t n u us hu ht hr hp).1

/-- a notification addressed to an unknown target, or without prefix, is an error that changes
nothing -/
theorem unknown_target_rejected (s : State) (now : Int) (n : Noti) (h : s.get n.target = none) :
    s.gnmiUpdate now false n = (.err, s, []) ∧ s.gnmiUpdate now true n = (.err, s, []) := by
  unfold State.gnmiUpdate; simp [h]

/-! ### the crashes that were repaired, as decided regression facts on the model -/

def tEmpty : Target := { name := "dev" }
/-- update whose joined path is empty (D4): an error, not a panic -/
example : (tEmpty.gnmiUpdate {} 0 { ts := 1, target := "dev", praw := "p", upd := [{ raw := "u" }] }).1 = .err := by decide
/-- update addressed to `meta` alone (D5) -/
example : (tEmpty.gnmiUpdate {} 0 { ts := 1, target := "dev", praw := "p", upd := [{ path := ["meta"], raw := "u" }] }).1 = .err := by decide
/-- `meta/sync` without a value (D6) -/
example : (tEmpty.gnmiUpdate {} 0 { ts := 1, target := "dev", praw := "p", upd := [{ path := ["meta", "sync"], raw := "u" }] }).1 = .err := by decide
/-- wildcard delete against an empty target (D3) -/
example : (tEmpty.gnmiUpdate {} 0 { ts := 1, target := "dev", praw := "p", del := [{ path := ["*"], raw := "d" }] }).1 = .ok := by decide

end C12
end Gnmi
