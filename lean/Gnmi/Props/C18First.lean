import Gnmi.Lemmas.ClientFirst
/-!
# C18 — `getFirst` (client/register.go): the connect step of every `Subscribe` returns

Property theorems about the LTS of `Model/ClientFirst.lean` (helpers: `Lemmas/ClientFirst.lean`).
Everything is stated about `Reach false outs c`: every configuration of `getFirst` reachable
under **any** interleaving of the caller, the goroutines (one per client type) and the
cancellation of `ctx`, for **any** number of client types and **any** outcome script
`outs : List Out` (`fn` returns an Impl / an error / blocks until ctx is done, per type).

Hypothesis on `fn` (the C18 hypothesis on an `Impl`, built into the rules exactly like
`connAbort` in `Model/ClientLTS.lean`): a blocked `fn` returns once ctx is cancelled (`fnAbort`).
Nothing more: `fn` may still succeed after cancellation.  The only legitimate wait is therefore
`HangLive`: some `fn` is blocked and ctx is still live.

`Step true …` is the **mutant** of seeded change `c18_seed7` (error dropped when ctx is done);
for it `getFirst_returns` is refuted (`dropped_error_deadlocks`).
-/
set_option linter.unusedSimpArgs false
set_option linter.unusedVariables false
namespace Gnmi
namespace C18First
open ClientFirst

/-- the only wait the hypothesis on `fn` allows: a blocked `fn` while ctx is live -/
def HangLive (outs : List Out) (c : Cfg) : Prop :=
  c.cancelled = false ∧ ∃ i : Nat, c.g[i]? = some GPc.calling ∧ outs[i]? = some Out.hang

/-- `getFirst` has returned and every goroutine it started has returned -/
def AllDone (c : Cfg) : Prop :=
  c.main.isReturned = true ∧ ∀ (i : Nat) (p : GPc), c.g[i]? = some p → p.exited = true

/-! ## helpers -/

/-- `impl.Close()` in the `<-done` arm only happens after `close(done)` -/
theorem closed_after_done {mu : Bool} {outs : List Out} {c : Cfg} (h : Reach mu outs c) :
    ∀ i : Nat, c.g[i]? = some GPc.exitedClosed → c.doneClosed = true := by
  induction h with
  | init => intro i hi; exact absurd (replicate_get hi) (by simp)
  | @step c l c' hr hs ih =>
      have key : ∀ {i : Nat} {p q : GPc} (j : Nat), c.g[i]? = some p → q ≠ .exitedClosed →
          (c.g.set i q)[j]? = some GPc.exitedClosed → c.g[j]? = some GPc.exitedClosed := by
        intro i p q j hp hq hj
        rw [get_set hp q j] at hj
        by_cases hij : i = j
        · simp [hij] at hj; exact absurd hj hq
        · simpa [hij] using hj
      cases hs
      case entry0 => exact ih
      case entry => exact ih
      case spawn k h1 h2 =>
          intro j hj
          cases hk : c.g[k]? with
          | none =>
              have : c.g.length ≤ k := by simpa using hk
              simp only [Cfg.doSpawn, List.set_eq_of_length_le this] at hj
              exact ih j hj
          | some p => exact ih j (key j hk (by simp) hj)
      case enterLoop => exact ih
      case recvErr => intro j hj; exact ih j hj
      case recvImpl i h1 h2 => intro j hj; exact ih j (key j h2 (by simp) hj)
      case closeDone => intro _ _; rfl
      case fnImpl i h1 h2 => intro j hj; exact ih j (key j h1 (by simp) hj)
      case fnErr i h1 h2 => intro j hj; exact ih j (key j h1 (by simp) hj)
      case fnAbort i h1 h2 => intro j hj; exact ih j (key j h1 (by simp) hj)
      case sendErr i h1 h2 h3 => intro j hj; exact ih j (key j h1 (by simp) hj)
      case dropErr i h1 h2 h3 => intro j hj; exact ih j (key j h1 (by simp) hj)
      case doneArm i h1 h2 => intro _ _; exact h2
      case cancel => exact ih

theorem outs_some {mu : Bool} {outs : List Out} {c : Cfg} (hi : Inv mu outs c) {i : Nat} {p : GPc}
    (h : c.g[i]? = some p) : ∃ o, outs[i]? = some o := by
  have : i < outs.length := hi.len ▸ get_ge h
  exact ⟨outs[i], List.getElem?_eq_getElem this⟩

/-- the buffered errC never blocks a sender: while some goroutine is about to send, the buffer
holds fewer than `len(types)` errors -/
theorem errC_has_room {mu : Bool} {outs : List Out} {c : Cfg} (hi : Inv mu outs c) {i : Nat}
    (h : c.g[i]? = some GPc.failed) : c.errC.length < outs.length := by
  have := wsum_lt sentInd_le h (by simp)
  have h2 := hi.cnt
  have h1 := hi.len
  omega

/-- a goroutine inside `fn` can move, or `fn` is blocked with a live ctx -/
theorem calling_moves {outs : List Out} {c : Cfg} (hi : Inv false outs c) {i : Nat}
    (h : c.g[i]? = some GPc.calling) :
    (∃ l c', Step false outs c l c' ∧ l.actor = some i) ∨
    (outs[i]? = some Out.hang ∧ c.cancelled = false) := by
  obtain ⟨o, ho⟩ := outs_some hi h
  cases o with
  | impl => exact .inl ⟨_, _, .fnImpl h ho, rfl⟩
  | error => exact .inl ⟨_, _, .fnErr h ho, rfl⟩
  | hang =>
      cases hc : c.cancelled with
      | true => exact .inl ⟨_, _, .fnAbort h hc, rfl⟩
      | false => exact .inr ⟨ho, rfl⟩

/-- the caller outside its collecting loop is never blocked -/
theorem main_moves {mu : Bool} {outs : List Out} {c : Cfg} (hi : Inv mu outs c)
    (hm : c.main.isReturned = false) (hl : c.main ≠ .loop) :
    ∃ l c', Step mu outs c l c' ∧ l.actor = none ∧ l ≠ .cancel := by
  cases hmm : c.main with
  | entry =>
      by_cases ho : outs = []
      · exact ⟨_, _, .entry0 hmm ho, rfl, by simp⟩
      · exact ⟨_, _, .entry hmm ho, rfl, by simp⟩
  | spawn k =>
      obtain ⟨k1, _⟩ := hi.mSpawn k hmm
      by_cases hk : k < outs.length
      · exact ⟨_, _, .spawn hmm hk, rfl, by simp⟩
      · have : k = outs.length := by omega
        subst this
        exact ⟨_, _, .enterLoop hmm, rfl, by simp⟩
  | loop => exact absurd hmm hl
  | closing r => exact ⟨_, _, .closeDone hmm, rfl, by simp⟩
  | returned r => simp [hmm] at hm

/-- either some goroutine has not returned, or all have -/
theorem live_or_exited (g : List GPc) :
    (∃ (i : Nat) (p : GPc), g[i]? = some p ∧ p.exited = false) ∨
    (∀ (i : Nat) (p : GPc), g[i]? = some p → p.exited = true) := by
  by_cases h : ∃ (i : Nat) (p : GPc), g[i]? = some p ∧ p.exited = false
  · exact .inl h
  · refine .inr fun i p hp => ?_
    cases he : p.exited with
    | true => rfl
    | false => exact absurd ⟨i, p, hp, he⟩ h

/-! ## getFirst_returns -/

/-- **not stuck.**  In every reachable configuration in which `getFirst` has not returned, some
transition other than the cancellation of ctx is enabled — unless some `fn` is blocked with a live
ctx (the wait the hypothesis on `fn` allows; then `cancel` is enabled). -/
theorem getFirst_not_stuck {outs : List Out} {c : Cfg} (h : Reach false outs c)
    (hm : c.main.isReturned = false) :
    (∃ l c', Step false outs c l c' ∧ l ≠ .cancel) ∨ HangLive outs c := by
  have hi := inv_reach h
  by_cases hl : c.main = .loop
  · rcases live_or_exited c.g with ⟨i, p, hp, he⟩ | hall
    · cases p with
      | unborn => exact absurd hp (hi.noUnborn (.inl hl) i)
      | calling =>
          rcases calling_moves hi hp with ⟨l, c', hs, ha⟩ | ⟨ho, hc⟩
          · refine .inl ⟨l, c', hs, ?_⟩
            intro hc; subst hc; simp [Label.actor] at ha
          · exact .inr ⟨hc, i, hp, ho⟩
      | failed => exact .inl ⟨_, _, .sendErr hp (errC_has_room hi hp) (by simp), by simp⟩
      | offering => exact .inl ⟨_, _, .recvImpl hl hp, by simp⟩
      | exitedErr b => simp at he
      | exitedRecv => simp at he
      | exitedClosed => simp at he
    · -- every goroutine has returned: all of them after sending their error
      have hd : c.doneClosed = false := by
        cases hdc : c.doneClosed with
        | false => rfl
        | true => obtain ⟨r, hr, _⟩ := hi.done.mp hdc; rw [hl] at hr; cases hr
      have hsent : ∀ (i : Nat) (p : GPc), c.g[i]? = some p → sentInd p = 1 := by
        intro i p hp
        have he := hall i p hp
        cases p with
        | exitedErr b =>
            cases b with
            | true => rfl
            | false => exact absurd hp (hi.noDrop rfl i)
        | exitedRecv => have := (hi.recv i).mp hp; simp [hl] at this
        | exitedClosed => have := closed_after_done h i hp; simp [hd] at this
        | _ => simp at he
      have hw := wsum_all hsent
      have h2 := hi.cnt
      have h1 := hi.len
      have h3 := hi.mLoop hl
      cases hec : c.errC with
      | nil => simp [hec] at h2; omega
      | cons e rest => exact .inl ⟨_, _, .recvErr hl hec, by simp⟩
  · obtain ⟨l, c', hs, _, hne⟩ := main_moves hi hm hl
    exact .inl ⟨l, c', hs, hne⟩

/-- … so some transition is always enabled until `getFirst` has returned -/
theorem getFirst_progress {outs : List Out} {c : Cfg} (h : Reach false outs c)
    (hm : c.main.isReturned = false) : ∃ l c', Step false outs c l c' := by
  rcases getFirst_not_stuck h hm with ⟨l, c', hs, _⟩ | ⟨hc, _⟩
  · exact ⟨l, c', hs⟩
  · exact ⟨_, _, .cancel hc⟩

/-- **every run is bounded**: every transition strictly decreases `variant` (≤ 4·len(types)+5),
so no run from `c` is longer than `variant c` — for the mutant as well. -/
theorem every_run_bounded {mu : Bool} {outs : List Out} {c c' : Cfg} {ls : List Label}
    (hr : Run mu outs c ls c') : ls.length + variant outs.length c' ≤ variant outs.length c :=
  run_bounded hr

theorem returns_aux {outs : List Out} :
    ∀ (n : Nat) {c : Cfg}, variant outs.length c ≤ n → Reach false outs c →
      ∃ ls c', Run false outs c ls c' ∧ c'.main.isReturned = true := by
  intro n
  induction n with
  | zero =>
      intro c hv h
      cases hm : c.main.isReturned with
      | true => exact ⟨[], c, .nil, hm⟩
      | false =>
          obtain ⟨l, c', hs⟩ := getFirst_progress h hm
          have := variant_step hs; omega
  | succ n ih =>
      intro c hv h
      cases hm : c.main.isReturned with
      | true => exact ⟨[], c, .nil, hm⟩
      | false =>
          obtain ⟨l, c', hs⟩ := getFirst_progress h hm
          have := variant_step hs
          obtain ⟨ls, c'', hr, hret⟩ := ih (by omega) (.step h hs)
          exact ⟨l :: ls, c'', .cons hs hr, hret⟩

/-- **getFirst_returns** (run form).  From every reachable configuration there is a run of at
most `variant c ≤ 4·len(types)+5` transitions after which `getFirst` has returned; and no
reachable configuration in which it has not returned is stuck (`getFirst_not_stuck`: a
transition other than `cancel` is enabled unless some `fn` is blocked with a live ctx). -/
theorem getFirst_returns {outs : List Out} {c : Cfg} (h : Reach false outs c) :
    (∃ ls c', Run false outs c ls c' ∧ ls.length ≤ variant outs.length c ∧ c'.main.isReturned = true) ∧
    (c.main.isReturned = false → (∃ l c', Step false outs c l c' ∧ l ≠ .cancel) ∨ HangLive outs c) := by
  refine ⟨?_, getFirst_not_stuck h⟩
  obtain ⟨ls, c', hr, hret⟩ := returns_aux (variant outs.length c) (Nat.le_refl _) h
  have := run_bounded hr
  exact ⟨ls, c', hr, by omega, hret⟩

/-! ## no_goroutine_blocked_forever -/

/-- **no_goroutine_blocked_forever.**  Every started goroutine that has not returned can take a
transition of its own (for the select: the loop is at its receive — `recvImpl` — or `done` is
closed — `doneArm`), except
* inside a blocked `fn` with a live ctx (hypothesis on `fn`), or
* at the select while the caller is still starting goroutines or between its `return` and the
  deferred `close(done)` — phases in which the caller itself is never blocked (`main_moves`) and
  after which one of the two arms is enabled. -/
theorem no_goroutine_blocked_forever {outs : List Out} {c : Cfg} (h : Reach false outs c)
    {i : Nat} {p : GPc} (hp : c.g[i]? = some p) (hu : p ≠ .unborn) (he : p.exited = false) :
    (∃ l c', Step false outs c l c' ∧ l.actor = some i) ∨
    (p = .calling ∧ outs[i]? = some Out.hang ∧ c.cancelled = false) ∨
    (p = .offering ∧ ((∃ k, c.main = .spawn k) ∨ (∃ r, c.main = .closing r)) ∧
      ∃ l c', Step false outs c l c' ∧ l.actor = none ∧ l ≠ .cancel) := by
  have hi := inv_reach h
  cases p with
  | unborn => exact absurd rfl hu
  | calling =>
      rcases calling_moves hi hp with hs | ⟨ho, hc⟩
      · exact .inl hs
      · exact .inr (.inl ⟨rfl, ho, hc⟩)
  | failed => exact .inl ⟨_, _, .sendErr hp (errC_has_room hi hp) (by simp), rfl⟩
  | offering =>
      cases hm : c.main with
      | entry => exact absurd ((hi.mEntry hm).1 i _ hp) (by simp)
      | spawn k =>
          exact .inr (.inr ⟨rfl, .inl ⟨k, rfl⟩, main_moves hi (by simp [hm]) (by simp [hm])⟩)
      | loop => exact .inl ⟨_, _, .recvImpl hm hp, rfl⟩
      | closing r =>
          exact .inr (.inr ⟨rfl, .inr ⟨r, rfl⟩, main_moves hi (by simp [hm]) (by simp [hm])⟩)
      | returned r =>
          by_cases hr : r = .noTypes
          · subst hr
            have ho := hi.noTypes.2 hm
            have hl : c.g.length = 0 := by rw [hi.len, ho]; rfl
            have := get_ge hp
            omega
          · have hd := hi.done.mpr ⟨r, hm, hr⟩
            exact .inl ⟨_, _, .doneArm hp hd, rfl⟩
  | exitedErr b => simp at he
  | exitedRecv => simp at he
  | exitedClosed => simp at he

/-- once `getFirst` has returned, every goroutine that has not returned can move on its own,
unless its `fn` is blocked with a live ctx -/
theorem after_return_goroutines_move {outs : List Out} {c : Cfg} (h : Reach false outs c)
    (hm : c.main.isReturned = true) {i : Nat} {p : GPc} (hp : c.g[i]? = some p)
    (he : p.exited = false) :
    (∃ l c', Step false outs c l c' ∧ l.actor = some i) ∨
    (p = .calling ∧ outs[i]? = some Out.hang ∧ c.cancelled = false) := by
  have hi := inv_reach h
  have hu : p ≠ .unborn := by
    intro hpu; subst hpu
    cases hmm : c.main with
    | returned r =>
        by_cases hr : r = .noTypes
        · subst hr
          have ho := hi.noTypes.2 hmm
          have hl : c.g.length = 0 := by rw [hi.len, ho]; rfl
          have := get_ge hp
          omega
        · exact hi.noUnborn (.inr ⟨r, by simp [hmm], hr⟩) i hp
    | _ => simp [hmm] at hm
  rcases no_goroutine_blocked_forever h hp hu he with h1 | h2 | ⟨_, h3, _⟩
  · exact .inl h1
  · exact .inr h2
  · rcases h3 with ⟨k, hk⟩ | ⟨r, hr⟩
    · simp [hk] at hm
    · simp [hr] at hm

/-- **Every maximal run ends with everything returned**: a reachable configuration without any
enabled transition has `getFirst` returned and every goroutine returned (no goroutine leaked,
none blocked for ever).  Together with `every_run_bounded`: every execution reaches such a
configuration within `4·len(types)+5` transitions. -/
theorem terminal_all_done {outs : List Out} {c : Cfg} (h : Reach false outs c)
    (hmax : ∀ l c', ¬ Step false outs c l c') : AllDone c := by
  have hc : c.cancelled = true := by
    cases hcc : c.cancelled with
    | true => rfl
    | false => exact absurd (.cancel hcc) (hmax _ _)
  have hm : c.main.isReturned = true := by
    cases hmm : c.main.isReturned with
    | true => rfl
    | false =>
        obtain ⟨l, c', hs⟩ := getFirst_progress h hmm
        exact absurd hs (hmax l c')
  refine ⟨hm, fun i p hp => ?_⟩
  cases he : p.exited with
  | true => rfl
  | false =>
      rcases after_return_goroutines_move h hm hp he with ⟨l, c', hs, _⟩ | ⟨_, _, hcf⟩
      · exact absurd hs (hmax l c')
      · simp [hc] at hcf

theorem maximal_run_all_done {outs : List Out} {c c' : Cfg} {ls : List Label}
    (h : Reach false outs c) (hr : Run false outs c ls c') (hmax : ∀ l c'', ¬ Step false outs c' l c'') :
    AllDone c' ∧ ls.length ≤ variant outs.length c :=
  ⟨terminal_all_done (run_reach h hr) hmax, by have := run_bounded hr; omega⟩

/-! ## first_impl_wins -/

/-- what `getFirst` has decided to return never changes afterwards -/
theorem result_stable {mu : Bool} {outs : List Out} {c c' : Cfg} {l : Label} {r : Res}
    (hs : Step mu outs c l c') (hr : c.main.res = some r) : c'.main.res = some r := by
  cases hs <;> simp_all [Cfg.setG, Cfg.doSpawn, Cfg.doSendErr, Cfg.doRecvErr, Cfg.doRecvImpl, Cfg.doDoneArm]

/-- with an error result every goroutine has failed and sent its error, errC is drained -/
theorem errs_all_failed {mu : Bool} {outs : List Out} {c : Cfg} (h : Reach mu outs c) {l : List Nat}
    (hr : c.main.res = some (.errs l)) :
    l = c.errs ∧ c.errC = [] ∧ ∀ (i : Nat) (p : GPc), c.g[i]? = some p → p = .exitedErr true := by
  have hi := inv_reach h
  obtain ⟨e1, e2⟩ := hi.mErrs l hr
  have h2 := hi.cnt
  have h1 := hi.len
  have hle := wsum_le sentInd_le c.g
  have hfull : c.g.length ≤ wsum sentInd c.g := by omega
  refine ⟨e1, ?_, fun i p hp => ?_⟩
  · cases hec : c.errC with
    | nil => rfl
    | cons a b => simp [hec] at h2; omega
  · have := wsum_full sentInd_le hfull hp
    cases p with
    | exitedErr b => cases b <;> simp_all
    | _ => simp at this

/-- **first_impl_wins.**  Once `getFirst` has decided what to return (`r`):
* if `r` is the Impl of type `i`, then `fn` of type `i` did return an Impl (the script says so and
  the goroutine handed it over on implC): the returned one is one of the successes;
* `r` is an Impl **iff** some `fn` has succeeded; in particular an error list is returned only
  when every `fn` has failed — a success is never lost to the collected errors. -/
theorem first_impl_wins {outs : List Out} {c : Cfg} (h : Reach false outs c) {r : Res}
    (hr : c.main.res = some r) :
    (∀ i, r = .impl i → outs[i]? = some Out.impl ∧ c.g[i]? = some GPc.exitedRecv) ∧
    ((∃ i, r = .impl i) ↔ ∃ (i : Nat) (p : GPc), c.g[i]? = some p ∧ p.succeeded = true) := by
  have hi := inv_reach h
  refine ⟨?_, ?_, ?_⟩
  · intro i hri; subst hri
    have hg := (hi.recv i).mpr hr
    exact ⟨hi.succ i _ hg rfl, hg⟩
  · rintro ⟨i, rfl⟩
    exact ⟨i, _, (hi.recv i).mpr hr, rfl⟩
  · rintro ⟨i, p, hp, hs⟩
    cases r with
    | impl j => exact ⟨j, rfl⟩
    | noTypes =>
        have ho : outs = [] := by
          cases hm : c.main with
          | returned r' => simp [hm] at hr; subst hr; exact hi.noTypes.2 hm
          | closing r' => simp [hm] at hr; subst hr; exact absurd hm hi.noTypes.1
          | _ => simp [hm] at hr
        have hl : c.g.length = 0 := by rw [hi.len, ho]; rfl
        have := get_ge hp
        omega
    | errs l =>
        have := (errs_all_failed h hr).2.2 i p hp
        subst this; simp at hs

/-! ## all_errors_reported -/

/-- **all_errors_reported.**  If `getFirst` returns the error list, it holds exactly one error per
client type (`len(types)` entries, every type index exactly once), collected in the order the
loop received them; and this is what happens whenever no `fn` succeeds. -/
theorem all_errors_reported {outs : List Out} {c : Cfg} (h : Reach false outs c) {l : List Nat}
    (hr : c.main.res = some (.errs l)) :
    l.length = outs.length ∧ (∀ i, i < outs.length → l.count i = 1) ∧
    (∀ i, outs.length ≤ i → l.count i = 0) := by
  have hi := inv_reach h
  obtain ⟨e1, e2, e3⟩ := errs_all_failed h hr
  obtain ⟨_, e4⟩ := hi.mErrs l hr
  subst e1
  refine ⟨e4, fun i hlt => ?_, fun i hge => ?_⟩
  · have := hi.ptErr i
    have hlt' : i < c.g.length := by rw [hi.len]; exact hlt
    have hg : c.g[i]? = some c.g[i] := List.getElem?_eq_getElem hlt'
    have := e3 i _ hg
    simp_all
  · have := hi.ptErr i
    have hn : c.g[i]? = none := by simp [hi.len, hge]
    simp_all

/-- if `getFirst` has returned and no `fn` has succeeded, the result is the complete error list
(or "no client types" for an empty list of types) -/
theorem all_fail_reports_all {outs : List Out} {c : Cfg} (h : Reach false outs c) {r : Res}
    (hm : c.main = .returned r)
    (hf : ∀ (i : Nat) (p : GPc), c.g[i]? = some p → p.succeeded = false) :
    (outs = [] ∧ r = .noTypes) ∨ (∃ l, r = .errs l ∧ l.length = outs.length ∧
      ∀ i, i < outs.length → l.count i = 1) := by
  have hi := inv_reach h
  have hr : c.main.res = some r := by simp [hm]
  cases r with
  | noTypes => exact .inl ⟨hi.noTypes.2 hm, rfl⟩
  | errs l => obtain ⟨a, b, _⟩ := all_errors_reported h hr; exact .inr ⟨l, rfl, a, b⟩
  | impl i =>
      have := (first_impl_wins h hr).1 i rfl
      have := hf i _ this.2
      simp at this

/-! ## losers_closed -/

/-- **losers_closed** (safety).  `getFirst`'s goroutines call `Close()` on the Impl of a type at
most once, only on an Impl that `fn` did return and only after `close(done)`; never on the Impl
that is returned to the caller. -/
theorem losers_closed_safe {outs : List Out} {c : Cfg} (h : Reach false outs c) (i : Nat) :
    c.closedLog.count i ≤ 1 ∧
    (c.closedLog.count i = 1 ↔ c.g[i]? = some GPc.exitedClosed) ∧
    (c.closedLog.count i = 1 → outs[i]? = some Out.impl ∧ c.doneClosed = true) ∧
    (c.main.res = some (.impl i) → c.closedLog.count i = 0) := by
  have hi := inv_reach h
  have h4 := hi.ptClosed i
  refine ⟨by rw [h4]; split <;> simp, by rw [h4]; split <;> simp_all, ?_, ?_⟩
  · intro h1
    have hg : c.g[i]? = some GPc.exitedClosed := by
      rw [h4] at h1; split at h1 <;> simp_all
    exact ⟨hi.succ i _ hg rfl, closed_after_done h i hg⟩
  · intro hr
    have hg := (hi.recv i).mpr hr
    rw [h4, hg]; simp

/-- **losers_closed.**  When everything has returned (`AllDone`, which every maximal run reaches:
`maximal_run_all_done`), every Impl a `fn` returned has been either handed to the caller (exactly
the returned one, never closed by `getFirst`) or closed exactly once; a type whose `fn` failed has
no `Close()` call.  No transport is leaked. -/
theorem losers_closed {outs : List Out} {c : Cfg} (h : Reach false outs c) (hd : AllDone c)
    {r : Res} (hm : c.main = .returned r) {i : Nat} {p : GPc} (hp : c.g[i]? = some p) :
    (p.succeeded = true → (r = .impl i ∧ c.closedLog.count i = 0) ∨ (r ≠ .impl i ∧ c.closedLog.count i = 1)) ∧
    (p.succeeded = false → c.closedLog.count i = 0) := by
  have hi := inv_reach h
  have he := hd.2 i p hp
  have h4 := hi.ptClosed i
  have h8 := hi.recv i
  cases p with
  | exitedErr b => simp [h4, hp]
  | exitedRecv =>
      have := h8.mp hp
      simp [hm] at this
      simp [h4, hp, this]
  | exitedClosed =>
      have hne : r ≠ .impl i := by
        intro hri; subst hri
        have := h8.mpr (by simp [hm])
        rw [hp] at this; simp at this
      simp [h4, hp, hne]
  | _ => simp at he

/-! ## a single client type: `getFirst` is a call

The client LTS (`Model/ClientLTS.lean`) treats the connect step of `BaseClient.Subscribe` with
one client type as a call of `fn`; so does `NewImpl(ctx, d, typ)` inside `fn`. -/

/-- **single_type_is_call.**  With one client type `getFirst` returns exactly what its single
`fn` call returned — the Impl (never closed by `getFirst`) or a one-element error list. -/
theorem single_type_is_call {o : Out} {c : Cfg} (h : Reach false [o] c) {r : Res}
    (hr : c.main.res = some r) :
    (r = .impl 0 ∧ c.g = [.exitedRecv] ∧ c.closedLog.count 0 = 0) ∨ (r = .errs [0] ∧ c.g = [.exitedErr true]) := by
  have hi := inv_reach h
  have hl : c.g.length = 1 := hi.len
  obtain ⟨p, hg⟩ : ∃ p, c.g = [p] := by
    match hgg : c.g with
    | [p] => exact ⟨p, rfl⟩
    | [] => simp [hgg] at hl
    | _ :: _ :: _ => simp [hgg] at hl
  cases r with
  | noTypes =>
      have : ([o] : List Out) = [] := by
        cases hm : c.main with
        | returned r' => simp [hm] at hr; subst hr; exact hi.noTypes.2 hm
        | closing r' => simp [hm] at hr; subst hr; exact absurd hm hi.noTypes.1
        | _ => simp [hm] at hr
      simp at this
  | impl i =>
      have h1 := (first_impl_wins h hr).1 i rfl
      have hi0 : i = 0 := by
        have := get_ge h1.2; omega
      subst hi0
      refine .inl ⟨rfl, ?_, (losers_closed_safe h 0).2.2.2 hr⟩
      have := h1.2; rw [hg] at this; simp at this; rw [hg, this]
  | errs l =>
      obtain ⟨a, b, d⟩ := all_errors_reported h hr
      obtain ⟨_, _, e3⟩ := errs_all_failed h hr
      refine .inr ⟨?_, ?_⟩
      · have h0 := b 0 (by simp)
        match l, a with
        | [x], _ =>
            by_cases hx : x = 0
            · subst hx; rfl
            · simp [List.count_singleton, hx] at h0
      · have := e3 0 p (by simp [hg]); rw [hg, this]

/-- how the result is used by `BaseClient.Subscribe`: it goes on to `install` exactly when some
`fn` succeeded, with that type's Impl -/
theorem installs_iff {outs : List Out} {c : Cfg} (h : Reach false outs c) {r : Res}
    (hr : c.main.res = some r) :
    (∃ i, r.installs = some i) ↔ ∃ (i : Nat) (p : GPc), c.g[i]? = some p ∧ p.succeeded = true := by
  rw [← (first_impl_wins h hr).2]
  cases r <;> simp [Res.installs]

/-! ## The seeded change c18_seed7 as a refutation -/

/-- the stuck configuration of the mutant: one client type whose (ctx-honouring, blocked) `fn`
failed after ctx was cancelled; the goroutine dropped the error and returned; the collecting loop
waits on two channels nobody will ever send on -/
def stuckCfg : Cfg :=
  { g := [.exitedErr false], cancelled := true, main := .loop }

/-- **dropped_error_deadlocks.**  For the MUTANT (`Step true`: the error of an attempt is dropped
when `ctx.Err() != nil`, seeded change c18_seed7) `getFirst_returns` is false: with a single
client type whose `fn` blocks until ctx is done, the configuration `stuckCfg` is reachable
(cancel ctx while `fn` is blocked), `getFirst` has not returned, **no** transition is enabled, and
it is not the wait the hypothesis on `fn` allows. -/
theorem dropped_error_deadlocks :
    Reach true [.hang] stuckCfg ∧ stuckCfg.main.isReturned = false ∧
    (∀ l c', ¬ Step true [.hang] stuckCfg l c') ∧ ¬ HangLive [.hang] stuckCfg := by
  refine ⟨?_, by decide, ?_, ?_⟩
  · have : runGF true [.hang] [.cancel] = some stuckCfg := by decide
    exact runGF_reach this
  · intro l c' hs
    have sg : ∀ {i : Nat} {y : GPc}, [GPc.exitedErr false][i]? = some y → y = .exitedErr false := by
      intro i y h; cases i <;> simp_all
    cases hs
    case entry0 h _ => simp [stuckCfg] at h
    case entry h _ => simp [stuckCfg] at h
    case spawn h _ => simp [stuckCfg] at h
    case enterLoop h => simp [stuckCfg] at h
    case recvErr h => simp [stuckCfg] at h
    case recvImpl h => have := sg h; simp at this
    case closeDone h => simp [stuckCfg] at h
    case fnImpl h _ => have := sg h; simp at this
    case fnErr h _ => have := sg h; simp at this
    case fnAbort h _ => have := sg h; simp at this
    case sendErr h _ _ => have := sg h; simp at this
    case dropErr h _ _ => have := sg h; simp at this
    case doneArm h _ => have := sg h; simp at this
    case cancel h => simp [stuckCfg] at h
  · rintro ⟨hc, _⟩; simp [stuckCfg] at hc

/-- the statement of `getFirst_returns` fails for the mutant -/
theorem mutant_getFirst_returns_false :
    ¬ (∀ (outs : List Out) (c : Cfg), Reach true outs c →
        ∃ ls c', Run true outs c ls c' ∧ c'.main.isReturned = true) := by
  intro hall
  obtain ⟨hr, hm, hstuck, _⟩ := dropped_error_deadlocks
  obtain ⟨ls, c', hrun, hret⟩ := hall _ _ hr
  cases hrun with
  | nil => rw [hm] at hret; cases hret
  | cons hs _ => exact hstuck _ _ hs

/-- the same script and schedule on the repository's code: `getFirst` returns the error -/
example : (runGF false [.hang] [.cancel]).map (·.main) = some (.returned (.errs [0])) := by decide

/-! ## Non-vacuity -/

/-- three types: type 1 fails fast, type 2 succeeds, type 0 succeeds late -/
def demoOuts : List Out := [.impl, .error, .impl]
def demoSched : List Tok := [.rel 1, .rel 2, .rel 0]

example : (runGF false demoOuts demoSched).map (·.main) = some (.returned (.impl 2)) := by decide
example : (runGF false demoOuts demoSched).map (·.closedLog) = some [0] := by decide
example : (runGF false demoOuts demoSched).map (·.g) =
    some [.exitedClosed, .exitedErr true, .exitedRecv] := by decide
example : ∃ c, Reach false demoOuts c ∧ AllDone c ∧ c.main = .returned (.impl 2) :=
  match h : runGF false demoOuts demoSched with
  | some c => ⟨c, runGF_reach h, by
      have : runGF false demoOuts demoSched = some
        { g := [.exitedClosed, .exitedErr true, .exitedRecv], errs := [1], doneClosed := true,
          closedLog := [0], main := .returned (.impl 2) } := by decide
      rw [this] at h; cases h
      refine ⟨⟨rfl, ?_⟩, rfl⟩
      intro i p hp
      match i, hp with
      | 0, hp => simp at hp; subst hp; rfl
      | 1, hp => simp at hp; subst hp; rfl
      | 2, hp => simp at hp; subst hp; rfl
      | n + 3, hp => simp at hp⟩
  | none => by
      have : (runGF false demoOuts demoSched).isSome = true := by decide
      rw [h] at this; cases this

/-- all fail: the error list carries both types -/
example : (runGF false [.error, .hang] [.rel 0, .cancel]).map (·.main) =
    some (.returned (.errs [0, 1])) := by decide

/-- a reachable configuration in which the only wait is the one the hypothesis allows -/
example : ∃ c, Reach false [.hang] c ∧ HangLive [.hang] c ∧ c.main = .loop :=
  match h : runGF false [.hang] [] with
  | some c => ⟨c, runGF_reach h, by
      have : runGF false [.hang] [] = some { g := [.calling], main := .loop } := by decide
      rw [this] at h; cases h
      exact ⟨⟨rfl, 0, rfl, rfl⟩, rfl⟩⟩
  | none => by
      have : (runGF false [.hang] []).isSome = true := by decide
      rw [h] at this; cases this

end C18First
end Gnmi
