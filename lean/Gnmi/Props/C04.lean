import Gnmi.Lemmas.SubscribeOrder
import Gnmi.Lemmas.SubscribeDemo
/-!
# C04 — STREAM subscribers converge to the cache; sync marks the initial snapshot

Theorems about the Subscribe LTS (`Model/SubscribeLTS.lean`), for any number of writers and
subscribers, any requests, any schedule.  Hypotheses that appear everywhere:

* `sys.swap = false` — the system as the code is: `addSubscription` before
  `processSubscription` (fact `subscribe.stream.order`);
* `sys.WF` — the assumptions imported from C06 (`walks ⊆ wants`; a query compatible with a key
  is compatible with every subtree-delete path covering it) and the cache (`covers_tgt`);
* per-key serialised writers and write-then-notify are built into the guards of `shFire`;
  C10 `query_stability` is the walker's `todo` discipline (`finish` only with `todo = []`).

Event-driven suppression (`ShLabel.w1Quiet`: a write that is stored but not announced, the cache's
default configuration) is part of the LTS; "equals the cache" is therefore stated **modulo the quiet
writes** logged in the ghost `qlog` (`ORel (QChain qlog)`: both absent, or linked by a chain of logged
rewrites `(old, new)`), with the corollaries `converges_exact` (no quiet write happened: equality) and
`converges_equiv` (every logged pair is related by an equivalence `E` — the code: `value.Equal` — then
so are the subscriber's view and the cache): the statement of SEQ's `Feed.Sim`.
-/
namespace Gnmi
namespace C04
open SubLTS

variable {K V T R : Type} [DecidableEq K] [DecidableEq R] [DecidableEq T] [Inhabited V]

/-- the inductive invariant (E.1): shared-state facts, program-counter facts, generations of
queued handles, "nothing about `k` behind a pending current handle of `k`", and (A) -/
structure Inv (sys : Sys K T R) (c : Cfg K V T R) : Prop where
  shared : ShInv sys c.sh
  phase : ∀ s, Phase (sys.req s) (c.subs s)
  gen : ∀ s, GenInv c.sh (c.subs s)
  curLast : ∀ s, CurLast sys c.sh (c.subs s)
  conv : ∀ s, Conv sys (sys.req s) c.sh (c.subs s)

theorem inv_init (sys : Sys K T R) : Inv sys (Cfg.init : Cfg K V T R) where
  shared := shInv_init sys
  phase := fun s => phase_init _
  gen := fun s k g hm => by cases hm
  curLast := fun s k hp => by cases hp
  conv := fun s hr => by cases hr

theorem inv_step {sys : Sys K T R} (hsw : sys.swap = false) (wf : sys.WF) {c c' : Cfg K V T R}
    {l : Label K V T R} (hi : Inv sys c) (hs : Step sys c l c') : Inv sys c' := by
  cases hs with
  | shared l sh' h =>
    exact {
      shared := shInv_step hi.shared h
      phase := fun s => phase_shared l (hi.phase s)
      gen := fun s => genInv_shared hi.shared h (hi.gen s)
      curLast := fun s => curLast_shared hi.shared (hi.gen s) h (hi.curLast s)
      conv := fun s => conv_shared (wf.wants_region s) hi.shared (hi.phase s) (hi.curLast s) h (hi.conv s) }
  | sub s l b' h =>
    have hst := subFire_step h
    have key : ∀ (P : Nat → Sub K V R → Prop), (∀ s', P s' (c.subs s')) → P s b' →
        ∀ s', P s' (setFn c.subs s b' s') := by
      intro P h1 h2 s'
      by_cases e : s' = s
      · subst e; rw [setFn_same]; exact h2
      · rw [setFn_other _ _ e]; exact h1 s'
    exact {
      shared := hi.shared
      phase := key (fun s b => Phase (sys.req s) b) hi.phase (phase_local hsw hst (hi.phase s))
      gen := key (fun _ b => GenInv c.sh b) hi.gen (genInv_local hst (hi.gen s))
      curLast := key (fun _ b => CurLast sys c.sh b) hi.curLast (curLast_local hst (hi.curLast s))
      conv := key (fun s b => Conv sys (sys.req s) c.sh b) hi.conv
        (conv_local hsw wf hi.shared (hi.phase s) (hi.curLast s) (hi.conv s) hst) }

theorem inv_reach {sys : Sys K T R} (hsw : sys.swap = false) (wf : sys.WF) {c : Cfg K V T R}
    (h : Reach sys c) : Inv sys c := by
  induction h with
  | init => exact inv_init sys
  | step _ hs ih => exact inv_step hsw wf ih hs

/-- **no_missed_change** (E.1 (A)).  In every reachable configuration, for every registered
subscriber `s` (STREAM, not `updates_only`) and every key `k` its registered paths are
compatible with and its ACL allows: unless a writer unit touching `k` is between its tree
write and its notification, the replay of `sent ++ in-flight ++ pending` (handles read now)
gives exactly the cache's value of `k` (up to the logged quiet writes: `ORel (QChain qlog)`) — or the initial walk will still visit `k`
(`k` present), or `k` is streamed-only (compatible but not matched by the walk) and the
subscriber has been told nothing about it yet. -/
theorem no_missed_change {sys : Sys K T R} (hsw : sys.swap = false) (wf : sys.WF) {c : Cfg K V T R}
    (h : Reach sys c) (s : Nat) (k : K) (hr : (c.subs s).registered = true)
    (huo : (sys.req s).updatesOnly = false) (hw : (sys.req s).wants k = true)
    (ha : (sys.req s).allow (sys.tgt k) = true) (hf : c.sh.inflight sys k = false) :
    ORel (QChain c.sh.qlog) (expect sys c.sh (c.subs s) k) (c.sh.cache k) ∨
    (c.sh.present k = true ∧ (sys.req s).walks k = true ∧ walkPending (c.subs s) k) ∨
    ((sys.req s).walks k = false ∧ expect sys c.sh (c.subs s) k = none) :=
  (inv_reach hsw wf h).conv s hr huo k hw ha hf

/-- nothing left to do for subscriber `s`: no writer unit between `W1` and `W2`, walk
finished, queue empty, sender waiting in `Next` -/
def Quiescent (c : Cfg K V T R) (s : Nat) : Prop :=
  c.sh.pend = [] ∧ (c.subs s).walker = .done ∧ (c.subs s).q = [] ∧ (c.subs s).snd = .idle

theorem expect_quiescent {sys : Sys K T R} {c : Cfg K V T R} {s : Nat} (hq : Quiescent c s) (k : K) :
    expect sys c.sh (c.subs s) k = view sys k (c.subs s).sent := by
  obtain ⟨_, _, h3, h4⟩ := hq
  unfold expect; rw [h3, h4]; rfl

theorem not_walkPending_quiescent {sys : Sys K T R} (hsw : sys.swap = false) (wf : sys.WF)
    {c : Cfg K V T R} (h : Reach sys c) {s : Nat} (hq : Quiescent c s) (k : K) :
    ¬ walkPending (c.subs s) k := by
  obtain ⟨_, h2, _, _⟩ := hq
  rintro (hpc | ⟨todo, vis, hw, _⟩)
  · have := ((inv_reach hsw wf h).phase s).pre_walker (by rw [hpc]; rfl)
    rw [h2] at this; cases this
  · rw [h2] at hw; cases hw

/-- **converges**, part 1 (the property's "matching content"): in a quiescent configuration
the replay of the responses sent to a registered STREAM subscriber equals the cache on every
key matched by its subscription paths (and allowed by its ACL) — up to the quiet writes: both hold
nothing, or the value the subscriber has and the value the cache holds are linked by a chain of
logged suppressed updates. -/
theorem converges {sys : Sys K T R} (hsw : sys.swap = false) (wf : sys.WF) {c : Cfg K V T R}
    (h : Reach sys c) (s : Nat) (hq : Quiescent c s) (hr : (c.subs s).registered = true)
    (huo : (sys.req s).updatesOnly = false) (k : K) (hw : (sys.req s).walks k = true)
    (ha : (sys.req s).allow (sys.tgt k) = true) :
    ORel (QChain c.sh.qlog) (view sys k (c.subs s).sent) (c.sh.cache k) := by
  have hf : c.sh.inflight sys k = false := by simp [Shared.inflight, hq.1]
  rcases no_missed_change hsw wf h s k hr huo (wf.walks_wants s k hw) ha hf with h1 | ⟨_, _, h3⟩ | ⟨h2, _⟩
  · rw [← expect_quiescent hq k]; exact h1
  · exact absurd h3 (not_walkPending_quiescent hsw wf h hq k)
  · rw [hw] at h2; cases h2

/-- **converges**, exact form: if no quiet write ever happened (event-driven suppression off, or no
update ever left a value unchanged), the replay **equals** the cache. -/
theorem converges_exact {sys : Sys K T R} (hsw : sys.swap = false) (wf : sys.WF) {c : Cfg K V T R}
    (h : Reach sys c) (s : Nat) (hq : Quiescent c s) (hr : (c.subs s).registered = true)
    (huo : (sys.req s).updatesOnly = false) (k : K) (hw : (sys.req s).walks k = true)
    (ha : (sys.req s).allow (sys.tgt k) = true) (hnq : c.sh.qlog = []) :
    view sys k (c.subs s).sent = c.sh.cache k := by
  have := converges hsw wf h s hq hr huo k hw ha
  rw [hnq] at this
  exact this.eq_of_nil

/-- **converges**, modulo an equivalence (the form of SEQ's `Feed.Sim`): if every quiet write replaced
a value by an `E`-related one (the code: `value.Equal(old, new)`, the test that suppresses the
notification) and `E` is reflexive and transitive, then the subscriber's view and the cache hold
nothing, or `E`-related values. -/
theorem converges_equiv {sys : Sys K T R} (hsw : sys.swap = false) (wf : sys.WF) {c : Cfg K V T R}
    (h : Reach sys c) (s : Nat) (hq : Quiescent c s) (hr : (c.subs s).registered = true)
    (huo : (sys.req s).updatesOnly = false) (k : K) (hw : (sys.req s).walks k = true)
    (ha : (sys.req s).allow (sys.tgt k) = true) (E : V → V → Prop) (hrefl : ∀ a, E a a)
    (htrans : ∀ a b c, E a b → E b c → E a c) (hlog : ∀ p ∈ c.sh.qlog, E p.1 p.2) :
    ORel E (view sys k (c.subs s).sent) (c.sh.cache k) :=
  (converges hsw wf h s hq hr huo k hw ha).imp (fun _ _ hc => hc.rel hrefl htrans hlog)

/-- the ghost log of quiet writes only grows, and only by the step `w1Quiet k v`, which appends the pair
(value the cache held for `k`, `v`) -/
theorem qlog_step {sys : Sys K T R} {c c' : Cfg K V T R} {l : Label K V T R} (hs : Step sys c l c') :
    c'.sh.qlog = c.sh.qlog ∨
      ∃ k v old, l = .sh (.w1Quiet k v) ∧ c.sh.cache k = some old ∧ c'.sh.cache k = some v ∧
        c'.sh.qlog = c.sh.qlog ++ [(old, v)] := by
  cases hs with
  | sub s l b' h => exact Or.inl rfl
  | shared l sh' h =>
    cases l with
    | tAdd t => simp only [shFire, Option.some.injEq] at h; subst h; exact Or.inl rfl
    | w1Quiet k v =>
      simp only [shFire, Option.ite_none_right_eq_some, Option.some.injEq] at h
      obtain ⟨⟨hp, _⟩, rfl⟩ := h
      exact Or.inr ⟨k, v, _, rfl, by simp [Shared.cache, hp], by simp [Shared.cache, hp, setFn], rfl⟩
    | _ =>
      simp only [shFire, Option.ite_none_right_eq_some, Option.some.injEq] at h
      obtain ⟨_, rfl⟩ := h; exact Or.inl rfl

/-- **converges**, part 2: a key that is streamed (compatible) but not part of the snapshot
(the stored path is shorter than the subscription path) is either unknown to the subscriber
or known with the cache's value (up to the quiet writes) — never stale, never a phantom. -/
theorem converges_streamed_only {sys : Sys K T R} (hsw : sys.swap = false) (wf : sys.WF)
    {c : Cfg K V T R} (h : Reach sys c) (s : Nat) (hq : Quiescent c s)
    (hr : (c.subs s).registered = true) (huo : (sys.req s).updatesOnly = false) (k : K)
    (hw : (sys.req s).wants k = true) (ha : (sys.req s).allow (sys.tgt k) = true) :
    ORel (QChain c.sh.qlog) (view sys k (c.subs s).sent) (c.sh.cache k) ∨
      view sys k (c.subs s).sent = none := by
  have hf : c.sh.inflight sys k = false := by simp [Shared.inflight, hq.1]
  rcases no_missed_change hsw wf h s k hr huo hw ha hf with h1 | ⟨_, _, h3⟩ | ⟨_, h2⟩
  · rw [← expect_quiescent hq k]; exact Or.inl h1
  · exact absurd h3 (not_walkPending_quiescent hsw wf h hq k)
  · rw [← expect_quiescent hq k]; exact Or.inr h2


/-- **coalesced_is_newest.**  When the sender builds the response for a dequeued leaf handle
`(k, g)` — however many notifications were coalesced into it (`d`) — the response carries the
value the leaf object holds at that moment, and that is the newest value ever written to that
leaf object (the last entry for `(k, g)` of the ghost write log). -/
theorem coalesced_is_newest {sys : Sys K T R} {c : Cfg K V T R} (h : Reach sys c) (s : Nat)
    (k : K) (g d : Nat) (hs : (c.subs s).snd = .got (.handle k g) d)
    (ha : (sys.req s).allow (sys.tgt k) = true) :
    fire sys c (.sub s .build) = some ⟨c.sh, setFn c.subs s
        { c.subs s with snd := .sending (.upd k (c.sh.val k g) d), armed := true }⟩ ∧
      lastW k g c.sh.wlog = some (c.sh.val k g) := by
  obtain ⟨⟨_, hs2⟩, hl⟩ := handles_reach h
  have hg := (hl s).got _ _ hs k g rfl
  exact ⟨by simp [fire, subFire, hs, mkResp, ha], hs2.newest k g hg.1 hg.2⟩

/-! ## The sync response -/

theorem oneSync_reach {sys : Sys K T R} (hsw : sys.swap = false) {c : Cfg K V T R}
    (h : Reach sys c) (s : Nat) (hm : (sys.req s).mode = .stream) :
    Phase (sys.req s) (c.subs s) ∧ OneSync (sys.req s) (c.subs s) := by
  have := (reach_inv sys (fun _ => True)
    (fun s _ b => Phase (sys.req s) b ∧ ((sys.req s).mode = .stream → OneSync (sys.req s) b))
    trivial ?_ ?_ ?_ ?_ h).2 s
  · exact ⟨this.1, this.2 hm⟩
  · intro s; exact ⟨phase_init _, fun _ => oneSync_init _⟩
  · intros; trivial
  · intro s sh l sh' b _ hb _
    exact ⟨phase_shared l hb.1, fun hm => oneSync_shared sys _ l (hb.2 hm)⟩
  · intro s sh b l b' _ hb hst
    exact ⟨phase_local hsw hst hb.1, fun hm => oneSync_local hsw hm hb.1 hst (hb.2 hm)⟩

/-- **one_sync.**  A STREAM subscription is sent at most one sync response, ever; and exactly
one once its walk is over (for `updates_only`: once the goroutines are started), its queue is
drained and the sender is back in `Next` — as long as the RPC has not ended.  (While the RPC
is running the invariant is an equality: sent + in the sender's hands + queued + still to be
inserted = 1.) -/
theorem one_sync {sys : Sys K T R} (hsw : sys.swap = false) {c : Cfg K V T R}
    (h : Reach sys c) (s : Nat) (hm : (sys.req s).mode = .stream) :
    nSync (c.subs s).sent ≤ 1 ∧
      ((c.subs s).status = none → syncTotal (sys.req s) (c.subs s) = 1) ∧
      ((c.subs s).status = none → (c.subs s).walker = .done → (c.subs s).q = [] →
        (c.subs s).snd = .idle → nSync (c.subs s).sent = 1) := by
  obtain ⟨hph, ho⟩ := oneSync_reach hsw h s hm
  refine ⟨?_, ho.eq, ?_⟩
  · have := ho.le; unfold syncTotal at this; omega
  · intro hst hw hq hs
    have := ho.eq hst
    have hpc : (c.subs s).pc.pre = false := by
      cases hp : (c.subs s).pc.pre with
      | false => rfl
      | true => rw [hph.pre_snd hp] at hs; cases hs
    have hd : syncDue (sys.req s) (c.subs s) = 0 := by
      unfold syncDue
      cases (sys.req s).updatesOnly with
      | false => simp [hw]
      | true => revert hpc; cases (c.subs s).pc <;> simp [HPc.pre]
    simpa [syncTotal, hd, hs, sndSyncs, Sub.items, hq] using this

theorem order_reach {sys : Sys K T R} (hsw : sys.swap = false) (wf : sys.WF) {c : Cfg K V T R}
    (h : Reach sys c) (s : Nat) (hm : (sys.req s).mode = .stream) :
    ((sys.req s).updatesOnly = true → FirstSync (c.subs s)) ∧
    ((sys.req s).updatesOnly = false → SnapInv sys (sys.req s) c.sh (c.subs s)) := by
  have := (reach_inv sys (fun _ => True)
    (fun s sh b => (sys.req s).mode = .stream →
      (Phase (sys.req s) b ∧ OneSync (sys.req s) b) ∧
      ((sys.req s).updatesOnly = true → FirstSync b) ∧
      ((sys.req s).updatesOnly = false → SnapInv sys (sys.req s) sh b))
    trivial ?_ ?_ ?_ ?_ h).2 s hm
  · exact this.2
  · intro s _
    exact ⟨⟨phase_init _, oneSync_init _⟩, fun _ => firstSync_init, fun _ => snapInv_init _ _ _⟩
  · intros; trivial
  · intro s sh l sh' b _ hb hf hm
    obtain ⟨⟨h1, h2⟩, h3, h4⟩ := hb hm
    exact ⟨⟨phase_shared l h1, oneSync_shared sys _ l h2⟩, fun hu => firstSync_shared sys _ l (h3 hu),
      fun hu => snapInv_shared hf (h4 hu)⟩
  · intro s sh b l b' _ hb hst hm
    obtain ⟨⟨h1, h2⟩, h3, h4⟩ := hb hm
    exact ⟨⟨phase_local hsw hst h1, oneSync_local hsw hm h1 hst h2⟩,
      fun hu => firstSync_local hsw hm hu h1 hst (h3 hu),
      fun hu => snapInv_local hsw wf hm hu h1 h2 hst (h4 hu)⟩

/-- **sync_position**, `updates_only`: the sync response precedes every other response — the
response sequence is empty or starts with the sync. -/
theorem sync_position_updates_only {sys : Sys K T R} (hsw : sys.swap = false) (wf : sys.WF)
    {c : Cfg K V T R} (h : Reach sys c) (s : Nat) (hm : (sys.req s).mode = .stream)
    (huo : (sys.req s).updatesOnly = true) :
    (c.subs s).sent = [] ∨ (c.subs s).sent.head? = some .sync := by
  rcases ((order_reach hsw wf h s hm).1 huo).sent_head with e | e
  · exact Or.inl e
  · refine Or.inr ?_
    cases hs : (c.subs s).sent with
    | nil => rw [hs] at e; cases e
    | cons r rest =>
      rw [hs] at e
      simp only [List.map_cons, List.head?_cons, Option.some.injEq] at e
      rw [labR_sync e]; rfl

/-- **sync_position**, not `updates_only`, first clause.  When a sync response has been sent,
every key of the ghost set `since` — the keys present when the subscription was registered
and not deleted before the end of its walk, i.e. *present continuously from registration to
the end of the walk* — that is matched by the subscription paths and allowed by the ACL has
an update response in front of that sync. -/
theorem sync_position {sys : Sys K T R} (hsw : sys.swap = false) (wf : sys.WF)
    {c : Cfg K V T R} (h : Reach sys c) (s : Nat) (hm : (sys.req s).mode = .stream)
    (huo : (sys.req s).updatesOnly = false) (hsync : Resp.sync ∈ (c.subs s).sent)
    (k : K) (hk : k ∈ (c.subs s).since) (hw : (sys.req s).walks k = true)
    (ha : (sys.req s).allow (sys.tgt k) = true) :
    ∃ pre post v d, (c.subs s).sent = pre ++ Resp.upd k v d :: post ∧ Resp.sync ∉ pre := by
  have hs : Lab.sync ∈ (c.subs s).sent.map labR := List.mem_map.2 ⟨_, hsync, rfl⟩
  have hb := ((order_reach hsw wf h s hm).2 huo).sentOK hs k hk hw ha
  obtain ⟨pre', post', e, h1, _⟩ := (before_iff (by intro e; cases e) _).1 hb
  obtain ⟨pre, rest, e1, e2, e3⟩ := List.map_eq_append_iff.1 e
  obtain ⟨r, post, e4, e5, _⟩ := List.map_eq_cons_iff.1 e3
  have hr : ∃ v d, r = Resp.upd k v d := by
    cases r <;> simp [labR] at e5
    exact ⟨_, _, by rw [e5]⟩
  obtain ⟨v, d, rfl⟩ := hr
  refine ⟨pre, post, v, d, by rw [e1, e4], ?_⟩
  intro hm'
  exact h1 (e2 ▸ List.mem_map.2 ⟨_, hm', rfl⟩)

/-- The second clause of DESIGN's `sync_position` ("for every matched leaf present at
registration, the leaf *or a delete covering it* precedes the sync") as a statement about one
run: key `k` was present when `s` registered (configuration `c1`), and in the later
configuration `c2` a sync was sent with neither an update nor a delete of `k` in front. -/
def SyncPositionDeleteClauseViolated (sys : Sys K T R) (s : Nat) (k : K) : Prop :=
  ∃ c1 c2 : Cfg K V T R, ∃ tr, Reach sys c1 ∧ fireAll sys c1 tr = some c2 ∧
    (c1.subs s).registered = true ∧ (c1.subs s).sent = [] ∧ c1.sh.present k = true ∧
    ∃ post, (c2.subs s).sent = Resp.sync :: post

/-! ## `swap_breaks`: the theorem depends on register-before-walk -/

/-- one target `0`, one key `1`, one subscriber asking for everything; walk **before**
registration -/
def swapSys : Sys Nat Nat Nat :=
  { tgt := fun _ => 0, covers := fun _ _ => true, rtgt := fun _ => 0, isTD := fun _ => true,
    req := fun _ => { wants := fun _ => true, walks := fun _ => true, wantsR := fun _ => true,
                      allow := fun _ => true },
    swap := true }

theorem swapSys_wf : swapSys.WF := ⟨fun _ _ _ => rfl, fun _ _ _ _ _ => rfl, fun _ _ _ => rfl⟩

/-- add leaf 1 = 7; subscribe: walk (visit 1, sync), the sender delivers both; then the leaf
is updated to 8 — the subscriber is not registered yet, so `W2` reaches nobody; then the
handler registers.  Nothing is pending any more. -/
def swapTrace : List (Label Nat Nat Nat Nat) :=
  [.sh (.tAdd 0), .sh (.w1Add 1 7), .sh (.w2 (.upd 1 1)),
   .sub 0 .hs, .sub 0 .hs, .sub 0 .hs, .sub 0 .hs, .sub 0 .hs,   -- h0 … h4
   .sub 0 .hs,                                                     -- spawn walker + sender
   .sub 0 (.visit 1), .sub 0 .finish,
   .sub 0 .next, .sub 0 .build, .sub 0 .sent, .sub 0 .next, .sub 0 .build, .sub 0 .sent,
   .sh (.w1Upd 1 8), .sh (.w2 (.upd 1 1)),
   .sub 0 .hs]                                                     -- register

def swapObs (c : Cfg Nat Nat Nat Nat) (sent : List (Resp Nat Nat Nat)) (v : Option Nat) : Bool :=
  decide (c.sh.pend = []) && decide ((c.subs 0).walker = .done) && decide ((c.subs 0).q = []) &&
  decide ((c.subs 0).snd = .idle) && (c.subs 0).registered && decide ((c.subs 0).sent = sent) &&
  decide (c.sh.cache 1 = v)

theorem swap_obs : (fireAll swapSys Cfg.init swapTrace).map
    (fun c => swapObs c [.upd 1 7 0, .sync] (some 8)) = some true := by decide

/-- **swap_breaks.**  In the LTS with walk and registration swapped there is a reachable
quiescent configuration, with a registered STREAM subscriber whose ACL allows everything,
in which the replay of the responses differs from the cache on a matched key: `converges`
fails.  (The subscriber was told `1 ↦ 7`, the cache holds `1 ↦ 8`, nothing is pending.) -/
theorem swap_breaks : ∃ c : Cfg Nat Nat Nat Nat, Reach swapSys c ∧ Quiescent c 0 ∧
    (c.subs 0).registered = true ∧ (swapSys.req 0).updatesOnly = false ∧
    (swapSys.req 0).walks 1 = true ∧ (swapSys.req 0).allow (swapSys.tgt 1) = true ∧
    view swapSys 1 (c.subs 0).sent ≠ c.sh.cache 1 := by
  have ho := swap_obs
  cases hc : fireAll swapSys Cfg.init swapTrace with
  | none => rw [hc] at ho; cases ho
  | some c =>
    rw [hc] at ho
    simp only [Option.map_some, Option.some.injEq, swapObs, Bool.and_eq_true, decide_eq_true_eq] at ho
    obtain ⟨⟨⟨⟨⟨⟨h1, h2⟩, h3⟩, h4⟩, h5⟩, h6⟩, h7⟩ := ho
    refine ⟨c, fireAll_reach _ Reach.init hc, ⟨h1, h2, h3, h4⟩, h5, rfl, rfl, rfl, ?_⟩
    rw [h6, h7]; decide

/-- the same schedule with the order of the code (register, then walk) is not even a
schedule: the update's `W2` reaches the registered subscriber, and the run converges -/
example : (fireAll { swapSys with swap := false } Cfg.init
    [.sh (.tAdd 0), .sh (.w1Add 1 7), .sh (.w2 (.upd 1 1)),
     .sub 0 .hs, .sub 0 .hs, .sub 0 .hs, .sub 0 .hs, .sub 0 .hs, .sub 0 .hs, .sub 0 .hs,
     .sub 0 (.visit 1), .sub 0 .finish,
     .sub 0 .next, .sub 0 .build, .sub 0 .sent, .sub 0 .next, .sub 0 .build, .sub 0 .sent,
     .sh (.w1Upd 1 8), .sh (.w2 (.upd 1 1)),
     .sub 0 .next, .sub 0 .build, .sub 0 .sent]).map
    (fun c => swapObs c [.upd 1 7 0, .sync, .upd 1 8 0] (some 8)) = some true := by decide


/-! ## The delete clause of `sync_position` is not satisfiable by the protocol

A delete whose tree write lands after registration and before the walk reaches the leaf, and
whose notification is delivered after the walk ended, leaves the sync in front of everything
concerning that leaf.  (The leaf's delete *is* delivered — `no_missed_change` — but after the
sync.)  This is a property of the protocol, not of the order register/walk. -/

def okSys : Sys Nat Nat Nat := { swapSys with swap := false }

def delTrace1 : List (Label Nat Nat Nat Nat) :=
  [.sh (.tAdd 0), .sh (.w1Add 1 7), .sh (.w2 (.upd 1 1)),
   .sub 0 .hs, .sub 0 .hs, .sub 0 .hs, .sub 0 .hs, .sub 0 .hs, .sub 0 .hs]   -- … registered

def delTrace2 : List (Label Nat Nat Nat Nat) :=
  [.sub 0 .hs,                        -- spawn: walk starts, todo = [1]
   .sh (.w1Del [1]),                  -- W1 of the delete
   .sub 0 .finish,                    -- nothing left to visit: sync marker
   .sub 0 .next, .sub 0 .build, .sub 0 .sent,
   .sh (.w2 (.del 1)),                -- W2 of the delete
   .sub 0 .next, .sub 0 .build, .sub 0 .sent]

theorem del_obs : ((fireAll okSys Cfg.init delTrace1).bind (fun c1 =>
    (fireAll okSys c1 delTrace2).map (fun c2 =>
      (c1.subs 0).registered && decide ((c1.subs 0).sent = []) && c1.sh.present 1 &&
        decide ((c2.subs 0).sent = [.sync, .del 1])))) = some true := by decide

theorem sync_position_delete_clause_fails :
    SyncPositionDeleteClauseViolated (V := Nat) okSys 0 1 := by
  have ho := del_obs
  cases h1 : fireAll okSys Cfg.init delTrace1 with
  | none => rw [h1] at ho; cases ho
  | some c1 =>
    rw [h1] at ho
    simp only [Option.bind_some] at ho
    cases h2 : fireAll okSys c1 delTrace2 with
    | none => rw [h2] at ho; cases ho
    | some c2 =>
      rw [h2] at ho
      simp only [Option.map_some, Option.some.injEq, Bool.and_eq_true, decide_eq_true_eq] at ho
      obtain ⟨⟨⟨a1, a2⟩, a3⟩, a4⟩ := ho
      exact ⟨c1, c2, delTrace2, fireAll_reach _ Reach.init h1, h2, a1, a2, a3, [.del 1], a4⟩


/-! ## The theorem depends on per-key serialised writers (DESIGN C04, excluded point)

The guards of `shFire` make a writer unit on key `k` wait for the pending unit on `k`.  The
collector violates this for a few `meta/…` leaves: `generateMetaUpdates` fetches the leaf
`meta/connectError`, `Connect` deletes it and announces the delete, the refresh then
`Update`s the *detached* leaf object through the stale handle and announces it.  That writer
step is not a step of the LTS; `staleUpdate` adds it by hand. -/

/-- a writer updates the leaf object `(k, g)` through a handle it fetched earlier — whatever
happened to the key since — and will announce it -/
def staleUpdate (c : Cfg K V T R) (k : K) (g : Nat) (v : V) : Cfg K V T R :=
  ⟨{ c.sh with val := setFn c.sh.val k (setFn (c.sh.val k) g v), pend := c.sh.pend ++ [.upd k g] }, c.subs⟩

theorem unser_obs : ((fireAll okSys Cfg.init
      ([.sh (.tAdd 0), .sh (.w1Add 1 7), .sh (.w2 (.upd 1 1)),
        .sub 0 .hs, .sub 0 .hs, .sub 0 .hs, .sub 0 .hs, .sub 0 .hs, .sub 0 .hs, .sub 0 .hs,
        .sub 0 (.visit 1), .sub 0 .finish,
        .sub 0 .next, .sub 0 .build, .sub 0 .sent, .sub 0 .next, .sub 0 .build, .sub 0 .sent,
        -- the refresh has fetched the leaf (1, 1); `Connect` deletes it and announces the delete
        .sh (.w1Del [1]), .sh (.w2 (.del 1)), .sub 0 .next, .sub 0 .build, .sub 0 .sent])).bind
    fun c1 => (fireAll okSys (staleUpdate c1 1 1 9)
      [.sh (.w2 (.upd 1 1)), .sub 0 .next, .sub 0 .build, .sub 0 .sent]).map
      fun c2 => swapObs c2 [.upd 1 7 0, .sync, .del 1, .upd 1 9 0] none) = some true := by decide

/-- **unserialised_breaks.**  From a reachable configuration, one update through a stale
handle (racing the delete of the same key) followed by ordinary steps leads to a quiescent
configuration in which a registered STREAM subscriber believes `1 ↦ 9` while the cache has no
leaf `1`: without per-key serialised writers `converges` fails. -/
theorem unserialised_breaks : ∃ c1 c2 : Cfg Nat Nat Nat Nat, ∃ tr, Reach okSys c1 ∧
    fireAll okSys (staleUpdate c1 1 1 9) tr = some c2 ∧ Quiescent c2 0 ∧
    (c2.subs 0).registered = true ∧ (okSys.req 0).walks 1 = true ∧
    view okSys 1 (c2.subs 0).sent = some 9 ∧ c2.sh.cache 1 = none := by
  have ho := unser_obs
  generalize htr : ([.sh (.tAdd 0), .sh (.w1Add 1 7), .sh (.w2 (.upd 1 1)),
        .sub 0 .hs, .sub 0 .hs, .sub 0 .hs, .sub 0 .hs, .sub 0 .hs, .sub 0 .hs, .sub 0 .hs,
        .sub 0 (.visit 1), .sub 0 .finish,
        .sub 0 .next, .sub 0 .build, .sub 0 .sent, .sub 0 .next, .sub 0 .build, .sub 0 .sent,
        .sh (.w1Del [1]), .sh (.w2 (.del 1)), .sub 0 .next, .sub 0 .build, .sub 0 .sent] :
        List (Label Nat Nat Nat Nat)) = tr1 at ho
  cases h1 : fireAll okSys Cfg.init tr1 with
  | none => rw [h1] at ho; cases ho
  | some c1 =>
    rw [h1] at ho
    simp only [Option.bind_some] at ho
    cases h2 : fireAll okSys (staleUpdate c1 1 1 9)
        [.sh (.w2 (.upd 1 1)), .sub 0 .next, .sub 0 .build, .sub 0 .sent] with
    | none => rw [h2] at ho; cases ho
    | some c2 =>
      rw [h2] at ho
      simp only [Option.map_some, Option.some.injEq, swapObs, Bool.and_eq_true, decide_eq_true_eq] at ho
      obtain ⟨⟨⟨⟨⟨⟨a1, a2⟩, a3⟩, a4⟩, a5⟩, a6⟩, a7⟩ := ho
      refine ⟨c1, c2, _, fireAll_reach _ Reach.init h1, h2, ⟨a1, a2, a3, a4⟩, a5, rfl, ?_, a7⟩
      rw [a6]; decide

/-! ## Non-vacuity: the hypotheses of the theorems are met by reachable configurations

`Lemmas/SubscribeDemo.lean`: two targets, keys `1` (target 0) and `11` (target 1). -/

section NonVacuity
open Demo

/-- subscriber 0 (STREAM `*`): snapshot, sync, then an update of `1` and a delete of `11`,
everything delivered -/
def demoStream : List Demo.L :=
  setup ++ hsN 0 7 ++ [.sub 0 (.visit 1), .sub 0 (.visit 11), .sub 0 .finish] ++
  deliver 0 ++ deliver 0 ++ deliver 0 ++
  [.sh (.w1Upd 1 8), .sh (.w2 (.upd 1 1)), .sh (.w1Del [11]), .sh (.w2 (.del 11))] ++
  deliver 0 ++ deliver 0

/-- `converges` / `no_missed_change` / `one_sync` / `sync_position`: a reachable quiescent
configuration with a registered STREAM subscriber, a matched allowed key with a non-trivial
cache value, a deleted key, one sync sent, `1 ∈ since` -/
example : ∃ c : Demo.C, Reach Demo.sys c ∧ Quiescent c 0 ∧ (c.subs 0).registered = true ∧
    (Demo.sys.req 0).mode = .stream ∧ (Demo.sys.req 0).updatesOnly = false ∧
    (Demo.sys.req 0).walks 1 = true ∧ (Demo.sys.req 0).allow (Demo.sys.tgt 1) = true ∧
    c.sh.inflight Demo.sys 1 = false ∧ c.sh.cache 1 = some 8 ∧ c.sh.cache 11 = none ∧
    (c.subs 0).status = none ∧ Resp.sync ∈ (c.subs 0).sent ∧ 1 ∈ (c.subs 0).since ∧
    (c.subs 0).sent = [.upd 1 7 0, .upd 11 70 0, .sync, .upd 1 8 0, .del 11] := by
  obtain ⟨c, hr, hp⟩ := reach_of_trace demoStream (fun c =>
    decide (c.sh.pend = []) && decide ((c.subs 0).walker = .done) && decide ((c.subs 0).q = []) &&
    decide ((c.subs 0).snd = .idle) && (c.subs 0).registered && !c.sh.inflight Demo.sys 1 &&
    decide (c.sh.cache 1 = some 8) && decide (c.sh.cache 11 = none) &&
    decide ((c.subs 0).status = none) && decide (1 ∈ (c.subs 0).since) &&
    decide ((c.subs 0).sent = [.upd 1 7 0, .upd 11 70 0, .sync, .upd 1 8 0, .del 11])) (by decide)
  simp only [Bool.and_eq_true, decide_eq_true_eq, Bool.not_eq_true'] at hp
  obtain ⟨⟨⟨⟨⟨⟨⟨⟨⟨⟨h1, h2⟩, h3⟩, h4⟩, h5⟩, h6⟩, h7⟩, h8⟩, h9⟩, h10⟩, h11⟩ := hp
  exact ⟨c, hr, ⟨h1, h2, h3, h4⟩, h5, rfl, rfl, rfl, rfl, h6, h7, h8, h9, by rw [h11]; decide, h10, h11⟩

/-- `no_missed_change`, the other two disjuncts are needed: (a) while the walk has not reached
key `11` the expectation differs from the cache; (b) subscriber 7 is streamed key `1` but its
walk does not match it: at quiescence it knows nothing about `1` although the cache holds it
(`converges_streamed_only`, second disjunct) -/
example : ∃ c : Demo.C, Reach Demo.sys c ∧ (c.subs 0).registered = true ∧
    c.sh.inflight Demo.sys 11 = false ∧ expect Demo.sys c.sh (c.subs 0) 11 ≠ c.sh.cache 11 := by
  obtain ⟨c, hr, hp⟩ := reach_of_trace (setup ++ hsN 0 7 ++ [.sub 0 (.visit 1)]) (fun c =>
    (c.subs 0).registered && !c.sh.inflight Demo.sys 11 &&
    decide (expect Demo.sys c.sh (c.subs 0) 11 ≠ c.sh.cache 11)) (by decide)
  simp only [Bool.and_eq_true, decide_eq_true_eq, Bool.not_eq_true'] at hp
  exact ⟨c, hr, hp.1.1, hp.1.2, hp.2⟩

example : ∃ c : Demo.C, Reach Demo.sys c ∧ Quiescent c 7 ∧ (c.subs 7).registered = true ∧
    (Demo.sys.req 7).wants 1 = true ∧ (Demo.sys.req 7).walks 1 = false ∧
    view Demo.sys 1 (c.subs 7).sent = none ∧ c.sh.cache 1 = some 7 := by
  obtain ⟨c, hr, hp⟩ := reach_of_trace (setup ++ hsN 7 7 ++ [.sub 7 .finish] ++ deliver 7) (fun c =>
    decide (c.sh.pend = []) && decide ((c.subs 7).walker = .done) && decide ((c.subs 7).q = []) &&
    decide ((c.subs 7).snd = .idle) && (c.subs 7).registered &&
    decide (view Demo.sys 1 (c.subs 7).sent = none) && decide (c.sh.cache 1 = some 7)) (by decide)
  simp only [Bool.and_eq_true, decide_eq_true_eq] at hp
  obtain ⟨⟨⟨⟨⟨⟨h1, h2⟩, h3⟩, h4⟩, h5⟩, h6⟩, h7⟩ := hp
  exact ⟨c, hr, ⟨h1, h2, h3, h4⟩, h5, rfl, rfl, h6, h7⟩

/-- `coalesced_is_newest`: the sender holds a dequeued handle into which two notifications
were coalesced (`d = 2`); the value it will send is the newest (`9`), not the one of the walk -/
example : ∃ c : Demo.C, Reach Demo.sys c ∧ (c.subs 0).snd = .got (.handle 1 1) 2 ∧
    (Demo.sys.req 0).allow (Demo.sys.tgt 1) = true ∧ c.sh.val 1 1 = 9 := by
  obtain ⟨c, hr, hp⟩ := reach_of_trace (setup ++ hsN 0 7 ++
      [.sub 0 (.visit 1), .sh (.w1Upd 1 8), .sh (.w2 (.upd 1 1)), .sh (.w1Upd 1 9),
       .sh (.w2 (.upd 1 1)), .sub 0 .next]) (fun c =>
    decide ((c.subs 0).snd = .got (.handle 1 1) 2) && decide (c.sh.val 1 1 = 9)) (by decide)
  simp only [Bool.and_eq_true, decide_eq_true_eq] at hp
  exact ⟨c, hr, hp.1, rfl, hp.2⟩

/-- `sync_position_updates_only`: subscriber 6 (`updates_only`) has been sent the sync and then
an update -/
example : ∃ c : Demo.C, Reach Demo.sys c ∧ (Demo.sys.req 6).mode = .stream ∧
    (Demo.sys.req 6).updatesOnly = true ∧ (c.subs 6).sent = [.sync, .upd 1 8 0] := by
  obtain ⟨c, hr, hp⟩ := reach_of_trace (setup ++ hsN 6 7 ++
      [.sh (.w1Upd 1 8), .sh (.w2 (.upd 1 1))] ++ deliver 6 ++ deliver 6) (fun c =>
    decide ((c.subs 6).sent = [.sync, .upd 1 8 0])) (by decide)
  exact ⟨c, hr, rfl, rfl, by simpa using hp⟩

/-- `converges` with a quiet write (event-driven suppression): after the snapshot and the sync were
delivered, leaf `1` is rewritten silently (`7 ↦ 107`, logged) — subscriber 0 is quiescent, holds `7`,
the cache holds `107`: **not equal** (why `converges` is stated modulo `qlog`; `converges_exact` needs
`qlog = []`), linked by the log. -/
example : ∃ c : Demo.C, Reach Demo.sys c ∧ Quiescent c 0 ∧ (c.subs 0).registered = true ∧
    view Demo.sys 1 (c.subs 0).sent = some 7 ∧ c.sh.cache 1 = some 107 ∧ c.sh.qlog = [(7, 107)] := by
  obtain ⟨c, hr, hp⟩ := reach_of_trace (setup ++ hsN 0 7 ++
      [.sub 0 (.visit 1), .sub 0 (.visit 11), .sub 0 .finish] ++ deliver 0 ++ deliver 0 ++ deliver 0 ++
      [.sh (.w1Quiet 1 107)]) (fun c =>
    decide (c.sh.pend = []) && decide ((c.subs 0).walker = .done) && decide ((c.subs 0).q = []) &&
    decide ((c.subs 0).snd = .idle) && (c.subs 0).registered &&
    decide (view Demo.sys 1 (c.subs 0).sent = some 7) && decide (c.sh.cache 1 = some 107) &&
    decide (c.sh.qlog = [(7, 107)])) (by decide)
  simp only [Bool.and_eq_true, decide_eq_true_eq] at hp
  obtain ⟨⟨⟨⟨⟨⟨⟨h1, h2⟩, h3⟩, h4⟩, h5⟩, h6⟩, h7⟩, h8⟩ := hp
  exact ⟨c, hr, ⟨h1, h2, h3, h4⟩, h5, h6, h7, h8⟩

/-- a handle still queued when the quiet write happens is read afterwards: the subscriber gets the
silently stored value; and an announced update after a quiet one is delivered as usual -/
example : (fireAll Demo.sys Cfg.init (setup ++ hsN 0 7 ++
      [.sub 0 (.visit 1), .sh (.w1Quiet 1 107), .sub 0 (.visit 11), .sub 0 .finish] ++
      deliver 0 ++ deliver 0 ++ deliver 0 ++
      [.sh (.w1Quiet 1 207), .sh (.w1Upd 1 8), .sh (.w2 (.upd 1 1))] ++ deliver 0)).map
    (fun c => decide ((c.subs 0).sent = [.upd 1 107 0, .upd 11 70 0, .sync, .upd 1 8 0]) &&
      decide (c.sh.qlog = [(7, 107), (107, 207)]) && decide (c.sh.cache 1 = some 8)) = some true := by
  decide

end NonVacuity

end C04
end Gnmi
