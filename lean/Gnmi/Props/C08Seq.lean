import Gnmi.Props.C04Gate
import Gnmi.Lemmas.SubscribeBacklog
/-!
# C08 over the sequential, code-shaped Subscribe model — a stalled subscriber

`Props/C08.lean` proves property C08 over the abstract protocol LTS.  Here the same clauses are
proved over the sequential model that mirrors `subscribe/subscribe.go` and `coalesce/coalesce.go`
(`Model/Subscribe.lean`), for every history of `C04Gate.GOp` operations (subscriptions, cache API
calls, `gateShut`/`gateStep`/`gateOpen` of any subscriber at any point), under the hypotheses of
`C04Gate.stream_converges_pending` (`C03.OkRun` of the cache calls, no target literally named `*`).

A *stalled* subscriber is one whose flow control is shut (`gateShut`): its sender sits inside a gated
`Send` holding one response (`blocked`, already dequeued — "in flight"), and the coalescing queue
fills behind it.

* **(1)** `backlog_bound_seq`, `backlog_written_seq`: the handle entries of the queue are for pairwise
  distinct leaves, each a leaf the cache holds (the entry shows the cache's current notification)
  and that a registered query is compatible with; their number is at most the number of such leaves,
  and at most the number of distinct leaves written since the queue was last empty.
* **(2)** `pending_dups_feed`, `pending_dups_seq`: the duplicate count of the entry of a leaf is the
  number of updates of the leaf offered since the entry was created, minus one.
* **(3)** `resume_newest_seq`, `resume_exactly_one`: at `gateOpen` the subscriber is sent the held response
  and then exactly one response per queue entry, in order; the response of a handle entry carries the
  cache's current notification of its leaf and the entry's duplicate count; nothing behind it touches
  the leaf, no other handle entry is for the leaf.
* **(4)** `gstep_pointwise`, `feed_pointwise`, `gate_ops_local`, `stall_noninterference`: every operation
  acts on each subscriber as a function of the cache and that subscriber alone; flow-control
  operations of `id` change nothing else; the cache and every subscriber not called `id` are the same
  whether or not the history contains the flow-control operations of `id`.
* Non-vacuity: `histS`/`histSeg`/`histOpen` (a stalled subscriber, `k = 3` writes of one leaf and one of
  another, `gateOpen`; a second subscriber that is never stalled) with every hypothesis proved and the
  queue, the counts and the appended output `decide`d; `inflight_same_leaf_witness`,
  `detached_same_leaf_witness`: why (3) is stated per queue entry and not as "one update response per
  leaf" — the response in flight, and a leaf deleted and re-created while pending.
-/
namespace Gnmi
namespace C08Seq
open Cache Gnmi.Sub Feed SubStream SubGate SubBacklog C04Gate

/-! ## (4) every operation acts on each subscriber separately -/

/-- what an operation does to the cache: a function of the cache alone -/
def cacheStep (enc : String → String) (c : Cache.State) : GOp → Cache.State
  | .ca op => (c.step enc op).1
  | _ => c

/-- what an operation does to one subscriber: a function of the cache before the operation and of
that subscriber alone -/
def subStep (enc : String → String) (c : Cache.State) (op : GOp) (s : Subscriber) : Subscriber :=
  match op with
  | .sub .. => s
  | .ca o => feedSub (c.step enc o).1 (c.step enc o).2.2 s
  | .gateShut id => if s.id = id then gateF true s else s
  | .gateOpen id => if s.id = id then gateF false s else s
  | .gateStep id => if s.id = id then stepF s else s

/-- the subscriber an operation adds: a function of the cache (and the pre-gated ids) alone -/
def newSubs (c : Cache.State) (pg : List String) : GOp → List Subscriber
  | .sub id acl req => subscribeOne c pg id acl req
  | _ => []

/-- **every operation of a history acts pointwise**: the new cache is a function of the old cache,
each subscriber's new state a function of the old cache and its own old state; nothing else -/
theorem gstep_pointwise (enc : String → String) (st : Sub.State) (op : GOp) :
    gstep enc st op =
      { cache := cacheStep enc st.cache op,
        subs := st.subs.map (subStep enc st.cache op) ++ newSubs st.cache st.pregated op,
        pregated := st.pregated } := by
  cases op with
  | sub id acl req =>
    show subscribe st id acl req = _
    rw [subscribe_append]
    have : subStep enc st.cache (.sub id acl req) = _root_.id := funext (fun _ => rfl)
    rw [this, List.map_id]
    rfl
  | ca o =>
    show feed { st with cache := (st.cache.step enc o).1 } (st.cache.step enc o).2.2 = _
    rw [feed_eq]
    simp only [newSubs, List.append_nil]
    rfl
  | gateShut id => simp only [newSubs, List.append_nil]; rfl
  | gateOpen id => simp only [newSubs, List.append_nil]; rfl
  | gateStep id => simp only [newSubs, List.append_nil]; rfl

/-- **`feed` acts on each subscriber independently** (`feedSub`: a function of the cache, the events
and that subscriber); the cache component is untouched -/
theorem feed_pointwise (st : Sub.State) (evs : List Event) :
    (feed st evs).subs = st.subs.map (feedSub st.cache evs) ∧ (feed st evs).cache = st.cache ∧
    (feed st evs).pregated = st.pregated := ⟨rfl, rfl, rfl⟩

/-- the cache along a history: a function of the initial cache and the history alone -/
def cacheRun (enc : String → String) (c : Cache.State) (h : List GOp) : Cache.State :=
  h.foldl (cacheStep enc) c

/-- one subscriber along a history: a function of the initial cache, the history and its own state -/
def subRun (enc : String → String) : Cache.State → List GOp → Subscriber → Subscriber
  | _, [], s => s
  | c, op :: h, s => subRun enc (cacheStep enc c op) h (subStep enc c op s)

theorem gstep_cache_eq (enc : String → String) (st : Sub.State) (op : GOp) :
    (gstep enc st op).cache = cacheStep enc st.cache op := by rw [gstep_pointwise]

theorem gstep_pregated (enc : String → String) (st : Sub.State) (op : GOp) :
    (gstep enc st op).pregated = st.pregated := by rw [gstep_pointwise]

theorem gstep_at (enc : String → String) (st : Sub.State) (op : GOp) (i : Nat) (s : Subscriber)
    (hs : st.subs[i]? = some s) : (gstep enc st op).subs[i]? = some (subStep enc st.cache op s) := by
  rw [gstep_pointwise]
  simp only
  have hi : i < (st.subs.map (subStep enc st.cache op)).length := by
    rw [List.length_map]
    exact (List.getElem?_eq_some_iff.1 hs).1
  rw [List.getElem?_append_left hi, List.getElem?_map, hs]
  rfl

/-- **the writers are unaffected**: the cache at the end of a history does not depend on the
subscribers (nor on the flow-control operations: `cacheStep` ignores them) -/
theorem grun_cache (enc : String → String) : ∀ (h : List GOp) (st : Sub.State),
    (grun enc st h).cache = cacheRun enc st.cache h
  | [], _ => rfl
  | op :: h, st => by
    show (grun enc (gstep enc st op) h).cache = cacheRun enc (cacheStep enc st.cache op) h
    rw [grun_cache enc h, gstep_cache_eq]

/-- **a subscriber's trajectory depends on the cache's trajectory and on itself only**: whatever the
other subscribers are and do (stalled or not) -/
theorem grun_at (enc : String → String) : ∀ (h : List GOp) (st : Sub.State) (i : Nat) (s : Subscriber),
    st.subs[i]? = some s → (grun enc st h).subs[i]? = some (subRun enc st.cache h s)
  | [], _, _, _, hs => hs
  | op :: h, st, i, s, hs => by
    show (grun enc (gstep enc st op) h).subs[i]? =
      some (subRun enc (cacheStep enc st.cache op) h (subStep enc st.cache op s))
    have := grun_at enc h _ i _ (gstep_at enc st op i s hs)
    rw [gstep_cache_eq] at this
    exact this

theorem grun_append (enc : String → String) (st : Sub.State) (h1 h2 : List GOp) :
    grun enc st (h1 ++ h2) = grun enc (grun enc st h1) h2 := by
  unfold grun
  rw [List.foldl_append]

theorem subStep_id (enc : String → String) (c : Cache.State) (op : GOp) (s : Subscriber) :
    (subStep enc c op s).id = s.id := by
  cases op with
  | sub => rfl
  | ca o => exact feedSub_id ..
  | gateShut id =>
    show (if s.id = id then gateF true s else s).id = _
    split
    · exact gateF_id ..
    · rfl
  | gateOpen id =>
    show (if s.id = id then gateF false s else s).id = _
    split
    · exact gateF_id ..
    · rfl
  | gateStep id =>
    show (if s.id = id then stepF s else s).id = _
    split
    · exact stepF_id ..
    · rfl

/-- the operation is a flow-control operation of subscriber `id` -/
def isGateOf (id : String) : GOp → Bool
  | .gateShut i => i == id
  | .gateOpen i => i == id
  | .gateStep i => i == id
  | _ => false

theorem subStep_gate_other (enc : String → String) (c : Cache.State) {op : GOp} {id : String}
    (hop : isGateOf id op = true) {s : Subscriber} (hne : s.id ≠ id) : subStep enc c op s = s := by
  cases op with
  | sub => cases hop
  | ca o => cases hop
  | gateShut i =>
    have : i = id := by simpa [isGateOf] using hop
    subst this
    show (if s.id = i then gateF true s else s) = s
    rw [if_neg hne]
  | gateOpen i =>
    have : i = id := by simpa [isGateOf] using hop
    subst this
    show (if s.id = i then gateF false s else s) = s
    rw [if_neg hne]
  | gateStep i =>
    have : i = id := by simpa [isGateOf] using hop
    subst this
    show (if s.id = i then stepF s else s) = s
    rw [if_neg hne]

theorem cacheStep_gate (enc : String → String) (c : Cache.State) {op : GOp} {id : String}
    (hop : isGateOf id op = true) : cacheStep enc c op = c ∧ ∀ pg, newSubs c pg op = [] := by
  cases op with
  | sub => cases hop
  | ca o => cases hop
  | gateShut i => exact ⟨rfl, fun _ => rfl⟩
  | gateOpen i => exact ⟨rfl, fun _ => rfl⟩
  | gateStep i => exact ⟨rfl, fun _ => rfl⟩

/-- **flow-control operations are local**: `gateShut id`/`gateStep id`/`gateOpen id` change neither
the cache nor any subscriber that is not called `id` (nor the number of subscribers) -/
theorem gate_ops_local (enc : String → String) (st : Sub.State) (id : String) (op : GOp)
    (hop : op = .gateShut id ∨ op = .gateStep id ∨ op = .gateOpen id) :
    (gstep enc st op).cache = st.cache ∧ (gstep enc st op).pregated = st.pregated ∧
    (gstep enc st op).subs.length = st.subs.length ∧
    ∀ (i : Nat) (s' : Subscriber), st.subs[i]? = some s' → s'.id ≠ id → (gstep enc st op).subs[i]? = some s' := by
  have hg : isGateOf id op = true := by
    rcases hop with rfl | rfl | rfl <;> simp [isGateOf]
  obtain ⟨hc, hn⟩ := cacheStep_gate enc st.cache hg
  refine ⟨by rw [gstep_cache_eq, hc], gstep_pregated .., ?_, ?_⟩
  · rw [gstep_pointwise]
    simp only [hn, List.append_nil, List.length_map]
  · intro i s' hs hne
    rw [gstep_at enc st op i s' hs, subStep_gate_other enc st.cache hg hne]

/-- two states with the same cache whose subscriber lists differ only in the subscribers called `id` -/
structure Agree (id : String) (st1 st2 : Sub.State) : Prop where
  cache : st1.cache = st2.cache
  pre : st1.pregated = st2.pregated
  subs : AgreeL id st1.subs st2.subs

theorem Agree.refl (id : String) (st : Sub.State) : Agree id st st := ⟨rfl, rfl, AgreeL.refl id _⟩

/-- the same operation on both sides -/
theorem agree_step (enc : String → String) {id : String} {st1 st2 : Sub.State} (h : Agree id st1 st2)
    (op : GOp) : Agree id (gstep enc st1 op) (gstep enc st2 op) := by
  rw [gstep_pointwise, gstep_pointwise]
  refine ⟨by rw [h.cache], h.pre, ?_⟩
  show AgreeL id (st1.subs.map (subStep enc st1.cache op) ++ newSubs st1.cache st1.pregated op)
    (st2.subs.map (subStep enc st2.cache op) ++ newSubs st2.cache st2.pregated op)
  rw [h.cache, h.pre]
  exact AgreeL.append _ (AgreeL.map _ (subStep_id enc st2.cache op) h.subs)

/-- a flow-control operation of `id` on one side only -/
theorem agree_gate_left (enc : String → String) {id : String} {st1 st2 : Sub.State} (h : Agree id st1 st2)
    {op : GOp} (hop : isGateOf id op = true) : Agree id (gstep enc st1 op) st2 := by
  rw [gstep_pointwise]
  obtain ⟨hc, hn⟩ := cacheStep_gate enc st1.cache hop
  refine ⟨by rw [hc]; exact h.cache, h.pre, ?_⟩
  show AgreeL id (st1.subs.map (subStep enc st1.cache op) ++ newSubs st1.cache st1.pregated op) st2.subs
  rw [hn, List.append_nil]
  exact AgreeL.map_left _ (subStep_id enc st1.cache op) (fun s hne => subStep_gate_other enc st1.cache hop hne)
    h.subs

/-- **(4) a stalled subscriber cannot stall the collector or other subscribers.**  Remove every
flow-control operation of `id` from a history (so `id` is never stalled): the cache and every
subscriber not called `id` — including those that subscribe during the history — end in exactly
the same state. -/
theorem stall_noninterference (enc : String → String) (id : String) : ∀ (h : List GOp) (st1 st2 : Sub.State),
    Agree id st1 st2 → Agree id (grun enc st1 h) (grun enc st2 (h.filter (fun o => !isGateOf id o)))
  | [], _, _, hag => hag
  | op :: h, st1, st2, hag => by
    by_cases hop : isGateOf id op = true
    · rw [List.filter_cons_of_neg (by simp [hop])]
      exact stall_noninterference enc id h _ _ (agree_gate_left enc hag hop)
    · rw [List.filter_cons_of_pos (by simpa using hop)]
      exact stall_noninterference enc id h _ _ (agree_step enc hag op)

/-- (4), position by position, from the same initial state -/
theorem others_unaffected_seq (enc : String → String) (id : String) (st : Sub.State) (h : List GOp) :
    (grun enc st h).cache = (grun enc st (h.filter (fun o => !isGateOf id o))).cache ∧
    (grun enc st h).subs.length = (grun enc st (h.filter (fun o => !isGateOf id o))).subs.length ∧
    ∀ (i : Nat) (s' : Subscriber), (grun enc st h).subs[i]? = some s' → s'.id ≠ id →
      (grun enc st (h.filter (fun o => !isGateOf id o))).subs[i]? = some s' := by
  have hag := stall_noninterference enc id h st st (Agree.refl id st)
  exact ⟨hag.cache, hag.subs.length, fun i s' hs hne => hag.subs.get i s' hs hne⟩

/-! ## (1) the backlog is bounded by the number of distinct pending leaves -/

theorem length_filter_add {α : Type} (p : α → Bool) : ∀ (l : List α),
    l.length = (l.filter p).length + (l.filter (fun x => !p x)).length
  | [] => rfl
  | x :: l => by
    have ih := length_filter_add p l
    cases hp : p x with
    | true =>
      rw [List.filter_cons_of_pos hp, List.filter_cons_of_neg (by simp [hp])]
      simp only [List.length_cons]
      omega
    | false =>
      rw [List.filter_cons_of_neg (by simp [hp]), List.filter_cons_of_pos (by simp [hp])]
      simp only [List.length_cons]
      omega

/-- the leaves of the cache that a registration of the subscriber is compatible with -/
def compatLeaves (c : Cache.State) (regs : List Path) : List (String × Path) :=
  (cacheLeaves c).filter (fun p => regs.any (fun q => compatible q (p.1 :: p.2)))

/-- **(1) The backlog of a STREAM subscriber is bounded by the distinct pending leaves** — at every
point of every history, stalled or not, however long the gate has been shut and however many
updates arrived:
* no two handle entries of the queue are for the same leaf `(target, key)` (`hkeys s.queue` has no
  duplicates: updates of one leaf coalesce into one entry);
* every handle entry is for a leaf the cache currently holds — it shows exactly the cache's current
  notification of that leaf — and one of the subscriber's registrations is compatible with it;
* so the number of handle entries is at most the number of leaves of the cache compatible with a
  registration, and the queue length at most that number plus the number of the other entries
  (delete items and the handles they detached). -/
theorem backlog_bound_seq (enc : String → String) (cfg : Cfg) (h : List GOp)
    (hok : C03.OkRun enc { cfg := cfg } (cacheOps h)) (hns : NoStarTargets h) :
    ∀ s ∈ (grun enc { cache := { cfg := cfg } } h).subs,
      s.alive = true → s.req.mode = .stream → s.req.updatesOnly = false →
      (hkeys s.queue).Nodup ∧
      (∀ t k n d, (Item.handle t k n, d) ∈ s.queue →
        ((grun enc { cache := { cfg := cfg } } h).cache.get t).bind (fun tg => lookup tg.tree k) = some n ∧
        s.regs.any (fun q => compatible q (t :: k)) = true) ∧
      (s.queue.filter (fun x => isHandleItem x.1)).length ≤
        (compatLeaves (grun enc { cache := { cfg := cfg } } h).cache s.regs).length ∧
      s.queue.length ≤ (compatLeaves (grun enc { cache := { cfg := cfg } } h).cache s.regs).length +
        (s.queue.filter (fun x => !isHandleItem x.1)).length := by
  intro s hs ha hm hu
  have inv := (final_ginv enc cfg h hok hns).2 s hs ha hm hu
  obtain ⟨g, _, _, _, _, hgq⟩ := inv.ghost
  have hnd : (hkeys s.queue).Nodup := hkeys_nodup hgq.pw hgq.items
  have hent : ∀ t k n d, (Item.handle t k n, d) ∈ s.queue →
      lookup (treesOf (grun enc { cache := { cfg := cfg } } h).cache t) k = some n ∧
      s.regs.any (fun q => compatible q (t :: k)) = true := by
    intro t k n d hx
    refine ⟨inv.fresh t k n d hx, ?_⟩
    have hi := hgq.items _ hx
    have hk : respKey n = t :: k := by rw [respKey_eq, hi.1, hi.2.1]
    have hl := lookup_handle hgq.ext hgq.pw hx hk
    obtain ⟨t', k', _, _, hc⟩ := hgq.jv (t :: k) (by rw [hl]; rfl)
    exact hc
  have hlen : (s.queue.filter (fun x => isHandleItem x.1)).length ≤
      (compatLeaves (grun enc { cache := { cfg := cfg } } h).cache s.regs).length := by
    rw [← hkeys_length]
    apply hnd.length_le_of_subset
    intro p hp
    obtain ⟨t, k⟩ := p
    obtain ⟨n, d, hx⟩ := mem_hkeys.1 hp
    obtain ⟨h1, h2⟩ := hent t k n d hx
    unfold compatLeaves
    rw [List.mem_filter]
    exact ⟨mem_cacheLeaves (by rw [h1]; rfl), h2⟩
  refine ⟨hnd, ?_, hlen, ?_⟩
  · intro t k n d hx
    obtain ⟨h1, h2⟩ := hent t k n d hx
    rw [lookup_treesOf] at h1
    exact ⟨h1, h2⟩
  · have := length_filter_add (fun x : Item × Nat => isHandleItem x.1) s.queue
    omega

/-- the leaves written by an operation (the keys of the update events the cache emits for it) -/
def opKeys (enc : String → String) (c : Cache.State) : GOp → List (String × Path)
  | .ca o => updKeys (c.step enc o).2.2
  | _ => []

/-- the leaves written along a history, from cache `c` -/
def written (enc : String → String) : Cache.State → List GOp → List (String × Path)
  | _, [] => []
  | c, op :: h => opKeys enc c op ++ written enc (cacheStep enc c op) h

theorem hkeys_subStep (enc : String → String) (c : Cache.State) (op : GOp) (s : Subscriber)
    {p : String × Path} (h : p ∈ hkeys (subStep enc c op s).queue) : p ∈ hkeys s.queue ∨ p ∈ opKeys enc c op := by
  cases op with
  | sub => exact Or.inl h
  | ca o => exact hkeys_feedSub _ _ s h
  | gateShut id =>
    left
    have h' : p ∈ hkeys (if s.id = id then gateF true s else s).queue := h
    split at h'
    · exact hkeys_gateF _ _ h'
    · exact h'
  | gateOpen id =>
    left
    have h' : p ∈ hkeys (if s.id = id then gateF false s else s).queue := h
    split at h'
    · exact hkeys_gateF _ _ h'
    · exact h'
  | gateStep id =>
    left
    have h' : p ∈ hkeys (if s.id = id then stepF s else s).queue := h
    split at h'
    · exact hkeys_stepF _ h'
    · exact h'

/-- along any history a queue acquires handle entries only for leaves written meanwhile -/
theorem hkeys_subRun (enc : String → String) : ∀ (h : List GOp) (c : Cache.State) (s : Subscriber)
    {p : String × Path}, p ∈ hkeys (subRun enc c h s).queue → p ∈ hkeys s.queue ∨ p ∈ written enc c h
  | [], _, _, _, hp => Or.inl hp
  | op :: h, c, s, p, hp => by
    have hp' : p ∈ hkeys (subRun enc (cacheStep enc c op) h (subStep enc c op s)).queue := hp
    show _ ∨ p ∈ opKeys enc c op ++ written enc (cacheStep enc c op) h
    rcases hkeys_subRun enc h _ _ hp' with h1 | h1
    · rcases hkeys_subStep enc c op s h1 with h2 | h2
      · exact Or.inl h2
      · exact Or.inr (List.mem_append_left _ h2)
    · exact Or.inr (List.mem_append_right _ h1)

/-- **(1, second clause) however long the gate stays shut and however many updates arrive, the
handle entries never exceed the distinct leaves written since the queue was last empty.**  Split a
history as `h1 ++ h2`; if the subscriber (position `i`) has an empty queue after `h1` — e.g. its flow
control was open (`C04Gate.stream_converges_gate_open`), in particular just before a `gateShut` — then
after `h2` (any operations: any number of writes, `gateStep`s, …) every handle entry is for a leaf
written during `h2`, and for every list `L` that contains those leaves (e.g. the distinct ones)
the number of handle entries is at most `L.length`. -/
theorem backlog_written_seq (enc : String → String) (cfg : Cfg) (h1 h2 : List GOp)
    (hok : C03.OkRun enc { cfg := cfg } (cacheOps (h1 ++ h2))) (hns : NoStarTargets (h1 ++ h2))
    (i : Nat) (s1 s2 : Subscriber)
    (hs1 : (grun enc { cache := { cfg := cfg } } h1).subs[i]? = some s1) (hq1 : s1.queue = [])
    (hs2 : (grun enc { cache := { cfg := cfg } } (h1 ++ h2)).subs[i]? = some s2)
    (ha : s2.alive = true) (hm : s2.req.mode = .stream) (hu : s2.req.updatesOnly = false) :
    (∀ p ∈ hkeys s2.queue, p ∈ written enc (grun enc { cache := { cfg := cfg } } h1).cache h2) ∧
    ∀ L : List (String × Path), (∀ p ∈ written enc (grun enc { cache := { cfg := cfg } } h1).cache h2, p ∈ L) →
      (s2.queue.filter (fun x => isHandleItem x.1)).length ≤ L.length ∧
      s2.queue.length ≤ L.length + (s2.queue.filter (fun x => !isHandleItem x.1)).length := by
  have hrun := grun_at enc h2 _ i s1 hs1
  rw [← grun_append, hs2] at hrun
  have he : s2 = subRun enc (grun enc { cache := { cfg := cfg } } h1).cache h2 s1 := Option.some.inj hrun
  have hsub : ∀ p ∈ hkeys s2.queue, p ∈ written enc (grun enc { cache := { cfg := cfg } } h1).cache h2 := by
    intro p hp
    rw [he] at hp
    rcases hkeys_subRun enc h2 _ s1 hp with h0 | h0
    · rw [hq1] at h0; cases h0
    · exact h0
  refine ⟨hsub, ?_⟩
  intro L hL
  have hmem : s2 ∈ (grun enc { cache := { cfg := cfg } } (h1 ++ h2)).subs := List.mem_of_getElem? hs2
  have hnd := (backlog_bound_seq enc cfg (h1 ++ h2) hok hns s2 hmem ha hm hu).1
  have hlen : (s2.queue.filter (fun x => isHandleItem x.1)).length ≤ L.length := by
    rw [← hkeys_length]
    exact hnd.length_le_of_subset (fun p hp => hL p (hsub p hp))
  refine ⟨hlen, ?_⟩
  have := length_filter_add (fun x : Item × Nat => isHandleItem x.1) s2.queue
  omega

/-! ## (2) the duplicate count of a pending leaf -/

/-- one offered update of a leaf, on the duplicate counts of its entries: a new entry with count 0,
or one more duplicate -/
def bumpD (l : List Nat) : List Nat := if l = [] then [0] else l.map (· + 1)

/-- `m` offered updates of the leaf -/
def bumpN : Nat → List Nat → List Nat
  | 0, l => l
  | m + 1, l => bumpN m (bumpD l)

theorem bump_dups (t : String) (k : Path) (l : List (Item × Nat)) (n : Noti) :
    (bump t k l n).map (·.2) = bumpD (l.map (·.2)) := by
  unfold bump bumpD
  cases l with
  | nil => rfl
  | cons x l => simp

theorem fold_bump_dups (t : String) (k : Path) : ∀ (ns : List Noti) (l : List (Item × Nat)),
    (ns.foldl (bump t k) l).map (·.2) = bumpN ns.length (l.map (·.2))
  | [], _ => rfl
  | n :: ns, l => by
    rw [List.foldl_cons, fold_bump_dups t k ns, bump_dups]
    rfl

theorem bumpN_add : ∀ (a b : Nat) (l : List Nat), bumpN (a + b) l = bumpN b (bumpN a l)
  | 0, b, l => by rw [Nat.zero_add]; rfl
  | a + 1, b, l => by
    have : a + 1 + b = (a + b) + 1 := by omega
    rw [this]
    exact bumpN_add a b (bumpD l)

/-- an entry with count `d`, `m` more offers: count `d + m` -/
theorem bumpN_one : ∀ (m d : Nat), bumpN m [d] = [d + m]
  | 0, _ => rfl
  | m + 1, d => by
    have : bumpD [d] = [d + 1] := by simp [bumpD]
    show bumpN m (bumpD [d]) = _
    rw [this, bumpN_one m (d + 1)]
    congr 1
    omega

/-- no entry, `m ≥ 1` offers: one entry with count `m - 1` -/
theorem bumpN_nil (m : Nat) (hm : 1 ≤ m) : bumpN m [] = [m - 1] := by
  obtain ⟨m', rfl⟩ : ∃ m', m = m' + 1 := ⟨m - 1, by omega⟩
  have : bumpD [] = [0] := by simp [bumpD]
  show bumpN m' (bumpD []) = _
  rw [this, bumpN_one]
  simp

/-- the event loop of one feed on the duplicate counts of the entries for one leaf -/
theorem dupsFor_qfold (regs : List Path) (t : String) (k : Path) (evs : List Event) {q : List (Item × Nat)}
    (hcs : CoverSafe q) (hnc : ∀ e ∈ evs, coversKey e t k = false) :
    dupsFor t k (evs.foldl (qstep regs) q) = bumpN (offersOf regs t k evs).length (dupsFor t k q) := by
  unfold dupsFor
  rw [qfold_entries regs t k evs hcs hnc, fold_bump_dups]

/-- **(2) The duplicate count, over one `feed`.**  A subscriber stalled inside a gated `Send`
(`blocked` holds the response in flight) is fed the events of one cache operation, `m` of which are
offered updates of the leaf `(t, k)` (`offersOf`), none a delete covering it.  Nothing is sent; and
* if the leaf had no entry and `m ≥ 1`, it now has exactly one entry, with duplicate count `m - 1`;
* if it had one entry with count `d`, it has one entry with count `d + m`.
(`CoverSafe`: no handle is queued before a delete item covering it — `coverSafe_of_pw`: true at
every point of every history; kept by the feed.) -/
theorem pending_dups_feed (c' : Cache.State) (evs : List Event) (s : Subscriber) (t : String) (k : Path)
    (ha : s.alive = true) (hc : s.closed = false) (hb : s.blocked.isSome = true) (hcs : CoverSafe s.queue)
    (hnc : ∀ e ∈ evs, coversKey e t k = false) :
    (feedSub c' evs s).out = s.out ∧ (feedSub c' evs s).blocked = s.blocked ∧
    CoverSafe (feedSub c' evs s).queue ∧
    dupsFor t k (feedSub c' evs s).queue = bumpN (offersOf s.regs t k evs).length (dupsFor t k s.queue) ∧
    (dupsFor t k s.queue = [] → 1 ≤ (offersOf s.regs t k evs).length →
      dupsFor t k (feedSub c' evs s).queue = [(offersOf s.regs t k evs).length - 1]) ∧
    (∀ d, dupsFor t k s.queue = [d] →
      dupsFor t k (feedSub c' evs s).queue = [d + (offersOf s.regs t k evs).length]) := by
  rw [feedSub_blocked c' evs s ha hc hb]
  have hd : dupsFor t k (refreshQueue c' (evs.foldl (qstep s.regs) s.queue)) =
      bumpN (offersOf s.regs t k evs).length (dupsFor t k s.queue) := by
    rw [dupsFor_refresh, dupsFor_qfold s.regs t k evs hcs hnc]
  refine ⟨rfl, rfl, coverSafe_refresh c' (coverSafe_qfold s.regs evs hcs), hd, ?_, ?_⟩
  · intro h0 hm
    show dupsFor t k (refreshQueue c' (evs.foldl (qstep s.regs) s.queue)) = _
    rw [hd, h0, bumpN_nil _ hm]
  · intro d h0
    show dupsFor t k (refreshQueue c' (evs.foldl (qstep s.regs) s.queue)) = _
    rw [hd, h0, bumpN_one]

theorem runS_cons (enc : String → String) (c : Cache.State) (o : Cache.Op) (ops : List Cache.Op) :
    (C03.runS enc c (o :: ops)).2 = (c.step enc o).2.2 ++ (C03.runS enc (c.step enc o).1 ops).2 := rfl

/-- an operation that is neither a cache call nor a flow-control operation of the subscriber does
nothing to it -/
theorem subStep_foreign (enc : String → String) (c : Cache.State) {op : GOp} {s : Subscriber}
    (hca : caOf op = none) (hg : isGateOf s.id op = false) : subStep enc c op s = s ∧ cacheStep enc c op = c := by
  cases op with
  | sub => exact ⟨rfl, rfl⟩
  | ca o => cases hca
  | gateShut i =>
    have hne : ¬ s.id = i := by intro e; simp [isGateOf, e] at hg
    exact ⟨by show (if s.id = i then gateF true s else s) = s; rw [if_neg hne], rfl⟩
  | gateOpen i =>
    have hne : ¬ s.id = i := by intro e; simp [isGateOf, e] at hg
    exact ⟨by show (if s.id = i then gateF false s else s) = s; rw [if_neg hne], rfl⟩
  | gateStep i =>
    have hne : ¬ s.id = i := by intro e; simp [isGateOf, e] at hg
    exact ⟨by show (if s.id = i then stepF s else s) = s; rw [if_neg hne], rfl⟩

/-- a stalled subscriber along a segment without flow-control operations of its own -/
theorem subRun_seg_blocked (enc : String → String) (t : String) (k : Path) : ∀ (h2 : List GOp)
    (c : Cache.State) (s : Subscriber), s.alive = true → s.closed = false → s.blocked.isSome = true →
    CoverSafe s.queue → (∀ op ∈ h2, isGateOf s.id op = false) →
    (∀ e ∈ (C03.runS enc c (cacheOps h2)).2, coversKey e t k = false) →
    (subRun enc c h2 s).alive = true ∧
    (subRun enc c h2 s).out = s.out ∧ (subRun enc c h2 s).blocked = s.blocked ∧
    dupsFor t k (subRun enc c h2 s).queue =
      bumpN (offersOf s.regs t k (C03.runS enc c (cacheOps h2)).2).length (dupsFor t k s.queue)
  | [], _, _, ha, _, _, _, _, _ => ⟨ha, rfl, rfl, rfl⟩
  | op :: h2, c, s, ha, hc, hb, hcs, hng, hnc => by
    have hng' : ∀ op' ∈ h2, isGateOf s.id op' = false := fun op' ho => hng op' (List.mem_cons_of_mem _ ho)
    cases hca : caOf op with
    | none =>
      obtain ⟨e1, e2⟩ := subStep_foreign enc c hca (hng op (List.mem_cons_self ..))
      rw [cacheOps_cons_other h2 hca] at hnc ⊢
      show (subRun enc (cacheStep enc c op) h2 (subStep enc c op s)).alive = true ∧
        (subRun enc (cacheStep enc c op) h2 (subStep enc c op s)).out = s.out ∧
        (subRun enc (cacheStep enc c op) h2 (subStep enc c op s)).blocked = s.blocked ∧
        dupsFor t k (subRun enc (cacheStep enc c op) h2 (subStep enc c op s)).queue = _
      rw [e1, e2]
      exact subRun_seg_blocked enc t k h2 c s ha hc hb hcs hng' hnc
    | some o =>
      have hop : op = .ca o := by
        cases op with
        | ca o' => simp only [caOf, Option.some.injEq] at hca; rw [hca]
        | sub => cases hca
        | gateShut => cases hca
        | gateOpen => cases hca
        | gateStep => cases hca
      subst hop
      rw [cacheOps_cons_ca, runS_cons] at hnc
      show (subRun enc (c.step enc o).1 h2 (feedSub (c.step enc o).1 (c.step enc o).2.2 s)).alive = true ∧
        (subRun enc (c.step enc o).1 h2 (feedSub (c.step enc o).1 (c.step enc o).2.2 s)).out = s.out ∧
        (subRun enc (c.step enc o).1 h2 (feedSub (c.step enc o).1 (c.step enc o).2.2 s)).blocked = s.blocked ∧
        dupsFor t k (subRun enc (c.step enc o).1 h2 (feedSub (c.step enc o).1 (c.step enc o).2.2 s)).queue = _
      obtain ⟨h1, h2', h3, h4, _, _⟩ := pending_dups_feed (c.step enc o).1 (c.step enc o).2.2 s t k ha hc hb hcs
        (fun e he => hnc e (List.mem_append_left _ he))
      have hform := feedSub_blocked (c.step enc o).1 (c.step enc o).2.2 s ha hc hb
      have hid : (feedSub (c.step enc o).1 (c.step enc o).2.2 s).id = s.id := by rw [hform]
      have ih := subRun_seg_blocked enc t k h2 (c.step enc o).1 (feedSub (c.step enc o).1 (c.step enc o).2.2 s)
        (by rw [hform]; exact ha) (by rw [hform]; exact hc) (by rw [h2']; exact hb) h3
        (by rw [hid]; exact hng') (fun e he => hnc e (List.mem_append_right _ he))
      have hregs : (feedSub (c.step enc o).1 (c.step enc o).2.2 s).regs = s.regs := by rw [hform]
      refine ⟨ih.1, by rw [ih.2.1, h1], by rw [ih.2.2.1, h2'], ?_⟩
      rw [ih.2.2.2, hregs, h4, cacheOps_cons_ca, runS_cons, offersOf_append, List.length_append, bumpN_add]

/-- **(2) The duplicate count, over histories.**  After any history `h1`, take a live STREAM
subscriber (position `i`) that is stalled inside a gated `Send` (`blocked` holds the response in
flight; by `C04Gate.stream_queue_behind_blocked` its gate is shut), and continue with any history `h2`
that contains no flow-control operation of that subscriber — cache API calls (no side conditions on
them), subscriptions, flow-control operations of other subscribers — and none of whose events
deletes the leaf `(t, k)`.  Let `m` be the number of updates of the leaf offered to the subscriber
during `h2`.  Then the subscriber was sent nothing, still holds the same response, and
* if nothing was pending for the leaf after `h1` and `m ≥ 1`: exactly one entry, with count `m - 1`;
* if one entry with count `d` was pending: exactly one entry, with count `d + m`. -/
theorem pending_dups_seq (enc : String → String) (cfg : Cfg) (h1 h2 : List GOp)
    (hok : C03.OkRun enc { cfg := cfg } (cacheOps h1)) (hns : NoStarTargets h1)
    (i : Nat) (s1 : Subscriber) (t : String) (k : Path)
    (hs1 : (grun enc { cache := { cfg := cfg } } h1).subs[i]? = some s1)
    (ha : s1.alive = true) (hm : s1.req.mode = .stream) (hu : s1.req.updatesOnly = false)
    (hb : s1.blocked.isSome = true) (hng : ∀ op ∈ h2, isGateOf s1.id op = false)
    (hnc : ∀ e ∈ (C03.runS enc (grun enc { cache := { cfg := cfg } } h1).cache (cacheOps h2)).2,
      coversKey e t k = false) :
    ∃ s2, (grun enc { cache := { cfg := cfg } } (h1 ++ h2)).subs[i]? = some s2 ∧
      s2.alive = true ∧ s2.out = s1.out ∧ s2.blocked = s1.blocked ∧
      (dupsFor t k s1.queue = [] →
        1 ≤ (offersOf s1.regs t k
          (C03.runS enc (grun enc { cache := { cfg := cfg } } h1).cache (cacheOps h2)).2).length →
        dupsFor t k s2.queue = [(offersOf s1.regs t k
          (C03.runS enc (grun enc { cache := { cfg := cfg } } h1).cache (cacheOps h2)).2).length - 1]) ∧
      (∀ d, dupsFor t k s1.queue = [d] →
        dupsFor t k s2.queue = [d + (offersOf s1.regs t k
          (C03.runS enc (grun enc { cache := { cfg := cfg } } h1).cache (cacheOps h2)).2).length]) := by
  have hmem : s1 ∈ (grun enc { cache := { cfg := cfg } } h1).subs := List.mem_of_getElem? hs1
  have inv := (final_ginv enc cfg h1 hok hns).2 s1 hmem ha hm hu
  obtain ⟨g, _, _, _, _, hgq⟩ := inv.ghost
  have hcs := coverSafe_of_pw hgq.pw
  obtain ⟨r1, r2, r3, r4⟩ := subRun_seg_blocked enc t k h2 _ s1 ha inv.closed hb hcs hng hnc
  refine ⟨_, ?_, r1, r2, r3, ?_, ?_⟩
  · rw [grun_append]
    exact grun_at enc h2 _ i s1 hs1
  · intro h0 hm1
    rw [r4, h0, bumpN_nil _ hm1]
  · intro d h0
    rw [r4, h0, bumpN_one]

/-! ## (3) when flow control opens again -/

/-- the responses the ACL lets through, of a list of queue entries -/
def sentOf (acl : Acl) (q : List (Item × Nat)) : List Resp :=
  (q.map toResp).filter (fun r => !denied acl r)

theorem sentOf_append (acl : Acl) (a b : List (Item × Nat)) : sentOf acl (a ++ b) = sentOf acl a ++ sentOf acl b := by
  unfold sentOf
  rw [List.map_append, List.filter_append]

/-- **(3) Resuming.**  After any history `h`, a live STREAM subscriber `s` (position `i`, id `id`)
gets `gateOpen id`.  Unless the RPC ends (a whole-target delete is among the released responses), then
* it has been sent, after what it had, the held response (in flight since before) and then exactly
  **one response per queue entry** the ACL lets through, in queue order (`sentOf`), nothing is left
  queued or held;
* for every handle entry `(handle t k n, d)` that was queued: `n` is the notification **the cache
  holds for the leaf at that moment** (the newest: equal, not only `Feed.Sim`-equal — `refreshQueue`
  re-reads the leaf), no other handle entry is for that leaf (`a`, `b` hold none), nothing queued
  behind it touches the leaf, and — if the ACL allows `t` — the responses sent for the queue are
  `sentOf a ++ [upd n d] ++ sentOf b`: one response for the entry, carrying the newest value and
  the entry's duplicate count `d`. -/
theorem resume_newest_seq (enc : String → String) (cfg : Cfg) (h : List GOp) (id : String)
    (hok : C03.OkRun enc { cfg := cfg } (cacheOps h)) (hns : NoStarTargets h)
    (i : Nat) (s : Subscriber) (hs : (grun enc { cache := { cfg := cfg } } h).subs[i]? = some s) (hid : s.id = id)
    (ha : s.alive = true) (hm : s.req.mode = .stream) (hu : s.req.updatesOnly = false) :
    (grun enc { cache := { cfg := cfg } } (h ++ [.gateOpen id])).cache = (grun enc { cache := { cfg := cfg } } h).cache ∧
    ∃ s', (grun enc { cache := { cfg := cfg } } (h ++ [.gateOpen id])).subs[i]? = some s' ∧
      (s'.alive = true →
        s'.out.map (·.1) = s.out.map (·.1) ++ s.blocked.toList ++ sentOf s.acl s.queue ∧
        s'.queue = [] ∧ s'.blocked = none ∧
        ∀ t k n d, (Item.handle t k n, d) ∈ s.queue →
          ((grun enc { cache := { cfg := cfg } } h).cache.get t).bind (fun tg => lookup tg.tree k) = some n ∧
          ∃ a b, s.queue = a ++ (Item.handle t k n, d) :: b ∧
            (∀ x ∈ a, isHandleFor t k x.1 = false) ∧ (∀ x ∈ b, isHandleFor t k x.1 = false) ∧
            (∀ x ∈ b, touches (t :: k) (toResp x) = false) ∧
            (s.acl.check t = true →
              sentOf s.acl s.queue = sentOf s.acl a ++ [Resp.upd n d] ++ sentOf s.acl b)) := by
  have hmem : s ∈ (grun enc { cache := { cfg := cfg } } h).subs := List.mem_of_getElem? hs
  have inv := (final_ginv enc cfg h hok hns).2 s hmem ha hm hu
  obtain ⟨g, _, _, _, _, hgq⟩ := inv.ghost
  have hstep : grun enc { cache := { cfg := cfg } } (h ++ [.gateOpen id]) =
      gstep enc (grun enc { cache := { cfg := cfg } } h) (.gateOpen id) := by
    rw [grun_append]; rfl
  rw [hstep]
  refine ⟨by rw [gstep_cache_eq]; rfl, gateF false s, ?_, ?_⟩
  · rw [gstep_at enc _ _ i s hs]
    show some (if s.id = id then gateF false s else s) = _
    rw [if_pos hid]
  · intro ha'
    obtain ⟨o1, o2, o3⟩ := gateF_open_out s ha inv.closed ha'
    refine ⟨o1, o2, o3, ?_⟩
    intro t k n d hx
    have hfr := inv.fresh t k n d hx
    rw [lookup_treesOf] at hfr
    refine ⟨hfr, ?_⟩
    obtain ⟨a, b, hq⟩ := List.append_of_mem hx
    have hnd : (hkeys s.queue).Nodup := hkeys_nodup hgq.pw hgq.items
    rw [hq, hkeys_append, hkeys_cons] at hnd
    simp only [hkey] at hnd
    have hnd' := List.nodup_append.1 hnd
    have hbn := (List.nodup_cons.1 hnd'.2.1).1
    have hpw := hgq.pw
    rw [hq] at hpw
    have hbt : ∀ x ∈ b, touches (t :: k) (toResp x) = false :=
      (List.pairwise_cons.1 (List.pairwise_append.1 hpw).2.1).1
    refine ⟨a, b, hq, ?_, ?_, hbt, ?_⟩
    · intro x hxa
      cases hh : isHandleFor t k x.1 with
      | false => rfl
      | true =>
        exfalso
        obtain ⟨m', hm'⟩ := isHandleFor_elim hh
        have h1 : (t, k) ∈ hkeys a := mem_hkeys.2 ⟨m', x.2, by rw [← hm']; exact hxa⟩
        exact hnd'.2.2 (t, k) h1 (t, k) (List.mem_cons_self ..) rfl
    · intro x hxb
      cases hh : isHandleFor t k x.1 with
      | false => rfl
      | true =>
        exfalso
        obtain ⟨m', hm'⟩ := isHandleFor_elim hh
        exact hbn (mem_hkeys.2 ⟨m', x.2, by rw [← hm']; exact hxb⟩)
    · intro hacl
      have hi := hgq.items _ hx
      rw [hq, sentOf_append]
      have : sentOf s.acl ((Item.handle t k n, d) :: b) = Resp.upd n d :: sentOf s.acl b := by
        unfold sentOf
        rw [List.map_cons]
        have hden : denied s.acl (toResp (Item.handle t k n, d)) = false := by
          simp [toResp, denied, respTarget, hi.1, hacl]
        rw [List.filter_cons_of_pos (by simp [hden])]
        rfl
      rw [this]
      simp

/-- an update response for the index `κ` -/
def isUpdResp (κ : Path) : Resp → Bool
  | .upd n _ => respKey n == κ
  | _ => false

/-- **(3) exactly one update response per pending leaf.**  In the situation of `resume_newest_seq`:
if no *detached* entry (a handle whose leaf object was deleted while it was queued; it is followed
by the delete item) is for the index `t :: k`, then among the responses the queue produces exactly
one is an update response for `t :: k`: the handle's, with the newest value and its count. -/
theorem resume_exactly_one (enc : String → String) (cfg : Cfg) (h : List GOp)
    (hok : C03.OkRun enc { cfg := cfg } (cacheOps h)) (hns : NoStarTargets h) :
    ∀ s ∈ (grun enc { cache := { cfg := cfg } } h).subs,
      s.alive = true → s.req.mode = .stream → s.req.updatesOnly = false →
      ∀ t k n d, (Item.handle t k n, d) ∈ s.queue →
        (∀ t' k' m d', (Item.detached t' k' m, d') ∈ s.queue → respKey m ≠ t :: k) →
        (s.queue.map toResp).filter (isUpdResp (t :: k)) = [Resp.upd n d] := by
  intro s hmem ha hm hu t k n d hx hdet
  have inv := (final_ginv enc cfg h hok hns).2 s hmem ha hm hu
  obtain ⟨g, _, _, _, _, hgq⟩ := inv.ghost
  obtain ⟨a, b, hq⟩ := List.append_of_mem hx
  have hnd : (hkeys s.queue).Nodup := hkeys_nodup hgq.pw hgq.items
  rw [hq, hkeys_append, hkeys_cons] at hnd
  simp only [hkey] at hnd
  have hnd' := List.nodup_append.1 hnd
  have hbn := (List.nodup_cons.1 hnd'.2.1).1
  -- no other entry produces an update response for the index
  have hother : ∀ x ∈ s.queue, (t, k) ∉ hkeys [x] → isUpdResp (t :: k) (toResp x) = false := by
    intro x hxq hnk
    have hi := hgq.items x hxq
    obtain ⟨it, dx⟩ := x
    cases it with
    | handle t' k' m =>
      cases hr : isUpdResp (t :: k) (toResp (Item.handle t' k' m, dx)) with
      | false => rfl
      | true =>
        exfalso
        simp only [toResp, isUpdResp, beq_iff_eq] at hr
        rw [respKey_eq, hi.1, hi.2.1] at hr
        injection hr with h1 h2
        subst h1 h2
        exact hnk (by simp [hkeys, hkey])
    | detached t' k' m =>
      cases hr : isUpdResp (t :: k) (toResp (Item.detached t' k' m, dx)) with
      | false => rfl
      | true =>
        exfalso
        simp only [toResp, isUpdResp, beq_iff_eq] at hr
        exact hdet t' k' m dx hxq hr
    | note e =>
      obtain ⟨te, o, p, ts, rfl, _⟩ := hi
      rfl
    | sync => exact hi.elim
  have hnil : ∀ (l : List (Item × Nat)), (∀ x ∈ l, x ∈ s.queue) → (t, k) ∉ hkeys l →
      (l.map toResp).filter (isUpdResp (t :: k)) = [] := by
    intro l hl hnk
    rw [List.filter_eq_nil_iff]
    intro r hr
    obtain ⟨x, hxl, rfl⟩ := List.mem_map.1 hr
    rw [hother x (hl x hxl)]
    · simp
    · intro hk1
      apply hnk
      obtain ⟨l1, l2, rfl⟩ := List.append_of_mem hxl
      rw [hkeys_append]
      apply List.mem_append_right
      have : hkeys (x :: l2) = hkeys [x] ++ hkeys l2 := by rw [← hkeys_append]; rfl
      rw [this]
      exact List.mem_append_left _ hk1
  have ha0 := hnil a (fun x hxa => by rw [hq]; exact List.mem_append_left _ hxa)
    (fun hk1 => hnd'.2.2 (t, k) hk1 (t, k) (List.mem_cons_self ..) rfl)
  have hb0 := hnil b (fun x hxb => by rw [hq]; exact List.mem_append_right _ (List.mem_cons_of_mem _ hxb)) hbn
  have hi := hgq.items _ hx
  have hself : isUpdResp (t :: k) (toResp (Item.handle t k n, d)) = true := by
    simp only [toResp, isUpdResp, beq_iff_eq]
    rw [respKey_eq, hi.1, hi.2.1]
  rw [hq, List.map_append, List.filter_append, ha0, List.map_cons, List.filter_cons_of_pos hself, hb0]
  rfl

/-! ## Non-vacuity: target `t` with leaves `a/b`, `a/c`; STREAM subscribers `s1`, `s2` of `t/a`;
`gateShut s1`; a write of `a/b` (dequeued by `s1`'s sender and frozen in `blocked`: in flight); then the
segment: three writes of `a/b` and one of `a/c`; then `gateOpen s1` -/

def upO (now ts : Int) (us : List Upd) : Cache.Op :=
  .update now false { ts := ts, target := "t", praw := "p", upd := us }

/-- up to the point where `s1` is stalled holding `w2` -/
def histS : List GOp :=
  [ .ca (.add "t"),
    .ca (upO 10 1 [wr 1 "w1", cr 1 "c1"]),
    .sub "s1" .absent (some reqS),
    .sub "s2" .absent (some reqS),
    .gateShut "s1",
    .ca (upO 11 2 [wr 2 "w2"]) ]

/-- the segment: `k = 3` writes of `a/b`, one write of `a/c` -/
def segOps : List Cache.Op :=
  [upO 12 3 [wr 3 "w3"], upO 13 4 [wr 4 "w4"], upO 14 5 [wr 5 "w5"], upO 15 6 [cr 2 "c2"]]

def histSeg : List GOp := histS ++ segOps.map GOp.ca
def histOpen : List GOp := histSeg ++ [.gateOpen "s1"]

theorem clean_one (ts i : Int) (r : String) (p : Path) (h1 : glob ∉ p) (h2 : p.head? ≠ some "") :
    Clean { ts := ts, target := "t", praw := "p", upd := [{ path := p, val := .scalar (.int i), raw := r }] } := by
  intro u hu
  simp only [List.mem_cons, List.not_mem_nil, or_false] at hu
  subst hu
  exact ⟨h1, Or.inr rfl, h2⟩

theorem clean_two : Clean { ts := 1, target := "t", praw := "p", upd := [wr 1 "w1", cr 1 "c1"] } := by
  intro u hu
  simp only [List.mem_cons, List.not_mem_nil, or_false] at hu
  rcases hu with rfl | rfl <;> exact ⟨by decide, Or.inr rfl, by decide⟩

theorem histS_ok : C03.OkRun id {} (cacheOps histS) :=
  ⟨⟨by decide, rfl⟩, clean_two, clean_one 2 2 "w2" _ (by decide) (by decide), trivial⟩

theorem histOpen_ok : C03.OkRun id {} (cacheOps histOpen) :=
  ⟨⟨by decide, rfl⟩, clean_two, clean_one 2 2 "w2" _ (by decide) (by decide),
    clean_one 3 3 "w3" _ (by decide) (by decide), clean_one 4 4 "w4" _ (by decide) (by decide),
    clean_one 5 5 "w5" _ (by decide) (by decide), clean_one 6 2 "c2" _ (by decide) (by decide), trivial⟩

theorem histOpen_noStar : NoStarTargets histOpen := by
  intro op hop
  simp only [histOpen, histSeg, histS, segOps, upO, cacheOps, caOf, List.map_cons, List.map_nil, List.cons_append,
    List.nil_append, List.filterMap_cons, List.filterMap_nil, List.mem_cons, List.not_mem_nil, or_false] at hop
  rcases hop with rfl | rfl | rfl | rfl | rfl | rfl | rfl <;> first | trivial | (show _ ≠ _; decide)

theorem histS_noStar : NoStarTargets histS := by
  intro op hop
  simp only [histS, upO, cacheOps, caOf, List.filterMap_cons, List.filterMap_nil, List.mem_cons,
    List.not_mem_nil, or_false] at hop
  rcases hop with rfl | rfl | rfl <;> first | trivial | (show _ ≠ _; decide)

theorem histSeg_ok : C03.OkRun id {} (cacheOps histSeg) :=
  ⟨⟨by decide, rfl⟩, clean_two, clean_one 2 2 "w2" _ (by decide) (by decide),
    clean_one 3 3 "w3" _ (by decide) (by decide), clean_one 4 4 "w4" _ (by decide) (by decide),
    clean_one 5 5 "w5" _ (by decide) (by decide), clean_one 6 2 "c2" _ (by decide) (by decide), trivial⟩

theorem histSeg_noStar : NoStarTargets histSeg := by
  intro op hop
  apply histOpen_noStar op
  have : cacheOps histOpen = cacheOps histSeg := rfl
  rw [this]
  exact hop

/-- a response as (timestamp, duplicate count) -/
def tsd : Resp → Int × Nat
  | .upd n d => (n.ts, d)
  | _ => (0, 0)

/-- **the stalled state** (after `histS`): `s1` is alive, its gate is shut, it was sent the snapshot
and `sync` (3 responses), holds `w2` (timestamp 2, count 0) in flight, and has nothing queued;
`s2` (never stalled) was sent 4 responses (snapshot, `sync`, `w2`) -/
theorem histS_views :
    (grun id {} histS).subs.map (fun s => (s.id, s.alive, s.gateShut)) =
      [("s1", true, true), ("s2", true, false)] ∧
    (grun id {} histS).subs.map (fun s => (s.out.length, s.queue.length)) = [(3, 0), (4, 0)] ∧
    (grun id {} histS).subs.map (fun s => s.blocked.toList.map tsd) = [[(2, 0)], []] := by
  decide

/-- **the backlog after the segment** (gate still shut): `s1` has exactly two entries, one per
leaf written — `a/b` showing `w5` (timestamp 5) with duplicate count `2 = 3 - 1`, `a/c` showing `c2`
(timestamp 6) with count `0` —, still holds `w2`, and was sent nothing more; `s2` was sent all four
updates (8 responses) -/
theorem histSeg_views :
    (grun id {} histSeg).subs.map (fun s => (s.id, s.out.length)) = [("s1", 3), ("s2", 8)] ∧
    (grun id {} histSeg).subs.map (fun s => s.blocked.toList.map tsd) = [[(2, 0)], []] ∧
    (grun id {} histSeg).subs.map (fun s => hkeys s.queue) = [[("t", ["a", "b"]), ("t", ["a", "c"])], []] ∧
    (grun id {} histSeg).subs.map (fun s => s.queue.map (fun x => tsd (toResp x))) = [[(5, 2), (6, 0)], []] ∧
    (grun id {} histSeg).subs.map (fun s => (dupsFor "t" ["a", "b"] s.queue, dupsFor "t" ["a", "c"] s.queue)) =
      [([2], [0]), ([], [])] := by
  decide

/-- **after `gateOpen s1`**: `s1` received, after the 3 responses it had, the held `w2`, then one
response per pending leaf: `a/b` with the newest value `w5` and count 2, `a/c` with `c2` and count 0;
nothing is queued or held; the cache holds `a/b@5`, `a/c@6`; `s2` had received every write singly (count 0) -/
theorem histOpen_views :
    (grun id {} histOpen).subs.map (fun s => (s.id, s.alive, s.blocked.isSome, s.queue.length)) =
      [("s1", true, false, 0), ("s2", true, false, 0)] ∧
    (grun id {} histOpen).subs.map (fun s => (s.out.drop 3).map (fun r => tsd r.1)) =
      [[(2, 0), (5, 2), (6, 0)], [(2, 0), (3, 0), (4, 0), (5, 0), (6, 0)]] ∧
    ((grun id {} histOpen).cache.get "t").map (fun tg => kts tg.tree) = some [(["a", "c"], 6), (["a", "b"], 5)] := by
  decide

/-- the stalled subscriber `s1` after `histS`, with the facts the theorems ask for -/
theorem histS_s1 : ∃ s1, (grun id {} histS).subs[0]? = some s1 ∧ s1.id = "s1" ∧ s1.alive = true ∧
    s1.req.mode = .stream ∧ s1.req.updatesOnly = false ∧ s1.blocked.isSome = true ∧ s1.queue = [] ∧
    s1.regs = [["t", "a"]] := by
  have h0 : ((grun id {} histS).subs[0]?).isSome = true := by decide
  obtain ⟨s1, hs⟩ := Option.isSome_iff_exists.1 h0
  have h1 : ((grun id {} histS).subs[0]?).map (fun s => (s.id, s.alive, s.req.mode, s.req.updatesOnly)) =
      some ("s1", true, .stream, false) := by decide
  have h2 : ((grun id {} histS).subs[0]?).map (fun s => (s.blocked.isSome, s.queue.length, s.regs)) =
      some (true, 0, [["t", "a"]]) := by decide
  rw [hs] at h1 h2
  simp only [Option.map_some, Option.some.injEq, Prod.mk.injEq] at h1 h2
  exact ⟨s1, hs, h1.1, h1.2.1, h1.2.2.1, h1.2.2.2, h2.1, List.eq_nil_of_length_eq_zero h2.2.1, h2.2.2⟩

/-- the events of the segment: four updates, no delete -/
theorem segOps_events :
    (C03.runS id (grun id {} histS).cache segOps).2.map evLeaf? =
      [some ("t", ["a", "b"]), some ("t", ["a", "b"]), some ("t", ["a", "b"]), some ("t", ["a", "c"])] := by
  decide

/-- the segment, with a `gateShut`/`gateOpen` of the *other* subscriber in between -/
def seg2 : List GOp :=
  [.ca (upO 12 3 [wr 3 "w3"]), .gateShut "s2", .ca (upO 13 4 [wr 4 "w4"]), .ca (upO 14 5 [wr 5 "w5"]),
    .gateOpen "s2", .ca (upO 15 6 [cr 2 "c2"])]

theorem seg2_ops : cacheOps seg2 = segOps ∧ cacheOps (segOps.map GOp.ca) = segOps := ⟨rfl, rfl⟩

/-- **(2) instantiated**: every hypothesis of `pending_dups_seq` holds of `histS` followed by
`segOps` (or by `seg2`: the same writes, the other subscriber being stalled and resumed meanwhile), and
its conclusion is: one entry for `a/b` with count `3 - 1`, one for `a/c` with count `1 - 1` -/
theorem histSeg_dups : ∀ h2, (h2 = segOps.map GOp.ca ∨ h2 = seg2) →
    ∃ s2, (grun id {} (histS ++ h2)).subs[0]? = some s2 ∧
      dupsFor "t" ["a", "b"] s2.queue = [3 - 1] ∧ dupsFor "t" ["a", "c"] s2.queue = [1 - 1] := by
  intro h2 hh2
  obtain ⟨s1, hs, hid, ha, hm, hu, hb, hq, hregs⟩ := histS_s1
  have hops : cacheOps h2 = segOps := by rcases hh2 with rfl | rfl <;> rfl
  have hng : ∀ op ∈ h2, isGateOf s1.id op = false := by
    rw [hid]
    rcases hh2 with rfl | rfl <;> decide
  have hnc : ∀ (k : Path), ∀ e ∈ (C03.runS id (grun id {} histS).cache (cacheOps h2)).2, coversKey e "t" k = false := by
    intro k e he
    rw [hops] at he
    cases e with
    | upd n => rfl
    | del te o p ts =>
      have := List.mem_map_of_mem (f := evLeaf?) he
      rw [segOps_events] at this
      simp [evLeaf?] at this
  have hm1 : (offersOf s1.regs "t" ["a", "b"] (C03.runS id (grun id {} histS).cache (cacheOps h2)).2).length = 3 := by
    rw [hregs, hops]; decide
  have hm2 : (offersOf s1.regs "t" ["a", "c"] (C03.runS id (grun id {} histS).cache (cacheOps h2)).2).length = 1 := by
    rw [hregs, hops]; decide
  have hd0 : ∀ k, dupsFor "t" k s1.queue = [] := by intro k; rw [hq]; rfl
  obtain ⟨s2, hs2, _, _, _, c1, _⟩ := pending_dups_seq id {} histS h2 histS_ok histS_noStar 0 s1 "t" ["a", "b"]
    hs ha hm hu hb hng (hnc _)
  obtain ⟨s2', hs2', _, _, _, c2, _⟩ := pending_dups_seq id {} histS h2 histS_ok histS_noStar 0 s1 "t" ["a", "c"]
    hs ha hm hu hb hng (hnc _)
  have : s2' = s2 := by
    have e : some s2' = some s2 := by rw [← hs2', ← hs2]
    exact Option.some.inj e
  subst this
  refine ⟨s2', hs2, ?_, ?_⟩
  · rw [c1 (hd0 _) (by rw [hm1]; decide), hm1]
  · rw [c2 (hd0 _) (by rw [hm2]; decide), hm2]

/-- **(1) instantiated**: the handle entries after the segment are at most the two distinct leaves
written since `s1`'s queue was empty (three writes of `a/b` count once) -/
theorem histSeg_backlog : ∀ s2, (grun id {} histSeg).subs[0]? = some s2 →
    (s2.queue.filter (fun x => isHandleItem x.1)).length ≤ 2 := by
  intro s2 hs2
  obtain ⟨s1, hs, _, _, _, _, _, hq, _⟩ := histS_s1
  have h1 : ((grun id {} histSeg).subs[0]?).map (fun s => (s.alive, s.req.mode, s.req.updatesOnly)) =
      some (true, .stream, false) := by decide
  rw [hs2] at h1
  simp only [Option.map_some, Option.some.injEq, Prod.mk.injEq] at h1
  have hw : written id (grun id {} histS).cache (segOps.map GOp.ca) =
      [("t", ["a", "b"]), ("t", ["a", "b"]), ("t", ["a", "b"]), ("t", ["a", "c"])] := by decide
  have := (backlog_written_seq id {} histS (segOps.map GOp.ca) histSeg_ok histSeg_noStar 0 s1 s2 hs hq hs2
    h1.1 h1.2.1 h1.2.2).2 [("t", ["a", "b"]), ("t", ["a", "c"])] (by rw [hw]; decide)
  exact this.1

/-- **(3) instantiated**: `resume_newest_seq` at `histSeg`, `gateOpen "s1"` -/
theorem histOpen_resume : ∃ s s', (grun id {} histSeg).subs[0]? = some s ∧
    (grun id {} histOpen).subs[0]? = some s' ∧ s'.alive = true ∧
    s'.out.map (·.1) = s.out.map (·.1) ++ s.blocked.toList ++ sentOf s.acl s.queue ∧
    s'.queue = [] ∧ s'.blocked = none := by
  have h0 : ((grun id {} histSeg).subs[0]?).isSome = true := by decide
  obtain ⟨s, hs⟩ := Option.isSome_iff_exists.1 h0
  have h1 : ((grun id {} histSeg).subs[0]?).map (fun s => (s.id, s.alive, s.req.mode, s.req.updatesOnly)) =
      some ("s1", true, .stream, false) := by decide
  rw [hs] at h1
  simp only [Option.map_some, Option.some.injEq, Prod.mk.injEq] at h1
  obtain ⟨_, s', hs', hres⟩ := resume_newest_seq id {} histSeg "s1" histSeg_ok histSeg_noStar 0 s hs h1.1 h1.2.1
    h1.2.2.1 h1.2.2.2
  have ha' : ((grun id {} histOpen).subs[0]?).map (·.alive) = some true := by decide
  have hs'' : (grun id {} histOpen).subs[0]? = some s' := hs'
  rw [hs''] at ha'
  simp only [Option.map_some, Option.some.injEq] at ha'
  obtain ⟨r1, r2, r3, _⟩ := hres ha'
  exact ⟨s, s', hs, hs'', ha', r1, r2, r3⟩

/-- **(4) instantiated**: without `gateShut "s1"`/`gateOpen "s1"` the other subscriber `s2` (position 1)
and the cache end in the same state -/
theorem histOpen_others : ∀ s', (grun id {} histOpen).subs[1]? = some s' → s'.id ≠ "s1" →
    (grun id {} (histOpen.filter (fun o => !isGateOf "s1" o))).subs[1]? = some s' :=
  (others_unaffected_seq id "s1" {} histOpen).2.2 1

/-! ### what "exactly one update response per pending leaf" does **not** mean (witnesses)

Read naively — "the responses appended to `out` at `gateOpen` contain exactly one update response
per leaf that had a queued handle" — clause (3) is false of the model (and of the server), in two
ways; `resume_newest_seq`/`resume_exactly_one` are stated so as to say exactly what is true. -/

/-- **witness 1: the response in flight.**  In `histOpen` the responses `s1` receives at `gateOpen`
contain *two* update responses for the leaf `t/a/b`: `w2`, which the sender had dequeued before the
stall took effect and which sat inside the gated `Send` (count 0), and the queue entry's `w5` (count
2).  The held response is not part of the queue: it goes out first, stale. -/
theorem inflight_same_leaf_witness :
    (grun id {} histOpen).subs.map (fun s =>
      (((s.out.drop 3).map (·.1)).filter (isUpdResp ["t", "a", "b"])).map tsd) =
      [[(2, 0), (5, 2)], [(2, 0), (3, 0), (4, 0), (5, 0)]] := by
  decide

/-- a leaf deleted and re-created while its handle is pending -/
def histD : List GOp :=
  [ .ca (.add "t"),
    .ca (upO 10 1 [wr 1 "w1", cr 1 "c1"]),
    .sub "s1" .absent (some reqS),
    .gateShut "s1",
    .ca (upO 11 2 [wr 2 "w2"]),
    .ca (upO 12 3 [cr 2 "c2"]),
    .ca (.update 13 false { ts := 4, target := "t", praw := "p", del := [{ path := ["a", "c"], raw := "d" }] }),
    .ca (upO 14 5 [cr 3 "c3"]) ]

theorem histD_ok : C03.OkRun id {} (cacheOps histD) :=
  ⟨⟨by decide, rfl⟩, clean_two, clean_one 2 2 "w2" _ (by decide) (by decide),
    clean_one 3 2 "c2" _ (by decide) (by decide), (fun u hu => by cases hu),
    clean_one 5 3 "c3" _ (by decide) (by decide), trivial⟩

theorem histD_noStar : NoStarTargets histD := by
  intro op hop
  simp only [histD, upO, cacheOps, caOf, List.filterMap_cons, List.filterMap_nil, List.mem_cons,
    List.not_mem_nil, or_false] at hop
  rcases hop with rfl | rfl | rfl | rfl | rfl | rfl <;> first | trivial | (show _ ≠ _; decide)

/-- **witness 2: a leaf deleted and re-created while pending.**  After `histD` (hypotheses of the
theorems hold: `histD_ok`, `histD_noStar`) the queue of the stalled `s1` is: the *detached* handle of the
old leaf object `a/c` (it keeps `c2`), the delete item, and a handle of the new leaf object `a/c`
(`c3`) — "a leaf re-created after a delete is a new object: it is never coalesced with an entry queued
before the delete item".  So the queue produces *two* update responses for the index `t/a/c` (with the
delete between them); only one comes from a handle entry, and it carries the cache's value.  This is
the case `resume_exactly_one` excludes by its hypothesis on detached entries. -/
theorem detached_same_leaf_witness :
    (grun id {} histD).subs.map (fun s => s.queue.map (fun x => (isHandleItem x.1, isNoteItem x.1))) =
      [[(false, false), (false, true), (true, false)]] ∧
    (grun id {} histD).subs.map (fun s => ((s.queue.map toResp).filter (isUpdResp ["t", "a", "c"])).map tsd) =
      [[(3, 0), (5, 0)]] ∧
    (grun id {} histD).subs.map (fun s => hkeys s.queue) = [[("t", ["a", "c"])]] ∧
    ((grun id {} histD).cache.get "t").map (fun tg => kts tg.tree) = some [(["a", "c"], 5), (["a", "b"], 2)] := by
  decide

example := resume_newest_seq id {} histD "s1" histD_ok histD_noStar 0

example := backlog_bound_seq id {} histSeg histSeg_ok histSeg_noStar
example := resume_exactly_one id {} histSeg histSeg_ok histSeg_noStar

end C08Seq
end Gnmi
