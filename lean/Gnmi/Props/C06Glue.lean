import Gnmi.Lemmas.MatchSubscribe
import Gnmi.Props.C04
/-!
# C06 glue — the Subscribe model's streaming filter IS the `match` trie's answer

`Model/Match.lean` (the trie of registrations, `addSubscription`, `UpdateNotification`) and
`Model/Subscribe.lean` (`Sub.regQueries`, `Sub.offered`, the walk) model the same code of
`subscribe/subscribe.go` twice.  This file links them:

* (i) `regQueries_eq` — the registration queries of the Subscribe model are the queries
  `addSubscription` hands to `AddQuery` (for a request `Subscribe` accepts: prefix present, target
  non-empty; both side conditions are needed: `regQueries_ne_of_empty_target`,
  `regQueries_ne_of_bad_nil`);
* (ii) `offered_iff_trie` — for a fresh client registered through `addSubscription` into ANY
  reachable trie, with any activity of other clients afterwards, `Server.Update` of the
  notification carrying a feed event invokes the client iff `Sub.offered` says so;
* (iii) `walked_leaf_is_streamed` — every leaf the initial walk returns is offered to the
  subscriber whenever it is later updated or deleted; `offered_agrees` — conversely an offered
  event's path agrees with one of the subscriber's (completed) paths on every shared element;
* (iv) `subSys_wf` — the assumed structure `SubLTS.Sys.WF` (field `walks_wants`, and the two
  others) is *derived* for the instance of the Subscribe LTS built from actual requests
  (`subSys`), whose predicates are tied to the Subscribe model by `walksOf_of_walked`,
  `wantsOf_eq_offered`, `wantsROf_eq_offered`, `covers_eq_coversKey`; `converges_concrete` is
  C04's `converges` for that instance with no `WF` hypothesis left.
-/
namespace Gnmi
namespace C06Glue
open Match MatchSub

/-! ## (i) the two constructions of the registration queries -/

/-- **(i)** For every request `Subscribe` accepts (`prefixNil = false`, `target ≠ ""`; a
subscription without a path has no origin and no elements) the Subscribe model registers
exactly the queries `addSubscription` builds, in the same order. -/
theorem regQueries_eq (r : Sub.Req) (hp : r.prefixNil = false) (ht : r.target ≠ "") (hn : NilOK r) :
    Sub.regQueries r = subscriptionQueries (toSubList r) := by
  unfold Sub.regQueries subscriptionQueries toSubList
  simp only [List.map_map]
  apply List.map_congr_left
  intro s hs
  simp only [Function.comp]
  rw [subscriptionQueryOpt_toGPath r hp ht s (hn s hs)]

/-- the empty target is needed: `ToStrings(prefix, true)` omits it, `Sub.regQueries` does not
(`Subscribe` answers `InvalidArgument` before registering anything) -/
theorem regQueries_ne_of_empty_target :
    Sub.regQueries { target := "", subs := [{ path := ["a"] }] } ≠
      subscriptionQueries (toSubList { target := "", subs := [{ path := ["a"] }] }) := by
  decide

/-- `NilOK` is needed: a `SubPath` flagged nil but carrying elements is not a value a
`*gnmi.Subscription` can have -/
theorem regQueries_ne_of_bad_nil :
    Sub.regQueries { target := "d", subs := [{ isNil := true, path := ["a"] }] } ≠
      subscriptionQueries (toSubList { target := "d", subs := [{ isNil := true, path := ["a"] }] }) := by
  decide

/-- the registered query of a subscription whose path completes is the target followed by the
path the snapshot is queried with — `C06.subscription_path_consistent` transported to the
Subscribe model through (i) and `completePath_eq` -/
theorem regQuery_eq_target_full (r : Sub.Req) (sp : Sub.SubPath) (full : Path)
    (h : Sub.completePath r sp = some full) :
    (r.target :: ((if r.origin = "" then [] else [r.origin]) ++ r.pfx)) ++
      (if r.origin = "" ∧ sp.origin ≠ "" then [sp.origin] else []) ++ sp.path = r.target :: full :=
  SubStream.completePath_reg r sp full h

theorem mem_regQueries_of_complete (r : Sub.Req) (sp : Sub.SubPath) (hsp : sp ∈ r.subs) (full : Path)
    (h : Sub.completePath r sp = some full) : r.target :: full ∈ Sub.regQueries r := by
  rw [SubStream.mem_regQueries]
  exact ⟨sp, hsp, (regQuery_eq_target_full r sp full h).symm⟩

/-! ## (ii) `Sub.offered` is the trie's answer -/

section
variable {C : Type} [DecidableEq C]

/-- Match side alone: a fresh client `c` (no `AddQuery` by `c` before or after, its remove
closures not yet run) registered through `addSubscription` into the trie reached by ANY history
`ops` of other clients, followed by ANY further history `during` of other clients, is invoked by
`UpdateNotification` iff one of the queries of its subscription list is compatible with one of
the notification's paths. -/
theorem fresh_notification_iff (ops during : List (Op C)) (s : SubList) (c : C)
    (h1 : ∀ q, Op.add c q ∉ ops) (h2 : ∀ q, Op.add c q ∉ during) (h3 : ∀ q, Op.remove c q ∉ during)
    (pfx : Path) (n : Noti) :
    c ∈ updateNotification (during.foldl stepTrie (addSubscription (runTrie ops) s c)) pfx n ↔
      ∃ q ∈ subscriptionQueries s, ∃ p ∈ n.upd ++ n.del, compatible q (pfx ++ p) = true := by
  rw [trie_fresh, C06.notification_iff_compatible]
  constructor
  · rintro ⟨q, hr, hp⟩
    exact ⟨q, (registered_fresh ops during _ c h1 h2 h3 q).1 hr, hp⟩
  · rintro ⟨q, hq, hp⟩
    exact ⟨q, (registered_fresh ops during _ c h1 h2 h3 q).2 hq, hp⟩

/-- **(ii), for any way the event is carried**: whatever notification `n` (and prefix strings
`pfx`) carries the event — i.e. its update and delete paths, prefix prepended, are the index
paths `Sub.eventPaths e` — the trie invokes the fresh client iff the Subscribe model's filter
`Sub.offered` is true for a subscriber holding `regQueries r`. -/
theorem offered_iff_trie_paths (ops during : List (Op C)) (r : Sub.Req) (c : C)
    (hp : r.prefixNil = false) (ht : r.target ≠ "") (hn : NilOK r)
    (h1 : ∀ q, Op.add c q ∉ ops) (h2 : ∀ q, Op.add c q ∉ during) (h3 : ∀ q, Op.remove c q ∉ during)
    (sub : Sub.Subscriber) (hs : sub.regs = Sub.regQueries r)
    (e : Cache.Event) (pfx : Path) (n : Noti)
    (hpaths : (n.upd ++ n.del).map (fun p => pfx ++ p) = Sub.eventPaths e) :
    c ∈ updateNotification (during.foldl stepTrie (addSubscription (runTrie ops) (toSubList r) c)) pfx n ↔
      Sub.offered sub e = true := by
  rw [fresh_notification_iff ops during _ c h1 h2 h3, ← regQueries_eq r hp ht hn]
  unfold Sub.offered
  rw [hs, ← hpaths]
  simp only [List.any_eq_true, List.mem_map]
  constructor
  · rintro ⟨q, hq, p, hp', hc⟩
    exact ⟨q, hq, _, ⟨p, hp', rfl⟩, hc⟩
  · rintro ⟨q, hq, _, ⟨p, hp', rfl⟩, hc⟩
    exact ⟨q, hq, p, hp', hc⟩

/-- the notification `eventNoti e` carries exactly the paths `Sub.eventPaths e` -/
theorem eventNoti_paths (e : Cache.Event) (he : EventOK e) :
    ((eventNoti e).upd ++ (eventNoti e).del).map (fun p => toStrings (eventNoti e).pfx true ++ p) =
      Sub.eventPaths e := by
  cases e with
  | upd n =>
    obtain ⟨ht, hd⟩ := he
    simp only [eventNoti, Sub.eventPaths, hd, List.map_nil, List.append_nil, List.map_map]
    apply List.map_congr_left
    intro u _
    by_cases ho : n.origin = "" <;> simp [toStrings, Cache.subIndex, ht, ho]
  | del t o p ts =>
    have ht : t ≠ "" := he
    by_cases ho : o = "" <;> simp [eventNoti, Sub.eventPaths, toStrings, Cache.subIndex, ht, ho]

/-- **(ii)** `Server.Update` of the leaf carrying a feed event invokes the fresh client `c` —
registered through `addSubscription` with the subscription list of request `r` into any
reachable trie, any other clients coming and going meanwhile — if and only if the Subscribe
model offers the event to a subscriber registered with `regQueries r`.  (By
`C06.once_per_server_update` the client is then invoked exactly once.) -/
theorem offered_iff_trie (ops during : List (Op C)) (r : Sub.Req) (c : C)
    (hp : r.prefixNil = false) (ht : r.target ≠ "") (hn : NilOK r)
    (h1 : ∀ q, Op.add c q ∉ ops) (h2 : ∀ q, Op.add c q ∉ during) (h3 : ∀ q, Op.remove c q ∉ during)
    (sub : Sub.Subscriber) (hs : sub.regs = Sub.regQueries r) (e : Cache.Event) (he : EventOK e) :
    c ∈ serverUpdate (during.foldl stepTrie (addSubscription (runTrie ops) (toSubList r) c))
        (some (eventNoti e)) ↔ Sub.offered sub e = true := by
  unfold serverUpdate
  exact offered_iff_trie_paths ops during r c hp ht hn h1 h2 h3 sub hs e _ _ (eventNoti_paths e he)

/-- (ii) for the events of the main feed path, with no hypothesis on the event left: every leaf
`Cache.GnmiUpdate(n)` hands to the feed (any cache state, any notification naming a target) is
offered by the trie to the fresh client iff the Subscribe model offers it. -/
theorem offered_iff_trie_gnmiUpdate (ops during : List (Op C)) (r : Sub.Req) (c : C)
    (hp : r.prefixNil = false) (ht : r.target ≠ "") (hn : NilOK r)
    (h1 : ∀ q, Op.add c q ∉ ops) (h2 : ∀ q, Op.add c q ∉ during) (h3 : ∀ q, Op.remove c q ∉ during)
    (sub : Sub.Subscriber) (hs : sub.regs = Sub.regQueries r)
    (st : Cache.State) (now : Int) (pn : Bool) (n : Cache.Noti) (hnt : n.target ≠ "")
    (nd : Cache.Noti) (hmem : Cache.Event.upd nd ∈ (st.gnmiUpdate now pn n).2.2.flatten) :
    c ∈ serverUpdate (during.foldl stepTrie (addSubscription (runTrie ops) (toSubList r) c))
        (some (eventNoti (.upd nd))) ↔ Sub.offered sub (.upd nd) = true :=
  offered_iff_trie ops during r c hp ht hn h1 h2 h3 sub hs _
    (cache_gnmiUpdate_eventOK st now pn n hnt nd hmem)

/-- … exactly once -/
theorem offered_count_trie (ops during : List (Op C)) (r : Sub.Req) (c : C)
    (hp : r.prefixNil = false) (ht : r.target ≠ "") (hn : NilOK r)
    (h1 : ∀ q, Op.add c q ∉ ops) (h2 : ∀ q, Op.add c q ∉ during) (h3 : ∀ q, Op.remove c q ∉ during)
    (sub : Sub.Subscriber) (hs : sub.regs = Sub.regQueries r) (e : Cache.Event) (he : EventOK e) :
    (serverUpdate (during.foldl stepTrie (addSubscription (runTrie ops) (toSubList r) c))
        (some (eventNoti e))).count c = if Sub.offered sub e then 1 else 0 := by
  have hiff := offered_iff_trie ops during r c hp ht hn h1 h2 h3 sub hs e he
  have hle : (serverUpdate (during.foldl stepTrie (addSubscription (runTrie ops) (toSubList r) c))
      (some (eventNoti e))).count c ≤ 1 := by
    rw [trie_fresh]; exact C06.once_per_server_update _ _ c
  by_cases ho : Sub.offered sub e = true
  · rw [if_pos ho]
    have := List.count_pos_iff.2 (hiff.2 ho)
    omega
  · rw [if_neg ho]
    exact List.count_eq_zero.2 (fun hm => ho (hiff.1 hm))

end

/-- `EventOK`'s second clause is needed, and shows what `Sub.eventPaths` leaves out: the deletes
*inside* a leaf notification.  For a notification with a delete of `a` and no update the trie
invokes a subscriber of `d/a`, the Subscribe model's filter says no.  (The cache never feeds
such a leaf: `Target.dispatch` stores single-update or atomic delete-free notifications and
turns deletes into `Event.del`.) -/
theorem offered_ne_trie_of_inner_delete :
    let r : Sub.Req := { target := "d", subs := [{ path := ["a"] }] }
    let e : Cache.Event := .upd { target := "d", del := [{ path := ["a"] }] }
    (0 : Nat) ∈ serverUpdate (addSubscription (runTrie ([] : List (Op Nat))) (toSubList r) 0)
        (some (eventNoti e)) ∧
      Sub.offered { id := "s", req := r, acl := .absent, regs := Sub.regQueries r } e = false := by
  decide

/-! ## (iii) every walked leaf is streamed; an offered event agrees with a subscribed path -/

/-- the event concerns the leaf `target/key`: an update of a notification stored under that key,
or a delete (of the leaf itself, or of a subtree) covering it — the Subscribe model's own
`coversKey` -/
def Concerns (e : Cache.Event) (t : String) (k : Path) : Prop :=
  match e with
  | .upd n => n.target = t ∧ ∃ u ∈ n.upd, Cache.updKey n u = k
  | .del .. => Sub.coversKey e t k = true

/-- the path part: a registered query `target :: full` whose `full` selects the key `k` of a
leaf of target `t` is compatible with the index path of every event concerning that leaf -/
theorem query_compatible_of_concerns {rt t : String} {full k : Path} (hT : rt = glob ∨ rt = t)
    (hq : qmatches full k = true) {e : Cache.Event} (he : Concerns e t k) :
    ∃ p ∈ Sub.eventPaths e, compatible (rt :: full) p = true := by
  have hT' : ∀ x : String, (rt == glob || x == glob || rt == t) = true := by
    intro x
    rcases hT with h | h <;> simp [h]
  cases e with
  | upd n =>
    obtain ⟨htg, u, hu, hk⟩ := he
    refine ⟨_, List.mem_map.2 ⟨u, hu, rfl⟩, ?_⟩
    rw [eventPath_upd, compatible_cons_cons, htg, hk, hT' t, Bool.true_and]
    exact compatible_of_qmatches_append full k _ hq
  | del t' o p ts =>
    have hc : qmatches (Cache.subIndex t' o p) (t :: k) = true := he
    unfold Cache.subIndex at hc
    rw [C06.qmatches_cons_cons] at hc
    simp only [Bool.and_eq_true, Bool.or_eq_true, beq_iff_eq] at hc
    refine ⟨_, List.mem_singleton.2 rfl, ?_⟩
    unfold Cache.subIndex
    rw [compatible_cons_cons]
    simp only [Bool.and_eq_true, Bool.or_eq_true, beq_iff_eq]
    refine ⟨?_, compatible_of_qmatches_cover full _ k hc.2 (C06.query_subset_stream full k hq)⟩
    rcases hT with h | h
    · exact Or.inl (Or.inl h)
    · rcases hc.1 with h' | h'
      · exact Or.inl (Or.inr h')
      · exact Or.inr (h.trans h'.symm)

/-- **(iii) Every leaf returned by the query for a path is also streamed to a subscriber of that
path.**  For every cache content, every request and every leaf `(t, k, n)` the initial walk of
the subscription returns (the `Cache.Query` of the completed paths), every later event
concerning that leaf — an update stored under `t/k` (atomic or not) or a delete covering it —
is offered to the subscriber registered with that request's queries. -/
theorem walked_leaf_is_streamed (c : Cache.State) (r : Sub.Req)
    (items : List (String × Path × Cache.Noti)) (hw : Sub.walkItems c r = some items)
    (t : String) (k : Path) (n : Cache.Noti) (hm : (t, k, n) ∈ items)
    (sub : Sub.Subscriber) (hs : sub.regs = Sub.regQueries r)
    (e : Cache.Event) (he : Concerns e t k) : Sub.offered sub e = true := by
  obtain ⟨_, sp, hsp, full, hcp, hT, hq, _⟩ := walked_spec hw hm
  obtain ⟨p, hp, hc⟩ := query_compatible_of_concerns hT hq he
  unfold Sub.offered
  rw [hs]
  exact List.any_eq_true.2 ⟨_, mem_regQueries_of_complete r sp hsp full hcp,
    List.any_eq_true.2 ⟨p, hp, hc⟩⟩

/-- … hence, through (ii), the `match` trie really invokes the subscriber's client for it -/
theorem walked_leaf_reaches_client {C : Type} [DecidableEq C] (ops during : List (Op C)) (cl : C)
    (h1 : ∀ q, Op.add cl q ∉ ops) (h2 : ∀ q, Op.add cl q ∉ during) (h3 : ∀ q, Op.remove cl q ∉ during)
    (c : Cache.State) (r : Sub.Req) (hp : r.prefixNil = false) (ht : r.target ≠ "") (hn : NilOK r)
    (items : List (String × Path × Cache.Noti)) (hw : Sub.walkItems c r = some items)
    (t : String) (k : Path) (n : Cache.Noti) (hm : (t, k, n) ∈ items)
    (e : Cache.Event) (hok : EventOK e) (he : Concerns e t k) :
    cl ∈ serverUpdate (during.foldl stepTrie (addSubscription (runTrie ops) (toSubList r) cl))
      (some (eventNoti e)) :=
  (offered_iff_trie ops during r cl hp ht hn h1 h2 h3
    { id := "", req := r, acl := .absent, regs := Sub.regQueries r } rfl e hok).2
    (walked_leaf_is_streamed c r items hw t k n hm _ rfl e he)

/-- **(iii), converse direction.**  An event is offered only if one of its index paths agrees
with the registered query of one of the subscriber's subscriptions on every element they share
(a wildcard on either side agreeing with anything); where the subscription's path completes
(always, once the walk succeeded) that query is the target followed by the walked path. -/
theorem offered_agrees (r : Sub.Req) (sub : Sub.Subscriber) (hs : sub.regs = Sub.regQueries r)
    (e : Cache.Event) (h : Sub.offered sub e = true) :
    ∃ sp ∈ r.subs, ∃ q ∈ Sub.regQueries r, ∃ p ∈ Sub.eventPaths e,
      q = (r.target :: ((if r.origin = "" then [] else [r.origin]) ++ r.pfx)) ++
        (if r.origin = "" ∧ sp.origin ≠ "" then [sp.origin] else []) ++ sp.path ∧
      (∀ full, Sub.completePath r sp = some full → q = r.target :: full) ∧
      Agree q p := by
  unfold Sub.offered at h
  rw [hs] at h
  obtain ⟨q, hq, h'⟩ := List.any_eq_true.1 h
  obtain ⟨p, hp, hc⟩ := List.any_eq_true.1 h'
  obtain ⟨sp, hsp, rfl⟩ := (SubStream.mem_regQueries r q).1 hq
  exact ⟨sp, hsp, _, hq, p, hp, rfl, fun full hf => regQuery_eq_target_full r sp full hf,
    (compatible_iff_agree _ p).1 hc⟩

/-- and `offered` is exactly that -/
theorem offered_iff_agree (r : Sub.Req) (sub : Sub.Subscriber) (hs : sub.regs = Sub.regQueries r)
    (e : Cache.Event) :
    Sub.offered sub e = true ↔ ∃ q ∈ Sub.regQueries r, ∃ p ∈ Sub.eventPaths e, Agree q p := by
  unfold Sub.offered
  rw [hs]
  simp only [List.any_eq_true, compatible_iff_agree]

/-! ## (iv) `Sys.WF` derived for the LTS instance built from actual requests -/

def ltsMode : Sub.Mode → SubLTS.Mode
  | .once => .once
  | .poll => .poll
  | .stream => .stream
  | .other => .other

/-- "the registered paths are compatible with the key": `Sub.regQueries` against `target :: key` -/
def wantsOf (r : Sub.Req) (k : String × Path) : Bool :=
  (Sub.regQueries r).any (fun q => compatible q (k.1 :: k.2))

/-- "some completed subscription path `qmatches` the key" in the requested target: what
`Sub.walkItems` returns (`walksOf_of_walked`) -/
def walksOf (r : Sub.Req) (k : String × Path) : Bool :=
  (r.target == glob || r.target == k.1) &&
    r.subs.any (fun sp => match Sub.completePath r sp with
      | some full => qmatches full k.2
      | none => false)

/-- how many further completed subscription paths of the request match the key: `processSubscription`
queries the cache once per subscription path, so a leaf under overlapping paths is inserted once per
matching path (the pending queue entry counts the duplicates) -/
def extraOf (r : Sub.Req) (k : String × Path) : Nat :=
  (r.subs.filter (fun sp => match Sub.completePath r sp with
    | some full => qmatches full k.2
    | none => false)).length - 1

/-- a region = target and index path (origin included) of a subtree delete -/
def wantsROf (r : Sub.Req) (g : String × Path) : Bool :=
  (Sub.regQueries r).any (fun q => compatible q (g.1 :: g.2))

/-- the static part of one RPC of the Subscribe LTS, read off the request and ACL of the
sequential Subscribe model -/
def ltsReq (r : Sub.Req) (acl : Sub.Acl) : SubLTS.Req (String × Path) String (String × Path) :=
  { mode := ltsMode r.mode
    updatesOnly := r.updatesOnly
    single := if r.target = glob then none else some r.target
    wants := wantsOf r
    walks := walksOf r
    extra := extraOf r
    wantsR := wantsROf r
    allow := acl.check
    aclOk := match acl with
      | .fails => false
      | _ => true
    valid := r.hasSubscribe && !r.prefixNil && r.target != "" }

/-- the Subscribe LTS over the keys of the cache model: a key is `(target, index path)`, a region
`(target, delete path)` covering the keys of that target its path selects -/
def subSys (reqs : Nat → Sub.Req × Sub.Acl) : SubLTS.Sys (String × Path) String (String × Path) :=
  { tgt := Prod.fst
    covers := fun g k => g.1 == k.1 && qmatches g.2 k.2
    rtgt := Prod.fst
    isTD := fun g => g.2 == [glob]
    req := fun s => ltsReq (reqs s).1 (reqs s).2 }

/-- `walks` is what the walk of the Subscribe model returns … -/
theorem walksOf_of_walked {c : Cache.State} {r : Sub.Req} {items : List (String × Path × Cache.Noti)}
    (hw : Sub.walkItems c r = some items) {t : String} {k : Path} {n : Cache.Noti}
    (hm : (t, k, n) ∈ items) : walksOf r (t, k) = true := by
  obtain ⟨_, sp, hsp, full, hcp, hT, hq, _⟩ := walked_spec hw hm
  unfold walksOf
  simp only [Bool.and_eq_true, Bool.or_eq_true, beq_iff_eq, List.any_eq_true]
  exact ⟨hT, sp, hsp, by rw [hcp]; exact hq⟩

/-- … `wants` is `Sub.offered` for the update of a (non-atomic, single-update) leaf of that key … -/
theorem wantsOf_eq_offered (r : Sub.Req) (sub : Sub.Subscriber) (hs : sub.regs = Sub.regQueries r)
    (n : Cache.Noti) (u : Cache.Upd) (hu : n.upd = [u]) (ha : n.atomic = false) :
    Sub.offered sub (.upd n) = wantsOf r (n.target, Cache.updKey n u) := by
  have hp : Sub.eventPaths (.upd n) = [n.target :: Cache.updKey n u] := by
    simp only [Sub.eventPaths, hu, List.map_cons, List.map_nil]
    rw [eventPath_upd, ha]
    simp
  unfold Sub.offered wantsOf
  rw [hs, hp]
  simp

/-- … `wantsR` is `Sub.offered` for the delete event of that region … -/
theorem wantsROf_eq_offered (r : Sub.Req) (sub : Sub.Subscriber) (hs : sub.regs = Sub.regQueries r)
    (t o : String) (p : Path) (ts : Int) :
    Sub.offered sub (.del t o p ts) = wantsROf r (t, (if o = "" then [] else [o]) ++ p) := by
  unfold Sub.offered wantsROf Sub.eventPaths Cache.subIndex
  rw [hs]
  simp

/-- … and `covers` is the Subscribe model's `coversKey` (the target of a delete event is a target
name, never the wildcard: `CacheOK.noStar`) -/
theorem covers_eq_coversKey (reqs : Nat → Sub.Req × Sub.Acl) (t o : String) (p : Path) (ts : Int)
    (ht : t ≠ glob) (t' : String) (k : Path) :
    Sub.coversKey (.del t o p ts) t' k =
      (subSys reqs).covers (t, (if o = "" then [] else [o]) ++ p) (t', k) := by
  unfold Sub.coversKey Cache.subIndex subSys
  simp only
  rw [C06.qmatches_cons_cons]
  have : (t == glob) = false := by simpa using ht
  rw [this, Bool.false_or]

/-- `walks ⊆ wants` for actual requests: the content of the assumed field `Sys.WF.walks_wants`,
derived from `C06.query_subset_stream` and `completePath_reg` -/
theorem walks_wants_derived (r : Sub.Req) (k : String × Path) (h : walksOf r k = true) :
    wantsOf r k = true := by
  unfold walksOf at h
  simp only [Bool.and_eq_true, Bool.or_eq_true, beq_iff_eq, List.any_eq_true] at h
  obtain ⟨hT, sp, hsp, hq⟩ := h
  cases hcp : Sub.completePath r sp with
  | none => rw [hcp] at hq; cases hq
  | some full =>
    rw [hcp] at hq
    unfold wantsOf
    refine List.any_eq_true.2 ⟨_, mem_regQueries_of_complete r sp hsp full hcp, ?_⟩
    rw [compatible_cons_cons, C06.query_subset_stream full k.2 hq, Bool.and_true]
    rcases hT with h | h <;> simp [h]

/-- **(iv)** The well-formedness the LTS theorems of C04/C05/C07/C08 assume of their abstract
predicates (`walks_wants`, `wants_region`, `covers_tgt`) holds for the instance built from any
family of actual requests and ACLs. -/
theorem subSys_wf (reqs : Nat → Sub.Req × Sub.Acl) : (subSys reqs).WF := by
  refine ⟨?_, ?_, ?_⟩
  · intro s k h
    exact walks_wants_derived (reqs s).1 k h
  · intro s k g hw hc
    have hw' : wantsOf (reqs s).1 k = true := hw
    have hc' : (g.1 == k.1 && qmatches g.2 k.2) = true := hc
    show wantsROf (reqs s).1 g = true
    unfold wantsOf at hw'
    unfold wantsROf
    simp only [Bool.and_eq_true, beq_iff_eq] at hc'
    obtain ⟨q, hq, hm⟩ := List.any_eq_true.1 hw'
    refine List.any_eq_true.2 ⟨q, hq, ?_⟩
    rw [hc'.1]
    apply compatible_of_qmatches_cover q (k.1 :: g.2) (k.1 :: k.2) _ hm
    rw [C06.qmatches_cons_cons, hc'.2]
    simp
  · intro g k hc
    have hc' : (g.1 == k.1 && qmatches g.2 k.2) = true := hc
    simp only [Bool.and_eq_true, beq_iff_eq] at hc'
    exact hc'.1.symm

theorem subSys_swap (reqs : Nat → Sub.Req × Sub.Acl) : (subSys reqs).swap = false := rfl

/-- C04 `converges` for actual requests, with no assumption on the path predicates left: in every
reachable quiescent configuration of the Subscribe LTS over the cache model's keys, what a
registered STREAM subscriber was sent replays to the cache's value on every allowed key its walk
matches — provided no quiet write (event-driven suppression) happened; `converges_concrete_mod` is the
general form, modulo the logged quiet writes. -/
theorem converges_concrete {V : Type} [Inhabited V] (reqs : Nat → Sub.Req × Sub.Acl)
    {c : SubLTS.Cfg (String × Path) V String (String × Path)} (h : SubLTS.Reach (subSys reqs) c)
    (s : Nat) (hq : C04.Quiescent c s) (hr : (c.subs s).registered = true)
    (huo : (reqs s).1.updatesOnly = false) (k : String × Path)
    (hw : walksOf (reqs s).1 k = true) (ha : (reqs s).2.check k.1 = true) (hnq : c.sh.qlog = []) :
    SubLTS.view (subSys reqs) k (c.subs s).sent = c.sh.cache k :=
  C04.converges_exact (subSys_swap reqs) (subSys_wf reqs) h s hq hr huo k hw ha hnq

/-- C04 `converges` for actual requests, in general: equal up to the logged quiet writes -/
theorem converges_concrete_mod {V : Type} [Inhabited V] (reqs : Nat → Sub.Req × Sub.Acl)
    {c : SubLTS.Cfg (String × Path) V String (String × Path)} (h : SubLTS.Reach (subSys reqs) c)
    (s : Nat) (hq : C04.Quiescent c s) (hr : (c.subs s).registered = true)
    (huo : (reqs s).1.updatesOnly = false) (k : String × Path)
    (hw : walksOf (reqs s).1 k = true) (ha : (reqs s).2.check k.1 = true) :
    SubLTS.ORel (SubLTS.QChain c.sh.qlog) (SubLTS.view (subSys reqs) k (c.subs s).sent) (c.sh.cache k) :=
  C04.converges (subSys_swap reqs) (subSys_wf reqs) h s hq hr huo k hw ha

/-- C04 `no_missed_change` for actual requests -/
theorem no_missed_change_concrete {V : Type} [Inhabited V] (reqs : Nat → Sub.Req × Sub.Acl)
    {c : SubLTS.Cfg (String × Path) V String (String × Path)} (h : SubLTS.Reach (subSys reqs) c)
    (s : Nat) (k : String × Path) (hr : (c.subs s).registered = true)
    (huo : (reqs s).1.updatesOnly = false) (hw : wantsOf (reqs s).1 k = true)
    (ha : (reqs s).2.check k.1 = true) (hf : c.sh.inflight (subSys reqs) k = false) :
    SubLTS.ORel (SubLTS.QChain c.sh.qlog) (SubLTS.expect (subSys reqs) c.sh (c.subs s) k) (c.sh.cache k) ∨
    (c.sh.present k = true ∧ walksOf (reqs s).1 k = true ∧ SubLTS.walkPending (c.subs s) k) ∨
    (walksOf (reqs s).1 k = false ∧ SubLTS.expect (subSys reqs) c.sh (c.subs s) k = none) :=
  C04.no_missed_change (subSys_swap reqs) (subSys_wf reqs) h s k hr huo hw ha hf

/-! ## Non-vacuity -/

/-- an accepted request: target `dev`, prefix `a`, two subscriptions — origin in the path; no path -/
def exReq : Sub.Req :=
  { target := "dev", pfx := [], subs := [{ origin := "oc", path := ["a", "*"] }, { isNil := true }] }

/-- other clients' history: client 1 subscribed and left, client 2 still there -/
def exOps : List (Op Nat) :=
  [Op.add 1 ["dev", "oc", "a"], Op.add 2 ["dev"], Op.remove 1 ["dev", "oc", "a"]]

def exDuring : List (Op Nat) := [Op.add 3 ["dev", "x"], Op.remove 2 ["dev"]]

def exNoti : Cache.Noti := { target := "dev", origin := "oc", pfx := ["a"], upd := [{ path := ["b"] }] }

def exCache : Cache.State :=
  { targets := [("dev", { name := "dev", tree := [(["oc", "a", "b"], exNoti), (["x"], { target := "dev" })] })] }

example : exReq.prefixNil = false ∧ exReq.target ≠ "" ∧ NilOK exReq := by decide
example : (∀ q, Op.add 0 q ∉ exOps) ∧ (∀ q, Op.add 0 q ∉ exDuring) ∧ (∀ q, Op.remove 0 q ∉ exDuring) := by
  refine ⟨?_, ?_, ?_⟩ <;> intro q h <;> simp [exOps, exDuring] at h
example : Sub.regQueries exReq = [["dev", "oc", "a", "*"], ["dev"]] := by decide
example : EventOK (.upd exNoti) ∧ EventOK (.del "dev" "oc" ["a"] 5) := by decide
/-- both sides of (ii) are true here … -/
example : (0 : Nat) ∈ serverUpdate (exDuring.foldl stepTrie (addSubscription (runTrie exOps) (toSubList exReq) 0))
    (some (eventNoti (.upd exNoti))) := by decide
/-- … and both false for a subscriber of another subtree -/
example : (0 : Nat) ∉ serverUpdate (exDuring.foldl stepTrie (addSubscription (runTrie exOps)
    (toSubList { exReq with subs := [{ path := ["z"] }] }) 0)) (some (eventNoti (.upd exNoti))) := by decide
/-- the walk returns the leaf `dev / oc/a/b` (twice: once per subscription) and `dev / x` -/
example : Sub.walkItems exCache exReq =
    some [("dev", ["oc", "a", "b"], exNoti), ("dev", ["oc", "a", "b"], exNoti), ("dev", ["x"], { target := "dev" })] := by
  decide
example : Concerns (.upd exNoti) "dev" ["oc", "a", "b"] := ⟨rfl, _, List.mem_singleton.2 rfl, rfl⟩
example : Concerns (.del "dev" "oc" ["a"] 5) "dev" ["oc", "a", "b"] := by
  show Sub.coversKey _ _ _ = true
  decide
example : walksOf exReq ("dev", ["oc", "a", "b"]) = true ∧ wantsOf exReq ("dev", ["oc", "a"]) = true ∧
    walksOf exReq ("dev", ["oc"]) = true ∧ walksOf { exReq with subs := [{ origin := "oc", path := ["a", "b"] }] }
      ("dev", ["oc", "a"]) = false := by decide

end C06Glue
end Gnmi
