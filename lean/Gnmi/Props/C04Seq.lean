import Gnmi.Lemmas.CacheFeedTrace
import Gnmi.Props.C03Sim
/-!
# C04 (sequential Subscribe model) — a STREAM subscriber whose flow control is never shut
converges to the cache

Histories are made of `Subscribe` calls (any mode, any ACL, any request, at any point) and cache
API calls, each executed exactly as `Driver/SU.lean` executes a `ca` line: the cache model's
`State.step`, then `Sub.feed` of the emitted events on the new cache.  There is no `drain`, so
`Subscriber.out` is everything the subscriber was ever sent; no `gate`/`pregate`, so flow control
is open throughout.

`replay` (in `Lemmas/SubscribeStream.lean`) is the subscriber-side view: the responses applied in
order with the replay rule of `Spec/Feed.lean` (an update sets its leaf, an atomic update replaces
its subtree, a delete removes every key it `qmatches`), keyed by the subscriber index
`target :: key`.

`stream_converges_partial`: after **every** history whose cache calls satisfy `C03.OkRun` (targets
added under fresh non-empty names, `Clean` updates) and never use the wildcard `*` as a target
name, for every live STREAM subscriber that asked for the snapshot (single-target or all-targets
`*`, any ACL that accepted the call), every target its ACL lets it see and every key of that
target matched by one of its registered queries, the replayed view holds at `target :: key` what
the cache holds (`Feed.Sim`: the same notification, or, with event-driven emulation on, a
notification with a `value.Equal` value), and every key the view holds is a key the cache holds.

What is partial (the full statement is `stream_converges`): caches with a target literally named
`*` are excluded (`NoStarTargets`) — and for those the full statement is *false*
(`star_target_breaks_convergence`).
-/
namespace Gnmi
namespace C04Seq
open Cache Sub Feed SubStream

/-- an operation of a history -/
inductive HOp where
  | sub (id : String) (acl : Acl) (req : Option Req)
  | ca (op : Cache.Op)

def hstep (enc : String → String) (st : Sub.State) : HOp → Sub.State
  | .sub id acl req => subscribe st id acl req
  | .ca op =>
    let r := st.cache.step enc op
    feed { st with cache := r.1 } r.2.2

def hrun (enc : String → String) (st : Sub.State) (h : List HOp) : Sub.State := h.foldl (hstep enc) st

/-- the cache API calls of a history, in order -/
def cacheOps : List HOp → List Cache.Op
  | [] => []
  | .sub .. :: h => cacheOps h
  | .ca op :: h => op :: cacheOps h

/-- no target is added, and no removal announced, under the wildcard name `*` -/
def NoStarTargets (h : List HOp) : Prop := ∀ op ∈ cacheOps h, NoStarOp op

/-- the invariant of a run -/
structure HInv (st : Sub.State) : Prop where
  pre : st.pregated = []
  sinv : SInv st.cache
  cok : CacheOK st.cache
  subs : ∀ s ∈ st.subs, Live s → SubInv st.cache.cfg (treesOf st.cache) s

theorem hinv_init (cfg : Cfg) : HInv { cache := { cfg := cfg } } :=
  ⟨rfl, SInv.empty cfg, cacheOK_empty cfg, fun s hs => by simp at hs⟩

theorem hasTarget_exists {c : Cache.State} {T : String} (h : c.hasTarget T = true) :
    T = glob ∨ (c.get T).isSome = true := by
  unfold State.hasTarget at h
  split at h
  · cases h
  · split at h
    · rename_i hs; exact Or.inl hs
    · exact Or.inr h

theorem hstep_inv (enc : String → String) (st : Sub.State) (op : HOp) (hi : HInv st)
    (hok : match op with
      | .sub .. => True
      | .ca o => Feed.Op.ok st.cache o ∧ NoStarOp o) : HInv (hstep enc st op) := by
  cases op with
  | sub id acl req =>
    obtain ⟨s, hs, hnew⟩ := subscribe_new st id acl req hi.pre
    show HInv (subscribe st id acl req)
    rw [hs]
    refine ⟨hi.pre, hi.sinv, hi.cok, ?_⟩
    intro x hx hl
    rcases List.mem_append.1 hx with hx | hx
    · exact hi.subs x hx hl
    · simp only [List.mem_singleton] at hx
      subst hx
      rcases hnew with hn | ⟨r, h1, h2, rfl⟩
      · exact absurd hl hn
      · exact streamSub_inv hi.cok id r acl h1 (hasTarget_exists h2) hl
  | ca o =>
    obtain ⟨hv, hns⟩ := hok
    show HInv (feed { st with cache := (st.cache.step enc o).1 } (st.cache.step enc o).2.2)
    rw [feed_eq]
    obtain ⟨hc', hsim⟩ := step_cacheOK enc st.cache o hi.sinv hi.cok hv hns
    have hcfg := C14.step_cfg enc st.cache o
    refine ⟨hi.pre, (step_sinv enc st.cache o hi.sinv (Feed.Op.ok_valid hv)).1, hc', ?_⟩
    intro x hx hl
    obtain ⟨s, hs, rfl⟩ := List.mem_map.1 hx
    show SubInv (st.cache.step enc o).1.cfg _ _
    rw [hcfg]
    exact feed_sub_inv hi.cok.vok (step_goodTr enc st.cache o hi.sinv hi.cok hv hns).1 hsim hc'.hkey
      (hi.subs s hs) hl

theorem hrun_inv (enc : String → String) : ∀ (h : List HOp) (st : Sub.State), HInv st →
    C03.OkRun enc st.cache (cacheOps h) → NoStarTargets h → HInv (hrun enc st h)
  | [], _, hi, _, _ => hi
  | .sub id acl req :: h, st, hi, hok, hns => by
    have h1 := hstep_inv enc st (.sub id acl req) hi trivial
    have hc : (hstep enc st (.sub id acl req)).cache = st.cache := by
      obtain ⟨s, hs, _⟩ := subscribe_new st id acl req hi.pre
      show (subscribe st id acl req).cache = st.cache
      rw [hs]
    exact hrun_inv enc h _ h1 (by rw [hc]; exact hok) hns
  | .ca o :: h, st, hi, hok, hns => by
    have h1 := hstep_inv enc st (.ca o) hi ⟨hok.1, hns o (List.mem_cons_self ..)⟩
    exact hrun_inv enc h _ h1 hok.2 (fun x hx => hns x (List.mem_cons_of_mem _ hx))

theorem hstep_cfg (enc : String → String) (st : Sub.State) (op : HOp) (hp : st.pregated = []) :
    (hstep enc st op).cache.cfg = st.cache.cfg := by
  cases op with
  | sub id acl req =>
    obtain ⟨s, hs, _⟩ := subscribe_new st id acl req hp
    show (subscribe st id acl req).cache.cfg = _
    rw [hs]
  | ca o => exact C14.step_cfg enc st.cache o

/-- **The sequential model's STREAM clause, in full**: any target names.  False as it stands
(`star_target_breaks_convergence`); `stream_converges_partial` adds `NoStarTargets`. -/
def stream_converges : Prop :=
  ∀ (enc : String → String) (cfg : Cfg) (h : List HOp), C03.OkRun enc { cfg := cfg } (cacheOps h) →
    ∀ s ∈ (hrun enc { cache := { cfg := cfg } } h).subs,
      s.alive = true → s.req.mode = .stream → s.req.updatesOnly = false →
      (∀ t k, s.acl.check t = true → s.regs.any (fun q => qmatches q (t :: k)) = true →
        Feed.Sim cfg (lookup (replay s.out) (t :: k))
          (((hrun enc { cache := { cfg := cfg } } h).cache.get t).bind (fun tg => lookup tg.tree k))) ∧
      (∀ κ, (lookup (replay s.out) κ).isSome = true →
        ∃ t k tg, κ = t :: k ∧ (hrun enc { cache := { cfg := cfg } } h).cache.get t = some tg ∧
          (lookup tg.tree k).isSome = true)

theorem hrun_cfg (enc : String → String) : ∀ (h : List HOp) (st : Sub.State), HInv st →
    C03.OkRun enc st.cache (cacheOps h) → NoStarTargets h → (hrun enc st h).cache.cfg = st.cache.cfg
  | [], _, _, _, _ => rfl
  | .sub id acl req :: h, st, hi, hok, hns => by
    have h1 := hstep_inv enc st (.sub id acl req) hi trivial
    have hc : (hstep enc st (.sub id acl req)).cache = st.cache := by
      obtain ⟨s, hs, _⟩ := subscribe_new st id acl req hi.pre
      show (subscribe st id acl req).cache = st.cache
      rw [hs]
    show (hrun enc (hstep enc st (.sub id acl req)) h).cache.cfg = _
    rw [hrun_cfg enc h _ h1 (by rw [hc]; exact hok) hns, hc]
  | .ca o :: h, st, hi, hok, hns => by
    have h1 := hstep_inv enc st (.ca o) hi ⟨hok.1, hns o (List.mem_cons_self ..)⟩
    show (hrun enc (hstep enc st (.ca o)) h).cache.cfg = _
    rw [hrun_cfg enc h _ h1 hok.2 (fun x hx => hns x (List.mem_cons_of_mem _ hx))]
    exact C14.step_cfg enc st.cache o

/-- **A STREAM subscriber whose flow control is never shut converges to the cache** (at every
quiescent point: the history is arbitrary, so "after every operation"). -/
theorem stream_converges_partial (enc : String → String) (cfg : Cfg) (h : List HOp)
    (hok : C03.OkRun enc { cfg := cfg } (cacheOps h)) (hns : NoStarTargets h) :
    ∀ s ∈ (hrun enc { cache := { cfg := cfg } } h).subs,
      s.alive = true → s.req.mode = .stream → s.req.updatesOnly = false →
      (∀ t k, s.acl.check t = true → s.regs.any (fun q => qmatches q (t :: k)) = true →
        Feed.Sim cfg (lookup (replay s.out) (t :: k))
          (((hrun enc { cache := { cfg := cfg } } h).cache.get t).bind (fun tg => lookup tg.tree k))) ∧
      (∀ κ, (lookup (replay s.out) κ).isSome = true →
        ∃ t k tg, κ = t :: k ∧ (hrun enc { cache := { cfg := cfg } } h).cache.get t = some tg ∧
          (lookup tg.tree k).isSome = true) := by
  intro s hs ha hm hu
  have hinv := hrun_inv enc h _ (hinv_init cfg) hok hns
  have hcfg : (hrun enc { cache := { cfg := cfg } } h).cache.cfg = cfg :=
    hrun_cfg enc h _ (hinv_init cfg) hok hns
  have inv := hinv.subs s hs ⟨ha, hm, hu⟩
  rw [hcfg] at inv
  obtain ⟨v1, v2⟩ := inv.view
  constructor
  · intro t k hacl hmatch
    rw [← lookup_treesOf]
    exact v1 t k hacl hmatch
  · intro κ hκ
    obtain ⟨t, k, rfl, hv⟩ := v2 κ hκ
    cases hg : (hrun enc { cache := { cfg := cfg } } h).cache.get t with
    | none => rw [treesOf_none hg] at hv; simp [lookup] at hv
    | some tg =>
      rw [treesOf_some hg] at hv
      exact ⟨t, k, tg, rfl, hg, hv⟩

/-- without event-driven emulation the view is exact on the matched keys -/
theorem stream_converges_exact (enc : String → String) (cfg : Cfg) (he : cfg.eventDriven = false) (h : List HOp)
    (hok : C03.OkRun enc { cfg := cfg } (cacheOps h)) (hns : NoStarTargets h) :
    ∀ s ∈ (hrun enc { cache := { cfg := cfg } } h).subs,
      s.alive = true → s.req.mode = .stream → s.req.updatesOnly = false →
      ∀ t k, s.acl.check t = true → s.regs.any (fun q => qmatches q (t :: k)) = true →
        lookup (replay s.out) (t :: k) =
          ((hrun enc { cache := { cfg := cfg } } h).cache.get t).bind (fun tg => lookup tg.tree k) := by
  intro s hs ha hm hu t k hacl hmatch
  have := (stream_converges_partial enc cfg h hok hns s hs ha hm hu).1 t k hacl hmatch
  revert this
  cases lookup (replay s.out) (t :: k) <;>
    cases ((hrun enc { cache := { cfg := cfg } } h).cache.get t).bind (fun tg => lookup tg.tree k) <;> intro h1
  · rfl
  · exact h1.elim
  · exact h1.elim
  · rcases h1 with rfl | ⟨h2, _⟩
    · rfl
    · rw [he] at h2; cases h2

/-- the sender has nothing pending at any quiescent point: `pumpAll` emptied the queue -/
theorem stream_queue_drained (enc : String → String) (cfg : Cfg) (h : List HOp)
    (hok : C03.OkRun enc { cfg := cfg } (cacheOps h)) (hns : NoStarTargets h) :
    ∀ s ∈ (hrun enc { cache := { cfg := cfg } } h).subs,
      s.alive = true → s.req.mode = .stream → s.req.updatesOnly = false →
      s.queue = [] ∧ s.blocked = none := by
  intro s hs ha hm hu
  have inv := (hrun_inv enc h _ (hinv_init cfg) hok hns).subs s hs ⟨ha, hm, hu⟩
  exact ⟨inv.queue, inv.blocked⟩

/-! ## Non-vacuity: a history that exercises the snapshot, coalescing within one operation
(two writes of one leaf in one notification), a wildcard delete, a re-add, a metadata update, a
single-target subscriber with an ACL and an all-targets one -/

def u1 : Upd := { path := ["a", "b"], val := .scalar (.int 1), raw := "u1" }
def u1' : Upd := { path := ["a", "b"], val := .scalar (.int 2), raw := "u1'" }
def u1'' : Upd := { path := ["a", "b"], val := .scalar (.int 3), raw := "u1''" }
def u2 : Upd := { path := ["a", "c"], val := .scalar (.int 2), raw := "u2" }
def u3 : Upd := { path := ["x"], val := .scalar (.int 7), raw := "u3" }
def reqS : Req := { target := "t", mode := .stream, subs := [{ path := ["a"] }] }
def reqAll : Req := { target := "*", mode := .stream, subs := [{ path := [] }] }

def hist0 : List HOp :=
  [ .ca (.add "t"),
    .ca (.update 10 false { ts := 1, target := "t", praw := "p", upd := [u1, u2, u3] }),
    .sub "s1" (.allow ["t"]) (some reqS),
    .ca (.update 11 false { ts := 2, target := "t", praw := "p", upd := [u1', u1''] }),
    .sub "s2" .absent (some reqAll),
    .ca (.update 12 false { ts := 3, target := "t", praw := "p", del := [{ path := ["a", "*"], raw := "d" }] }),
    .ca (.update 13 false { ts := 0, target := "t", praw := "p", upd := [u2] }),
    .ca (.sync "t" 14) ]

example : C03.OkRun id {} (cacheOps hist0) := by
  refine ⟨⟨by decide, rfl⟩, ?_, ?_, (fun u hu => by cases hu), ?_, trivial, trivial⟩
  · intro u hu
    simp only [List.mem_cons, List.not_mem_nil, or_false] at hu
    rcases hu with rfl | rfl | rfl <;> exact ⟨by decide, Or.inr rfl, by decide⟩
  · intro u hu
    simp only [List.mem_cons, List.not_mem_nil, or_false] at hu
    rcases hu with rfl | rfl <;> exact ⟨by decide, Or.inr rfl, by decide⟩
  · intro u hu
    simp only [List.mem_cons, List.not_mem_nil, or_false] at hu
    subst hu; exact ⟨by decide, Or.inr rfl, by decide⟩

example : NoStarTargets hist0 := by
  intro op hop
  simp only [hist0, cacheOps, List.mem_cons, List.not_mem_nil, or_false] at hop
  rcases hop with rfl | rfl | rfl | rfl | rfl | rfl <;> first | trivial | (show _ ≠ _; decide)

/-- both subscribers are alive STREAM subscribers at the end; the first (subscribed to `t/a`) was
sent 7 responses and its replayed view holds `t/a/c`; the second (all targets, everything) was sent
8 and holds the cache's three leaves -/
example : (hrun id {} hist0).subs.map (fun s =>
      (s.alive, decide (s.req.mode = Mode.stream), s.out.length, (replay s.out).map (·.1))) =
    [(true, true, 7, [["t", "a", "c"]]),
     (true, true, 8, [["t", "meta", "sync"], ["t", "a", "c"], ["t", "x"]])] := by decide

example : ((hrun id {} hist0).cache.get "t").map (fun tg => tg.tree.map (·.1)) =
    some [["meta", "sync"], ["a", "c"], ["x"]] := by decide

/-- an all-targets subscriber whose ACL allows `t` only, two targets, a `Remove` of the other one -/
def hist1 : List HOp :=
  [ .ca (.add "t"), .ca (.add "t2"),
    .ca (.update 10 false { ts := 1, target := "t", praw := "p", upd := [u1] }),
    .ca (.update 10 false { ts := 1, target := "t2", praw := "p", upd := [u2] }),
    .sub "s3" (.allow ["t"]) (some reqAll),
    .ca (.update 11 false { ts := 2, target := "t2", praw := "p", upd := [u3] }),
    .ca (.update 12 false { ts := 2, target := "t", praw := "p", upd := [u3] }),
    .ca (.remove "t2" 13) ]

example : C03.OkRun id {} (cacheOps hist1) := by
  refine ⟨⟨by decide, rfl⟩, ⟨by decide, by decide⟩, ?_, ?_, ?_, ?_, trivial, trivial⟩ <;>
  · intro u hu
    simp only [List.mem_cons, List.not_mem_nil, or_false] at hu
    subst hu; exact ⟨by decide, Or.inr rfl, by decide⟩

example : NoStarTargets hist1 := by
  intro op hop
  simp only [hist1, cacheOps, List.mem_cons, List.not_mem_nil, or_false] at hop
  rcases hop with rfl | rfl | rfl | rfl | rfl | rfl | rfl <;> first | trivial | (show _ ≠ _; decide)

/-- it was sent the snapshot of `t`, sync and the later update of `t`: nothing of `t2` -/
example : (hrun id {} hist1).subs.map (fun s => (s.alive, s.out.length, (replay s.out).map (·.1))) =
    [(true, 3, [["t", "x"], ["t", "a", "b"]])] := by decide

/-! ## Why `NoStarTargets`: with a target literally named `*` the full statement is false

The events of a target named `*` are offered to every subscriber (`compatible` reads the name as
a wildcard), and its delete events, replayed with `qmatches`, remove other targets' keys from the
subscriber's view.  (`Cache.HasTarget("*")` is the all-targets convention; `Cache.Add("*")` is not
rejected by the code.  Outside the generators of the correspondence harness.) -/

def histStar : List HOp :=
  [ .ca (.add "t"), .ca (.add "*"),
    .ca (.update 10 false { ts := 1, target := "t", praw := "p", upd := [u1] }),
    .sub "s1" .absent (some reqS),
    .ca (.update 11 false { ts := 1, target := "*", praw := "q", upd := [u1] }),
    .ca (.update 12 false { ts := 2, target := "*", praw := "q", del := [{ path := ["a", "b"], raw := "d" }] }) ]

theorem histStar_ok : C03.OkRun id {} (cacheOps histStar) := by
  refine ⟨⟨by decide, rfl⟩, ⟨by decide, by decide⟩, ?_, ?_, (fun u hu => by cases hu), trivial⟩
  · intro u hu
    simp only [List.mem_cons, List.not_mem_nil, or_false] at hu
    subst hu; exact ⟨by decide, Or.inr rfl, by decide⟩
  · intro u hu
    simp only [List.mem_cons, List.not_mem_nil, or_false] at hu
    subst hu; exact ⟨by decide, Or.inr rfl, by decide⟩

theorem histStar_witness : ∃ s ∈ (hrun id {} histStar).subs,
    s.alive = true ∧ s.req.mode = .stream ∧ s.req.updatesOnly = false ∧ s.acl.check "t" = true ∧
    s.regs.any (fun q => qmatches q ["t", "a", "b"]) = true ∧
    lookup (replay s.out) ["t", "a", "b"] = none ∧
    (((hrun id {} histStar).cache.get "t").bind (fun tg => lookup tg.tree ["a", "b"])).isSome = true := by
  decide

/-- the full statement fails once a target is named `*` -/
theorem star_target_breaks_convergence : ¬ stream_converges := by
  intro h
  obtain ⟨s, hs, ha, hm, hu, hacl, hmatch, hnone, hsome⟩ := histStar_witness
  have := (h id {} histStar histStar_ok s hs ha hm hu).1 "t" ["a", "b"] hacl hmatch
  rw [hnone] at this
  cases hc : ((hrun id {} histStar).cache.get "t").bind (fun tg => lookup tg.tree ["a", "b"]) with
  | none => rw [hc] at hsome; cases hsome
  | some v => rw [hc] at this; exact this

end C04Seq
end Gnmi
