import Gnmi.Lemmas.CacheHist
import Gnmi.Props.C03
/-!
# C03 — "a notification carrying several updates and deletes behaves as the same updates then
deletes applied one at a time"

`multi_eq_units`: at the level of `Target.dispatch` (the `switch` of `Target.GnmiUpdate`:
everything but the deferred `checkTimestamp`) the clause holds *exactly*, for every target
state (no invariant needed), configuration and clock: dispatching a non-atomic notification
with at least two updates/deletes gives the same target (tree, every metadata counter, sync,
latest), the same feed event groups in the same order, the same `updateTS` flag and the folded
result class as dispatching its single-update units in order and then its single-delete units,
one at a time.

`multi_ne_units_future`: at the level of `Target.GnmiUpdate` the clause is **false** when a
future threshold is configured, because `checkTimestamp` runs once at the end of a
multi-update notification but after every single notification: an update rejected as "future"
inside the multi notification is accepted when the units are sent one at a time (the unit
before it moved the target's latest timestamp).  Concrete witness, checked against the Go code
by `corpus/C03/multi_vs_units_future.ops` (model and code agree on both halves).
-/
namespace Gnmi
namespace C03
open Cache

/-- the single-update units of a notification: header cloned, exactly one update attached -/
def updUnits (n : Noti) : List Noti := n.upd.map (fun u => { n with upd := [u], del := [] })

/-- the single-delete units of a notification -/
def delUnits (n : Noti) : List Noti := n.del.map (fun d => { n with upd := [], del := [d] })

/-- Notifications handed to `Target.dispatch` one at a time.  The accumulator records what the
multi arm of `dispatch` reports: whether some unit returned an error, whether some unit set the
`updateTS` flag, the events in order; a Go panic ends the process, nothing after it is applied. -/
def seqDispatch (cfg : Cfg) (now : Int) : List Noti → MultiAcc → MultiAcc
  | [], acc => acc
  | m :: ms, acc =>
    if acc.panicked then acc else
    let r := Target.dispatch cfg now acc.t m
    if r.1 = .panic then { acc with panicked := true, t := r.2.1 }
    else seqDispatch cfg now ms
      { acc with anyErr := acc.anyErr || r.1.isErr, anyOk := acc.anyOk || r.2.2.2,
                 t := r.2.1, evs := acc.evs ++ r.2.2.1 }

theorem seqDispatch_panicked (cfg : Cfg) (now : Int) (ms : List Noti) (acc : MultiAcc)
    (h : acc.panicked = true) : seqDispatch cfg now ms acc = acc := by
  cases ms <;> simp [seqDispatch, h]

theorem seqDispatch_append (cfg : Cfg) (now : Int) : ∀ (l l' : List Noti) (acc : MultiAcc),
    seqDispatch cfg now (l ++ l') acc = seqDispatch cfg now l' (seqDispatch cfg now l acc)
  | [], _, _ => rfl
  | m :: l, l', acc => by
    by_cases hp : acc.panicked = true
    · rw [List.cons_append, seqDispatch_panicked _ _ _ _ hp, seqDispatch_panicked _ _ _ _ hp,
        seqDispatch_panicked _ _ _ _ hp]
    · have hp' : acc.panicked = false := by simpa using hp
      simp only [List.cons_append, seqDispatch, hp', Bool.false_eq_true, if_false]
      split
      · rw [seqDispatch_panicked _ _ _ _ rfl]
      · exact seqDispatch_append cfg now l l' _

/-- the update loop of the multi arm = dispatching the single-update units one at a time -/
theorem seqDispatch_updUnits (cfg : Cfg) (now : Int) (hdr : Noti) (ha : hdr.atomic = false) :
    ∀ (us : List Upd) (acc : MultiAcc),
      seqDispatch cfg now (us.map (fun u => { hdr with upd := [u], del := [] })) acc =
        multiUpdates cfg now hdr us acc
  | [], _ => rfl
  | u :: us, acc => by
    by_cases hp : acc.panicked = true
    · rw [List.map_cons, seqDispatch_panicked _ _ _ _ hp, multiUpdates_panicked _ _ _ _ _ hp]
    · have hp' : acc.panicked = false := by simpa using hp
      have hd := dispatch_single_upd cfg now acc.t { hdr with upd := [u], del := [] } u ha rfl rfl
      simp only [List.map_cons, seqDispatch, multiUpdates, hp', Bool.false_eq_true, if_false, hd]
      generalize Target.gnmiUpdate1 cfg now acc.t { hdr with upd := [u], del := [] } = g
      obtain ⟨res, t', ev⟩ := g
      cases res <;> cases ev <;>
        simp [singleArm, Res.isErr, seqDispatch_updUnits cfg now hdr ha us]

/-- the delete loop of the multi arm = dispatching the single-delete units one at a time -/
theorem seqDispatch_delUnits (cfg : Cfg) (now : Int) (hdr : Noti) (ha : hdr.atomic = false) :
    ∀ (ds : List Del) (acc : MultiAcc),
      seqDispatch cfg now (ds.map (fun d => { hdr with upd := [], del := [d] })) acc =
        multiDeletes hdr ds acc
  | [], _ => rfl
  | d :: ds, acc => by
    by_cases hp : acc.panicked = true
    · rw [List.map_cons, seqDispatch_panicked _ _ _ _ hp, multiDeletes_panicked _ _ _ hp]
    · have hp' : acc.panicked = false := by simpa using hp
      have hd := dispatch_single_del cfg now acc.t { hdr with upd := [], del := [d] } d ha rfl rfl
      simp only [List.map_cons, seqDispatch, multiDeletes, hp', Bool.false_eq_true, if_false, hd]
      generalize Target.gnmiRemove1 { acc.t with md := { acc.t.md with updated := acc.t.md.updated + 1 } }
        { hdr with upd := [], del := [d] } = g
      obtain ⟨t', evs, pan⟩ := g
      cases pan
      · cases he : evs.isEmpty <;>
          simp [he, Res.isErr, seqDispatch_delUnits cfg now hdr ha ds]
      · simp

/-- one round of the delete loop = the single-delete arm of `dispatch` on the cloned header
(companion of `multiUpdates_round`) -/
theorem multiDeletes_round (cfg : Cfg) (now : Int) (hdr : Noti) (ha : hdr.atomic = false) (d : Del)
    (ds : List Del) (acc : MultiAcc) (hp : acc.panicked = false)
    (hnp : (Target.dispatch cfg now acc.t { hdr with upd := [], del := [d] }).1 ≠ .panic) :
    multiDeletes hdr (d :: ds) acc =
      multiDeletes hdr ds
        { acc with
          t := (Target.dispatch cfg now acc.t { hdr with upd := [], del := [d] }).2.1,
          evs := acc.evs ++ (Target.dispatch cfg now acc.t { hdr with upd := [], del := [d] }).2.2.1 } := by
  have hd := dispatch_single_del cfg now acc.t { hdr with upd := [], del := [d] } d ha rfl rfl
  rw [hd] at hnp ⊢
  conv => lhs; unfold multiDeletes
  simp only [hp, Bool.false_eq_true, if_false]
  generalize Target.gnmiRemove1 { acc.t with md := { acc.t.md with updated := acc.t.md.updated + 1 } }
    { hdr with upd := [], del := [d] } = g at hnp ⊢
  obtain ⟨t', evs, pan⟩ := g
  cases pan
  · cases he : evs.isEmpty <;> simp [he]
  · simp at hnp

/-- what the multi arm of `dispatch` reports from the accumulator of its two loops -/
def report (b : MultiAcc) : Res × Target × List (List Event) × Bool :=
  if b.panicked then (.panic, b.t, b.evs, false)
  else ((if b.anyErr then .err else .ok), b.t, b.evs, b.anyOk)

/-- **Multi = units.**  For every target state `t` (no invariant assumed), configuration and
clock: dispatching a non-atomic notification that carries at least two updates/deletes equals
dispatching its single-update units in order, then its single-delete units, one at a time —
the same target (tree, all metadata counters, flags), the same event groups in the same order,
the same `updateTS` flag; the result is `err` iff some unit returned an error (stale, future or
error), and a panic of a unit is a panic of the whole at the same point. -/
theorem multi_eq_units (cfg : Cfg) (now : Int) (t : Target) (n : Noti) (ha : n.atomic = false)
    (hm : n.upd.length + n.del.length > 1) :
    t.dispatch cfg now n = report (seqDispatch cfg now (updUnits n ++ delUnits n) { t := t }) := by
  have hh : ({ n with upd := [], del := [] } : Noti).atomic = false := ha
  have e1 : updUnits n = n.upd.map (fun u => { ({ n with upd := [], del := [] } : Noti) with upd := [u], del := [] }) := rfl
  have e2 : delUnits n = n.del.map (fun d => { ({ n with upd := [], del := [] } : Noti) with upd := [], del := [d] }) := rfl
  rw [seqDispatch_append, e1, e2, seqDispatch_updUnits cfg now _ hh, seqDispatch_delUnits cfg now _ hh]
  unfold Target.dispatch report
  rw [if_neg (by simp [ha]), if_pos hm]

/-- the components of `multi_eq_units`, spelled out: same tree, same metadata, same events -/
theorem multi_eq_units_components (cfg : Cfg) (now : Int) (t : Target) (n : Noti) (ha : n.atomic = false)
    (hm : n.upd.length + n.del.length > 1) :
    let b := seqDispatch cfg now (updUnits n ++ delUnits n) { t := t }
    (t.dispatch cfg now n).2.1.tree = b.t.tree ∧ (t.dispatch cfg now n).2.1.md = b.t.md ∧
    (t.dispatch cfg now n).2.1.latest = b.t.latest ∧ (t.dispatch cfg now n).2.1.sync = b.t.sync ∧
    (t.dispatch cfg now n).2.2.1 = b.evs := by
  intro b
  rw [multi_eq_units cfg now t n ha hm]
  unfold report
  split <;> exact ⟨rfl, rfl, rfl, rfl, rfl⟩

/-! ## At `Target.GnmiUpdate` level the clause fails with a future threshold -/

/-- notifications handed to `Target.GnmiUpdate` one at a time: final target and all event groups -/
def seqGnmiUpdate (cfg : Cfg) (now : Int) : List Noti → Target × List (List Event) → Target × List (List Event)
  | [], acc => acc
  | m :: ms, acc =>
    seqGnmiUpdate cfg now ms ((acc.1.gnmiUpdate cfg now m).2.1, acc.2 ++ (acc.1.gnmiUpdate cfg now m).2.2)

/-- the full clause at `GnmiUpdate` level (same stored content and same feed) — FALSE of the
model and of the Go code when `cfg.futureThr > 0`, see `multi_ne_units_future` -/
def MultiEqUnitsAtGnmiUpdate : Prop :=
  ∀ (cfg : Cfg) (now : Int) (t : Target) (n : Noti), TInv t → n.target ≠ "" → n.atomic = false →
    n.upd.length + n.del.length > 1 →
    (t.gnmiUpdate cfg now n).2.1.tree = (seqGnmiUpdate cfg now (updUnits n ++ delUnits n) (t, [])).1.tree ∧
    (t.gnmiUpdate cfg now n).2.2 = (seqGnmiUpdate cfg now (updUnits n ++ delUnits n) (t, [])).2

def fcfg : Cfg := { futureThr := 10 }
def fb (ts v : Int) (raw : String) : Upd × Noti :=
  ({ path := ["b"], val := .scalar (.int v), raw := raw },
   { ts := ts, target := "dev", praw := "p", upd := [{ path := ["b"], val := .scalar (.int v), raw := raw }] })
/-- target `dev` holding leaf `b` accepted at timestamp 1 (so `latest = some 1`) -/
def ft : Target := (Target.gnmiUpdate fcfg 0 { name := "dev" } (fb 1 1 "b1").2).2.1
/-- one notification at 100 (clock 0, threshold 10) carrying a new leaf `a` and an update of `b` -/
def fmulti : Noti :=
  { ts := 100, target := "dev", praw := "p",
    upd := [{ path := ["a"], val := .scalar (.int 1), raw := "a1" }, (fb 100 2 "b2").1] }

theorem ft_inv : TInv ft := by
  have := (gnmiUpdate_ok fcfg 0 { name := "dev" } (fb 1 1 "b1").2 (fresh_target_inv "dev") (by decide)).2.1
  exact this

/-- **Deferred `checkTimestamp`, pinned.**  In the multi notification the update of `b` is
rejected as future (result `err`, `b` keeps the unit of timestamp 1, one event: `a`); sent one
at a time, `a` moves the latest timestamp to 100 and `b` is then accepted (`b` holds the unit of
timestamp 100, two events). -/
theorem multi_ne_units_future :
    ft.latest = some 1 ∧
    (ft.gnmiUpdate fcfg 0 fmulti).1 = .err ∧
    lookup (ft.gnmiUpdate fcfg 0 fmulti).2.1.tree ["b"] = some (fb 1 1 "b1").2 ∧
    (ft.gnmiUpdate fcfg 0 fmulti).2.2.length = 1 ∧
    (ft.gnmiUpdate fcfg 0 fmulti).2.1.md.future = 1 ∧
    lookup (seqGnmiUpdate fcfg 0 (updUnits fmulti ++ delUnits fmulti) (ft, [])).1.tree ["b"] =
      some { fmulti with upd := [(fb 100 2 "b2").1] } ∧
    (seqGnmiUpdate fcfg 0 (updUnits fmulti ++ delUnits fmulti) (ft, [])).2.length = 2 ∧
    (seqGnmiUpdate fcfg 0 (updUnits fmulti ++ delUnits fmulti) (ft, [])).1.md.future = 0 := by
  decide

/-- the full clause at `GnmiUpdate` level does not hold -/
theorem not_multiEqUnitsAtGnmiUpdate : ¬ MultiEqUnitsAtGnmiUpdate := by
  intro h
  have h1 := (h fcfg 0 ft fmulti ft_inv (by decide) (by decide) (by decide)).1
  have h2 := multi_ne_units_future.2.2.1
  have h3 := multi_ne_units_future.2.2.2.2.2.1
  rw [h1, h3] at h2
  revert h2
  decide

/-- …while at `dispatch` level the very same notification does agree with its units (instance
of `multi_eq_units`; non-vacuity of its hypotheses) -/
example : ft.dispatch fcfg 0 fmulti =
    report (seqDispatch fcfg 0 (updUnits fmulti ++ delUnits fmulti) { t := ft }) :=
  multi_eq_units fcfg 0 ft fmulti (by decide) (by decide)

/-- a mixed notification: two updates and one wildcard delete -/
def fmixed : Noti :=
  { ts := 5, target := "dev", praw := "p",
    upd := [{ path := ["a"], val := .scalar (.int 1), raw := "a1" }, { path := ["c"], val := .scalar (.int 1), raw := "c1" }],
    del := [{ path := ["*"], raw := "d" }] }

/-- three units, three agreeing event groups -/
example :
    (updUnits fmixed ++ delUnits fmixed).length = 3 ∧
    (ft.dispatch {} 0 fmixed).2.2.1.length = 3 ∧
    (ft.dispatch {} 0 fmixed).2.2.1 = (seqDispatch {} 0 (updUnits fmixed ++ delUnits fmixed) { t := ft }).evs := by
  decide

end C03
end Gnmi
