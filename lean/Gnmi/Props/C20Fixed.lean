import Gnmi.Model.FixedQueue
/-!
# C20 — `FixedQueue` (testing/fake/queue/fixed_queue.go): strict FIFO delivery, delay semantics

Model: `Gnmi/Model/FixedQueue.lean` (validated against the real `FixedQueue` by the `fx`
correspondence component: `go/vcorr/fx.go`, `lean/Driver/FX.lean`).

* **FIFO, exactly the added responses** (`run_conservation`): for every history of `Add` / `Next`
  calls, the responses handed out so far followed by the responses still queued are exactly the
  initial responses followed by the added ones, in that order — nothing lost, duplicated or
  reordered — and no call panics.  Hypothesis `Good`: `checkDelay` is off, or no response is a
  nil entry / an update wrapper with a nil notification (the two shapes `Next` dereferences;
  neither can be read from a text or wire configuration).  Without it a response *is* lost
  (`panic_loses_response`).
* `emits_take`, `after_drop`, `exhausted_nil`: the `n`-call forms.
* **Delay semantics as the code has them**: `next_delay_law` (the one-step law: `lastTS` is the
  running maximum of the update timestamps handed out *while something was still queued
  behind them*; the pending sleep is `max 0 (int64 (next.ts - lastTS))`, `0` before a
  non-update), `next_last_keeps_delay` (handing out the last queued response leaves `delay` and
  `lastTS` untouched: a later `Add` + `Next` sleeps the stale delay again, `stale_delay`),
  `next_nodelay` / `nodelay_never_sleeps` (without `checkDelay` nothing is ever computed),
  `slept_nonneg`, `lastTS_mono`, and `sorted_delays`: for update responses with non-decreasing
  non-negative timestamps the `k`-th `Next` sleeps exactly `ts k - ts (k-1)` — the documented
  behaviour ("sleep for the duration between the timestamps").
-/
namespace Gnmi
namespace C20
open FXQ

variable {α : Type}

/-- shapes `Next` can look at without a nil dereference -/
def goodShape : Shape → Bool
  | .nilResp => false
  | .update none => false
  | _ => true

/-- `checkDelay` is off, or every listed response has a good shape -/
def GoodL (checkDelay : Bool) (l : List (Resp α)) : Prop :=
  checkDelay = false ∨ ∀ r ∈ l, goodShape r.shape = true

def Good (q : FQ α) : Prop := GoodL q.checkDelay q.resp

/-! ## one call -/

theorem next_nil (q : FQ α) (h : q.resp = []) : next q = (.nil, q) := by
  simp only [next, h]

/-- handing out the last queued response touches neither `delay` nor `lastTS` (any shape) -/
theorem next_last_keeps_delay (q : FQ α) (r : Resp α) (h : q.resp = [r]) :
    next q = (.emit r q.delay, { q with resp := [] }) := by
  simp only [next, h]

/-- without `checkDelay` nothing is computed (any shapes) -/
theorem next_nodelay (q : FQ α) (hc : q.checkDelay = false) (r : Resp α) (rest : List (Resp α))
    (h : q.resp = r :: rest) : next q = (.emit r q.delay, { q with resp := rest }) := by
  cases rest with
  | nil => simp only [next, h]
  | cons nx rest => simp [next, h, hc]

/-- **the delay law** of one `Next` with `checkDelay` and something queued behind the head -/
theorem next_delay_law (q : FQ α) (hc : q.checkDelay = true) (r nx : Resp α) (rest : List (Resp α))
    (h : q.resp = r :: nx :: rest) (l d : Int) (hb : bumpLast q.lastTS r.shape = some l)
    (hd : nextDelay l nx.shape = some d) :
    next q = (.emit r q.delay, { q with resp := nx :: rest, lastTS := l, delay := d }) := by
  simp [next, h, hc, hb, hd]

theorem bumpLast_good (last : Int) (s : Shape) (h : goodShape s = true) :
    ∃ l, bumpLast last s = some l ∧ last ≤ l := by
  match s, h with
  | .update (some ts), _ =>
    refine ⟨_, rfl, ?_⟩
    split <;> omega
  | .other, _ => exact ⟨_, rfl, Int.le_refl _⟩

theorem nextDelay_good (last : Int) (s : Shape) (h : goodShape s = true) :
    ∃ d, nextDelay last s = some d ∧ 0 ≤ d := by
  match s, h with
  | .update (some ts), _ =>
    refine ⟨_, rfl, ?_⟩
    split <;> omega
  | .other, _ => exact ⟨_, rfl, Int.le_refl _⟩

/-- one `Next` on a `Good` queue with a head: the head comes out, after sleeping the pending
delay; the rest stays queued in order; the flags and signs are kept -/
theorem next_good (q : FQ α) (hg : Good q) (r : Resp α) (rest : List (Resp α)) (h : q.resp = r :: rest) :
    ∃ q', next q = (.emit r q.delay, q') ∧ q'.resp = rest ∧ q'.checkDelay = q.checkDelay ∧
      q.lastTS ≤ q'.lastTS ∧ (0 ≤ q.delay → 0 ≤ q'.delay) := by
  cases hc : q.checkDelay with
  | false =>
    exact ⟨_, next_nodelay q hc r rest h, rfl, hc, Int.le_refl _, fun x => x⟩
  | true =>
    cases rest with
    | nil => exact ⟨_, next_last_keeps_delay q r h, rfl, hc, Int.le_refl _, fun x => x⟩
    | cons nx rest =>
      have hall : ∀ x ∈ q.resp, goodShape x.shape = true := by
        rcases hg with hg | hg
        · rw [hc] at hg; cases hg
        · exact hg
      rw [h] at hall
      obtain ⟨l, hb, hl⟩ := bumpLast_good q.lastTS r.shape (hall r (by simp))
      obtain ⟨d, hd, hd0⟩ := nextDelay_good l nx.shape (hall nx (by simp))
      exact ⟨_, next_delay_law q hc r nx rest h l d hb hd, rfl, hc, hl, fun _ => hd0⟩

theorem good_of_next (q : FQ α) (hg : Good q) : Good (next q).2 := by
  cases h : q.resp with
  | nil => rw [next_nil q h]; exact hg
  | cons r rest =>
    obtain ⟨q', hn, h1, h2, _⟩ := next_good q hg r rest h
    rw [hn]
    unfold Good
    rw [h1, h2]
    rcases hg with hg | hg
    · exact Or.inl hg
    · exact Or.inr (fun x hx => hg x (by rw [h]; exact List.mem_cons_of_mem _ hx))

/-- **no panic**: `Next` on a `Good` queue never panics -/
theorem next_no_panic (q : FQ α) (hg : Good q) : (next q).1 ≠ .panic := by
  cases h : q.resp with
  | nil => rw [next_nil q h]; simp
  | cons r rest =>
    obtain ⟨q', hn, _⟩ := next_good q hg r rest h
    rw [hn]; simp

/-! ## histories -/

/-- the responses a history adds, in order -/
def addsOf : List (Op α) → List (Resp α)
  | [] => []
  | .add r :: ops => r :: addsOf ops
  | .next :: ops => addsOf ops

def handed (l : List (Res α)) : List (Resp α) := l.filterMap Res.emitted?

theorem handed_nil (l : List (Res α)) : handed (Res.nil :: l) = handed l := rfl
theorem handed_emit (r : Resp α) (d : Int) (l : List (Res α)) : handed (Res.emit r d :: l) = r :: handed l := rfl

/-- **FIFO / exactly the added responses.**  For every history of `Add` and `Next` calls on a
queue created with any initial list: (handed out so far) ++ (still queued) = (initial) ++
(added), as lists; and no call panicked. -/
theorem run_conservation (ops : List (Op α)) : ∀ (q : FQ α), Good q → GoodL q.checkDelay (addsOf ops) →
    handed (run q ops).1 ++ (run q ops).2.resp = q.resp ++ addsOf ops ∧
    (∀ r ∈ (run q ops).1, r ≠ .panic) ∧ (run q ops).2.checkDelay = q.checkDelay := by
  induction ops with
  | nil => intro q _ _; simp [run, handed, addsOf]
  | cons op ops ih =>
    intro q hg ha
    cases op with
    | add r =>
      have hg' : Good (add q r) := by
        rcases hg with hg | hg
        · exact Or.inl hg
        · rcases ha with ha | ha
          · exact Or.inl ha
          · refine Or.inr ?_
            intro x hx
            simp only [add, List.mem_append, List.mem_singleton] at hx
            rcases hx with hx | rfl
            · exact hg x hx
            · exact ha x (by simp [addsOf])
      have ha' : GoodL (add q r).checkDelay (addsOf ops) := by
        rcases ha with ha | ha
        · exact Or.inl ha
        · exact Or.inr (fun x hx => ha x (by simp [addsOf, hx]))
      obtain ⟨h1, h2, h3⟩ := ih (add q r) hg' ha'
      simp only [run, addsOf]
      refine ⟨?_, h2, h3⟩
      rw [h1]
      simp [add]
    | next =>
      have hn := next_no_panic q hg
      have hg' := good_of_next q hg
      cases h : q.resp with
      | nil =>
        have hq := next_nil q h
        have ha' : GoodL (next q).2.checkDelay (addsOf ops) := by rw [hq]; exact ha
        obtain ⟨h1, h2, h3⟩ := ih (next q).2 hg' ha'
        simp only [run, addsOf]
        rw [hq] at h1 h2 h3 ⊢
        simp only [h] at h1
        refine ⟨?_, ?_, h3⟩
        · rw [handed_nil]; simpa using h1
        · intro x hx
          rcases List.mem_cons.mp hx with rfl | hx
          · simp
          · exact h2 x hx
      | cons r rest =>
        obtain ⟨q', hq, e1, e2, _⟩ := next_good q hg r rest h
        have ha' : GoodL (next q).2.checkDelay (addsOf ops) := by
          rw [hq]; show GoodL q'.checkDelay _; rw [e2]; exact ha
        obtain ⟨h1, h2, h3⟩ := ih (next q).2 hg' ha'
        simp only [run, addsOf]
        rw [hq] at h1 h2 h3 ⊢
        simp only [e1] at h1
        refine ⟨?_, ?_, h3.trans e2⟩
        · rw [handed_emit, List.cons_append, h1]; rfl
        · intro x hx
          rcases List.mem_cons.mp hx with rfl | hx
          · simp
          · exact h2 x hx

/-- `n` calls of `Next` are the history `next, …, next` -/
theorem run_replicate (n : Nat) : ∀ (q : FQ α),
    run q (List.replicate n Op.next) = (results n q, after n q) := by
  induction n with
  | zero => intro q; rfl
  | succ n ih => intro q; simp only [List.replicate_succ, run, ih, results, after]

theorem addsOf_replicate (n : Nat) : addsOf (List.replicate n (Op.next : Op α)) = [] := by
  induction n with
  | zero => rfl
  | succ n ih => simpa [List.replicate_succ, addsOf] using ih

/-- the first `n` calls hand out the first `n` queued responses, in order … -/
theorem emits_take (n : Nat) : ∀ (q : FQ α), Good q → emits n q = q.resp.take n := by
  induction n with
  | zero => intro q _; simp [emits, results]
  | succ n ih =>
    intro q hg
    cases h : q.resp with
    | nil =>
      have hq := next_nil q h
      have := ih q hg
      simp only [emits, results, hq, List.filterMap_cons, Res.emitted?] at this ⊢
      rw [this, h]; simp
    | cons r rest =>
      obtain ⟨q', hq, e1, _⟩ := next_good q hg r rest h
      have hg' := good_of_next q hg
      rw [hq] at hg'
      have := ih q' hg'
      simp only [emits, results, hq, List.filterMap_cons, Res.emitted?, List.take_succ_cons] at this ⊢
      rw [this, e1]

/-- … and leave the others queued, in order -/
theorem after_drop (n : Nat) : ∀ (q : FQ α), Good q → (after n q).resp = q.resp.drop n := by
  induction n with
  | zero => intro q _; rfl
  | succ n ih =>
    intro q hg
    have hg' := good_of_next q hg
    cases h : q.resp with
    | nil =>
      have hq := next_nil q h
      simp only [after]
      rw [ih _ hg', hq, h]; simp
    | cons r rest =>
      obtain ⟨q', hq, e1, _⟩ := next_good q hg r rest h
      simp only [after]
      rw [ih _ hg', hq, e1]; simp

/-- once everything was handed out `Next` returns nil (until something is added) -/
theorem exhausted_nil (n : Nat) (q : FQ α) (hg : Good q) (hn : q.resp.length ≤ n) :
    next (after n q) = (.nil, after n q) := by
  apply next_nil
  rw [after_drop n q hg]
  exact List.drop_eq_nil_of_le hn

/-! ## delay -/

/-- the pending sleep is never negative, the last timestamp never decreases -/
theorem slept_nonneg (n : Nat) : ∀ (q : FQ α), Good q → 0 ≤ q.delay →
    (∀ r x d, r ∈ results n q → r = .emit x d → 0 ≤ d) ∧ 0 ≤ (after n q).delay ∧
    q.lastTS ≤ (after n q).lastTS := by
  induction n with
  | zero => intro q _ h0; exact ⟨by simp [results], h0, Int.le_refl _⟩
  | succ n ih =>
    intro q hg h0
    have hg' := good_of_next q hg
    cases h : q.resp with
    | nil =>
      have hq := next_nil q h
      obtain ⟨a, b, c⟩ := ih q hg h0
      simp only [results, after, hq]
      refine ⟨?_, b, c⟩
      intro r x d hr he
      rcases List.mem_cons.mp hr with rfl | hr
      · cases he
      · exact a r x d hr he
    | cons r rest =>
      obtain ⟨q', hq, _, _, e3, e4⟩ := next_good q hg r rest h
      rw [hq] at hg'
      obtain ⟨a, b, c⟩ := ih q' hg' (e4 h0)
      simp only [results, after, hq]
      refine ⟨?_, b, Int.le_trans e3 c⟩
      intro r' x d hr he
      rcases List.mem_cons.mp hr with rfl | hr
      · cases he; exact h0
      · exact a r' x d hr he

theorem lastTS_mono (n : Nat) (q : FQ α) (hg : Good q) (h0 : 0 ≤ q.delay) :
    q.lastTS ≤ (after n q).lastTS := (slept_nonneg n q hg h0).2.2

/-- a queue created by `NewFixed(resp, false)` never sleeps, whatever is queued or added -/
theorem nodelay_never_sleeps (ops : List (Op α)) : ∀ (q : FQ α), q.checkDelay = false → q.delay = 0 →
    ∀ r x d, r ∈ (run q ops).1 → r = .emit x d → d = 0 := by
  induction ops with
  | nil => intro q _ _ r x d hr; simp [run] at hr
  | cons op ops ih =>
    intro q hc h0 r x d hr he
    cases op with
    | add a => exact ih (add q a) hc h0 r x d hr he
    | next =>
      simp only [run] at hr
      cases h : q.resp with
      | nil =>
        rw [next_nil q h] at hr
        rcases List.mem_cons.mp hr with rfl | hr
        · cases he
        · exact ih q hc h0 r x d hr he
      | cons y rest =>
        rw [next_nodelay q hc y rest h] at hr
        rcases List.mem_cons.mp hr with rfl | hr
        · cases he; exact h0
        · exact ih { q with resp := rest } hc h0 r x d hr he

theorem wrap64_id (x : Int) (h1 : -9223372036854775808 ≤ x) (h2 : x < 9223372036854775808) :
    wrap64 x = x := by
  unfold wrap64; omega

/-- timestamp of an update response (0 for anything else) -/
def tsOf (r : Resp α) : Int :=
  match r.shape with
  | .update (some t) => t
  | _ => 0

/-- the intended result list: the first response after the pending delay, every later one after
the gap to its predecessor -/
def expected : Int → List (Resp α) → List (Res α)
  | _, [] => []
  | d, [r] => [.emit r d]
  | d, r :: nx :: rest => .emit r d :: expected (tsOf nx - tsOf r) (nx :: rest)

/-- **Documented delay behaviour.**  With `checkDelay`, for update responses whose timestamps
are non-decreasing, at least `lastTS` (0 for a new queue) and within `int64`, the `k`-th `Next`
sleeps exactly the gap between the timestamps of response `k-1` and response `k`. -/
theorem sorted_delays : ∀ (l : List (Resp α)) (q : FQ α), q.resp = l → q.checkDelay = true → 0 ≤ q.lastTS →
    (∀ r ∈ l, ∃ t, r.shape = .update (some t) ∧ t < 9223372036854775808) →
    (l.map tsOf).Pairwise (· ≤ ·) → (∀ r, l.head? = some r → q.lastTS ≤ tsOf r) →
    results l.length q = expected q.delay l
  | [], q, h, _, _, _, _, _ => by simp [results, expected]
  | [r], q, h, _, _, _, _, _ => by
    simp only [List.length_singleton, results, next_last_keeps_delay q r h, expected]
  | r :: nx :: rest, q, h, hc, h0, hall, hs, hl => by
    obtain ⟨tr, hr, _⟩ := hall r (by simp)
    obtain ⟨tn, hn, hn2⟩ := hall nx (by simp)
    have htr : tsOf r = tr := by simp [tsOf, hr]
    have htn : tsOf nx = tn := by simp [tsOf, hn]
    have hlr : q.lastTS ≤ tr := by rw [← htr]; exact hl r rfl
    have hrn : tr ≤ tn := by
      simp only [List.map_cons, List.pairwise_cons] at hs
      rw [← htr, ← htn]; exact hs.1 (tsOf nx) (by simp)
    have hb : bumpLast q.lastTS r.shape = some tr := by
      rw [hr]; simp only [bumpLast]
      split
      · rfl
      · congr 1; omega
    have hd : nextDelay tr nx.shape = some (tn - tr) := by
      rw [hn]; simp only [nextDelay]
      rw [wrap64_id (tn - tr) (by omega) (by omega)]
      split
      · omega
      · rfl
    have hq := next_delay_law q hc r nx rest h tr (tn - tr) hb hd
    have ih := sorted_delays (nx :: rest) { q with resp := nx :: rest, lastTS := tr, delay := tn - tr } rfl hc
      (by simp only; omega) (fun x hx => hall x (List.mem_cons_of_mem _ hx))
      (by simp only [List.map_cons, List.pairwise_cons] at hs ⊢; exact hs.2)
      (by intro x hx; simp only [List.head?_cons, Option.some.injEq] at hx; subst hx; simp only; omega)
    simp only [List.length_cons, results, hq, expected, htr, htn] at ih ⊢
    rw [ih]

/-! ## witnesses (the same sequences are corpus cases replayed on the real `FixedQueue`) -/

def u (tag : Nat) (ts : Int) : Resp Nat := { tag := tag, shape := .update (some ts) }

/-- the delay computed before the last response is slept again after a later `Add`
(`corpus/C20/fx_fifo_and_delay.ops`) -/
theorem stale_delay :
    (run (newFixed [u 0 10, u 1 30] true) [.next, .next, .next, .add (u 2 31), .next]).1 =
      [.emit (u 0 10) 0, .emit (u 1 30) 20, .nil, .emit (u 2 31) 20] := by decide

/-- without `Good` a response is lost: `u3` is removed from the queue by the call that panics
on the nil entry behind it, and never handed out -/
theorem panic_loses_response :
    (run (newFixed [u 0 5, { tag := 1, shape := .nilResp }, u 2 9] true) [.next, .next, .next]).1 =
      [.panic, .panic, .emit (u 2 9) 0] := by decide

/-- the `int64` subtraction wraps: a timestamp `2^63` below `lastTS` yields a 292-year sleep -/
theorem delay_wraps :
    (next (newFixed [u 0 1, u 1 (-9223372036854775808)] true)).2.delay = 9223372036854775807 := by decide

/-- non-vacuity of `sorted_delays` / `run_conservation` -/
example : results 3 (newFixed [u 0 10, u 1 30, u 2 30] true) =
    [.emit (u 0 10) 0, .emit (u 1 30) 20, .emit (u 2 30) 0] := by decide
example : Good (newFixed [u 0 10, { tag := 1, shape := .other }, u 2 30] true) :=
  Or.inr (by decide)

end C20
end Gnmi
