import Gnmi.Props.C16
/-!
# C16 — progress of the shared dial, in run form

`Props/C16.lean` proves the safety clauses of `connection.Manager`.  This file adds the
progress clause that was missing: **every requester blocked in `<-c.ready` is woken**, i.e.
the dial goroutine of every `connection` object always reaches `close(c.ready)`, whatever the
other goroutines do meanwhile (the class of defects "dial returns before `close(c.ready)`").

Everything is about the existing LTS `Gnmi.Conn` (`Model/ConnLTS.lean`: `step`, `run`,
`Reach`).  Vocabulary:

* `dialOf l = some o` — label `l` is an atomic section of the dial goroutine of object `o`
  (`d1a o`, `d1b o out`, `d2 o`, `d3 o`); `reqOf l = some r` — `l` is an atomic section of
  requester `r` (`r0..r3`, `done`); `start`/`cancel` are the environment's.
* `dialRank` — a variant of the dial goroutine's program counter:
  `start 4 > dialing 3 > failing 2 > closing 1 > fin 0`; `ready ↔ fin ↔ rank 0`.

The theorems, for every reachable configuration (any number of requesters / addresses, any
interleaving, any dial outcomes, cancellations at any moment):

* `dial_enabled` — the dial goroutine of a not yet ready object is never blocked: one of its
  steps is enabled (the Dial function returns *some* outcome; the failure path's `remove`
  does not panic);
* `dial_rank_decreases` — each of its steps strictly decreases `dialRank`;
* `others_keep_dial` / `dial_step_persists` — no step of any other thread (requesters, the
  dial goroutines of other objects — including their `remove` —, the environment) changes
  the pc of `o`'s dialer or disables an enabled step of it;
* `dial_steps_bound` (∀ schedules) — along **any** schedule, `rank after + number of o's
  dial steps taken ≤ rank before`; so after 4 dial steps of `o`, in any interleaving, `o` is
  ready (`ready_after_four`);
* `dial_completes`, `waiter_woken` (∃ run) — a run of at most `dialRank ≤ 4` steps, all of
  them `o`'s dialer's, makes `o` ready, after which the waiter's `<-c.ready` fires;
* `waiter_pc_stable`, `waiter_woken_fair` (∀ schedules, the weak-fairness leads-to) — at the
  end of every schedule in which the waiter has not yet taken its `r2` step it is still
  waiting on the same object and *either* the object is ready and `r2` is enabled (and stays
  so: `ready_wake_stable`), *or* fewer than 4 dial steps of `o` have been taken and a dial
  step of `o` is enabled.  A run in which the waiter is never woken therefore leaves, from
  some point on, one thread (the dialer, then the waiter) continuously enabled and never
  scheduled: it is not weakly fair.
-/
namespace Gnmi
namespace C16
open Conn

/-- variant of the dial goroutine's program counter -/
def dialRank : DPc → Nat
  | .start => 4
  | .dialing _ => 3
  | .failing _ => 2
  | .closing => 1
  | .fin => 0

/-- the object whose dial goroutine executes this atomic section -/
def dialOf : Label → Option Nat
  | .d1a o => some o
  | .d1b o _ => some o
  | .d2 o => some o
  | .d3 o => some o
  | _ => none

/-- the requester that executes this atomic section -/
def reqOf : Label → Option Nat
  | .r0 r => some r
  | .r1 r => some r
  | .r2 r => some r
  | .r3 r => some r
  | .done r => some r
  | _ => none

theorem dialRank_zero_iff (p : DPc) : dialRank p = 0 ↔ p = .fin := by
  cases p <;> simp [dialRank]

theorem dialRank_le_four (p : DPc) : dialRank p ≤ 4 := by
  cases p <;> simp [dialRank]

/-! ## frames: what a step leaves alone -/

/-- every object except (possibly) `ex` keeps the pc of its dial goroutine and the identity of
its creator; no object is deallocated -/
def OFrame (ex : Option Nat) (c c' : Cfg) : Prop :=
  ∀ (o : Nat) (ob : Obj), c.objs[o]? = some ob → ex ≠ some o →
    ∃ ob' : Obj, c'.objs[o]? = some ob' ∧ ob'.dpc = ob.dpc ∧ ob'.creator = ob.creator

theorem OFrame.same {c c' : Cfg} (ex : Option Nat) (h : c'.objs = c.objs) : OFrame ex c c' := by
  intro o ob ho _
  exact ⟨ob, by rw [h]; exact ho, rfl, rfl⟩

theorem OFrame.trans {ex : Option Nat} {a b c : Cfg} (h1 : OFrame ex a b) (h2 : OFrame ex b c) :
    OFrame ex a c := by
  intro o ob ho hx
  obtain ⟨ob1, g1, g2, g3⟩ := h1 o ob ho hx
  obtain ⟨ob2, k1, k2, k3⟩ := h2 o ob1 g1 hx
  exact ⟨ob2, k1, k2.trans g2, k3.trans g3⟩

theorem OFrame.set_keep {c c' : Cfg} (ex : Option Nat) {o0 : Nat} {ob0 ob2 : Obj}
    (ho0 : c.objs[o0]? = some ob0) (h : c'.objs = c.objs.set o0 ob2)
    (hd : ob2.dpc = ob0.dpc) (hc : ob2.creator = ob0.creator) : OFrame ex c c' := by
  intro o ob ho _
  rw [h, getElem?_set_of ho0]
  by_cases e : o = o0
  · subst e
    rw [ho0] at ho; cases ho
    exact ⟨ob2, by simp, hd, hc⟩
  · exact ⟨ob, by simp [e, ho], rfl, rfl⟩

theorem OFrame.set_ex {c c' : Cfg} {o0 : Nat} {ob0 ob2 : Obj}
    (ho0 : c.objs[o0]? = some ob0) (h : c'.objs = c.objs.set o0 ob2) : OFrame (some o0) c c' := by
  intro o ob ho hx
  rw [h, getElem?_set_of ho0]
  have e : o ≠ o0 := fun e => hx (by rw [e])
  exact ⟨ob, by simp [e, ho], rfl, rfl⟩

theorem OFrame.push {c c' : Cfg} (ex : Option Nat) {x : Obj} (h : c'.objs = c.objs ++ [x]) :
    OFrame ex c c' := by
  intro o ob ho _
  have : o ≠ c.objs.length := Nat.ne_of_lt (lt_of_getElem? ho)
  exact ⟨ob, by simp [h, getElem?_push, this, ho], rfl, rfl⟩

/-- `m.remove(a)` touches only `closed` of the object registered under `a` -/
theorem remove_oframe (ex : Option Nat) (c : Cfg) (a : Addr) : OFrame ex c (remove c a) := by
  unfold remove
  split
  · exact OFrame.same ex rfl
  · split
    · exact OFrame.same ex rfl
    · rename_i o _ ob ho
      refine OFrame.set_keep ex ho rfl ?_ ?_ <;> (split <;> rfl)

theorem remove_reqs (c : Cfg) (a : Addr) : (remove c a).reqs = c.reqs := by
  unfold remove
  split
  · rfl
  · split <;> rfl

/-- every requester except (possibly) `ex` keeps its pc; a cancelled context stays cancelled;
no requester disappears -/
def RFrame (ex : Option Nat) (c c' : Cfg) : Prop :=
  ∀ (r : Nat) (q : Req), c.reqs[r]? = some q →
    ∃ q' : Req, c'.reqs[r]? = some q' ∧ (q.cancelled = true → q'.cancelled = true) ∧
      (ex ≠ some r → q'.pc = q.pc)

theorem RFrame.same {c c' : Cfg} (ex : Option Nat) (h : c'.reqs = c.reqs) : RFrame ex c c' := by
  intro r q hq
  exact ⟨q, by rw [h]; exact hq, id, fun _ => rfl⟩

theorem RFrame.set_ex {c c' : Cfg} {r0 : Nat} {q0 q2 : Req}
    (hq0 : c.reqs[r0]? = some q0) (h : c'.reqs = c.reqs.set r0 q2)
    (hc : q0.cancelled = true → q2.cancelled = true) : RFrame (some r0) c c' := by
  intro r q hq
  rw [h, getElem?_set_of hq0]
  by_cases e : r = r0
  · subst e
    rw [hq0] at hq; cases hq
    exact ⟨q2, by simp, hc, fun hx => absurd rfl hx⟩
  · exact ⟨q, by simp [e, hq], id, fun _ => rfl⟩

theorem RFrame.set_keep {c c' : Cfg} (ex : Option Nat) {r0 : Nat} {q0 q2 : Req}
    (hq0 : c.reqs[r0]? = some q0) (h : c'.reqs = c.reqs.set r0 q2)
    (hc : q0.cancelled = true → q2.cancelled = true) (hp : q2.pc = q0.pc) : RFrame ex c c' := by
  intro r q hq
  rw [h, getElem?_set_of hq0]
  by_cases e : r = r0
  · subst e
    rw [hq0] at hq; cases hq
    exact ⟨q2, by simp, hc, fun _ => hp⟩
  · exact ⟨q, by simp [e, hq], id, fun _ => rfl⟩

theorem RFrame.push {c c' : Cfg} (ex : Option Nat) {x : Req} (h : c'.reqs = c.reqs ++ [x]) :
    RFrame ex c c' := by
  intro r q hq
  have : r ≠ c.reqs.length := Nat.ne_of_lt (lt_of_getElem? hq)
  exact ⟨q, by simp [h, getElem?_push, this, hq], id, fun _ => rfl⟩

/-! ## what one transition does to the dial goroutines and to the requesters -/

/-- A transition changes the dial pc (and the creator) of no object other than the one whose
dial goroutine takes the step — in particular requesters' steps and `remove` change none. -/
theorem step_oframe {c c' : Cfg} {l : Label} (hinv : Inv c) (h : step c l = some c') :
    OFrame (dialOf l) c c' := by
  unfold step at h
  rw [hinv.nopanic] at h
  simp only [Bool.false_eq_true, ↓reduceIte] at h
  cases l with
  | start a dk cn =>
    simp only [stepL, Option.some.injEq] at h
    subst h; exact OFrame.same _ rfl
  | cancel r =>
    simp only [stepL] at h
    split at h <;> try (cases h; done)
    cases h; exact OFrame.same _ rfl
  | r0 r =>
    simp only [stepL] at h
    split at h <;> try (cases h; done)
    split at h <;> try (cases h; done)
    cases h; exact OFrame.same _ rfl
  | r1 r =>
    simp only [stepL] at h
    split at h <;> try (cases h; done)
    rename_i q hq
    split at h <;> try (cases h; done)
    cases h
    unfold doR1
    split
    · split
      · rename_i ob ho
        exact OFrame.set_keep _ ho rfl rfl rfl
      · exact OFrame.same _ rfl
    · exact OFrame.push _ rfl
  | r2 r =>
    simp only [stepL] at h
    split at h <;> try (cases h; done)
    split at h <;> try (cases h; done)
    split at h <;> try (cases h; done)
    split at h <;> try (cases h; done)
    cases h; exact OFrame.same _ rfl
  | r3 r =>
    simp only [stepL] at h
    split at h <;> try (cases h; done)
    split at h <;> try (cases h; done)
    split at h <;> try (cases h; done)
    split at h <;> (cases h; exact OFrame.same _ rfl)
  | done r =>
    simp only [stepL] at h
    split at h <;> try (cases h; done)
    rename_i q hq
    split at h <;> try (cases h; done)
    · cases h; exact OFrame.same _ rfl
    · cases h; exact OFrame.same _ rfl
    · rename_i o hpc
      split at h <;> try (cases h; done)
      rename_i ob ho
      cases h
      unfold doDone
      have h1 : OFrame (dialOf (.done r)) c { c with objs := c.objs.set o { ob with ref := ob.ref - 1 }, reqs := c.reqs.set r { q with pc := .held o true } } :=
        OFrame.set_keep _ ho rfl rfl rfl
      split
      · exact h1.trans (remove_oframe _ _ _)
      · exact h1
  | d1a o =>
    simp only [stepL] at h
    split at h <;> try (cases h; done)
    rename_i ob ho
    split at h <;> try (cases h; done)
    split at h <;> (cases h; exact OFrame.set_ex ho rfl)
  | d1b o out =>
    simp only [stepL] at h
    split at h <;> try (cases h; done)
    rename_i ob ho
    split at h <;> try (cases h; done)
    split at h
    · cases h; exact OFrame.set_ex ho rfl
    · cases h; exact OFrame.set_ex ho rfl
    · split at h <;> try (cases h; done)
      split at h <;> try (cases h; done)
      cases h; exact OFrame.set_ex ho rfl
  | d2 o =>
    simp only [stepL] at h
    split at h <;> try (cases h; done)
    rename_i ob ho
    split at h <;> try (cases h; done)
    rename_i e hpc
    cases h
    rw [doD2_eq hinv ho hpc]
    exact OFrame.set_ex ho rfl
  | d3 o =>
    simp only [stepL] at h
    split at h <;> try (cases h; done)
    rename_i ob ho
    split at h <;> try (cases h; done)
    cases h; exact OFrame.set_ex ho rfl

/-- A transition changes the pc of no requester other than the one that takes the step;
contexts stay cancelled; dial steps and the environment's steps change no requester pc. -/
theorem step_rframe {c c' : Cfg} {l : Label} (hinv : Inv c) (h : step c l = some c') :
    RFrame (reqOf l) c c' := by
  unfold step at h
  rw [hinv.nopanic] at h
  simp only [Bool.false_eq_true, ↓reduceIte] at h
  cases l with
  | start a dk cn =>
    simp only [stepL, Option.some.injEq] at h
    subst h; exact RFrame.push _ rfl
  | cancel r =>
    simp only [stepL] at h
    split at h <;> try (cases h; done)
    rename_i q hq
    cases h; exact RFrame.set_keep _ hq rfl (fun _ => rfl) rfl
  | r0 r =>
    simp only [stepL] at h
    split at h <;> try (cases h; done)
    rename_i q hq
    split at h <;> try (cases h; done)
    cases h; exact RFrame.set_ex hq rfl id
  | r1 r =>
    simp only [stepL] at h
    split at h <;> try (cases h; done)
    rename_i q hq
    split at h <;> try (cases h; done)
    cases h
    unfold doR1
    split
    · split
      · exact RFrame.set_ex hq rfl id
      · exact RFrame.same _ rfl
    · exact RFrame.set_ex hq rfl id
  | r2 r =>
    simp only [stepL] at h
    split at h <;> try (cases h; done)
    rename_i q hq
    split at h <;> try (cases h; done)
    split at h <;> try (cases h; done)
    split at h <;> try (cases h; done)
    cases h; exact RFrame.set_ex hq rfl id
  | r3 r =>
    simp only [stepL] at h
    split at h <;> try (cases h; done)
    rename_i q hq
    split at h <;> try (cases h; done)
    split at h <;> try (cases h; done)
    split at h <;> (cases h; exact RFrame.set_ex hq rfl id)
  | done r =>
    simp only [stepL] at h
    split at h <;> try (cases h; done)
    rename_i q hq
    split at h <;> try (cases h; done)
    · cases h; exact RFrame.same _ rfl
    · cases h; exact RFrame.same _ rfl
    · rename_i o hpc
      split at h <;> try (cases h; done)
      rename_i ob ho
      cases h
      unfold doDone
      have h1 : RFrame (reqOf (.done r)) c { c with objs := c.objs.set o { ob with ref := ob.ref - 1 }, reqs := c.reqs.set r { q with pc := .held o true } } :=
        RFrame.set_ex hq rfl id
      split
      · intro r' q' hq'
        obtain ⟨q2, g1, g2, g3⟩ := h1 r' q' hq'
        exact ⟨q2, by rw [remove_reqs]; exact g1, g2, g3⟩
      · exact h1
  | d1a o =>
    simp only [stepL] at h
    split at h <;> try (cases h; done)
    split at h <;> try (cases h; done)
    split at h <;> (cases h; exact RFrame.same _ rfl)
  | d1b o out =>
    simp only [stepL] at h
    split at h <;> try (cases h; done)
    split at h <;> try (cases h; done)
    split at h
    · cases h; exact RFrame.same _ rfl
    · cases h; exact RFrame.same _ rfl
    · split at h <;> try (cases h; done)
      split at h <;> try (cases h; done)
      cases h; exact RFrame.same _ rfl
  | d2 o =>
    simp only [stepL] at h
    split at h <;> try (cases h; done)
    rename_i ob ho
    split at h <;> try (cases h; done)
    rename_i e hpc
    cases h
    rw [doD2_eq hinv ho hpc]
    exact RFrame.same _ rfl
  | d3 o =>
    simp only [stepL] at h
    split at h <;> try (cases h; done)
    split at h <;> try (cases h; done)
    cases h; exact RFrame.same _ rfl

/-! ## the dial goroutine is never blocked, and its variant decreases -/

theorem set_self {α : Type} {l : List α} {i : Nat} {x : α} (h : l[i]? = some x) (a : α) :
    (l.set i a)[i]? = some a := by simp [getElem?_set_of h]

/-- In every reachable configuration the dial goroutine of an object that is not yet ready
has an enabled step: the dialer lookup, the return of the Dial function (with outcome `ok`,
say — the environment may choose another), the locked failure path (`remove` finds the
object registered: no panic), or `close(c.ready)`. -/
theorem dial_enabled {c : Cfg} (h : Reach c) {o : Nat} {ob : Obj} (ho : c.objs[o]? = some ob)
    (hnr : ob.ready = false) : ∃ l c', dialOf l = some o ∧ step c l = some c' := by
  have hinv := inv_reach h
  cases hpc : ob.dpc with
  | start =>
    cases hd : ob.dialerOK with
    | true => exact ⟨.d1a o, _, rfl, by simp [step, hinv.nopanic, stepL, ho, hpc, hd]; rfl⟩
    | false => exact ⟨.d1a o, _, rfl, by simp [step, hinv.nopanic, stepL, ho, hpc, hd]; rfl⟩
  | dialing n => exact ⟨.d1b o .ok, _, rfl, by simp [step, hinv.nopanic, stepL, ho, hpc]; rfl⟩
  | failing e => exact ⟨.d2 o, _, rfl, by simp [step, hinv.nopanic, stepL, ho, hpc]; rfl⟩
  | closing => exact ⟨.d3 o, _, rfl, by simp [step, hinv.nopanic, stepL, ho, hpc]; rfl⟩
  | fin =>
    have := ((hinv.objs o ob ho).ready_iff).mpr hpc
    rw [hnr] at this; cases this

/-- Every step of the dial goroutine of `o` strictly decreases its variant (so it takes at
most 4 steps), and its last step (`closing → fin`) is the one that makes the object ready. -/
theorem dial_rank_decreases {c c' : Cfg} {l : Label} (h : Reach c) (hs : step c l = some c')
    {o : Nat} (hl : dialOf l = some o) {ob : Obj} (ho : c.objs[o]? = some ob) :
    ∃ ob' : Obj, c'.objs[o]? = some ob' ∧ dialRank ob'.dpc < dialRank ob.dpc := by
  have hinv := inv_reach h
  unfold step at hs
  rw [hinv.nopanic] at hs
  simp only [Bool.false_eq_true, ↓reduceIte] at hs
  cases l with
  | start a dk cn => cases hl
  | cancel r => cases hl
  | r0 r => cases hl
  | r1 r => cases hl
  | r2 r => cases hl
  | r3 r => cases hl
  | done r => cases hl
  | d1a o' =>
    simp only [dialOf, Option.some.injEq] at hl; subst hl
    simp only [stepL, ho] at hs
    split at hs <;> try (cases hs; done)
    rename_i hpc
    split at hs <;> (cases hs; exact ⟨_, set_self ho _, by simp [hpc, dialRank]⟩)
  | d1b o' out =>
    simp only [dialOf, Option.some.injEq] at hl; subst hl
    simp only [stepL, ho] at hs
    split at hs <;> try (cases hs; done)
    rename_i n hpc
    split at hs
    · cases hs; exact ⟨_, set_self ho _, by simp [hpc, dialRank]⟩
    · cases hs; exact ⟨_, set_self ho _, by simp [hpc, dialRank]⟩
    · split at hs <;> try (cases hs; done)
      split at hs <;> try (cases hs; done)
      cases hs; exact ⟨_, set_self ho _, by simp [hpc, dialRank]⟩
  | d2 o' =>
    simp only [dialOf, Option.some.injEq] at hl; subst hl
    simp only [stepL, ho] at hs
    split at hs <;> try (cases hs; done)
    rename_i e hpc
    cases hs
    rw [doD2_eq hinv ho hpc]
    exact ⟨_, set_self ho _, by simp [hpc, dialRank]⟩
  | d3 o' =>
    simp only [dialOf, Option.some.injEq] at hl; subst hl
    simp only [stepL, ho] at hs
    split at hs <;> try (cases hs; done)
    rename_i hpc
    cases hs
    exact ⟨_, set_self ho _, by simp [hpc, dialRank]⟩

/-- No step of another thread — a requester, the environment, the dial goroutine of another
object (including the `remove` in its failure path or in a `done`) — changes the pc of `o`'s
dial goroutine. -/
theorem others_keep_dial {c c' : Cfg} {l : Label} (h : Reach c) (hs : step c l = some c')
    {o : Nat} (hl : dialOf l ≠ some o) {ob : Obj} (ho : c.objs[o]? = some ob) :
    ∃ ob' : Obj, c'.objs[o]? = some ob' ∧ ob'.dpc = ob.dpc := by
  obtain ⟨ob', g1, g2, _⟩ := step_oframe (inv_reach h) hs o ob ho hl
  exact ⟨ob', g1, g2⟩

/-- … and none disables an enabled step of `o`'s dial goroutine (for the outcome `cancelled`
of the Dial function this uses that a cancelled context stays cancelled). -/
theorem dial_step_persists {c c' : Cfg} {l : Label} (h : Reach c) (hs : step c l = some c')
    {o : Nat} (hl : dialOf l ≠ some o) {l' : Label} (hl' : dialOf l' = some o)
    (he : (step c l').isSome = true) : (step c' l').isSome = true := by
  have hinv := inv_reach h
  have hp' : c'.panicked = false := no_panic (Reach.step l h hs)
  have hof := step_oframe hinv hs
  have hrf := step_rframe hinv hs
  unfold step at he
  rw [hinv.nopanic] at he
  simp only [Bool.false_eq_true, ↓reduceIte] at he
  cases l' with
  | start a dk cn => cases hl'
  | cancel r => cases hl'
  | r0 r => cases hl'
  | r1 r => cases hl'
  | r2 r => cases hl'
  | r3 r => cases hl'
  | done r => cases hl'
  | d1a o' =>
    simp only [dialOf, Option.some.injEq] at hl'; subst hl'
    simp only [stepL] at he
    split at he <;> try (cases he; done)
    rename_i ob ho
    split at he <;> try (cases he; done)
    rename_i hpc
    obtain ⟨ob', g1, g2, _⟩ := hof o' ob ho hl
    rw [hpc] at g2
    simp only [step, hp', Bool.false_eq_true, ↓reduceIte, stepL, g1, g2]
    split <;> rfl
  | d1b o' out =>
    simp only [dialOf, Option.some.injEq] at hl'; subst hl'
    simp only [stepL] at he
    split at he <;> try (cases he; done)
    rename_i ob ho
    split at he <;> try (cases he; done)
    rename_i n hpc
    obtain ⟨ob', g1, g2, g3⟩ := hof o' ob ho hl
    rw [hpc] at g2
    cases out with
    | ok => simp [step, hp', stepL, g1, g2]
    | fail => simp [step, hp', stepL, g1, g2]
    | cancelled =>
      simp only at he
      split at he <;> try (cases he; done)
      rename_i q hq
      split at he <;> try (cases he; done)
      rename_i hcn
      obtain ⟨q', k1, k2, _⟩ := hrf ob.creator q hq
      simp [step, hp', stepL, g1, g2, g3, k1, k2 hcn]
  | d2 o' =>
    simp only [dialOf, Option.some.injEq] at hl'; subst hl'
    simp only [stepL] at he
    split at he <;> try (cases he; done)
    rename_i ob ho
    split at he <;> try (cases he; done)
    rename_i e hpc
    obtain ⟨ob', g1, g2, _⟩ := hof o' ob ho hl
    rw [hpc] at g2
    simp [step, hp', stepL, g1, g2]
  | d3 o' =>
    simp only [dialOf, Option.some.injEq] at hl'; subst hl'
    simp only [stepL] at he
    split at he <;> try (cases he; done)
    rename_i ob ho
    split at he <;> try (cases he; done)
    rename_i hpc
    obtain ⟨ob', g1, g2, _⟩ := hof o' ob ho hl
    rw [hpc] at g2
    simp [step, hp', stepL, g1, g2]

/-! ## run form, all schedules -/

/-- number of atomic sections of `o`'s dial goroutine in a schedule -/
def dialSteps (o : Nat) (ls : List Label) : Nat := ls.countP (fun l => dialOf l == some o)

/-- Along **every** schedule from a reachable configuration: the variant of `o`'s dial
goroutine at the end plus the number of steps it took is at most the variant at the
beginning (the object is never deallocated). -/
theorem dial_steps_bound {c c' : Cfg} (ls : List Label) (h : Reach c) (hr : run c ls = some c')
    {o : Nat} {ob : Obj} (ho : c.objs[o]? = some ob) :
    ∃ ob' : Obj, c'.objs[o]? = some ob' ∧ dialRank ob'.dpc + dialSteps o ls ≤ dialRank ob.dpc := by
  induction ls generalizing c ob with
  | nil =>
    simp only [run, Option.some.injEq] at hr; subst hr
    exact ⟨ob, ho, by simp [dialSteps]⟩
  | cons l ls ih =>
    simp only [run] at hr
    cases hs : step c l with
    | none => simp [hs] at hr
    | some c1 =>
      simp only [hs] at hr
      by_cases hl : dialOf l = some o
      · obtain ⟨ob1, g1, g2⟩ := dial_rank_decreases h hs hl ho
        obtain ⟨ob2, k1, k2⟩ := ih (Reach.step l h hs) hr g1
        refine ⟨ob2, k1, ?_⟩
        have : dialSteps o (l :: ls) = dialSteps o ls + 1 := by simp [dialSteps, hl]
        omega
      · obtain ⟨ob1, g1, g2⟩ := others_keep_dial h hs hl ho
        obtain ⟨ob2, k1, k2⟩ := ih (Reach.step l h hs) hr g1
        refine ⟨ob2, k1, ?_⟩
        have : dialSteps o (l :: ls) = dialSteps o ls := by simp [dialSteps, hl]
        rw [this, ← g2]; exact k2

/-- The dial goroutine of an object takes at most 4 steps, ever. -/
theorem dial_steps_le_four {c c' : Cfg} (ls : List Label) (h : Reach c) (hr : run c ls = some c')
    {o : Nat} {ob : Obj} (ho : c.objs[o]? = some ob) : dialSteps o ls ≤ 4 := by
  obtain ⟨ob', _, hb⟩ := dial_steps_bound ls h hr ho
  have := dialRank_le_four ob.dpc
  omega

/-- Whatever the interleaving: once the dial goroutine of `o` has taken as many steps as its
variant (at most 4), `o` is ready — `close(c.ready)` has been executed. -/
theorem ready_after_rank {c c' : Cfg} (ls : List Label) (h : Reach c) (hr : run c ls = some c')
    {o : Nat} {ob : Obj} (ho : c.objs[o]? = some ob) (hn : dialRank ob.dpc ≤ dialSteps o ls) :
    ∃ ob' : Obj, c'.objs[o]? = some ob' ∧ ob'.ready = true := by
  obtain ⟨ob', g1, hb⟩ := dial_steps_bound ls h hr ho
  refine ⟨ob', g1, ?_⟩
  have hz : dialRank ob'.dpc = 0 := by omega
  exact ((inv_reach (reach_run ls h hr)).objs o ob' g1).ready_iff.mpr ((dialRank_zero_iff _).mp hz)

theorem ready_after_four {c c' : Cfg} (ls : List Label) (h : Reach c) (hr : run c ls = some c')
    {o : Nat} {ob : Obj} (ho : c.objs[o]? = some ob) (hn : 4 ≤ dialSteps o ls) :
    ∃ ob' : Obj, c'.objs[o]? = some ob' ∧ ob'.ready = true :=
  ready_after_rank ls h hr ho (Nat.le_trans (dialRank_le_four _) hn)

/-- `ready` is stable along every schedule (with the outcome: `C16.outcome_stable_run`). -/
theorem ready_stable {c c' : Cfg} (ls : List Label) (h : Reach c) (hr : run c ls = some c')
    {o : Nat} {ob : Obj} (ho : c.objs[o]? = some ob) (hrdy : ob.ready = true) :
    ∃ ob' : Obj, c'.objs[o]? = some ob' ∧ ob'.ready = true := by
  obtain ⟨ob', g1, _, _, g4⟩ := outcome_stable_run ls h hr ho
  exact ⟨ob', g1, (g4 hrdy).1⟩

/-! ## run form, the dialer's own steps suffice -/

theorem run_append {c c1 c2 : Cfg} {l1 l2 : List Label} (h1 : run c l1 = some c1)
    (h2 : run c1 l2 = some c2) : run c (l1 ++ l2) = some c2 := by
  induction l1 generalizing c with
  | nil => simp only [run, Option.some.injEq] at h1; subst h1; exact h2
  | cons l ls ih =>
    simp only [run] at h1
    cases hs : step c l with
    | none => simp [hs] at h1
    | some c' =>
      simp only [hs] at h1
      simp only [List.cons_append, run, hs]
      exact ih h1

/-- From every reachable configuration, for every object: a run of at most `dialRank ≤ 4`
steps, **all of them steps of that object's dial goroutine**, makes the object ready; no
requester's pc changes on the way. -/
theorem dial_completes {c : Cfg} (h : Reach c) {o : Nat} {ob : Obj} (ho : c.objs[o]? = some ob) :
    ∃ (ls : List Label) (c' : Cfg) (ob' : Obj), ls.length ≤ dialRank ob.dpc ∧
      (∀ l ∈ ls, dialOf l = some o) ∧ run c ls = some c' ∧
      c'.objs[o]? = some ob' ∧ ob'.ready = true ∧
      (∀ (r : Nat) (q : Req), c.reqs[r]? = some q → ∃ q', c'.reqs[r]? = some q' ∧ q'.pc = q.pc) := by
  generalize hn : dialRank ob.dpc = n
  induction n using Nat.strongRecOn generalizing c ob with
  | _ n ih =>
    cases hrdy : ob.ready with
    | true =>
      exact ⟨[], c, ob, by simp, by simp, rfl, ho, hrdy, fun r q hq => ⟨q, hq, rfl⟩⟩
    | false =>
      obtain ⟨l, c1, hl, hs⟩ := dial_enabled h ho hrdy
      obtain ⟨ob1, g1, g2⟩ := dial_rank_decreases h hs hl ho
      have h1 : Reach c1 := Reach.step l h hs
      obtain ⟨ls, c2, ob2, k1, k2, k3, k4, k5, k6⟩ := ih (dialRank ob1.dpc) (by omega) h1 g1 rfl
      refine ⟨l :: ls, c2, ob2, ?_, ?_, ?_, k4, k5, ?_⟩
      · simp only [List.length_cons]; omega
      · intro l' hl'
        rcases List.mem_cons.mp hl' with e | e
        · rw [e]; exact hl
        · exact k2 l' e
      · simp only [run, hs]; exact k3
      · intro r q hq
        obtain ⟨q1, m1, _, m3⟩ := step_rframe (inv_reach h) hs r q hq
        have hne : reqOf l ≠ some r := by
          cases l <;> simp [dialOf] at hl <;> simp [reqOf]
        obtain ⟨q2, n1, n2⟩ := k6 r q1 m1
        exact ⟨q2, n1, n2.trans (m3 hne)⟩

/-- **Every waiter is woken.**  In every reachable configuration, for a requester blocked in
`<-c.ready` of object `o`: `o` exists, and there is a run of at most `dialRank ≤ 4` steps of
`o`'s dial goroutine alone (none if `o` is already ready) after which the waiter's receive
fires and it is past `<-c.ready`. -/
theorem waiter_woken {c : Cfg} (h : Reach c) {r : Nat} {q : Req} (hq : c.reqs[r]? = some q)
    {o : Nat} (hpc : q.pc = .wait o) :
    ∃ (ob : Obj) (ls : List Label) (c' : Cfg) (q' : Req), c.objs[o]? = some ob ∧
      ls.length ≤ dialRank ob.dpc ∧ ls.length ≤ 4 ∧ (ob.ready = true → ls = []) ∧
      (∀ l ∈ ls, dialOf l = some o) ∧
      run c (ls ++ [.r2 r]) = some c' ∧ c'.reqs[r]? = some q' ∧ q'.pc = .woken o := by
  obtain ⟨ob, ho, _⟩ := ((inv_reach h).reqs r q hq).wait_ok o hpc
  obtain ⟨ls, c1, ob1, k1, k2, k3, k4, k5, k6⟩ := dial_completes h ho
  obtain ⟨q1, m1, m2⟩ := k6 r q hq
  rw [hpc] at m2
  have hp1 : c1.panicked = false := no_panic (reach_run ls h k3)
  refine ⟨ob, ls, { c1 with reqs := c1.reqs.set r { q1 with pc := .woken o } }, { q1 with pc := .woken o },
    ho, k1, Nat.le_trans k1 (dialRank_le_four _), ?_, k2, ?_, ?_, rfl⟩
  · intro hrdy
    have hfin := ((inv_reach h).objs o ob ho).ready_iff.mp hrdy
    rw [hfin] at k1
    simp only [dialRank, Nat.le_zero_eq, List.length_eq_zero_iff] at k1
    exact k1
  · apply run_append k3
    simp [run, step, hp1, stepL, m1, m2, k4, k5]
  · simp [getElem?_set_of m1]

/-! ## the waiter, under any schedule (weak-fairness leads-to) -/

/-- A requester blocked in `<-c.ready` has only one own step: the receive. -/
theorem wait_only_r2 {c : Cfg} {r : Nat} {q : Req} (hq : c.reqs[r]? = some q) {o : Nat}
    (hpc : q.pc = .wait o) {l : Label} (hl : reqOf l = some r) (hne : l ≠ .r2 r) : step c l = none := by
  unfold step
  split
  · rfl
  · cases l <;> simp only [reqOf, Option.some.injEq] at hl <;> try (cases hl; done)
    all_goals subst hl
    · simp [stepL, hq, hpc]
    · simp [stepL, hq, hpc]
    · exact absurd rfl hne
    · simp [stepL, hq, hpc]
    · simp [stepL, hq, hpc]

/-- Along every schedule that does not contain the waiter's receive step, the waiter is
still blocked on the same object: nobody else moves its pc, and it has no other step. -/
theorem waiter_pc_stable {c c' : Cfg} (ls : List Label) (h : Reach c) (hr : run c ls = some c')
    {r : Nat} {q : Req} (hq : c.reqs[r]? = some q) {o : Nat} (hpc : q.pc = .wait o)
    (hno : Label.r2 r ∉ ls) : ∃ q' : Req, c'.reqs[r]? = some q' ∧ q'.pc = .wait o := by
  induction ls generalizing c q with
  | nil =>
    simp only [run, Option.some.injEq] at hr; subst hr
    exact ⟨q, hq, hpc⟩
  | cons l ls ih =>
    simp only [run] at hr
    cases hs : step c l with
    | none => simp [hs] at hr
    | some c1 =>
      simp only [hs] at hr
      have hne : l ≠ .r2 r := fun e => hno (by rw [e]; exact List.mem_cons_self)
      have hno' : Label.r2 r ∉ ls := fun e => hno (List.mem_cons_of_mem _ e)
      have hro : reqOf l ≠ some r := by
        intro e
        rw [wait_only_r2 hq hpc e hne] at hs; cases hs
      obtain ⟨q1, m1, _, m3⟩ := step_rframe (inv_reach h) hs r q hq
      exact ih (Reach.step l h hs) hr m1 ((m3 hro).trans hpc) hno'

/-- Once the object is ready the waiter's receive is enabled, and it stays enabled along every
schedule until the waiter takes it. -/
theorem ready_wake_stable {c c' : Cfg} (ls : List Label) (h : Reach c) (hr : run c ls = some c')
    {r : Nat} {q : Req} (hq : c.reqs[r]? = some q) {o : Nat} (hpc : q.pc = .wait o)
    {ob : Obj} (ho : c.objs[o]? = some ob) (hrdy : ob.ready = true) (hno : Label.r2 r ∉ ls) :
    (step c' (.r2 r)).isSome = true := by
  obtain ⟨q', m1, m2⟩ := waiter_pc_stable ls h hr hq hpc hno
  obtain ⟨ob', g1, g2⟩ := ready_stable ls h hr ho hrdy
  simp [step, no_panic (reach_run ls h hr), stepL, m1, m2, g1, g2]

/-- **No lost wake-up, for all schedules.**  Take any schedule from a reachable configuration
in which requester `r` waits on the shared dial of object `o`, and in which `r` has not yet
taken its receive step.  At its end `r` still waits on `o`, and

* either `o` is ready and `r`'s receive step is enabled (and remains enabled until taken:
  `ready_wake_stable`) — the waiter is woken as soon as it is scheduled;
* or `o` is not ready, its dial goroutine has taken fewer than 4 steps in the schedule
  (fewer than its variant at the start), and a step of that dial goroutine is enabled (and
  remains enabled until taken: `dial_step_persists`).

So a run in which the waiter is never woken is one in which, from some point on, the dial
goroutine (at most 4 times) or the waiter itself is continuously enabled but never
scheduled: under weak fairness every waiter is woken, after at most 4 dial steps. -/
theorem waiter_woken_fair {c c' : Cfg} (ls : List Label) (h : Reach c) (hr : run c ls = some c')
    {r : Nat} {q : Req} (hq : c.reqs[r]? = some q) {o : Nat} (hpc : q.pc = .wait o)
    (hno : Label.r2 r ∉ ls) :
    ∃ (ob ob' : Obj) (q' : Req), c.objs[o]? = some ob ∧ c'.objs[o]? = some ob' ∧
      c'.reqs[r]? = some q' ∧ q'.pc = .wait o ∧
      ((ob'.ready = true ∧ (step c' (.r2 r)).isSome = true) ∨
       (ob'.ready = false ∧ dialSteps o ls < dialRank ob.dpc ∧ dialSteps o ls < 4 ∧
          ∃ l c'', dialOf l = some o ∧ step c' l = some c'')) := by
  obtain ⟨ob, ho, _⟩ := ((inv_reach h).reqs r q hq).wait_ok o hpc
  obtain ⟨q', m1, m2⟩ := waiter_pc_stable ls h hr hq hpc hno
  obtain ⟨ob', g1, hb⟩ := dial_steps_bound ls h hr ho
  have h' : Reach c' := reach_run ls h hr
  refine ⟨ob, ob', q', ho, g1, m1, m2, ?_⟩
  cases hrdy : ob'.ready with
  | true =>
    left
    exact ⟨rfl, by simp [step, no_panic h', stepL, m1, m2, g1, hrdy]⟩
  | false =>
    right
    have hnz : dialRank ob'.dpc ≠ 0 := by
      intro hz
      have := ((inv_reach h').objs o ob' g1).ready_iff.mpr ((dialRank_zero_iff _).mp hz)
      rw [hrdy] at this; cases this
    have := dialRank_le_four ob.dpc
    exact ⟨rfl, by omega, by omega, dial_enabled h' g1 hrdy⟩

/-- Corollary: in any schedule in which `o`'s dial goroutine has taken 4 steps (or as many as
its variant at the start) and the waiter has not yet moved, the waiter's receive is enabled. -/
theorem waiter_enabled_after_dial {c c' : Cfg} (ls : List Label) (h : Reach c) (hr : run c ls = some c')
    {r : Nat} {q : Req} (hq : c.reqs[r]? = some q) {o : Nat} (hpc : q.pc = .wait o)
    (hno : Label.r2 r ∉ ls) (hn : 4 ≤ dialSteps o ls) : (step c' (.r2 r)).isSome = true := by
  obtain ⟨_, _, _, _, _, _, _, hcase⟩ := waiter_woken_fair ls h hr hq hpc hno
  rcases hcase with ⟨_, he⟩ | ⟨_, _, h4, _⟩
  · exact he
  · omega

/-! ## non-vacuity -/

/-- two requesters of "a": the creator's dial is in flight (`dialing 0`), the joiner waits -/
def schedWaiting : List Label :=
  [.start "a" true false, .start "a" true false, .r0 0, .r1 0, .r0 1, .r1 1, .d1a 0]

example : (run init schedWaiting).map (fun c => (c.reqs.map (·.pc), c.objs.map (fun ob => (ob.dpc, ob.ready))))
    = some ([.wait 0, .wait 0], [(.dialing 0, false)]) := by decide

/-- the hypotheses of `waiter_woken` / `waiter_woken_fair` are satisfiable -/
example : ∃ (c : Cfg) (q : Req), Reach c ∧ c.reqs[1]? = some q ∧ q.pc = .wait 0 := by
  have hr : run init schedWaiting = some ((run init schedWaiting).getD init) := by decide
  exact ⟨_, { addr := "a", pc := .wait 0 }, reach_run _ Reach.init hr, by decide, rfl⟩

/-- a failing dial: the three remaining dial steps wake the joiner, who gets the error -/
example : (run init (schedWaiting ++ [.d1b 0 .fail, .d2 0, .d3 0, .r2 1, .r3 1])).map
    (fun c => (c.reqs.map (·.pc), c.objs.map (fun ob => (ob.dpc, ob.ready))))
    = some ([.wait 0, .failed .dial], [(.fin, true)]) := by decide

/-- before `close(c.ready)` the waiter's receive is not enabled -/
example : run init (schedWaiting ++ [.d1b 0 .fail, .d2 0, .r2 1]) = none := by decide

end C16
end Gnmi
