import Gnmi.Lemmas.ClientLive
import Gnmi.Lemmas.ClientTrace
/-!
# C18 — Client Subscribe/Close always terminate; reconnect keeps callback discipline

Property theorems only (helpers: `Lemmas/ClientLTS.lean`, `ClientLive.lean`, `ClientTrace.lean`).
Everything is stated about `Reach wrap s c`: every configuration of the client LTS
(`Model/ClientLTS.lean`) reachable under **any** interleaving of goroutine S (`Subscribe`),
goroutine K (`Close`), the backoff timer and the cancellation of the caller's context, for
**any** transport script `s : Nat → Attempt N` (connect error / `Impl.Subscribe` error / messages
then error / EOF / blocking, per attempt, unboundedly many attempts) and any notification
payload type `N`.  `wrap = true` is `client.Reconnect(BaseClient | CacheClient)`, `wrap = false`
the plain `BaseClient`/`CacheClient`.

Hypothesis on the transport (`Impl`), built into the transition rules and enforced on the
scripted transport of the `rc` correspondence: a blocked connect / `Recv` returns once the
context is cancelled or `Close` was called on the instance (rules `connAbort`, `recvWait`,
`recvAbort`).  Nothing more: after cancellation the transport may still hand out buffered
messages (rule `recvMsg` is never disabled).

Standing caveat: these are theorems about the protocol LTS.  "Within the current backoff
interval" is rendered as: once `Close` is past its critical section (or the caller's context is
cancelled) no backoff sleep is ever started again, at most the one already pending elapses, and
every other transition on the way to both returns is enabled and strictly decreases a variant.
The wall-clock bound itself is observed by the harness (deadline monitor), not proved.
-/
namespace Gnmi
namespace C18
open ClientLTS

variable {N : Type}

/-! ## The `initDone` / `Close` hand-shake -/

/-- **exactly_one_cancels.**  For every ordering of `Close`'s critical section and `initDone`:
as soon as both have run the subscribe context is cancelled, `p.cancel()` has been called
exactly once (by whichever of the two came second), and it is never called otherwise. -/
theorem exactly_one_cancels {s : Script N} {c : Cfg N} (h : Reach true s c) :
    (c.cancelled = true ↔ (c.kpc.isIdle = false ∧ c.spc.isIdle = false)) ∧
    c.cancelCalls = (if c.cancelled then 1 else 0) ∧
    c.rcClosed = !c.kpc.isIdle := by
  obtain ⟨h1, h2, h3, h4, h5, h6, h7, h8⟩ := invA_reach h
  refine ⟨?_, h5, by simpa using h3⟩
  rw [h4, h3, h1]; simp

/-- `Close` having started dooms the subscribe context: it is cancelled, or will be by
`initDone` before the first inner `Subscribe`. -/
theorem close_dooms {s : Script N} {c : Cfg N} (h : Reach true s c) (hk : c.kpc.isIdle = false) :
    Doomed true c := by
  obtain ⟨h1, h2, h3, h4, h5, h6, h7, h8⟩ := invA_reach h
  cases hs : c.spc.isIdle with
  | true => exact .inr ⟨rfl, by rw [h3, hk]; rfl, hs⟩
  | false => exact .inl (cancelled_of_started (invA_reach h) rfl hk hs)

/-! ## Termination -/

/-- **variant.**  Every transition of the system except the *start* of a backoff sleep strictly
decreases `variant` (remaining loop phases of S + messages the current stream can still deliver
+ remaining phases of K + the one-shot cancellation of the caller's context); a sleep can only be
started with a live context. -/
theorem variant_decreases {wrap : Bool} {s : Script N} {c c' : Cfg N} {l : Label}
    (hs : Step wrap s c l c') :
    (l ≠ .sleepStart → variant s c' < variant s c) ∧ (l = .sleepStart → c.ctxDone = false) :=
  ⟨variant_step hs, fun h => (sleepStart_live (h ▸ hs)).1⟩

/-- **close_terminates** (safety half: bounded).  From any configuration in which `Close` has
passed its critical section (or the caller's context is cancelled), *every* run is at most
`variant` steps long, never starts a backoff sleep, and stays doomed. -/
theorem close_terminates {wrap : Bool} {s : Script N} {c c' : Cfg N} {ls : List Label}
    (hd : Doomed wrap c) (hr : Run wrap s c ls c') :
    ls.length + variant s c' ≤ variant s c ∧ Label.sleepStart ∉ ls ∧ Doomed wrap c' := by
  obtain ⟨h1, h2, h3⟩ := doomed_run_bounded hr hd
  exact ⟨h1, h3, h2⟩

/-- **subscribe_terminates** (progress of S).  Once doomed, goroutine S always has an enabled
transition of its own until `Subscribe` has returned: it never waits for `Close`, and (by
`close_terminates`) never for a new sleep. -/
theorem subscribe_terminates {wrap : Bool} (s : Script N) {c : Cfg N} (hd : Doomed wrap c)
    (hr : c.spc.isReturned = false) : ∃ l c', Step wrap s c l c' ∧ l.isS = true :=
  s_progress s hd hr

/-- **close_progress** (progress of K).  `Close` is never blocked except on the return of a
`Subscribe` whose context is already cancelled (which `subscribe_terminates` drives home). -/
theorem close_progress {wrap : Bool} {s : Script N} {c : Cfg N} (h : Reach wrap s c)
    (hr : c.kpc.isReturned = false) :
    (∃ l c', Step wrap s c l c' ∧ l.isK = true) ∨
    (wrap = true ∧ c.cancelled = true ∧ c.spc.isIdle = false ∧ c.spc.isReturned = false) :=
  k_progress s (invA_reach h) hr

/-- No deadlock once `Close` has started: some transition is enabled until both calls have
returned. -/
theorem doomed_progress {wrap : Bool} {s : Script N} {c : Cfg N} (h : Reach wrap s c)
    (hd : Doomed wrap c) (hne : ¬ (c.spc.isReturned = true ∧ c.kpc.isReturned = true)) :
    ∃ l c', Step wrap s c l c' := by
  cases hs : c.spc.isReturned with
  | false => obtain ⟨l, c', h1, _⟩ := s_progress s hd hs; exact ⟨l, c', h1⟩
  | true =>
      cases hk : c.kpc.isReturned with
      | true => exact absurd ⟨hs, hk⟩ hne
      | false =>
          rcases k_progress s (invA_reach h) hk with ⟨l, c', h1, _⟩ | ⟨_, _, _, h4⟩
          · exact ⟨l, c', h1⟩
          · rw [hs] at h4; cases h4

/-- **terminates** (both halves together).  From any reachable doomed configuration there is a
run, at most `variant` steps long and without any new sleep, after which both `Subscribe` and
`Close` have returned; and *every* run that cannot be extended ends that way. -/
theorem terminates {wrap : Bool} {s : Script N} :
    ∀ (n : Nat) {c : Cfg N}, variant s c ≤ n → Reach wrap s c → Doomed wrap c →
      ∃ ls c', Run wrap s c ls c' ∧ c'.spc.isReturned = true ∧ c'.kpc.isReturned = true := by
  intro n
  induction n with
  | zero =>
      intro c hv h hd
      by_cases hne : c.spc.isReturned = true ∧ c.kpc.isReturned = true
      · exact ⟨[], c, .nil, hne.1, hne.2⟩
      · obtain ⟨l, c', hs⟩ := doomed_progress h hd hne
        have := variant_step hs (doomed_no_sleepStart hd hs)
        omega
  | succ n ih =>
      intro c hv h hd
      by_cases hne : c.spc.isReturned = true ∧ c.kpc.isReturned = true
      · exact ⟨[], c, .nil, hne.1, hne.2⟩
      · obtain ⟨l, c', hs⟩ := doomed_progress h hd hne
        have hlt := variant_step hs (doomed_no_sleepStart hd hs)
        obtain ⟨ls, c'', hr, h1, h2⟩ := ih (by omega) (.step h hs) (doomed_step hd hs)
        exact ⟨l :: ls, c'', .cons hs hr, h1, h2⟩

/-- `terminates` without the induction parameter -/
theorem both_return {wrap : Bool} {s : Script N} {c : Cfg N} (h : Reach wrap s c)
    (hd : Doomed wrap c) :
    ∃ ls c', Run wrap s c ls c' ∧ ls.length ≤ variant s c ∧ Label.sleepStart ∉ ls ∧
      c'.spc.isReturned = true ∧ c'.kpc.isReturned = true := by
  obtain ⟨ls, c', hr, h1, h2⟩ := terminates (variant s c) (Nat.le_refl _) h hd
  obtain ⟨hb, hns, _⟩ := close_terminates hd hr
  exact ⟨ls, c', hr, by omega, hns, h1, h2⟩

theorem maximal_run_returns {wrap : Bool} {s : Script N} {c c' : Cfg N} {ls : List Label}
    (h : Reach wrap s c) (hd : Doomed wrap c) (hr : Run wrap s c ls c')
    (hmax : ∀ l c'', ¬ Step wrap s c' l c'') :
    c'.spc.isReturned = true ∧ c'.kpc.isReturned = true := by
  have hreach : Reach wrap s c' := by
    clear hd hmax
    induction hr with
    | nil => exact h
    | cons hs _ ih => exact ih (.step h hs)
  have hd' := (doomed_run_bounded hr hd).2.1
  apply Classical.byContradiction
  intro hne
  obtain ⟨l, c'', hs⟩ := doomed_progress hreach hd' hne
  exact hmax l c'' hs

/-- "No wait other than the single pending sleep": in a doomed run the timer fires at most once,
and only if S was already sleeping when the run began. -/
theorem at_most_pending_sleep {wrap : Bool} {s : Script N} {c c' : Cfg N} {ls : List Label}
    (hd : Doomed wrap c) (hr : Run wrap s c ls c') :
    ls.count .wake ≤ sleepN c.spc := by
  induction hr with
  | nil => simp
  | @cons c l c1 ls c2 hs hrun ih =>
      have hne := doomed_no_sleepStart hd hs
      have ih := ih (doomed_step hd hs)
      have key := sleep_step hs
      by_cases hw : l = .wake
      · subst hw
        obtain ⟨k1, k2⟩ := key.1 rfl
        simp only [List.count_cons_self]
        omega
      · have := key.2 hw hne
        rw [List.count_cons_of_ne hw]
        omega

/-! ## The loop keeps retrying, with callback discipline -/

/-- **keeps_retrying** (discipline).  The loop-level projection of every reachable trace is a
prefix of `start 0 · ended 0 · disc 0 · reset 1 · start 1 · ended 1 · disc 1 · reset 2 · …`:
the disconnect callback runs exactly once after every ended inner `Subscribe` (and only then),
the reset callback exactly once before every retry (and only then). -/
theorem keeps_retrying {s : Script N} {c : Cfg N} (h : Reach true s c) :
    cbs c.trace = rounds c.att ++ roundTail c.att c.spc ∧ cbs c.trace <+: rounds (c.att + 1) := by
  have hd := (invD_reach h).shape
  refine ⟨hd, ?_⟩
  rw [hd]
  show _ <+: rounds c.att ++ _
  apply List.prefix_append_right_inj _ |>.mpr
  cases c.spc <;> simp [roundTail] <;> exact ⟨_, rfl⟩

/-- **keeps_retrying** (never gives up).  A reconnecting `Subscribe` leaves its loop only
through the cancelled-context exit. -/
theorem returns_only_if_cancelled {s : Script N} {c : Cfg N} (h : Reach true s c)
    (hdone : c.spc.isDone = true) : c.ctxDone = true :=
  done_ctxDone_reach h hdone

/-- **keeps_retrying** (progress).  With a live context, after every ended attempt (whatever its
outcome `e`) the loop goes on, by itself and without any condition on `Close`/the transport:
disconnect callback, context check, backoff sleep, timer, reset callback, next inner `Subscribe`. -/
theorem loop_continues {s : Script N} {c : Cfg N} {e : Bool}
    (hp : c.spc = .innerRet e) (hlive : c.ctxDone = false) :
    ∃ c', Run true s c [.disc, .sleepStart, .wake, .reset] c' ∧
      c'.spc = .connect ∧ c'.att = c.att + 1 ∧
      c'.trace = c.trace ++ [.disc c.att, .reset (c.att + 1), .start (c.att + 1)] := by
  refine ⟨_, .cons (.disc rfl hp) (.cons (.sleepStart (e := e) rfl ?_) (.cons (.wake rfl)
    (.cons (.reset rfl) .nil))), ?_, ?_, ?_⟩
  · simpa [Cfg.doDisc, Cfg.ctxDone] using hlive
  · simp [Cfg.doReset]
  · simp [Cfg.doReset, Cfg.doDisc]
  · simp [Cfg.doReset, Cfg.doDisc]

/-- In the loop phases S is never blocked and has no choice: its next transition is determined
(so the run of `loop_continues` is the only one S can take while the context stays live). -/
theorem loop_deterministic {s : Script N} {c c' : Cfg N} {l : Label}
    (hs : Step true s c l c') (hS : l.isS = true) :
    (∀ e, c.spc = .innerRet e → l = .disc ∧ c' = c.doDisc e) ∧
    (∀ e, c.spc = .ctxCheck e → c.ctxDone = false → l = .sleepStart ∧ c' = { c with spc := .sleeping }) ∧
    (c.spc = .sleeping → l = .wake ∧ c' = { c with spc := .resetCb }) ∧
    (c.spc = .resetCb → l = .reset ∧ c' = c.doReset) := by
  revert hS
  lts_cases hs =>
    intro hS
    simp_all [Label.isS]

/-! ## Per-stream discipline -/

theorem connFirst_prefix {a : Nat} {l1 l2 : List (Ev N)} (h : ConnFirst a (l1 ++ l2)) :
    ConnFirst a l1 := by
  rcases h with h | ⟨r, hr, hn⟩
  · left; simp at h; exact h.1
  · cases l1 with
    | nil => left; rfl
    | cons x t =>
        right
        simp at hr
        obtain ⟨rfl, rfl⟩ := hr
        exact ⟨t, rfl, fun e he => hn e (by simp [he])⟩

/-- **connected_first.**  On every (re)connected stream the handler's first call is `Connected`
and there is no second `Connected`: the handler calls of attempt `a`, in trace order, are empty
or `Connected :: notifications`. -/
theorem connected_first {wrap : Bool} {s : Script N} {c : Cfg N} (h : Reach wrap s c) (a : Nat) :
    ConnFirst a (hs a c.trace) := by
  have := (invV_reach h).connFirst a
  rw [vis, hs_append] at this
  exact connFirst_prefix this

/-- **order_preserved.**  On every stream the notifications reach the handler in the order the
transport decoded them, without loss, duplication or reordering: what the handler has seen of
attempt `a` is a prefix of what the script of attempt `a` carries. -/
theorem order_preserved {wrap : Bool} {s : Script N} {c : Cfg N} (h : Reach wrap s c) (a : Nat) :
    payloads a c.trace <+: flat (s a).items := by
  have := (invV_reach h).prefix_ a
  rw [vis, payloads_append] at this
  exact List.IsPrefix.trans (List.prefix_append _ _) this

/-- … and while the stream is open nothing is lost: seen ++ committed ++ still to come is
exactly the script. -/
theorem order_exact {wrap : Bool} {s : Script N} {c : Cfg N} (h : Reach wrap s c)
    (hin : c.spc.inStream = true) :
    payloads c.att c.trace ++ payloads c.att (pend c) ++ flat c.items = flat (s c.att).items := by
  have := ((invV_reach h).stream hin).2.2
  rwa [vis, payloads_append] at this

/-! ## After `Close` -/

/-- **at_most_one_after_close** (`BaseClient.Close`).  Once `BaseClient.Close` has closed the
instance S is receiving on (it returned `nil`), `Recv` hands out at most one further message on
it (`postClose` counts them), whatever the transport still has buffered. -/
theorem at_most_one_after_close {wrap : Bool} {s : Script N} {c : Cfg N} (h : Reach wrap s c)
    {n : Nat} (hn : c.postClose = some n) : n ≤ 1 :=
  (invQ_reach h).le n hn

/-- … and after that one message the run loop does not call `Recv` again. -/
theorem no_recv_after_that {wrap : Bool} {s : Script N} {c : Cfg N} (h : Reach wrap s c)
    (hn : c.postClose = some 1) : c.spc.late = true :=
  (invQ_reach h).late hn

/-- Plain `BaseClient`/`CacheClient`: after a `Close` that closed the instance `Subscribe` is
receiving on (it returned `nil`), goroutine S is never blocked again until `Subscribe` has
returned — and (by `variant_decreases`; the plain clients never sleep) it gets there in at most
`variant` steps, delivering at most one further message (`at_most_one_after_close`). -/
theorem plain_close_terminates {s : Script N} {c : Cfg N} (h : Reach false s c) {n : Nat}
    (hn : c.postClose = some n) (hr : c.spc.isReturned = false) :
    ∃ l c', Step false s c l c' ∧ l.isS = true := by
  obtain ⟨hpast, hcl⟩ := plainHit_reach h n hn
  refine s_progress_released s ?_ ?_ (by simp [Cfg.released, hcl]) hr
  · cases hp : c.spc <;> simp_all
  · intro hp; simp [hp] at hpast

/-- **at_most_one_after_close** (`ReconnectClient.Close`).  When a `Close` that found a running
`Subscribe` (non-nil `subscribeDone`) returns, `Subscribe` has returned, and from then on the
trace never grows: no notification, no callback. -/
theorem silent_after_close {s : Script N} {c : Cfg N} (h : Reach true s c) {e : Bool}
    (hk : c.kpc = .returned true e) :
    c.spc.isReturned = true ∧ ∀ l c', Step true s c l c' → c'.trace = c.trace := by
  have hsd := waited_reach h e hk
  have hA := invA_reach h
  have hr : c.spc.isReturned = true := by rw [← hA.sdClosed rfl]; exact hsd
  exact ⟨hr, fun l c' hs => (frozen_step hr hs).1⟩

/-- a `Close` issued after `initDone` always finds the running `Subscribe` -/
theorem close_after_init_waits {s : Script N} {c : Cfg N} (h : Reach true s c)
    (hs : c.spc.isIdle = false) : c.sdSet = true := by
  obtain ⟨h1, h2, _⟩ := invA_reach h
  rw [h2, h1, hs]; rfl

/-! ## The driver's predictions are traces of this transition system -/

/-- Every configuration the `rc` driver component reports on is reachable in the LTS the
theorems above quantify over. -/
theorem driver_runs_are_reachable (sc : Scenario) :
    Reach sc.wrap (scriptOf sc) (runScenario sc).final :=
  exec_reach sc

/-! ## Non-vacuity -/

/-- a scenario: reconnect over BaseClient, stream `u1d1 · sync · EOF`, then `X`, then a stream
blocked in its second `Recv` when `Close` arrives (one buffered message) -/
def demo : Scenario :=
  { wrap := true, poll := false, cancel := false,
    script := [.stream [.update 1 1, .sync] (some .eof), .initFail, .stream [.update 2 0] none],
    inj := .msg 2 1 (some 1) }

example : (runScenario demo).valid = true := by decide
example : (runScenario demo).final.kpc = .returned true false := by decide
example : (runScenario demo).final.spc.isReturned = true := by decide
example : (runScenario demo).final.postClose = some 1 := by decide
example : (runScenario demo).final.att = 2 := by decide
example : Doomed true (runScenario demo).final := .inl (by decide)
example : Reach true (scriptOf demo) (runScenario demo).final := driver_runs_are_reachable demo

/-- the hypotheses of `loop_continues` are met by a reachable configuration: the first
connect failed, the context is live -/
example : ∃ c : Cfg NKind, Reach true (scriptOf demo) c ∧ c.att = 1 ∧ c.spc = .innerRet true ∧
    c.ctxDone = false := by
  -- run S alone until the second attempt (index 1, `X`) has failed
  let stop : Cfg NKind → Bool := fun c => c.att == 1 && (match c.spc with | .innerRet _ => true | _ => false)
  exact ⟨runS true (scriptOf demo) false stop 200 init,
    runS_reach _ _ .init, by decide, rfl, by decide⟩

/-- the plain client: Close while streaming (one buffered message) -/
def demoPlain : Scenario :=
  { wrap := false, poll := false, cancel := false,
    script := [.stream [.update 1 0, .update 1 0] (some .err)], inj := .msg 0 1 (some 3) }

example : (runScenario demoPlain).valid = true := by decide
example : (runScenario demoPlain).final.postClose = some 1 := by decide
example : (runScenario demoPlain).final.spc = .returned .nil := rfl

end C18
end Gnmi
