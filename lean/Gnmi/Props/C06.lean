import Gnmi.Lemmas.Match
/-!
# C06 — the streaming filter is consistent with queries; one delivery per notification

Property theorems only (helper lemmas: `Gnmi/Lemmas/Match.lean`).  Everything is stated
for an arbitrary client type `C` and for the trie reached by **any** sequence of
`AddQuery` / remove-closure calls by any number of clients (`runTrie ops`), with no bound
on the number of clients, queries, path lengths or operations.

`Registered ops c q` is read off the history alone: `AddQuery(q, c)` happened and the
remove closure for `(q, c)` has not run since.
-/
namespace Gnmi
namespace C06
open Match

variable {C : Type} [DecidableEq C]

/-! ## Reachable tries -/

/-- Every trie reachable through the API has duplicate-free client sets and child maps and
no empty node below the root (nothing is leaked by removals). -/
theorem reachable_wf (ops : List (Op C)) : WF (runTrie ops) ∧ Tight (runTrie ops) :=
  ⟨(inv_run ops).1, (inv_run ops).2.1⟩

/-- The trie holds exactly the current registrations, each once. -/
theorem reachable_regs (ops : List (Op C)) (c : C) (q : Path) :
    (c, q) ∈ regs (runTrie ops) ↔ Registered ops c q := by
  rw [(inv_run ops).2.2.2 (c, q), mem_runSpec]

theorem reachable_regs_nodup (ops : List (Op C)) : (regs (runTrie ops)).Nodup :=
  nodup_regs _ (inv_run ops).1

/-! ## Which updates are offered -/

/-- `Match.Update` (and every `UpdateOnce` pass) reaches the nodes of exactly the
compatible registrations: the number of times `c`'s node set is hit by an update of `p` is
the number of distinct queries `c` is currently registered with that are compatible with
`p`.  (`runSpec ops` lists the current registrations without repetition.) -/
theorem update_count (ops : List (Op C)) (p : Path) (c : C) :
    (update (runTrie ops) p none).1.count c =
      (runSpec ops).countP (fun r => r.1 == c && compatible r.2 p) := by
  rw [update_eq_visit, updateClients_none, count_visit c _ p (inv_run ops).1]
  exact hits_of_inv (inv_run ops) c p

theorem runSpec_nodup (ops : List (Op C)) : (runSpec ops).Nodup := (inv_run ops).2.2.1

theorem mem_visit_iff (ops : List (Op C)) (p : Path) (c : C) :
    c ∈ visit (runTrie ops) p ↔ ∃ q, Registered ops c q ∧ compatible q p = true := by
  rw [← List.count_pos_iff, count_visit c _ p (inv_run ops).1, hits_of_inv (inv_run ops) c p]
  unfold hits
  rw [List.countP_pos_iff]
  constructor
  · rintro ⟨⟨c', q⟩, hm, hp⟩
    simp only [Bool.and_eq_true, beq_iff_eq] at hp
    obtain ⟨rfl, hc⟩ := hp
    exact ⟨q, (mem_runSpec ops c' q).1 hm, hc⟩
  · rintro ⟨q, hr, hc⟩
    exact ⟨(c, q), (mem_runSpec ops c q).2 hr, by simp [hc]⟩

/-- **The streaming filter.**  An update (or delete) of path `p` is offered to client `c` by
`Match.Update` if and only if `c` is currently registered with some query that agrees with
`p` on every element they both have, a wildcard on either side agreeing with anything. -/
theorem update_iff_compatible (ops : List (Op C)) (p : Path) (c : C) :
    c ∈ (update (runTrie ops) p none).1 ↔ ∃ q, Registered ops c q ∧ compatible q p = true := by
  rw [update_eq_visit, updateClients_none]
  exact mem_visit_iff ops p c

/-- The same with a tracking set (`Match.UpdateOnce`): additionally `c` must not have been
delivered to already. -/
theorem updateOnce_iff_compatible (ops : List (Op C)) (p : Path) (s : List C) (c : C) :
    c ∈ (update (runTrie ops) p (some s)).1 ↔
      c ∉ s ∧ ∃ q, Registered ops c q ∧ compatible q p = true := by
  rw [update_eq_visit, mem_updateClients, mem_visit_iff]
  constructor
  · rintro ⟨h, hs⟩
    exact ⟨hs s rfl, h⟩
  · rintro ⟨hs, h⟩
    exact ⟨h, fun s' e => by cases e; exact hs⟩

/-! ## Snapshot ⊆ stream -/

theorem qmatches_cons_cons (g : String) (q : Path) (k : String) (ks : Path) :
    qmatches (g :: q) (k :: ks) = ((g == glob || g == k) && qmatches q ks) := by
  cases q <;> rfl

/-- **Every leaf a snapshot query returns is also streamed**: if `ctree.Query(q)` selects the
stored key `k` then an update of `k` is offered to a subscriber of `q`. -/
theorem query_subset_stream : ∀ (q k : Path), qmatches q k = true → compatible q k = true
  | [], k, _ => compatible_nil_left k
  | _ :: _, [], _ => compatible_nil_right _
  | g :: q, e :: k, h => by
      rw [qmatches_cons_cons] at h
      rw [compatible_cons_cons]
      simp only [Bool.and_eq_true, Bool.or_eq_true] at h ⊢
      refine ⟨?_, query_subset_stream q k h.2⟩
      rcases h.1 with h1 | h1
      · exact Or.inl (Or.inl h1)
      · exact Or.inr h1

/-- **The gap, exactly**: for a stored key without a literal `*` element, an update of `k` is
streamed to `q` iff the snapshot relation holds for `q` *cut to the length of* `k`.  So the
stream additionally offers the keys that are strictly shorter than the query (which is
what makes deletes of whole subtrees reach the subscriber). -/
theorem stream_eq_truncated_query : ∀ (q k : Path), (∀ e ∈ k, e ≠ glob) →
    compatible q k = qmatches (q.take k.length) k
  | [], k, _ => by
      rw [compatible_nil_left]
      cases k <;> rfl
  | _ :: _, [], _ => by simp [compatible_nil_right, qmatches]
  | g :: q, e :: k, h => by
      have he : (e == glob) = false := by
        simpa using h e (List.mem_cons_self ..)
      simp only [List.length_cons, List.take_succ_cons, qmatches_cons_cons, compatible_cons_cons,
        he, Bool.or_false]
      rw [stream_eq_truncated_query q k (fun x hx => h x (List.mem_cons_of_mem _ hx))]

/-! ## One delivery per notification -/

/-- Match level: successive `UpdateOnce` calls sharing one tracking set (however many paths,
however many matching registrations) invoke no client twice and no client already in it. -/
theorem updateOnce_shared_once (t : Branch C) (ps : List Path) (s : List C) :
    (updateMany t ps (some s)).1.Nodup ∧ ∀ c ∈ (updateMany t ps (some s)).1, c ∉ s := by
  rw [updateMany_eq_visit]
  obtain ⟨_, _, _, h3, h4⟩ := updateClients_some ((ps.map (visit t)).flatten) s
  exact ⟨h3, fun c hc => ((h4 c).1 hc).2⟩

/-- **Each notification is offered to a subscriber at most once**, no matter how many of its
registered paths and how many of the notification's updates and deletes match
(`subscribe.UpdateNotification`, hence `Server.Update`). -/
theorem once_per_notification (ops : List (Op C)) (pfx : Path) (n : Noti) (c : C) :
    (updateNotification (runTrie ops) pfx n).count c ≤ 1 := by
  unfold updateNotification
  rw [List.Nodup.count (updateOnce_shared_once _ _ _).1]
  split <;> omega

theorem once_per_server_update (ops : List (Op C)) (v : Option Noti) (c : C) :
    (serverUpdate (runTrie ops) v).count c ≤ 1 := by
  cases v with
  | none => simp [serverUpdate]
  | some n => exact once_per_notification ops _ n c

/-- … and it *is* offered (exactly once, by the previous theorem) iff one of the client's
current registrations is compatible with one of the notification's update or delete paths
(prefix prepended). -/
theorem notification_iff_compatible (ops : List (Op C)) (pfx : Path) (n : Noti) (c : C) :
    c ∈ updateNotification (runTrie ops) pfx n ↔
      ∃ q, Registered ops c q ∧ ∃ p ∈ n.upd ++ n.del, compatible q (pfx ++ p) = true := by
  unfold updateNotification
  rw [updateMany_eq_visit, mem_updateClients]
  simp only [List.mem_flatten, List.mem_map]
  constructor
  · rintro ⟨⟨l, ⟨p', ⟨p, hp, rfl⟩, rfl⟩, hc⟩, _⟩
    obtain ⟨q, hr, hq⟩ := (mem_visit_iff ops _ c).1 hc
    exact ⟨q, hr, p, hp, hq⟩
  · rintro ⟨q, hr, p, hp, hq⟩
    refine ⟨⟨_, ⟨_, ⟨p, hp, rfl⟩, rfl⟩, (mem_visit_iff ops _ c).2 ⟨q, hr, hq⟩⟩, ?_⟩
    intro s e
    cases e
    simp

/-- the same for any group of paths sharing a fresh tracking set (`UpdateOnce`, match level) -/
theorem updateMany_iff_compatible (ops : List (Op C)) (ps : List Path) (c : C) :
    c ∈ (updateMany (runTrie ops) ps (some [])).1 ↔
      ∃ q, Registered ops c q ∧ ∃ p ∈ ps, compatible q p = true := by
  have := notification_iff_compatible ops [] { upd := ps } c
  simpa [updateNotification] using this

/-- Regression witness for defect D11 (repaired in the repository, commit 3f84c79): with the
former guard (`updated` allocated only for more than one update+delete, i.e. a `nil` set for
a single-update notification) a client registered with `d/a/*` and `d/a/b` was invoked twice
by one notification updating `d/a/b`.  This is why the set must always be allocated. -/
theorem d11_guard_witness :
    (updateMany (runTrie [Op.add 0 ["d", "a", "*"], Op.add (0 : Nat) ["d", "a", "b"]])
      [["d", "a", "b"]] none).1.count 0 = 2 := by
  decide

/-! ## Removal -/

/-- **Never after the subscription has been removed.**  Once the remove closures for all the
queries a client ever registered have run (`qs` covers its `AddQuery` calls; extra or
repeated closures do not matter), and whatever *other* clients do before, in between and
afterwards (`more` contains no `AddQuery` by `c`), the client is never invoked again:
neither by `Update`/`UpdateOnce` nor by a notification. -/
theorem removed_is_silent (ops more : List (Op C)) (c : C) (qs : List Path)
    (hadd : ∀ q, Op.add c q ∈ ops → q ∈ qs) (hmore : ∀ q, Op.add c q ∉ more) :
    (∀ p u, c ∉ (update (runTrie (ops ++ qs.map (Op.remove c) ++ more)) p u).1) ∧
    (∀ pfx n, c ∉ updateNotification (runTrie (ops ++ qs.map (Op.remove c) ++ more)) pfx n) := by
  have key : ∀ q, ¬ Registered (ops ++ qs.map (Op.remove c) ++ more) c q := by
    intro q hr
    rw [← mem_runSpec, List.append_assoc, runSpec_append, mem_foldl_spec] at hr
    rcases hr with ⟨h1, h2⟩ | h
    · have hq : q ∈ qs := hadd q (add_mem_of_registered ((mem_runSpec ops c q).1 h1))
      apply h2
      rw [List.mem_append, List.mem_map]
      exact Or.inl ⟨q, hq, rfl⟩
    · have := add_mem_of_registered h
      rw [List.mem_append, List.mem_map] at this
      rcases this with ⟨_, _, e⟩ | h
      · cases e
      · exact hmore q h
  constructor
  · intro p u hc
    rw [update_eq_visit, mem_updateClients, mem_visit_iff] at hc
    obtain ⟨⟨q, hr, _⟩, _⟩ := hc
    exact key q hr
  · intro pfx n hc
    obtain ⟨q, hr, _⟩ := (notification_iff_compatible _ pfx n c).1 hc
    exact key q hr

/-- **Other subscribers registered with the same paths are unaffected**: running a remove
closure of `c` changes neither whether nor how often any other client is invoked, by any
update, with or without a tracking set. -/
theorem remove_frame (ops : List (Op C)) (c c' : C) (q : Path) (hc : c' ≠ c) (p : Path)
    (u : Option (List C)) :
    (update (removeQuery (runTrie ops) q c) p u).1.count c' =
      (update (runTrie ops) p u).1.count c' := by
  have hw := (inv_run ops).1
  have hv : (visit (removeQuery (runTrie ops) q c) p).count c' = (visit (runTrie ops) p).count c' := by
    rw [count_visit c' _ p (wf_removeQuery c _ q hw), count_visit c' _ p hw,
      regs_removeQuery c _ q hw]
    unfold hits
    rw [List.countP_filter]
    congr 1
    funext r
    obtain ⟨a, b⟩ := r
    by_cases ha : a = c'
    · subst ha
      simp [hc]
    · simp [ha]
  rw [update_eq_visit, update_eq_visit]
  cases u with
  | none => simpa [updateClients_none] using hv
  | some s =>
    rw [count_updateClients_some, count_updateClients_some]
    have : c' ∈ visit (removeQuery (runTrie ops) q c) p ↔ c' ∈ visit (runTrie ops) p := by
      rw [← List.count_pos_iff, ← List.count_pos_iff, hv]
    simp only [this]

/-- "The remove function is idempotent": running a remove closure a second time changes
nothing. -/
theorem remove_idempotent (ops : List (Op C)) (c : C) (q : Path) :
    removeQuery (removeQuery (runTrie ops) q c) q c = removeQuery (runTrie ops) q c :=
  removeQuery_idem c _ q (inv_run ops).1

/-- The remove closure undoes its `AddQuery` exactly, pruning included: the trie is back to
its previous shape (no node is leaked), provided the pair was not already registered. -/
theorem remove_restores (ops : List (Op C)) (c : C) (q : Path) (h : ¬ Registered ops c q) :
    removeQuery (addQuery (runTrie ops) q c) q c = runTrie ops :=
  removeQuery_addQuery c _ q (inv_run ops).2.1 (fun hm => h ((reachable_regs ops c q).1 hm))

/-- A remove closure for a pair that is not registered does nothing. -/
theorem remove_unregistered (ops : List (Op C)) (c : C) (q : Path) (h : ¬ Registered ops c q) :
    regs (removeQuery (runTrie ops) q c) = regs (runTrie ops) := by
  rw [regs_removeQuery c _ q (inv_run ops).1, List.filter_eq_self]
  intro x hx
  simp only [ne_eq, decide_eq_true_eq]
  rintro rfl
  exact h ((reachable_regs ops c q).1 hx)

/-! ## `subscribe`: registration path, subscribe / unsubscribe -/

/-- **Snapshot and stream select by the same index**: for every request `CompletePath`
accepts, the path `addSubscription` registers for streaming is the target followed by the
path the initial snapshot is queried with (`Subscribe` rejects an empty target). -/
theorem subscription_path_consistent (pfx : Option GPath) (p : GPath) (full : Path)
    (h : completePath pfx (some p) = some full) :
    subscriptionQuery pfx p = (if targetOf pfx ≠ "" then [targetOf pfx] else []) ++ full := by
  unfold completePath at h
  unfold subscriptionQuery originElem
  cases pfx with
  | none =>
    simp only [originOf, toStrings, targetOf] at h ⊢
    by_cases ho : p.origin = ""
    · simp [ho] at h ⊢
      exact h
    · simp [ho] at h ⊢
      exact h
  | some g =>
    simp only [originOf, toStrings, targetOf] at h ⊢
    by_cases hg : g.origin = ""
    · by_cases ho : p.origin = ""
      · simp [hg, ho] at h ⊢
        rw [← h]
        by_cases ht : g.target = "" <;> simp [ht]
      · simp [hg, ho] at h ⊢
        obtain ⟨h1, h2⟩ := h
        simp [h1, ← h2]
        by_cases ht : g.target = "" <;> simp [ht]
    · by_cases ho : p.origin = ""
      · simp [hg, ho] at h ⊢
        rw [← h]
        by_cases ht : g.target = "" <;> simp [ht]
      · simp [hg, ho] at h

theorem subscription_path_consistent_target (g p : GPath) (full : Path) (ht : g.target ≠ "")
    (h : completePath (some g) (some p) = some full) :
    subscriptionQuery (some g) p = g.target :: full := by
  rw [subscription_path_consistent (some g) p full h]
  simp [targetOf, ht]

/-- `addSubscription` is a sequence of `AddQuery` calls, its `remove` the sequence of their
remove closures (every closure with its own query: value semantics) -/
theorem addSubscription_eq (t : Branch C) (s : SubList) (c : C) :
    addSubscription t s c = ((subscriptionQueries s).map (Op.add c)).foldl stepTrie t := by
  unfold addSubscription
  rw [List.foldl_map]
  rfl

theorem removeSubscription_eq (t : Branch C) (s : SubList) (c : C) :
    removeSubscription t s c = ((subscriptionQueries s).map (Op.remove c)).foldl stepTrie t := by
  unfold removeSubscription
  rw [List.foldl_map]
  rfl

/-- **After the stream ends nothing is left** (the statement defect D20 violated; repaired in
the repository, commit 10c0b34).  A client that registers only through its subscription
list (as `Subscribe` does: one fresh `matchClient` per RPC) is never invoked after the
`remove` closure of `addSubscription` ran, whatever the other clients did before (`ops`),
while the stream was up (`during`) and afterwards (`after`). -/
theorem unsubscribe_silent (ops during after : List (Op C)) (s : SubList) (c : C)
    (h1 : ∀ q, Op.add c q ∉ ops) (h2 : ∀ q, Op.add c q ∉ during) (h3 : ∀ q, Op.add c q ∉ after) :
    let t₀ := runTrie ops
    let t₁ := during.foldl stepTrie (addSubscription t₀ s c)
    let t₂ := after.foldl stepTrie (removeSubscription t₁ s c)
    (∀ p u, c ∉ (update t₂ p u).1) ∧ (∀ pfx n, c ∉ updateNotification t₂ pfx n) := by
  intro t₀ t₁ t₂
  have e : t₂ = runTrie ((ops ++ (subscriptionQueries s).map (Op.add c) ++ during) ++
      (subscriptionQueries s).map (Op.remove c) ++ after) := by
    simp only [t₂, t₁, t₀, addSubscription_eq, removeSubscription_eq, runTrie, List.foldl_append]
  rw [e]
  apply removed_is_silent _ after c (subscriptionQueries s) _ h3
  intro q hq
  simp only [List.mem_append, List.mem_map] at hq
  rcases hq with (hq | ⟨q', hq', e'⟩) | hq
  · exact absurd hq (h1 q)
  · cases e'; exact hq'
  · exact absurd hq (h2 q)

/-- … and the other clients' registrations are exactly what they were: subscribe followed
by unsubscribe restores the trie itself when the client was not registered before and the
list has no repeated path. -/
theorem unsubscribe_regs (ops : List (Op C)) (s : SubList) (c : C) (x : C × Path) :
    x ∈ regs (removeSubscription (addSubscription (runTrie ops) s c) s c) ↔
      x ∈ regs (runTrie ops) ∧ ¬ (x.1 = c ∧ x.2 ∈ subscriptionQueries s) := by
  have e : removeSubscription (addSubscription (runTrie ops) s c) s c =
      runTrie (ops ++ (subscriptionQueries s).map (Op.add c) ++ (subscriptionQueries s).map (Op.remove c)) := by
    simp only [addSubscription_eq, removeSubscription_eq, runTrie, List.foldl_append]
  obtain ⟨a, q⟩ := x
  rw [e, reachable_regs, reachable_regs, ← mem_runSpec, ← mem_runSpec, runSpec_append,
    mem_foldl_spec, runSpec_append, mem_foldl_spec]
  simp only [List.mem_map, Op.remove.injEq, reduceCtorEq, and_false, exists_false,
    not_false_eq_true, and_true]
  constructor
  · rintro (⟨h | h, hn⟩ | h)
    · refine ⟨h, ?_⟩
      rintro ⟨rfl, hq⟩
      exact hn ⟨q, hq, rfl, rfl⟩
    · have := add_mem_of_registered h
      simp only [List.mem_map, Op.add.injEq] at this
      obtain ⟨q', hq', rfl, rfl⟩ := this
      exact absurd ⟨q', hq', rfl, rfl⟩ hn
    · have := add_mem_of_registered h
      simp at this
  · rintro ⟨h, hn⟩
    refine Or.inl ⟨Or.inl h, ?_⟩
    rintro ⟨q', hq', rfl, rfl⟩
    exact hn ⟨rfl, hq'⟩

/-! ## History refinement: the model's observations are the abstract specification's

What the line-protocol driver prints in its two columns (`Driver/MA.lean`): the trie model
on the left, the registration set with `compatible` on the right.  For every history the
two agree (multiplicities included), so comparing the implementation with the model *is*
comparing it with the property. -/

/-- `upd`: per client, the number of invocations by `Match.Update` -/
theorem update_refines_spec (ops : List (Op C)) (p : Path) (c : C) :
    (update (runTrie ops) p none).1.count c = (Regs.update (runSpec ops) p).count c := by
  rw [update_count, count_specUpdate]
  rfl

/-- `once`: `UpdateOnce` over several paths with one fresh tracking set -/
theorem updateOnce_refines_spec (ops : List (Op C)) (ps : List Path) (c : C) :
    (updateMany (runTrie ops) ps (some [])).1.count c = (Regs.once (runSpec ops) ps).count c := by
  rw [List.Nodup.count (updateOnce_shared_once _ _ _).1, List.Nodup.count (nodup_specOnce _ _)]
  have : c ∈ (updateMany (runTrie ops) ps (some [])).1 ↔ c ∈ Regs.once (runSpec ops) ps := by
    rw [updateMany_iff_compatible, mem_specOnce]
    simp only [mem_runSpec]
  by_cases h : c ∈ (updateMany (runTrie ops) ps (some [])).1
  · rw [if_pos h, if_pos (this.1 h)]
  · rw [if_neg h, if_neg (fun h' => h (this.2 h'))]

/-- `updnoti`: `Server.Update` / `UpdateNotification` -/
theorem notification_refines_spec (ops : List (Op C)) (pfx : Path) (n : Noti) (c : C) :
    (updateNotification (runTrie ops) pfx n).count c =
      (Regs.once (runSpec ops) ((n.upd ++ n.del).map (fun p => pfx ++ p))).count c :=
  updateOnce_refines_spec ops _ c

/-- `dump`: the registrations held, and the number of trie nodes — one per distinct prefix
of a registered query: pruning keeps the trie minimal, nothing is ever leaked -/
theorem dump_refines_spec (ops : List (Op C)) :
    (regs (runTrie ops)).Perm (runSpec ops) ∧ nodes (runTrie ops) = Regs.nodeCount (runSpec ops) :=
  ⟨(List.perm_ext_iff_of_nodup (reachable_regs_nodup ops) (runSpec_nodup ops)).2 (inv_run ops).2.2.2,
   nodes_of_inv (inv_run ops)⟩

/-! ## Non-vacuity: concrete histories meeting the hypotheses -/

/-- two clients share a query; `c0` also holds an overlapping one -/
def exOps : List (Op Nat) :=
  [Op.add 0 ["d", "a", "*"], Op.add 1 ["d", "a", "*"], Op.add 0 ["d", "a", "b"], Op.add 2 ["d", "x"],
   Op.remove 2 ["d", "x"]]

example : Registered exOps 0 ["d", "a", "b"] :=
  ⟨[Op.add 0 ["d", "a", "*"], Op.add 1 ["d", "a", "*"]], [Op.add 2 ["d", "x"], Op.remove 2 ["d", "x"]],
    rfl, by decide⟩

/-- `Match.Update` hits `c0` twice (two compatible registrations), a notification once -/
example : (update (runTrie exOps) ["d", "a", "b"] none).1 = [0, 1, 0] := by decide
example : updateNotification (runTrie exOps) ["d"] { upd := [["a", "b"]], del := [["a"]] } = [0, 1] := by
  decide
/-- the removed client is gone and the trie is pruned back -/
example : regs (runTrie exOps) = [(0, ["d", "a", "*"]), (1, ["d", "a", "*"]), (0, ["d", "a", "b"])] := by
  decide
example : nodes (runTrie exOps) = 5 := by decide
/-- snapshot ⊆ stream is strict: a delete of the subtree `d/a` is streamed to `d/a/b`, which a
snapshot query would not return for key `d/a` -/
example : compatible ["d", "a", "b"] ["d", "a"] = true ∧ qmatches ["d", "a", "b"] ["d", "a"] = false := by
  decide
/-- an accepted request: origin in the path, target in the prefix -/
example : completePath (some { target := "dev" }) (some { origin := "oc", idx := ["a"] }) = some ["oc", "a"] ∧
    subscriptionQuery (some { target := "dev" }) { origin := "oc", idx := ["a"] } = ["dev", "oc", "a"] := by
  decide

end C06
end Gnmi
