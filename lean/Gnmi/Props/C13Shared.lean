import Gnmi.Props.C16
import Gnmi.Props.C16Mgr
import Gnmi.Model.ManagerRun
/-!
# C13 / C16 composed — managed targets sharing an address share one connection, safely

C13 quantifies over "any number of targets sharing or not sharing an address".  The manager LTS
(`Model/ManagerLTS.lean`) scripts the outcome of every connection attempt per target, which hides what
couples targets that share an address: `connection.Manager` hands all of them the *same* connection
object.  This file composes the two transition systems:

* the manager LTS with its connection ledger (`Model/ManagerConn.lean`, `Props/C16Mgr.lean`), and
* the connection-manager LTS (`Model/ConnLTS.lean`, `Props/C16.lean`),

into the product `Sys` (`PStep`): every `Connection` call of a monitor goroutine *is* a requester of the
connection-manager LTS for the address of its target (`addrOf : Name → Addr`, any function: targets
share an address when it is not injective), the call returns what that requester returned, and
`monitor`'s deferred `done()` *is* that requester's `done`.  All other steps of either system
interleave freely (dial goroutines, other requesters' sections, callbacks, timers, `Add` / `Remove` /
`Reconnect`, receive timeouts).

Both projections are executions of the component systems (`PReach.mgr`, `PReach.conn`), so every
theorem of `Props/C13.lean`, `Props/C16Mgr.lean` and `Props/C16.lean` applies to the composition.  The
coupling invariant `PInv` (a goroutine inside a session *is* an unreleased holder in the connection
manager; concurrent calls are distinct requesters) then gives, for any number of targets and any
sharing pattern:

* `shared_never_closed_while_held` — whatever the other sharers do (fail, release, get removed or
  reconnected), the connection a session is using is open, registered and counted;
* `sharers_share_one_connection` — two sessions of targets with the same address use the same
  connection object, and its reference count covers both;
* `failed_shared_dial_forgotten` — a connection object whose (shared) dial failed is not registered
  once the failure is published, so …
* `retry_after_failed_shared_dial_dials_afresh` — … the next attempt of *any* sharer that reaches the
  locked section of `Connection` creates a new object and a new dial goroutine, whose first step
  invokes the Dial function again (the stale error is never served: seeded change `c13_seed7`).
-/
namespace Gnmi
namespace C13Shared
open Manager

/-! ## requesters across a step of the connection-manager LTS -/

/-- the requester a label is about -/
def subj : Conn.Label → Option Nat
  | .cancel r => some r
  | .r0 r => some r
  | .r1 r => some r
  | .r2 r => some r
  | .r3 r => some r
  | .done r => some r
  | _ => none

theorem remove_reqs (c : Conn.Cfg) (a : Conn.Addr) : (Conn.remove c a).reqs = c.reqs := by
  unfold Conn.remove; split
  · rfl
  · split <;> rfl

theorem doD2_reqs (c : Conn.Cfg) (o : Nat) (ob : Conn.Obj) (e : Conn.Err) :
    (Conn.doD2 c o ob e).reqs = c.reqs := by
  unfold Conn.doD2
  simp only []
  split
  · exact remove_reqs c _
  · split
    · exact remove_reqs c _
    · exact remove_reqs c _

/-- What one step does to requester `r`: it stays, keeps its address; it is untouched unless the step
is its own; once it has returned (`held`, `failed`) only its own `done` changes its program counter. -/
def ReqOK (l : Conn.Label) (r : Nat) (q : Conn.Req) (reqs' : List Conn.Req) : Prop :=
  ∃ q', reqs'[r]? = some q' ∧ q'.addr = q.addr ∧
    (subj l ≠ some r → q' = q) ∧
    (∀ o b, q.pc = .held o b → l ≠ .done r → q'.pc = q.pc) ∧
    (∀ e, q.pc = .failed e → q'.pc = q.pc)

theorem ReqOK.same {l : Conn.Label} {r : Nat} {q : Conn.Req} {reqs : List Conn.Req} (hq : reqs[r]? = some q) :
    ReqOK l r q reqs :=
  ⟨q, hq, rfl, fun _ => rfl, fun _ _ _ _ => rfl, fun _ _ => rfl⟩

theorem ReqOK.set {l : Conn.Label} {r r' : Nat} {q q0 q2 : Conn.Req} {reqs : List Conn.Req}
    (hq : reqs[r]? = some q) (hq0 : reqs[r']? = some q0) (hs : subj l = some r') (ha : q2.addr = q0.addr)
    (hh : ∀ o b, q0.pc = .held o b → l ≠ .done r' → q2.pc = q0.pc)
    (hf : ∀ e, q0.pc = .failed e → q2.pc = q0.pc) : ReqOK l r q (reqs.set r' q2) := by
  by_cases hr : r = r'
  · subst hr
    rw [hq] at hq0; cases hq0
    refine ⟨q2, ?_, ha, fun hne => absurd hs hne, hh, hf⟩
    rw [Conn.getElem?_set_of hq]; simp
  · refine ⟨q, ?_, rfl, fun _ => rfl, fun _ _ _ _ => rfl, fun _ _ => rfl⟩
    rw [Conn.getElem?_set_of hq0]; simp [hr, hq]

theorem step_req {c c' : Conn.Cfg} {l : Conn.Label} (h : Conn.step c l = some c') {r : Nat} {q : Conn.Req}
    (hq : c.reqs[r]? = some q) : ReqOK l r q c'.reqs := by
  unfold Conn.step at h
  split at h
  · cases h
  cases l with
  | start a dk cn =>
    simp only [Conn.stepL, Option.some.injEq] at h
    subst h
    have hr := Conn.lt_of_getElem? hq
    refine ⟨q, ?_, rfl, fun _ => rfl, fun _ _ _ _ => rfl, fun _ _ => rfl⟩
    simp only [Conn.getElem?_push]
    rw [if_neg (by omega)]; exact hq
  | cancel r' =>
    simp only [Conn.stepL] at h
    split at h <;> try (cases h; done)
    rename_i q0 hq0
    cases h
    exact ReqOK.set hq hq0 rfl rfl (fun _ _ _ _ => rfl) (fun _ _ => rfl)
  | r0 r' =>
    simp only [Conn.stepL] at h
    split at h <;> try (cases h; done)
    rename_i q0 hq0
    split at h <;> try (cases h; done)
    rename_i hpc
    cases h
    exact ReqOK.set hq hq0 rfl rfl (fun o b hh _ => by rw [hpc] at hh; cases hh) (fun e hh => by rw [hpc] at hh; cases hh)
  | r1 r' =>
    simp only [Conn.stepL] at h
    split at h <;> try (cases h; done)
    rename_i q0 hq0
    split at h <;> try (cases h; done)
    rename_i hpc
    cases h
    unfold Conn.doR1
    split
    · split
      · exact ReqOK.set hq hq0 rfl rfl (fun o b hh _ => by rw [hpc] at hh; cases hh) (fun e hh => by rw [hpc] at hh; cases hh)
      · exact ReqOK.same hq
    · exact ReqOK.set hq hq0 rfl rfl (fun o b hh _ => by rw [hpc] at hh; cases hh) (fun e hh => by rw [hpc] at hh; cases hh)
  | r2 r' =>
    simp only [Conn.stepL] at h
    split at h <;> try (cases h; done)
    rename_i q0 hq0
    split at h <;> try (cases h; done)
    rename_i o' hpc
    split at h <;> try (cases h; done)
    split at h <;> try (cases h; done)
    cases h
    exact ReqOK.set hq hq0 rfl rfl (fun o b hh _ => by rw [hpc] at hh; cases hh) (fun e hh => by rw [hpc] at hh; cases hh)
  | r3 r' =>
    simp only [Conn.stepL] at h
    split at h <;> try (cases h; done)
    rename_i q0 hq0
    split at h <;> try (cases h; done)
    rename_i o' hpc
    split at h <;> try (cases h; done)
    split at h <;>
      (cases h
       exact ReqOK.set hq hq0 rfl rfl (fun o b hh _ => by rw [hpc] at hh; cases hh) (fun e hh => by rw [hpc] at hh; cases hh))
  | done r' =>
    simp only [Conn.stepL] at h
    split at h <;> try (cases h; done)
    rename_i q0 hq0
    split at h <;> try (cases h; done)
    · cases h; exact ReqOK.same hq
    · cases h; exact ReqOK.same hq
    · rename_i o' hpc
      split at h <;> try (cases h; done)
      rename_i ob ho
      cases h
      have hreqs : (Conn.doDone c r' q0 o' ob).reqs = c.reqs.set r' { q0 with pc := .held o' true } := by
        unfold Conn.doDone
        simp only []
        split
        · rw [remove_reqs]
        · rfl
      rw [hreqs]
      exact ReqOK.set hq hq0 rfl rfl (fun o b _ hne => absurd rfl hne) (fun e hh => by rw [hpc] at hh; cases hh)
  | d1a o =>
    simp only [Conn.stepL] at h
    split at h <;> try (cases h; done)
    split at h <;> try (cases h; done)
    split at h <;> (cases h; exact ReqOK.same hq)
  | d1b o out =>
    simp only [Conn.stepL] at h
    split at h <;> try (cases h; done)
    split at h <;> try (cases h; done)
    split at h
    · cases h; exact ReqOK.same hq
    · cases h; exact ReqOK.same hq
    · split at h <;> try (cases h; done)
      split at h <;> try (cases h; done)
      cases h; exact ReqOK.same hq
  | d2 o =>
    simp only [Conn.stepL] at h
    split at h <;> try (cases h; done)
    split at h <;> try (cases h; done)
    cases h
    show ReqOK _ r q (Conn.doD2 c o _ _).reqs
    rw [doD2_reqs]
    exact ReqOK.same hq
  | d3 o =>
    simp only [Conn.stepL] at h
    split at h <;> try (cases h; done)
    split at h <;> try (cases h; done)
    cases h; exact ReqOK.same hq

/-! ## the product -/

/-- a composed configuration -/
structure Sys where
  m : Manager.Cfg
  g : Manager.Ghost
  k : Conn.Cfg
  /-- instance ↦ the requester of its current (or last) `Connection` call -/
  cur : Nat → Nat

def Sys.init : Sys := { m := Cfg.init, g := Ghost.init, k := Conn.init, cur := fun _ => 0 }

/-- labels of the connection-manager LTS that are not the interface with the caller: the sections of
`Connection` after the call and the dial goroutine -/
def internal : Conn.Label → Bool
  | .r0 _ => true
  | .r1 _ => true
  | .r2 _ => true
  | .r3 _ => true
  | .d1a _ => true
  | .d1b _ _ => true
  | .d2 _ => true
  | .d3 _ => true
  | _ => false

/-- The goroutine is inside `Connection` or inside a session. -/
def active (p : Pc) : Bool := decide (p = .dial) || C16Mgr.holds p

/-- A program-counter change that is not part of the interface with the connection manager. -/
def Quiet (p p' : Pc) : Prop := active p' = active p ∧ C16Mgr.holds p' = C16Mgr.holds p

variable (env : Name → Nat → Attempt) (addrOf : Name → Conn.Addr)

/-- The composed transition relation. -/
inductive PStep : Sys → Sys → Prop
  /-- a manager step away from the interface (callbacks, timers, credentials, the stream, `Add`,
  `Remove`, `Reconnect`, receive timeout) -/
  | mgr {s : Sys} {l : Label} {m' : Cfg} (hs : Step env s.m l m')
      (hq : ∀ j, Quiet (s.m.insts j).pc (m'.insts j).pc) :
      PStep s { s with m := m', g := ghostNext s.m m' s.g }
  /-- `createConn` calls `m.connectionManager.Connection(ctx, addr, dialer)`: a new requester for the
  address of the target (`cn`: whether its context is already cancelled) -/
  | call {s : Sys} {l : Label} {m' : Cfg} {k' : Conn.Cfg} (i : Nat) (cn : Bool) (hs : Step env s.m l m')
      (h1 : active (s.m.insts i).pc = false) (h2 : (m'.insts i).pc = .dial)
      (ho : ∀ j, j ≠ i → (m'.insts j).pc = (s.m.insts j).pc)
      (hk : Conn.step s.k (.start (addrOf (s.m.insts i).name) true cn) = some k') :
      PStep s { m := m', g := ghostNext s.m m' s.g, k := k', cur := upd s.cur i s.k.reqs.length }
  /-- `Connection` returned `err == nil` (`MonStep.dialOk`): the requester has returned a connection -/
  | retOk {s : Sys} {l : Label} {m' : Cfg} (i : Nat) (hs : Step env s.m l m')
      (h1 : (s.m.insts i).pc = .dial) (h2 : C16Mgr.holds (m'.insts i).pc = true)
      (ho : ∀ j, j ≠ i → (m'.insts j).pc = (s.m.insts j).pc)
      (hr : ∃ q o, s.k.reqs[s.cur i]? = some q ∧ q.pc = .held o false) :
      PStep s { s with m := m', g := ghostNext s.m m' s.g }
  /-- `createConn` failed (`MonStep.dialFail`): the requester has returned an error -/
  | retErr {s : Sys} {l : Label} {m' : Cfg} (i : Nat) (hs : Step env s.m l m')
      (h1 : (s.m.insts i).pc = .dial) (h2 : active (m'.insts i).pc = false)
      (ho : ∀ j, j ≠ i → (m'.insts j).pc = (s.m.insts j).pc)
      (hr : ∃ q e, s.k.reqs[s.cur i]? = some q ∧ q.pc = .failed e) :
      PStep s { s with m := m', g := ghostNext s.m m' s.g }
  /-- a way out of `monitor` after a successful `createConn`: the deferred `done()` is the requester's -/
  | release {s : Sys} {l : Label} {m' : Cfg} {k' : Conn.Cfg} (i : Nat) (hs : Step env s.m l m')
      (h1 : C16Mgr.holds (s.m.insts i).pc = true) (h2 : active (m'.insts i).pc = false)
      (ho : ∀ j, j ≠ i → (m'.insts j).pc = (s.m.insts j).pc)
      (hk : Conn.step s.k (.done (s.cur i)) = some k') :
      PStep s { s with m := m', g := ghostNext s.m m' s.g, k := k' }
  /-- a section of `Connection` past the call, or a step of a dial goroutine -/
  | conn {s : Sys} {k' : Conn.Cfg} (l : Conn.Label) (hl : internal l = true) (hk : Conn.step s.k l = some k') :
      PStep s { s with k := k' }
  /-- the context of a pending `Connection` call is cancelled (`Remove`, `Reconnect` were applied) -/
  | cancel {s : Sys} {k' : Conn.Cfg} (i : Nat) (hc : (s.m.insts i).ctxDone = true)
      (hk : Conn.step s.k (.cancel (s.cur i)) = some k') :
      PStep s { s with k := k' }

inductive PReach : Sys → Prop
  | init : PReach Sys.init
  | step {s s' : Sys} : PReach s → PStep env addrOf s s' → PReach s'

/-! ## projections -/

theorem PStep.mgr_part {s s' : Sys} (h : PStep env addrOf s s') :
    (s'.m = s.m ∧ s'.g = s.g) ∨ ∃ l, Step env s.m l s'.m ∧ s'.g = ghostNext s.m s'.m s.g := by
  cases h with
  | mgr hs _ => exact .inr ⟨_, hs, rfl⟩
  | call i cn hs _ _ _ _ => exact .inr ⟨_, hs, rfl⟩
  | retOk i hs _ _ _ _ => exact .inr ⟨_, hs, rfl⟩
  | retErr i hs _ _ _ _ => exact .inr ⟨_, hs, rfl⟩
  | release i hs _ _ _ _ => exact .inr ⟨_, hs, rfl⟩
  | conn l _ _ => exact .inl ⟨rfl, rfl⟩
  | cancel i _ _ => exact .inl ⟨rfl, rfl⟩

theorem PStep.conn_part {s s' : Sys} (h : PStep env addrOf s s') :
    s'.k = s.k ∨ ∃ l, Conn.step s.k l = some s'.k := by
  cases h with
  | mgr _ _ => exact .inl rfl
  | call i cn _ _ _ _ hk => exact .inr ⟨_, hk⟩
  | retOk i _ _ _ _ _ => exact .inl rfl
  | retErr i _ _ _ _ _ => exact .inl rfl
  | release i _ _ _ _ hk => exact .inr ⟨_, hk⟩
  | conn l _ hk => exact .inr ⟨_, hk⟩
  | cancel i _ hk => exact .inr ⟨_, hk⟩

/-- The manager side of a composed execution is an execution of the manager LTS with its ledger:
`Props/C13.lean` and `Props/C16Mgr.lean` apply. -/
theorem PReach.mgr {s : Sys} (h : PReach env addrOf s) : GReach env s.m s.g := by
  induction h with
  | init => exact .init
  | step _ hs ih =>
    rcases hs.mgr_part with ⟨h1, h2⟩ | ⟨l, h1, h2⟩
    · rw [h1, h2]; exact ih
    · rw [h2]; exact .step ih h1

/-- The connection side is an execution of the connection-manager LTS: `Props/C16.lean` applies. -/
theorem PReach.conn {s : Sys} (h : PReach env addrOf s) : Conn.Reach s.k := by
  induction h with
  | init => exact .init
  | step _ hs ih =>
    rcases hs.conn_part with h1 | ⟨l, h1⟩
    · rw [h1]; exact ih
    · exact .step l ih h1

/-! ## the coupling invariant -/

structure PInv (s : Sys) : Prop where
  /-- a goroutine inside a session is an unreleased holder of a connection for its target's address -/
  hold : ∀ i, C16Mgr.holds (s.m.insts i).pc = true →
    ∃ q o, s.k.reqs[s.cur i]? = some q ∧ q.pc = .held o false ∧ q.addr = addrOf (s.m.insts i).name
  /-- a goroutine inside `Connection` has a requester for its target's address -/
  dial : ∀ i, (s.m.insts i).pc = .dial →
    ∃ q, s.k.reqs[s.cur i]? = some q ∧ q.addr = addrOf (s.m.insts i).name
  /-- concurrent calls / sessions are distinct requesters -/
  inj : ∀ i j, i ≠ j → active (s.m.insts i).pc = true → active (s.m.insts j).pc = true → s.cur i ≠ s.cur j

theorem active_of_holds {p : Pc} (h : C16Mgr.holds p = true) : active p = true := by
  simp [active, h]

theorem active_dial : active .dial = true := by simp [active]

theorem holds_dial : C16Mgr.holds .dial = false := rfl

/-- an active goroutine keeps its name across a manager step -/
theorem name_of_active {c c' : Cfg} {l : Label} (hs : Step env c l c') {j : Nat}
    (ha : active (c'.insts j).pc = true) : (c'.insts j).name = (c.insts j).name := by
  rcases step_inst hs j with ⟨_, _, hn⟩ | ⟨ml, hm⟩ | ⟨_, n, rt, _, hI⟩
  · exact hn
  · exact hm.name_eq
  · rw [hI] at ha; simp [active, C16Mgr.holds] at ha

theorem cur_lt {s : Sys} (hi : PInv addrOf s) {i : Nat} (ha : active (s.m.insts i).pc = true) :
    s.cur i < s.k.reqs.length := by
  unfold active at ha
  rcases Bool.or_eq_true_iff.mp ha with h | h
  · obtain ⟨q, hq, _⟩ := hi.dial i (by simpa using h)
    exact Conn.lt_of_getElem? hq
  · obtain ⟨q, o, hq, _⟩ := hi.hold i h
    exact Conn.lt_of_getElem? hq

theorem pinv_init : PInv addrOf Sys.init := by
  refine ⟨?_, ?_, ?_⟩
  · intro i h; exact absurd h (by simp [Sys.init, Cfg.init, Inst.dead, C16Mgr.holds])
  · intro i h; exact absurd h (by simp [Sys.init, Cfg.init, Inst.dead])
  · intro i j _ h; exact absurd h (by simp [Sys.init, Cfg.init, Inst.dead, active, C16Mgr.holds])

/-- the coupling survives a step of the connection manager that is not a `done` of an active requester -/
theorem pinv_conn {s : Sys} {k' : Conn.Cfg} {l : Conn.Label} (hi : PInv addrOf s)
    (hk : Conn.step s.k l = some k')
    (hnd : ∀ i, C16Mgr.holds (s.m.insts i).pc = true → l ≠ .done (s.cur i)) :
    PInv addrOf { s with k := k' } := by
  refine ⟨?_, ?_, hi.inj⟩
  · intro i h
    obtain ⟨q, o, hq, hpc, ha⟩ := hi.hold i h
    obtain ⟨q', hq', haddr, _, hheld, _⟩ := step_req hk hq
    exact ⟨q', o, hq', by rw [hheld o false hpc (hnd i h)]; exact hpc, by rw [haddr]; exact ha⟩
  · intro i h
    obtain ⟨q, hq, ha⟩ := hi.dial i h
    obtain ⟨q', hq', haddr, _⟩ := step_req hk hq
    exact ⟨q', hq', by rw [haddr]; exact ha⟩

/-- the coupling survives a manager step in which only instance `i` crosses the interface, given the
coupling facts for `i` afterwards -/
theorem pinv_mgr {s : Sys} {l : Label} {m' : Cfg} {g' : Ghost} (hi : PInv addrOf s) (hs : Step env s.m l m')
    (i : Nat) (ho : ∀ j, j ≠ i → Quiet (s.m.insts j).pc (m'.insts j).pc)
    (hhold : C16Mgr.holds (m'.insts i).pc = true →
      ∃ q o, s.k.reqs[s.cur i]? = some q ∧ q.pc = .held o false ∧ q.addr = addrOf (s.m.insts i).name)
    (hdial : (m'.insts i).pc = .dial →
      ∃ q, s.k.reqs[s.cur i]? = some q ∧ q.addr = addrOf (s.m.insts i).name)
    (hact : active (m'.insts i).pc = true → active (s.m.insts i).pc = true) :
    PInv addrOf { s with m := m', g := g' } := by
  have hactj : ∀ j, active (m'.insts j).pc = true → active (s.m.insts j).pc = true := by
    intro j hj
    by_cases hji : j = i
    · subst hji; exact hact hj
    · rw [← (ho j hji).1]; exact hj
  refine ⟨?_, ?_, ?_⟩
  · intro j h
    show ∃ q o, s.k.reqs[s.cur j]? = some q ∧ q.pc = .held o false ∧ q.addr = addrOf (m'.insts j).name
    rw [name_of_active env hs (active_of_holds h)]
    by_cases hji : j = i
    · subst hji; exact hhold h
    · exact hi.hold j (by rw [← (ho j hji).2]; exact h)
  · intro j h
    show ∃ q, s.k.reqs[s.cur j]? = some q ∧ q.addr = addrOf (m'.insts j).name
    have hact' : active (m'.insts j).pc = true := by
      have : (m'.insts j).pc = .dial := h
      rw [this]; exact active_dial
    rw [name_of_active env hs hact']
    by_cases hji : j = i
    · subst hji; exact hdial h
    · -- quiet: active and holds unchanged, so the old pc is `dial` as well
      have hq := ho j hji
      have h' : (m'.insts j).pc = .dial := h
      have ha : active (s.m.insts j).pc = true := by rw [← hq.1, h']; exact active_dial
      have hh : C16Mgr.holds (s.m.insts j).pc = false := by rw [← hq.2, h']; rfl
      have : (s.m.insts j).pc = .dial := by
        unfold active at ha
        rcases Bool.or_eq_true_iff.mp ha with h1 | h1
        · simpa using h1
        · rw [hh] at h1; cases h1
      exact hi.dial j this
  · intro a b hab ha hb
    exact hi.inj a b hab (hactj a ha) (hactj b hb)

theorem quiet_of_eq {p p' : Pc} (h : p' = p) : Quiet p p' := by subst h; exact ⟨rfl, rfl⟩

theorem pinv_step {s s' : Sys} (hi : PInv addrOf s) (h : PStep env addrOf s s') :
    PInv addrOf s' := by
  cases h with
  | mgr hs hq =>
    -- every instance is quiet: use instance 0 as the (trivial) crossing one
    refine pinv_mgr env addrOf hi hs 0 (fun j _ => hq j) ?_ ?_ ?_
    · intro h
      exact hi.hold 0 (by rw [← (hq 0).2]; exact h)
    · intro h
      have ha : active (s.m.insts 0).pc = true := by rw [← (hq 0).1, h]; exact active_dial
      have hh : C16Mgr.holds (s.m.insts 0).pc = false := by rw [← (hq 0).2, h]; rfl
      have : (s.m.insts 0).pc = .dial := by
        unfold active at ha
        rcases Bool.or_eq_true_iff.mp ha with h1 | h1
        · simpa using h1
        · rw [hh] at h1; cases h1
      exact hi.dial 0 this
    · intro h; rw [← (hq 0).1]; exact h
  | @call l m' k' i cn hs h1 h2 ho hk =>
    -- the new requester is appended: old requesters are untouched
    have hk' : k' = { s.k with reqs := s.k.reqs ++ [{ addr := addrOf (s.m.insts i).name, dialerOK := true, cancelled := cn }] } := by
      unfold Conn.step at hk
      split at hk
      · cases hk
      · simp only [Conn.stepL, Option.some.injEq] at hk; exact hk.symm
    have hold_old : ∀ (r : Nat) (q : Conn.Req), s.k.reqs[r]? = some q → k'.reqs[r]? = some q := by
      intro r q hq
      rw [hk']; simp only [Conn.getElem?_push]
      rw [if_neg (by have := Conn.lt_of_getElem? hq; omega)]; exact hq
    have hactj : ∀ j, j ≠ i → active (m'.insts j).pc = true → active (s.m.insts j).pc = true := by
      intro j hji hj; rw [← ho j hji]; exact hj
    refine ⟨?_, ?_, ?_⟩
    · intro j h
      show ∃ q o, k'.reqs[upd s.cur i s.k.reqs.length j]? = some q ∧ q.pc = .held o false ∧
        q.addr = addrOf (m'.insts j).name
      by_cases hji : j = i
      · subst hji; rw [h2] at h; cases h
      · rw [upd_other _ _ hji, name_of_active env hs (active_of_holds h)]
        obtain ⟨q, o, hq, hpc, ha⟩ := hi.hold j (by rw [← ho j hji]; exact h)
        exact ⟨q, o, hold_old _ _ hq, hpc, ha⟩
    · intro j h
      show ∃ q, k'.reqs[upd s.cur i s.k.reqs.length j]? = some q ∧ q.addr = addrOf (m'.insts j).name
      have hact' : active (m'.insts j).pc = true := by
        have : (m'.insts j).pc = .dial := h
        rw [this]; exact active_dial
      rw [name_of_active env hs hact']
      by_cases hji : j = i
      · subst hji
        rw [upd_same, hk']
        refine ⟨{ addr := addrOf (s.m.insts j).name, dialerOK := true, cancelled := cn }, ?_, rfl⟩
        show (s.k.reqs ++ [_])[s.k.reqs.length]? = some _
        rw [Conn.getElem?_push]; simp
      · rw [upd_other _ _ hji]
        obtain ⟨q, hq, ha⟩ := hi.dial j (by rw [← ho j hji]; exact h)
        exact ⟨q, hold_old _ _ hq, ha⟩
    · intro a b hab ha hb
      show upd s.cur i s.k.reqs.length a ≠ upd s.cur i s.k.reqs.length b
      by_cases hai : a = i
      · subst hai
        have hbi : b ≠ a := fun e => hab e.symm
        rw [upd_same, upd_other _ _ hbi]
        have := cur_lt addrOf hi (hactj b hbi hb)
        omega
      · by_cases hbi : b = i
        · subst hbi
          rw [upd_same, upd_other _ _ hai]
          have := cur_lt addrOf hi (hactj a hai ha)
          omega
        · rw [upd_other _ _ hai, upd_other _ _ hbi]
          exact hi.inj a b hab (hactj a hai ha) (hactj b hbi hb)
  | retOk i hs h1 h2 ho hr =>
    refine pinv_mgr env addrOf hi hs i (fun j hj => quiet_of_eq (ho j hj)) ?_ ?_ ?_
    · intro _
      obtain ⟨q, o, hq, hpc⟩ := hr
      obtain ⟨q0, hq0, ha⟩ := hi.dial i h1
      rw [hq] at hq0; cases hq0
      exact ⟨q, o, hq, hpc, ha⟩
    · intro h; rw [h] at h2; cases h2
    · intro _; rw [h1]; exact active_dial
  | retErr i hs h1 h2 ho hr =>
    refine pinv_mgr env addrOf hi hs i (fun j hj => quiet_of_eq (ho j hj)) ?_ ?_ ?_
    · intro h; rw [active_of_holds h] at h2; cases h2
    · intro h; rw [h, active_dial] at h2; cases h2
    · intro h; rw [h] at h2; cases h2
  | @release l m' k' i hs h1 h2 ho hk =>
    -- first the manager part (instance i leaves the session), then the `done` of its requester
    have hm : PInv addrOf { s with m := m', g := ghostNext s.m m' s.g } := by
      refine pinv_mgr env addrOf hi hs i (fun j hj => quiet_of_eq (ho j hj)) ?_ ?_ ?_
      · intro h; rw [active_of_holds h] at h2; cases h2
      · intro h; rw [h, active_dial] at h2; cases h2
      · intro h; rw [h] at h2; cases h2
    have := pinv_conn addrOf (s := { s with m := m', g := ghostNext s.m m' s.g }) (k' := k') hm hk (by
      intro j hj hl
      -- an instance still holding after the step is not `i`, and its requester is not `i`'s
      have hji : j ≠ i := by
        intro e; subst e
        have : active (m'.insts j).pc = true := active_of_holds hj
        rw [this] at h2; cases h2
      have hjold : C16Mgr.holds (s.m.insts j).pc = true := by rw [← ho j hji]; exact hj
      have hne := hi.inj j i hji (active_of_holds hjold) (active_of_holds h1)
      injection hl with hl
      exact hne hl.symm)
    exact this
  | conn l hl hk =>
    exact pinv_conn addrOf hi hk (by intro i _ e; subst e; cases hl)
  | cancel i hc hk =>
    exact pinv_conn addrOf hi hk (by intro j _ e; cases e)

/-- The coupling holds in every reachable composed configuration. -/
theorem pinv_reach {s : Sys} (h : PReach env addrOf s) : PInv addrOf s := by
  induction h with
  | init => exact pinv_init addrOf
  | step _ hs ih => exact pinv_step env addrOf ih hs

/-! ## the property, for targets sharing addresses -/

/-- `shared_never_closed_while_held`: in every reachable configuration of the composition, the
connection a session is using is a real connection for the target's address, **not closed**, still
registered in `m.conns`, with a positive reference count — whatever the other targets sharing the
address have done meanwhile (failed, released, been removed or reconnected). -/
theorem shared_never_closed_while_held {s : Sys} (h : PReach env addrOf s) {i : Nat}
    (hh : C16Mgr.holds (s.m.insts i).pc = true) :
    ∃ (q : Conn.Req) (o : Nat) (ob : Conn.Obj) (n : Nat),
      s.k.reqs[s.cur i]? = some q ∧ q.pc = .held o false ∧ s.k.objs[o]? = some ob ∧
      ob.addr = addrOf (s.m.insts i).name ∧ ob.conn = some n ∧ ob.closed = 0 ∧ Conn.live s.k o ob ∧ 1 ≤ ob.ref := by
  obtain ⟨q, o, hq, hpc, ha⟩ := (pinv_reach env addrOf h).hold i hh
  obtain ⟨ob, n, ho, hc, hcl, hl, hr⟩ := C16.handed_conn_open (h.conn env addrOf) hq hpc
  obtain ⟨ob', ho', haddr, _⟩ := ((Conn.inv_reach (h.conn env addrOf)).reqs _ _ hq).held_ok o false hpc
  rw [ho] at ho'; cases ho'
  exact ⟨q, o, ob, n, hq, hpc, ho, by rw [haddr]; exact ha, hc, hcl, hl, hr⟩

/-- `sharers_share_one_connection`: two sessions of (different) goroutines whose targets have the same
address use the *same* connection object, and its reference count covers both. -/
theorem sharers_share_one_connection {s : Sys} (h : PReach env addrOf s) {i j : Nat} (hij : i ≠ j)
    (hi : C16Mgr.holds (s.m.insts i).pc = true) (hj : C16Mgr.holds (s.m.insts j).pc = true)
    (ha : addrOf (s.m.insts i).name = addrOf (s.m.insts j).name) :
    ∃ (o : Nat) (ob : Conn.Obj) (qi qj : Conn.Req), s.k.objs[o]? = some ob ∧
      s.k.reqs[s.cur i]? = some qi ∧ qi.pc = .held o false ∧
      s.k.reqs[s.cur j]? = some qj ∧ qj.pc = .held o false ∧ s.cur i ≠ s.cur j ∧
      ob.closed = 0 ∧ 2 ≤ ob.ref := by
  obtain ⟨qi, oi, obi, ni, hqi, hpi, hoi, hai, _, hcl, hli, _⟩ := shared_never_closed_while_held env addrOf h hi
  obtain ⟨qj, oj, obj, nj, hqj, hpj, hoj, haj, _, _, hlj, _⟩ := shared_never_closed_while_held env addrOf h hj
  have hne := (pinv_reach env addrOf h).inj i j hij (active_of_holds hi) (active_of_holds hj)
  -- both objects are the one registered under the common address
  have hoo : oi = oj := by
    unfold Conn.live at hli hlj
    rw [hai] at hli; rw [haj, ← ha] at hlj
    rw [hli] at hlj; cases hlj; rfl
  subst hoo
  rw [hoi] at hoj; cases hoj
  refine ⟨oi, obi, qi, qj, hoi, hqi, hpi, hqj, hpj, hne, hcl, ?_⟩
  -- ref = number of holders ≥ 2
  obtain ⟨href, _⟩ := C16.ref_is_holders (h.conn env addrOf) hoi hli
  have h2 : 2 ≤ Conn.cnt oi s.k.reqs := by
    have hholds_i : qi.pc.holds oi = true := by rw [hpi]; simp [Conn.RPc.holds]
    have hholds_j : qj.pc.holds oi = true := by rw [hpj]; simp [Conn.RPc.holds]
    -- remove requester `cur i` from the count, `cur j` is still counted
    have hset := Conn.cnt_set hqi { qi with pc := .failed .dial } oi
    have hqj' : (s.k.reqs.set (s.cur i) { qi with pc := .failed .dial })[s.cur j]? = some qj := by
      rw [Conn.getElem?_set_of hqi]; simp [Ne.symm hne, hqj]
    have hpos := Conn.cnt_pos hqj' hholds_j
    simp only [hholds_i] at hset
    simp [Conn.RPc.holds] at hset
    omega
  omega

/-- `failed_shared_dial_forgotten`: once the failure of a (shared) dial is published in the connection
object, that object is not registered any more — no later `Connection` for the address can find it. -/
theorem failed_shared_dial_forgotten {s : Sys} (h : PReach env addrOf s) {o : Nat} {ob : Conn.Obj}
    (ho : s.k.objs[o]? = some ob) (he : ob.err.isSome = true) : ¬ Conn.live s.k o ob :=
  (C16.failed_object_unregistered (h.conn env addrOf) ho he).1

/-- `retry_after_failed_shared_dial_dials_afresh`: when a goroutine retrying a target is in the locked
section of `Connection` and nothing is registered for the address (in particular after a failed shared
dial, by `failed_shared_dial_forgotten`), the composition can take the step, it creates a **new**
connection object, and that object's dial goroutine invokes the Dial function again. -/
theorem retry_after_failed_shared_dial_dials_afresh {s : Sys} (h : PReach env addrOf s) {i : Nat}
    (hd : (s.m.insts i).pc = .dial) {q : Conn.Req} (hq : s.k.reqs[s.cur i]? = some q) (hpc : q.pc = .r1)
    (hf : Conn.find s.k.conns (addrOf (s.m.insts i).name) = none) :
    ∃ k', PStep env addrOf s { s with k := k' } ∧
      Conn.find k'.conns (addrOf (s.m.insts i).name) = some s.k.objs.length ∧
      k'.reqs[s.cur i]? = some { q with pc := .wait s.k.objs.length } ∧
      (q.dialerOK = true → ∃ k'', PStep env addrOf { s with k := k' } { s with k := k'' } ∧ k''.dials = s.k.dials + 1) := by
  obtain ⟨q0, hq0, ha⟩ := (pinv_reach env addrOf h).dial i hd
  rw [hq] at hq0; cases hq0
  obtain ⟨k', hk', hfind, _, hreq, hdial⟩ :=
    C16.next_request_dials_afresh (h.conn env addrOf) hf hq hpc ha
  refine ⟨k', .conn (.r1 (s.cur i)) rfl hk', hfind, hreq, ?_⟩
  intro hok
  obtain ⟨k'', hk'', hn⟩ := hdial hok
  exact ⟨k'', .conn (.d1a s.k.objs.length) rfl hk'', hn⟩

/-! ## The hypotheses are satisfiable (non-vacuity): executable composed runs

`RSys.move` performs one composed step, carrying the `PReach` proof along (as `RCfg.move` does for the
manager LTS); the examples are evaluated by the kernel. -/

section examples

instance (p p' : Pc) : Decidable (Quiet p p') := by unfold Quiet; infer_instance

theorem applyMove_mon_insts {c c' : Cfg} {i : Nat} {l : Label} (h : applyMove env c (.mon i) = some (l, c')) :
    ∀ j, j ≠ i → c'.insts j = c.insts j := by
  simp only [applyMove] at h
  split at h
  · cases h; intro j hj; simp [upd_other _ _ hj]
  · cases h

theorem applyMove_add_insts {c c' : Cfg} {n : Name} {rt : Bool} {l : Label}
    (h : applyMove env c (.add n rt) = some (l, c')) : ∀ j, j ≠ c.nInst → c'.insts j = c.insts j := by
  simp only [applyMove] at h
  split at h
  · cases h; intro j hj; simp [upd_other _ _ hj]
  · cases h; intro _ _; rfl
  · cases h

/-- a composed configuration with the proof that the composition reaches it -/
structure RSys where
  s : Sys
  reach : PReach env addrOf s

inductive PMove
  | mon (i : Nat)                 -- a quiet step of goroutine `i`
  | add (n : Name)
  | call (i : Nat) (cn : Bool)
  | retOk (i : Nat)
  | retErr (i : Nat)
  | release (i : Nat)
  | conn (l : Conn.Label)

def RSys.init : RSys env addrOf := ⟨Sys.init, .init⟩

def RSys.move (r : RSys env addrOf) : PMove → Option (RSys env addrOf)
  | .mon i =>
    match h : applyMove env r.s.m (.mon i) with
    | some (_, m') =>
      if hq : Quiet (r.s.m.insts i).pc (m'.insts i).pc then
        some ⟨_, .step r.reach (.mgr (applyMove_sound h) (fun j => by
          by_cases hj : j = i
          · subst hj; exact hq
          · exact quiet_of_eq (by rw [applyMove_mon_insts env h j hj])))⟩
      else none
    | none => none
  | .add n =>
    match h : applyMove env r.s.m (.add n false) with
    | some (_, m') =>
      if hq : Quiet (r.s.m.insts r.s.m.nInst).pc (m'.insts r.s.m.nInst).pc then
        some ⟨_, .step r.reach (.mgr (applyMove_sound h) (fun j => by
          by_cases hj : j = r.s.m.nInst
          · subst hj; exact hq
          · exact quiet_of_eq (by rw [applyMove_add_insts env h j hj])))⟩
      else none
    | none => none
  | .call i cn =>
    match h : applyMove env r.s.m (.mon i) with
    | some (_, m') =>
      if h1 : active (r.s.m.insts i).pc = false ∧ (m'.insts i).pc = .dial then
        match hk : Conn.step r.s.k (.start (addrOf (r.s.m.insts i).name) true cn) with
        | some _ =>
          some ⟨_, .step r.reach (.call i cn (applyMove_sound h) h1.1 h1.2
            (fun j hj => by rw [applyMove_mon_insts env h j hj]) hk)⟩
        | none => none
      else none
    | none => none
  | .retOk i =>
    match h : applyMove env r.s.m (.mon i) with
    | some (_, m') =>
      if h1 : (r.s.m.insts i).pc = .dial ∧ C16Mgr.holds (m'.insts i).pc = true then
        match hq : r.s.k.reqs[r.s.cur i]? with
        | some q =>
          match hp : q.pc with
          | .held o false =>
            some ⟨_, .step r.reach (.retOk i (applyMove_sound h) h1.1 h1.2
              (fun j hj => by rw [applyMove_mon_insts env h j hj]) ⟨q, o, hq, hp⟩)⟩
          | _ => none
        | none => none
      else none
    | none => none
  | .retErr i =>
    match h : applyMove env r.s.m (.mon i) with
    | some (_, m') =>
      if h1 : (r.s.m.insts i).pc = .dial ∧ active (m'.insts i).pc = false then
        match hq : r.s.k.reqs[r.s.cur i]? with
        | some q =>
          match hp : q.pc with
          | .failed e =>
            some ⟨_, .step r.reach (.retErr i (applyMove_sound h) h1.1 h1.2
              (fun j hj => by rw [applyMove_mon_insts env h j hj]) ⟨q, e, hq, hp⟩)⟩
          | _ => none
        | none => none
      else none
    | none => none
  | .release i =>
    match h : applyMove env r.s.m (.mon i) with
    | some (_, m') =>
      if h1 : C16Mgr.holds (r.s.m.insts i).pc = true ∧ active (m'.insts i).pc = false then
        match hk : Conn.step r.s.k (.done (r.s.cur i)) with
        | some _ =>
          some ⟨_, .step r.reach (.release i (applyMove_sound h) h1.1 h1.2
            (fun j hj => by rw [applyMove_mon_insts env h j hj]) hk)⟩
        | none => none
      else none
    | none => none
  | .conn l =>
    if hl : internal l = true then
      match hk : Conn.step r.s.k l with
      | some _ => some ⟨_, .step r.reach (.conn l hl hk)⟩
      | none => none
    else none

def RSys.moves (r : RSys env addrOf) : List PMove → Option (RSys env addrOf)
  | [] => some r
  | m :: ms => match r.move env addrOf m with
    | some r' => r'.moves ms
    | none => none

end examples

section witnesses

/-- two targets `a`, `b` with the SAME address; first attempts: the dial is refused; afterwards streams -/
def exEnv : Name → Nat → Attempt := fun _ k => if k = 0 then .dialFail else .stream [.update] .silence

def exAddr : Name → Conn.Addr := fun _ => "shared:1"

/-- both targets added, both goroutines inside `Connection`, both requesters waiting on ONE pending dial
(requester 0 created the object, requester 1 joined it) -/
def exJoined : List PMove :=
  [.add "a", .add "b", .mon 0, .mon 1, .mon 0, .mon 1, .call 0 false, .call 1 false,
   .conn (.r0 0), .conn (.r1 0), .conn (.r0 1), .conn (.r1 1), .conn (.d1a 0)]

/-- … the shared dial is refused; both callers get the error; the object is unregistered -/
def exRefused : List PMove :=
  exJoined ++ [.conn (.d1b 0 .fail), .conn (.d2 0), .conn (.d3 0), .conn (.r2 0), .conn (.r3 0), .conn (.r2 1),
    .conn (.r3 1), .retErr 0, .retErr 1]

/-- … both report the failure, back off, try again: target `b` first this time; it finds nothing
registered and is in the locked section of `Connection` -/
def exRetry : List PMove :=
  exRefused ++ [.mon 0, .mon 0, .mon 1, .mon 1, .mon 1, .call 1 false, .conn (.r0 2)]

/-- … a new object, a new dial that succeeds; `a` joins; both sessions are up on the one connection -/
def exShared : List PMove :=
  exRetry ++ [.conn (.r1 2), .conn (.d1a 1), .conn (.d1b 1 .ok), .conn (.d3 1), .conn (.r2 2), .conn (.r3 2), .retOk 1,
    .mon 0, .call 0 false, .conn (.r0 3), .conn (.r1 3), .conn (.r2 3), .conn (.r3 3), .retOk 0]

/-- the hypotheses of `failed_shared_dial_forgotten` and `retry_after_failed_shared_dial_dials_afresh`
are met by a reachable configuration: the object of the refused shared dial carries its error, nothing is
registered for the address, one Dial invocation was made so far, and target `b`'s retry is about to run
the locked section -/
example : ∃ s, PReach exEnv exAddr s ∧ (∃ ob, s.k.objs[0]? = some ob ∧ ob.err = some .dial ∧ ob.ref = 2) ∧
    Conn.find s.k.conns "shared:1" = none ∧ s.k.dials = 1 ∧ (s.m.insts 1).pc = .dial ∧
    (∃ q, s.k.reqs[s.cur 1]? = some q ∧ q.pc = .r1) :=
  ⟨_, (((RSys.init exEnv exAddr).moves exEnv exAddr exRetry).get (by decide)).reach,
    ⟨{ addr := "shared:1", ref := 2, ready := true, err := some .dial, dpc := .fin, creator := 0 }, by decide, by decide, by decide⟩,
    by decide, by decide, by decide, ⟨{ addr := "shared:1", pc := .r1 }, by decide, by decide⟩⟩

/-- the hypotheses of `sharers_share_one_connection` (hence of `shared_never_closed_while_held`) are met:
after the refused shared dial both targets are in a session, on the connection of the SECOND Dial
invocation, whose reference count is 2 -/
example : ∃ s, PReach exEnv exAddr s ∧ C16Mgr.holds (s.m.insts 0).pc = true ∧ C16Mgr.holds (s.m.insts 1).pc = true ∧
    exAddr (s.m.insts 0).name = exAddr (s.m.insts 1).name ∧ s.k.dials = 2 ∧
    (∃ ob, s.k.objs[1]? = some ob ∧ ob.ref = 2 ∧ ob.conn = some 1 ∧ ob.closed = 0) :=
  ⟨_, (((RSys.init exEnv exAddr).moves exEnv exAddr exShared).get (by decide)).reach,
    by decide, by decide, (by simp [exAddr]), by decide,
    ⟨{ addr := "shared:1", ref := 2, ready := true, conn := some 1, dpc := .fin, creator := 2 }, by decide, by decide, by decide, by decide⟩⟩

end witnesses

end C13Shared
end Gnmi
