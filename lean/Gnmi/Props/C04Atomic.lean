import Gnmi.Props.C04Seq
/-! # C04, finding D25: a subscription inside an atomic container keeps a stale version

`C04Seq.stream_converges_partial` claims agreement with the cache on the keys a registered query
*matches* (`qmatches`: what a ONCE query returns) and that nothing is held that the cache does not
hold at all.  It does not claim that every key the subscriber holds shows the cache's current
notification, and for one class of keys that is false of model and code:

An atomic notification is stored as one leaf at its prefix, but `UpdateNotification` offers it by
the index paths of the updates it carries (C06).  A subscriber whose registration is strictly longer
than the prefix (`c/at/b/x` against the container `c/at`) is compatible with the update `c/at/b`
and so is sent the container; the next version of the container, carrying `a` and `d` only, is
compatible with none of its registrations and is not sent.  The subscriber's replayed view keeps the
first version at `c/at`, the cache holds the second.

The statement below is the witness (`decide`); it is replayed on the implementation by
`corpus/C04/d25_subscription_below_atomic_prefix.ops` (op `view!`) and listed in KNOWN_FINDINGS.txt. -/
namespace Gnmi
namespace C04Atomic
open Gnmi.Cache Gnmi.Sub Gnmi.SubStream Gnmi.C04Seq

def ub : Upd := { path := ["b"], val := .scalar (.int 0), raw := "ub" }
def uc : Upd := { path := ["c"], val := .scalar (.int 0), raw := "uc" }
def ua : Upd := { path := ["a"], val := .scalar (.uint 1), raw := "ua" }
def ud : Upd := { path := ["d"], val := .scalar (.int 1), raw := "ud" }
def reqIn : Req := { target := "t1", mode := .stream, subs := [{ path := ["c", "at", "b", "x"] }] }

def n1 : Noti := { ts := 1000, target := "t1", pfx := ["c", "at"], praw := "p", atomic := true, upd := [ub, uc] }
def n2 : Noti := { ts := 1001, target := "t1", pfx := ["c", "at"], praw := "p", atomic := true, upd := [ua, ud] }

def histA : List HOp :=
  [ .ca (.add "t1"),
    .sub "s1" .absent (some reqIn),
    .ca (.update 1000 false n1),
    .ca (.update 1001 false n2) ]

/-- the subscriber is alive, was sent the sync marker and the first version only, and holds it at
`t1/c/at`; the cache holds the second version there; no registered query *matches* the key (so
`stream_converges_partial` is silent about it) although one is compatible with the first version's
update `c/at/b` and none with any update of the second -/
theorem below_atomic_prefix_stale :
    (hrun id {} histA).subs.map (fun s => (s.alive, s.out.length, s.queue.length,
        (lookup (replay s.out) ["t1", "c", "at"]).map (·.ts))) = [(true, 2, 0, some 1000)] ∧
    (hrun id {} histA).subs.map (fun s => (
        s.regs.any (fun q => qmatches q ["t1", "c", "at"]),
        s.regs.any (fun q => compatible q ["t1", "c", "at", "b"]),
        s.regs.any (fun q => compatible q ["t1", "c", "at", "a"] || compatible q ["t1", "c", "at", "d"]))) =
      [(false, true, false)] ∧
    (((hrun id {} histA).cache.get "t1").bind (fun tg => lookup tg.tree ["c", "at"])).map (·.ts) = some 1001 :=
  ⟨by decide, by decide, by decide⟩

/-- the history meets the hypotheses of `stream_converges_partial` -/
theorem histA_ok : C03.OkRun id {} (cacheOps histA) ∧ NoStarTargets histA := by
  refine ⟨⟨⟨by decide, rfl⟩, ?_, ?_, trivial⟩, ?_⟩
  · intro u hu
    simp only [n1, List.mem_cons, List.not_mem_nil, or_false] at hu
    rcases hu with rfl | rfl <;> exact ⟨by decide, Or.inr rfl, by decide⟩
  · intro u hu
    simp only [n2, List.mem_cons, List.not_mem_nil, or_false] at hu
    rcases hu with rfl | rfl <;> exact ⟨by decide, Or.inr rfl, by decide⟩
  · intro op hop
    simp only [histA, cacheOps, List.mem_cons, List.not_mem_nil, or_false] at hop
    rcases hop with rfl | rfl | rfl <;> first | trivial | (show _ ≠ _; decide)

end C04Atomic
end Gnmi
