import Gnmi.Lemmas.PipelineRestart
/-!
# C01 — the collector relays each target's state faithfully **across session restarts**

The run type of `Props/C01.lean` … `Props/C01Same.lean` (`Pipeline.Step`) has target responses and
client subscriptions only: every session stays up for ever.  In the real collector every ended
target stream — an error, the target closing the stream itself (`io.EOF`), the receive timeout, a
forced reconnect — makes `manager.handleUpdates` call the `Reset` callback = `cache.Reset(target)`;
`manager.monitor` records the error (`cache.ConnectError`); the manager subscribes again and the
target streams its (possibly smaller) state anew.  `Pipeline.StepR` / `Sys.runR`
(`Model/Pipeline.lean` §9) add those two steps; `Relay.viewR` / `Relay.lastSession`
(`Spec/Relay.lean`) say what is expected: **a target's view is reset to empty at a restart, its
final state is what its last session carried**.

For every valid configuration and every run that is any interleaving of sessions of the configured
targets, with any number of restarts per target at any points, `ConnectError` anywhere and STREAM
clients subscribing anywhere, in which every *session* is well formed in the sense of the property
(`Relay.wellFormed false`; timestamps of a new session need not continue those of the previous one)
and raw renderings are faithful (`RawFaithful`, over the target's whole history):

* `collector_cache_holds_final_view_restart` — the collector never crashes and its cache holds, for
  every configured target, exactly the final view of the target's **last session**
  (`no_stale_leaf_after_restart`: a leaf of an earlier session the last one did not send again is
  gone);
* `pipeline_faithful_once_restart` — a ONCE client after the run holds exactly `Relay.expected` of
  that view (any query paths);
* `pipeline_faithful_stream_restart` — a STREAM client that subscribed at any point of the run,
  before, between or after restarts, holds the same at the end: it was sent the `Reset`'s
  `T/<root>/*` deletes (`C14.reset_event_covers`, `Feed.reset_sim` inside `C04Seq.hstep_inv`).  Extra
  hypotheses exactly those of `pipeline_faithful_stream_nondecreasing` (no target named `*`,
  `ExactStream` — of the last session only —, `queryOK` queries).  Not partial: `C04Seq`'s history type
  has every cache API call, `Reset` included.
* `pipeline_faithful_restart` — both clauses; `restart_generalises` — on runs without restarts the
  hypotheses and conclusions are those of `pipeline_faithful_nondecreasing`.
* `skipping_reset_leaves_stale_leaf` — necessity of the `Reset`: the same run without the reset step
  (what a collector does whose manager skips the callback on a clean end of stream) leaves the ONCE
  client with a leaf the target no longer has.
-/
namespace Gnmi
namespace C01
open Cache Pipeline Relay SubStream C01S

theorem start_holds3 (cfg : TargetCfg.Cfg) (hv : TargetCfg.validate cfg = .ok ()) (U : String → List Upd) :
    Holds3 (TargetCfg.keys cfg.target) U (Sys.start cfg) (fun _ => []) := by
  refine ⟨start_holds2 cfg hv U, ?_⟩
  obtain ⟨_, hfresh⟩ := start_cache_ok cfg
  intro name t hg
  obtain ⟨rfl, hk⟩ := hfresh name t hg
  obtain ⟨tt, hmem⟩ := mem_keys hk
  exact ⟨fresh_target_inv name, rfl, (validate_entries hv (name, tt) hmem).name_ne⟩

/-- the hypotheses on the streams of a run with restarts: every session of every configured target is
well formed (per leaf non-decreasing timestamps *within the session*), raw renderings faithful -/
def SessionsOK (cfg : TargetCfg.Cfg) (steps : List StepR) : Prop :=
  ∀ name ∈ TargetCfg.keys cfg.target,
    (∀ sess ∈ sessionsOf name steps, wellFormed false sess = true) ∧ RawFaithful (allItemsR name steps)

theorem names_ne (cfg : TargetCfg.Cfg) (hv : TargetCfg.validate cfg = .ok ()) :
    ∀ x ∈ TargetCfg.keys cfg.target, x ≠ "" := by
  intro x hx
  obtain ⟨t, hmem⟩ := mem_keys hx
  exact (validate_entries hv (x, t) hmem).name_ne

/-! ## The collector glue + cache part -/

/-- **The cache holds each target's final state, across restarts.**  For every valid configuration
and every run with restarts (`Sys.runR`: any interleaving of the sessions of the configured targets,
`cache.Reset` wherever a session ends — any number of times per target, at any points —,
`cache.ConnectError` anywhere, STREAM clients subscribing anywhere) whose sessions are each well
formed and whose raw renderings are faithful: the collector never crashes, and at the end the cache
holds, for every configured target, exactly the final view of what the target streamed in its **last
session** — nothing of an earlier session survives unless the last one sent it again
(`C14.reset_clears` for the target that restarts, `Holds2.onTarget` — `C14.frame` — for the others). -/
theorem collector_cache_holds_final_view_restart (enc : String → String) (cfg : TargetCfg.Cfg)
    (hv : TargetCfg.validate cfg = .ok ()) (steps : List StepR)
    (hs : ∀ x ∈ sendersR steps, x ∈ TargetCfg.keys cfg.target) (hwf : SessionsOK cfg steps) :
    ((Sys.start cfg).runR enc steps).crashed = false ∧
    ∀ name ∈ TargetCfg.keys cfg.target,
      ∃ t, ((Sys.start cfg).runR enc steps).sub.cache.get name = some t ∧ TInv t ∧
        (∀ k, absGet t k = (finalView (lastSession name steps)).get k) ∧ Good name t ∧
        From (updatesOf (allItemsR name steps)) t := by
  have h := Holds3.runR (U := fun name => updatesOf (allItemsR name steps)) enc (names_ne cfg hv)
    (fun name hn => rawOK_of_rawFaithful (hwf name hn).2) false steps _ _
    (start_holds3 cfg hv _) hs
    (fun name hn => (wellFormedR_sessions false name steps).2 (hwf name hn).1) (fun name _ u hu => hu)
  exact ⟨h.h.alive, fun name hn => by
    obtain ⟨t, g1, g2, g3, g4, g5⟩ := h.h.each name hn
    have g3' : Agree t (viewR name [] steps) := g3
    rw [viewR_lastSession] at g3'
    exact ⟨t, g1, g2, g3', g4, g5⟩⟩

/-- **no stale leaf**: a key outside `meta/` that the final view of the last session does not hold
is not in the cache, whatever earlier sessions stored under it -/
theorem no_stale_leaf_after_restart (enc : String → String) (cfg : TargetCfg.Cfg)
    (hv : TargetCfg.validate cfg = .ok ()) (steps : List StepR)
    (hs : ∀ x ∈ sendersR steps, x ∈ TargetCfg.keys cfg.target) (hwf : SessionsOK cfg steps)
    (name : String) (hn : name ∈ TargetCfg.keys cfg.target) (k : Path) (hk : isMetaKey k = false)
    (hgone : (finalView (lastSession name steps)).get k = none) :
    ∃ t, ((Sys.start cfg).runR enc steps).sub.cache.get name = some t ∧ lookup t.tree k = none := by
  obtain ⟨_, hall⟩ := collector_cache_holds_final_view_restart enc cfg hv steps hs hwf
  obtain ⟨t, g1, _, g3, _, _⟩ := hall name hn
  refine ⟨t, g1, ?_⟩
  have := g3 k
  rw [hgone] at this
  unfold absGet at this
  simpa [hk] using this

theorem lastSession_wf {cfg : TargetCfg.Cfg} {steps : List StepR} (hwf : SessionsOK cfg steps) (T : String)
    (hT : T ∈ TargetCfg.keys cfg.target) : wellFormed false (lastSession T steps) = true :=
  (hwf T hT).1 _ (lastSession_mem T steps)

/-! ## End to end: a ONCE client at quiescence -/

/-- **pipeline_faithful, ONCE client, across restarts.**  Under the hypotheses of
`collector_cache_holds_final_view_restart`, every configured target `T ≠ "*"` and any list of query
paths: a client that subscribes ONCE to `T` through the collector after the run ends with its RPC
closed OK and synced and holds exactly `Relay.expected T (final view of T's last session) qs` — no
missing, no extra, **no stale** leaf. -/
theorem pipeline_faithful_once_restart (enc : String → String) (cfg : TargetCfg.Cfg)
    (hv : TargetCfg.validate cfg = .ok ()) (steps : List StepR)
    (hs : ∀ x ∈ sendersR steps, x ∈ TargetCfg.keys cfg.target) (hwf : SessionsOK cfg steps)
    (T : String) (hT : T ∈ TargetCfg.keys cfg.target) (hstar : T ≠ "*") (qs : List Path) :
    HoldsExpected (((Sys.start cfg).runR enc steps).once T qs) T (finalView (lastSession T steps)) qs := by
  obtain ⟨_, hall⟩ := collector_cache_holds_final_view_restart enc cfg hv steps hs hwf
  obtain ⟨t, g1, g2, g3, g4, _⟩ := hall T hT
  have hvok := viewOK_final_nd (lastSession T steps) (lastSession_wf hwf T hT)
  obtain ⟨h1, h2, h3, _, h5⟩ := once_of_cache _ T (names_ne cfg hv T hT) hstar t g1 g2 _ g3 g4 hvok qs
  exact holdsExpected_of_leaves _ T _ hvok qs h1 h2 h3 h5

/-! ## The STREAM clause -/

/-- the client half of the STREAM clause, on the final state alone: a live subscriber `id` of `T` in a
state satisfying `C04Seq`'s invariant, whose cache holds `T` presenting the prefix-free, exact view
`V`, holds exactly `Relay.expected T V qs` -/
theorem stream_holdsExpected {names : List String} (sf : Sys) (id T : String) (qs : List Path)
    (_hTne : T ≠ "") (hstar : T ≠ glob) (hq : ∀ q ∈ qs, queryOK q = true)
    (I3 : Inv2 names sf) (K3 : KProp id (clientReq T .stream qs) sf.sub) (Has : HasId id sf.sub)
    (t : Target) (gt1 : sf.sub.cache.get T = some t) (V : View) (gt3 : ∀ k, absGet t k = V.get k)
    (hvok : ViewOK V) (hvf : ViewFacts ExactV V) :
    HoldsExpected (sf.streamView id) T V qs := by
  obtain ⟨x0, hx0, hid0⟩ := Has
  -- the subscriber
  have hfind : ∃ x, sf.sub.subs.find? (fun s => s.id = id) = some x := by
    cases hf : sf.sub.subs.find? (fun s => s.id = id) with
    | some x => exact ⟨x, rfl⟩
    | none =>
      rw [List.find?_eq_none] at hf
      have := hf x0 hx0
      simp [hid0] at this
  obtain ⟨x, hfx⟩ := hfind
  have hx : x ∈ sf.sub.subs := List.mem_of_find?_eq_some hfx
  have hxid : x.id = id := by simpa using List.find?_some hfx
  obtain ⟨hL, hreq, hacl⟩ := K3 x hx hxid
  have inv := I3.h.subs x hx hL
  obtain ⟨g, hgout, hgns, hgext, hgsync, hgq⟩ := inv.ghost
  have hout : x.out = g := by
    rw [hgout, hacl]
    apply List.filter_eq_self.2
    intro a _
    simp [denied_absent]
  have hp : ∀ y ∈ g, respP PG Dne y.1 := by
    rw [← hout]; exact (I3.out x hx).out
  obtain ⟨hcs, hsynced⟩ := client_replay g {} [] csim_init hp hgext
  have hclient : Sys.streamView sf id = Client.run false {} (g.map (·.1)) := by
    unfold Sys.streamView clientOf sentTo
    simp only [hfx, hout, inv.status]
    rfl
  rw [hclient]
  have hregs : x.regs = qs.map (fun q => T :: q) := by
    rw [inv.regsEq, hreq, regQueries_clientReq]
  have hreqT : x.req.target = T := by rw [hreq]; rfl
  rw [hregs, hreqT] at hgq
  have hVT : ∀ k, lookup (treesOf sf.sub.cache T) k = lookup t.tree k := by
    intro k; rw [treesOf_some gt1]
  have hvokc := I3.h.cok.vok
  have hjm : ∀ t' k, (qs.map (fun q => T :: q)).any (fun q => qmatches q (t' :: k)) = true →
      Feed.Sim sf.sub.cache.cfg (lookup (replay g) (t' :: k)) (lookup (treesOf sf.sub.cache t') k) :=
    fun t' k h => hgq.jm t' k h
  -- a key the subscriber's view holds is a selected key of `T`
  have hkeysel : ∀ κ, (lookup (replay g) κ).isSome = true →
      ∃ k n, κ = T :: k ∧ lookup t.tree k = some n ∧ (isMetaKey k = false → selected qs k = true) := by
    intro κ hκ
    obtain ⟨t', k, rfl, hvk, hc⟩ := hgq.jv κ hκ
    obtain ⟨q', hq', hcq⟩ := List.any_eq_true.1 hc
    obtain ⟨q, hqq, rfl⟩ := List.mem_map.1 hq'
    rw [Match.compatible_cons_cons] at hcq
    simp only [Bool.and_eq_true, Bool.or_eq_true, beq_iff_eq] at hcq
    have ht' : t' ≠ glob := ne_glob_of_isSome hvokc hvk
    have hTt : T = t' := by
      rcases hcq.1 with (h | h) | h
      · exact absurd h hstar
      · exact absurd h ht'
      · exact h
    subst hTt
    rw [hVT] at hvk
    cases hl : lookup t.tree k with
    | none => rw [hl] at hvk; cases hvk
    | some n =>
      refine ⟨k, n, rfl, hl, ?_⟩
      intro hmk
      have hget : V.get k = some (n.ts, Relay.headVal n) := by
        rw [← gt3 k]
        unfold absGet
        simp [hmk, hl]
      have hlen := hvf.len _ (View.get_some_mem hget)
      have hng : glob ∉ k := (I3.h.cok.gt T t gt1).noGlob _ (mem_of_lookup_some hl)
      have hql : q.length ≤ k.length := by
        have := hq q hqq
        unfold queryOK at this
        simp only [decide_eq_true_eq] at this
        simp only at hlen
        omega
      exact List.any_eq_true.2 ⟨q, hqq, qmatches_of_compatible_short q k hql hng hcq.2⟩
  have hmatched : ∀ k, selected qs k = true →
      (qs.map (fun q => T :: q)).any (fun q => qmatches q (T :: k)) = true := by
    intro k hsel
    obtain ⟨q, hqq, hqm⟩ := List.any_eq_true.1 hsel
    refine List.any_eq_true.2 ⟨T :: q, List.mem_map.2 ⟨q, hqq, rfl⟩, ?_⟩
    rw [qmatches_reg]
    exact ⟨Or.inr rfl, hqm⟩
  -- the decoded value does not depend on which of two `value.Equal` notifications is held
  have hdec : ∀ k w n, isMetaKey k = false → lookup t.tree k = some n →
      Feed.Sim sf.sub.cache.cfg (some w) (some n) →
      decodeVal (Relay.headVal w) = decodeVal (Relay.headVal n) := by
    intro k w n hmk hl hsim
    rcases hsim with rfl | ⟨_, _, _, hve⟩
    · rfl
    · have hget : V.get k = some (n.ts, Relay.headVal n) := by
        rw [← gt3 k]
        unfold absGet
        simp [hmk, hl]
      have hexn : ExactV (Relay.headVal n) := hvf.vals _ (View.get_some_mem hget)
      exact hexn _ hve
  refine ⟨hcs.failed, hsynced (Or.inr hgsync), ?_, ?_⟩
  · intro kv hkv
    have hkv' : kv ∈ (Client.run false {} (g.map (·.1))).tree := hkv
    have hsome := cget_some_of_mem hkv'
    rw [hcs.get kv.1] at hsome
    have hl : (lookup (replay g) kv.1).isSome = true := by
      cases hlk : lookup (replay g) kv.1 with
      | none => rw [show (g.foldl (fun v r => applyResp v r.1) []) = replay g from rfl, hlk] at hsome; cases hsome
      | some _ => rfl
    obtain ⟨k, _, e, _, _⟩ := hkeysel kv.1 hl
    exact ⟨k, e⟩
  · intro k cv hmk
    have hcg : cget (Client.run false {} (g.map (·.1))).tree (T :: k) = (lookup (replay g) (T :: k)).bind decLeaf :=
      hcs.get (T :: k)
    rw [hcg]
    unfold expected
    simp only [List.mem_filterMap, List.mem_filter]
    constructor
    · rintro ⟨ts, h⟩
      cases hlk : lookup (replay g) (T :: k) with
      | none => rw [hlk] at h; cases h
      | some w =>
        rw [hlk] at h
        simp only [Option.bind_some] at h
        obtain ⟨hdv, _⟩ := decLeaf_some h
        obtain ⟨k', n, e, hl, hsel⟩ := hkeysel (T :: k) (by rw [hlk]; rfl)
        simp only [List.cons.injEq, true_and] at e
        subst e
        have hsel' := hsel hmk
        have hsim := hjm T k (hmatched k hsel')
        rw [hlk, hVT, hl] at hsim
        have hget : V.get k = some (n.ts, Relay.headVal n) := by
          rw [← gt3 k]
          unfold absGet
          simp [hmk, hl]
        refine ⟨(k, (n.ts, Relay.headVal n)), ⟨View.get_some_mem hget, hsel'⟩, ?_⟩
        unfold leafOf
        simp only
        rw [← hdec k w n hmk hl hsim, hdv]
    · rintro ⟨⟨k', xv⟩, ⟨hm, hsel⟩, hlf⟩
      unfold leafOf at hlf
      cases hd : decodeVal xv.2 with
      | val c =>
        rw [hd] at hlf
        simp only [Option.some.injEq, Prod.mk.injEq, List.cons.injEq, true_and] at hlf
        obtain ⟨rfl, rfl⟩ := hlf
        simp only at hsel
        have hget := View.get_of_mem hvok hm
        have habs := gt3 k'
        rw [hget] at habs
        unfold absGet at habs
        simp only [hmk, Bool.false_eq_true, if_false, Option.map_eq_some_iff] at habs
        obtain ⟨n, hl, hx⟩ := habs
        have hsim := hjm T k' (hmatched k' hsel)
        rw [hVT, hl] at hsim
        cases hlk : lookup (replay g) (T :: k') with
        | none => rw [hlk] at hsim; exact hsim.elim
        | some w =>
          rw [hlk] at hsim
          have hdw := hdec k' w n hmk hl hsim
          have hdn : decodeVal (Relay.headVal n) = .val c := by
            rw [← hx] at hd; exact hd
          refine ⟨w.ts, ?_⟩
          simp only [Option.bind_some, decLeaf, hdw, hdn]
      | skip => rw [hd] at hlf; cases hlf
      | err => rw [hd] at hlf; cases hlf

/-- **pipeline_faithful, STREAM client, across restarts.**  Under the hypotheses of
`collector_cache_holds_final_view_restart` plus those of `pipeline_faithful_stream_nondecreasing`
(`"*"` not a configured target name; `ExactStream` — needed of `T`'s last session only —; `queryOK`
queries): a STREAM client of a configured target `T` that subscribed at **any** point of the run
(`steps = pre ++ subscribe id T qs :: post`, fresh id; restarts of `T` and of the other targets
anywhere in `pre` and `post`) holds at the end exactly `Relay.expected T (final view of T's last
session) qs`.  A restart after the subscription reaches the client as the `Reset`'s `T/<root>/*`
deletes, which drop every leaf of the ended session from its tree; `C04Seq`'s invariant (the replay of
what the subscriber was sent agrees with the cache on the keys its queries match) holds of every
history of cache API calls, `Reset` among them, so nothing is partial here. -/
theorem pipeline_faithful_stream_restart (enc : String → String) (cfg : TargetCfg.Cfg)
    (hv : TargetCfg.validate cfg = .ok ()) (hns : "*" ∉ TargetCfg.keys cfg.target) (steps : List StepR)
    (hs : ∀ x ∈ sendersR steps, x ∈ TargetCfg.keys cfg.target) (hwf : SessionsOK cfg steps)
    (T : String) (hT : T ∈ TargetCfg.keys cfg.target) (hex : ExactStream (lastSession T steps))
    (qs : List Path) (hq : ∀ q ∈ qs, queryOK q = true)
    (pre post : List StepR) (id : String) (hsplit : steps = pre ++ .step (.subscribe id T qs) :: post)
    (hid : ∀ st ∈ pre ++ post, match st with
      | .step (.subscribe id' _ _) => id' ≠ id
      | _ => True) :
    HoldsExpected (((Sys.start cfg).runR enc steps).streamView id) T (finalView (lastSession T steps)) qs := by
  have hne := names_ne cfg hv
  have hTne : T ≠ "" := hne T hT
  have hstar : T ≠ glob := fun e => hns (by rw [← show glob = "*" from rfl, ← e]; exact hT)
  have hidOK : ∀ st ∈ pre ++ post, idOKR id st := by
    intro st hst
    have := hid st hst
    cases st with
    | step st0 => cases st0 <;> exact this
    | reset _ _ => trivial
    | connectError _ _ _ => trivial
  have hrawU : ∀ name ∈ TargetCfg.keys cfg.target, RawOK (updatesOf (allItemsR name steps)) :=
    fun name hn => rawOK_of_rawFaithful (hwf name hn).2
  have hsplit_items : ∀ name, allItemsR name steps = allItemsR name pre ++ allItemsR name post := by
    intro name
    rw [hsplit, allItemsR_append]
    rfl
  have hwfR : ∀ name ∈ TargetCfg.keys cfg.target,
      wellFormedR false name [] pre = true ∧ wellFormedR false name (viewR name [] pre) post = true := by
    intro name hn
    have := (wellFormedR_sessions false name steps).2 (hwf name hn).1
    rw [hsplit, wellFormedR_append, Bool.and_eq_true] at this
    exact ⟨this.1, by simpa [wellFormedR] using this.2⟩
  have hs_pre : ∀ x ∈ sendersR pre, x ∈ TargetCfg.keys cfg.target := by
    intro x hx
    apply hs
    rw [hsplit, sendersR_append]
    exact List.mem_append_left _ hx
  have hs_post : ∀ x ∈ sendersR post, x ∈ TargetCfg.keys cfg.target := by
    intro x hx
    apply hs
    rw [hsplit, sendersR_append]
    exact List.mem_append_right _ (by simpa [sendersR] using hx)
  have hU_pre : ∀ name ∈ TargetCfg.keys cfg.target, ∀ u ∈ updatesOf (allItemsR name pre),
      u ∈ updatesOf (allItemsR name steps) := by
    intro name _ u hu
    rw [hsplit_items, updatesOf_append]
    exact List.mem_append_left _ hu
  have hU_post : ∀ name ∈ TargetCfg.keys cfg.target, ∀ u ∈ updatesOf (allItemsR name post),
      u ∈ updatesOf (allItemsR name steps) := by
    intro name _ u hu
    rw [hsplit_items, updatesOf_append]
    exact List.mem_append_right _ hu
  -- phase 1: `pre`
  have H0 := start_holds3 cfg hv (fun name => updatesOf (allItemsR name steps))
  have I0 := start_inv2 cfg hv hns
  have H1 := Holds3.runR enc hne hrawU false pre _ _ H0 hs_pre (fun name hn => (hwfR name hn).1) hU_pre
  have T1 := run_tr4_R enc hne hrawU false id (clientReq T .stream qs) pre _ _ H0 I0 hs_pre
    (fun name hn => (hwfR name hn).1) hU_pre (fun st hst => hidOK st (List.mem_append_left _ hst))
  have N1 : NoId id ((Sys.start cfg).runR enc pre).sub := T1.2.2.2 (fun x hx => by cases hx)
  generalize hs1 : (Sys.start cfg).runR enc pre = s1 at H1 T1 N1
  have I1 := T1.1
  -- phase 2: the subscription
  have H2 := H1.stepR enc hne hrawU false (.step (.subscribe id T qs)) trivial
  have I2 := inv2_subscribe enc hne H1.h.toHolds I1 id T qs
  obtain ⟨t1, g1, _, _, _, _⟩ := H1.h.each T hT
  have hhas : s1.sub.cache.hasTarget T = true := by
    have hstar' : ¬ T = "*" := hstar
    unfold State.hasTarget
    rw [if_neg hTne, if_neg hstar', g1]; rfl
  have hsub2 : (s1.step enc (.subscribe id T qs)).sub =
      { s1.sub with subs := s1.sub.subs ++ [streamSub s1.sub.cache id (clientReq T .stream qs) .absent] } := by
    simp only [Sys.step]
    rw [if_neg (by rw [H1.h.alive]; simp)]
    exact subscribe_stream_eq s1.sub id (clientReq T .stream qs) I1.h.pre rfl rfl hTne hhas rfl rfl
  have K2 : KProp id (clientReq T .stream qs) (s1.step enc (.subscribe id T qs)).sub := by
    intro x hx hxid
    rw [hsub2] at hx
    rcases List.mem_append.1 hx with h | h
    · exact absurd hxid (N1 x h)
    · simp only [List.mem_singleton] at h
      subst h
      refine ⟨⟨streamSub_alive _ _ _ _ (completePath_clientReq T .stream qs), ?_, ?_⟩,
        streamSub_req _ _ _ _, streamSub_acl _ _ _ _⟩
      · rw [streamSub_req]; rfl
      · rw [streamSub_req]; rfl
  have Has2 : HasId id (s1.step enc (.subscribe id T qs)).sub := by
    refine ⟨streamSub s1.sub.cache id (clientReq T .stream qs) .absent, ?_, streamSub_id _ _ _ _⟩
    rw [hsub2]
    exact List.mem_append_right _ (List.mem_singleton.2 rfl)
  -- phase 3: `post`
  have T3 := run_tr4_R enc hne hrawU false id (clientReq T .stream qs) post _ _ H2 I2 hs_post
    (fun name hn => by
      have := (hwfR name hn).2
      simpa [stepView] using this) hU_post
    (fun st hst => hidOK st (List.mem_append_right _ hst))
  have hrun : (Sys.start cfg).runR enc steps = (s1.step enc (.subscribe id T qs)).runR enc post := by
    rw [hsplit, sys_runR_append, hs1]
    simp [Sys.runR, Sys.stepR]
  have I3 := T3.1
  have K3 := T3.2.1 K2
  have Has3 := T3.2.2.1 Has2
  simp only [Sys.stepR] at I3 K3 Has3
  rw [← hrun] at I3 K3 Has3
  -- the cache at the end
  obtain ⟨_, hall⟩ := collector_cache_holds_final_view_restart enc cfg hv steps hs hwf
  obtain ⟨t, gt1, _, gt3, _, _⟩ := hall T hT
  have hwfl := lastSession_wf hwf T hT
  have hvok := viewOK_final_nd (lastSession T steps) hwfl
  have hvf : ViewFacts ExactV (finalView (lastSession T steps)) :=
    viewFacts_run_nd (lastSession T steps) [] ⟨(fun kv h => by cases h), (fun kv h => by cases h)⟩ hwfl hex
  exact stream_holdsExpected _ id T qs hTne hstar hq I3 K3 Has3 t gt1 _ gt3 hvok hvf

/-! ## Both clauses -/

/-- **`pipeline_faithful` across restarts**: the ONCE client and every STREAM client that subscribed at
any point of a run with any number of session restarts hold exactly `Relay.expected` of the final view
of the target's last session. -/
theorem pipeline_faithful_restart (enc : String → String) (cfg : TargetCfg.Cfg)
    (hv : TargetCfg.validate cfg = .ok ()) (hns : "*" ∉ TargetCfg.keys cfg.target) (steps : List StepR)
    (hs : ∀ x ∈ sendersR steps, x ∈ TargetCfg.keys cfg.target) (hwf : SessionsOK cfg steps)
    (T : String) (hT : T ∈ TargetCfg.keys cfg.target) (hex : ExactStream (lastSession T steps))
    (qs : List Path) (hq : ∀ q ∈ qs, queryOK q = true) :
    HoldsExpected (((Sys.start cfg).runR enc steps).once T qs) T (finalView (lastSession T steps)) qs ∧
    ∀ (pre post : List StepR) (id : String), steps = pre ++ .step (.subscribe id T qs) :: post →
      (∀ st ∈ pre ++ post, match st with
        | .step (.subscribe id' _ _) => id' ≠ id
        | _ => True) →
      HoldsExpected (((Sys.start cfg).runR enc steps).streamView id) T (finalView (lastSession T steps)) qs :=
  ⟨pipeline_faithful_once_restart enc cfg hv steps hs hwf T hT (fun e => hns (e ▸ hT)) qs,
   fun pre post id hsplit hid =>
    pipeline_faithful_stream_restart enc cfg hv hns steps hs hwf T hT hex qs hq pre post id hsplit hid⟩

/-! ## Runs without restarts: nothing changed -/

theorem sendersR_lift : ∀ (steps : List Step), sendersR (steps.map StepR.step) = senders steps
  | [] => rfl
  | .recv n _ _ it :: r => by simp only [List.map_cons, sendersR, senders]; rw [sendersR_lift r]
  | .subscribe _ _ _ :: r => by simp only [List.map_cons, sendersR, senders]; exact sendersR_lift r

theorem allItemsR_lift (name : String) : ∀ (steps : List Step), allItemsR name (steps.map StepR.step) = itemsOf name steps
  | [] => rfl
  | .recv n _ _ it :: r => by
    simp only [List.map_cons, allItemsR, itemsOf]
    rw [allItemsR_lift name r]
  | .subscribe _ _ _ :: r => by simp only [List.map_cons, allItemsR, itemsOf]; exact allItemsR_lift name r

/-- **a run without restarts is an old run**: the system, the hypotheses and the expected view of the
restart theorems are, on `steps.map StepR.step`, literally those of
`pipeline_faithful_once_nondecreasing` / `…_stream_nondecreasing` on `steps` -/
theorem restart_generalises (enc : String → String) (cfg : TargetCfg.Cfg) (steps : List Step) :
    (Sys.start cfg).runR enc (steps.map StepR.step) = (Sys.start cfg).run enc steps ∧
    (∀ name, lastSession name (steps.map StepR.step) = itemsOf name steps) ∧
    sendersR (steps.map StepR.step) = senders steps ∧
    (SessionsOK cfg (steps.map StepR.step) ↔
      ∀ name ∈ TargetCfg.keys cfg.target,
        wellFormed false (itemsOf name steps) = true ∧ RawFaithful (itemsOf name steps)) := by
  refine ⟨Sys.runR_lift enc _ steps, fun name => lastSession_lift name steps, sendersR_lift steps, ?_⟩
  unfold SessionsOK
  constructor
  · intro h name hn
    obtain ⟨a, b⟩ := h name hn
    rw [sessionsOf_lift] at a
    rw [allItemsR_lift] at b
    exact ⟨a _ (List.mem_singleton.2 rfl), b⟩
  · intro h name hn
    obtain ⟨a, b⟩ := h name hn
    rw [sessionsOf_lift, allItemsR_lift]
    exact ⟨fun sess hs => by rw [List.mem_singleton.1 hs]; exact a, b⟩

/-! ## Non-vacuity: two targets, dev1 restarts twice (once cleanly), a STREAM client across a restart -/

/-- dev1 streams `a/b`, `a/c`, syncs; a STREAM client joins; the session ends (clean EOF or error: the
model does not distinguish — `handleUpdates` resets on every `Recv` error) and dev1 comes back with
`a/b` only, at an *older* timestamp than before (a rebooted device); ends again; third session: `a/d`
only.  dev2 is interleaved and never restarts. -/
def stepsR : List StepR :=
  [ .step (.recv "dev1" true 0 (upd 10 ["a", "b"] 1)),
    .step (.recv "dev2" true 0 (upd 10 ["a", "b"] 100)),
    .step (.recv "dev1" false 1 (upd 11 ["a", "c"] 2)),
    .step (.recv "dev1" false 1 .sync),
    .step (.subscribe "s1" "dev1" [[]]),
    .reset "dev1" 2, .connectError "dev1" "EOF" 2,
    .step (.recv "dev1" true 3 (upd 5 ["a", "b"] 7)),
    .step (.recv "dev2" false 3 (upd 11 ["a", "c"] 101)),
    .connectError "dev2" "dial failed" 3,
    .reset "dev1" 4, .connectError "dev1" "rpc error: code = Unavailable" 4,
    .step (.recv "dev1" true 5 (upd 6 ["a", "d"] 9)) ]

theorem stepsR_senders : ∀ x ∈ sendersR stepsR, x ∈ TargetCfg.keys cfg2.target := by decide

example : sessionsOf "dev1" stepsR =
    [[upd 10 ["a", "b"] 1, upd 11 ["a", "c"] 2, .sync], [upd 5 ["a", "b"] 7], [upd 6 ["a", "d"] 9]] := rfl

theorem stepsR_hyps : SessionsOK cfg2 stepsR := by
  intro name hn
  have : name = "dev1" ∨ name = "dev2" := by simpa [TargetCfg.keys, cfg2] using hn
  rcases this with rfl | rfl
  · refine ⟨by decide, ?_⟩
    unfold RawFaithful
    decide
  · refine ⟨by decide, ?_⟩
    unfold RawFaithful
    decide

/-- the whole history of dev1 is *not* one well-formed stream (timestamp 5 after 10 for `a/b`): the
hypothesis is per session -/
example : wellFormed false (allItemsR "dev1" stepsR) = false := by decide

example : finalView (lastSession "dev1" stepsR) = [(["openconfig", "a", "d"], (6, .scalar (.int 9)))] := by decide

/-- the theorem applies to this run … -/
example : HoldsExpected (((Sys.start cfg2).runR id stepsR).once "dev1" [[]]) "dev1"
    (finalView (lastSession "dev1" stepsR)) [[]] :=
  pipeline_faithful_once_restart id cfg2 cfg2_valid stepsR stepsR_senders stepsR_hyps "dev1" (by decide) (by decide) [[]]

set_option maxRecDepth 8192 in
/-- … and its conclusion, computed: of dev1 only the last session's leaf is left; dev2 keeps both -/
example : (cget (((Sys.start cfg2).runR id stepsR).once "dev1" [[]]).tree ["dev1", "openconfig", "a", "b"],
           cget (((Sys.start cfg2).runR id stepsR).once "dev1" [[]]).tree ["dev1", "openconfig", "a", "c"],
           cget (((Sys.start cfg2).runR id stepsR).once "dev1" [[]]).tree ["dev1", "openconfig", "a", "d"],
           cget (((Sys.start cfg2).runR id stepsR).once "dev2" [[]]).tree ["dev2", "openconfig", "a", "b"]) =
    (none, none, some { ts := 6, val := .scalar (.int 9) }, some { ts := 10, val := .scalar (.int 100) }) := by decide

theorem stepsR_exact : ExactStream (lastSession "dev1" stepsR) := by
  intro u hu
  apply exactV_of_noFloat
  revert u
  decide

theorem stepsR_split : stepsR = stepsR.take 4 ++ .step (.subscribe "s1" "dev1" [[]]) :: stepsR.drop 5 := rfl

theorem stepsR_ids : ∀ st ∈ stepsR.take 4 ++ stepsR.drop 5, match st with
    | .step (.subscribe id' _ _) => id' ≠ "s1"
    | _ => True := by
  intro st hst
  simp only [stepsR, List.take, List.drop, List.cons_append, List.nil_append, List.mem_cons,
    List.not_mem_nil, or_false] at hst
  rcases hst with rfl | rfl | rfl | rfl | rfl | rfl | rfl | rfl | rfl | rfl | rfl | rfl <;> trivial

/-- the STREAM theorem applies: `s1` subscribed during dev1's first session and lived through two restarts … -/
example : HoldsExpected (((Sys.start cfg2).runR id stepsR).streamView "s1") "dev1"
    (finalView (lastSession "dev1" stepsR)) [[]] :=
  pipeline_faithful_stream_restart id cfg2 cfg2_valid (by decide) stepsR stepsR_senders stepsR_hyps
    "dev1" (by decide) stepsR_exact [[]] (by decide) _ _ "s1" stepsR_split stepsR_ids

set_option maxRecDepth 8192 in
/-- … computed: it had `a/b`, `a/c` in its snapshot, was sent the resets' deletes and ends with `a/d` only -/
example : (cget (((Sys.start cfg2).runR id stepsR).streamView "s1").tree ["dev1", "openconfig", "a", "b"],
           cget (((Sys.start cfg2).runR id stepsR).streamView "s1").tree ["dev1", "openconfig", "a", "c"],
           cget (((Sys.start cfg2).runR id stepsR).streamView "s1").tree ["dev1", "openconfig", "a", "d"]) =
    (none, none, some { ts := 6, val := .scalar (.int 9) }) := by decide

/-! ## Why the `Reset`: skipping it leaves a stale leaf

The minimal witness (`corpus/C01/clean_eof_then_smaller_state.ops`): dev1 streams `a=10, b=2`, ends its
stream cleanly, and on the resubscription streams `a=10` only.  With the reset step the client holds
`a` only; a collector whose manager does not call the `Reset` callback on a clean end of stream
behaves as the same run *without* the reset step: the client keeps `b`. -/

def stepsEOF (withReset : Bool) : List StepR :=
  [ .step (.recv "dev1" true 0 (upd 1 ["a"] 10)),
    .step (.recv "dev1" false 0 (upd 1 ["b"] 2)) ] ++
  (if withReset then [.reset "dev1" 1] else []) ++
  [ .connectError "dev1" "EOF" 1,
    .step (.recv "dev1" true 2 (upd 3 ["a"] 10)) ]

set_option maxRecDepth 8192 in
theorem skipping_reset_leaves_stale_leaf :
    -- as the collector is: `b` is gone
    cget (((Sys.start cfg2).runR id (stepsEOF true)).once "dev1" [[]]).tree ["dev1", "openconfig", "b"] = none ∧
    cget (((Sys.start cfg2).runR id (stepsEOF true)).once "dev1" [[]]).tree ["dev1", "openconfig", "a"] =
      some { ts := 3, val := .scalar (.int 10) } ∧
    (finalView (lastSession "dev1" (stepsEOF true))).get ["openconfig", "b"] = none ∧
    -- without the `Reset` callback: `b` stays although the target no longer has it
    cget (((Sys.start cfg2).runR id (stepsEOF false)).once "dev1" [[]]).tree ["dev1", "openconfig", "b"] =
      some { ts := 1, val := .scalar (.int 2) } := by decide

end C01
end Gnmi
