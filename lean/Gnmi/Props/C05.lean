import Gnmi.Model.Subscribe
/-!
# C05 — ONCE (and POLL) return exactly the matching snapshot, then sync

Statements about the sequential model of `subscribe.Server` (`Gnmi/Model/Subscribe.lean`)
against an unchanging cache: for every cache content, ACL and accepted ONCE request.  The
concurrent form (writers running during the call) is the LTS theorem `Props/C05L.lean`.
-/
namespace Gnmi
namespace C05
open Sub Cache

abbrev WalkItem := String × Path × Noti

/-! ## the walk queues each matching leaf once -/

def isNote : Item → Bool
  | .note _ => true
  | _ => false

theorem lastCover_no_notes (q : List (Item × Nat)) (t : String) (k : Path)
    (h : ∀ x ∈ q, isNote x.1 = false) : lastCover q t k = 0 := by
  unfold lastCover
  suffices ∀ (l : List ((Item × Nat) × Nat)) (acc : Nat), (∀ x ∈ l, isNote x.1.1 = false) →
      l.foldl (fun acc x =>
        match x.1.1 with
        | .note e => if coversKey e t k then x.2 + 1 else acc
        | _ => acc) acc = acc by
    apply this
    intro x hx
    have hm : x.1 ∈ q := by
      have := List.mem_zipIdx hx
      rw [this.2.2]
      exact List.getElem_mem _
    exact h _ hm
  intro l
  induction l with
  | nil => intro acc _; rfl
  | cons x l ih =>
    intro acc hl
    simp only [List.foldl_cons]
    have hx := hl x (List.mem_cons_self ..)
    have : (match x.1.1 with
        | .note e => if coversKey e t k then x.2 + 1 else acc
        | _ => acc) = acc := by
      cases hx1 : x.1.1 with
      | note e => rw [hx1] at hx; simp [isNote] at hx
      | handle => rfl
      | detached => rfl
      | sync => rfl
    rw [this]
    exact ih acc (fun y hy => hl y (List.mem_cons_of_mem _ hy))

/-- what the walk has queued after `seen`: handles only, one per distinct leaf, each showing the
leaf's notification -/
structure WalkQ (seen : List WalkItem) (q : List (Item × Nat)) : Prop where
  onlyHandles : ∀ x ∈ q, ∃ it ∈ seen, x.1 = Item.handle it.1 it.2.1 it.2.2
  complete : ∀ it ∈ seen, ∃ d, (Item.handle it.1 it.2.1 it.2.2, d) ∈ q

/-- a leaf has one value in an unchanging cache -/
def Functional (items : List WalkItem) : Prop :=
  ∀ a ∈ items, ∀ b ∈ items, a.1 = b.1 → a.2.1 = b.2.1 → a.2.2 = b.2.2

theorem insertHandle_walk (seen : List WalkItem) (q : List (Item × Nat)) (it : WalkItem)
    (hq : WalkQ seen q) (hf : Functional (seen ++ [it])) :
    WalkQ (seen ++ [it]) (insertHandle q it.1 it.2.1 it.2.2) := by
  have hnn : ∀ x ∈ q, isNote x.1 = false := by
    intro x hx
    obtain ⟨i, _, hi⟩ := hq.onlyHandles x hx
    rw [hi]; rfl
  unfold insertHandle
  simp only [lastCover_no_notes q it.1 it.2.1 hnn, List.take_zero, List.drop_zero, List.nil_append]
  split
  · rename_i hany
    -- an entry for this leaf is already queued: it shows the same notification
    constructor
    · intro x hx
      obtain ⟨y, hy, rfl⟩ := List.mem_map.1 hx
      split
      · exact ⟨it, by simp, rfl⟩
      · obtain ⟨i, hi, hi'⟩ := hq.onlyHandles y hy
        exact ⟨i, List.mem_append_left _ hi, hi'⟩
    · intro i hi
      rcases List.mem_append.1 hi with h1 | h1
      · obtain ⟨d, hd⟩ := hq.complete i h1
        by_cases hsame : isHandleFor it.1 it.2.1 (Item.handle i.1 i.2.1 i.2.2) = true
        · simp only [isHandleFor, Bool.and_eq_true, beq_iff_eq] at hsame
          have hv : i.2.2 = it.2.2 :=
            hf i (List.mem_append_left _ h1) it (by simp) hsame.1 hsame.2
          refine ⟨d + 1, List.mem_map.2 ⟨_, hd, ?_⟩⟩
          simp only [isHandleFor, hsame.1, hsame.2, beq_self_eq_true, Bool.and_self, if_true, hv]
        · refine ⟨d, List.mem_map.2 ⟨_, hd, ?_⟩⟩
          simp [hsame]
      · simp only [List.mem_singleton] at h1
        subst h1
        obtain ⟨y, hy, hyh⟩ := List.any_eq_true.1 hany
        refine ⟨y.2 + 1, List.mem_map.2 ⟨y, hy, ?_⟩⟩
        rw [if_pos hyh]
  · rename_i hany
    constructor
    · intro x hx
      rcases List.mem_append.1 hx with h1 | h1
      · obtain ⟨i, hi, hi'⟩ := hq.onlyHandles x h1
        exact ⟨i, List.mem_append_left _ hi, hi'⟩
      · simp only [List.mem_singleton] at h1
        exact ⟨it, by simp, by rw [h1]⟩
    · intro i hi
      rcases List.mem_append.1 hi with h1 | h1
      · obtain ⟨d, hd⟩ := hq.complete i h1
        exact ⟨d, List.mem_append_left _ hd⟩
      · simp only [List.mem_singleton] at h1
        subst h1
        exact ⟨0, by simp⟩

theorem walk_fold (items : List WalkItem) : ∀ (seen : List WalkItem) (q : List (Item × Nat)),
    WalkQ seen q → Functional (seen ++ items) →
    WalkQ (seen ++ items) (items.foldl (fun q it => insertHandle q it.1 it.2.1 it.2.2) q) := by
  induction items with
  | nil => intro seen q h _; simpa using h
  | cons it items ih =>
    intro seen q h hf
    have hf1 : Functional (seen ++ [it]) := by
      intro a ha b hb
      exact hf a (by simp at ha ⊢; rcases ha with h | h <;> simp [h]) b
        (by simp at hb ⊢; rcases hb with h | h <;> simp [h])
    have := ih (seen ++ [it]) _ (insertHandle_walk seen q it h hf1) (by simpa using hf)
    simpa using this

/-! ## the sender forwards the queue, minus what the ACL denies, then reports the closed queue -/

/-- `pump` on an open gate with a closed queue that holds no target delete -/
theorem pump_drains : ∀ (q : List (Item × Nat)) (fuel : Nat) (id : String) (req : Req) (acl : Acl)
    (regs : List Path) (status : Option Code) (gsd : Bool) (out : List (Resp × Bool)),
    fuel ≥ q.length + 1 → (∀ x ∈ q, isTargetDelete (toResp x) = false) →
    let s : Subscriber := Subscriber.mk id req acl regs true status false gsd none q true out
    (pump fuel s).alive = false ∧ (pump fuel s).status = some .ok ∧
    (pump fuel s).out = out ++ ((q.filter (fun x => !denied acl (toResp x))).map (fun x => (toResp x, gsd)))
  | [], fuel + 1, id, req, acl, regs, status, gsd, out, _, _ => by
    intro s
    simp [s, pump]
  | x :: q, fuel + 1, id, req, acl, regs, status, gsd, out, hf, hnt => by
    intro s
    have hx := hnt x (List.mem_cons_self ..)
    by_cases hd : denied acl (toResp x) = true
    · have ih := pump_drains q fuel id req acl regs status gsd out (by simp at hf ⊢; omega)
        (fun y hy => hnt y (List.mem_cons_of_mem _ hy))
      simp only at ih
      have hstep : pump (fuel + 1) s = pump fuel { s with queue := q } := by
        simp [s, pump, hd]
      rw [hstep]
      obtain ⟨a, b, c⟩ := ih
      refine ⟨a, b, ?_⟩
      rw [c]; simp [hd]
    · have hd' : denied acl (toResp x) = false := by simpa using hd
      have ih := pump_drains q fuel id req acl regs status gsd (out ++ [(toResp x, gsd)])
        (by simp at hf ⊢; omega) (fun y hy => hnt y (List.mem_cons_of_mem _ hy))
      simp only at ih
      have hstep : pump (fuel + 1) s =
          pump fuel { s with queue := q, out := out ++ [(toResp x, gsd)] } := by
        simp [s, pump, hd', hx]
      rw [hstep]
      obtain ⟨a, b, c⟩ := ih
      refine ⟨a, b, ?_⟩
      rw [c]; simp [hd']
  | [], 0, _, _, _, _, _, _, _, hf, _ => by simp at hf
  | _ :: _, 0, _, _, _, _, _, _, _, hf, _ => by simp at hf

/-! ## ONCE against an unchanging cache -/

/-- the request passes the handler's validation and ACL gate -/
def Accepted (c : Cache.State) (a : Acl) (r : Req) : Prop :=
  r.hasSubscribe = true ∧ r.prefixNil = false ∧ r.target ≠ "" ∧ c.hasTarget r.target = true ∧
  (r.target = "*" ∨ a.check r.target = true) ∧ a.check "" = a.check "" ∧
  (match a with | .fails => False | _ => True)

/-- **C05 (static).** A ONCE subscription accepted by the handler, against an unchanging cache,
whose paths `CompletePath` accepts (`hT`: a stored notification carries its target's name in the
prefix — the cache routes by it): the stream carries one update per distinct matching leaf on
a target the caller may see — every such leaf, nothing else, each with the leaf's current
notification — then exactly one `sync_response`, and ends with status OK. -/
theorem once_static_exact (c : Cache.State) (id : String) (a : Acl) (r : Req) (items : List WalkItem)
    (hacc : Accepted c a r) (hmode : r.mode = .once)
    (hw : walkItems c r = some items) (hfun : Functional items)
    (hT : ∀ it ∈ items, it.2.2.target = it.1) :
    ∃ s, (subscribe { cache := c } id a (some r)).subs = [s] ∧
      s.status = some .ok ∧ s.alive = false ∧
      ∃ body, s.out.map (·.1) = body ++ [Resp.sync] ∧
        (∀ x ∈ body, ∃ it ∈ items, ∃ d, x = Resp.upd it.2.2 d ∧ a.check it.1 = true) ∧
        (∀ it ∈ items, a.check it.1 = true → ∃ d, Resp.upd it.2.2 d ∈ body) := by
  obtain ⟨h1, h2, h3, h4, h5, _, h7⟩ := hacc
  have hden : ¬ (r.target ≠ "*" ∧ (!a.check r.target) = true) := by
    rintro ⟨x, y⟩
    rcases h5 with h5 | h5
    · exact x h5
    · simp [h5] at y
  -- the queue the walk builds
  have hwq := walk_fold items [] [] ⟨by simp, by simp⟩ (by simpa using hfun)
  simp only [List.nil_append] at hwq
  generalize hQ : items.foldl (fun q it => insertHandle q it.1 it.2.1 it.2.2) [] = Q at hwq
  have hsync : insertSync Q = Q ++ [(Item.sync, 0)] := by
    unfold insertSync
    have : Q.any (fun x => x.1 == Item.sync) = false := by
      rw [List.any_eq_false]
      intro x hx
      obtain ⟨i, _, hi⟩ := hwq.onlyHandles x hx
      rw [hi]; simp
    simp [this]
  -- the subscriber after the walk, before the sender runs
  let s0 : Subscriber := { id := id, req := r, acl := a, queue := Q ++ [(Item.sync, 0)], closed := true }
  have hsub : (subscribe { cache := c } id a (some r)).subs = [pumpAll s0] := by
    unfold subscribe
    cases a with
    | fails => exact absurd h7 (by simp)
    | absent =>
      simp only [h1, h2, h3, h4, hden, hmode, doWalk, hw, hQ, hsync, newSubscriber]
      simp [s0]
    | allow ts =>
      simp only [h1, h2, h3, h4, hden, hmode, doWalk, hw, hQ, hsync, newSubscriber]
      simp [s0]
  have hnt : ∀ x ∈ Q ++ [(Item.sync, 0)], isTargetDelete (toResp x) = false := by
    intro x hx
    rcases List.mem_append.1 hx with h | h
    · obtain ⟨i, _, hi⟩ := hwq.onlyHandles x h
      obtain ⟨xi, xd⟩ := x
      simp only at hi
      subst hi
      rfl
    · simp only [List.mem_singleton] at h; subst h; rfl
  obtain ⟨p1, p2, p3⟩ := pump_drains (Q ++ [(Item.sync, 0)]) ((Q ++ [(Item.sync, 0)]).length + 2)
    id r a [] none false [] (by omega) hnt
  refine ⟨pumpAll s0, hsub, p2, p1, ?_⟩
  have hsyncnd : denied a (toResp (Item.sync, 0)) = false := rfl
  refine ⟨((Q.filter (fun x => !denied a (toResp x))).map toResp), ?_, ?_, ?_⟩
  · show (pump _ s0).out.map (·.1) = _
    rw [p3]
    have hs1 : [(Item.sync, 0)].filter (fun x => !denied a (toResp x)) = [(Item.sync, 0)] := by
      simp [hsyncnd]
    simp only [List.nil_append, List.filter_append, hs1, List.map_append, List.map_map]
    rfl
  · intro x hx
    obtain ⟨y, hy, rfl⟩ := List.mem_map.1 hx
    have hy' := List.mem_filter.1 hy
    obtain ⟨i, hi, hih⟩ := hwq.onlyHandles y hy'.1
    obtain ⟨yi, yd⟩ := y
    simp only at hih
    subst hih
    refine ⟨i, hi, yd, rfl, ?_⟩
    have := hy'.2
    rw [← hT i hi]
    simpa [denied, toResp, respTarget] using this
  · intro i hi hal
    obtain ⟨d, hd⟩ := hwq.complete i hi
    refine ⟨d, List.mem_map.2 ⟨_, List.mem_filter.2 ⟨hd, ?_⟩, rfl⟩⟩
    rw [← hT i hi] at hal
    simp [denied, toResp, respTarget, hal]

/-- what the walk collects: for each subscription path, the leaves `Cache.Query` returns for the
completed path (`qmatches`, by the definition of `State.query`) -/
theorem walkItems_mem (c : Cache.State) (r : Req) (items : List WalkItem) (huo : r.updatesOnly = false)
    (hw : walkItems c r = some items) (it : WalkItem) :
    it ∈ items ↔ ∃ s ∈ r.subs, ∃ full found, completePath r s = some full ∧
      c.query r.target full = some found ∧ it ∈ found := by
  unfold walkItems at hw
  simp only [huo, Bool.false_eq_true, if_false] at hw
  suffices ∀ (subs : List SubPath) (acc items : List WalkItem),
      subs.foldl (fun acc s =>
        match acc with
        | none => none
        | some items =>
          match completePath r s with
          | none => none
          | some full =>
            match c.query r.target full with
            | none => some items
            | some found => some (items ++ found)) (some acc) = some items →
      (it ∈ items ↔ it ∈ acc ∨ ∃ s ∈ subs, ∃ full found, completePath r s = some full ∧
        c.query r.target full = some found ∧ it ∈ found) by
    have := this r.subs [] items hw
    simpa using this
  intro subs
  induction subs with
  | nil => intro acc items h; simp at h; subst h; simp
  | cons s subs ih =>
    intro acc items h
    simp only [List.foldl_cons] at h
    cases hc : completePath r s with
    | none =>
      rw [hc] at h
      simp only at h
      exfalso
      have : ∀ (l : List SubPath), l.foldl (fun acc s =>
          match acc with
          | none => none
          | some items =>
            match completePath r s with
            | none => none
            | some full =>
              match c.query r.target full with
              | none => some items
              | some found => some (items ++ found)) (none : Option (List WalkItem)) = none := by
        intro l; induction l with
        | nil => rfl
        | cons a l ih => simpa using ih
      rw [this] at h; cases h
    | some full =>
      rw [hc] at h
      simp only at h
      cases hq : c.query r.target full with
      | none =>
        rw [hq] at h
        rw [ih acc items h]
        constructor
        · rintro (h | ⟨s', hs', f, fo, h1, h2, h3⟩)
          · exact Or.inl h
          · exact Or.inr ⟨s', List.mem_cons_of_mem _ hs', f, fo, h1, h2, h3⟩
        · rintro (h | ⟨s', hs', f, fo, h1, h2, h3⟩)
          · exact Or.inl h
          · rcases List.mem_cons.1 hs' with rfl | hs''
            · rw [hc] at h1; cases h1; rw [hq] at h2; cases h2
            · exact Or.inr ⟨s', hs'', f, fo, h1, h2, h3⟩
      | some found =>
        rw [hq] at h
        rw [ih (acc ++ found) items h]
        constructor
        · rintro (h | ⟨s', hs', f, fo, h1, h2, h3⟩)
          · rcases List.mem_append.1 h with h | h
            · exact Or.inl h
            · exact Or.inr ⟨s, List.mem_cons_self .., full, found, hc, hq, h⟩
          · exact Or.inr ⟨s', List.mem_cons_of_mem _ hs', f, fo, h1, h2, h3⟩
        · rintro (h | ⟨s', hs', f, fo, h1, h2, h3⟩)
          · exact Or.inl (List.mem_append_left _ h)
          · rcases List.mem_cons.1 hs' with rfl | hs''
            · rw [hc] at h1; cases h1; rw [hq] at h2; cases h2
              exact Or.inl (List.mem_append_right _ h3)
            · exact Or.inr ⟨s', hs'', f, fo, h1, h2, h3⟩

/-- a request with an origin conflict ends with an error and no sync -/
theorem once_origin_conflict (c : Cache.State) (id : String) (a : Acl) (r : Req)
    (hacc : Accepted c a r) (hmode : r.mode = .once) (hw : walkItems c r = none) :
    (subscribe { cache := c } id a (some r)).subs =
      [{ id := id, req := r, acl := a, alive := false, status := some .unknown }] := by
  obtain ⟨h1, h2, h3, h4, h5, _, h7⟩ := hacc
  have hden : ¬ (r.target ≠ "*" ∧ (!a.check r.target) = true) := by
    rintro ⟨x, y⟩
    rcases h5 with h5 | h5
    · exact x h5
    · simp [h5] at y
  cases a with
  | fails => exact absurd h7 (by simp)
  | absent =>
    unfold subscribe
    simp only [h1, h2, h3, h4, hden, hmode, doWalk, newSubscriber, hw]
    simp [pumpAll, pump]
  | allow ts =>
    unfold subscribe
    simp only [h1, h2, h3, h4, hden, hmode, doWalk, newSubscriber, hw]
    simp [pumpAll, pump]

/-! ## Non-vacuity -/

def nA : Noti := { ts := 5, target := "t1", pfx := ["a"], praw := "p", upd := [{ path := ["b"], val := .scalar (.int 1), raw := "u" }] }
def cache1 : Cache.State := ((({} : Cache.State).add "t1").gnmiUpdate 10 false nA).2.1
def req1 : Req := { target := "t1", mode := .once, subs := [{ path := ["a"] }, { path := ["a", "*"] }] }

example : ((subscribe { cache := cache1 } "s" .absent (some req1)).subs.map
    (fun s => (s.out.map (fun x => x.1), s.status))) = [([Resp.upd nA 1, Resp.sync], some Code.ok)] := by decide

end C05
end Gnmi
