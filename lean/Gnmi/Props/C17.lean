import Gnmi.Lemmas.TargetCfg
/-!
# C17 — target config loads are monotonic and announced as exact diffs

Property theorems only (helper lemmas: `Gnmi/Lemmas/TargetCfg.lean`; model of
`target/target.go`: `Gnmi/Model/TargetCfg.lean`; vocabulary of the property — effective view,
replay, declarative difference, gate predicates: `Gnmi/Spec/TargetCfg.lean`).

Everything is stated for **all** configurations (any number of targets and requests, any
payload) and **all** histories of loads (any length; nil, invalid, stale and good loads in
any mix).  Go maps are association lists with pairwise distinct keys (`Cfg.WF`, the
representation invariant of a map — an input hypothesis, since a Go map cannot violate it);
Go's random map iteration order is covered by quantifying over **every permutation** of the
emitted calls (`diff_exact`, `history_converges`) and of the maps themselves
(`order_irrelevant`).

The only hypothesis on the state a load starts from is `Good`: what is loaded is valid and a
map.  It is established by `NewConfig`/`NewConfigWithBase` and preserved by every load
(`good_new`, `good_load`), so it is an invariant, not an assumption.
-/
namespace Gnmi
namespace C17
open TargetCfg

/-- the state invariant: whatever is loaded passed `Validate` and is a pair of maps -/
def Good (cur : Option Cfg) : Prop := ∀ c, cur = some c → Valid c ∧ c.WF

/-! ## The gate (`Validate` + `checkRevision`) -/

/-- `Validate` accepts exactly the configurations in which every target is named, present,
has at least one address and names a request that exists. -/
theorem validate_iff (c : Cfg) : validate c = .ok () ↔ Valid c := validate_ok_iff c

/-- `checkRevision` accepts exactly when nothing is loaded yet or the revision is strictly
greater than the current one. -/
theorem checkRevision_iff (cur : Option Cfg) (c : Cfg) :
    checkRevision cur c = true ↔ (cur = none ∨ ∃ o, cur = some o ∧ o.revision < c.revision) :=
  TargetCfg.checkRevision_iff cur c

/-- **load_gate.**  A load is accepted iff the configuration is valid and (there is no current
configuration or its revision is strictly greater).  An accepted load installs exactly the
given configuration (the state *does* change) and emits the calls of `handleDiffs`; a rejected
load — whatever the reason — leaves the state untouched and runs no handler. -/
theorem load_gate (s : St) (cfg : Cfg) :
    ((load s (some cfg)).2.1 = .ok ↔ Valid cfg ∧ Newer s.cur cfg) ∧
    ((load s (some cfg)).2.1 = .ok →
        (load s (some cfg)).1 = { s with cur := some cfg } ∧
        (load s (some cfg)).2.2 = handleDiffs s.h s.cur cfg ∧
        (load s (some cfg)).1.cur ≠ s.cur) ∧
    ((load s (some cfg)).2.1 ≠ .ok →
        (load s (some cfg)).1 = s ∧ (load s (some cfg)).2.2 = []) := by
  rcases load_cases s cfg with ⟨e, nv, hl⟩ | ⟨v, nn, hl⟩ | ⟨v, n, hl⟩
  · rw [hl]; simp [nv]
  · rw [hl]; simp [nn]
  · rw [hl]
    simp only [v, n, and_self, true_and, ne_eq, not_true_eq_false, false_implies,
      and_true, true_implies]
    intro e
    rcases n with hn | ⟨o, ho, hlt⟩
    · rw [hn] at e; cases e
    · rw [ho] at e
      cases e
      exact Int.lt_irrefl _ hlt

/-- Loading a nil configuration is rejected: nothing changes, no handler runs. -/
theorem load_nil (s : St) : load s none = (s, .nilConfig, []) := rfl

/-- A load never touches the handler table. -/
theorem load_handlers (s : St) (config : Option Cfg) : (load s config).1.h = s.h := by
  cases config with
  | none => rfl
  | some cfg =>
    rcases load_cases s cfg with ⟨e, _, hl⟩ | ⟨_, _, hl⟩ | ⟨_, _, hl⟩
    · rw [hl]
    · rw [hl]
    · rw [hl]

/-- Rejection classes, in the order the code tests them. -/
theorem load_classes (s : St) (cfg : Cfg) :
    ((∃ e, (load s (some cfg)).2.1 = .invalid e) ↔ ¬ Valid cfg) ∧
    ((load s (some cfg)).2.1 = .revision ↔ Valid cfg ∧ ¬ Newer s.cur cfg) := by
  rcases load_cases s cfg with ⟨e, nv, hl⟩ | ⟨v, nn, hl⟩ | ⟨v, n, hl⟩
  · rw [hl]; simp [nv]
  · rw [hl]; simp [v, nn]
  · rw [hl]; simp [v, n]

/-- `NewConfig` / `NewConfigWithBase` establish the invariant (a base is validated; the map
invariant of the base is the caller's, as for every Go map). -/
theorem good_new (h : Handlers) (base : Option Cfg) (wf : ∀ c, base = some c → c.WF) (s : St)
    (hs : newConfigWithBase h base = .ok s) : Good s.cur ∧ s.cur = base ∧ s.h = h := by
  unfold newConfigWithBase at hs
  cases base with
  | none => cases hs; exact ⟨fun c e => (by cases e), rfl, rfl⟩
  | some c =>
    cases hv : validate c with
    | error e => simp [hv] at hs
    | ok u =>
      simp only [hv] at hs
      cases hs
      refine ⟨?_, rfl, rfl⟩
      intro c' e
      cases e
      exact ⟨(validate_ok_iff c).mp hv, wf c rfl⟩

/-- `NewConfigWithBase` fails exactly on an invalid base (and then there is no `Config`). -/
theorem new_fails_iff (h : Handlers) (c : Cfg) :
    (∃ e, newConfigWithBase h (some c) = .error e) ↔ ¬ Valid c := by
  cases hv : validate c with
  | error e =>
    have : ¬ Valid c := fun v => by rw [(validate_ok_iff c).mpr v] at hv; cases hv
    simp [newConfigWithBase, hv, this]
  | ok u => simp [newConfigWithBase, hv, (validate_ok_iff c).mp hv]

/-- Every load preserves the invariant. -/
theorem good_load (s : St) (config : Option Cfg) (g : Good s.cur) (wf : ∀ c, config = some c → c.WF) :
    Good (load s config).1.cur := by
  cases config with
  | none => exact g
  | some cfg =>
    by_cases ok : (load s (some cfg)).2.1 = .ok
    · rw [((load_gate s cfg).2.1 ok).1]
      intro c e
      cases e
      exact ⟨(((load_gate s cfg).1).mp ok).1, wf cfg rfl⟩
    · rw [((load_gate s cfg).2.2 ok).1]; exact g

/-! ## Exact diffs -/

theorem keys_effective (c : Cfg) : keys (effective c) = keys c.target :=
  keys_mapVal (resolve c.request) c.target

theorem nodup_effectiveO {cur : Option Cfg} (g : Good cur) : (keys (effectiveO cur)).Nodup := by
  cases cur with
  | none => exact List.nodup_nil
  | some c => rw [effectiveO, keys_effective]; exact (g c rfl).2.2

/-- `handleDiffs` (request-changed set, mutable copy of the new targets, three loops) computes
exactly the declarative per-name difference of the two effective views, restricted to the
callbacks that are not nil — as lists, for the iteration order the model fixes. -/
theorem handleDiffs_eq_specDiff (h : Handlers) (old : Option Cfg) (new : Cfg) (go : Good old)
    (vn : Valid new) (wn : new.WF) :
    handleDiffs h old new = (specDiff (effectiveO old) (effective new)).filter h.allows := by
  unfold handleDiffs
  cases old with
  | none =>
    exact diff_core h [] new.request [] new.target List.nodup_nil wn.1 (fun _ hk => by cases hk) vn
  | some o =>
    exact diff_core h o.request new.request o.target new.target (go o rfl).2.2 wn.1 (go o rfl).1 vn

/-- With all three callbacks present nothing is filtered. -/
theorem handleDiffs_all (old : Option Cfg) (new : Cfg) (go : Good old) (vn : Valid new) (wn : new.WF) :
    handleDiffs {} old new = specDiff (effectiveO old) (effective new) := by
  rw [handleDiffs_eq_specDiff {} old new go vn wn]
  have : ∀ c, ({} : Handlers).allows c = true := fun c => by cases c <;> rfl
  rw [List.filter_eq_self.mpr (fun c _ => this c)]

/-- A nil callback only drops the calls it would have received; it changes no other call. -/
theorem nil_handlers_filter (h : Handlers) (old : Option Cfg) (new : Cfg) (go : Good old)
    (vn : Valid new) (wn : new.WF) :
    handleDiffs h old new = (handleDiffs {} old new).filter h.allows := by
  rw [handleDiffs_all old new go vn wn, handleDiffs_eq_specDiff h old new go vn wn]

/-- **The calls are exactly the difference** (readable form): `Delete k` iff `k` was a target
and no longer is; `Update` iff the name stays and its (settings, resolved request) pair
changed — with the *new* pair as payload; `Add` iff the name is new — with its pair as
payload. -/
theorem diff_calls_iff (old : Option Cfg) (new : Cfg) (go : Good old) (vn : Valid new) (wn : new.WF)
    (c : Call) :
    c ∈ handleDiffs {} old new ↔
      match c with
      | .delete k => k ∈ keys (effectiveO old) ∧ k ∉ keys (effective new)
      | .update u => ∃ e, find u.name (effectiveO old) = some e ∧
          find u.name (effective new) = some (u.target, u.request) ∧ e ≠ (u.target, u.request)
      | .add u => find u.name (effectiveO old) = none ∧
          find u.name (effective new) = some (u.target, u.request) := by
  rw [handleDiffs_all old new go vn wn]
  have no := nodup_effectiveO go
  have nn : (keys (effective new)).Nodup := by rw [keys_effective]; exact wn.2
  cases c with
  | add u => exact mem_specDiff_add nn u
  | update u => exact mem_specDiff_update no u
  | delete k => exact mem_specDiff_delete k

/-- **diff_exact.**  For an accepted load, applying the emitted calls *in any order* to the
effective view of the old configuration yields the effective view of the new one (as maps,
and — both having distinct keys — as permutations of each other); the calls touch pairwise
distinct names. -/
theorem diff_exact (old : Option Cfg) (new : Cfg) (go : Good old) (vn : Valid new) (wn : new.WF)
    (calls : List Call) (p : calls.Perm (handleDiffs {} old new)) :
    MapEq (replay (effectiveO old) calls) (effective new) ∧
    (replay (effectiveO old) calls).Perm (effective new) ∧
    (calls.map Call.name).Nodup := by
  rw [handleDiffs_all old new go vn wn] at p
  have no := nodup_effectiveO go
  have nn : (keys (effective new)).Nodup := by rw [keys_effective]; exact wn.2
  have me := replay_specDiff no nn p
  exact ⟨me, perm_of_mapEq (nodup_keys_replay calls _ no) nn me,
    (p.map Call.name).nodup_iff.mpr (specDiff_names_nodup no nn)⟩

/-- **unchanged_silent.**  A target whose settings and resolved request are the same before
and after produces no handler call (whatever callbacks exist, whatever else changed — other
targets, the request's *name*, other requests, the revision). -/
theorem unchanged_silent (h : Handlers) (old : Option Cfg) (new : Cfg) (go : Good old)
    (vn : Valid new) (wn : new.WF) (k : String) (e : Eff)
    (ho : find k (effectiveO old) = some e) (hn : find k (effective new) = some e) :
    ∀ c ∈ handleDiffs h old new, c.name ≠ k := by
  intro c hc ek
  rw [nil_handlers_filter h old new go vn wn] at hc
  have hc' := (diff_calls_iff old new go vn wn c).mp (List.mem_filter.mp hc).1
  cases c with
  | add u =>
    simp only [Call.name] at ek
    dsimp only at hc'
    rw [ek, ho] at hc'; cases hc'.1
  | update u =>
    simp only [Call.name] at ek
    dsimp only at hc'
    obtain ⟨e0, h1, h2, h3⟩ := hc'
    rw [ek, ho] at h1; rw [ek, hn] at h2
    cases h1; cases h2; exact h3 rfl
  | delete n =>
    simp only [Call.name] at ek
    dsimp only at hc'
    rw [ek] at hc'
    exact hc'.2 (mem_keys_of_mem (mem_of_find hn))

/-- … and conversely every name whose entry differs (appeared, disappeared, or changed) gets
exactly the call that installs its new entry. -/
theorem changed_announced (old : Option Cfg) (new : Cfg) (go : Good old) (vn : Valid new) (wn : new.WF)
    (k : String) (hd : find k (effectiveO old) ≠ find k (effective new)) :
    ∃ c ∈ handleDiffs {} old new, c.name = k ∧ c.effect = find k (effective new) := by
  have iff := diff_calls_iff old new go vn wn
  cases ho : find k (effectiveO old) with
  | none =>
    cases hn : find k (effective new) with
    | none => rw [ho, hn] at hd; exact absurd rfl hd
    | some e' => exact ⟨.add ⟨k, e'.2, e'.1⟩, (iff _).mpr ⟨ho, hn⟩, rfl, rfl⟩
  | some e =>
    cases hn : find k (effective new) with
    | none =>
      exact ⟨.delete k, (iff _).mpr ⟨mem_keys_of_mem (mem_of_find ho), find_eq_none_iff.mp hn⟩, rfl, rfl⟩
    | some e' =>
      have : e ≠ e' := fun x => hd (by rw [ho, hn, x])
      exact ⟨.update ⟨k, e'.2, e'.1⟩, (iff _).mpr ⟨e, ho, hn, this⟩, rfl, rfl⟩

/-! ## Map iteration order is irrelevant -/

/-- the same Go maps, iterated in a different order -/
def SameMaps (a b : Cfg) : Prop :=
  a.revision = b.revision ∧ a.request.Perm b.request ∧ a.target.Perm b.target

def SameMapsO : Option Cfg → Option Cfg → Prop
  | none, none => True
  | some a, some b => SameMaps a b
  | _, _ => False

theorem SameMaps.wf {a b : Cfg} (s : SameMaps a b) (w : a.WF) : b.WF :=
  ⟨((s.2.1.map Prod.fst).nodup_iff).mp w.1, ((s.2.2.map Prod.fst).nodup_iff).mp w.2⟩

theorem SameMaps.valid {a b : Cfg} (s : SameMaps a b) (v : Valid a) : Valid b := by
  intro kt hkt
  obtain ⟨h1, tv, h2, h3, h4, h5⟩ := v kt (s.2.2.mem_iff.mpr hkt)
  exact ⟨h1, tv, h2, h3, h4, (s.2.1.map Prod.fst).mem_iff.mp h5⟩

theorem SameMaps.effective {a b : Cfg} (s : SameMaps a b) (w : a.WF) :
    MapEq (effective a) (effective b) := by
  intro k
  have hr : ∀ t, resolve a.request t = resolve b.request t := by
    intro t; simp only [resolve, reqAt, find_perm w.1 s.2.1]
  unfold TargetCfg.effective
  rw [find_mapVal (resolve a.request), find_mapVal (resolve b.request), find_perm w.2 s.2.2 k]
  congr 1
  funext t
  exact hr t

theorem specDiff_perm {old old' new new' : View} (no : (keys old).Nodup) (no' : (keys old').Nodup)
    (nn : (keys new).Nodup) (nn' : (keys new').Nodup) (eo : MapEq old old') (en : MapEq new new') :
    (specDiff old new).Perm (specDiff old' new') := by
  rw [List.perm_ext_iff_of_nodup (nodup_of_map Call.name (specDiff_names_nodup no nn))
    (nodup_of_map Call.name (specDiff_names_nodup no' nn'))]
  have hk : ∀ {a b : View}, MapEq a b → ∀ k, k ∈ keys a ↔ k ∈ keys b := by
    intro a b e k
    rw [← find_isSome_iff, ← find_isSome_iff, e k]
  intro c
  cases c with
  | add u => rw [mem_specDiff_add nn, mem_specDiff_add nn', eo, en]
  | update u => rw [mem_specDiff_update no, mem_specDiff_update no', eo, en]
  | delete k => rw [mem_specDiff_delete, mem_specDiff_delete, hk eo, hk en]

/-- **order_irrelevant.**  Iterating the request and target maps of the old and of the new
configuration in any other order changes neither the verdict of `Validate` nor the multiset
of handler calls. -/
theorem order_irrelevant (old old' : Option Cfg) (new new' : Cfg) (so : SameMapsO old old')
    (sn : SameMaps new new') (go : Good old) (wn : new.WF) :
    (Valid new ↔ Valid new') ∧
    (Valid new → (handleDiffs {} old new).Perm (handleDiffs {} old' new')) := by
  have sn' : SameMaps new' new := ⟨sn.1.symm, sn.2.1.symm, sn.2.2.symm⟩
  refine ⟨⟨sn.valid, sn'.valid⟩, ?_⟩
  intro vn
  have go' : Good old' := by
    intro c e
    cases old with
    | none => rw [e] at so; exact so.elim
    | some o =>
      rw [e] at so
      exact ⟨SameMaps.valid so (go o rfl).1, SameMaps.wf so (go o rfl).2⟩
  have eo : MapEq (effectiveO old) (effectiveO old') := by
    cases old with
    | none =>
      cases old' with
      | none => exact fun _ => rfl
      | some o' => exact so.elim
    | some o =>
      cases old' with
      | none => exact so.elim
      | some o' => exact SameMaps.effective so (go o rfl).2
  rw [handleDiffs_all old new go vn wn, handleDiffs_all old' new' go' (sn.valid vn) (sn.wf wn)]
  refine specDiff_perm (nodup_effectiveO go) (nodup_effectiveO go') ?_ ?_ eo (sn.effective wn)
  · rw [keys_effective]; exact wn.2
  · rw [keys_effective]; exact (sn.wf wn).2

/-! ## Histories -/

/-- All histories of a `Config` created over `base` with handler table `h`: any sequence of
loads (nil, invalid, stale, good); at each load the implementation may make the calls in any
order (`cs` is any permutation of the model's list).  `Hist h base cur calls`: after the
history the current configuration is `cur` and `calls` is everything the handlers saw. -/
inductive Hist (h : Handlers) (base : Option Cfg) : Option Cfg → List Call → Prop
  | init : Hist h base base []
  | load {cur : Option Cfg} {calls : List Call} (config : Option Cfg) (cs : List Call) :
      Hist h base cur calls →
      (∀ c, config = some c → c.WF) →
      cs.Perm (load ⟨cur, h⟩ config).2.2 →
      Hist h base (load ⟨cur, h⟩ config).1.cur (calls ++ cs)

/-- **history_converges.**  For every history of loads — from the empty configuration
(`base = none`) or from a validated base — replaying *all* handler calls, in the order they
were made, onto the effective view of the base yields exactly the effective view of the
current configuration: the same targets, target settings and resolved requests.  (The
invariant `Good` travels along.) -/
theorem history_converges (base : Option Cfg) (gb : Good base) {cur : Option Cfg} {calls : List Call}
    (hist : Hist {} base cur calls) :
    MapEq (replay (effectiveO base) calls) (effectiveO cur) ∧
    (replay (effectiveO base) calls).Perm (effectiveO cur) ∧
    Good cur := by
  have main : MapEq (replay (effectiveO base) calls) (effectiveO cur) ∧ Good cur := by
    induction hist with
    | init => exact ⟨fun _ => rfl, gb⟩
    | @load cur calls config cs _ wf p ih =>
      obtain ⟨me, g⟩ := ih
      have g' : Good (load ⟨cur, {}⟩ config).1.cur := good_load ⟨cur, {}⟩ config g wf
      refine ⟨?_, g'⟩
      rw [replay_append]
      cases config with
      | none =>
        rw [load_nil] at p
        rw [List.perm_nil.mp p]
        exact me
      | some cfg =>
        by_cases ok : (load ⟨cur, {}⟩ (some cfg)).2.1 = .ok
        · obtain ⟨e1, e2, _⟩ := (load_gate ⟨cur, {}⟩ cfg).2.1 ok
          obtain ⟨vn, _⟩ := (load_gate ⟨cur, {}⟩ cfg).1.mp ok
          rw [e2] at p
          rw [e1]
          have d := diff_exact cur cfg g vn (wf cfg rfl) cs p
          intro k
          rw [replay_congr cs d.2.2 me k]
          exact d.1 k
        · obtain ⟨e1, e2⟩ := (load_gate ⟨cur, {}⟩ cfg).2.2 ok
          rw [e2] at p
          rw [List.perm_nil.mp p, e1]
          exact me
  refine ⟨main.1, perm_of_mapEq ?_ (nodup_effectiveO main.2) main.1, main.2⟩
  -- keys of the replayed view are distinct
  have : ∀ {cur calls}, Hist {} base cur calls → (keys (replay (effectiveO base) calls)).Nodup := by
    intro cur calls hh
    induction hh with
    | init => exact nodup_effectiveO gb
    | load config cs _ _ _ ih => rw [replay_append]; exact nodup_keys_replay cs _ ih
  exact this hist

/-- Starting from `NewConfig` (nothing loaded): the replay onto the *empty* set yields the
effective view of the current configuration. -/
theorem history_converges_from_empty {cur : Option Cfg} {calls : List Call}
    (hist : Hist {} none cur calls) : MapEq (replay [] calls) (effectiveO cur) :=
  (history_converges none (fun _ e => by cases e) hist).1

/-- Revisions along a history never decrease, and every state change strictly increases
them (loads are monotonic). -/
theorem revision_monotone (h : Handlers) (base : Option Cfg) {cur : Option Cfg} {calls : List Call}
    (hist : Hist h base cur calls) :
    ∀ b, base = some b → ∃ c, cur = some c ∧ b.revision ≤ c.revision := by
  induction hist with
  | init => intro b e; exact ⟨b, e, Int.le_refl _⟩
  | @load cur calls config cs _ _ _ ih =>
    intro b e
    obtain ⟨c, hc, hle⟩ := ih b e
    cases config with
    | none => exact ⟨c, hc, hle⟩
    | some cfg =>
      by_cases ok : (load ⟨cur, h⟩ (some cfg)).2.1 = .ok
      · obtain ⟨e1, _, _⟩ := (load_gate ⟨cur, h⟩ cfg).2.1 ok
        obtain ⟨_, n⟩ := (load_gate ⟨cur, h⟩ cfg).1.mp ok
        rw [e1]
        refine ⟨cfg, rfl, ?_⟩
        rcases n with hn | ⟨o, ho, hlt⟩
        · simp only at hn; rw [hc] at hn; cases hn
        · simp only at ho; rw [hc] at ho; cases ho
          exact Int.le_trans hle (Int.le_of_lt hlt)
      · obtain ⟨e1, _⟩ := (load_gate ⟨cur, h⟩ cfg).2.2 ok
        rw [e1]; exact ⟨c, hc, hle⟩

/-- The deterministic run of the model over a list of loads (calls concatenated in the
model's order) — what the line-protocol driver executes. -/
def runLoads (s : St) : List (Option Cfg) → St × List Call
  | [] => (s, [])
  | c :: r =>
    let a := load s c
    let b := runLoads a.1 r
    (b.1, a.2.2 ++ b.2)

theorem hist_runLoads (h : Handlers) (base : Option Cfg) (cfgs : List (Option Cfg))
    (wf : ∀ c, some c ∈ cfgs → c.WF) : ∀ {cur : Option Cfg} {calls : List Call},
    Hist h base cur calls →
      Hist h base (runLoads ⟨cur, h⟩ cfgs).1.cur (calls ++ (runLoads ⟨cur, h⟩ cfgs).2) := by
  induction cfgs with
  | nil => intro cur calls hh; simpa [runLoads] using hh
  | cons c r ih =>
    intro cur calls hh
    have step := Hist.load c (load ⟨cur, h⟩ c).2.2 hh
      (fun x e => wf x (e ▸ List.mem_cons_self ..)) (List.Perm.refl _)
    have hs : (load ⟨cur, h⟩ c).1 = ⟨(load ⟨cur, h⟩ c).1.cur, h⟩ := by
      have := load_handlers ⟨cur, h⟩ c
      cases hl : (load ⟨cur, h⟩ c).1 with
      | mk cur' h' => rw [hl] at this; simp only at this; rw [this]
    have := ih (fun x hx => wf x (List.mem_cons_of_mem _ hx)) step
    rw [← hs, List.append_assoc] at this
    exact this

/-- `history_converges` for the deterministic run, as a statement about lists of loads. -/
theorem history_converges_run (base : Option Cfg) (gb : Good base) (cfgs : List (Option Cfg))
    (wf : ∀ c, some c ∈ cfgs → c.WF) :
    MapEq (replay (effectiveO base) (runLoads ⟨base, {}⟩ cfgs).2)
      (effectiveO (runLoads ⟨base, {}⟩ cfgs).1.cur) := by
  have := hist_runLoads {} base cfgs wf (Hist.init (h := {}) (base := base))
  rw [List.nil_append] at this
  exact (history_converges base gb this).1

/-! ## The specification column of the driver is the model -/

/-- On reachable states the declarative reading of `Load` (`specLoad`: `Valid`, `Newer`,
`specDiff` of the effective views) and the model of the code agree on state, result class and
calls. -/
theorem load_eq_specLoad (s : St) (config : Option Cfg) (g : Good s.cur)
    (wf : ∀ c, config = some c → c.WF) :
    (load s config).1 = (specLoad s config).1 ∧
    (load s config).2.1.toSpec = (specLoad s config).2.1 ∧
    (load s config).2.2 = (specLoad s config).2.2 := by
  cases config with
  | none => exact ⟨rfl, rfl, rfl⟩
  | some cfg =>
    have hb : validB cfg = true ↔ Valid cfg := validB_iff cfg
    have hn : newerB s.cur cfg = true ↔ Newer s.cur cfg := newerB_iff _ _
    rcases load_cases s cfg with ⟨e, nv, hl⟩ | ⟨v, nn, hl⟩ | ⟨v, n, hl⟩
    · have : validB cfg = false := by
        cases h : validB cfg
        · rfl
        · exact absurd (hb.mp h) nv
      rw [hl]; simp [specLoad, this, LoadRes.toSpec]
    · have h2 : newerB s.cur cfg = false := by
        cases h : newerB s.cur cfg
        · rfl
        · exact absurd (hn.mp h) nn
      rw [hl]; simp [specLoad, hb.mpr v, h2, LoadRes.toSpec]
    · rw [hl]
      simp [specLoad, hb.mpr v, hn.mpr n, LoadRes.toSpec,
        handleDiffs_eq_specDiff s.h s.cur cfg g v (wf cfg rfl)]

/-! ## Non-vacuity: concrete configurations meeting every hypothesis, and the interesting
cases of the property text evaluated on the model -/

/-- two targets sharing a request, one with credentials -/
def cfg1 : Cfg :=
  { revision := 1
    request := [("r1", .msg "interfaces"), ("r2", .msg "bgp")]
    target := [("a", some ⟨["h1:1"], "r1", ""⟩), ("b", some ⟨["h2:1", "h2:2"], "r1", "u=bob"⟩),
               ("c", some ⟨["h3:1"], "r2", ""⟩)] }

/-- next revision: request `r1` edited **and** target `a` re-pointed to `r2` in the same
revision; `c` removed; `d` added; `r2` renamed is not needed for `b` which keeps `r1` -/
def cfg2 : Cfg :=
  { revision := 2
    request := [("r2", .msg "bgp"), ("r1", .msg "interfaces+lldp")]
    target := [("d", some ⟨["h4:1"], "r2", ""⟩), ("b", some ⟨["h2:1", "h2:2"], "r1", "u=bob"⟩),
               ("a", some ⟨["h1:1"], "r2", ""⟩)] }

/-- request `r2` renamed to `q` (same content) and its users re-pointed: the *settings*
change (the target message names another request), so this is announced -/
def cfg3 : Cfg :=
  { revision := 5
    request := [("q", .msg "bgp"), ("r1", .msg "interfaces+lldp")]
    target := [("d", some ⟨["h4:1"], "q", ""⟩), ("b", some ⟨["h2:1", "h2:2"], "r1", "u=bob"⟩),
               ("a", some ⟨["h1:1"], "q", ""⟩)] }

def badCfg : Cfg := { revision := 9, request := [], target := [("x", some ⟨["h:1"], "nowhere", ""⟩)] }

theorem cfg1_valid : Valid cfg1 := (validB_iff _).mp (by decide)
theorem cfg2_valid : Valid cfg2 := (validB_iff _).mp (by decide)
theorem cfg3_valid : Valid cfg3 := (validB_iff _).mp (by decide)
theorem cfg1_wf : cfg1.WF := by unfold Cfg.WF; decide
theorem cfg2_wf : cfg2.WF := by unfold Cfg.WF; decide
theorem cfg3_wf : cfg3.WF := by unfold Cfg.WF; decide

example : Good (some cfg1) := fun c e => by cases e; exact ⟨cfg1_valid, cfg1_wf⟩
example : ¬ Valid badCfg := fun v => by have := (validB_iff _).mpr v; revert this; decide
example : Newer (some cfg1) cfg2 := Or.inr ⟨cfg1, rfl, by decide⟩

-- request edited + target re-pointed + delete + add in one revision
example : handleDiffs {} (some cfg1) cfg2 =
    [.update ⟨"a", .msg "bgp", some ⟨["h1:1"], "r2", ""⟩⟩,
     .update ⟨"b", .msg "interfaces+lldp", some ⟨["h2:1", "h2:2"], "r1", "u=bob"⟩⟩,
     .delete "c",
     .add ⟨"d", .msg "bgp", some ⟨["h4:1"], "r2", ""⟩⟩] := by decide
-- a failed load (invalid, then stale) between two good ones changes nothing
example : (runLoads {} [some cfg1, some badCfg, some { cfg2 with revision := 1 }, none, some cfg2]).1.cur
    = some cfg2 := by decide
example : ((runLoads {} [some cfg1, some badCfg, some { cfg2 with revision := 1 }, none]).2).length = 3 := by
  decide
-- same targets, only the revision and the map order change: silent
example : handleDiffs {} (some cfg2) { cfg2 with revision := 3, target := cfg2.target.reverse } = [] := by
  decide
-- rename of a request: the two users are updated, `b` is silent
example : (handleDiffs {} (some cfg2) cfg3).map Call.name = ["d", "a"] := by decide
-- nil Update callback: only the updates are dropped
example : handleDiffs { update := false } (some cfg1) cfg2 =
    [.delete "c", .add ⟨"d", .msg "bgp", some ⟨["h4:1"], "r2", ""⟩⟩] := by decide
-- a history exists with non-trivial content
example : Hist {} none (some cfg2) (handleDiffs {} none cfg1 ++ handleDiffs {} (some cfg1) cfg2) :=
  Hist.load (some cfg2) _ (Hist.load (some cfg1) _ Hist.init (fun _ e => by cases e; exact cfg1_wf)
    (List.Perm.refl _)) (fun _ e => by cases e; exact cfg2_wf) (List.Perm.refl _)

end C17
end Gnmi
