import Gnmi.Lemmas.SubscribeEnd
/-!
# C08 (sequential Subscribe model) — the send timeout

"A subscriber whose pending response cannot be sent within the configured timeout has its
subscription terminated with an error."  In the sequential, code-shaped model
(`Model/Subscribe.lean`) a response that cannot be sent is the response held inside a gated `Send`
(`Subscriber.blocked`), and the timeout elapsing is the operation `expire` (`Sub.expire`: the timer
of **every** sender that is inside `Send` fires; the `su` driver's `expire <id>` line executes it).
`Code.unknown` is the model's status for the non-status error `subscription timed out while sending`.

Histories are those of `SubEnd.Op`: all operations of `C07.Op` (subscriptions, arbitrary cache
contents and feed events, polls, EOF, gate shut / open / step, expire, drain), cache API calls
(`C04Seq` / `C04Gate` / `C08Seq`) and `pregate`, with no side condition.  A subscriber is named by
its position `i` in `State.subs`.

* `blocked_only_while_gated`, `expire_terminates`: in every reachable state a response is held only
  while flow control is shut; `expire` ends every running subscriber that holds one: not running,
  status `unknown` (an error), the held response is discarded, `out` (and everything else) unchanged.
* `stall_persists`, `stalled_until_expire`: until then the stall persists — whatever happens that is
  not the timeout or the subscriber's own client / flow control (cache writes, other subscribers'
  operations), it stays inside `Send` holding the same response and is sent nothing; the timeout then
  ends it with what it had been sent at the start of the stall.
* `dead_stays_silent`, `expired_stays_silent`: a subscriber that is not running and holds no response
  is never sent anything again and never changes status, whatever operations follow (cache calls,
  gate operations, polls, EOF, timeouts); in particular one ended by the timeout.
  `eof_stays_silent`: a POLL subscriber that half-closes — also while its sender is inside a gated `Send`:
  the held response is dropped with the stream, as the real server does
  (`corpus/C05/eof_with_response_held.ops`) — is never sent anything again.  (Before `Sub.eof` was repaired
  the model kept the held response and `gateOpen` delivered it; `dead_stays_silent_any`, the statement
  without "holds no response", was false of the model then.)
* `dead_holds_nothing_reach`, `dead_stays_silent_any`, `dead_stays_silent_reach`: in every reachable state a
  subscriber that is not running holds no response — every operation that ends one leaves `blocked = none`; the
  only one that does not clear it, a failed walk, happens only at `Subscribe` (nothing held yet), never at a
  `poll` (`walk_isSome_congr`: whether the walk fails depends on the request alone) — so (ii) holds of every
  subscriber that is not running, without the side condition.
* `expire_noninterference`, `expire_only_blocked`: `expire` does not change the cache, and changes no
  subscriber that is not itself running and inside `Send`; in particular (reachable states) no
  running subscriber whose flow control is open.
-/
namespace Gnmi
namespace C08Expire
open Cache Gnmi.Sub SubStream SubGate SubEnd

/-- `expire` acts on every subscriber by `expireF`, and on nothing else -/
theorem expire_pointwise (enc : String → String) (st : Sub.State) :
    step enc st (.c07 .expire) = { st with subs := st.subs.map expireF } := rfl

/-- a response is held inside `Send` only while flow control is shut -/
theorem blocked_only_while_gated {enc : String → String} {st : Sub.State} (hr : Reachable enc st)
    {i : Nat} {s : Subscriber} (hs : st.subs[i]? = some s) {r : Resp} (hb : s.blocked = some r) :
    s.gateShut = true := by
  rcases Bool.eq_false_or_eq_true s.gateShut with h | h
  · exact h
  · have := (reachable_at hr hs).base.open h
    rw [hb] at this; cases this

/-- **(i) The timeout terminates a blocked subscriber with an error.**  In every reachable state,
for every running subscriber holding a response it cannot send (its flow control is then shut):
after `expire` it is not running, its status is the error `unknown`, the held response is gone, and
`out` — everything it was ever sent — and all the rest of it are unchanged. -/
theorem expire_terminates (enc : String → String) {st : Sub.State} (hr : Reachable enc st)
    {i : Nat} {s : Subscriber} (hs : st.subs[i]? = some s) (ha : s.alive = true) {r : Resp}
    (hb : s.blocked = some r) :
    (step enc st (.c07 .expire)).subs[i]? =
      some { s with alive := false, status := some .unknown, blocked := none } ∧
    s.gateShut = true := by
  refine ⟨?_, blocked_only_while_gated hr hs hb⟩
  rw [step_at enc st _ i s hs]
  show some (expireF s) = _
  rw [expireF_blocked ha (by rw [hb]; rfl)]

theorem expire_terminates_fields (enc : String → String) {st : Sub.State} (hr : Reachable enc st)
    {i : Nat} {s : Subscriber} (hs : st.subs[i]? = some s) (ha : s.alive = true) {r : Resp}
    (hb : s.blocked = some r) :
    ∃ s', (step enc st (.c07 .expire)).subs[i]? = some s' ∧ s'.alive = false ∧ s'.status = some .unknown ∧
      s'.status ≠ some .ok ∧ s'.out = s.out ∧ s'.blocked = none ∧ s'.queue = s.queue :=
  ⟨_, (expire_terminates enc hr hs ha hb).1, rfl, rfl, (by intro h; cases h), rfl, rfl, rfl⟩

/-! ## the stall persists until then -/

theorem subRun_blocked (enc : String → String) : ∀ (ops : List SubEnd.Op) (c : Cache.State) (s : Subscriber) (r : Resp),
    s.blocked = some r → (∀ op ∈ ops, ¬ actsOn s.id op) → ∃ q, subRun enc c ops s = { s with queue := q }
  | [], _, s, _, _, _ => ⟨s.queue, rfl⟩
  | op :: ops, c, s, r, hb, hn => by
    obtain ⟨q, hq⟩ := subStep_blocked enc c op hb (hn op (List.mem_cons_self ..))
    show ∃ q', subRun enc (cacheStep enc c op) ops (subStep enc c op s) = _
    rw [hq]
    obtain ⟨q', hq'⟩ := subRun_blocked enc ops (cacheStep enc c op) { s with queue := q } r hb
      (fun o ho => hn o (List.mem_cons_of_mem _ ho))
    exact ⟨q', hq'⟩

/-- **A stall persists**: a sender inside a gated `Send` stays there, holding the same response, and
the subscriber is sent nothing, whatever operations follow that are not the timeout or its own
client's / flow control's (cache API calls, feed events, other subscribers' subscriptions, polls,
gate operations, drains): only its queue changes. -/
theorem stall_persists (enc : String → String) {st : Sub.State} {i : Nat} {s : Subscriber}
    (hs : st.subs[i]? = some s) {r : Resp} (hb : s.blocked = some r) (ops : List SubEnd.Op)
    (hn : ∀ op ∈ ops, ¬ actsOn s.id op) :
    ∃ q, (run enc st ops).subs[i]? = some { s with queue := q } := by
  obtain ⟨q, hq⟩ := subRun_blocked enc ops st.cache s r hb hn
  exact ⟨q, by rw [run_at enc ops st i s hs, hq]⟩

/-- **... until the timeout ends it**: stalled, any such operations, then `expire`: terminated with
the error status, having been sent exactly what it had been sent when the stall began. -/
theorem stalled_until_expire (enc : String → String) {st : Sub.State} {i : Nat} {s : Subscriber}
    (hs : st.subs[i]? = some s) (ha : s.alive = true) {r : Resp} (hb : s.blocked = some r) (ops : List SubEnd.Op)
    (hn : ∀ op ∈ ops, ¬ actsOn s.id op) :
    ∃ s', (run enc st (ops ++ [.c07 .expire])).subs[i]? = some s' ∧ s'.alive = false ∧
      s'.status = some .unknown ∧ s'.out = s.out ∧ s'.blocked = none := by
  obtain ⟨q, hq⟩ := stall_persists enc hs hb ops hn
  rw [run_append]
  refine ⟨_, step_at enc _ (.c07 .expire) i _ hq, ?_⟩
  have hx : subStep enc (run enc st ops).cache (.c07 .expire) { s with queue := q } =
      expireF { s with queue := q } := rfl
  rw [hx, expireF_blocked (s := { s with queue := q }) ha (by show s.blocked.isSome = true; rw [hb]; rfl)]
  exact ⟨rfl, rfl, rfl, rfl⟩

/-! ## (ii) once ended, silent for ever -/

/-- **(ii) A subscriber that is not running (and holds no response) stays silent**: after every
further history — cache calls, feed events, gate operations, polls, EOF, timeouts, other
subscriptions — it is still not running, its status is the same, and nothing was appended to `out`:
`out` is what it was, or empty once the harness has drained it. -/
theorem dead_stays_silent (enc : String → String) {st : Sub.State} {i : Nat} {s : Subscriber}
    (hs : st.subs[i]? = some s) (ha : s.alive = false) (hb : s.blocked = none) (ops : List SubEnd.Op) :
    ∃ s', (run enc st ops).subs[i]? = some s' ∧ s'.alive = false ∧ s'.status = s.status ∧
      s'.blocked = none ∧ (s'.out = s.out ∨ s'.out = []) ∧
      ((∀ op ∈ ops, ¬ isDrainOf s.id op) → s'.out = s.out) := by
  obtain ⟨h1, h2, h3, _, h5, h6⟩ := subRun_dead enc ops st.cache s ha hb
  exact ⟨_, run_at enc ops st i s hs, h1, h3, h2, h5, h6⟩

/-- in particular a subscriber ended by the timeout: status `unknown` for ever, never sent anything
more -/
theorem expired_stays_silent (enc : String → String) {st : Sub.State} (hr : Reachable enc st)
    {i : Nat} {s : Subscriber} (hs : st.subs[i]? = some s) (ha : s.alive = true) {r : Resp}
    (hb : s.blocked = some r) (ops : List SubEnd.Op) :
    ∃ s', (run enc st (.c07 .expire :: ops)).subs[i]? = some s' ∧ s'.alive = false ∧
      s'.status = some .unknown ∧ (s'.out = s.out ∨ s'.out = []) ∧
      ((∀ op ∈ ops, ¬ isDrainOf s.id op) → s'.out = s.out) := by
  have h1 := (expire_terminates enc hr hs ha hb).1
  obtain ⟨s', g1, g2, g3, _, g5, g6⟩ := dead_stays_silent enc h1 rfl rfl ops
  exact ⟨s', g1, g2, g3, g5, g6⟩

/-! ## a subscriber that is not running holds no response

Every operation that ends a subscriber leaves `blocked = none`: the sender (`pump`) ends one only while it
holds nothing; `gateOpen` / `gateStep` deliver the held response before they end one; `eof` and `expire`
drop it; a rejected `Subscribe` call never held one.  The one operation that sets `alive := false` and
leaves `blocked` alone is a failed walk (`doWalk`, `CompletePath` error): at `Subscribe` nothing is held yet,
and at a `poll` it cannot fail — whether the walk fails depends on the request alone (`walk_isSome_congr`)
and the walk of the `Subscribe` call succeeded, or the subscriber would not be running (`DInv.walks`). -/

/-- whether the walk of `processSubscription` succeeds depends on the request only, not on what the cache holds -/
theorem walk_isSome_congr (c c' : Cache.State) (r : Req) (h : (walkItems c r).isSome = true) :
    (walkItems c' r).isSome = true := by
  cases huo : r.updatesOnly with
  | true => unfold walkItems; simp [huo]
  | false =>
    cases hw : walkItems c r with
    | none => rw [hw] at h; cases h
    | some items =>
      apply SubStream.walkItems_isSome
      intro sp hsp
      obtain ⟨full, hf⟩ := walkItems_all_complete c r items huo hw sp hsp
      rw [hf]; rfl

/-- not running → holds nothing; a running POLL subscriber's walk succeeds whatever the cache holds -/
structure DInv (s : Subscriber) : Prop where
  clean : s.alive = false → s.blocked = none
  walks : s.alive = true → s.req.mode = .poll → ∀ c, (walkItems c s.req).isSome = true

theorem DInv.mono {s s' : Subscriber} (h : DInv s) (hreq : s'.req = s.req) (hal : s'.alive = true → s.alive = true)
    (hcl : s'.alive = false → s'.blocked = none) : DInv s' :=
  ⟨hcl, fun ha hm c => by rw [hreq] at hm ⊢; exact h.walks (hal ha) hm c⟩

theorem pump_clean : ∀ (fuel : Nat) (s : Subscriber), (s.alive = false → s.blocked = none) →
    (pump fuel s).alive = false → (pump fuel s).blocked = none
  | 0, _ => fun h => h
  | fuel + 1, s => by
    unfold pump
    split
    · exact fun h => h
    · rename_i hc
      have hc' : s.alive = true ∧ s.blocked = none := by
        cases ha : s.alive <;> cases hb : s.blocked <;> simp [ha, hb] at hc ⊢
      obtain ⟨hal, hb⟩ := hc'
      split
      · split
        · exact fun _ _ => hb
        · exact fun h => h
      · simp only
        split
        · exact fun _ => pump_clean fuel _ (fun _ => hb)
        · split
          · intro _ ha
            have ha' : s.alive = false := ha
            rw [hal] at ha'; cases ha'
          · split
            · exact fun _ _ => hb
            · exact fun _ => pump_clean fuel _ (fun _ => hb)

theorem DInv.pump {s : Subscriber} (h : DInv s) (fuel : Nat) : DInv (pump fuel s) := by
  obtain ⟨_, hr, _, _, _, _, _, hal, _⟩ := pump_frame fuel s
  exact h.mono hr hal (pump_clean fuel s h.clean)

theorem DInv.pumpAll {s : Subscriber} (h : DInv s) : DInv (pumpAll s) := h.pump _

theorem DInv.setQueue {s : Subscriber} (h : DInv s) (q : List (Item × Nat)) : DInv { s with queue := q } :=
  ⟨h.clean, h.walks⟩

theorem dinv_feedSub {s : Subscriber} (h : DInv s) (c' : Cache.State) (evs : List Event) :
    DInv (feedSub c' evs s) := by
  obtain ⟨q, hq⟩ := feedSub_shape c' evs s
  rw [hq]
  exact (h.setQueue q).pumpAll

/-- a walk that succeeds only changes the queue -/
theorem doWalk_ok {c : Cache.State} {s : Subscriber} (h : (walkItems c s.req).isSome = true) :
    ∃ q, doWalk c s = { s with queue := q } := by
  unfold Sub.doWalk
  split
  · rename_i hn; rw [hn] at h; cases h
  · exact ⟨_, rfl⟩

/-- the walk of a subscriber that holds nothing (a new one) -/
theorem dinv_doWalk_new (c : Cache.State) {s : Subscriber} (hb : s.blocked = none) : DInv (doWalk c s) := by
  cases hw : walkItems c s.req with
  | none =>
    have : doWalk c s = { s with alive := false, status := some .unknown } := by
      unfold Sub.doWalk; rw [hw]
    rw [this]
    exact ⟨fun _ => hb, fun ha => by cases ha⟩
  | some items =>
    obtain ⟨q, hq⟩ := doWalk_ok (c := c) (s := s) (by rw [hw]; rfl)
    rw [hq]
    exact ⟨fun _ => hb, fun _ _ c' => walk_isSome_congr c c' s.req (by rw [hw]; rfl)⟩

theorem dinv_pollF {s : Subscriber} (h : DInv s) (c : Cache.State) : DInv (pollF c s) := by
  unfold pollF
  split
  · rename_i hc
    obtain ⟨q, hq⟩ := doWalk_ok (h.walks hc.1 hc.2 c)
    rw [hq]
    exact (h.setQueue q).pumpAll
  · exact h

theorem dinv_eofF {s : Subscriber} (h : DInv s) : DInv (eofF s) := by
  unfold eofF
  split
  · exact ⟨fun _ => rfl, fun ha => by cases ha⟩
  · exact h

theorem dinv_expireF {s : Subscriber} (h : DInv s) : DInv (expireF s) := by
  unfold expireF
  split
  · exact ⟨fun _ => rfl, fun ha => by cases ha⟩
  · exact h

theorem dinv_drainF {s : Subscriber} (h : DInv s) : DInv (drainF s) := ⟨h.clean, h.walks⟩

theorem dinv_gateF {s : Subscriber} (h : DInv s) (shut : Bool) : DInv (gateF shut s) := by
  cases shut with
  | true => exact ⟨h.clean, h.walks⟩
  | false =>
    unfold gateF
    simp only [Bool.false_eq_true, if_false]
    apply DInv.pumpAll
    split
    · split
      · exact ⟨fun _ => rfl, fun ha => by cases ha⟩
      · exact ⟨fun _ => rfl, h.walks⟩
    · rename_i hb
      exact ⟨fun _ => hb, h.walks⟩

theorem dinv_stepF {s : Subscriber} (h : DInv s) : DInv (stepF s) := by
  unfold stepF
  split
  · split
    · simp only
      split
      · exact ⟨fun _ => rfl, fun ha => by cases ha⟩
      · exact DInv.pumpAll ⟨fun _ => rfl, h.walks⟩
    · exact h
  · exact h

theorem dinv_on {s : Subscriber} {f : Subscriber → Subscriber} (id : String) (h : DInv s)
    (hf : DInv s → DInv (f s)) : DInv (on id f s) := by
  unfold on
  split
  · exact hf h
  · exact h

theorem dinv_subStep (enc : String → String) (c : Cache.State) (op : SubEnd.Op) {s : Subscriber} (h : DInv s) :
    DInv (subStep enc c op s) := by
  cases op with
  | c07 o =>
    cases o with
    | sub id acl req => exact h
    | setCache c => exact h
    | feed evs => exact dinv_feedSub h c evs
    | poll id => exact dinv_on id h (fun h => dinv_pollF h c)
    | eof id => exact dinv_on id h dinv_eofF
    | gate id shut => exact dinv_on id h (fun h => dinv_gateF h shut)
    | gateStep id => exact dinv_on id h dinv_stepF
    | expire => exact dinv_expireF h
    | drain id => exact dinv_on id h dinv_drainF
  | ca o => exact dinv_feedSub h _ _
  | pregate id => exact h

theorem dinv_ended (id : String) (acl : Acl) (c : Code) :
    DInv { id := id, req := {}, acl := acl, alive := false, status := some c } :=
  ⟨fun _ => rfl, fun ha => by cases ha⟩

theorem subscribe_dinv (st : Sub.State) (id : String) (acl : Acl) (req : Option Req) :
    ∀ x ∈ (subscribe st id acl req).subs, x ∈ st.subs ∨ DInv x := by
  have ended : ∀ (c : Code) (a : Acl), ∀ x ∈ st.subs ++
      [({ id := id, req := {}, acl := a, alive := false, status := some c } : Subscriber)],
      x ∈ st.subs ∨ DInv x := by
    intro c a x hx
    rcases List.mem_append.1 hx with h1 | h1
    · exact Or.inl h1
    · simp only [List.mem_singleton] at h1; rw [h1]; exact Or.inr (dinv_ended id a c)
  have added : ∀ s : Subscriber, DInv s → ∀ x ∈ st.subs ++ [s], x ∈ st.subs ∨ DInv x := by
    intro s hs x hx
    rcases List.mem_append.1 hx with h | h
    · exact Or.inl h
    · simp only [List.mem_singleton] at h; rw [h]; exact Or.inr hs
  unfold subscribe
  split
  · exact ended _ _
  · split
    · exact ended _ _
    · rename_i r
      simp only
      split
      · exact ended _ _
      · split
        · exact ended _ _
        · split
          · exact ended _ _
          · split
            · exact ended _ _
            · split
              · exact ended _ _
              · split
                · apply added
                  apply DInv.pumpAll
                  have h1 : DInv (doWalk st.cache (newSubscriber (st.pregated.contains id) id r acl)) :=
                    dinv_doWalk_new _ rfl
                  split
                  · exact ⟨h1.clean, h1.walks⟩
                  · exact h1
                · apply added
                  apply DInv.pumpAll
                  exact dinv_doWalk_new _ rfl
                · rename_i hmode
                  apply added
                  apply DInv.pumpAll
                  cases hu : r.updatesOnly with
                  | true =>
                    simp only [if_true]
                    refine ⟨fun _ => rfl, fun _ hm => ?_⟩
                    have hm' : r.mode = .poll := hm
                    rw [hmode] at hm'; cases hm'
                  | false =>
                    simp only [Bool.false_eq_true, if_false]
                    exact dinv_doWalk_new _ rfl
                · exact ended _ _

def AllD (st : Sub.State) : Prop := ∀ s ∈ st.subs, DInv s

theorem step_dinv (enc : String → String) (st : Sub.State) (op : SubEnd.Op) (h : AllD st) : AllD (step enc st op) := by
  rw [step_pointwise]
  intro x hx
  rcases List.mem_append.1 hx with hx | hx
  · obtain ⟨s, hs, rfl⟩ := List.mem_map.1 hx
    exact dinv_subStep enc st.cache op (h s hs)
  · cases op with
    | c07 o =>
      cases o with
      | sub id acl req =>
        have := subscribe_dinv { cache := st.cache, subs := [], pregated := st.pregated } id acl req x hx
        rcases this with h1 | h1
        · cases h1
        · exact h1
      | _ => cases hx
    | _ => cases hx

theorem run_dinv (enc : String → String) : ∀ (ops : List SubEnd.Op) (st : Sub.State), AllD st → AllD (run enc st ops)
  | [], _, h => h
  | op :: ops, st, h => run_dinv enc ops _ (step_dinv enc st op h)

/-- **In every reachable state a subscriber that is not running holds no response** -/
theorem dead_holds_nothing_reach {enc : String → String} {st : Sub.State} (hr : Reachable enc st)
    {i : Nat} {s : Subscriber} (hs : st.subs[i]? = some s) (ha : s.alive = false) : s.blocked = none := by
  obtain ⟨cfg, ops, rfl⟩ := hr
  exact (run_dinv enc ops _ (fun s hs => by cases hs) s (List.mem_of_getElem? hs)).clean ha

/-- **(ii) without the side condition "holds no response"**: in every reachable state, a subscriber that is
not running is never sent anything again, whatever operations follow (`dead_stays_silent` +
`dead_holds_nothing_reach`).  Its former counterexample — a half-close while a response is held — is gone
since `Sub.eof` drops the held response: `eof_stays_silent`. -/
theorem dead_stays_silent_any :
    ∀ (enc : String → String) (st : Sub.State), Reachable enc st → ∀ (i : Nat) (s : Subscriber),
    st.subs[i]? = some s → s.alive = false → ∀ ops : List SubEnd.Op,
    ∃ s', (run enc st ops).subs[i]? = some s' ∧ (s'.out = s.out ∨ s'.out = []) := by
  intro enc st hr i s hs ha ops
  obtain ⟨s', g1, _, _, _, g5, _⟩ := dead_stays_silent enc hs ha (dead_holds_nothing_reach hr hs ha) ops
  exact ⟨s', g1, g5⟩

/-- the same with everything `dead_stays_silent` says: still not running, same status, holds nothing -/
theorem dead_stays_silent_reach (enc : String → String) {st : Sub.State} (hr : Reachable enc st) {i : Nat}
    {s : Subscriber} (hs : st.subs[i]? = some s) (ha : s.alive = false) (ops : List SubEnd.Op) :
    ∃ s', (run enc st ops).subs[i]? = some s' ∧ s'.alive = false ∧ s'.status = s.status ∧
      s'.blocked = none ∧ (s'.out = s.out ∨ s'.out = []) ∧
      ((∀ op ∈ ops, ¬ isDrainOf s.id op) → s'.out = s.out) :=
  dead_stays_silent enc hs ha (dead_holds_nothing_reach hr hs ha) ops

/-- **A half-closed POLL subscriber is never sent anything again** — whether or not its sender was inside
a gated `Send` when the client half-closed: after `eof` it is not running, its status is OK, it holds no
response, and whatever follows (gate operations included) appends nothing to `out`. -/
theorem eof_stays_silent (enc : String → String) {st : Sub.State} {i : Nat} {s : Subscriber}
    (hs : st.subs[i]? = some s) (ha : s.alive = true) (hm : s.req.mode = .poll) (ops : List SubEnd.Op) :
    ∃ s', (run enc st (.c07 (.eof s.id) :: ops)).subs[i]? = some s' ∧ s'.alive = false ∧
      s'.status = some .ok ∧ s'.blocked = none ∧ (s'.out = s.out ∨ s'.out = []) ∧
      ((∀ op ∈ ops, ¬ isDrainOf s.id op) → s'.out = s.out) := by
  have h1 : (step enc st (.c07 (.eof s.id))).subs[i]? =
      some { s with alive := false, status := some .ok, blocked := none } := by
    rw [step_at enc st _ i s hs]
    simp [subStep, on, eofF, ha, hm]
  obtain ⟨s', g1, g2, g3, g4, g5, g6⟩ := dead_stays_silent enc h1 rfl rfl ops
  exact ⟨s', g1, g2, g3, g4, g5, g6⟩

/-! ## (iii) the timeout of one subscriber is nobody else's business -/

/-- **(iii) `expire` changes nothing for any subscriber that is not itself running and inside
`Send`**, and does not touch the cache.  (In the model `expire` is the timeout of *every* sender that
is inside `Send`; a sender's timer is armed only there.) -/
theorem expire_noninterference (enc : String → String) (st : Sub.State) {i : Nat} {s : Subscriber}
    (hs : st.subs[i]? = some s) (h : ¬ (s.alive = true ∧ s.blocked.isSome = true)) :
    (step enc st (.c07 .expire)).subs[i]? = some s ∧
    (step enc st (.c07 .expire)).cache = st.cache ∧
    (step enc st (.c07 .expire)).pregated = st.pregated ∧
    (step enc st (.c07 .expire)).subs.length = st.subs.length := by
  refine ⟨?_, rfl, rfl, ?_⟩
  · rw [step_at enc st _ i s hs]
    show some (expireF s) = _
    rw [expireF_other h]
  · rw [expire_pointwise, List.length_map]

/-- in every reachable state: a running subscriber whose flow control is open is never affected by
a timeout -/
theorem expire_only_blocked (enc : String → String) {st : Sub.State} (hr : Reachable enc st)
    {i : Nat} {s : Subscriber} (hs : st.subs[i]? = some s) (hg : s.gateShut = false) :
    (step enc st (.c07 .expire)).subs[i]? = some s := by
  apply (expire_noninterference enc st hs _).1
  intro ⟨_, hb⟩
  rw [(reachable_at hr hs).base.open hg] at hb
  cases hb

/-! ## Non-vacuity and the witness -/

def u1 : Upd := { path := ["a", "b"], val := .scalar (.int 1), raw := "u1" }
def u2 : Upd := { path := ["a", "b"], val := .scalar (.int 2), raw := "u2" }
def u3 : Upd := { path := ["a", "b"], val := .scalar (.int 3), raw := "u3" }
def reqT : Req := { target := "t", mode := .stream, subs := [{ path := ["a"] }] }
def reqPollT : Req := { target := "t", mode := .poll, subs := [{ path := [] }] }

/-- a stalled STREAM subscriber (`s0`, holding an update), one that is never stalled (`s1`), and a
POLL subscriber stalled during its second round (`s2`) -/
def hist0 : List SubEnd.Op :=
  [ .ca (.add "t"),
    .ca (.update 10 false { ts := 1, target := "t", praw := "p", upd := [u1] }),
    .c07 (.sub "s0" .absent (some reqT)),
    .c07 (.sub "s1" .absent (some reqT)),
    .c07 (.sub "s2" .absent (some reqPollT)),
    .c07 (.gate "s0" true),
    .c07 (.gate "s2" true),
    .ca (.update 11 false { ts := 2, target := "t", praw := "p", upd := [u2] }),
    .c07 (.poll "s2") ]

def st0 : Sub.State := run id {} hist0

theorem st0_reachable : Reachable id st0 := ⟨{}, hist0, rfl⟩

theorem st0_subs : st0.subs.map (fun s => (s.id, s.alive, s.gateShut, s.blocked.isSome, s.out.length)) =
    [("s0", true, true, true, 2), ("s1", true, false, false, 3), ("s2", true, true, true, 2)] := by decide

/-- the hypotheses of `expire_terminates` hold of `s0` -/
example : st0.subs[0]?.map (fun s => (s.alive, s.blocked.isSome)) = some (true, true) := by decide

/-- the timeout ends the two stalled subscribers with the error status and leaves `s1` alone; a
later write and `gateOpen` reach `s1` only -/
theorem st0_after_expire :
    (run id st0 [.c07 .expire, .ca (.update 12 false { ts := 3, target := "t", praw := "p", upd := [u3] }),
        .c07 (.gate "s0" false)]).subs.map (fun s => (s.id, s.alive, s.status, s.out.length)) =
    [("s0", false, some Code.unknown, 2), ("s1", true, none, 4), ("s2", false, some Code.unknown, 2)] := by
  decide

/-- the POLL subscriber half-closes while its sender is inside a gated `Send`: it is not running
(status OK) and the held response is gone with the stream; `gateOpen` delivers nothing (the real server
does the same: `corpus/C05/eof_with_response_held.ops`) -/
theorem eof_while_blocked_witness :
    (run id st0 [.c07 (.eof "s2")]).subs.map (fun s => (s.id, s.alive, s.status, s.blocked.isSome, s.out.length)) =
      [("s0", true, none, true, 2), ("s1", true, none, false, 3), ("s2", false, some Code.ok, false, 2)] ∧
    (run id st0 [.c07 (.eof "s2"), .c07 (.gate "s2" false)]).subs.map (fun s => (s.id, s.alive, s.out.length)) =
      [("s0", true, 2), ("s1", true, 3), ("s2", false, 2)] := by decide

/-- the one place where a walk runs while a response is held: a second poll trigger of the stalled POLL
subscriber `s2`.  It stays running and keeps the held response (`dinv_pollF`: the walk cannot fail there);
after the timeout every subscriber that is not running holds nothing (`dead_holds_nothing_reach`) -/
theorem poll_while_blocked_witness :
    (run id st0 [.c07 (.poll "s2")]).subs.map (fun s => (s.id, s.alive, s.blocked.isSome, s.out.length)) =
      [("s0", true, true, 2), ("s1", true, false, 3), ("s2", true, true, 2)] ∧
    (run id st0 [.c07 (.poll "s2"), .c07 .expire]).subs.map (fun s => (s.id, s.alive, s.blocked.isSome)) =
      [("s0", false, false), ("s1", true, false), ("s2", false, false)] := by decide

end C08Expire
end Gnmi
