import Gnmi.Lemmas.SubscribeEnd
/-!
# C08 (sequential Subscribe model) — the send timeout

"A subscriber whose pending response cannot be sent within the configured timeout has its
subscription terminated with an error."  In the sequential, code-shaped model
(`Model/Subscribe.lean`) a response that cannot be sent is the response held inside a gated `Send`
(`Subscriber.blocked`), and the timeout elapsing is the operation `expire` (`Sub.expire`: the timer
of **every** sender that is inside `Send` fires; the `su` driver's `expire <id>` line executes it).
`Code.unknown` is the model's status for the non-status error `subscription timed out while sending`.

Histories are those of `SubEnd.Op`: all operations of `C07.Op` (subscriptions, arbitrary cache
contents and feed events, polls, EOF, gate shut / open / step, expire, drain), cache API calls
(`C04Seq` / `C04Gate` / `C08Seq`) and `pregate`, with no side condition.  A subscriber is named by
its position `i` in `State.subs`.

* `blocked_only_while_gated`, `expire_terminates`: in every reachable state a response is held only
  while flow control is shut; `expire` ends every running subscriber that holds one: not running,
  status `unknown` (an error), the held response is discarded, `out` (and everything else) unchanged.
* `stall_persists`, `stalled_until_expire`: until then the stall persists — whatever happens that is
  not the timeout or the subscriber's own client / flow control (cache writes, other subscribers'
  operations), it stays inside `Send` holding the same response and is sent nothing; the timeout then
  ends it with what it had been sent at the start of the stall.
* `dead_stays_silent`, `expired_stays_silent`: a subscriber that is not running and holds no response
  is never sent anything again and never changes status, whatever operations follow (cache calls,
  gate operations, polls, EOF, timeouts); in particular one ended by the timeout.
  `eof_stays_silent`: a POLL subscriber that half-closes — also while its sender is inside a gated `Send`:
  the held response is dropped with the stream, as the real server does
  (`corpus/C05/eof_with_response_held.ops`) — is never sent anything again.  (Before `Sub.eof` was repaired
  the model kept the held response and `gateOpen` delivered it; `dead_stays_silent_any`, the statement
  without "holds no response", was false of the model then.  It is kept as the full statement, not proved.)
* `expire_noninterference`, `expire_only_blocked`: `expire` does not change the cache, and changes no
  subscriber that is not itself running and inside `Send`; in particular (reachable states) no
  running subscriber whose flow control is open.
-/
namespace Gnmi
namespace C08Expire
open Cache Gnmi.Sub SubStream SubGate SubEnd

/-- `expire` acts on every subscriber by `expireF`, and on nothing else -/
theorem expire_pointwise (enc : String → String) (st : Sub.State) :
    step enc st (.c07 .expire) = { st with subs := st.subs.map expireF } := rfl

/-- a response is held inside `Send` only while flow control is shut -/
theorem blocked_only_while_gated {enc : String → String} {st : Sub.State} (hr : Reachable enc st)
    {i : Nat} {s : Subscriber} (hs : st.subs[i]? = some s) {r : Resp} (hb : s.blocked = some r) :
    s.gateShut = true := by
  rcases Bool.eq_false_or_eq_true s.gateShut with h | h
  · exact h
  · have := (reachable_at hr hs).base.open h
    rw [hb] at this; cases this

/-- **(i) The timeout terminates a blocked subscriber with an error.**  In every reachable state,
for every running subscriber holding a response it cannot send (its flow control is then shut):
after `expire` it is not running, its status is the error `unknown`, the held response is gone, and
`out` — everything it was ever sent — and all the rest of it are unchanged. -/
theorem expire_terminates (enc : String → String) {st : Sub.State} (hr : Reachable enc st)
    {i : Nat} {s : Subscriber} (hs : st.subs[i]? = some s) (ha : s.alive = true) {r : Resp}
    (hb : s.blocked = some r) :
    (step enc st (.c07 .expire)).subs[i]? =
      some { s with alive := false, status := some .unknown, blocked := none } ∧
    s.gateShut = true := by
  refine ⟨?_, blocked_only_while_gated hr hs hb⟩
  rw [step_at enc st _ i s hs]
  show some (expireF s) = _
  rw [expireF_blocked ha (by rw [hb]; rfl)]

theorem expire_terminates_fields (enc : String → String) {st : Sub.State} (hr : Reachable enc st)
    {i : Nat} {s : Subscriber} (hs : st.subs[i]? = some s) (ha : s.alive = true) {r : Resp}
    (hb : s.blocked = some r) :
    ∃ s', (step enc st (.c07 .expire)).subs[i]? = some s' ∧ s'.alive = false ∧ s'.status = some .unknown ∧
      s'.status ≠ some .ok ∧ s'.out = s.out ∧ s'.blocked = none ∧ s'.queue = s.queue :=
  ⟨_, (expire_terminates enc hr hs ha hb).1, rfl, rfl, (by intro h; cases h), rfl, rfl, rfl⟩

/-! ## the stall persists until then -/

theorem subRun_blocked (enc : String → String) : ∀ (ops : List SubEnd.Op) (c : Cache.State) (s : Subscriber) (r : Resp),
    s.blocked = some r → (∀ op ∈ ops, ¬ actsOn s.id op) → ∃ q, subRun enc c ops s = { s with queue := q }
  | [], _, s, _, _, _ => ⟨s.queue, rfl⟩
  | op :: ops, c, s, r, hb, hn => by
    obtain ⟨q, hq⟩ := subStep_blocked enc c op hb (hn op (List.mem_cons_self ..))
    show ∃ q', subRun enc (cacheStep enc c op) ops (subStep enc c op s) = _
    rw [hq]
    obtain ⟨q', hq'⟩ := subRun_blocked enc ops (cacheStep enc c op) { s with queue := q } r hb
      (fun o ho => hn o (List.mem_cons_of_mem _ ho))
    exact ⟨q', hq'⟩

/-- **A stall persists**: a sender inside a gated `Send` stays there, holding the same response, and
the subscriber is sent nothing, whatever operations follow that are not the timeout or its own
client's / flow control's (cache API calls, feed events, other subscribers' subscriptions, polls,
gate operations, drains): only its queue changes. -/
theorem stall_persists (enc : String → String) {st : Sub.State} {i : Nat} {s : Subscriber}
    (hs : st.subs[i]? = some s) {r : Resp} (hb : s.blocked = some r) (ops : List SubEnd.Op)
    (hn : ∀ op ∈ ops, ¬ actsOn s.id op) :
    ∃ q, (run enc st ops).subs[i]? = some { s with queue := q } := by
  obtain ⟨q, hq⟩ := subRun_blocked enc ops st.cache s r hb hn
  exact ⟨q, by rw [run_at enc ops st i s hs, hq]⟩

/-- **... until the timeout ends it**: stalled, any such operations, then `expire`: terminated with
the error status, having been sent exactly what it had been sent when the stall began. -/
theorem stalled_until_expire (enc : String → String) {st : Sub.State} {i : Nat} {s : Subscriber}
    (hs : st.subs[i]? = some s) (ha : s.alive = true) {r : Resp} (hb : s.blocked = some r) (ops : List SubEnd.Op)
    (hn : ∀ op ∈ ops, ¬ actsOn s.id op) :
    ∃ s', (run enc st (ops ++ [.c07 .expire])).subs[i]? = some s' ∧ s'.alive = false ∧
      s'.status = some .unknown ∧ s'.out = s.out ∧ s'.blocked = none := by
  obtain ⟨q, hq⟩ := stall_persists enc hs hb ops hn
  rw [run_append]
  refine ⟨_, step_at enc _ (.c07 .expire) i _ hq, ?_⟩
  have hx : subStep enc (run enc st ops).cache (.c07 .expire) { s with queue := q } =
      expireF { s with queue := q } := rfl
  rw [hx, expireF_blocked (s := { s with queue := q }) ha (by show s.blocked.isSome = true; rw [hb]; rfl)]
  exact ⟨rfl, rfl, rfl, rfl⟩

/-! ## (ii) once ended, silent for ever -/

/-- **(ii) A subscriber that is not running (and holds no response) stays silent**: after every
further history — cache calls, feed events, gate operations, polls, EOF, timeouts, other
subscriptions — it is still not running, its status is the same, and nothing was appended to `out`:
`out` is what it was, or empty once the harness has drained it. -/
theorem dead_stays_silent (enc : String → String) {st : Sub.State} {i : Nat} {s : Subscriber}
    (hs : st.subs[i]? = some s) (ha : s.alive = false) (hb : s.blocked = none) (ops : List SubEnd.Op) :
    ∃ s', (run enc st ops).subs[i]? = some s' ∧ s'.alive = false ∧ s'.status = s.status ∧
      s'.blocked = none ∧ (s'.out = s.out ∨ s'.out = []) ∧
      ((∀ op ∈ ops, ¬ isDrainOf s.id op) → s'.out = s.out) := by
  obtain ⟨h1, h2, h3, _, h5, h6⟩ := subRun_dead enc ops st.cache s ha hb
  exact ⟨_, run_at enc ops st i s hs, h1, h3, h2, h5, h6⟩

/-- in particular a subscriber ended by the timeout: status `unknown` for ever, never sent anything
more -/
theorem expired_stays_silent (enc : String → String) {st : Sub.State} (hr : Reachable enc st)
    {i : Nat} {s : Subscriber} (hs : st.subs[i]? = some s) (ha : s.alive = true) {r : Resp}
    (hb : s.blocked = some r) (ops : List SubEnd.Op) :
    ∃ s', (run enc st (.c07 .expire :: ops)).subs[i]? = some s' ∧ s'.alive = false ∧
      s'.status = some .unknown ∧ (s'.out = s.out ∨ s'.out = []) ∧
      ((∀ op ∈ ops, ¬ isDrainOf s.id op) → s'.out = s.out) := by
  have h1 := (expire_terminates enc hr hs ha hb).1
  obtain ⟨s', g1, g2, g3, _, g5, g6⟩ := dead_stays_silent enc h1 rfl rfl ops
  exact ⟨s', g1, g2, g3, g5, g6⟩

/-- (ii) without the side condition "holds no response": the full statement.  Not proved (it needs the
invariant "a subscriber that is not running holds no response" of reachable states); its former
counterexample — a half-close while a response is held — is gone since `Sub.eof` drops the held response:
`eof_stays_silent`. -/
def dead_stays_silent_any : Prop :=
  ∀ (enc : String → String) (st : Sub.State), Reachable enc st → ∀ (i : Nat) (s : Subscriber),
    st.subs[i]? = some s → s.alive = false → ∀ ops : List SubEnd.Op,
    ∃ s', (run enc st ops).subs[i]? = some s' ∧ (s'.out = s.out ∨ s'.out = [])

/-- **A half-closed POLL subscriber is never sent anything again** — whether or not its sender was inside
a gated `Send` when the client half-closed: after `eof` it is not running, its status is OK, it holds no
response, and whatever follows (gate operations included) appends nothing to `out`. -/
theorem eof_stays_silent (enc : String → String) {st : Sub.State} {i : Nat} {s : Subscriber}
    (hs : st.subs[i]? = some s) (ha : s.alive = true) (hm : s.req.mode = .poll) (ops : List SubEnd.Op) :
    ∃ s', (run enc st (.c07 (.eof s.id) :: ops)).subs[i]? = some s' ∧ s'.alive = false ∧
      s'.status = some .ok ∧ s'.blocked = none ∧ (s'.out = s.out ∨ s'.out = []) ∧
      ((∀ op ∈ ops, ¬ isDrainOf s.id op) → s'.out = s.out) := by
  have h1 : (step enc st (.c07 (.eof s.id))).subs[i]? =
      some { s with alive := false, status := some .ok, blocked := none } := by
    rw [step_at enc st _ i s hs]
    simp [subStep, on, eofF, ha, hm]
  obtain ⟨s', g1, g2, g3, g4, g5, g6⟩ := dead_stays_silent enc h1 rfl rfl ops
  exact ⟨s', g1, g2, g3, g4, g5, g6⟩

/-! ## (iii) the timeout of one subscriber is nobody else's business -/

/-- **(iii) `expire` changes nothing for any subscriber that is not itself running and inside
`Send`**, and does not touch the cache.  (In the model `expire` is the timeout of *every* sender that
is inside `Send`; a sender's timer is armed only there.) -/
theorem expire_noninterference (enc : String → String) (st : Sub.State) {i : Nat} {s : Subscriber}
    (hs : st.subs[i]? = some s) (h : ¬ (s.alive = true ∧ s.blocked.isSome = true)) :
    (step enc st (.c07 .expire)).subs[i]? = some s ∧
    (step enc st (.c07 .expire)).cache = st.cache ∧
    (step enc st (.c07 .expire)).pregated = st.pregated ∧
    (step enc st (.c07 .expire)).subs.length = st.subs.length := by
  refine ⟨?_, rfl, rfl, ?_⟩
  · rw [step_at enc st _ i s hs]
    show some (expireF s) = _
    rw [expireF_other h]
  · rw [expire_pointwise, List.length_map]

/-- in every reachable state: a running subscriber whose flow control is open is never affected by
a timeout -/
theorem expire_only_blocked (enc : String → String) {st : Sub.State} (hr : Reachable enc st)
    {i : Nat} {s : Subscriber} (hs : st.subs[i]? = some s) (hg : s.gateShut = false) :
    (step enc st (.c07 .expire)).subs[i]? = some s := by
  apply (expire_noninterference enc st hs _).1
  intro ⟨_, hb⟩
  rw [(reachable_at hr hs).base.open hg] at hb
  cases hb

/-! ## Non-vacuity and the witness -/

def u1 : Upd := { path := ["a", "b"], val := .scalar (.int 1), raw := "u1" }
def u2 : Upd := { path := ["a", "b"], val := .scalar (.int 2), raw := "u2" }
def u3 : Upd := { path := ["a", "b"], val := .scalar (.int 3), raw := "u3" }
def reqT : Req := { target := "t", mode := .stream, subs := [{ path := ["a"] }] }
def reqPollT : Req := { target := "t", mode := .poll, subs := [{ path := [] }] }

/-- a stalled STREAM subscriber (`s0`, holding an update), one that is never stalled (`s1`), and a
POLL subscriber stalled during its second round (`s2`) -/
def hist0 : List SubEnd.Op :=
  [ .ca (.add "t"),
    .ca (.update 10 false { ts := 1, target := "t", praw := "p", upd := [u1] }),
    .c07 (.sub "s0" .absent (some reqT)),
    .c07 (.sub "s1" .absent (some reqT)),
    .c07 (.sub "s2" .absent (some reqPollT)),
    .c07 (.gate "s0" true),
    .c07 (.gate "s2" true),
    .ca (.update 11 false { ts := 2, target := "t", praw := "p", upd := [u2] }),
    .c07 (.poll "s2") ]

def st0 : Sub.State := run id {} hist0

theorem st0_reachable : Reachable id st0 := ⟨{}, hist0, rfl⟩

theorem st0_subs : st0.subs.map (fun s => (s.id, s.alive, s.gateShut, s.blocked.isSome, s.out.length)) =
    [("s0", true, true, true, 2), ("s1", true, false, false, 3), ("s2", true, true, true, 2)] := by decide

/-- the hypotheses of `expire_terminates` hold of `s0` -/
example : st0.subs[0]?.map (fun s => (s.alive, s.blocked.isSome)) = some (true, true) := by decide

/-- the timeout ends the two stalled subscribers with the error status and leaves `s1` alone; a
later write and `gateOpen` reach `s1` only -/
theorem st0_after_expire :
    (run id st0 [.c07 .expire, .ca (.update 12 false { ts := 3, target := "t", praw := "p", upd := [u3] }),
        .c07 (.gate "s0" false)]).subs.map (fun s => (s.id, s.alive, s.status, s.out.length)) =
    [("s0", false, some Code.unknown, 2), ("s1", true, none, 4), ("s2", false, some Code.unknown, 2)] := by
  decide

/-- the POLL subscriber half-closes while its sender is inside a gated `Send`: it is not running
(status OK) and the held response is gone with the stream; `gateOpen` delivers nothing (the real server
does the same: `corpus/C05/eof_with_response_held.ops`) -/
theorem eof_while_blocked_witness :
    (run id st0 [.c07 (.eof "s2")]).subs.map (fun s => (s.id, s.alive, s.status, s.blocked.isSome, s.out.length)) =
      [("s0", true, none, true, 2), ("s1", true, none, false, 3), ("s2", false, some Code.ok, false, 2)] ∧
    (run id st0 [.c07 (.eof "s2"), .c07 (.gate "s2" false)]).subs.map (fun s => (s.id, s.alive, s.out.length)) =
      [("s0", true, 2), ("s1", true, 3), ("s2", false, 2)] := by decide

end C08Expire
end Gnmi
