import Gnmi.Lemmas.CTree
import Gnmi.Model.CTreeRun
/-!
# C09 — the path tree is a prefix-free map with consistent wildcard query/delete

Property theorems only (helper lemmas live in `Gnmi/Lemmas/CTree.lean`).
Everything is stated for an arbitrary value type `V` and for every tree reachable
through the API (`reachable_wf`), i.e. without any bound on sizes or histories.

Input restriction (stated, see DESIGN §4): stored values are non-nil (the API uses
`nil` as "absent"); `Leaf.Update` is applied to leaf nodes only.
-/
namespace Gnmi
namespace C09
open Trie

variable {V : Type}

/-- the flat content of a tree: its leaves with full paths -/
abbrev content (t : Trie V) : PMap V := walk t

/-! ## The single operations -/

/-- A successful add stores the value at `p` (overwriting an existing leaf) and leaves
every other leaf alone; the result is again well formed. -/
theorem add_refines (t t' : Trie V) (p : Path) (v : V) (h : WFRoot t) (ha : add t p v = some t') :
    WFRoot t' ∧ (content t').Perm ((p, v) :: (content t).filter (fun kv => kv.1 != p)) := by
  obtain ⟨h1, h2⟩ := add_spec t p v t' h ha
  exact ⟨Or.inr h1, h2⟩

/-- An add fails exactly when some stored key is a proper prefix of `p` (it would run
through a leaf) or `p` is a proper prefix of a stored key (it would land on a branch).
(On failure the tree is unchanged: the model returns no new tree.) -/
theorem add_fails_iff (t : Trie V) (p : Path) (v : V) (h : WFRoot t) :
    add t p v = none ↔ ∃ kv ∈ content t, (kv.1 <+: p ∨ p <+: kv.1) ∧ kv.1 ≠ p :=
  add_none_iff t p v h

/-- No stored path is a prefix of another, and no path is stored twice. -/
theorem content_prefixFree (t : Trie V) (h : WFRoot t) :
    (content t).Pairwise (fun a b => ¬ a.1 <+: b.1 ∧ ¬ b.1 <+: a.1) :=
  walk_apart t h

/-- A wildcard query reports exactly the stored leaves it matches, each once, in the
order `Walk` visits them. -/
theorem query_spec (t : Trie V) (q : Path) (h : WFRoot t) :
    query t q = (content t).filter (fun kv => qmatches q kv.1) :=
  query_eq_filter t q h

/-- `Get(p)` returns a node exactly when some stored key extends `p`; the node holds the
stored keys below `p` (relative to `p`). -/
theorem get_spec (t n : Trie V) (p : Path) (h : WFRoot t) (hg : get t p = some n) :
    WFRoot n ∧ content n = (content t).filterMap (strip p) :=
  get_walk t p n h hg

theorem get_none_spec (t : Trie V) (p : Path) (h : WFRoot t) (hg : get t p = none) :
    p ≠ [] ∧ (content t).filterMap (strip p) = [] :=
  get_none t p h hg

/-- The sorted walk visits exactly the stored leaves … -/
theorem walkSorted_content (t : Trie V) : (walkSorted t).Perm (content t) :=
  walkSorted_perm t

/-- … in strictly increasing lexicographic order of their paths. -/
theorem walkSorted_sorted (t : Trie V) (h : WFRoot t) :
    (walkSorted t).Pairwise (fun a b => a.1 < b.1) :=
  Trie.walkSorted_sorted t h

/-- A (conditional) delete removes and returns exactly the leaves a query for the same
path reports, restricted by the condition … -/
theorem delete_eq_query (c : V → Bool) (t : Trie V) (q : Path) (h : WFRoot t) :
    (del c t q).2 = (query t q).filter (fun kv => c kv.2) := by
  rw [(del_spec c t q h).2.removed_eq, query_spec t q h, List.filter_filter]
  apply List.filter_congr
  intro x _
  exact Bool.and_comm ..

/-- … leaves everything else untouched … -/
theorem delete_rest (c : V → Bool) (t : Trie V) (q : Path) (h : WFRoot t) :
    content (del c t q).1 = (content t).filter (fun kv => !(qmatches q kv.1 && c kv.2)) :=
  (del_spec c t q h).2.rest_eq

/-- … and prunes emptied branches: the result is again a well-formed tree. -/
theorem delete_wf (c : V → Bool) (t : Trie V) (q : Path) (h : WFRoot t) :
    WFRoot (del c t q).1 :=
  (del_spec c t q h).1

/-- Deleting from an empty tree removes nothing. -/
theorem delete_empty (c : V → Bool) (q : Path) :
    del c (.empty : Trie V) q = (.empty, []) := by
  cases q <;> rfl

theorem qmatches_through (k : Path) (e : String) (r : Path) :
    qmatches (k ++ e :: r) k = (e == glob && r.isEmpty) := by
  induction k with
  | nil =>
    cases r with
    | nil => simp [qmatches]
    | cons a r => simp [qmatches]
  | cons a k ih =>
    rw [List.cons_append, qmatches_cons_cons, ih]
    simp

/-- Deleting *through* a leaf (a path that continues beyond a stored key by anything but
a single trailing `*`) does not remove that leaf. -/
theorem delete_through_leaf (c : V → Bool) (t : Trie V) (h : WFRoot t) (k : Path) (v : V)
    (e : String) (r : Path) (hne : e ≠ glob ∨ r ≠ []) :
    (k, v) ∉ (del c t (k ++ e :: r)).2 := by
  rw [(del_spec c t _ h).2.removed_eq]
  intro hm
  have := (List.mem_filter.1 hm).2
  rw [qmatches_through] at this
  rcases hne with h1 | h1
  · simp [h1] at this
  · cases r with
    | nil => exact h1 rfl
    | cons a r => simp at this

/-- After a delete, an add fails only on a conflict with a leaf that is *still stored*:
pruned branches leave nothing behind … -/
theorem add_after_delete (c : V → Bool) (t : Trie V) (q p : Path) (v : V) (h : WFRoot t) :
    add (del c t q).1 p v = none ↔
      ∃ kv ∈ content (del c t q).1, (kv.1 <+: p ∨ p <+: kv.1) ∧ kv.1 ≠ p :=
  add_fails_iff _ p v (delete_wf c t q h)

theorem pairwise_forall_ne {α : Type} {R : α → α → Prop} {l : List α} (hs : ∀ a b, R a b → R b a)
    (hp : l.Pairwise R) : ∀ a ∈ l, ∀ b ∈ l, a ≠ b → R a b := by
  induction l with
  | nil => intro a ha; cases ha
  | cons x l ih =>
    rw [List.pairwise_cons] at hp
    intro a ha b hb hne
    rcases List.mem_cons.1 ha with rfl | ha' <;> rcases List.mem_cons.1 hb with rfl | hb'
    · exact absurd rfl hne
    · exact hp.1 b hb'
    · exact hs _ _ (hp.1 a ha')
    · exact ih hp.2 a ha' b hb' hne

/-- … in particular an add at the position of any removed leaf succeeds. -/
theorem readd_after_delete (c : V → Bool) (t : Trie V) (q : Path) (h : WFRoot t)
    (kv : Path × V) (hk : kv ∈ (del c t q).2) (v : V) :
    (add (del c t q).1 kv.1 v).isSome = true := by
  rw [Option.isSome_iff_ne_none]
  intro hnone
  obtain ⟨x, hx, hc, hne⟩ := (add_after_delete c t q kv.1 v h).1 hnone
  rw [delete_rest c t q h] at hx
  rw [(del_spec c t q h).2.removed_eq] at hk
  have hx' := (List.mem_filter.1 hx).1
  have hk' := (List.mem_filter.1 hk).1
  have hxk : x ≠ kv := fun e => hne (by rw [e])
  have := pairwise_forall_ne (R := Apart) (fun a b hab => ⟨hab.2, hab.1⟩) (walk_apart t h) x hx' kv hk' hxk
  rcases hc with hc | hc
  · exact this.1 hc
  · exact this.2 hc

/-! ## Every history: the tree refines the prefix-free map -/

/-- the refinement relation -/
def Rel (t : Trie Nat) (m : PMap Nat) : Prop := WFRoot t ∧ (content t).Perm m

theorem conflicts_iff (m : PMap V) (p : Path) : PMap.conflicts m p = true ↔ Conflict m p := by
  simp only [PMap.conflicts, List.any_eq_true, Conflict, Bool.and_eq_true, Bool.or_eq_true,
    List.isPrefixOf_iff_prefix, bne_iff_ne, ne_eq]

theorem conflict_perm {m m' : PMap V} (h : m.Perm m') (p : Path) : Conflict m p ↔ Conflict m' p := by
  simp only [Conflict]
  constructor
  · rintro ⟨kv, hm, hc⟩; exact ⟨kv, h.mem_iff.1 hm, hc⟩
  · rintro ⟨kv, hm, hc⟩; exact ⟨kv, h.mem_iff.2 hm, hc⟩

theorem kindOfSub_perm (p : Path) {a b : PMap Nat} (h : a.Perm b) : kindOfSub p a = kindOfSub p b := by
  match a, h with
  | [], h => rw [List.nil_perm.1 h]
  | [x], h => rw [List.singleton_perm.1 h]
  | x :: y :: r, h =>
    match b, h with
    | [], h => exact absurd (List.perm_nil.1 h) (by simp)
    | [z], h => exact absurd (List.perm_singleton.1 h) (by simp)
    | _ :: _ :: _, _ => simp [kindOfSub]

theorem kindOf_get (t : Trie Nat) (p : Path) (h : WFRoot t) :
    kindOfTrie (get t p) = kindOfSub p ((content t).filterMap (strip p)) := by
  cases hg : get t p with
  | none =>
    obtain ⟨h1, h2⟩ := get_none t p h hg
    rw [h2]
    cases p with
    | nil => exact absurd rfl h1
    | cons a p => rfl
  | some n =>
    obtain ⟨h1, h2⟩ := get_walk t p n h hg
    rw [← h2]
    match n, h1 with
    | .empty, _ =>
      rcases h with h | h
      · subst h
        cases p with
        | nil => rfl
        | cons a p => simp [Trie.get] at hg
      · exact absurd (get_wf t p _ h hg) (by simp [WF])
    | .leaf v, _ => rfl
    | .branch cs, h1 =>
      have hw : WF (.branch cs) := by
        rcases h1 with h | h
        · cases h
        · exact h
      simp only [kindOfTrie, Trie.walk]
      have hne := walk_ne_nil_of_WF _ hw
      simp only [Trie.walk] at hne
      match hwl : walkL cs, hne with
      | [x], _ =>
        have hx : x ∈ walkL cs := by rw [hwl]; simp
        obtain ⟨k', p', hxp, _⟩ := head_of_mem_walkL hx
        obtain ⟨xp, xv⟩ := x
        simp only at hxp
        subst hxp
        rfl
      | _ :: _ :: _, _ => simp [kindOfSub]

theorem get_leaf_iff (t : Trie Nat) (p : Path) (h : WFRoot t) :
    (∃ v0, get t p = some (.leaf v0)) ↔ ∃ kv ∈ content t, kv.1 = p := by
  constructor
  · rintro ⟨v0, hg⟩
    obtain ⟨_, h2⟩ := get_walk t p _ h hg
    have : ([], v0) ∈ (content t).filterMap (strip p) := by rw [← h2]; simp [Trie.walk]
    obtain ⟨kv, hkv, hs⟩ := List.mem_filterMap.1 this
    refine ⟨kv, hkv, ?_⟩
    simp only [strip] at hs
    split at hs
    · rename_i hp
      simp only [Option.some.injEq, Prod.mk.injEq, List.drop_eq_nil_iff] at hs
      have hpre := List.isPrefixOf_iff_prefix.1 hp
      exact (List.IsPrefix.eq_of_length_le hpre hs.1).symm
    · cases hs
  · rintro ⟨kv, hkv, rfl⟩
    have hmem : ([], kv.2) ∈ (content t).filterMap (strip kv.1) := by
      apply List.mem_filterMap.2
      exact ⟨kv, hkv, by simp [strip]⟩
    cases hg : get t kv.1 with
    | none =>
      have := (get_none t kv.1 h hg).2
      rw [this] at hmem; cases hmem
    | some n =>
      obtain ⟨h1, h2⟩ := get_walk t kv.1 n h hg
      rw [← h2] at hmem
      match n, hmem with
      | .leaf v0, _ => exact ⟨v0, rfl⟩
      | .branch cs, hmem =>
        obtain ⟨_, _, hxp, _⟩ := head_of_mem_walkL (by simpa [Trie.walk] using hmem)
        cases hxp
      | .empty, hmem => simp [Trie.walk] at hmem

theorem no_conflict_of_stored (t : Trie V) (h : WFRoot t) (kv : Path × V) (hkv : kv ∈ content t) :
    ¬ Conflict (content t) kv.1 := by
  rintro ⟨x, hx, hc, hne⟩
  have hxk : x ≠ kv := fun e => hne (by rw [e])
  have := pairwise_forall_ne (R := Apart) (fun a b hab => ⟨hab.2, hab.1⟩) (walk_apart t h) x hx kv hkv hxk
  rcases hc with hc | hc
  · exact this.1 hc
  · exact this.2 hc

theorem keyLe_trans (a b c : Path × Nat) : keyLe a b = true → keyLe b c = true → keyLe a c = true := by
  simp only [keyLe, decide_eq_true_eq]
  exact List.le_trans

theorem keyLe_total (a b : Path × Nat) : (keyLe a b || keyLe b a) = true := by
  simp only [keyLe, Bool.or_eq_true, decide_eq_true_eq]
  exact List.le_total _ _

theorem walkSorted_eq_sort (t : Trie Nat) (m : PMap Nat) (h : Rel t m) :
    Trie.walkSorted t = m.mergeSort keyLe := by
  have hp : (Trie.walkSorted t).Perm (m.mergeSort keyLe) :=
    ((walkSorted_perm t).trans h.2).trans (List.mergeSort_perm m keyLe).symm
  apply List.Perm.eq_of_pairwise (le := fun a b => keyLe a b = true) _ _
    (List.pairwise_mergeSort keyLe_trans keyLe_total m) hp
  · intro a b ha hb hab hba
    have ha' : a ∈ content t := (walkSorted_perm t).mem_iff.1 ha
    have hb' : b ∈ content t := by
      have := (List.mergeSort_perm m keyLe).mem_iff.1 hb
      exact h.2.mem_iff.2 this
    simp only [keyLe, decide_eq_true_eq] at hab hba
    have hkeys : a.1 = b.1 := List.le_antisymm hab hba
    rcases Classical.em (a = b) with e | e
    · exact e
    · have := pairwise_forall_ne (R := Apart) (fun a b hab => ⟨hab.2, hab.1⟩) (walk_apart t h.1) a ha' b hb' e
      exact absurd (by rw [hkeys]; exact List.prefix_refl _) this.1
  · apply (Trie.walkSorted_sorted t h.1).imp
    intro a b hab
    simp only [keyLe, decide_eq_true_eq]
    exact List.not_lt.1 (List.lt_asymm hab)

/-- One API call preserves the refinement relation and yields equal observations. -/
theorem step_refines (t : Trie Nat) (m : PMap Nat) (op : Op) (h : Rel t m) :
    ObsEq (stepTrie t op).2 (stepSpec m op).2 ∧ Rel (stepTrie t op).1 (stepSpec m op).1 := by
  obtain ⟨hw, hp⟩ := h
  cases op with
  | add p v =>
    simp only [stepTrie, stepSpec, PMap.add]
    cases ha : add t p v with
    | none =>
      have hc : PMap.conflicts m p = true :=
        (conflicts_iff m p).2 ((conflict_perm hp p).1 ((add_none_iff t p v hw).1 ha))
      simp only [hc, if_true]
      exact ⟨rfl, hw, hp⟩
    | some t' =>
      have hc : ¬ PMap.conflicts m p = true := by
        intro hc
        have := (add_none_iff t p v hw).2 ((conflict_perm hp p).2 ((conflicts_iff m p).1 hc))
        rw [ha] at this; cases this
      simp only [hc]
      obtain ⟨h1, h2⟩ := add_refines t t' p v hw ha
      exact ⟨rfl, h1, h2.trans ((hp.filter _).cons _)⟩
  | get p =>
    simp only [stepTrie, stepSpec, ObsEq, specGet]
    refine ⟨?_, hw, hp⟩
    rw [kindOf_get t p hw]
    exact kindOfSub_perm p (hp.filterMap _)
  | query q =>
    simp only [stepTrie, stepSpec, ObsEq, PMap.query]
    refine ⟨?_, hw, hp⟩
    rw [query_spec t q hw]
    exact hp.filter _
  | walk => exact ⟨hp, hw, hp⟩
  | walkSorted =>
    simp only [stepTrie, stepSpec, ObsEq]
    exact ⟨walkSorted_eq_sort t m ⟨hw, hp⟩, hw, hp⟩
  | del q =>
    simp only [stepTrie, stepSpec, ObsEq, PMap.delete]
    obtain ⟨h1, h2⟩ := del_spec (fun _ => true) t q hw
    rw [h2.removed_eq]
    refine ⟨hp.filter _, h1, ?_⟩
    show (Trie.walk _).Perm _
    rw [h2.rest_eq]
    exact hp.filter _
  | delIf q n =>
    simp only [stepTrie, stepSpec, ObsEq, PMap.delete]
    obtain ⟨h1, h2⟩ := del_spec (fun v => decide (v < n)) t q hw
    rw [h2.removed_eq]
    refine ⟨hp.filter _, h1, ?_⟩
    show (Trie.walk _).Perm _
    rw [h2.rest_eq]
    exact hp.filter _
  | upd p v =>
    simp only [stepTrie, stepSpec]
    cases hf : m.find? (fun kv => kv.1 == p) with
    | none =>
      have hnot : ¬ ∃ v0, get t p = some (.leaf v0) := by
        intro hex
        obtain ⟨kv, hkv, hk⟩ := (get_leaf_iff t p hw).1 hex
        have := List.find?_eq_none.1 hf kv (hp.mem_iff.1 hkv)
        simp [hk] at this
      have : Trie.upd t p v = none := by
        unfold Trie.upd
        cases hg : get t p with
        | none => rfl
        | some n =>
          cases n with
          | leaf v0 => exact absurd ⟨v0, hg⟩ hnot
          | empty => rfl
          | branch cs => rfl
      rw [this]
      exact ⟨rfl, hw, hp⟩
    | some kv0 =>
      have hkv0 : kv0 ∈ m := List.mem_of_find?_eq_some hf
      have hk0 : kv0.1 = p := by
        have := List.find?_some hf
        simpa using this
      obtain ⟨v0, hg⟩ := (get_leaf_iff t p hw).2 ⟨kv0, hp.mem_iff.2 hkv0, hk0⟩
      have hu : Trie.upd t p v = add t p v := by
        unfold Trie.upd; rw [hg]
      rw [hu]
      cases ha : add t p v with
      | none =>
        have := (add_none_iff t p v hw).1 ha
        rw [← hk0] at this
        exact absurd this (no_conflict_of_stored t hw kv0 (hp.mem_iff.2 hkv0))
      | some t' =>
        obtain ⟨h1, h2⟩ := add_refines t t' p v hw ha
        exact ⟨rfl, h1, h2.trans ((hp.filter _).cons _)⟩

/-- observation sequences agree position by position -/
def ObsListEq : List Obs → List Obs → Prop
  | [], [] => True
  | a :: as, b :: bs => ObsEq a b ∧ ObsListEq as bs
  | _, _ => False

/-- **C09.** For every sequence of API calls, the tree and the prefix-free map started
empty produce the same observations (up to the unspecified order of map iteration). -/
theorem history_refinement (ops : List Op) :
    ObsListEq (runTrie .empty ops) (runSpec [] ops) := by
  suffices ∀ (ops : List Op) (t : Trie Nat) (m : PMap Nat), Rel t m →
      ObsListEq (runTrie t ops) (runSpec m ops) from
    this ops .empty [] ⟨Or.inl rfl, by simp [Trie.walk]⟩
  intro ops
  induction ops with
  | nil => intro t m _; exact trivial
  | cons op ops ih =>
    intro t m h
    obtain ⟨h1, h2⟩ := step_refines t m op h
    exact ⟨h1, ih _ _ h2⟩

/-- Every tree reachable through the API is well formed (unique child names, no empty
branch, `nil` only at the root). -/
theorem reachable_wf (ops : List Op) :
    WFRoot (ops.foldl (fun t op => (stepTrie t op).1) (.empty : Trie Nat)) := by
  suffices ∀ (ops : List Op) (t : Trie Nat), WFRoot t →
      WFRoot (ops.foldl (fun t op => (stepTrie t op).1) t) from this ops .empty (Or.inl rfl)
  intro ops
  induction ops with
  | nil => intro t h; exact h
  | cons op ops ih =>
    intro t h
    exact ih _ (step_refines t (content t) op ⟨h, List.Perm.refl _⟩).2.1

/-! ## Non-vacuity: concrete trees meeting the hypotheses -/

def sample : Trie Nat := .branch [("a", .leaf 1), ("b", .branch [("c", .leaf 2), ("*", .leaf 3)])]

example : WFRoot sample := by
  refine Or.inr ?_
  simp [sample, WF, WFL]

example : query sample ["b", "*"] = [(["b", "c"], 2), (["b", "*"], 3)] := by decide
example : query sample ["a", "*"] = [(["a"], 1)] := by decide
example : query sample ["a", "*", "*"] = [] := by decide
example : (del (fun _ => true) sample ["a", "*", "*"]).2 = [] := by decide
example : Trie.walk (del (fun _ => true) sample ["b"]).1 = [(["a"], 1)] := by decide
example : add sample ["a", "x"] 5 = none := by decide
example : add sample ["b"] 5 = none := by decide
example : (add (del (fun _ => true) sample ["b"]).1 ["b"] 5).isSome = true := by decide

end C09
end Gnmi
