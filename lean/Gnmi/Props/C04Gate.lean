import Gnmi.Props.C04Seq
import Gnmi.Lemmas.SubscribeGate
/-!
# C04 (sequential Subscribe model) — STREAM convergence under flow control

`C04Seq.stream_converges_partial` is about histories in which flow control is never shut.  Here a
history may, at any point and for any subscriber id, shut the gate (`Sub.setGate st id true`: the
sender stops inside its next `Send`), let exactly one held response through (`Sub.stepGate`) and
open it again (`Sub.setGate st id false`), as `Driver/SU.lean` executes `gate <id> shut|step|open`.
While the gate is shut the subscriber's queue fills: handles are coalesced per leaf, frozen by
deletes, re-read from the cache (`refreshQueue`), and one response — converted when it was
dequeued, so possibly stale — sits in `blocked`.

* **(A)** `stream_converges_pending`: at **every** point of **every** such history, for every live STREAM
  subscriber that asked for the snapshot: what it was sent, then the held response, then what its
  queue would be sent as (`SubGate.pend`), replayed, agrees with the cache on every allowed matched
  key (`Feed.Sim`) and holds nothing the cache does not hold.  Nothing is lost by coalescing,
  freezing, re-reading or by the stale held response.
* **(B)** `stream_converges_gate_open`: if at the end its gate is open, then its queue is empty,
  nothing is held and the conclusion of `C04Seq.stream_converges_partial` holds of `replay s.out`.
* **(C)** `stream_converges_partial_again`: `C04Seq.stream_converges_partial` as the special case
  of histories without gate operations.
* `stream_queue_fresh`: the queue is a fixed point of `refreshQueue` against the current cache —
  "what the queue would be sent as" needs no re-reading.

Hypotheses as in `C04Seq`: `C03.OkRun` of the cache calls, no target literally named `*`.
-/
namespace Gnmi
namespace C04Gate
open Cache Gnmi.Sub Feed SubStream SubGate

/-- an operation of a history -/
inductive GOp where
  | sub (id : String) (acl : Acl) (req : Option Req)
  | ca (op : Cache.Op)
  | gateShut (id : String)
  | gateOpen (id : String)
  | gateStep (id : String)

def gstep (enc : String → String) (st : Sub.State) : GOp → Sub.State
  | .sub id acl req => subscribe st id acl req
  | .ca op =>
    let r := st.cache.step enc op
    feed { st with cache := r.1 } r.2.2
  | .gateShut id => setGate st id true
  | .gateOpen id => setGate st id false
  | .gateStep id => stepGate st id

def grun (enc : String → String) (st : Sub.State) (h : List GOp) : Sub.State := h.foldl (gstep enc) st

/-- the cache API call of an operation -/
def caOf : GOp → Option Cache.Op
  | .ca op => some op
  | _ => none

/-- the cache API calls of a history, in order -/
def cacheOps (h : List GOp) : List Cache.Op := h.filterMap caOf

theorem cacheOps_cons_ca (op : Cache.Op) (h : List GOp) : cacheOps (.ca op :: h) = op :: cacheOps h := rfl

theorem cacheOps_cons_other {o : GOp} (h : List GOp) (ho : caOf o = none) : cacheOps (o :: h) = cacheOps h := by
  unfold cacheOps
  rw [List.filterMap_cons, ho]

/-- no target is added, and no removal announced, under the wildcard name `*` -/
def NoStarTargets (h : List GOp) : Prop := ∀ op ∈ cacheOps h, NoStarOp op

/-- the invariant of a run -/
structure GHInv (st : Sub.State) : Prop where
  pre : st.pregated = []
  sinv : SInv st.cache
  cok : CacheOK st.cache
  subs : ∀ s ∈ st.subs, Live s → GInv st.cache.cfg (treesOf st.cache) s

theorem ghinv_init (cfg : Cfg) : GHInv { cache := { cfg := cfg } } :=
  ⟨rfl, SInv.empty cfg, cacheOK_empty cfg, fun s hs => by simp at hs⟩

theorem updateSub_inv (st : Sub.State) (id : String) (f : Subscriber → Subscriber) (hi : GHInv st)
    (hf : ∀ s ∈ st.subs, Live (f s) → GInv st.cache.cfg (treesOf st.cache) (f s)) :
    GHInv (updateSub st id f) := by
  refine ⟨hi.pre, hi.sinv, hi.cok, ?_⟩
  intro x hx hl
  obtain ⟨s, hs, rfl⟩ := List.mem_map.1 hx
  by_cases hid : s.id = id
  · rw [if_pos hid] at hl ⊢
    exact hf s hs hl
  · rw [if_neg hid] at hl ⊢
    exact hi.subs s hs hl

theorem gstep_inv (enc : String → String) (st : Sub.State) (op : GOp) (hi : GHInv st)
    (hok : ∀ o, caOf op = some o → Feed.Op.ok st.cache o ∧ NoStarOp o) : GHInv (gstep enc st op) := by
  cases op with
  | sub id acl req =>
    obtain ⟨s, hs, hnew⟩ := subscribe_new st id acl req hi.pre
    show GHInv (subscribe st id acl req)
    rw [hs]
    refine ⟨hi.pre, hi.sinv, hi.cok, ?_⟩
    intro x hx hl
    rcases List.mem_append.1 hx with hx | hx
    · exact hi.subs x hx hl
    · simp only [List.mem_singleton] at hx
      subst hx
      rcases hnew with hn | ⟨r, h1, h2, rfl⟩
      · exact absurd hl hn
      · exact ginv_of_subInv (streamSub_inv hi.cok id r acl h1 (C04Seq.hasTarget_exists h2) hl)
  | ca o =>
    obtain ⟨hv, hns⟩ := hok o rfl
    show GHInv (feed { st with cache := (st.cache.step enc o).1 } (st.cache.step enc o).2.2)
    rw [feed_eq]
    obtain ⟨hc', hsim⟩ := step_cacheOK enc st.cache o hi.sinv hi.cok hv hns
    have hcfg := C14.step_cfg enc st.cache o
    refine ⟨hi.pre, (step_sinv enc st.cache o hi.sinv (Feed.Op.ok_valid hv)).1, hc', ?_⟩
    intro x hx hl
    obtain ⟨s, hs, rfl⟩ := List.mem_map.1 hx
    show GInv (st.cache.step enc o).1.cfg _ _
    rw [hcfg]
    exact feed_sub_ginv hi.cok.vok hc'.vok (step_goodTr enc st.cache o hi.sinv hi.cok hv hns).1 hsim hc'.hkey
      (hi.subs s hs) hl
  | gateShut id =>
    show GHInv (setGate st id true)
    rw [setGate_eq]
    exact updateSub_inv st id _ hi (fun s hs hl => setGate_sub_ginv hi.cok.vok true (hi.subs s hs) hl)
  | gateOpen id =>
    show GHInv (setGate st id false)
    rw [setGate_eq]
    exact updateSub_inv st id _ hi (fun s hs hl => setGate_sub_ginv hi.cok.vok false (hi.subs s hs) hl)
  | gateStep id =>
    show GHInv (stepGate st id)
    rw [stepGate_eq]
    exact updateSub_inv st id _ hi (fun s hs hl => stepGate_sub_ginv hi.cok.vok (hi.subs s hs) hl)

/-- an operation that is not a cache call leaves the cache alone -/
theorem gstep_cache (enc : String → String) (st : Sub.State) (op : GOp) (hp : st.pregated = [])
    (ho : caOf op = none) : (gstep enc st op).cache = st.cache := by
  cases op with
  | sub id acl req =>
    obtain ⟨s, hs, _⟩ := subscribe_new st id acl req hp
    show (subscribe st id acl req).cache = st.cache
    rw [hs]
  | ca o => cases ho
  | gateShut id => rfl
  | gateOpen id => rfl
  | gateStep id => rfl

theorem grun_inv (enc : String → String) : ∀ (h : List GOp) (st : Sub.State), GHInv st →
    C03.OkRun enc st.cache (cacheOps h) → NoStarTargets h →
    GHInv (grun enc st h) ∧ (grun enc st h).cache.cfg = st.cache.cfg
  | [], _, hi, _, _ => ⟨hi, rfl⟩
  | op :: h, st, hi, hok, hns => by
    cases hc : caOf op with
    | none =>
      have h1 := gstep_inv enc st op hi (fun o ho => by rw [hc] at ho; cases ho)
      have hca := gstep_cache enc st op hi.pre hc
      rw [cacheOps_cons_other h hc] at hok
      have hns' : NoStarTargets h := by
        intro x hx
        apply hns x
        rw [cacheOps_cons_other h hc]
        exact hx
      have ih := grun_inv enc h _ h1 (by rw [hca]; exact hok) hns'
      show GHInv (grun enc (gstep enc st op) h) ∧ (grun enc (gstep enc st op) h).cache.cfg = _
      rw [ih.2, hca]
      exact ⟨ih.1, rfl⟩
    | some o =>
      have hop : op = .ca o := by
        cases op with
        | ca o' => simp only [caOf, Option.some.injEq] at hc; rw [hc]
        | sub => cases hc
        | gateShut => cases hc
        | gateOpen => cases hc
        | gateStep => cases hc
      subst hop
      rw [cacheOps_cons_ca] at hok
      have hno : NoStarOp o := hns o (by rw [cacheOps_cons_ca]; exact List.mem_cons_self ..)
      have h1 := gstep_inv enc st (.ca o) hi (fun o' ho => by
        simp only [caOf, Option.some.injEq] at ho; subst ho; exact ⟨hok.1, hno⟩)
      have hns' : NoStarTargets h := by
        intro x hx
        apply hns x
        rw [cacheOps_cons_ca]
        exact List.mem_cons_of_mem _ hx
      have ih := grun_inv enc h _ h1 hok.2 hns'
      show GHInv (grun enc (gstep enc st (.ca o)) h) ∧ (grun enc (gstep enc st (.ca o)) h).cache.cfg = _
      rw [ih.2]
      exact ⟨ih.1, C14.step_cfg enc st.cache o⟩

/-- the invariant, for a subscriber of the final state -/
theorem final_ginv (enc : String → String) (cfg : Cfg) (h : List GOp)
    (hok : C03.OkRun enc { cfg := cfg } (cacheOps h)) (hns : NoStarTargets h) :
    CacheOK (grun enc { cache := { cfg := cfg } } h).cache ∧
    ∀ s ∈ (grun enc { cache := { cfg := cfg } } h).subs,
      s.alive = true → s.req.mode = .stream → s.req.updatesOnly = false →
      GInv cfg (treesOf (grun enc { cache := { cfg := cfg } } h).cache) s := by
  obtain ⟨hinv, hcfg⟩ := grun_inv enc h _ (ghinv_init cfg) hok hns
  refine ⟨hinv.cok, ?_⟩
  intro s hs ha hm hu
  have inv := hinv.subs s hs ⟨ha, hm, hu⟩
  rw [hcfg] at inv
  exact inv

/-- **(A) Pending-extended convergence, at every point of every history with flow control.**
What the subscriber was sent, then the response held inside a gated `Send`, then the responses its
queued items produce when dequeued (`SubGate.pend`), replayed from the empty view: on every target
the ACL allows and every key a registered query matches it holds what the cache holds
(`Feed.Sim`), and it holds nothing the cache does not hold. -/
theorem stream_converges_pending (enc : String → String) (cfg : Cfg) (h : List GOp)
    (hok : C03.OkRun enc { cfg := cfg } (cacheOps h)) (hns : NoStarTargets h) :
    ∀ s ∈ (grun enc { cache := { cfg := cfg } } h).subs,
      s.alive = true → s.req.mode = .stream → s.req.updatesOnly = false →
      (∀ t k, s.acl.check t = true → s.regs.any (fun q => qmatches q (t :: k)) = true →
        Feed.Sim cfg (lookup (replayR (pend s)) (t :: k))
          (((grun enc { cache := { cfg := cfg } } h).cache.get t).bind (fun tg => lookup tg.tree k))) ∧
      (∀ κ, (lookup (replayR (pend s)) κ).isSome = true →
        ∃ t k tg, κ = t :: k ∧ (grun enc { cache := { cfg := cfg } } h).cache.get t = some tg ∧
          (lookup tg.tree k).isSome = true) := by
  intro s hs ha hm hu
  obtain ⟨hcok, hall⟩ := final_ginv enc cfg h hok hns
  have inv := hall s hs ha hm hu
  obtain ⟨v1, v2⟩ := inv.toPInv.pend_view hcok.vok
  constructor
  · intro t k hacl hmatch
    rw [← lookup_treesOf]
    exact v1 t k hacl hmatch
  · intro κ hκ
    obtain ⟨t, k, rfl, hv⟩ := v2 κ hκ
    cases hg : (grun enc { cache := { cfg := cfg } } h).cache.get t with
    | none => rw [treesOf_none hg] at hv; simp [lookup] at hv
    | some tg =>
      rw [treesOf_some hg] at hv
      exact ⟨t, k, tg, rfl, hg, hv⟩

/-- without event-driven emulation the pending-extended view is exact on the matched keys -/
theorem stream_converges_pending_exact (enc : String → String) (cfg : Cfg) (he : cfg.eventDriven = false)
    (h : List GOp) (hok : C03.OkRun enc { cfg := cfg } (cacheOps h)) (hns : NoStarTargets h) :
    ∀ s ∈ (grun enc { cache := { cfg := cfg } } h).subs,
      s.alive = true → s.req.mode = .stream → s.req.updatesOnly = false →
      ∀ t k, s.acl.check t = true → s.regs.any (fun q => qmatches q (t :: k)) = true →
        lookup (replayR (pend s)) (t :: k) =
          ((grun enc { cache := { cfg := cfg } } h).cache.get t).bind (fun tg => lookup tg.tree k) := by
  intro s hs ha hm hu t k hacl hmatch
  have := (stream_converges_pending enc cfg h hok hns s hs ha hm hu).1 t k hacl hmatch
  revert this
  cases lookup (replayR (pend s)) (t :: k) <;>
    cases ((grun enc { cache := { cfg := cfg } } h).cache.get t).bind (fun tg => lookup tg.tree k) <;> intro h1
  · rfl
  · exact h1.elim
  · exact h1.elim
  · rcases h1 with rfl | ⟨h2, _⟩
    · rfl
    · rw [he] at h2; cases h2

/-- with the gate open and nothing held, `pend` is what was sent -/
theorem pend_open {s : Subscriber} (hq : s.queue = []) (hb : s.blocked = none) :
    replayR (pend s) = replay s.out := by
  rw [replay_eq_replayR]
  unfold pend
  rw [hq, hb]
  simp

/-- **(B) Once the gate is open again the subscriber has converged**, whatever shut/step/open
happened before: its queue is empty, nothing is held, and the view replayed from what it was sent
is the cache on every allowed matched key (the conclusion of `C04Seq.stream_converges_partial`). -/
theorem stream_converges_gate_open (enc : String → String) (cfg : Cfg) (h : List GOp)
    (hok : C03.OkRun enc { cfg := cfg } (cacheOps h)) (hns : NoStarTargets h) :
    ∀ s ∈ (grun enc { cache := { cfg := cfg } } h).subs,
      s.alive = true → s.req.mode = .stream → s.req.updatesOnly = false → s.gateShut = false →
      s.queue = [] ∧ s.blocked = none ∧
      (∀ t k, s.acl.check t = true → s.regs.any (fun q => qmatches q (t :: k)) = true →
        Feed.Sim cfg (lookup (replay s.out) (t :: k))
          (((grun enc { cache := { cfg := cfg } } h).cache.get t).bind (fun tg => lookup tg.tree k))) ∧
      (∀ κ, (lookup (replay s.out) κ).isSome = true →
        ∃ t k tg, κ = t :: k ∧ (grun enc { cache := { cfg := cfg } } h).cache.get t = some tg ∧
          (lookup tg.tree k).isSome = true) := by
  intro s hs ha hm hu hg
  obtain ⟨hq, hb⟩ := ((final_ginv enc cfg h hok hns).2 s hs ha hm hu).drained hg
  have hA := stream_converges_pending enc cfg h hok hns s hs ha hm hu
  rw [pend_open hq hb] at hA
  exact ⟨hq, hb, hA⟩

/-- the sender only ever stops inside a gated `Send`: with nothing held, nothing is queued; a
response is only held while the gate is shut -/
theorem stream_queue_behind_blocked (enc : String → String) (cfg : Cfg) (h : List GOp)
    (hok : C03.OkRun enc { cfg := cfg } (cacheOps h)) (hns : NoStarTargets h) :
    ∀ s ∈ (grun enc { cache := { cfg := cfg } } h).subs,
      s.alive = true → s.req.mode = .stream → s.req.updatesOnly = false →
      (s.blocked = none → s.queue = []) ∧ (s.blocked.isSome = true → s.gateShut = true) := by
  intro s hs ha hm hu
  have inv := (final_ginv enc cfg h hok hns).2 s hs ha hm hu
  exact ⟨inv.idle, inv.held⟩

/-- the queued handles show the current cache: re-reading them (`refreshQueue`) changes nothing,
so `pend` — which converts the queue as it stands — is what the sender would produce now -/
theorem stream_queue_fresh (enc : String → String) (cfg : Cfg) (h : List GOp)
    (hok : C03.OkRun enc { cfg := cfg } (cacheOps h)) (hns : NoStarTargets h) :
    ∀ s ∈ (grun enc { cache := { cfg := cfg } } h).subs,
      s.alive = true → s.req.mode = .stream → s.req.updatesOnly = false →
      refreshQueue (grun enc { cache := { cfg := cfg } } h).cache s.queue = s.queue := by
  intro s hs ha hm hu
  have inv := (final_ginv enc cfg h hok hns).2 s hs ha hm hu
  obtain ⟨g, _, _, _, _, hgq⟩ := inv.ghost
  exact refreshQueue_fresh _ hgq.pw inv.fresh

/-! ## a stale held response is followed by a queued entry for its key -/

theorem lookup_foldl_not_touched (κ : Path) : ∀ (b : List Resp) (W : PMap Noti),
    (∀ r ∈ b, touches κ r = false) → lookup (b.foldl applyResp W) κ = lookup W κ
  | [], _, _ => rfl
  | r :: b, W, h => by
    simp only [List.foldl_cons]
    rw [lookup_foldl_not_touched κ b _ (fun x hx => h x (List.mem_cons_of_mem _ hx)), lookup_applyResp,
      eff_not_touches (h r (List.mem_cons_self ..))]

/-- **The response frozen inside a gated `Send` may be stale, but then the queue behind it makes up
for it**: if the held update (allowed, on a matched key) no longer shows what the cache holds at
its key, some queued entry that the ACL lets through touches that key. -/
theorem stale_blocked_requeued (enc : String → String) (cfg : Cfg) (h : List GOp)
    (hok : C03.OkRun enc { cfg := cfg } (cacheOps h)) (hns : NoStarTargets h) :
    ∀ s ∈ (grun enc { cache := { cfg := cfg } } h).subs,
      s.alive = true → s.req.mode = .stream → s.req.updatesOnly = false →
      ∀ n d, s.blocked = some (.upd n d) → s.acl.check n.target = true →
        s.regs.any (fun q => qmatches q (n.target :: evKey n)) = true →
        ¬ Feed.Sim cfg (some n)
          (((grun enc { cache := { cfg := cfg } } h).cache.get n.target).bind (fun tg => lookup tg.tree (evKey n))) →
        ∃ x ∈ s.queue, denied s.acl (toResp x) = false ∧ touches (n.target :: evKey n) (toResp x) = true := by
  intro s hs ha hm hu n d hb hacl hmatch hstale
  have hA := (stream_converges_pending enc cfg h hok hns s hs ha hm hu).1 n.target (evKey n) hacl hmatch
  apply Classical.byContradiction
  intro hno
  apply hstale
  have hnt : ∀ r ∈ (s.queue.map toResp).filter (fun r => !denied s.acl r),
      touches (n.target :: evKey n) r = false := by
    intro r hr
    obtain ⟨hr1, hr2⟩ := List.mem_filter.1 hr
    obtain ⟨x, hx, rfl⟩ := List.mem_map.1 hr1
    cases ht : touches (n.target :: evKey n) (toResp x) with
    | false => rfl
    | true => exact absurd ⟨x, hx, by simpa using hr2, ht⟩ hno
  have : lookup (replayR (pend s)) (n.target :: evKey n) = some n := by
    unfold replayR pend
    rw [hb, List.foldl_append, lookup_foldl_not_touched _ _ _ hnt, List.foldl_append]
    simp only [Option.toList, List.foldl_cons, List.foldl_nil]
    rw [lookup_applyResp]
    simp [eff, respKey_eq]
  rw [this] at hA
  exact hA

/-! ## (C) histories that never shut the gate: `C04Seq.stream_converges_partial` again -/

theorem pump_gateShut : ∀ (fuel : Nat) (s : Subscriber), (pump fuel s).gateShut = s.gateShut
  | 0, _ => rfl
  | fuel + 1, s => by
    unfold pump
    split
    · rfl
    · split
      · split <;> rfl
      · simp only
        split
        · rw [pump_gateShut fuel]
        · split
          · rfl
          · split
            · rfl
            · rw [pump_gateShut fuel]

theorem enqueue_fold_gateShut (evs : List Event) : ∀ (s : Subscriber),
    (evs.foldl (fun s e => enqueueEvent { s with queue := freezeCovered e s.queue } e) s).gateShut = s.gateShut := by
  induction evs with
  | nil => intro s; rfl
  | cons e evs ih =>
    intro s
    simp only [List.foldl_cons]
    rw [ih]
    unfold enqueueEvent
    split
    · rfl
    · cases e <;> rfl

theorem feedSub_gateShut (c' : Cache.State) (evs : List Event) (s : Subscriber) :
    (feedSub c' evs s).gateShut = s.gateShut := by
  unfold feedSub pumpAll
  simp only
  rw [pump_gateShut]
  exact enqueue_fold_gateShut evs s

theorem streamSub_gateShut (c : Cache.State) (id : String) (r : Req) (acl : Acl) :
    (streamSub c id r acl).gateShut = false := by
  unfold streamSub pumpAll
  rw [pump_gateShut]
  unfold doWalk
  split <;> rfl

theorem gateF_open (s : Subscriber) : (gateF false s).gateShut = false := by
  obtain ⟨id, req, acl, regs, alive, status, gateShut, gsd, blocked, queue, closed, out⟩ := s
  cases blocked with
  | none =>
    simp only [gateF, Bool.false_eq_true, if_false]
    unfold pumpAll
    rw [pump_gateShut]
  | some r =>
    simp only [gateF, Bool.false_eq_true, if_false]
    unfold pumpAll
    rw [pump_gateShut]
    split <;> rfl

theorem stepF_gateShut (s : Subscriber) : (stepF s).gateShut = s.gateShut := by
  obtain ⟨id, req, acl, regs, alive, status, gateShut, gsd, blocked, queue, closed, out⟩ := s
  cases gateShut with
  | false => rfl
  | true =>
    cases blocked with
    | none => rfl
    | some r =>
      simp only [stepF, if_true]
      split
      · rfl
      · unfold pumpAll
        rw [pump_gateShut]

theorem live_of_feedSub {c' : Cache.State} {evs : List Event} {s : Subscriber} (hl : Live (feedSub c' evs s)) :
    Live s := by
  have h1 := hl.2.1
  have h2 := hl.2.2
  rw [feedSub_req] at h1 h2
  refine ⟨?_, h1, h2⟩
  cases ha : s.alive with
  | true => rfl
  | false =>
    have := hl.1
    rw [feedSub_dead c' evs s ha] at this
    cases this

theorem live_of_stepF {s : Subscriber} (hl : Live (stepF s)) : Live s := by
  have h1 := hl.2.1
  have h2 := hl.2.2
  rw [stepF_req] at h1 h2
  refine ⟨?_, h1, h2⟩
  cases ha : s.alive with
  | true => rfl
  | false =>
    have := hl.1
    rw [stepF_dead s ha] at this
    cases this

/-- the history never shuts a gate -/
def NeverShut (h : List GOp) : Prop := ∀ id, GOp.gateShut id ∉ h

/-- no gate is shut unless the history shuts it (streams start with flow control open) -/
theorem gate_stays_open (enc : String → String) : ∀ (h : List GOp) (st : Sub.State), NeverShut h →
    st.pregated = [] → (∀ s ∈ st.subs, Live s → s.gateShut = false) →
    ∀ s ∈ (grun enc st h).subs, Live s → s.gateShut = false
  | [], _, _, _, ho => ho
  | op :: h, st, hn, hp, ho => by
    have hn' : NeverShut h := fun id hm => hn id (List.mem_cons_of_mem _ hm)
    show ∀ s ∈ (grun enc (gstep enc st op) h).subs, Live s → s.gateShut = false
    have upd : ∀ (id : String) (f : Subscriber → Subscriber),
        (∀ s ∈ st.subs, Live (f s) → (f s).gateShut = false) →
        ∀ s ∈ (grun enc (updateSub st id f) h).subs, Live s → s.gateShut = false := by
      intro id f hf
      refine gate_stays_open enc h (updateSub st id f) hn' hp ?_
      intro x hx hl
      obtain ⟨s, hs, rfl⟩ := List.mem_map.1 hx
      by_cases hid : s.id = id
      · rw [if_pos hid] at hl ⊢
        exact hf s hs hl
      · rw [if_neg hid] at hl ⊢
        exact ho s hs hl
    cases op with
    | sub id acl req =>
      obtain ⟨s, hs, hnew⟩ := subscribe_new st id acl req hp
      have he : gstep enc st (.sub id acl req) = { st with subs := st.subs ++ [s] } := hs
      rw [he]
      refine gate_stays_open enc h { st with subs := st.subs ++ [s] } hn' hp ?_
      intro x hx hl
      rcases List.mem_append.1 hx with hx | hx
      · exact ho x hx hl
      · simp only [List.mem_singleton] at hx
        subst hx
        rcases hnew with hnl | ⟨r, _, _, rfl⟩
        · exact absurd hl hnl
        · exact streamSub_gateShut ..
    | ca o =>
      have he : gstep enc st (.ca o) =
          feed { st with cache := (st.cache.step enc o).1 } (st.cache.step enc o).2.2 := rfl
      rw [he, feed_eq]
      refine gate_stays_open enc h _ hn' (show st.pregated = [] from hp) ?_
      intro x hx hl
      obtain ⟨s, hs, rfl⟩ := List.mem_map.1 hx
      rw [feedSub_gateShut]
      exact ho s hs (live_of_feedSub hl)
    | gateShut id => exact absurd (List.mem_cons_self ..) (hn id)
    | gateOpen id =>
      have he : gstep enc st (.gateOpen id) = updateSub st id (gateF false) := rfl
      rw [he]
      exact upd id _ (fun s _ _ => gateF_open s)
    | gateStep id =>
      have he : gstep enc st (.gateStep id) = updateSub st id stepF := rfl
      rw [he]
      exact upd id _ (fun s hs hl => by rw [stepF_gateShut]; exact ho s hs (live_of_stepF hl))

/-- a history that never shuts a gate: plain convergence at every point -/
theorem stream_converges_never_shut (enc : String → String) (cfg : Cfg) (h : List GOp)
    (hok : C03.OkRun enc { cfg := cfg } (cacheOps h)) (hns : NoStarTargets h) (hn : NeverShut h) :
    ∀ s ∈ (grun enc { cache := { cfg := cfg } } h).subs,
      s.alive = true → s.req.mode = .stream → s.req.updatesOnly = false →
      (∀ t k, s.acl.check t = true → s.regs.any (fun q => qmatches q (t :: k)) = true →
        Feed.Sim cfg (lookup (replay s.out) (t :: k))
          (((grun enc { cache := { cfg := cfg } } h).cache.get t).bind (fun tg => lookup tg.tree k))) ∧
      (∀ κ, (lookup (replay s.out) κ).isSome = true →
        ∃ t k tg, κ = t :: k ∧ (grun enc { cache := { cfg := cfg } } h).cache.get t = some tg ∧
          (lookup tg.tree k).isSome = true) := by
  intro s hs ha hm hu
  have hg := gate_stays_open enc h _ hn rfl (fun s hs => by simp at hs) s hs ⟨ha, hm, hu⟩
  exact (stream_converges_gate_open enc cfg h hok hns s hs ha hm hu hg).2.2

/-- a `C04Seq` history as a history without gate operations -/
def emb : C04Seq.HOp → GOp
  | .sub id acl req => .sub id acl req
  | .ca op => .ca op

theorem grun_emb (enc : String → String) : ∀ (h : List C04Seq.HOp) (st : Sub.State),
    grun enc st (h.map emb) = C04Seq.hrun enc st h
  | [], _ => rfl
  | op :: h, st => by
    have : gstep enc st (emb op) = C04Seq.hstep enc st op := by cases op <;> rfl
    show grun enc (gstep enc st (emb op)) (h.map emb) = C04Seq.hrun enc (C04Seq.hstep enc st op) h
    rw [this]
    exact grun_emb enc h _

theorem cacheOps_emb : ∀ (h : List C04Seq.HOp), cacheOps (h.map emb) = C04Seq.cacheOps h
  | [] => rfl
  | .sub id acl req :: h => by
    show cacheOps (GOp.sub id acl req :: h.map emb) = C04Seq.cacheOps h
    rw [cacheOps_cons_other _ rfl]
    exact cacheOps_emb h
  | .ca op :: h => by
    show cacheOps (GOp.ca op :: h.map emb) = op :: C04Seq.cacheOps h
    rw [cacheOps_cons_ca, cacheOps_emb h]

theorem neverShut_emb (h : List C04Seq.HOp) : NeverShut (h.map emb) := by
  intro id hm
  obtain ⟨op, _, he⟩ := List.mem_map.1 hm
  cases op <;> cases he

/-- **(C)** `C04Seq.stream_converges_partial`, re-derived as the special case of histories without
gate operations -/
theorem stream_converges_partial_again (enc : String → String) (cfg : Cfg) (h : List C04Seq.HOp)
    (hok : C03.OkRun enc { cfg := cfg } (C04Seq.cacheOps h)) (hns : C04Seq.NoStarTargets h) :
    ∀ s ∈ (C04Seq.hrun enc { cache := { cfg := cfg } } h).subs,
      s.alive = true → s.req.mode = .stream → s.req.updatesOnly = false →
      (∀ t k, s.acl.check t = true → s.regs.any (fun q => qmatches q (t :: k)) = true →
        Feed.Sim cfg (lookup (replay s.out) (t :: k))
          (((C04Seq.hrun enc { cache := { cfg := cfg } } h).cache.get t).bind (fun tg => lookup tg.tree k))) ∧
      (∀ κ, (lookup (replay s.out) κ).isSome = true →
        ∃ t k tg, κ = t :: k ∧ (C04Seq.hrun enc { cache := { cfg := cfg } } h).cache.get t = some tg ∧
          (lookup tg.tree k).isSome = true) := by
  have := stream_converges_never_shut enc cfg (h.map emb) (by rw [cacheOps_emb]; exact hok)
    (by intro op hop; rw [cacheOps_emb] at hop; exact hns op hop) (neverShut_emb h)
  rw [grun_emb] at this
  exact this

/-! ## Non-vacuity: two leaves, a subscriber, the gate shut, three writes of one leaf (the first is
dequeued and frozen in `blocked`, the second queued behind it, the third coalesced into the second),
a write of the other leaf, a `gateStep` (the stale held response goes out, the coalesced handle is
frozen), another write of the first leaf, a delete of the second leaf (its queued handle is detached,
a delete item queued), `gateOpen` -/

def wr (i : Int) (r : String) : Upd := { path := ["a", "b"], val := .scalar (.int i), raw := r }
def cr (i : Int) (r : String) : Upd := { path := ["a", "c"], val := .scalar (.int i), raw := r }
def reqS : Req := { target := "t", mode := .stream, subs := [{ path := ["a"] }] }
def upT (now ts : Int) (us : List Upd) : GOp :=
  .ca (.update now false { ts := ts, target := "t", praw := "p", upd := us })

/-- the history up to the point where the gate is still shut -/
def histShut : List GOp :=
  [ .ca (.add "t"),
    upT 10 1 [wr 1 "w1", cr 1 "c1"],
    .sub "s1" .absent (some reqS),
    .gateShut "s1",
    upT 11 2 [wr 2 "w2"],
    upT 12 3 [wr 3 "w3"],
    upT 13 4 [wr 4 "w4"],
    upT 14 5 [cr 2 "c2"],
    .gateStep "s1",
    upT 15 6 [wr 5 "w5"],
    .ca (.update 16 false { ts := 7, target := "t", praw := "p", del := [{ path := ["a", "c"], raw := "d" }] }) ]

def histG : List GOp := histShut ++ [.gateOpen "s1"]

theorem histG_ok : C03.OkRun id {} (cacheOps histG) := by
  have one : ∀ (now ts i : Int) (r : String) (p : Path), glob ∉ p → p.head? ≠ some "" →
      Clean { ts := ts, target := "t", praw := "p", upd := [{ path := p, val := .scalar (.int i), raw := r }] } := by
    intro now ts i r p h1 h2 u hu
    simp only [List.mem_cons, List.not_mem_nil, or_false] at hu
    subst hu
    exact ⟨h1, Or.inr rfl, h2⟩
  refine ⟨⟨by decide, rfl⟩, ?_, one 11 2 2 "w2" _ (by decide) (by decide), one 12 3 3 "w3" _ (by decide) (by decide),
    one 13 4 4 "w4" _ (by decide) (by decide), one 14 5 2 "c2" _ (by decide) (by decide),
    one 15 6 5 "w5" _ (by decide) (by decide), (fun u hu => by cases hu), trivial⟩
  intro u hu
  simp only [List.mem_cons, List.not_mem_nil, or_false] at hu
  rcases hu with rfl | rfl <;> exact ⟨by decide, Or.inr rfl, by decide⟩

theorem histG_noStar : NoStarTargets histG := by
  intro op hop
  simp only [histG, histShut, upT, cacheOps, caOf, List.cons_append, List.nil_append, List.filterMap_cons,
    List.filterMap_nil, List.mem_cons, List.not_mem_nil, or_false] at hop
  rcases hop with rfl | rfl | rfl | rfl | rfl | rfl | rfl | rfl <;> first | trivial | (show _ ≠ _; decide)

/-- a view as keys and timestamps -/
def kts (v : PMap Noti) : List (Path × Int) := v.map (fun kv => (kv.1, kv.2.ts))

/-- **with the gate still shut** the subscriber is alive, was sent the snapshot, `sync` and (by the
`gateStep`) the stale `w2`; it holds `w4` (the coalesced handle of `w3`/`w4`, duplicate count 1) and
has three entries queued (the detached handle of `a/c`, a new handle of `a/b`, the delete item).
The view replayed from what it was **sent** lags (`a/b` at timestamp 2, `a/c` still there); the view
replayed from `pend` **is** the cache (`a/b` at timestamp 6, nothing else). -/
theorem histShut_views :
    (grun id {} histShut).subs.map (fun s => (s.alive, s.gateShut, s.out.length, s.queue.length)) =
      [(true, true, 4, 3)] ∧
    (grun id {} histShut).subs.map (fun s => s.blocked.toList.map (fun r =>
      match r with
      | .upd n d => (n.ts, d)
      | _ => (0, 0))) = [[(4, 1)]] ∧
    (grun id {} histShut).subs.map (fun s => kts (replay s.out)) = [[(["t", "a", "b"], 2), (["t", "a", "c"], 1)]] ∧
    (grun id {} histShut).subs.map (fun s => kts (replayR (pend s))) = [[(["t", "a", "b"], 6)]] ∧
    ((grun id {} histShut).cache.get "t").map (fun tg => kts tg.tree) = some [(["a", "b"], 6)] := by
  decide

/-- (A) says something: here `replay s.out` alone does **not** agree with the cache on a matched
key, `replay (pend s)` does -/
theorem histShut_out_lags : ∃ s ∈ (grun id {} histShut).subs,
    s.alive = true ∧ s.req.mode = .stream ∧ s.req.updatesOnly = false ∧ s.gateShut = true ∧
    s.acl.check "t" = true ∧ s.regs.any (fun q => qmatches q ["t", "a", "b"]) = true ∧
    lookup (replay s.out) ["t", "a", "b"] ≠
      ((grun id {} histShut).cache.get "t").bind (fun tg => lookup tg.tree ["a", "b"]) ∧
    lookup (replayR (pend s)) ["t", "a", "b"] =
      ((grun id {} histShut).cache.get "t").bind (fun tg => lookup tg.tree ["a", "b"]) ∧
    (lookup (replay s.out) ["t", "a", "c"]).isSome = true ∧
    lookup (replayR (pend s)) ["t", "a", "c"] = none ∧
    ((grun id {} histShut).cache.get "t").bind (fun tg => lookup tg.tree ["a", "c"]) = none := by
  decide

/-- **after `gateOpen`**: everything was sent (8 responses), nothing held or queued, and the view
replayed from what was sent is the cache -/
theorem histG_views :
    (grun id {} histG).subs.map (fun s => (s.alive, s.gateShut, s.out.length, s.queue.length)) =
      [(true, false, 8, 0)] ∧
    (grun id {} histG).subs.map (fun s => s.blocked.isSome) = [false] ∧
    (grun id {} histG).subs.map (fun s => kts (replay s.out)) = [[(["t", "a", "b"], 6)]] ∧
    ((grun id {} histG).cache.get "t").map (fun tg => kts tg.tree) = some [(["a", "b"], 6)] := by
  decide

/-- the theorems instantiated at the example -/
example := stream_converges_pending id {} histG histG_ok histG_noStar
example := stream_converges_gate_open id {} histG histG_ok histG_noStar

end C04Gate
end Gnmi
