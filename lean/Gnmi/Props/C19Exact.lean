import Gnmi.Props.C19
/-!
# C19 — the client query round trip, characterised totally (known finding D18 pinned)

`query_roundtrip_partial` (Props/C19.lean) needs `LastNotSlash`; the unrestricted statement
`query_roundtrip` is false (`query_roundtrip_false`): third-party `ygot`
(`util.PathStringToElements`, "Remove trailing empty element") looks at the last *byte* of the
joined string, where `pathToString` has already escaped the `/` inside elements — so a query
whose last element ends in `/` loses **that whole last element** (`parts[:len(parts)-1]`), and
nothing else happens.

`query_roundtrip_exact` says exactly that, for *every* query of plain elements: the query
arrives — in both encodings, alone and joined by the server — as `arrives q`, which is `q`
without its last element if that element ends in `/`, and `q` otherwise.  Any *other*
deviation of the conversion would contradict this theorem, so the known finding is pinned
exactly; `arrivesAs_iff_lastNotSlash` states it as an equivalence, and
`query_roundtrip_partial_of_exact` re-derives the registered partial theorem as the special case.
-/
namespace Gnmi
namespace C19
open PV List

/-- the last element of the query ends in `/` -/
def lastSlashC (q : List Str) : Bool :=
  match q.getLast? with
  | some e => e.getLast? == some '/'
  | none => false

def lastSlash (q : List String) : Bool := lastSlashC (q.map String.toList)

/-- what the server receives for the query `q` (D18: `dropLast` when the last element ends in `/`) -/
def arrivesC (q : List Str) : List Str := if lastSlashC q then q.dropLast else q
def arrives (q : List String) : List String := if lastSlash q then q.dropLast else q

theorem arrivesC_map (q : List String) : arrivesC (q.map String.toList) = (arrives q).map String.toList := by
  unfold arrivesC arrives lastSlash
  split <;> simp

theorem lastSlash_false_iff (q : List String) : lastSlash q = false ↔ LastNotSlash q := by
  unfold lastSlash lastSlashC LastNotSlash
  rw [getLast?_map]
  cases hq : q.getLast? with
  | none => simp
  | some e => simp

theorem arrives_of_lastNotSlash (q : List String) (h : LastNotSlash q) : arrives q = q := by
  unfold arrives
  rw [(lastSlash_false_iff q).2 h]
  rfl

theorem arrives_of_lastSlash (q : List String) (h : lastSlash q = true) : arrives q = q.dropLast := by
  unfold arrives; rw [h]; rfl

theorem dropLast_ne_self {α : Type} (l : List α) (h : l ≠ []) : l.dropLast ≠ l := by
  intro e
  have := congrArg List.length e
  rw [length_dropLast] at this
  have : l.length ≠ 0 := by simpa [length_eq_zero_iff] using h
  omega

/-- `arrives q = q` exactly when the D18 hypothesis holds -/
theorem arrives_eq_self_iff (q : List String) : arrives q = q ↔ LastNotSlash q := by
  constructor
  · intro h
    rw [← lastSlash_false_iff]
    cases hs : lastSlash q with
    | false => rfl
    | true =>
      rw [arrives_of_lastSlash q hs] at h
      have hne : q ≠ [] := by
        intro e; subst e; revert hs; decide
      exact absurd h (dropLast_ne_self q hne)
  · exact arrives_of_lastNotSlash q

/-! ### the ygot element split, without the D18 hypothesis -/

theorem pathStringToElements_exact (q : List Str) (h : ∀ e ∈ q, plainStr e = true) :
    pathStringToElements (pathToString q) = .ok (arrivesC q) := by
  unfold pathStringToElements
  rw [splitPath_pathToString q h]
  cases q with
  | nil => simp [arrivesC, lastSlashC]
  | cons e r =>
    have hne : e ≠ [] := plainStr_ne_nil (h e mem_cons_self)
    have hlast : (e :: r).getLast (cons_ne_nil _ _) ≠ [] := plainStr_ne_nil (h _ (getLast_mem _))
    simp only [hne, if_false, length_cons, Nat.zero_lt_succ, if_true]
    rw [getLast?_pathToString e r hlast]
    have hs : lastSlashC (e :: r) = decide (((e :: r).getLast (cons_ne_nil _ _)).getLast hlast = '/') := by
      unfold lastSlashC
      rw [getLast?_eq_some_getLast (cons_ne_nil e r)]
      simp only [getLast?_eq_some_getLast hlast]
      by_cases hc : ((e :: r).getLast (cons_ne_nil _ _)).getLast hlast = '/' <;> simp [hc]
    unfold arrivesC
    rw [hs, getLast?_eq_some_getLast hlast]
    by_cases hc : ((e :: r).getLast (cons_ne_nil _ _)).getLast hlast = '/' <;> simp [hc]

theorem arrivesC_plain (q : List Str) (h : ∀ e ∈ q, plainStr e = true) :
    ∀ e ∈ arrivesC q, plainStr e = true := by
  intro e he
  unfold arrivesC at he
  split at he
  · exact h e (dropLast_subset q he)
  · exact h e he

/-- every query of plain elements is converted to the path of `arrivesC q`, in both encodings -/
theorem queryToCPath_exact (q : List Str) (h : ∀ e ∈ q, plainStr e = true) :
    queryToCPath q = .ok { elem := (arrivesC q).map (fun e => (e, [])), element := arrivesC q } := by
  have hp := arrivesC_plain q h
  unfold queryToCPath stringToPath
  simp only [pathStringToElements_exact q h, structuredElems_plain _ hp, sliceElems_plain _ hp]

theorem queryToPath_exact (q : List String) (hp : ∀ e ∈ q, plain e = true) :
    queryToPath q = .ok (specQueryPath (arrives q)) := by
  have hp' : ∀ e ∈ q.map String.toList, plainStr e = true := by
    intro e he
    obtain ⟨s, hs, rfl⟩ := mem_map.mp he
    exact hp s hs
  unfold queryToPath
  rw [queryToCPath_exact _ hp', arrivesC_map]
  simp [CPath.toGPath, specQueryPath, Function.comp_def, String.ofList_toList]

/-! ### the round trip -/

/-- the query `q` is converted without error and reaches the server indexed as `q'`, in both
encodings (`ArrivesAs q` of Props/C19.lean is `ArrivesAsList q q`) -/
def ArrivesAsList (q q' : List String) : Prop :=
  ∃ p, queryToPath q = .ok p ∧
    p = specQueryPath q' ∧
    toStrings (some { p with element := [] }) false = q' ∧        -- structured encoding alone
    toStrings (some { p with elem := [] }) false = q' ∧           -- deprecated encoding alone
    toStrings (some p) false = q' ∧
    ∀ t, completePath (some { target := t }) (some p) = .ok q'    -- as the server joins it

theorem arrivesAs_iff (q : List String) : ArrivesAs q ↔ ArrivesAsList q q := Iff.rfl

/-- what a query arrives as is unique -/
theorem arrivesAsList_unique (q a b : List String) (ha : ArrivesAsList q a) (hb : ArrivesAsList q b) :
    a = b := by
  obtain ⟨p, hp, _, _, _, h1, _⟩ := ha
  obtain ⟨p', hp', _, _, _, h2, _⟩ := hb
  rw [hp] at hp'
  cases hp'
  exact h1.symm.trans h2

/-- **query_roundtrip_exact** — total characterisation, the D18 case included: *every* query of
plain elements is converted without error and reaches the server — structured encoding alone,
deprecated encoding alone, both, and joined with a target prefix by `CompletePath` — indexed as
`arrives q`: the query itself, minus its last element when that element ends in `/`. -/
theorem query_roundtrip_exact (q : List String) (hp : ∀ e ∈ q, plain e = true) :
    ArrivesAsList q (arrives q) := by
  obtain ⟨h1, h2, h3⟩ := toStrings_specQueryPath (arrives q)
  refine ⟨_, queryToPath_exact q hp, rfl, h2, h3, h1, ?_⟩
  intro t
  have hpre : toStrings (some ({ target := t } : GPath)) false = [] := by simp [toStrings, header]
  unfold completePath
  rw [hpre, h1]
  simp [getOrigin, specQueryPath]

/-- the registered partial theorem is the special case `LastNotSlash` -/
theorem query_roundtrip_partial_of_exact (q : List String) (hp : ∀ e ∈ q, plain e = true)
    (hl : LastNotSlash q) : ArrivesAs q := by
  have := query_roundtrip_exact q hp
  rw [arrives_of_lastNotSlash q hl] at this
  exact this

/-- **D18 is the only deviation**: a plain query arrives as itself *iff* its last element does
not end in `/`. -/
theorem arrivesAs_iff_lastNotSlash (q : List String) (hp : ∀ e ∈ q, plain e = true) :
    ArrivesAs q ↔ LastNotSlash q := by
  constructor
  · intro h
    have := arrivesAsList_unique q _ _ h (query_roundtrip_exact q hp)
    exact (arrives_eq_self_iff q).1 this.symm
  · exact query_roundtrip_partial_of_exact q hp

/-- in the D18 case exactly the last element is lost (nothing before it changes) -/
theorem query_last_slash_lost (q : List String) (hp : ∀ e ∈ q, plain e = true)
    (hs : lastSlash q = true) : ArrivesAsList q q.dropLast := by
  have := query_roundtrip_exact q hp
  rw [arrives_of_lastSlash q hs] at this
  exact this

/-! ### non-vacuity / the registered witnesses are instances -/

example : arrives ["a", "b/"] = ["a"] := by decide
example : arrives ["/"] = [] := by decide
example : arrives ["a/", "b"] = ["a/", "b"] := by decide
example : arrives ["interfaces", "eth0/1", "/x"] = ["interfaces", "eth0/1", "/x"] := by decide
example : (∀ e ∈ ["a", "b/"], plain e = true) ∧ lastSlash ["a", "b/"] = true := by decide
/-- agrees with the decided D18 witness of Props/C19.lean -/
example : queryToPath ["a", "b/"] = .ok (specQueryPath (arrives ["a", "b/"])) :=
  query_trailing_slash_lost.1
example : queryToPath ["x//", "y//"] = .ok (specQueryPath ["x//"]) := by decide

end C19
end Gnmi
