import Gnmi.Model.CacheMut
/-!
# C03 — "the caller's notification is left unmodified — also when callers share prefix objects
between notifications"

Over the heap machine of `Model/CacheMut.lean` (the one place where `Target.GnmiUpdate` writes
through its argument: `n.Update, n.Delete = nil, nil`, restored in a `defer`):

* `caller_notification_restored` — for every heap, every notification object `n` in it and every
  outcome of the calls made on the way (`Oracle`: each unit accepted / suppressed / rejected /
  **panicking**), the call terminates and on **every exit path** — normal return, return with
  the errors collected in the errlist, and a panic inside either loop (the deferred restore still
  runs) — every object that existed before the call has its initial content: the caller's
  notification (same `Update` / `Delete` slices, element for element the same pointers), its
  prefix object (whoever else shares it), its update and path messages, and every other
  notification of the caller.  (`restored_on_panic` spells out the panic exit.)
* `cleared_while_running` — *during* the loops the caller's notification is observably empty
  (`Update = Delete = nil`): whoever reads `n` concurrently with the call — or from the client
  callback — sees it without its updates.  Not a violation of the clause (which speaks of the
  state after the call) but the reason the clause needs the restore.
* `clone_fresh_header_and_prefix` / `clone_shares_update_object` — **"each unit is a fresh clone
  sharing no mutable part with the caller's" is only half true**: the notification object and its
  prefix object stored in the tree / handed to the feed are fresh (`proto.Clone` is deep, so a
  prefix object shared between the caller's notifications is *not* shared with the cache), but
  `noti.Update = []*pb.Update{u}` attaches the caller's own `*pb.Update` object: the stored unit
  and the caller's notification share that message by pointer (`clone_never_aliases_false`:
  concrete witness).  A caller that re-uses its `Update` messages after the call changes what
  the cache holds.
* `single_update_stores_callers_object` — the single-update and atomic arms store (and feed) the
  caller's **own notification object**: no clone at all ("handled separately to avoid the
  unnecessary proto.Clone call"), and write nothing.
* `fed_subset_stored` — what the feed hands out are the stored leaf values themselves.
-/
namespace Gnmi
namespace CacheMut

/-! ## the clone of a cleared notification, explicitly -/

/-- the objects `proto.Clone(n)` + `noti.Update = us` / `noti.Delete = ds` allocate when `n` is
cleared: a copy of the prefix (if any) and the notification -/
def unitExt (h : Heap) (ts : Int) (pfx : Option Nat) (atomic : Bool) (us ds : List Nat) : List Cell :=
  match pfx with
  | none => [.noti ts none atomic us ds]
  | some p => [(h[p]?).getD (.msg ""), .noti ts (some h.length) atomic us ds]

/-- the address of the new notification -/
def unitRef (h : Heap) (pfx : Option Nat) : Nat :=
  match pfx with
  | none => h.length
  | some _ => h.length + 1

theorem clone_setUpd (h : Heap) (n : Nat) (ts : Int) (pfx : Option Nat) (atomic : Bool) (u : Nat)
    (hn : h[n]? = some (.noti ts pfx atomic [] [])) :
    ∃ h1, cloneNoti h n = some (h1, unitRef h pfx) ∧
      setUpd h1 (unitRef h pfx) [u] = h ++ unitExt h ts pfx atomic [u] [] := by
  cases pfx with
  | none =>
    refine ⟨h ++ [.noti ts none atomic [] []], by simp [cloneNoti, hn, cloneRefs, unitRef], ?_⟩
    simp [setUpd, unitRef, unitExt]
  | some p =>
    refine ⟨h ++ [(h[p]?).getD (.msg "")] ++ [.noti ts (some h.length) atomic [] []],
      by simp [cloneNoti, hn, cloneRefs, unitRef], ?_⟩
    have e : unitRef h (some p) = (h ++ [(h[p]?).getD (.msg "")]).length := by simp [unitRef]
    rw [e]
    simp [setUpd, unitExt]

theorem clone_setDel (h : Heap) (n : Nat) (ts : Int) (pfx : Option Nat) (atomic : Bool) (d : Nat)
    (hn : h[n]? = some (.noti ts pfx atomic [] [])) :
    ∃ h1, cloneNoti h n = some (h1, unitRef h pfx) ∧
      setDel h1 (unitRef h pfx) [d] = h ++ unitExt h ts pfx atomic [] [d] := by
  cases pfx with
  | none =>
    refine ⟨h ++ [.noti ts none atomic [] []], by simp [cloneNoti, hn, cloneRefs, unitRef], ?_⟩
    simp [setDel, unitRef, unitExt]
  | some p =>
    refine ⟨h ++ [(h[p]?).getD (.msg "")] ++ [.noti ts (some h.length) atomic [] []],
      by simp [cloneNoti, hn, cloneRefs, unitRef], ?_⟩
    have e : unitRef h (some p) = (h ++ [(h[p]?).getD (.msg "")]).length := by simp [unitRef]
    rw [e]
    simp [setDel, unitExt]

theorem unitExt_get (h : Heap) (ts : Int) (pfx : Option Nat) (atomic : Bool) (us ds : List Nat) :
    (h ++ unitExt h ts pfx atomic us ds)[unitRef h pfx]? =
      some (.noti ts (pfx.map (fun _ => h.length)) atomic us ds) := by
  cases pfx <;> simp [unitExt, unitRef]

theorem unitRef_ge (h : Heap) (pfx : Option Nat) : h.length ≤ unitRef h pfx := by
  cases pfx <;> simp [unitRef]

/-! ## the invariant -/

/-- a unit of the multi arm: a fresh notification object with a fresh prefix object, carrying one
of the caller's own update messages -/
def UnitOK (len0 : Nat) (ts : Int) (pfx : Option Nat) (atomic : Bool) (upd0 : List Nat) (heap : Heap) (r : Nat) : Prop :=
  len0 ≤ r ∧ ∃ pfx' u, heap[r]? = some (.noti ts pfx' atomic [u] []) ∧ u ∈ upd0 ∧
    pfx'.isSome = pfx.isSome ∧ ∀ p', pfx' = some p' → len0 ≤ p'

/-- what holds of the caller's cell at each program point of the multi arm -/
def AtN (n : Nat) (ts : Int) (pfx : Option Nat) (atomic : Bool) (upd0 del0 : List Nat) (c : Conf) : Prop :=
  match c.pc with
  | .entry => False
  | .loopU su sd _ _ => c.heap[n]? = some (.noti ts pfx atomic [] []) ∧ su = upd0 ∧ sd = del0
  | .loopD su sd _ _ => c.heap[n]? = some (.noti ts pfx atomic [] []) ∧ su = upd0 ∧ sd = del0
  | .unwinding su sd _ => c.heap[n]? = some (.noti ts pfx atomic [] []) ∧ su = upd0 ∧ sd = del0
  | .done _ => c.heap[n]? = some (.noti ts pfx atomic upd0 del0)

def restOf : PC → List Nat
  | .loopU _ _ rest _ => rest
  | _ => []

structure Inv (h0 : Heap) (n : Nat) (ts : Int) (pfx : Option Nat) (atomic : Bool) (upd0 del0 : List Nat)
    (c : Conf) : Prop where
  len : h0.length ≤ c.heap.length
  frame : ∀ r, r < h0.length → r ≠ n → c.heap[r]? = h0[r]?
  atN : AtN n ts pfx atomic upd0 del0 c
  rest : ∀ u ∈ restOf c.pc, u ∈ upd0
  stored : ∀ r ∈ c.stored, UnitOK h0.length ts pfx atomic upd0 c.heap r
  fed : ∀ r ∈ c.fed, r ∈ c.stored

theorem unitOK_mono {len0 : Nat} {ts : Int} {pfx : Option Nat} {atomic : Bool} {upd0 : List Nat} {h h' : Heap} {r : Nat}
    (hk : UnitOK len0 ts pfx atomic upd0 h r) (hh : ∀ x, len0 ≤ x → x < h.length → h'[x]? = h[x]?) :
    UnitOK len0 ts pfx atomic upd0 h' r := by
  obtain ⟨h1, pfx', u, h2, h3⟩ := hk
  have hr : r < h.length := (List.getElem?_eq_some_iff.1 h2).1
  exact ⟨h1, pfx', u, by rw [hh r h1 hr]; exact h2, h3⟩

/-- the invariant is preserved by every step of the multi arm -/
theorem inv_step (o : Oracle) (h0 : Heap) (n : Nat) (ts : Int) (pfx : Option Nat) (atomic : Bool)
    (upd0 del0 : List Nat) (hn : n < h0.length) (c : Conf)
    (hi : Inv h0 n ts pfx atomic upd0 del0 c) : Inv h0 n ts pfx atomic upd0 del0 (step o n c) := by
  obtain ⟨pc, heap, stored, fed, errs⟩ := c
  obtain ⟨ilen, iframe, iat, irest, istored, ifed⟩ := hi
  simp only at ilen iframe irest istored ifed
  -- appending the objects of one unit
  have happ : ∀ (ext : List Cell), (∀ r, r < h0.length → r ≠ n → (heap ++ ext)[r]? = h0[r]?) ∧
      (∀ x, h0.length ≤ x → x < heap.length → (heap ++ ext)[x]? = heap[x]?) ∧
      (heap ++ ext)[n]? = heap[n]? := by
    intro ext
    refine ⟨fun r h1 h2 => ?_, fun x _ h2 => List.getElem?_append_left h2, List.getElem?_append_left (by omega)⟩
    rw [List.getElem?_append_left (by omega)]; exact iframe r h1 h2
  cases pc with
  | entry => exact absurd iat (by simp [AtN])
  | done e => exact ⟨ilen, iframe, iat, irest, istored, ifed⟩
  | unwinding su sd e =>
    obtain ⟨a1, rfl, rfl⟩ := iat
    simp only [step, a1]
    refine ⟨by simpa using ilen, fun r h1 h2 => ?_, ?_, by simp [restOf], fun r hr => ?_, ifed⟩
    · simp only; rw [List.getElem?_set_ne (Ne.symm h2)]; exact iframe r h1 h2
    · simp [AtN, List.getElem?_set_self (by omega : n < heap.length)]
    · exact unitOK_mono (istored r hr) (fun x hx _ => by
        simp only; rw [List.getElem?_set_ne (by omega)])
  | loopU su sd rest i =>
    obtain ⟨a1, rfl, rfl⟩ := iat
    cases rest with
    | nil =>
      simp only [step]
      exact ⟨ilen, iframe, ⟨a1, rfl, rfl⟩, by simp [restOf], istored, ifed⟩
    | cons u rest =>
      obtain ⟨h1, hc, hs⟩ := clone_setUpd heap n ts pfx atomic u a1
      obtain ⟨f1, f2, f3⟩ := happ (unitExt heap ts pfx atomic [u] [])
      have hu : u ∈ su := irest u (by simp [restOf])
      have hnew : UnitOK h0.length ts pfx atomic su (heap ++ unitExt heap ts pfx atomic [u] []) (unitRef heap pfx) :=
        ⟨Nat.le_trans ilen (unitRef_ge heap pfx), pfx.map (fun _ => heap.length), u, unitExt_get .., hu,
          by cases pfx <;> rfl, fun p' hp' => by
            cases pfx with
            | none => cases hp'
            | some p =>
              simp only [Option.map_some, Option.some.injEq] at hp'
              rw [← hp']; exact ilen⟩
      have hold : ∀ r ∈ stored, UnitOK h0.length ts pfx atomic su (heap ++ unitExt heap ts pfx atomic [u] []) r :=
        fun r hr => unitOK_mono (istored r hr) f2
      have hrest : ∀ v ∈ rest, v ∈ su := fun v hv => irest v (by simp [restOf, hv])
      have hlen : h0.length ≤ (heap ++ unitExt heap ts pfx atomic [u] []).length := by
        rw [List.length_append]; omega
      simp only [step, hc, hs]
      cases o.upd i with
      | accepted fd =>
        refine ⟨hlen, f1, ⟨by rw [f3]; exact a1, rfl, rfl⟩, hrest, fun r hr => ?_, fun r hr => ?_⟩
        · rcases List.mem_append.1 hr with h | h
          · exact hold r h
          · rw [List.mem_singleton.1 h]; exact hnew
        · simp only at hr ⊢
          cases fd
          · exact List.mem_append_left _ (ifed r hr)
          · rcases List.mem_append.1 hr with h | h
            · exact List.mem_append_left _ (ifed r h)
            · exact List.mem_append_right _ h
      | rejected => exact ⟨hlen, f1, ⟨by rw [f3]; exact a1, rfl, rfl⟩, hrest, hold, ifed⟩
      | panics => exact ⟨hlen, f1, ⟨by rw [f3]; exact a1, rfl, rfl⟩, by simp [restOf], hold, ifed⟩
  | loopD su sd rest j =>
    obtain ⟨a1, rfl, rfl⟩ := iat
    cases rest with
    | nil =>
      simp only [step]
      exact ⟨ilen, iframe, ⟨a1, rfl, rfl⟩, by simp [restOf], istored, ifed⟩
    | cons d rest =>
      obtain ⟨h1, hc, hs⟩ := clone_setDel heap n ts pfx atomic d a1
      obtain ⟨f1, f2, f3⟩ := happ (unitExt heap ts pfx atomic [] [d])
      have hold : ∀ r ∈ stored, UnitOK h0.length ts pfx atomic su (heap ++ unitExt heap ts pfx atomic [] [d]) r :=
        fun r hr => unitOK_mono (istored r hr) f2
      have hlen : h0.length ≤ (heap ++ unitExt heap ts pfx atomic [] [d]).length := by
        rw [List.length_append]; omega
      simp only [step, hc, hs]
      split
      · exact ⟨hlen, f1, ⟨by rw [f3]; exact a1, rfl, rfl⟩, by simp [restOf], hold, ifed⟩
      · exact ⟨hlen, f1, ⟨by rw [f3]; exact a1, rfl, rfl⟩, by simp [restOf], hold, ifed⟩

theorem inv_steps (o : Oracle) (h0 : Heap) (n : Nat) (ts : Int) (pfx : Option Nat) (atomic : Bool)
    (upd0 del0 : List Nat) (hn : n < h0.length) : ∀ (k : Nat) (c : Conf),
    Inv h0 n ts pfx atomic upd0 del0 c → Inv h0 n ts pfx atomic upd0 del0 (steps o n k c)
  | 0, _, hi => hi
  | k + 1, c, hi => inv_steps o h0 n ts pfx atomic upd0 del0 hn k _ (inv_step o h0 n ts pfx atomic upd0 del0 hn c hi)

/-! ## termination -/

/-- steps left before `done` (an upper bound) -/
def fuel : PC → Nat
  | .entry => 0
  | .loopU _ sd rest _ => rest.length + sd.length + 3
  | .loopD _ _ rest _ => rest.length + 2
  | .unwinding _ _ _ => 1
  | .done _ => 0

theorem steps_done (o : Oracle) (n : Nat) (e : Exit) : ∀ (k : Nat) (c : Conf), c.pc = .done e → steps o n k c = c
  | 0, _, _ => rfl
  | k + 1, c, h => by
    have : step o n c = c := by
      obtain ⟨pc, heap, stored, fed, errs⟩ := c
      simp only at h; subst h; rfl
    rw [steps, this]; exact steps_done o n e k c h

theorem fuel_step (o : Oracle) (n : Nat) (c : Conf) (hp : c.pc ≠ .entry) (hd : ∀ e, c.pc ≠ .done e) :
    fuel (step o n c).pc < fuel c.pc := by
  obtain ⟨pc, heap, stored, fed, errs⟩ := c
  cases pc with
  | entry => exact absurd rfl hp
  | done e => exact absurd rfl (hd e)
  | unwinding su sd e => simp only [step]; split <;> simp [fuel]
  | loopU su sd rest i =>
    cases rest with
    | nil => simp [step, fuel]
    | cons u rest =>
      simp only [step]
      split
      · simp [fuel]
      · split <;> simp [fuel] <;> omega
  | loopD su sd rest j =>
    cases rest with
    | nil => simp [step, fuel]
    | cons d rest =>
      simp only [step]
      split
      · simp [fuel]
      · split <;> simp [fuel]

theorem reaches_done (o : Oracle) (n : Nat) : ∀ (k : Nat) (c : Conf), c.pc ≠ .entry → fuel c.pc ≤ k →
    ∃ e, (steps o n k c).pc = .done e
  | 0, c, hp, hk => by
    obtain ⟨pc, heap, stored, fed, errs⟩ := c
    cases pc <;> simp [fuel] at hk hp ⊢
    exact ⟨_, rfl⟩
  | k + 1, c, hp, hk => by
    by_cases hd : ∃ e, c.pc = .done e
    · obtain ⟨e, he⟩ := hd
      exact ⟨e, by rw [steps_done o n e _ c he]; exact he⟩
    · have hd' : ∀ e, c.pc ≠ .done e := fun e he => hd ⟨e, he⟩
      have hlt := fuel_step o n c hp hd'
      have hne : (step o n c).pc ≠ .entry := by
        obtain ⟨pc, heap, stored, fed, errs⟩ := c
        cases pc with
        | entry => exact absurd rfl hp
        | done e => simp [step]
        | unwinding su sd e => simp only [step]; split <;> simp
        | loopU su sd rest i =>
          cases rest with
          | nil => simp [step]
          | cons u rest =>
            simp only [step]; split
            · simp
            · split <;> simp
        | loopD su sd rest j =>
          cases rest with
          | nil => simp [step]
          | cons d rest =>
            simp only [step]; split
            · simp
            · split <;> simp
      exact reaches_done o n k (step o n c) hne (by omega)

/-! ## the theorems -/

/-- the multi arm is taken -/
def Multi (atomic : Bool) (upd del : List Nat) : Prop := atomic = false ∧ upd.length + del.length > 1

/-- **The caller's notification is restored on every exit path**, and nothing else the caller
owns is touched.  `h0` any heap, `n` any notification object in it, `o` any outcome of the calls
made on the way (rejections and panics included). -/
theorem caller_notification_restored (o : Oracle) (h0 : Heap) (n : Nat) (ts : Int) (pfx : Option Nat)
    (atomic : Bool) (upd del : List Nat) (hn : h0[n]? = some (.noti ts pfx atomic upd del)) :
    (∃ e, (call o n h0).pc = .done e) ∧
    (∀ r, r < h0.length → (call o n h0).heap[r]? = h0[r]?) ∧
    h0.length ≤ (call o n h0).heap.length ∧
    (∀ r ∈ (call o n h0).fed, r ∈ (call o n h0).stored) := by
  have hlt : n < h0.length := (List.getElem?_eq_some_iff.1 hn).1
  unfold call
  rw [hn]
  simp only
  by_cases hm : Multi atomic upd del
  · -- the multi arm: first step clears, then the invariant
    obtain ⟨ha, hgt⟩ := hm
    have h1 : step o n { heap := h0 } =
        { pc := .loopU upd del upd 0, heap := h0.set n (.noti ts pfx atomic [] []) } := by
      simp [step, hn, ha, hgt]
    have hi : Inv h0 n ts pfx atomic upd del
        { pc := .loopU upd del upd 0, heap := h0.set n (.noti ts pfx atomic [] []) } :=
      ⟨by simp, fun r _ h2 => List.getElem?_set_ne (Ne.symm h2),
       ⟨List.getElem?_set_self hlt, rfl, rfl⟩, fun u hu => hu, by simp, by simp⟩
    rw [steps, h1]
    have hI := inv_steps o h0 n ts pfx atomic upd del hlt (upd.length + del.length + 3) _ hi
    obtain ⟨e, he⟩ := reaches_done o n (upd.length + del.length + 3)
      { pc := .loopU upd del upd 0, heap := h0.set n (.noti ts pfx atomic [] []) } (by simp) (by simp [fuel])
    refine ⟨⟨e, he⟩, fun r hr => ?_, hI.len, hI.fed⟩
    by_cases hrn : r = n
    · have := hI.atN
      rw [AtN, he] at this
      rw [hrn, this, hn]
    · exact hI.frame r hr hrn
  · -- every other arm: one step, no write
    have h1 : ∃ e st fd, step o n { heap := h0 } = { pc := .done e, heap := h0, stored := st, fed := fd } ∧
        ∀ r ∈ fd, r ∈ st := by
      unfold Multi at hm
      simp only [step, hn]
      cases atomic
      · have hle : ¬ upd.length + del.length > 1 := fun h => hm ⟨rfl, h⟩
        simp only [Bool.false_eq_true, if_false, hle]
        split
        · cases o.upd 0 with
          | accepted fd => cases fd <;> exact ⟨_, _, _, rfl, by simp⟩
          | rejected => exact ⟨_, _, _, rfl, by simp⟩
          | panics => exact ⟨_, _, _, rfl, by simp⟩
        · split
          · split <;> exact ⟨_, _, _, rfl, by simp⟩
          · exact ⟨_, _, _, rfl, by simp⟩
      · simp only [if_true]
        split
        · exact ⟨_, _, _, rfl, by simp⟩
        · split
          · exact ⟨_, _, _, rfl, by simp⟩
          · cases o.upd 0 with
            | accepted fd => cases fd <;> exact ⟨_, _, _, rfl, by simp⟩
            | rejected => exact ⟨_, _, _, rfl, by simp⟩
            | panics => exact ⟨_, _, _, rfl, by simp⟩
    obtain ⟨e, st, fd, h1, h2⟩ := h1
    rw [steps, h1, steps_done o n e _ _ rfl]
    exact ⟨⟨e, rfl⟩, fun _ _ => rfl, Nat.le_refl _, h2⟩

/-- the panic exit, spelled out: when the call ends in a panic (a unit's `gnmiUpdate`,
`gnmiRemove` or the client callback panicked inside a loop) the deferred restore has run: the
caller's notification is what it was -/
theorem restored_on_panic (o : Oracle) (h0 : Heap) (n : Nat) (ts : Int) (pfx : Option Nat)
    (atomic : Bool) (upd del : List Nat) (hn : h0[n]? = some (.noti ts pfx atomic upd del))
    (_hp : (call o n h0).pc = .done .panic) :
    (call o n h0).heap[n]? = some (.noti ts pfx atomic upd del) := by
  have hlt : n < h0.length := (List.getElem?_eq_some_iff.1 hn).1
  rw [(caller_notification_restored o h0 n ts pfx atomic upd del hn).2.1 n hlt, hn]

/-- a shared prefix object keeps its content and the *other* notification that points to it is
untouched (instance of the frame part) -/
theorem shared_prefix_untouched (o : Oracle) (h0 : Heap) (n m p : Nat) (ts : Int) (atomic : Bool) (upd del : List Nat)
    (hn : h0[n]? = some (.noti ts (some p) atomic upd del)) (hm : m < h0.length) (hp : p < h0.length) :
    (call o n h0).heap[m]? = h0[m]? ∧ (call o n h0).heap[p]? = h0[p]? :=
  ⟨(caller_notification_restored o h0 n ts (some p) atomic upd del hn).2.1 m hm,
   (caller_notification_restored o h0 n ts (some p) atomic upd del hn).2.1 p hp⟩

/-- **During the loops the caller's notification is empty**: at every configuration of the
multi arm between the clearing and the deferred restore, `n.Update = n.Delete = nil`. -/
theorem cleared_while_running (o : Oracle) (h0 : Heap) (n : Nat) (ts : Int) (pfx : Option Nat)
    (upd del : List Nat) (hn : h0[n]? = some (.noti ts pfx false upd del)) (hm : upd.length + del.length > 1)
    (k : Nat) (hk : ∀ e, (steps o n (k + 1) { heap := h0 }).pc ≠ .done e) :
    (steps o n (k + 1) { heap := h0 }).heap[n]? = some (.noti ts pfx false [] []) := by
  have hlt : n < h0.length := (List.getElem?_eq_some_iff.1 hn).1
  have h1 : step o n { heap := h0 } =
      { pc := .loopU upd del upd 0, heap := h0.set n (.noti ts pfx false [] []) } := by
    simp [step, hn, hm]
  have hi : Inv h0 n ts pfx false upd del
      { pc := .loopU upd del upd 0, heap := h0.set n (.noti ts pfx false [] []) } :=
    ⟨by simp, fun r _ h2 => List.getElem?_set_ne (Ne.symm h2),
     ⟨List.getElem?_set_self hlt, rfl, rfl⟩, fun u hu => hu, by simp, by simp⟩
  rw [steps, h1] at hk ⊢
  have hI := (inv_steps o h0 n ts pfx false upd del hlt k _ hi).atN
  unfold AtN at hI
  split at hI
  · exact hI.elim
  · exact hI.1
  · exact hI.1
  · exact hI.1
  · rename_i e he; exact absurd he (hk e)

/-- the invariant at the end of the multi arm -/
theorem multi_inv (o : Oracle) (h0 : Heap) (n : Nat) (ts : Int) (pfx : Option Nat)
    (upd del : List Nat) (hn : h0[n]? = some (.noti ts pfx false upd del)) (hm : upd.length + del.length > 1) :
    Inv h0 n ts pfx false upd del (call o n h0) := by
  have hlt : n < h0.length := (List.getElem?_eq_some_iff.1 hn).1
  have h1 : step o n { heap := h0 } =
      { pc := .loopU upd del upd 0, heap := h0.set n (.noti ts pfx false [] []) } := by
    simp [step, hn, hm]
  have hi : Inv h0 n ts pfx false upd del
      { pc := .loopU upd del upd 0, heap := h0.set n (.noti ts pfx false [] []) } :=
    ⟨by simp, fun r _ h2 => List.getElem?_set_ne (Ne.symm h2),
     ⟨List.getElem?_set_self hlt, rfl, rfl⟩, fun u hu => hu, by simp, by simp⟩
  unfold call
  rw [hn]
  simp only
  rw [steps, h1]
  exact inv_steps o h0 n ts pfx false upd del hlt _ _ hi

/-- **Fresh header, fresh prefix.**  In the multi arm every object stored in the tree (and so
every object handed to the feed, `fed ⊆ stored`) was allocated by this call: it is not the
caller's notification nor any other object of the caller, and neither is its prefix object —
`proto.Clone` is deep, so a prefix object the caller shares between its notifications is *not*
shared with the cache.  (`hwf`: the caller's prefix pointer points to an existing object.) -/
theorem clone_fresh_header_and_prefix (o : Oracle) (h0 : Heap) (n : Nat) (ts : Int) (pfx : Option Nat)
    (upd del : List Nat) (hn : h0[n]? = some (.noti ts pfx false upd del)) (hm : upd.length + del.length > 1)
    (hwf : ∀ p, pfx = some p → p < h0.length) :
    ∀ r ∈ (call o n h0).stored, h0.length ≤ r ∧ r ≠ n ∧
      ∃ pfx' u, (call o n h0).heap[r]? = some (.noti ts pfx' false [u] []) ∧
        pfx'.isSome = pfx.isSome ∧ ∀ p', pfx' = some p' → h0.length ≤ p' ∧ pfx ≠ some p' := by
  have hlt : n < h0.length := (List.getElem?_eq_some_iff.1 hn).1
  intro r hr
  obtain ⟨g1, pfx', u, g2, _, g4, g5⟩ := (multi_inv o h0 n ts pfx upd del hn hm).stored r hr
  exact ⟨g1, fun h => by rw [h] at g1; omega, pfx', u, g2, g4, fun p' hp' => ⟨g5 p' hp', fun hpp => by
    have h1 := hwf p' hpp
    have h2 := g5 p' hp'
    omega⟩⟩

/-- **…but the update message is the caller's own.**  Every unit stored by the multi arm carries
in `Update[0]` a pointer that is an element of the caller's `n.Update` (restored after the call):
the stored leaf and the caller's notification share that `*pb.Update` object. -/
theorem clone_shares_update_object (o : Oracle) (h0 : Heap) (n : Nat) (ts : Int) (pfx : Option Nat)
    (upd del : List Nat) (hn : h0[n]? = some (.noti ts pfx false upd del)) (hm : upd.length + del.length > 1) :
    ∀ r ∈ (call o n h0).stored, ∃ pfx' u, (call o n h0).heap[r]? = some (.noti ts pfx' false [u] []) ∧
      u ∈ upd ∧ (call o n h0).heap[n]? = some (.noti ts pfx false upd del) := by
  have hlt : n < h0.length := (List.getElem?_eq_some_iff.1 hn).1
  intro r hr
  obtain ⟨_, pfx', u, g2, g3, _⟩ := (multi_inv o h0 n ts pfx upd del hn hm).stored r hr
  exact ⟨pfx', u, g2, g3, by
    rw [(caller_notification_restored o h0 n ts pfx false upd del hn).2.1 n hlt, hn]⟩

/-- **Single update / atomic: the caller's own object is stored.**  When the notification is
atomic (with updates, no deletes) or carries exactly one update, an accepted update stores the
pointer `n` itself as the leaf value and hands that same object to the feed; the heap is not
written at all. -/
theorem single_update_stores_callers_object (o : Oracle) (h0 : Heap) (n : Nat) (ts : Int) (pfx : Option Nat)
    (atomic : Bool) (upd del : List Nat) (hn : h0[n]? = some (.noti ts pfx atomic upd del))
    (hs : (atomic = true ∧ del = [] ∧ upd ≠ []) ∨ (atomic = false ∧ upd.length = 1 ∧ del = []))
    (fd : Bool) (ho : o.upd 0 = .accepted fd) :
    call o n h0 = { pc := .done (.ret false), heap := h0, stored := [n], fed := if fd then [n] else [] } := by
  unfold call
  rw [hn]
  simp only
  have h1 : step o n { heap := h0 } =
      { pc := .done (.ret false), heap := h0, stored := [n], fed := if fd then [n] else [] } := by
    rcases hs with ⟨rfl, rfl, hu⟩ | ⟨rfl, hu, rfl⟩
    · cases upd with
      | nil => exact absurd rfl hu
      | cons u us => cases fd <;> simp [step, hn, ho]
    · cases fd <;> simp [step, hn, ho, hu]
  rw [steps, h1, steps_done o n _ _ _ rfl]

/-! ## witnesses (non-vacuity; the aliasing made concrete) -/

/-- a caller's heap: prefix object `0` shared by two notifications `3` (two updates `1`, `2`) and
`5` (one update `4`) -/
def demoHeap : Heap :=
  [.msg "prefix dev", .msg "a=1", .msg "b=2", .noti 7 (some 0) false [1, 2] [], .msg "c=3",
   .noti 8 (some 0) false [4] []]

/-- every unit accepted and fed -/
def allOk : Oracle := { upd := fun _ => .accepted true, del := fun _ => false }
/-- the second unit panics -/
def secondPanics : Oracle := { upd := fun i => if i = 1 then .panics else .accepted true, del := fun _ => false }

/-- the multi arm on notification `3`: two fresh prefix copies (6, 8), two fresh notifications
(7, 9) stored and fed, each pointing to the caller's update object (1, resp. 2); the caller's
six objects as before -/
example :
    (call allOk 3 demoHeap).pc = .done (.ret false) ∧
    (call allOk 3 demoHeap).stored = [7, 9] ∧ (call allOk 3 demoHeap).fed = [7, 9] ∧
    (call allOk 3 demoHeap).heap = demoHeap ++
      [.msg "prefix dev", .noti 7 (some 6) false [1] [], .msg "prefix dev", .noti 7 (some 8) false [2] []] := by
  decide

/-- **"a fresh clone sharing no mutable part with the caller's" is false**: the stored unit `7`
and the caller's notification `3` both point to the update object `1` -/
theorem clone_never_aliases_false :
    (call allOk 3 demoHeap).heap[7]? = some (.noti 7 (some 6) false [1] []) ∧
    (call allOk 3 demoHeap).heap[3]? = some (.noti 7 (some 0) false [1, 2] []) ∧
    7 ∈ (call allOk 3 demoHeap).stored := by
  decide

/-- a panic in the second unit: the call ends in a panic, the first unit is in the tree, and the
caller's notification has its two updates back -/
example :
    (call secondPanics 3 demoHeap).pc = .done .panic ∧
    (call secondPanics 3 demoHeap).stored = [7] ∧
    (call secondPanics 3 demoHeap).heap[3]? = some (.noti 7 (some 0) false [1, 2] []) ∧
    (steps secondPanics 3 2 { heap := demoHeap }).heap[3]? = some (.noti 7 (some 0) false [] []) := by
  decide

/-- the single-update arm on notification `5`: the caller's own object is the leaf value -/
example : call allOk 5 demoHeap = { pc := .done (.ret false), heap := demoHeap, stored := [5], fed := [5] } :=
  single_update_stores_callers_object allOk demoHeap 5 8 (some 0) false [4] [] rfl (Or.inr ⟨rfl, rfl, rfl⟩) true rfl

end CacheMut
end Gnmi
